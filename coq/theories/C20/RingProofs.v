(* C20 — ring-level facts about the code-level model of Polygon::normalize(LinearRing*, bool):
   the minimum coordinate is order independent, scrolling a rotation of a ring with a unique minimum vertex gives the same
   sequence, and norm_ring is canonical (ring start, ring direction) and idempotent under the stated hypotheses —
   and NOT without them (refuted, with the witnesses the implementation also exhibits). *)
From Coq Require Import ZArith List Bool Lia Arith Permutation.
From GeosV.C20 Require Import Defs HullProofs.
Import ListNotations.
Local Open Scope Z_scope.

(* ------------------------------------------------------------------ coordinate order *)
Definition ple (a b : pt) : Prop := px a < px b \/ (px a = px b /\ py a <= py b).
Lemma cmp_pt_Gt : forall a b, cmp_pt a b = Gt <-> ~ ple a b.
Proof.
  intros a b. unfold cmp_pt, ple. destruct (Z.compare_spec (px a) (px b)); destruct (Z.compare_spec (py a) (py b));
    split; intros H'; try discriminate; try reflexivity; try lia; exfalso; apply H'; lia.
Qed.
Lemma cmp_pt_Lt : forall a b, cmp_pt a b = Lt <-> ~ ple b a.
Proof.
  intros a b. unfold cmp_pt, ple. destruct (Z.compare_spec (px a) (px b)); destruct (Z.compare_spec (py a) (py b));
    split; intros H'; try discriminate; try reflexivity; try lia; exfalso; apply H'; lia.
Qed.
Lemma ple_refl : forall a, ple a a. Proof. intros a. unfold ple. lia. Qed.
Lemma ple_trans : forall a b c, ple a b -> ple b c -> ple a c. Proof. unfold ple. intros. lia. Qed.
Lemma ple_total : forall a b, ple a b \/ ple b a. Proof. unfold ple. intros. lia. Qed.
Lemma ple_antisym : forall a b : pt, ple a b -> ple b a -> a = b.
Proof. intros [ax ay] [bx by_]. unfold ple, px, py. cbn [fst snd]. intros. f_equal; lia. Qed.

Lemma cmp_pt_notGt : forall a b, cmp_pt a b <> Gt -> ple a b.
Proof. intros a b H. rewrite cmp_pt_Gt in H. unfold ple in *. lia. Qed.
Lemma cmp_pt_Gt_ple : forall a b, cmp_pt a b = Gt -> ple b a.
Proof. intros a b H. apply cmp_pt_Gt in H. unfold ple in *. lia. Qed.
(* min_coord returns a smallest element *)
Lemma min_coord_from_spec : forall l m, let r := min_coord_from m l in In r (m :: l) /\ forall x, In x (m :: l) -> ple r x.
Proof.
  induction l as [|p t IH]; intros m; cbn [min_coord_from].
  - split; [left; reflexivity|]. intros x [<-|[]]. apply ple_refl.
  - destruct (cmp_pt m p) eqn:E; cbn zeta.
    + specialize (IH m). cbn zeta in IH. destruct IH as [I1 I2]. split.
      * destruct I1 as [I1|I1]; [left; exact I1|right; right; exact I1].
      * intros x [<-|[<-|Hx]]; [apply I2; left; reflexivity| |apply I2; right; exact Hx].
        apply (ple_trans _ m); [apply I2; left; reflexivity|]. apply cmp_pt_notGt. congruence.
    + specialize (IH m). cbn zeta in IH. destruct IH as [I1 I2]. split.
      * destruct I1 as [I1|I1]; [left; exact I1|right; right; exact I1].
      * intros x [<-|[<-|Hx]]; [apply I2; left; reflexivity| |apply I2; right; exact Hx].
        apply (ple_trans _ m); [apply I2; left; reflexivity|]. apply cmp_pt_notGt. congruence.
    + specialize (IH p). cbn zeta in IH. destruct IH as [I1 I2]. split.
      * right. exact I1.
      * intros x [<-|[<-|Hx]]; [|apply I2; left; reflexivity|apply I2; right; exact Hx].
        apply (ple_trans _ p); [apply I2; left; reflexivity|]. apply cmp_pt_Gt_ple. exact E.
Qed.
Definition is_min (m : pt) (l : list pt) : Prop := In m l /\ forall x, In x l -> ple m x.
Lemma min_coord_spec : forall l, l <> [] -> is_min (min_coord l) l.
Proof. intros [|p t] H; [congruence|]. apply (min_coord_from_spec t p). Qed.
Lemma is_min_unique : forall m m' l, is_min m l -> is_min m' l -> m = m'.
Proof. intros m m' l [I1 M1] [I2 M2]. apply ple_antisym; auto. Qed.
(* ... hence it only depends on the set of elements *)
Lemma min_coord_same_elements : forall l l', l <> [] -> (forall x, In x l <-> In x l') -> min_coord l = min_coord l'.
Proof.
  intros l l' Hne Hs. assert (l' <> []) by (destruct l as [|p t]; [congruence|]; intros ->; apply (Hs p); left; reflexivity).
  apply (is_min_unique _ _ l); [apply min_coord_spec; assumption|].
  destruct (min_coord_spec l' H) as [I M]. split; [apply Hs; exact I|]. intros x Hx. apply M. apply Hs. exact Hx.
Qed.

(* ------------------------------------------------------------------ index_of / scroll *)
Lemma mem_pt_false : forall p l, mem_pt p l = false <-> ~ In p l.
Proof. intros p l. rewrite <- mem_pt_In. destruct (mem_pt p l); split; congruence. Qed.
Lemma index_of_app : forall m a b, ~ In m a -> index_of m (a ++ m :: b) = length a.
Proof.
  intros m a b. induction a as [|x r IH]; intros H; cbn [app index_of length].
  - rewrite pt_eqb_refl. reflexivity.
  - assert (pt_eqb m x = false) by (apply pt_eqb_neq; intros ->; apply H; left; reflexivity). rewrite H0. f_equal. apply IH.
    intros H1. apply H. right. exact H1.
Qed.
Lemma rotate_to_app : forall {A} (a b : list A), rotate_to (length a) (a ++ b) = b ++ a.
Proof. intros A a b. unfold rotate_to. rewrite skipn_app, firstn_app, Nat.sub_diag, skipn_all, firstn_all. cbn. rewrite app_nil_r. reflexivity. Qed.
Lemma scroll_app : forall m a b, ~ In m a -> scroll m (a ++ m :: b) = m :: b ++ a.
Proof. intros m a b H. unfold scroll. rewrite index_of_app by exact H. rewrite rotate_to_app. reflexivity. Qed.

Lemma count_pt_app : forall p a b, count_pt p (a ++ b) = (count_pt p a + count_pt p b)%nat.
Proof. intros. unfold count_pt. rewrite filter_app, app_length. reflexivity. Qed.
Lemma count_pt_cons : forall p x l, count_pt p (x :: l) = ((if pt_eqb p x then 1 else 0) + count_pt p l)%nat.
Proof. intros. unfold count_pt. cbn [filter]. destruct (pt_eqb p x); reflexivity. Qed.
Lemma count_pt_zero : forall p l, count_pt p l = 0%nat <-> ~ In p l.
Proof.
  intros p l. induction l as [|x r IH]; [cbn; tauto|]. rewrite count_pt_cons. cbn [In].
  destruct (pt_eqb p x) eqn:E; [apply pt_eqb_eq in E; subst; split; [discriminate|intros H; exfalso; apply H; left; reflexivity]|].
  apply pt_eqb_neq in E. rewrite Nat.add_0_l, IH. split; [intros H [H1|H1]; [congruence|tauto]|tauto].
Qed.
Lemma count_pt_pos : forall p l, In p l -> (1 <= count_pt p l)%nat.
Proof. intros p l H. destruct (count_pt p l) eqn:E; [apply count_pt_zero in E; tauto|lia]. Qed.
(* a vertex that occurs exactly once splits the list *)
Lemma unique_split : forall m l, count_pt m l = 1%nat -> exists a b, l = a ++ m :: b /\ ~ In m a /\ ~ In m b.
Proof.
  intros m l H. assert (Hin : In m l).
  { destruct (mem_pt m l) eqn:Em; [apply mem_pt_In in Em; exact Em|]. apply mem_pt_false, count_pt_zero in Em. lia. }
  induction l as [|x r IH]; [destruct Hin|]. rewrite count_pt_cons in H. destruct (pt_eqb m x) eqn:E.
  - apply pt_eqb_eq in E. subst x. exists [], r. split; [reflexivity|]. split; [tauto|]. apply count_pt_zero. lia.
  - apply pt_eqb_neq in E. destruct Hin as [->|Hin]; [congruence|]. destruct (IH H Hin) as (a & b & -> & Ha & Hb).
    exists (x :: a), b. split; [reflexivity|]. split; [|exact Hb]. intros [->|H1]; [congruence|tauto].
Qed.

(* ------------------------------------------------------------------ rotations *)
Definition rot {A} (l l' : list A) : Prop := exists a b, l = a ++ b /\ l' = b ++ a.
Lemma rot_In : forall {A} (l l' : list A) x, rot l l' -> (In x l <-> In x l').
Proof. intros A l l' x (a & b & -> & ->). rewrite !in_app_iff. tauto. Qed.
Lemma rot_length : forall {A} (l l' : list A), rot l l' -> length l = length l'.
Proof. intros A l l' (a & b & -> & ->). rewrite !app_length. lia. Qed.

(* scrolling any rotation of a list with a unique m to m gives the same list *)
Lemma scroll_rot : forall m l l', count_pt m l = 1%nat -> rot l l' -> scroll m l' = scroll m l.
Proof.
  intros m l l' Hc (u & v & -> & ->). destruct (unique_split m _ Hc) as (a & b & E & Ha & Hb).
  rewrite E, scroll_app by exact Ha.
  (* m sits either in u or in v *)
  assert (Hcases : (exists u2, u = a ++ m :: u2 /\ b = u2 ++ v) \/ (exists v1, v = v1 ++ m :: b /\ a = u ++ v1)).
  { clear Hc. revert a E Ha. induction u as [|x u IH]; intros a E Ha.
    - right. exists a. cbn in E. split; [exact E|reflexivity].
    - destruct a as [|y a'].
      + cbn in E. inversion E; subst. left. exists u. split; reflexivity.
      + cbn in E. inversion E; subst. destruct (IH a' H1) as [(u2 & -> & ->)|(v1 & -> & ->)].
        * intros H; apply Ha; right; exact H.
        * left. exists u2. split; reflexivity.
        * right. exists v1. split; reflexivity. }
  destruct Hcases as [(u2 & -> & ->)|(v1 & -> & ->)].
  - replace (v ++ a ++ m :: u2) with ((v ++ a) ++ m :: u2) by (rewrite <- app_assoc; reflexivity).
    rewrite scroll_app; [rewrite <- !app_assoc; reflexivity|].
    intros H. apply in_app_or in H. destruct H as [H|H]; [apply Hb; apply in_or_app; right; exact H|tauto].
  - replace ((v1 ++ m :: b) ++ u) with (v1 ++ m :: (b ++ u)) by (rewrite <- app_assoc; reflexivity).
    rewrite scroll_app; [rewrite <- !app_assoc; reflexivity|].
    intros H. apply Ha. apply in_or_app. right. exact H.
Qed.

(* ------------------------------------------------------------------ normal form of a ring given by its open vertex list *)
Definition norm_open (cw : bool) (o : list pt) : list pt :=
  let c := close_ring POLY_CLOSE_ALLOW_REPEATED (scroll (min_coord o) o) in if Bool.eqb (isCCW c) cw then rev c else c.
Lemma norm_ring_open : forall cw o x, norm_ring cw (o ++ [x]) = norm_open cw o.
Proof.
  intros cw o x. unfold norm_ring, norm_open. rewrite removelast_last. destruct (o ++ [x]) eqn:E; [destruct o; discriminate|reflexivity].
Qed.
(* the hypothesis on Orientation::isCCW: it answers oppositely for the two directions of the scrolled, closed ring *)
Definition orient_det (o : list pt) : Prop :=
  let c := close_ring POLY_CLOSE_ALLOW_REPEATED (scroll (min_coord o) o) in isCCW (rev c) = negb (isCCW c).

Lemma close_unique_gen : forall allow m t, ~ In m t -> t <> [] -> close_ring allow (m :: t) = m :: t ++ [m].
Proof.
  intros allow m t Hn Hne. unfold close_ring.
  assert (pt_eqb m (last (m :: t) m) = false).
  { apply pt_eqb_neq. intros E. apply Hn. destruct t as [|y r]; [congruence|].
    change (last (m :: y :: r) m) with (last (y :: r) m) in E.
    assert (Hl : In (last (y :: r) m) (y :: r)).
    { destruct (exists_last (l := y :: r)) as (l' & z & El); [discriminate|]. rewrite El, last_last. apply in_or_app. right. left. reflexivity. }
    rewrite <- E in Hl. exact Hl. }
  rewrite H. destruct allow; reflexivity.
Qed.
Lemma close_unique : forall m t, ~ In m t -> t <> [] -> close_ring POLY_CLOSE_ALLOW_REPEATED (m :: t) = m :: t ++ [m].
Proof. intros. apply close_unique_gen; assumption. Qed.

Section RingTheorems.
  Variables (cw : bool) (o : list pt).
  Hypothesis Huniq : count_pt (min_coord o) o = 1%nat.
  Hypothesis Hlen : (2 <= length o)%nat.
  Let m := min_coord o.

  Lemma o_split : exists a b, o = a ++ m :: b /\ ~ In m a /\ ~ In m b /\ b ++ a <> [].
  Proof.
    destruct (unique_split m o Huniq) as (a & b & E & Ha & Hb). exists a, b. repeat split; auto.
    intros H. apply app_eq_nil in H. destruct H as [Hb0 Ha0]. apply (f_equal (@length pt)) in E. rewrite Hb0, Ha0 in E. cbn in E. lia.
  Qed.

  (* ring start: any rotation has the same normal form *)
  Theorem norm_open_rot : forall o', rot o o' -> norm_open cw o' = norm_open cw o.
  Proof.
    intros o' Hr. unfold norm_open.
    assert (Hne : o <> []) by (destruct o; [cbn in Hlen; lia|discriminate]).
    rewrite <- (min_coord_same_elements o o' Hne (fun x => rot_In o o' x Hr)).
    rewrite (scroll_rot (min_coord o) o o' Huniq Hr). reflexivity.
  Qed.

  (* ring direction: the reversed ring (and any rotation of it) has the same normal form, provided isCCW is direction-determinate *)
  Theorem norm_open_rev : orient_det o -> forall o', rot (rev o) o' -> norm_open cw o' = norm_open cw o.
  Proof.
    intros Hdet o' Hr. destruct o_split as (a & b & E & Ha & Hb & Hne).
    assert (Hne0 : o <> []) by (destruct o; [cbn in Hlen; lia|discriminate]).
    assert (Hmin' : min_coord o' = m).
    { symmetry. apply min_coord_same_elements; [exact Hne0|]. intros x. rewrite <- (rot_In (rev o) o' x Hr). apply in_rev. }
    assert (Hrev : rev o = rev b ++ m :: rev a) by (rewrite E, rev_app_distr; cbn [rev]; rewrite <- app_assoc; reflexivity).
    assert (Hcr : count_pt m (rev o) = 1%nat).
    { rewrite Hrev, count_pt_app, count_pt_cons, pt_eqb_refl.
      assert (count_pt m (rev b) = 0%nat) by (apply count_pt_zero; rewrite <- in_rev; exact Hb).
      assert (count_pt m (rev a) = 0%nat) by (apply count_pt_zero; rewrite <- in_rev; exact Ha). lia. }
    unfold orient_det in Hdet. unfold norm_open. rewrite Hmin'. fold m in Hdet |- *.
    rewrite (scroll_rot m (rev o) o' Hcr Hr). rewrite Hrev, scroll_app by (rewrite <- in_rev; exact Hb).
    rewrite E, scroll_app in Hdet |- * by exact Ha.
    rewrite <- rev_app_distr.
    assert (Hn1 : ~ In m (b ++ a)) by (intros H; apply in_app_or in H; tauto).
    assert (Hn2 : ~ In m (rev (b ++ a))) by (rewrite <- in_rev; exact Hn1).
    assert (Hne2 : rev (b ++ a) <> []) by (intros H; apply Hne; apply (f_equal (@rev pt)) in H; rewrite rev_involutive in H; exact H).
    rewrite (close_unique m _ Hn1 Hne) in Hdet |- *. rewrite (close_unique m _ Hn2 Hne2).
    set (c := m :: (b ++ a) ++ [m]) in *.
    assert (Hc : m :: rev (b ++ a) ++ [m] = rev c).
    { unfold c. cbn [rev]. rewrite (rev_app_distr (b ++ a) [m]). reflexivity. }
    rewrite Hc, Hdet, rev_involutive. destruct (isCCW c), cw; reflexivity.
  Qed.

  (* idempotence *)
  Theorem norm_open_idem : orient_det o -> norm_ring cw (norm_open cw o) = norm_open cw o.
  Proof.
    intros Hdet. destruct o_split as (a & b & E & Ha & Hb & Hne).
    assert (Hne0 : o <> []) by (destruct o; [cbn in Hlen; lia|discriminate]).
    unfold orient_det in Hdet. unfold norm_open at 2. unfold norm_open. fold m in Hdet |- *.
    rewrite E, scroll_app in Hdet |- * by exact Ha.
    assert (Hn1 : ~ In m (b ++ a)) by (intros H; apply in_app_or in H; tauto).
    rewrite (close_unique m _ Hn1 Hne) in Hdet |- *.
    set (t := b ++ a) in *. set (c := m :: t ++ [m]) in *.
    (* both candidates have the shape m :: u ++ [m] with the same elements as o *)
    assert (Hshape : forall u, (forall x, In x u <-> In x t) -> u <> [] -> ~ In m u ->
              isCCW (m :: u ++ [m]) = negb cw -> norm_ring cw (m :: u ++ [m]) = m :: u ++ [m]).
    { intros u Hu Hune Hnu Hor. change (m :: u ++ [m]) with ((m :: u) ++ [m]). rewrite norm_ring_open. unfold norm_open.
      assert (Hmin : min_coord (m :: u) = m).
      { symmetry. unfold m. apply min_coord_same_elements; [exact Hne0|]. intros x. fold m. rewrite E at 1. cbn [In]. rewrite in_app_iff. cbn [In].
        rewrite Hu. unfold t. rewrite in_app_iff. tauto. }
      rewrite Hmin. unfold scroll. cbn [index_of]. rewrite pt_eqb_refl. unfold rotate_to. cbn [skipn firstn]. rewrite app_nil_r.
      rewrite (close_unique m u Hnu Hune). rewrite Hor. destruct cw; reflexivity. }
    destruct (Bool.eqb (isCCW c) cw) eqn:Eo.
    - apply eqb_prop in Eo.
      assert (Hc : rev c = m :: rev t ++ [m]) by (unfold c; cbn [rev]; rewrite (rev_app_distr t [m]); reflexivity).
      rewrite Hc. apply (Hshape (rev t)).
      + intros x. symmetry. apply in_rev.
      + intros H. apply Hne. apply (f_equal (@rev pt)) in H. rewrite rev_involutive in H. exact H.
      + rewrite <- in_rev. exact Hn1.
      + rewrite <- Hc, Hdet, Eo. reflexivity.
    - apply eqb_false_iff in Eo. apply (Hshape t).
      + intros x. tauto.
      + exact Hne.
      + exact Hn1.
      + fold c. destruct (isCCW c), cw; try reflexivity; congruence.
  Qed.
End RingTheorems.

(* ------------------------------------------------------------------ without the hypotheses the statements are false (the implementation shows the same outputs) *)
(* bow-tie: isCCW is true for both directions, every call reverses the ring *)
Theorem norm_ring_idempotent_refuted_bowtie : exists r, norm_ring true (norm_ring true r) <> norm_ring true r.
Proof. exists [(0,0); (2,2); (2,0); (0,2); (0,0)]. vm_compute. intros H; discriminate. Qed.
(* flat ring: isCCW is false for both directions, the two directions keep different normal forms *)
Theorem norm_ring_direction_refuted : exists r, norm_ring true (rev r) <> norm_ring true r.
Proof. exists [(0,0); (1,0); (2,0); (0,0)]. vm_compute. intros H; discriminate. Qed.
(* minimum vertex repeated: two start points of the same ring keep different normal forms *)
Theorem norm_ring_start_refuted : exists o o', rot o o' /\ norm_open true o' <> norm_open true o.
Proof.
  exists [(0,0); (0,0); (1,1); (1,0)], [(0,0); (1,1); (1,0); (0,0)]. split.
  - exists [(0,0)], [(0,0); (1,1); (1,0)]. split; reflexivity.
  - vm_compute. intros H; discriminate.
Qed.
(* non-vacuity of the positive theorems *)
Example ring_hyps_ex : let o := [(3,1); (0,0); (4,0); (4,3)] in count_pt (min_coord o) o = 1%nat /\ orient_det o.
Proof. vm_compute. split; reflexivity. Qed.
Example norm_open_ex : norm_open true [(3,1); (0,0); (4,0); (4,3)] = [(0,0); (3,1); (4,3); (4,0); (0,0)]
  /\ norm_open true (rev [(4,0); (4,3); (3,1); (0,0)]) = [(0,0); (3,1); (4,3); (4,0); (0,0)].
Proof. vm_compute. split; reflexivity. Qed.
