(* C20 — normalize on the geometry tree (code-level model M): idempotent, canonical with respect to ring start, ring
   direction and element order, and measure preserving, under the hypotheses stated in norm_hyp / Dc; the ring-level
   counterexamples of RingProofs show the hypotheses are needed. *)
From Coq Require Import ZArith List Bool Lia Arith Permutation.
From GeosV.C20 Require Import Defs HullProofs CentroidProofs SortProofs CmpProofs RingProofs MeasureProofs.
Import ListNotations.

(* ------------------------------------------------------------------ hypotheses *)
(* a closed ring r = o ++ [first o] whose minimum vertex occurs once and on which isCCW is direction-determinate *)
Definition ring_core (minlen : nat) (r : list pt) : Prop :=
  exists o, r = o ++ [hd (0, 0)%Z o] /\ count_pt (min_coord o) o = 1%nat /\ (minlen <= length o)%nat /\ orient_det o.
Definition ring_hyp (r : list pt) : Prop := r = [] \/ ring_core 2 r.
Definition curve_hyp (c : list pt) : Prop := length c <> 1%nat /\ (is_closed c = true -> ring_core 3 c).
Fixpoint norm_hyp (g : geom) : Prop :=
  match g with
  | GPoint _ => True
  | GLine c | GRing c => curve_hyp c
  | GPoly s hs => ring_hyp s /\ Forall ring_hyp hs
  | GColl _ gs => (fix all (l : list geom) : Prop := match l with [] => True | x :: r => norm_hyp x /\ all r end) gs
  end.
Lemma norm_hyp_coll : forall t gs, norm_hyp (GColl t gs) <-> Forall norm_hyp gs.
Proof.
  intros t gs. cbn [norm_hyp]. induction gs as [|x r IH]; [split; constructor|]. split.
  - intros [Hx Hr]. constructor; [exact Hx|apply IH; exact Hr].
  - intros HF. inversion HF; subst. split; [assumption|apply IH; assumption].
Qed.

(* ------------------------------------------------------------------ rings *)
Lemma ring_core_norm : forall k cw r, ring_core k r -> (2 <= k)%nat ->
  exists o, r = o ++ [hd (0, 0)%Z o] /\ norm_ring cw r = norm_open cw o /\ count_pt (min_coord o) o = 1%nat /\ (2 <= length o)%nat /\ orient_det o.
Proof.
  intros k cw r (o & -> & Hc & Hl & Hd) Hk. exists o. split; [reflexivity|]. split; [apply norm_ring_open|]. repeat split; auto. lia.
Qed.
Lemma norm_ring_idem : forall cw r, ring_hyp r -> norm_ring cw (norm_ring cw r) = norm_ring cw r.
Proof.
  intros cw r [->|H]; [reflexivity|]. destruct (ring_core_norm 2 cw r H (le_n 2)) as (o & -> & E & Hc & Hl & Hd).
  rewrite E. apply norm_open_idem; assumption.
Qed.
(* the scrolled closed ring, and what norm_open returns *)
Lemma norm_open_cases : forall cw o, count_pt (min_coord o) o = 1%nat -> (2 <= length o)%nat ->
  exists a b, o = a ++ min_coord o :: b /\ ~ In (min_coord o) a /\ ~ In (min_coord o) b /\
    let c := min_coord o :: (b ++ a) ++ [min_coord o] in (norm_open cw o = c \/ norm_open cw o = rev c) /\
    close_ring POLY_CLOSE_ALLOW_REPEATED (scroll (min_coord o) o) = c.
Proof.
  intros cw o Hc Hl. destruct (o_split o Hc Hl) as (a & b & E & Ha & Hb & Hne). exists a, b.
  split; [exact E|]. split; [exact Ha|]. split; [exact Hb|]. cbn zeta.
  assert (Hn : ~ In (min_coord o) (b ++ a)) by (intros H; apply in_app_or in H; tauto).
  assert (Hcl : close_ring POLY_CLOSE_ALLOW_REPEATED (scroll (min_coord o) o) = min_coord o :: (b ++ a) ++ [min_coord o]).
  { remember (min_coord o) as m eqn:Em. rewrite E. rewrite scroll_app by exact Ha. apply close_unique; assumption. }
  split; [|exact Hcl]. unfold norm_open. rewrite Hcl. destruct (Bool.eqb _ cw); [right|left]; reflexivity.
Qed.
Lemma norm_ring_nonempty : forall cw r, ring_hyp r -> (norm_ring cw r = [] <-> r = []).
Proof.
  intros cw r [->|H]; [split; reflexivity|]. destruct (ring_core_norm 2 cw r H (le_n 2)) as (o & -> & E & Hc & Hl & Hd).
  rewrite E. destruct (norm_open_cases cw o Hc Hl) as (a & b & _ & _ & _ & [[->| ->] _]); split; intros H0; try discriminate.
  - destruct o; discriminate.
  - apply (f_equal (@length pt)) in H0. rewrite rev_length in H0. discriminate.
  - destruct o; discriminate.
Qed.

(* closed curves (LineString / LinearRing) with >= 4 points behave like a clockwise-normalised ring *)
Lemma norm_closed_open : forall o x, count_pt (min_coord o) o = 1%nat -> (3 <= length o)%nat -> norm_closed (o ++ [x]) = norm_open true o.
Proof.
  intros o x Hc Hl. assert (Hl2 : (2 <= length o)%nat) by lia.
  destruct (norm_open_cases true o Hc Hl2) as (a & b & E & Ha & Hb & _ & Hcl). cbn zeta in Hcl.
  assert (Hn : ~ In (min_coord o) (b ++ a)) by (intros H; apply in_app_or in H; tauto).
  assert (Hcl2 : close_ring true (scroll (min_coord o) o) = min_coord o :: (b ++ a) ++ [min_coord o]).
  { assert (Hne : b ++ a <> []).
    { intros H. apply app_eq_nil in H. destruct H as [Hb0 Ha0]. apply (f_equal (@length pt)) in E. rewrite Hb0, Ha0 in E. cbn in E. lia. }
    remember (min_coord o) as m eqn:Em. rewrite E. rewrite scroll_app by exact Ha. apply close_unique_gen; assumption. }
  unfold norm_closed, norm_open. rewrite removelast_last, Hcl, Hcl2.
  assert (Hlen : (4 <=? length (min_coord o :: (b ++ a) ++ [min_coord o]))%nat = true).
  { apply Nat.leb_le. cbn [length]. rewrite !app_length. cbn [length]. apply (f_equal (@length pt)) in E.
    rewrite app_length in E. cbn [length] in E. lia. }
  rewrite Hlen. cbn [andb]. destruct (isCCW _); reflexivity.
Qed.
(* what norm_open returns: the minimum vertex, the other vertices in one of the two directions, the minimum vertex again;
   isCCW of the result is the opposite of `cw` *)
Lemma norm_open_shape : forall cw o, count_pt (min_coord o) o = 1%nat -> (2 <= length o)%nat -> orient_det o ->
  exists u : list pt, norm_open cw o = min_coord o :: u ++ [min_coord o] /\ ~ In (min_coord o) u /\ u <> [] /\ Permutation (min_coord o :: u) o /\ isCCW (min_coord o :: u ++ [min_coord o]) = negb cw.
Proof.
  intros cw o Hc Hl Hd. destruct (norm_open_cases cw o Hc Hl) as (a & b & E & Ha & Hb & _ & Hcl). cbn zeta in Hcl.
  assert (Hn : ~ In (min_coord o) (b ++ a)) by (intros H; apply in_app_or in H; tauto).
  assert (Hne : b ++ a <> []).
  { intros H. apply app_eq_nil in H. destruct H as [Hb0 Ha0]. apply (f_equal (@length pt)) in E. rewrite Hb0, Ha0 in E. cbn in E. lia. }
  unfold orient_det in Hd. cbn zeta in Hd. unfold norm_open. rewrite Hcl in *. set (m := min_coord o) in *. set (t := b ++ a) in *.
  assert (Hrev : rev (m :: t ++ [m]) = m :: rev t ++ [m]) by (cbn [rev]; rewrite (rev_app_distr t [m]); reflexivity).
  assert (Hperm : Permutation (m :: t) o).
  { rewrite E. unfold t. apply Permutation_sym. apply Permutation_trans with (m :: a ++ b); [apply Permutation_sym, Permutation_middle|constructor; apply Permutation_app_comm]. }
  destruct (Bool.eqb (isCCW (m :: t ++ [m])) cw) eqn:Eo.
  - apply eqb_prop in Eo. exists (rev t). rewrite Hrev. split; [reflexivity|]. split; [rewrite <- in_rev; exact Hn|]. split.
    + intros H. apply Hne. apply (f_equal (@rev pt)) in H. rewrite rev_involutive in H. exact H.
    + split; [rewrite <- Hperm; constructor; symmetry; apply Permutation_rev|]. rewrite <- Hrev, Hd, Eo. reflexivity.
  - apply eqb_false_iff in Eo. exists t. split; [reflexivity|]. split; [exact Hn|]. split; [exact Hne|]. split; [exact Hperm|].
    destruct (isCCW (m :: t ++ [m])), cw; try reflexivity; congruence.
Qed.
Lemma shape_fix : forall cw m u, min_coord (m :: u) = m -> ~ In m u -> u <> [] -> isCCW (m :: u ++ [m]) = negb cw ->
  norm_open cw (m :: u) = m :: u ++ [m].
Proof.
  intros cw m u Hm Hn Hne Hor. unfold norm_open. rewrite Hm. unfold scroll. cbn [index_of]. rewrite pt_eqb_refl.
  unfold rotate_to. cbn [skipn firstn]. rewrite app_nil_r. rewrite (close_unique m u Hn Hne), Hor. destruct cw; reflexivity.
Qed.
Lemma min_coord_perm : forall l l', l <> [] -> Permutation l l' -> min_coord l = min_coord l'.
Proof. intros l l' Hne HP. apply min_coord_same_elements; [exact Hne|]. intros x. split; intros H; [eapply Permutation_in; [exact HP|exact H]|eapply Permutation_in; [symmetry; exact HP|exact H]]. Qed.
Lemma count_pt_perm : forall p l l', Permutation l l' -> count_pt p l = count_pt p l'.
Proof. intros p l l' H. induction H; rewrite ?count_pt_cons in *; lia. Qed.

(* ------------------------------------------------------------------ curves *)
Lemma first_diff_opp : forall a b k, first_diff b a k = CompOpp (first_diff a b k).
Proof.
  induction a as [|x ra IH]; intros [|y rb] [|k]; cbn [first_diff]; try reflexivity.
  destruct (pt_eqb x y) eqn:E.
  - apply pt_eqb_eq in E. subst y. rewrite pt_eqb_refl. apply IH.
  - assert (pt_eqb y x = false) by (apply pt_eqb_neq; apply pt_eqb_neq in E; congruence). rewrite H.
    destruct (good_cmp_pt x) as (_ & _ & An & _). apply An. exact I.
Qed.
Lemma is_closed_rev : forall c, is_closed (rev c) = is_closed c.
Proof.
  intros c. destruct c as [|f r]; [reflexivity|]. destruct (exists_last (l := f :: r)) as (l' & z & E); [discriminate|].
  rewrite E. rewrite rev_app_distr. cbn [rev app]. destruct l' as [|g l'']; [reflexivity|].
  cbv beta iota delta [is_closed]. cbn [rev app].
  change (last (g :: l'' ++ [z]) g) with (last ((g :: l'') ++ [z]) g). rewrite last_last.
  change (last (z :: rev l'' ++ [g]) z) with (last ((z :: rev l'') ++ [g]) z). rewrite last_last.
  destruct (pt_eqb z g) eqn:E1.
  - apply pt_eqb_eq in E1. subst. symmetry. apply pt_eqb_refl.
  - symmetry. apply pt_eqb_neq. apply pt_eqb_neq in E1. congruence.
Qed.
Lemma norm_line_unfold : forall c, c <> [] ->
  norm_line c = if is_closed c then norm_closed c else match first_diff c (rev c) (length c / 2) with Gt => rev c | _ => c end.
Proof. intros [|f r] H; [congruence|reflexivity]. Qed.
Lemma norm_line_idem : forall c, curve_hyp c -> norm_line (norm_line c) = norm_line c.
Proof.
  intros c [Hl Hc]. destruct (list_eq_dec (fun a b : pt => match Z.eq_dec (fst a) (fst b), Z.eq_dec (snd a) (snd b) with
     | left e1, left e2 => left (match a, b return fst a = fst b -> snd a = snd b -> a = b with (a1, a2), (b1, b2) => fun e1 e2 => f_equal2 pair e1 e2 end e1 e2)
     | right n, _ => right (fun E => n (f_equal fst E)) | _, right n => right (fun E => n (f_equal snd E)) end) c []) as [->|Hne]; [reflexivity|].
  rewrite (norm_line_unfold c Hne). destruct (is_closed c) eqn:Ecl.
  - destruct (Hc eq_refl) as (o & Eo & Hcnt & Hlen & Hd). rewrite Eo. rewrite (norm_closed_open o _ Hcnt Hlen).
    assert (Hl2 : (2 <= length o)%nat) by lia.
    destruct (norm_open_shape true o Hcnt Hl2 Hd) as (u & E & Hn & Hune & HP & Hor). rewrite E.
    set (m := min_coord o) in *.
    assert (Hcl : is_closed (m :: u ++ [m]) = true).
    { cbv beta iota delta [is_closed]. change (m :: u ++ [m]) with ((m :: u) ++ [m]). rewrite last_last. apply pt_eqb_refl. }
    rewrite norm_line_unfold by discriminate. rewrite Hcl. change (m :: u ++ [m]) with ((m :: u) ++ [m]).
    assert (Hm : min_coord (m :: u) = m) by (unfold m; apply min_coord_perm; [discriminate|exact HP]).
    rewrite norm_closed_open.
    + apply shape_fix; assumption.
    + rewrite Hm. rewrite (count_pt_perm m _ _ HP). exact Hcnt.
    + rewrite (Permutation_length HP). exact Hlen.
  - set (k := (length c / 2)%nat). destruct (first_diff c (rev c) k) eqn:Ef.
    + rewrite (norm_line_unfold c Hne), Ecl. fold k. rewrite Ef. reflexivity.
    + rewrite (norm_line_unfold c Hne), Ecl. fold k. rewrite Ef. reflexivity.
    + assert (Hr : rev c <> []) by (intros H; apply Hne; apply (f_equal (@rev pt)) in H; rewrite rev_involutive in H; exact H).
      rewrite (norm_line_unfold (rev c) Hr). rewrite is_closed_rev, Ecl, rev_involutive, rev_length. fold k.
      rewrite first_diff_opp, Ef. reflexivity.
Qed.
Lemma norm_line_nonempty : forall c, curve_hyp c -> (norm_line c = [] <-> c = []).
Proof.
  intros c [Hl Hc]. split; [|intros ->; reflexivity]. intros H. destruct c as [|f r] eqn:Ec; [reflexivity|]. rewrite <- Ec in *.
  assert (Hne : c <> []) by (rewrite Ec; discriminate). rewrite (norm_line_unfold c Hne) in H. destruct (is_closed c) eqn:Ecl.
  - destruct (Hc eq_refl) as (o & Eo & Hcnt & Hlen & Hd). rewrite Eo in H. rewrite (norm_closed_open o _ Hcnt Hlen) in H.
    assert (Hl2 : (2 <= length o)%nat) by lia.
    destruct (norm_open_shape true o Hcnt Hl2 Hd) as (u & E & _). rewrite E in H. discriminate.
  - destruct (first_diff _ _ _); try congruence.
    apply (f_equal (@rev pt)) in H. rewrite rev_involutive in H. cbn in H. congruence.
Qed.

(* ------------------------------------------------------------------ the tree *)
Lemma forallb_perm : forall {A} (f : A -> bool) l l', Permutation l l' -> forallb f l = forallb f l'.
Proof. intros A f l l' H. induction H; cbn; try congruence. destruct (f x), (f y); reflexivity. Qed.
Lemma Forall_map_iff : forall {A B} (P : B -> Prop) (f : A -> B) l, Forall P (map f l) <-> Forall (fun x => P (f x)) l.
Proof. intros. induction l as [|x r IH]; cbn; split; intros H; try constructor; inversion H; subst; try apply IH; auto. Qed.

Lemma is_empty_normalize : forall g, norm_hyp g -> is_empty (normalize g) = is_empty g.
Proof.
  induction g as [c|c|c|s hs|t gs IH] using geom_ind'; intros H; cbn [normalize is_empty].
  - reflexivity.
  - pose proof (norm_line_nonempty c H) as E. destruct (norm_line c), c; try reflexivity; destruct E as [E1 E2]; try (specialize (E1 eq_refl)); try (specialize (E2 eq_refl)); discriminate.
  - pose proof (norm_line_nonempty c H) as E. destruct (norm_line c), c; try reflexivity; destruct E as [E1 E2]; try (specialize (E1 eq_refl)); try (specialize (E2 eq_refl)); discriminate.
  - destruct H as [Hs _]. pose proof (norm_ring_nonempty true s Hs) as E.
    destruct (norm_ring true s), s; try reflexivity; destruct E as [E1 E2]; try (specialize (E1 eq_refl)); try (specialize (E2 eq_refl)); discriminate.
  - apply norm_hyp_coll in H. rewrite <- (forallb_perm is_empty _ _ (isort_perm cmp_geom (map normalize gs))).
    clear t. induction gs as [|x r IHr]; [reflexivity|]. inversion IH; inversion H; subst. cbn [map forallb]. rewrite H2 by assumption. rewrite IHr by assumption. reflexivity.
Qed.

Theorem normalize_Dc : forall g, Dc g -> norm_hyp g -> Dc (normalize g).
Proof.
  induction g as [c|c|c|s hs|t gs IH] using geom_ind'; intros HD HN; cbn [normalize]; try exact I.
  - cbn [Dc] in *. destruct HN as [Hs _]. intros E. apply (norm_ring_nonempty true s Hs) in E. rewrite (HD E). reflexivity.
  - apply Dc_coll in HD. destruct HD as (Ht & He & HF). apply norm_hyp_coll in HN. apply Dc_coll. split; [exact Ht|]. split.
    + intros E. rewrite <- (forallb_perm is_empty _ _ (isort_perm cmp_geom (map normalize gs))) in E.
      assert (E' : forallb is_empty gs = true).
      { clear He. induction gs as [|x r IHr]; [reflexivity|]. inversion HN; subst. cbn [map forallb] in E |- *.
        rewrite is_empty_normalize in E by assumption. apply andb_true_iff in E. destruct E as [E1 E2]. rewrite E1. cbn [andb].
        inversion IH; inversion HF; subst. apply IHr; assumption. }
      rewrite (He E'). reflexivity.
    + eapply Permutation_Forall; [apply isort_perm|]. apply Forall_map_iff. rewrite Forall_forall in *. intros x Hx. apply IH; auto.
Qed.

(* normalize (normalize g) = normalize g *)
Theorem normalize_idempotent : forall g, Dc g -> norm_hyp g -> normalize (normalize g) = normalize g.
Proof.
  induction g as [c|c|c|s hs|t gs IH] using geom_ind'; intros HD HN; cbn [normalize].
  - reflexivity.
  - f_equal. apply norm_line_idem. exact HN.
  - f_equal. apply norm_line_idem. exact HN.
  - destruct HN as [Hs Hh]. f_equal; [apply norm_ring_idem; exact Hs|].
    set (L := map (norm_ring false) hs).
    assert (Hfix : map (norm_ring false) (isort (desc cmp_curve) L) = isort (desc cmp_curve) L).
    { rewrite <- (map_id (isort (desc cmp_curve) L)) at 2. apply map_ext_in. intros x Hx.
      apply (Permutation_in _ (Permutation_sym (isort_perm cmp_curve L))) in Hx. unfold L in Hx. apply in_map_iff in Hx.
      destruct Hx as (h & <- & Hh'). apply norm_ring_idem. rewrite Forall_forall in Hh. auto. }
    rewrite Hfix. apply (isort_idem T cmp_curve (fun x _ => good_cmp_curve x)). apply Forall_T.
  - apply Dc_coll in HD. destruct HD as (Ht & He & HF). apply norm_hyp_coll in HN. f_equal.
    set (L := map normalize gs).
    assert (HDL : Forall Dc L).
    { unfold L. apply Forall_map_iff. rewrite Forall_forall in *. intros x Hx. apply normalize_Dc; auto. }
    assert (Hfix : map normalize (isort (desc cmp_geom) L) = isort (desc cmp_geom) L).
    { rewrite <- (map_id (isort (desc cmp_geom) L)) at 2. apply map_ext_in. intros x Hx.
      apply (Permutation_in _ (Permutation_sym (isort_perm cmp_geom L))) in Hx. unfold L in Hx. apply in_map_iff in Hx.
      destruct Hx as (h & <- & Hh'). rewrite Forall_forall in *. apply IH; auto. }
    rewrite Hfix. apply (isort_idem Dc cmp_geom good_cmp_geom). exact HDL.
Qed.

(* ------------------------------------------------------------------ canonical form: ring start, ring direction, element order *)
(* two rings that differ by start point and / or direction *)
Definition ring_variant (r r' : list pt) : Prop :=
  (r = [] /\ r' = []) \/
  exists o o', r = o ++ [hd (0, 0)%Z o] /\ r' = o' ++ [hd (0, 0)%Z o'] /\ count_pt (min_coord o) o = 1%nat /\ (2 <= length o)%nat /\
               (rot o o' \/ (orient_det o /\ rot (rev o) o')).
Lemma norm_ring_variant : forall cw r r', ring_variant r r' -> norm_ring cw r' = norm_ring cw r.
Proof.
  intros cw r r' [[-> ->]|(o & o' & -> & -> & Hc & Hl & [Hr|[Hd Hr]])]; [reflexivity| |]; rewrite !norm_ring_open.
  - apply norm_open_rot; assumption.
  - apply norm_open_rev; assumption.
Qed.
Inductive variant : geom -> geom -> Prop :=
| v_refl : forall g, variant g g
| v_trans : forall a b c, variant a b -> variant b c -> variant a c
| v_shell : forall s s' hs, ring_variant s s' -> variant (GPoly s hs) (GPoly s' hs)
| v_hole : forall s h h' l1 l2, ring_variant h h' -> variant (GPoly s (l1 ++ h :: l2)) (GPoly s (l1 ++ h' :: l2))
| v_hole_order : forall s hs hs', Permutation hs hs' -> variant (GPoly s hs) (GPoly s hs')
| v_elem : forall t x y l1 l2, variant x y -> variant (GColl t (l1 ++ x :: l2)) (GColl t (l1 ++ y :: l2))
| v_elem_order : forall t gs gs', Forall (fun x => Dc x /\ norm_hyp x) gs -> Permutation gs gs' -> variant (GColl t gs) (GColl t gs').

Theorem normalize_canonical : forall a b, variant a b -> normalize a = normalize b.
Proof.
  intros a b H. induction H; cbn [normalize].
  - reflexivity.
  - congruence.
  - f_equal. symmetry. apply norm_ring_variant. assumption.
  - f_equal. rewrite !map_app. cbn [map]. rewrite (norm_ring_variant false h h' H). reflexivity.
  - f_equal. apply (isort_perm_eq T cmp_curve (fun x _ => good_cmp_curve x)); [apply Forall_T|]. apply Permutation_map. assumption.
  - f_equal. rewrite !map_app. cbn [map]. rewrite IHvariant. reflexivity.
  - f_equal. apply (isort_perm_eq Dc cmp_geom good_cmp_geom); [|apply Permutation_map; assumption].
    apply Forall_map_iff. rewrite Forall_forall in *. intros x Hx. destruct (H x Hx). apply normalize_Dc; assumption.
Qed.

Example variant_ex : normalize (GColl 7 [GPoint [(1,1)%Z]; GPoly [(0,0); (4,0); (4,3); (0,0)]%Z []; GLine [(5,5); (2,2)]%Z])
                   = normalize (GColl 7 [GLine [(5,5); (2,2)]%Z; GPoly [(4,3); (4,0); (0,0); (4,3)]%Z []; GPoint [(1,1)%Z]]).
Proof. vm_compute. reflexivity. Qed.
Example idem_hyp_ex : let g := GColl 7 [GPoint [(1,1)%Z]; GPoly [(0,0); (4,0); (4,3); (0,0)]%Z [[(2,1); (3,1); (3,2); (2,1)]%Z]] in rings_ok g = true.
Proof. vm_compute. reflexivity. Qed.

(* ------------------------------------------------------------------ measures are invariant under normalize *)
Local Open Scope Z_scope.
Lemma sum_perm : forall {A} (f : A -> Z) l l', Permutation l l' ->
  fold_right (fun x acc => f x + acc) 0 l = fold_right (fun x acc => f x + acc) 0 l'.
Proof. intros A f l l' H. induction H; cbn; lia. Qed.
Lemma max_perm : forall {A} (f : A -> Z) d l l', Permutation l l' ->
  fold_right (fun x acc => Z.max (f x) acc) d l = fold_right (fun x acc => Z.max (f x) acc) d l'.
Proof. intros A f d l l' H. induction H; cbn; lia. Qed.

(* the scrolled closed ring has the same signed area, the same segments and the same number of points as the ring *)
Lemma scrolled_measures : forall (a b : list pt) (m : pt),
  let o := a ++ m :: b in let r := o ++ [hd (0, 0) o] in let c := m :: (b ++ a) ++ [m] in
  shoelace c = shoelace r /\ Permutation (seg_d2s c) (seg_d2s r) /\ length c = length r.
Proof.
  intros a b m. destruct a as [|h a']; cbn zeta.
  - cbn [app hd]. rewrite app_nil_r. repeat split; reflexivity.
  - assert (E1 : (h :: (a' ++ m :: b) ++ [h] : list pt) = (h :: a') ++ m :: (b ++ [h])) by (cbn [app]; rewrite <- app_assoc; reflexivity).
    assert (E2 : (m :: (b ++ h :: a') ++ [m] : list pt) = (m :: b) ++ h :: (a' ++ [m])) by (cbn [app]; rewrite <- app_assoc; reflexivity).
    assert (F : shoelace ((m :: b) ++ h :: (a' ++ [m])) = shoelace ((h :: a') ++ m :: (b ++ [h])) /\
                Permutation (seg_d2s ((m :: b) ++ h :: (a' ++ [m]))) (seg_d2s ((h :: a') ++ m :: (b ++ [h]))) /\
                length ((m :: b) ++ h :: (a' ++ [m])) = length ((h :: a') ++ m :: (b ++ [h]))).
    { rewrite (shoelace_split (h :: a') m (b ++ [h])), (shoelace_split (m :: b) h (a' ++ [m])).
      rewrite (seg_d2s_split (h :: a') m (b ++ [h])), (seg_d2s_split (m :: b) h (a' ++ [m])). split; [|split].
      - cbn [app]. lia.
      - cbn [app]. apply Permutation_app_comm.
      - rewrite !app_length. cbn [length]. rewrite !app_length. cbn [length]. lia. }
    rewrite <- E1, <- E2 in F. exact F.
Qed.
Lemma ring_core_measures : forall k cw r, ring_core k r -> (2 <= k)%nat ->
  Z.abs (shoelace (norm_ring cw r)) = Z.abs (shoelace r) /\ Permutation (seg_d2s (norm_ring cw r)) (seg_d2s r) /\
  length (norm_ring cw r) = length r.
Proof.
  intros k cw r (o & -> & Hc & Hl & Hd) Hk. assert (Hl2 : (2 <= length o)%nat) by lia. rewrite norm_ring_open.
  destruct (norm_open_cases cw o Hc Hl2) as (a & b & E & _ & _ & Hcases & _). cbn zeta in Hcases.
  destruct (scrolled_measures a b (min_coord o)) as (S1 & S2 & S3). cbn zeta in S1, S2, S3. rewrite <- E in S1, S2, S3.
  destruct Hcases as [-> | ->].
  - rewrite S1. repeat split; auto.
  - rewrite shoelace_rev_abs, seg_d2s_rev, rev_length, S1. repeat split; auto. rewrite <- S2. symmetry. apply Permutation_rev.
Qed.
Lemma ring_hyp_measures : forall cw r, ring_hyp r ->
  Z.abs (shoelace (norm_ring cw r)) = Z.abs (shoelace r) /\ Permutation (seg_d2s (norm_ring cw r)) (seg_d2s r) /\
  length (norm_ring cw r) = length r.
Proof. intros cw r [->|H]; [repeat split; constructor|]. apply (ring_core_measures 2); [exact H|lia]. Qed.
Lemma curve_hyp_measures : forall c, curve_hyp c -> Permutation (seg_d2s (norm_line c)) (seg_d2s c) /\ length (norm_line c) = length c.
Proof.
  intros c [Hl Hc]. destruct c as [|f r] eqn:Ec; [split; constructor|]. rewrite <- Ec in *.
  assert (Hne : c <> []) by (rewrite Ec; discriminate). rewrite (norm_line_unfold c Hne). destruct (is_closed c) eqn:Ecl.
  - destruct (Hc eq_refl) as (o & Eo & Hcnt & Hlen & Hd). rewrite Eo. rewrite (norm_closed_open o _ Hcnt Hlen). rewrite <- (norm_ring_open true o (hd (0,0) o)).
    destruct (ring_core_measures 3 true (o ++ [hd (0,0) o])) as (_ & P & L); [exists o; auto|lia|]. split; assumption.
  - destruct (first_diff _ _ _); try (split; reflexivity). rewrite seg_d2s_rev, rev_length. split; [symmetry; apply Permutation_rev|reflexivity].
Qed.

Theorem area2_normalize : forall g, norm_hyp g -> area2 (normalize g) = area2 g.
Proof.
  induction g as [c|c|c|s hs|t gs IH] using geom_ind'; intros H; cbn [normalize area2]; try reflexivity.
  - destruct H as [Hs Hh]. destruct (ring_hyp_measures true s Hs) as (-> & _). f_equal.
    rewrite <- (sum_perm (fun h => Z.abs (shoelace h)) _ _ (isort_perm cmp_curve (map (norm_ring false) hs))).
    rewrite (sum_map (fun h => Z.abs (shoelace h)) (norm_ring false) hs). apply sum_map_ext. intros x Hx.
    rewrite Forall_forall in Hh. apply (ring_hyp_measures false x (Hh x Hx)).
  - apply norm_hyp_coll in H. rewrite <- (sum_perm area2 _ _ (isort_perm cmp_geom (map normalize gs))).
    rewrite (sum_map area2 normalize gs). apply sum_map_ext. rewrite Forall_forall in *. intros x Hx. apply IH; auto.
Qed.
Theorem seg_lengths_normalize : forall g, norm_hyp g -> Permutation (all_seg_d2s (normalize g)) (all_seg_d2s g).
Proof.
  induction g as [c|c|c|s hs|t gs IH] using geom_ind'; intros H; cbn [normalize all_seg_d2s].
  - constructor.
  - apply (curve_hyp_measures c H).
  - apply (curve_hyp_measures c H).
  - destruct H as [Hs Hh]. apply Permutation_app; [apply (ring_hyp_measures true s Hs)|].
    rewrite <- (Permutation_flat_map seg_d2s (isort_perm cmp_curve (map (norm_ring false) hs))).
    rewrite flat_map_concat_map, map_map, <- flat_map_concat_map. apply flat_map_perm. intros x Hx.
    rewrite Forall_forall in Hh. apply (ring_hyp_measures false x (Hh x Hx)).
  - apply norm_hyp_coll in H. rewrite <- (Permutation_flat_map all_seg_d2s (isort_perm cmp_geom (map normalize gs))).
    rewrite flat_map_concat_map, map_map, <- flat_map_concat_map. apply flat_map_perm. rewrite Forall_forall in *. intros x Hx. apply IH; auto.
Qed.
Theorem length_normalize : forall p g, norm_hyp g -> length_scaled p (normalize g) = length_scaled p g.
Proof. intros p g H. unfold length_scaled. apply length_scaled_perm. apply seg_lengths_normalize. exact H. Qed.

Lemma length_concat_perm : forall (l l' : list (list pt)), Permutation l l' -> length (concat l) = length (concat l').
Proof. intros l l' H. induction H; cbn; rewrite ?app_length; lia. Qed.
Theorem counts_normalize : forall g, norm_hyp g -> num_coords (normalize g) = num_coords g /\ num_geoms_deep (normalize g) = num_geoms_deep g
  /\ dimension (normalize g) = dimension g.
Proof.
  unfold num_coords. induction g as [c|c|c|s hs|t gs IH] using geom_ind'; intros H; cbn [normalize coords num_geoms_deep dimension].
  - repeat split.
  - destruct (curve_hyp_measures c H) as (_ & ->). repeat split.
  - destruct (curve_hyp_measures c H) as (_ & ->). repeat split.
  - destruct H as [Hs Hh]. split; [|split; reflexivity]. f_equal. rewrite !app_length. destruct (ring_hyp_measures true s Hs) as (_ & _ & ->). f_equal.
    rewrite <- (length_concat_perm _ _ (isort_perm cmp_curve (map (norm_ring false) hs))).
    clear Hs. induction hs as [|h r IHr]; [reflexivity|]. inversion Hh; subst. cbn [map concat]. rewrite !app_length, IHr by assumption.
    destruct (ring_hyp_measures false h H1) as (_ & _ & ->). reflexivity.
  - apply norm_hyp_coll in H. rewrite Forall_forall in IH, H.
    assert (P := isort_perm cmp_geom (map normalize gs)). split; [|split].
    + f_equal. rewrite <- (Permutation_length (Permutation_flat_map coords P)). rewrite flat_map_concat_map, map_map, <- flat_map_concat_map.
      clear P. induction gs as [|x r IHr]; [reflexivity|]. cbn [flat_map]. rewrite !app_length. rewrite IHr; [|intros; apply IH; [right; assumption|assumption]|intros; apply H; right; assumption].
      destruct (IH x (or_introl eq_refl) (H x (or_introl eq_refl))) as (E & _). apply Nat2Z.inj in E. rewrite E. reflexivity.
    + f_equal. rewrite <- (sum_perm num_geoms_deep _ _ P). rewrite (sum_map num_geoms_deep normalize gs). apply sum_map_ext. intros x Hx. apply IH; auto.
    + destruct (t =? 4); [reflexivity|]. destruct (t =? 5); [reflexivity|]. destruct (t =? 6); [reflexivity|].
      rewrite <- (max_perm dimension (-1) _ _ P). clear P. induction gs as [|x r IHr]; [reflexivity|]. cbn [map fold_right].
      rewrite IHr; [|intros; apply IH; [right; assumption|assumption]|intros; apply H; right; assumption].
      destruct (IH x (or_introl eq_refl) (H x (or_introl eq_refl))) as (_ & _ & ->). reflexivity.
Qed.

(* ------------------------------------------------------------------ the executable test ring_ok implies the hypothesis (for closed rings) *)
Lemma last_indep : forall (l : list pt) d d', l <> [] -> last l d = last l d'.
Proof. induction l as [|a [|b t] IH]; intros d d' H; [congruence|reflexivity|]. change (last (b :: t) d = last (b :: t) d'). apply IH. discriminate. Qed.
Lemma hd_removelast : forall (l : list pt) d, (2 <= length l)%nat -> hd d (removelast l) = hd d l.
Proof. intros [|a [|b t]] d H; cbn in *; try lia; reflexivity. Qed.
Lemma ring_ok_hyp : forall r, ring_ok r = true -> is_closed r = true -> ring_hyp r.
Proof.
  intros r H Hcl. destruct r as [|f t] eqn:Er; [left; reflexivity|]. right. rewrite <- Er in *.
  assert (Hne : r <> []) by (rewrite Er; discriminate).
  assert (Hok : Nat.eqb (count_pt (min_coord (removelast r)) (removelast r)) 1 && (2 <=? length (removelast r))%nat
                && Bool.eqb (isCCW (rev (close_ring POLY_CLOSE_ALLOW_REPEATED (scroll (min_coord (removelast r)) (removelast r)))))
                            (negb (isCCW (close_ring POLY_CLOSE_ALLOW_REPEATED (scroll (min_coord (removelast r)) (removelast r))))) = true).
  { rewrite Er in H |- *. exact H. }
  apply andb_true_iff in Hok. destruct Hok as [Hok Hd]. apply andb_true_iff in Hok. destruct Hok as [Hc Hl].
  apply Nat.eqb_eq in Hc. apply Nat.leb_le in Hl. apply eqb_prop in Hd.
  exists (removelast r). split; [|split; [exact Hc|split; [exact Hl|exact Hd]]].
  rewrite (@app_removelast_last pt r (0,0) Hne) at 1. f_equal. f_equal.
  assert (Hcl' : f = last r f).
  { unfold is_closed in Hcl. rewrite Er in Hcl. apply pt_eqb_eq in Hcl. rewrite Er. exact Hcl. }
  assert (Hlen : (2 <= length r)%nat).
  { pose proof (f_equal (@length pt) (@app_removelast_last pt r (0,0) Hne)) as HL. rewrite app_length in HL. cbn [length] in HL. lia. }
  apply (eq_trans (y := f)).
  - rewrite (last_indep r (0,0) f Hne). symmetry. exact Hcl'.
  - symmetry. etransitivity; [exact (hd_removelast r (0,0) Hlen)|]. rewrite Er. reflexivity.
Qed.
Example norm_hyp_ex : norm_hyp (GColl 7 [GPoint [(1,1)]; GLine [(5,5); (2,2)]; GPoly [(0,0); (4,0); (4,3); (0,0)] [[(2,1); (3,1); (3,2); (2,1)]]]).
Proof.
  cbn [norm_hyp]. split; [exact I|]. split; [split; [discriminate|cbn; discriminate]|]. split; [|exact I].
  split; [apply ring_ok_hyp; vm_compute; reflexivity|]. constructor; [apply ring_ok_hyp; vm_compute; reflexivity|constructor].
Qed.
