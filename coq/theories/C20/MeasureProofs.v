(* C20 — reverse is an involution; twice-the-area changes sign under reversal of a ring; area, segment lengths, counts,
   dimension and emptiness are invariant under reverse (model level). *)
From Coq Require Import ZArith List Bool Lia Arith Permutation.
From GeosV.C20 Require Import Defs HullProofs CentroidProofs.
Import ListNotations.
Local Open Scope Z_scope.

Definition cross (a b : pt) : Z := px a * py b - px b * py a.
Lemma shoelace_cons2 : forall a b t, shoelace (a :: b :: t) = cross a b + shoelace (b :: t).
Proof. reflexivity. Qed.
(* splitting a path at a vertex *)
Lemma shoelace_split : forall l1 x l2, shoelace (l1 ++ x :: l2) = shoelace (l1 ++ [x]) + shoelace (x :: l2).
Proof.
  induction l1 as [|a [|b t] IH]; intros x l2.
  - cbn [app]. change (shoelace [x]) with 0. unfold cross; ring.
  - cbn [app]. rewrite !shoelace_cons2. change (shoelace [x]) with 0. unfold cross; ring.
  - pose proof (IH x l2) as IH'. cbn [app] in IH' |- *. rewrite !shoelace_cons2. rewrite IH'. unfold cross; ring.
Qed.
Lemma shoelace_snoc : forall l a b, shoelace (l ++ [a; b]) = shoelace (l ++ [a]) + cross a b.
Proof. intros l a b. rewrite (shoelace_split l a [b]). rewrite shoelace_cons2. change (shoelace [b]) with 0. unfold cross; ring. Qed.

Theorem shoelace_rev : forall r, shoelace (rev r) = - shoelace r.
Proof.
  induction r as [|a [|b t] IH]; [reflexivity|reflexivity|].
  rewrite shoelace_cons2. change (rev (a :: b :: t)) with ((rev t ++ [b]) ++ [a]). rewrite <- app_assoc. cbn [app].
  rewrite shoelace_snoc. change (rev t ++ [b]) with (rev (b :: t)). rewrite IH. unfold cross. unfold cross; ring.
Qed.
(* area2_reverse = - area2 at ring level; the polygon area takes absolute values *)
Corollary shoelace_rev_abs : forall r, Z.abs (shoelace (rev r)) = Z.abs (shoelace r).
Proof. intros r. rewrite shoelace_rev. apply Z.abs_opp. Qed.

Lemma dist2_sym : forall a b, dist2 a b = dist2 b a.
Proof. intros. unfold dist2. ring. Qed.
Lemma seg_d2s_cons2 : forall a b t, seg_d2s (a :: b :: t) = dist2 a b :: seg_d2s (b :: t).
Proof. reflexivity. Qed.
Lemma seg_d2s_split : forall l1 x l2, seg_d2s (l1 ++ x :: l2) = seg_d2s (l1 ++ [x]) ++ seg_d2s (x :: l2).
Proof.
  induction l1 as [|a [|b t] IH]; intros x l2.
  - reflexivity.
  - reflexivity.
  - pose proof (IH x l2) as IH'. cbn [app] in IH' |- *. rewrite !seg_d2s_cons2. rewrite IH'. reflexivity.
Qed.
Lemma seg_d2s_rev : forall c, seg_d2s (rev c) = rev (seg_d2s c).
Proof.
  induction c as [|a [|b t] IH]; [reflexivity|reflexivity|].
  rewrite seg_d2s_cons2. change (rev (a :: b :: t)) with ((rev t ++ [b]) ++ [a]). rewrite <- app_assoc. cbn [app].
  rewrite (seg_d2s_split (rev t) b [a]). change (rev t ++ [b]) with (rev (b :: t)). rewrite IH.
  cbn [rev]. rewrite dist2_sym. reflexivity.
Qed.

(* ------------------------------------------------------------------ reverse on the tree *)
Theorem reverse_involutive : forall g, reverse (reverse g) = g.
Proof.
  induction g as [c|c|c|s hs|t gs IH] using geom_ind'; cbn [reverse]; rewrite ?rev_involutive; try reflexivity.
  - f_equal. rewrite map_map. rewrite <- (map_id hs) at 2. apply map_ext. intros; apply rev_involutive.
  - f_equal. rewrite map_map. rewrite <- (map_id gs) at 2. apply map_ext_in. intros x Hx. rewrite Forall_forall in IH. auto.
Qed.

Lemma sum_map_ext : forall {A} (f g : A -> Z) l, (forall x, In x l -> f x = g x) ->
  fold_right (fun x acc => f x + acc) 0 l = fold_right (fun x acc => g x + acc) 0 l.
Proof. intros A f g l. induction l as [|x r IH]; intros H; cbn; [reflexivity|]. rewrite H by (left; reflexivity). rewrite IH; [reflexivity|]. intros; apply H; right; assumption. Qed.
Lemma sum_map : forall {A B} (f : B -> Z) (h : A -> B) l,
  fold_right (fun x acc => f x + acc) 0 (map h l) = fold_right (fun x acc => f (h x) + acc) 0 l.
Proof. intros. induction l as [|x r IH]; cbn; [reflexivity|rewrite IH; reflexivity]. Qed.

Theorem area2_reverse : forall g, area2 (reverse g) = area2 g.
Proof.
  induction g as [c|c|c|s hs|t gs IH] using geom_ind'; cbn [reverse area2]; try reflexivity.
  - rewrite shoelace_rev_abs. f_equal. rewrite (sum_map (fun h => Z.abs (shoelace h)) (@rev pt) hs).
    apply sum_map_ext. intros; apply shoelace_rev_abs.
  - rewrite (sum_map area2 reverse gs). apply sum_map_ext. rewrite Forall_forall in IH. exact IH.
Qed.

Lemma flat_map_perm : forall {A B} (f g : A -> list B) l, (forall x, In x l -> Permutation (f x) (g x)) -> Permutation (flat_map f l) (flat_map g l).
Proof. intros A B f g l. induction l as [|x r IH]; intros H; cbn; [constructor|]. apply Permutation_app; [apply H; left; reflexivity|apply IH; intros; apply H; right; assumption]. Qed.
(* the multiset of squared segment lengths (hence the length) is invariant under reverse *)
Theorem seg_lengths_reverse : forall g, Permutation (all_seg_d2s (reverse g)) (all_seg_d2s g).
Proof.
  induction g as [c|c|c|s hs|t gs IH] using geom_ind'; cbn [reverse all_seg_d2s].
  - constructor.
  - rewrite seg_d2s_rev. symmetry. apply Permutation_rev.
  - rewrite seg_d2s_rev. symmetry. apply Permutation_rev.
  - apply Permutation_app; [rewrite seg_d2s_rev; symmetry; apply Permutation_rev|].
    rewrite flat_map_concat_map, map_map, <- flat_map_concat_map. apply flat_map_perm. intros x _. rewrite seg_d2s_rev. symmetry. apply Permutation_rev.
  - rewrite flat_map_concat_map, map_map, <- flat_map_concat_map. apply flat_map_perm. rewrite Forall_forall in IH. exact IH.
Qed.
Lemma length_scaled_perm : forall p l l', Permutation l l' ->
  fold_right (fun d acc => sqrt_scaled p d + acc) 0 l = fold_right (fun d acc => sqrt_scaled p d + acc) 0 l'.
Proof. intros p l l' H. induction H; cbn; lia. Qed.
Theorem length_reverse : forall p g, length_scaled p (reverse g) = length_scaled p g.
Proof. intros p g. unfold length_scaled. apply length_scaled_perm. apply seg_lengths_reverse. Qed.

Lemma coords_reverse_perm : forall g, Permutation (coords (reverse g)) (coords g).
Proof.
  induction g as [c|c|c|s hs|t gs IH] using geom_ind'; cbn [reverse coords]; try (symmetry; apply Permutation_rev).
  - reflexivity.
  - apply Permutation_app; [symmetry; apply Permutation_rev|].
    induction hs as [|h r IHr]; [constructor|]. cbn [map concat]. apply Permutation_app; [symmetry; apply Permutation_rev|exact IHr].
  - rewrite flat_map_concat_map, map_map, <- flat_map_concat_map. apply flat_map_perm. rewrite Forall_forall in IH. exact IH.
Qed.
Theorem counts_reverse : forall g, num_coords (reverse g) = num_coords g /\ num_geoms_deep (reverse g) = num_geoms_deep g
  /\ dimension (reverse g) = dimension g /\ is_empty (reverse g) = is_empty g.
Proof.
  intros g. split; [unfold num_coords; f_equal; apply Permutation_length, coords_reverse_perm|].
  induction g as [c|c|c|s hs|t gs IH] using geom_ind'; cbn [reverse num_geoms_deep dimension is_empty];
    try (repeat split; try reflexivity; destruct c as [|x r]; try reflexivity; cbn [rev]; destruct (rev r); reflexivity).
  - repeat split; try reflexivity. destruct s as [|x r]; [reflexivity|]. cbn [rev]. destruct (rev r); reflexivity.
  - rewrite Forall_forall in IH. split; [|split].
    + f_equal. rewrite (sum_map num_geoms_deep reverse gs). apply sum_map_ext. intros x Hx. apply IH; assumption.
    + destruct (t =? 4); [reflexivity|]. destruct (t =? 5); [reflexivity|]. destruct (t =? 6); [reflexivity|].
      induction gs as [|x r IHr]; [reflexivity|]. cbn [map fold_right]. rewrite IHr by (intros; apply IH; right; assumption).
      destruct (IH x (or_introl eq_refl)) as (_ & -> & _). reflexivity.
    + induction gs as [|x r IHr]; [reflexivity|]. cbn [map forallb]. rewrite IHr by (intros; apply IH; right; assumption).
      destruct (IH x (or_introl eq_refl)) as (_ & _ & ->). reflexivity.
Qed.

Example reverse_ex : reverse (GPoly [(0,0); (4,0); (4,4); (0,0)] [[(1,1); (2,1); (2,2); (1,1)]]) = GPoly [(0,0); (4,4); (4,0); (0,0)] [[(1,1); (2,2); (2,1); (1,1)]].
Proof. reflexivity. Qed.
Example shoelace_ex : shoelace [(0,0); (4,0); (4,4); (0,0)] = 16 /\ shoelace (rev [(0,0); (4,0); (4,4); (0,0)]) = -16.
Proof. split; reflexivity. Qed.
