(* C20/CentroidGen — the accumulation code of geos::algorithm::Centroid GENERATED from src/algorithm/Centroid.cpp
   (Gen/CEN_*.v: area2, centroid3, addTriangle, addPoint, addLineSegments, addShell, addHole, getCentroid) computes the
   weighted sums of the hand specification C20/Defs.v (`fan`, `acc_geom`, `centroid`).
   Reading: `double` = integer on the grid (Lib.GenPreludeZ via C20/CentroidPrelude.v).  Section variables, i.e. every theorem
   holds for ANY such function: ccw = Orientation::isCCW, dist = CoordinateXY::distance, dv = the floating `/`.
   Not generated (hand glue, stated where used): Centroid::add(Geometry)/add(Polygon) dispatch (`gen_poly`). *)
From Coq Require Import ZArith List Bool Lia ZifyBool.
From GeosV.C20 Require Import Defs CentroidProofs.
From GeosV.C20 Require Import CentroidPrelude.
From GeosV.Gen Require Import CEN_area2 CEN_centroid3 CEN_addTriangle CEN_addPoint CEN_addLineSegments CEN_addShell CEN_addHole CEN_getCentroid.
Import ListNotations.
Local Open Scope Z_scope.

Ltac zp := unfold add, sub, mul, neg, eqb, gtb, ltb, ofZ, flit, f_x, f_y, c_abs_1, c_opmul_1, c_opidx_2 in *.

(* ------------------------------------------------------------------ straight-line units *)
Lemma gen_area2_orient : forall a b c, cen_area2 a b c = orient a b c.
Proof. intros. unfold cen_area2, orient, px, py. zp. reflexivity. Qed.

Lemma gen_centroid3_spec : forall a b c d, cen_centroid3 a b c d = (px a + px b + px c, py a + py b + py c).
Proof. intros. unfold cen_centroid3, set_x, set_y, px, py. zp. reflexivity. Qed.

Definition sg (b : bool) : Z := if b then 1 else -1.
Lemma triple_eq : forall (a b c a' b' c' : Z), a = a' -> b = b' -> c = c' -> (a, b, c) = (a', b', c').
Proof. intros. subst. reflexivity. Qed.

(* addTriangle: cg3 += sign*area2*(p0+p1+p2), areasum2 += sign*area2, triangleCent3 = p0+p1+p2; nothing else changes *)
Lemma gen_addTriangle_spec : forall st p0 p1 p2 pos,
  cen_addTriangle st p0 p1 p2 pos =
  mkCst (f_areaBasePt st) (px p0 + px p1 + px p2, py p0 + py p1 + py p2)
        (fst (f_cg3 st) + sg pos * orient p0 p1 p2 * (px p0 + px p1 + px p2),
         snd (f_cg3 st) + sg pos * orient p0 p1 p2 * (py p0 + py p1 + py p2))
        (f_lineCentSum st) (f_ptCentSum st) (f_areasum2 st + sg pos * orient p0 p1 p2) (f_totalLength st) (f_ptCount st).
Proof.
  intros. unfold cen_addTriangle. rewrite gen_area2_orient, gen_centroid3_spec. destruct pos; reflexivity.
Qed.

(* (c) addPoint accumulates the plain sum and the count; nothing else changes *)
Theorem gen_addPoint_spec : forall st p,
  cen_addPoint st p =
  mkCst (f_areaBasePt st) (f_triangleCent3 st) (f_cg3 st) (f_lineCentSum st)
        (fst (f_ptCentSum st) + px p, snd (f_ptCentSum st) + py p) (f_areasum2 st) (f_totalLength st) (f_ptCount st + 1).
Proof. intros. reflexivity. Qed.

Theorem gen_addPoints_sum : forall l st,
  let st' := fold_left cen_addPoint l st in
  f_ptCount st' = f_ptCount st + Z.of_nat (length l) /\
  fst (f_ptCentSum st') = fst (f_ptCentSum st) + fold_right (fun p a => px p + a) 0 l /\
  snd (f_ptCentSum st') = snd (f_ptCentSum st) + fold_right (fun p a => py p + a) 0 l /\
  f_areasum2 st' = f_areasum2 st /\ f_cg3 st' = f_cg3 st /\ f_totalLength st' = f_totalLength st /\ f_lineCentSum st' = f_lineCentSum st.
Proof.
  induction l as [|p r IH]; intros st.
  - cbn. repeat split; lia.
  - cbn [fold_left]. specialize (IH (cen_addPoint st p)). cbn zeta in IH. rewrite gen_addPoint_spec in IH at 2 4 6 8 10 12 14.
    cbn [f_ptCount f_ptCentSum f_areasum2 f_cg3 f_totalLength f_lineCentSum fst snd] in IH.
    destruct IH as (H1 & H2 & H3 & H4 & H5 & H6 & H7). cbn zeta. cbn [fold_right length].
    repeat split; try assumption; lia.
Qed.

(* ------------------------------------------------------------------ counted loops over consecutive points *)
Section Pairs.
  Context {A : Type}.
  Variable f : A -> pt -> pt -> A.
  Fixpoint fold_pairs (r : list pt) (a : A) : A :=
    match r with p :: ((q :: _) as t) => fold_pairs t (f a p q) | _ => a end.
End Pairs.

Lemma fold_left_ext : forall {A B} (f g : A -> B -> A) l a, (forall a x, f a x = g a x) -> fold_left f l a = fold_left g l a.
Proof. intros A B f g l. induction l as [|x r IH]; intros a H; cbn; [reflexivity|]. rewrite H. apply IH, H. Qed.
Lemma fold_left_map' : forall {A B C} (f : A -> C -> A) (g : B -> C) l a, fold_left f (map g l) a = fold_left (fun a x => f a (g x)) l a.
Proof. intros A B C f g l. induction l as [|x r IH]; intros a; cbn; [reflexivity | apply IH]. Qed.
Lemma fold_left_inv : forall {A B} (P : A -> Prop) (f : A -> B -> A) l a, P a -> (forall a x, P a -> P (f a x)) -> P (fold_left f l a).
Proof. intros A B P f l. induction l as [|x r IH]; intros a Ha H; cbn; [exact Ha | apply IH; auto]. Qed.

Lemma fold_seq_pairs : forall {A} (f : A -> pt -> pt -> A) d r a,
  fold_left (fun acc k => f acc (nth k r d) (nth (S k) r d)) (seq 0 (length r - 1)) a = fold_pairs f r a.
Proof.
  intros A f d r. induction r as [|p [|q t] IH]; intros a; [reflexivity | reflexivity |].
  change (length (p :: q :: t) - 1)%nat with (S (length t)). cbn [seq fold_left]. cbn [fold_pairs].
  rewrite <- seq_shift, fold_left_map'. cbn [nth].
  specialize (IH (f a p q)). cbn [length] in IH. rewrite Nat.sub_succ, Nat.sub_0_r in IH. exact IH.
Qed.

(* for (i = 0; i < size - 1; ++i) body(getAt(i), getAt(i+1))  =  the fold over consecutive pairs, for every sequence *)
Lemma zrange_loop_pairs : forall {A} (f : A -> pt -> pt -> A) r a,
  fold_left (fun acc i => f acc (m_getAt_1 r i) (m_getAt_1 r (Z.add i 1))) (zrange 0 (Z.sub (m_size_0 r) 1)) a = fold_pairs f r a.
Proof.
  intros A f r a. unfold zrange, m_size_0. rewrite fold_left_map'.
  replace (Z.to_nat (Z.of_nat (length r) - 1 - 0)) with (length r - 1)%nat by lia.
  rewrite <- (fold_seq_pairs f (0, 0) r a). apply fold_left_ext. intros acc k. unfold m_getAt_1.
  replace (Z.to_nat (0 + Z.of_nat k)) with k by lia. replace (Z.to_nat (0 + Z.of_nat k + 1)) with (S k) by lia. reflexivity.
Qed.

(* ------------------------------------------------------------------ the triangle loop of addShell / addHole *)
Definition scale3 (s : Z) (t : Z * Z * Z) : Z * Z * Z := (s * fst (fst t), s * snd (fst t), s * snd t).
Definition area_part (st st' : cst) (t : Z * Z * Z) : Prop :=
  f_areasum2 st' = f_areasum2 st + fst (fst t) /\ fst (f_cg3 st') = fst (f_cg3 st) + snd (fst t) /\ snd (f_cg3 st') = snd (f_cg3 st) + snd t.
Definition line_frame (st st' : cst) : Prop :=
  f_lineCentSum st' = f_lineCentSum st /\ f_ptCentSum st' = f_ptCentSum st /\ f_totalLength st' = f_totalLength st /\ f_ptCount st' = f_ptCount st.
Definition area_frame (st st' : cst) : Prop :=
  f_areaBasePt st' = f_areaBasePt st /\ f_cg3 st' = f_cg3 st /\ f_areasum2 st' = f_areasum2 st.

Definition triF (pos : bool) (st : cst) (p q : pt) : cst := cen_addTriangle st (c_opmul_1 (f_areaBasePt st)) p q pos.

Lemma tri_loop : forall pos r st,
  let st' := fold_pairs (triF pos) r st in
  f_areaBasePt st' = f_areaBasePt st /\ area_part st st' (scale3 (sg pos) (fan (f_areaBasePt st) r)) /\ line_frame st st'.
Proof.
  intros pos r. induction r as [|p [|q t] IH]; intros st; cbn zeta.
  - cbn. unfold area_part, line_frame. cbn. repeat split; lia.
  - cbn. unfold area_part, line_frame. cbn. repeat split; lia.
  - change (fold_pairs (triF pos) (p :: q :: t) st) with (fold_pairs (triF pos) (q :: t) (triF pos st p q)).
    assert (Hst1 : triF pos st p q = _) by (apply (gen_addTriangle_spec st (f_areaBasePt st) p q pos)).
    remember (triF pos st p q) as st1 eqn:E1. clear E1.
    assert (B1 : f_areaBasePt st1 = f_areaBasePt st) by (rewrite Hst1; reflexivity).
    assert (B2 : f_areasum2 st1 = f_areasum2 st + sg pos * orient (f_areaBasePt st) p q) by (rewrite Hst1; reflexivity).
    assert (B3 : fst (f_cg3 st1) = fst (f_cg3 st) + sg pos * orient (f_areaBasePt st) p q * (px (f_areaBasePt st) + px p + px q)) by (rewrite Hst1; reflexivity).
    assert (B4 : snd (f_cg3 st1) = snd (f_cg3 st) + sg pos * orient (f_areaBasePt st) p q * (py (f_areaBasePt st) + py p + py q)) by (rewrite Hst1; reflexivity).
    assert (B5 : f_lineCentSum st1 = f_lineCentSum st) by (rewrite Hst1; reflexivity).
    assert (B6 : f_ptCentSum st1 = f_ptCentSum st) by (rewrite Hst1; reflexivity).
    assert (B7 : f_totalLength st1 = f_totalLength st) by (rewrite Hst1; reflexivity).
    assert (B8 : f_ptCount st1 = f_ptCount st) by (rewrite Hst1; reflexivity).
    clear Hst1.
    specialize (IH st1). cbn zeta in IH. destruct IH as (Hb & (Ha & Hx & Hy) & (H1 & H2 & H3 & H4)).
    rewrite B1 in Hb, Ha, Hx, Hy. rewrite B2 in Ha. rewrite B3 in Hx. rewrite B4 in Hy. rewrite B5 in H1. rewrite B6 in H2. rewrite B7 in H3. rewrite B8 in H4.
    rewrite fan_cons2. change CentroidPrelude.pt with Defs.pt in *. destruct (fan (f_areaBasePt st) (q :: t)) as [[a mx] my].
    unfold area_part, line_frame, scale3, t3add, tri in *. cbn [fst snd] in *.
    split; [exact Hb|]. split; [|repeat split; assumption].
    rewrite Ha, Hx, Hy. repeat split; ring.
Qed.

(* ------------------------------------------------------------------ addLineSegments: for ANY distance and division function
   it leaves the area accumulators and the base point alone *)
Section Gen.
  Variable ccw : list pt -> bool.
  Variable dist : pt -> pt -> Z.
  Variable dv : Z -> Z -> Z.

  Lemma gen_addLineSegments_area_frame : forall st r, area_frame st (cen_addLineSegments dist dv st r).
  Proof.
    intros st r. unfold cen_addLineSegments.
    set (body := fun (acc : cst * Z) (v_i : Z) => _).
    assert (H : area_frame st (fst (fold_left body (zrange 0 (Z.sub (m_size_0 r) 1)) (st, flit 0 0 1)))).
    { apply (fold_left_inv (fun acc => area_frame st (fst acc))).
      - cbn. unfold area_frame. auto.
      - intros [s ll] i Hs. subst body. cbn beta iota. cbn [fst] in Hs.
        destruct (eqb (dist (m_getAt_1 r i) (m_getAt_1 r (Z.add i 1))) (flit 0 0 1)); cbn [fst]; [exact Hs|].
        unfold area_frame in *. cbn. exact Hs. }
    destruct (fold_left body (zrange 0 (Z.sub (m_size_0 r) 1)) (st, flit 0 0 1)) as [s ll]. cbn [fst] in H.
    destruct (andb (eqb ll (flit 0 0 1)) (Z.gtb (m_size_0 r) 0)); unfold area_frame in *; cbn; exact H.
  Qed.

  (* ---------------------------------------------------------------- (a) addShell, (b) addHole *)
  (* after addShell on ANY non-empty sequence r = b :: _ : the base point is r[0]; areasum2 and cg3 have grown by
     sign * (the fan sums of r from its first point), sign = +1 iff NOT isCCW(r) — exactly the flag the code computes *)
  Theorem gen_addShell_area : forall st b r', let r := b :: r' in
    let st' := cen_addShell ccw dist dv st r in
    f_areaBasePt st' = b /\ area_part st st' (scale3 (sg (negb (ccw r))) (fan b r)).
  Proof.
    intros st b r' r st'. subst st'. unfold cen_addShell.
    assert (Hlen : Z.gtb (m_size_0 r) 0 = true) by (unfold m_size_0; subst r; cbn [length]; lia).
    rewrite Hlen.
    rewrite (zrange_loop_pairs (fun st p q => cen_addTriangle st (c_opmul_1 (f_areaBasePt st)) p q (negb (ccw r))) r).
    change (fun st p q => cen_addTriangle st (c_opmul_1 (f_areaBasePt st)) p q (negb (ccw r))) with (triF (negb (ccw r))).
    assert (Hb0 : m_getAt_1 r 0 = b) by reflexivity. rewrite Hb0.
    pose proof (tri_loop (negb (ccw r)) r (m_setAreaBasePoint_1 st b)) as (Hb & Ha & _). cbn zeta in Hb, Ha.
    pose proof (gen_addLineSegments_area_frame (fold_pairs (triF (negb (ccw r))) r (m_setAreaBasePoint_1 st b)) r) as (F1 & F2 & F3).
    unfold area_part in *. rewrite F1, F2, F3. cbn [m_setAreaBasePoint_1 set_areaBasePt f_areaBasePt f_cg3 f_areasum2] in Hb, Ha.
    split; [exact Hb | exact Ha].
  Qed.

  (* addHole = the same accumulation with the OPPOSITE flag (sign = +1 iff isCCW(r)), from the base point left by addShell *)
  Theorem gen_addHole_area : forall st r, r <> [] ->
    let st' := cen_addHole ccw dist dv st r in
    f_areaBasePt st' = f_areaBasePt st /\ area_part st st' (scale3 (sg (ccw r)) (fan (f_areaBasePt st) r)).
  Proof.
    intros st r Hne st'. subst st'. unfold cen_addHole. destruct r as [|b r']; [congruence|]. cbn [m_isEmpty_0].
    set (r := b :: r').
    rewrite (zrange_loop_pairs (fun st p q => cen_addTriangle st (c_opmul_1 (f_areaBasePt st)) p q (ccw r)) r).
    change (fun st p q => cen_addTriangle st (c_opmul_1 (f_areaBasePt st)) p q (ccw r)) with (triF (ccw r)).
    pose proof (tri_loop (ccw r) r st) as (Hb & Ha & _). cbn zeta in Hb, Ha.
    pose proof (gen_addLineSegments_area_frame (fold_pairs (triF (ccw r)) r st) r) as (F1 & F2 & F3).
    unfold area_part in *. rewrite F1, F2, F3. split; [exact Hb | exact Ha].
  Qed.
  Theorem gen_addHole_empty : forall st, cen_addHole ccw dist dv st [] = st.
  Proof. reflexivity. Qed.

  (* ---------------------------------------------------------------- (d) getCentroid: selection by the tests the code writes *)
  (* which branch, and which operands reach the (abstract) division *)
  Definition sel_kind (st : cst) : option Z :=
    if negb (f_areasum2 st =? 0) then Some 2 else if 0 <? f_totalLength st then Some 1 else if 0 <? f_ptCount st then Some 0 else None.
  Theorem gen_getCentroid_selection : forall st c0,
    cen_getCentroid dv st c0 =
    match sel_kind st with
    | Some 2 => ((dv (dv (fst (f_cg3 st)) 3) (f_areasum2 st), dv (dv (snd (f_cg3 st)) 3) (f_areasum2 st)), true)
    | Some 1 => ((dv (fst (f_lineCentSum st)) (f_totalLength st), dv (snd (f_lineCentSum st)) (f_totalLength st)), true)
    | Some _ => ((dv (fst (f_ptCentSum st)) (f_ptCount st), dv (snd (f_ptCentSum st)) (f_ptCount st)), true)
    | None => (c0, false)
    end.
  Proof.
    intros st c0. unfold cen_getCentroid, sel_kind. zp. unfold set_x, set_y. cbn [fst snd].
    replace (Z.gtb (Z.abs (f_areasum2 st)) 0) with (negb (f_areasum2 st =? 0)) by (destruct (Z.eqb_spec (f_areasum2 st) 0); cbn [negb]; lia).
    destruct (negb (f_areasum2 st =? 0)); [reflexivity|].
    replace (Z.gtb (f_totalLength st) 0) with (0 <? f_totalLength st) by lia.
    destruct (0 <? f_totalLength st); [reflexivity|].
    replace (Z.gtb (f_ptCount st) 0) with (0 <? f_ptCount st) by lia.
    destruct (0 <? f_ptCount st); reflexivity.
  Qed.
  (* "highest-dimension components": what the code does is test the ACCUMULATED signed area, not the dimension: when all
     polygons have zero (or cancelling) area, areasum2 = 0 and the line sums (polygon rings included) are used *)
  Corollary gen_getCentroid_zero_area_falls_through : forall st c0, f_areasum2 st = 0 -> 0 < f_totalLength st ->
    cen_getCentroid dv st c0 = ((dv (fst (f_lineCentSum st)) (f_totalLength st), dv (snd (f_lineCentSum st)) (f_totalLength st)), true).
  Proof.
    intros st c0 H0 HL. rewrite gen_getCentroid_selection. unfold sel_kind. rewrite H0. cbn [Z.eqb negb].
    replace (0 <? f_totalLength st) with true by lia. reflexivity.
  Qed.

  (* ---------------------------------------------------------------- polygons: Centroid::add(const Polygon&) — hand glue for
     `addShell(shell); for each hole addHole(hole)`; add(Geometry) skips empty geometries (shell = []) *)
  Definition gen_poly (st : cst) (sh : list pt * list (list pt)) : cst :=
    match fst sh with
    | [] => st
    | _ => fold_left (fun s h => cen_addHole ccw dist dv s h) (snd sh) (cen_addShell ccw dist dv st (fst sh))
    end.

  (* a ring on which the orientation flag and the hand specification's shoelace sign agree: for non-zero fan area the flag is
     the sign; for zero area the moments vanish too (flat rings; NOT bow-ties with cancelling lobes, whose moments the code
     keeps and Defs.v drops — those are excluded from the run-time comparison as well) *)
  Definition ring_agrees (b : pt) (r : list pt) : Prop :=
    let '(a, mx, my) := fan b r in
    if a =? 0 then mx = 0 /\ my = 0 else ccw r = (0 <? a).

  Lemma ring_agrees_scale : forall b r sgn, ring_agrees b r -> (sgn = 1 \/ sgn = -1) ->
    scale3 (sg (if sgn =? 1 then negb (ccw r) else ccw r)) (fan b r) =
    let '(a, mx, my) := fan b r in let s := sgn * Z.sgn a in (- (s * a), - (s * mx), - (s * my)).
  Proof.
    intros b r sgn H Hs. unfold ring_agrees in H. destruct (fan b r) as [[a mx] my]. unfold scale3. cbn [fst snd]. cbn zeta.
    destruct (Z.eqb_spec a 0) as [->|Hne].
    - destruct H as [-> ->]. cbn [Z.sgn]. rewrite !Z.mul_0_r. reflexivity.
    - rewrite H. destruct Hs as [-> | ->]; cbn [Z.eqb Pos.eqb]; destruct (Z.ltb_spec 0 a); cbn [negb sg].
      + rewrite Z.sgn_pos by lia. apply triple_eq; ring.
      + rewrite Z.sgn_neg by lia. apply triple_eq; ring.
      + rewrite Z.sgn_pos by lia. apply triple_eq; ring.
      + rewrite Z.sgn_neg by lia. apply triple_eq; ring.
  Qed.

  Definition poly_agrees (sh : list pt * list (list pt)) : Prop :=
    match fst sh with [] => True | b :: _ => ring_agrees b (fst sh) /\ Forall (fun h => ring_agrees b h) (snd sh) end.

  (* the area view of a state and of the hand specification's accumulator, with the code's global sign:
     areasum2 = - aA, cg3 = - (aMx, aMy)  (the code accumulates NEGATIVE area for shells: sign = +1 iff not CCW) *)
  Definition area_neg (st : cst) (a : cacc) : Prop :=
    f_areasum2 st = - aA a /\ fst (f_cg3 st) = - aMx a /\ snd (f_cg3 st) = - aMy a.

  Lemma aA_acc_line : forall k c, aA (acc_line k c) = 0 /\ aMx (acc_line k c) = 0 /\ aMy (acc_line k c) = 0.
  Proof. intros k c. unfold acc_line. destruct (lin k c) as [[l sx] sy]. destruct c; [cbn; auto|]. destruct (l =? 0); cbn; auto. Qed.

  Lemma holes_bridge : forall k b hs st a0, f_areaBasePt st = b -> area_neg st a0 -> Forall (fun h => ring_agrees b h) hs ->
    let st' := fold_left (fun s h => cen_addHole ccw dist dv s h) hs st in
    f_areaBasePt st' = b /\ area_neg st' (fold_right (fun h acc => acc_add (acc_ring k b (-1) h) acc) a0 (rev hs)).
  Proof.
    intros k b hs. induction hs as [|h t IH]; intros st a0 Hb Ha Hf; cbn zeta.
    - cbn. auto.
    - cbn [fold_left rev]. rewrite fold_right_app. cbn [fold_right]. pose proof (Forall_inv Hf) as Hh. pose proof (Forall_inv_tail Hf) as Ht.
      apply IH; [| |exact Ht].
      + destruct h as [|p h']; [rewrite gen_addHole_empty; exact Hb|]. pose proof (gen_addHole_area st (p :: h') ltac:(discriminate)) as [E _]. rewrite E. exact Hb.
      + destruct h as [|p h'].
        * rewrite gen_addHole_empty. unfold area_neg, acc_ring in *. cbn [fan]. cbn. destruct Ha as (A1 & A2 & A3). repeat split; lia.
        * pose proof (gen_addHole_area st (p :: h') ltac:(discriminate)) as [_ (E1 & E2 & E3)].
          rewrite Hb in E1, E2, E3.
          pose proof (ring_agrees_scale b (p :: h') (-1) Hh ltac:(right; reflexivity)) as Hs. cbn [Z.eqb] in Hs.
          rewrite Hs in E1, E2, E3. unfold area_neg, acc_ring in *.
          destruct (aA_acc_line k (p :: h')) as (L1 & L2 & L3).
          destruct (fan b (p :: h')) as [[a mx] my]. cbn [fst snd] in E1, E2, E3. cbn zeta in E1, E2, E3.
          destruct Ha as (A1 & A2 & A3). unfold acc_add. cbn [aA aMx aMy]. rewrite L1, L2, L3.
          repeat split; lia.
  Qed.

  (* one polygon: generated accumulation = - (area part of Defs.acc_geom's polygon case), up to the order of the holes *)
  Lemma poly_bridge : forall k st a0 s hs, poly_agrees (s, hs) -> area_neg st a0 ->
    area_neg (gen_poly st (s, hs)) (acc_add (acc_geom k (GPoly s (rev hs))) a0).
  Proof.
    intros k st a0 s hs Hag Ha. unfold gen_poly, poly_agrees in *. cbn [fst snd] in *. destruct s as [|b s'].
    - cbn [acc_geom]. unfold area_neg, acc_add in *. cbn. destruct Ha as (A1 & A2 & A3). repeat split; lia.
    - destruct Hag as [Hs Hh]. cbn [acc_geom].
      pose proof (gen_addShell_area st b s') as [Eb (E1 & E2 & E3)]. cbn zeta in Eb, E1, E2, E3.
      pose proof (ring_agrees_scale b (b :: s') 1 Hs ltac:(left; reflexivity)) as Hsc. cbn [Z.eqb Pos.eqb] in Hsc.
      rewrite Hsc in E1, E2, E3.
      assert (Ha1 : area_neg (cen_addShell ccw dist dv st (b :: s')) (acc_add (acc_ring k b 1 (b :: s')) a0)).
      { unfold area_neg, acc_ring in *. destruct (aA_acc_line k (b :: s')) as (L1 & L2 & L3).
        destruct (fan b (b :: s')) as [[a mx] my]. cbn [fst snd] in E1, E2, E3. cbn zeta in E1, E2, E3.
        destruct Ha as (A1 & A2 & A3). unfold acc_add. cbn [aA aMx aMy]. rewrite L1, L2, L3. repeat split; lia. }
      pose proof (holes_bridge k b hs _ _ Eb Ha1 Hh) as [_ H]. cbn zeta in H.
      unfold area_neg in *. destruct H as (H1 & H2 & H3).
      (* fold_right over the holes starting from (ring + a0)  =  (fold_right from ring) + a0, componentwise on the area part *)
      assert (G : forall l x y,
        aA (fold_right (fun h acc => acc_add (acc_ring k b (-1) h) acc) (acc_add x y) l) = aA (acc_add (fold_right (fun h acc => acc_add (acc_ring k b (-1) h) acc) x l) y) /\
        aMx (fold_right (fun h acc => acc_add (acc_ring k b (-1) h) acc) (acc_add x y) l) = aMx (acc_add (fold_right (fun h acc => acc_add (acc_ring k b (-1) h) acc) x l) y) /\
        aMy (fold_right (fun h acc => acc_add (acc_ring k b (-1) h) acc) (acc_add x y) l) = aMy (acc_add (fold_right (fun h acc => acc_add (acc_ring k b (-1) h) acc) x l) y)).
      { induction l as [|h t IHl]; intros x y; cbn [fold_right]; [auto|]. destruct (IHl x y) as (G1 & G2 & G3).
        unfold acc_add in *. cbn [aA aMx aMy] in *. repeat split; lia. }
      destruct (G (rev hs) (acc_ring k b 1 (b :: s')) a0) as (G1 & G2 & G3).
      rewrite <- G1, <- G2, <- G3. auto.
  Qed.
End Gen.

(* ------------------------------------------------------------------ (a) shoelace form and independence of the base point *)
Lemma fan0_shoelace : forall r, fst (fst (fan (0, 0) r)) = shoelace r.
Proof.
  induction r as [|p [|q t] IH]; [reflexivity | reflexivity |].
  rewrite fan_cons2. unfold t3add, tri. cbn [fst snd]. rewrite IH.
  change (shoelace (p :: q :: t)) with (px p * py q - px q * py p + shoelace (q :: t)).
  unfold orient, px, py. cbn [fst snd]. ring.
Qed.

(* for a CLOSED ring the generated accumulation does not depend on the base point the code happens to take (r[0]): the same
   sums come out for every b', and the area term is the signed shoelace double-area times the code's orientation sign *)
Theorem gen_addShell_base_independent : forall ccw dist dv st b r' b', let r := b :: r' in last r b = b ->
  let st' := cen_addShell ccw dist dv st r in
  area_part st st' (scale3 (sg (negb (ccw r))) (fan b' r)) /\
  f_areasum2 st' = f_areasum2 st + sg (negb (ccw r)) * shoelace r.
Proof.
  intros ccw dist dv st b r' b' r Hcl st'. pose proof (gen_addShell_area ccw dist dv st b r') as [_ H]. cbn zeta in H. fold r in H.
  assert (Hf : forall c, fan b r = fan c r).
  { intros c. apply (centroid_fan_origin_independent b c r b); [discriminate | symmetry; exact Hcl]. }
  split; [rewrite <- (Hf b'); exact H|].
  destruct H as (H1 & _). subst st'. rewrite H1. rewrite (Hf (0, 0)). unfold scale3. cbn [fst snd]. rewrite fan0_shoelace. reflexivity.
Qed.

(* ------------------------------------------------------------------ bridging theorem: a list of polygons *)
Definition poly_geom (sh : list pt * list (list pt)) : geom := GPoly (fst sh) (rev (snd sh)).

Lemma polys_bridge_gen : forall ccw dist dv k ps st a0, area_neg st a0 -> Forall (poly_agrees ccw) ps ->
  area_neg (fold_left (gen_poly ccw dist dv) ps st) (fold_right (fun x acc => acc_add (acc_geom k x) acc) a0 (map poly_geom (rev ps))).
Proof.
  intros ccw dist dv k ps. induction ps as [|[s hs] t IH]; intros st a0 Ha Hf; [exact Ha|].
  cbn [fold_left rev]. rewrite map_app, fold_right_app. cbn [map fold_right].
  apply IH; [|exact (Forall_inv_tail Hf)]. unfold poly_geom. cbn [fst snd].
  apply poly_bridge; [exact (Forall_inv Hf) | exact Ha].
Qed.

(* The generated accumulation (addShell / addHole / addTriangle / addLineSegments / addPoint from Centroid.cpp, composed as
   Centroid::add(Polygon) does) over ANY list of polygons whose rings satisfy `ring_agrees`, started from the constructor's
   state, holds exactly the NEGATED area sums of the hand specification Defs.acc_geom on the same polygons (the elements and
   holes in the order in which Defs.v's fold_right meets them), and when Defs.centroid answers with the area-weighted mean
   (kind 2, nx/d, ny/d), the generated getCentroid takes its area branch with cg3 = -(nx, ny) and 3*areasum2 = -d:
   cg3.x / 3 / areasum2 and nx / d are the same rational number (common factor -1). *)
Theorem gen_polygons_centroid_bridge : forall ccw dist dv k ps, Forall (poly_agrees ccw) ps ->
  let st := fold_left (gen_poly ccw dist dv) ps cst0 in
  let g := GColl 6 (map poly_geom (rev ps)) in
  area_neg st (acc_geom k g) /\
  (forall nx ny d, centroid k g = Some (2, nx, ny, d) ->
     sel_kind st = Some 2 /\ fst (f_cg3 st) = - nx /\ snd (f_cg3 st) = - ny /\ 3 * f_areasum2 st = - d /\ d <> 0).
Proof.
  intros ccw dist dv k ps Hf st g.
  assert (Hn : area_neg st (acc_geom k g)).
  { subst st g. cbn [acc_geom]. apply polys_bridge_gen; [|exact Hf]. unfold area_neg. cbn. auto. }
  split; [exact Hn|]. intros nx ny d Hc. unfold centroid in Hc. set (a := acc_geom k g) in *. clearbody a.
  unfold centroid_of_acc in Hc. destruct Hn as (N1 & N2 & N3). remember (3 * aA a) as d3 eqn:Ed3.
  destruct (Z.eqb_spec (aA a) 0) as [E|E]; cbn [negb] in Hc.
  - destruct (0 <? aL a); [discriminate|]. destruct (0 <? aN a); discriminate.
  - assert (Hx : nx = aMx a /\ ny = aMy a /\ d = d3) by (injection Hc; auto). destruct Hx as (-> & -> & ->). unfold sel_kind.
    destruct (Z.eqb_spec (f_areasum2 st) 0) as [E0|E0]; [lia|]. cbn [negb]. repeat split; try reflexivity; lia.
Qed.

(* non-vacuity: a CCW square with a hole and a CW triangle, with the model isCCW of Defs.v, any distance, Z.div *)
Definition ex_ps : list (list pt * list (list pt)) :=
  [([(0,0); (6,0); (6,6); (0,6); (0,0)], [[(1,1); (1,2); (2,2); (2,1); (1,1)]]); ([(10,0); (10,3); (13,0); (10,0)], [])].
Example ex_ps_agrees : Forall (poly_agrees isCCW) ex_ps.
Proof. repeat constructor; vm_compute; reflexivity. Qed.
Example ex_ps_state : let st := fold_left (gen_poly isCCW (fun _ _ => 1) Z.div) ex_ps cst0 in
  (f_areasum2 st, f_cg3 st, sel_kind st) = (-79, (-936, -666), Some 2) /\
  centroid 8 (GColl 6 (map poly_geom (rev ex_ps))) = Some (2, 936, 666, 237).
Proof. vm_compute. split; reflexivity. Qed.
Example ex_zero_area_falls_through :
  let st := fold_left (gen_poly isCCW (fun _ _ => 1) Z.div) [([(0,0); (2,0); (4,0); (0,0)], [])] cst0 in
  f_areasum2 st = 0 /\ sel_kind st = Some 1.
Proof. vm_compute. split; reflexivity. Qed.
