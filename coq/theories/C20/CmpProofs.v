(* C20 — Geometry::compareTo (model cmp_geom) is a total order on well-formed geometries whose equal keys are equal
   elements: the hypothesis of sorted_perm_unique holds for the comparators used by normalize. *)
From Coq Require Import ZArith List Bool Lia Arith.
From GeosV.C20 Require Import Defs HullProofs CentroidProofs SortProofs.
Import ListNotations.

Definition T {A} : A -> Prop := fun _ => True.
Lemma Forall_T : forall {A} (l : list A), Forall T l.
Proof. intros A l. apply Forall_forall. intros; exact I. Qed.

(* ------------------------------------------------------------------ coordinates, sequences, curves *)
Lemma good_ext : forall {A} (D : A -> Prop) c c' x, (forall u v, c u v = c' u v) -> good D c' x -> good D c x.
Proof.
  intros A D c c' x He (R & E & An & T1 & T2). unfold good. rewrite !He. split; [exact R|]. split; [|split; [|split]].
  - intros y Dy. rewrite He. apply E; exact Dy.
  - intros y Dy. rewrite !He. apply An; exact Dy.
  - intros y z Dy Dz. rewrite !He. apply T1; assumption.
  - intros y z Dy Dz. rewrite !He. apply T2; assumption.
Qed.
Lemma cmp_pt_keylex : forall a b, cmp_pt a b = keylex Z.compare px (fun u v => py u ?= py v)%Z a b.
Proof. intros a b. unfold cmp_pt, keylex, lex. destruct (px a ?= px b)%Z; reflexivity. Qed.
Lemma good_cmp_pt : forall x, good T cmp_pt x.
Proof.
  intros x. assert (G : good T (keylex Z.compare px (fun u v => py u ?= py v)%Z) x).
  { apply good_keylex; [exact good_Zcompare|]. destruct (good_Zcompare (py x)) as (R & E & An & T1 & T2).
    repeat split.
    - exact R.
    - intros y [_ Hk] H. apply E in H; [|exact I]. destruct x, y; unfold px, py in *; cbn in *; congruence.
    - intros y _. apply An. exact I.
    - intros y z _ _. apply T1; exact I.
    - intros y z _ _. apply T2; exact I. }
  apply (good_ext T cmp_pt _ x cmp_pt_keylex). exact G.
Qed.
Lemma cmp_pts_list : forall a b, cmp_pts a b = cmp_list cmp_pt a b.
Proof. induction a as [|x r IH]; intros [|y s]; cbn; try reflexivity; rewrite IH; reflexivity. Qed.
Lemma good_cmp_pts : forall l, good T cmp_pts l.
Proof.
  intros l. apply (good_ext T cmp_pts (cmp_list cmp_pt) l cmp_pts_list).
  eapply good_weaken; [|apply (good_cmp_list T cmp_pt l)].
  - intros; apply Forall_T.
  - apply Forall_forall. intros; apply good_cmp_pt.
Qed.
Lemma good_cmp_seq : forall l, good T cmp_seq l.
Proof.
  intros l. change cmp_seq with (keylex Nat.compare (@length pt) cmp_pts).
  apply good_keylex; [exact good_natcompare|]. eapply good_weaken; [|apply good_cmp_pts]. intros; exact I.
Qed.
Lemma cmp_curve_seq : forall a b, cmp_curve a b = cmp_seq a b.
Proof. intros [|x r] [|y s]; reflexivity. Qed.
Lemma good_cmp_curve : forall l, good T cmp_curve l.
Proof. intros l. apply (good_ext T cmp_curve cmp_seq l cmp_curve_seq). apply good_cmp_seq. Qed.

(* holes: number first, then pairwise *)
Definition cmp_holes (h1 h2 : list (list pt)) : comparison := keylex Nat.compare (@length (list pt)) (cmp_list cmp_curve) h1 h2.
Lemma good_cmp_holes : forall h, good T cmp_holes h.
Proof.
  intros h. unfold cmp_holes. apply good_keylex; [exact good_natcompare|].
  eapply good_weaken; [|apply (good_cmp_list T cmp_curve h)].
  - intros; apply Forall_T.
  - apply Forall_forall. intros; apply good_cmp_curve.
Qed.
Lemma cmp_poly_pairlex : forall s1 h1 s2 h2, cmp_poly s1 h1 s2 h2 = pairlex cmp_curve cmp_holes (s1, h1) (s2, h2).
Proof. reflexivity. Qed.
Lemma good_cmp_poly : forall s h, good T (pairlex cmp_curve cmp_holes) (s, h).
Proof.
  intros s h. eapply good_weaken; [|apply (good_pairlex T T cmp_curve cmp_holes s h (good_cmp_curve s) (good_cmp_holes h))].
  intros; split; exact I.
Qed.

(* ------------------------------------------------------------------ the geometry tree *)
(* well-formedness needed by compareTo: collection kinds are the four GEOS ones; an empty polygon has no holes; an empty
   collection (all elements empty) has no elements. Otherwise two different geometries would compare equal. *)
Fixpoint Dc (g : geom) : Prop :=
  match g with
  | GPoly s hs => s = [] -> hs = []
  | GColl t gs => (4 <= t <= 7)%Z /\ (forallb is_empty gs = true -> gs = []) /\
                  (fix all (l : list geom) : Prop := match l with [] => True | x :: r => Dc x /\ all r end) gs
  | _ => True
  end.
Lemma Dc_coll : forall t gs, Dc (GColl t gs) <-> (4 <= t <= 7)%Z /\ (forallb is_empty gs = true -> gs = []) /\ Forall Dc gs.
Proof.
  intros t gs. cbn [Dc]. assert (H : (fix all (l : list geom) : Prop := match l with [] => True | x :: r => Dc x /\ all r end) gs <-> Forall Dc gs).
  { induction gs as [|x r IH]; [split; constructor|]. split.
    - intros [Hx Hr]. constructor; [exact Hx|apply IH; exact Hr].
    - intros HF. inversion HF; subst. split; [assumption|apply IH; assumption]. }
  rewrite H. reflexivity.
Qed.

Definition class_cmp (a b : geom) : comparison :=
  match a, b with
  | GPoint c1, GPoint c2 => cmp_pts c1 c2
  | GLine c1, GLine c2 => cmp_seq c1 c2
  | GRing c1, GRing c2 => cmp_seq c1 c2
  | GPoly s1 h1, GPoly s2 h2 => cmp_poly s1 h1 s2 h2
  | GColl _ g1, GColl _ g2 => cmp_list cmp_geom g1 g2
  | _, _ => Eq
  end.
Lemma cmp_list_ext : forall {A} (c c' : A -> A -> comparison) a b, (forall x y, c x y = c' x y) -> cmp_list c a b = cmp_list c' a b.
Proof. intros A c c' a. induction a as [|x r IH]; intros [|y s] H; cbn; try reflexivity. rewrite H, IH; auto. Qed.
Lemma cmp_geom_unfold : forall a b, cmp_geom a b =
  match (sort_index a ?= sort_index b)%Z with
  | Eq => if is_empty a && is_empty b then Eq else if is_empty a then Lt else if is_empty b then Gt else class_cmp a b
  | c => c
  end.
Proof.
  intros a b. destruct a, b; reflexivity.
Qed.

Lemma is_empty_class : forall a b, Dc a -> Dc b -> sort_index a = sort_index b ->
  (is_empty a = true -> is_empty b = true -> class_cmp a b = Eq) /\
  (is_empty a = true -> is_empty b = false -> class_cmp a b = Lt) /\
  (is_empty a = false -> is_empty b = true -> class_cmp a b = Gt).
Proof.
  intros a b Da Db Hi. destruct a as [c1|c1|c1|s1 h1|t1 g1], b as [c2|c2|c2|s2 h2|t2 g2]; cbn [sort_index] in Hi;
    try (repeat match type of Hi with context [if ?c then _ else _] => destruct c end; discriminate).
  - cbn. destruct c1, c2; repeat split; try discriminate; reflexivity.
  - cbn [is_empty class_cmp]. destruct c1, c2; repeat split; try discriminate; reflexivity.
  - cbn [is_empty class_cmp]. destruct c1, c2; repeat split; try discriminate; reflexivity.
  - cbn [is_empty class_cmp Dc] in *. destruct s1, s2; repeat split; intros; try discriminate; try reflexivity.
    rewrite Da, Db by reflexivity. reflexivity.
  - apply Dc_coll in Da, Db. destruct Da as (_ & Ea & _), Db as (_ & Eb & _). cbn [is_empty class_cmp].
    repeat split; intros H1 H2.
    + rewrite (Ea H1), (Eb H2). reflexivity.
    + rewrite (Ea H1). destruct g2; [cbn in H2; discriminate|reflexivity].
    + rewrite (Eb H2). destruct g1; [cbn in H1; discriminate|reflexivity].
Qed.

(* on well-formed geometries compareTo is: sort index first, then the class-specific comparison *)
Lemma cmp_geom_Dc : forall a b, Dc a -> Dc b -> cmp_geom a b = keylex Z.compare sort_index class_cmp a b.
Proof.
  intros a b Da Db. rewrite cmp_geom_unfold. unfold keylex, lex.
  destruct (sort_index a ?= sort_index b)%Z eqn:E; try reflexivity.
  apply Z.compare_eq in E. destruct (is_empty_class a b Da Db E) as (H1 & H2 & H3).
  destruct (is_empty a), (is_empty b); cbn [andb]; symmetry; auto.
Qed.

Lemma good_transfer : forall {A B} (f : B -> A) (D : A -> Prop) (D' : B -> Prop) c c' x,
  (forall y, D y -> exists v, y = f v /\ D' v) -> (forall u v, c (f u) (f v) = c' u v) -> (forall u v, f u = f v -> u = v) ->
  good D' c' x -> good D c (f x).
Proof.
  intros A B f D D' c c' x Hd Hc Hinj (R & E & An & T1 & T2). unfold good. split; [rewrite Hc; exact R|]. split; [|split; [|split]].
  - intros y Dy H. destruct (Hd y Dy) as (v & -> & Dv). rewrite Hc in H. f_equal. apply E; assumption.
  - intros y Dy. destruct (Hd y Dy) as (v & -> & Dv). rewrite !Hc. apply An; assumption.
  - intros y z Dy Dz. destruct (Hd y Dy) as (v & -> & Dv). destruct (Hd z Dz) as (w & -> & Dw). rewrite !Hc. apply T1; assumption.
  - intros y z Dy Dz. destruct (Hd y Dy) as (v & -> & Dv). destruct (Hd z Dz) as (w & -> & Dw). rewrite !Hc. apply T2; assumption.
Qed.

Lemma sort_index_coll : forall t, (4 <= t <= 7)%Z -> sort_index (GColl t []) = (if t =? 4 then 1 else if t =? 5 then 4 else if t =? 6 then 6 else 7)%Z.
Proof. reflexivity. Qed.

Lemma good_on_D : forall {A} (D : A -> Prop) c c' x, D x -> (forall u v, D u -> D v -> c u v = c' u v) -> good D c' x -> good D c x.
Proof.
  intros A D c c' x Dx He (R & E & An & T1 & T2). unfold good. split; [rewrite He by assumption; exact R|]. split; [|split; [|split]].
  - intros y Dy. rewrite He by assumption. apply E; exact Dy.
  - intros y Dy. rewrite !He by assumption. apply An; exact Dy.
  - intros y z Dy Dz. rewrite !He by assumption. apply T1; assumption.
  - intros y z Dy Dz. rewrite !He by assumption. apply T2; assumption.
Qed.

Theorem good_cmp_geom : forall g, Dc g -> good Dc cmp_geom g.
Proof.
  induction g as [c|c|c|s hs|t gs IH] using geom_ind'; intros Dg.
  all: apply (good_on_D Dc cmp_geom (keylex Z.compare sort_index class_cmp) _ Dg cmp_geom_Dc).
  - (* point *) apply good_keylex; [exact good_Zcompare|].
    apply (good_transfer GPoint _ T class_cmp cmp_pts c); [| reflexivity | intros u v H; inversion H; reflexivity | apply good_cmp_pts].
    intros y [Dy Hk]. destruct y as [c2|c2|c2|s2 h2|t2 g2]; cbn [sort_index] in Hk;
      try (repeat match type of Hk with context [if ?c then _ else _] => destruct c end; discriminate).
    exists c2. split; [reflexivity|exact I].
  - (* line *) apply good_keylex; [exact good_Zcompare|].
    apply (good_transfer GLine _ T class_cmp cmp_seq c); [| reflexivity | intros u v H; inversion H; reflexivity | apply good_cmp_seq].
    intros y [Dy Hk]. destruct y as [c2|c2|c2|s2 h2|t2 g2]; cbn [sort_index] in Hk;
      try (repeat match type of Hk with context [if ?c then _ else _] => destruct c end; discriminate).
    exists c2. split; [reflexivity|exact I].
  - (* ring *) apply good_keylex; [exact good_Zcompare|].
    apply (good_transfer GRing _ T class_cmp cmp_seq c); [| reflexivity | intros u v H; inversion H; reflexivity | apply good_cmp_seq].
    intros y [Dy Hk]. destruct y as [c2|c2|c2|s2 h2|t2 g2]; cbn [sort_index] in Hk;
      try (repeat match type of Hk with context [if ?c then _ else _] => destruct c end; discriminate).
    exists c2. split; [reflexivity|exact I].
  - (* polygon *) apply good_keylex; [exact good_Zcompare|].
    apply (good_transfer (fun p => GPoly (fst p) (snd p)) _ T class_cmp (pairlex cmp_curve cmp_holes) (s, hs));
      [| intros [u1 u2] [v1 v2]; reflexivity | intros [u1 u2] [v1 v2] H; inversion H; reflexivity | apply good_cmp_poly].
    intros y [Dy Hk]. destruct y as [c2|c2|c2|s2 h2|t2 g2]; cbn [sort_index] in Hk;
      try (repeat match type of Hk with context [if ?c then _ else _] => destruct c end; discriminate).
    exists (s2, h2). split; [reflexivity|exact I].
  - (* collection *) apply good_keylex; [exact good_Zcompare|].
    apply Dc_coll in Dg. destruct Dg as (Ht & He & HF).
    apply (good_transfer (GColl t) _ (Forall Dc) class_cmp (cmp_list cmp_geom) gs); [| reflexivity | intros u v H; inversion H; reflexivity |].
    + intros y [Dy Hk]. destruct y as [c2|c2|c2|s2 h2|t2 g2]; cbn [sort_index] in Hk;
        try (repeat match type of Hk with context [if ?c then _ else _] => destruct c end; discriminate).
      apply Dc_coll in Dy. destruct Dy as (Ht2 & _ & HF2). exists g2. split; [|exact HF2]. f_equal.
      destruct (Z.eqb_spec t2 4), (Z.eqb_spec t2 5), (Z.eqb_spec t2 6), (Z.eqb_spec t 4), (Z.eqb_spec t 5), (Z.eqb_spec t 6); lia.
    + apply good_cmp_list. rewrite Forall_forall in IH, HF |- *. intros x Hx. apply IH; auto.
Qed.

(* curves (holes of a polygon) *)
Theorem good_cmp_curve_T : forall l, good T cmp_curve l.
Proof. exact good_cmp_curve. Qed.
