(* C20 — generic facts about the comparison functions and about sorting:
   `good D c x` bundles what a comparator must satisfy at x (reflexive, equal keys imply equal elements, antisymmetric,
   transitive) against all y, z of the domain D; lexicographic combinators preserve it; any two descending-sorted
   permutations of the same list are EQUAL (so std::sort's choice does not matter), and insertion sort is one of them. *)
From Coq Require Import ZArith List Bool Lia Permutation Arith.
From GeosV.C20 Require Import Defs.
Import ListNotations.

Section Ord.
  Context {A : Type} (D : A -> Prop) (c : A -> A -> comparison).
  Definition good (x : A) : Prop :=
    c x x = Eq /\
    (forall y, D y -> c x y = Eq -> x = y) /\
    (forall y, D y -> c y x = CompOpp (c x y)) /\
    (forall y z, D y -> D z -> c x y = Gt -> c y z = Gt -> c x z = Gt) /\
    (forall y z, D y -> D z -> c x y = Gt -> c y z = Eq -> c x z = Gt).
End Ord.

Lemma good_weaken : forall {A} (D D' : A -> Prop) c x, (forall y, D' y -> D y) -> good D c x -> good D' c x.
Proof.
  intros A D D' c x Hs (R & E & An & T1 & T2). unfold good. split; [exact R|]. split; [|split; [|split]].
  - intros y Dy H. apply E; [apply Hs; exact Dy|exact H].
  - intros y Dy. apply An. apply Hs; exact Dy.
  - intros y z Dy Dz H1 H2. apply (T1 y z); auto.
  - intros y z Dy Dz H1 H2. apply (T2 y z); auto.
Qed.

Lemma lex_eq : forall a b, lex a b = Eq <-> a = Eq /\ b = Eq.
Proof. intros a b. destruct a; cbn; intuition congruence. Qed.
Lemma lex_gt : forall a b, lex a b = Gt <-> a = Gt \/ (a = Eq /\ b = Gt).
Proof. intros a b. destruct a; cbn; intuition congruence. Qed.
Lemma lex_opp : forall a b, CompOpp (lex a b) = lex (CompOpp a) (CompOpp b).
Proof. intros [] b; reflexivity. Qed.

(* ------------------------------------------------------------------ base orders *)
Lemma good_Zcompare : forall x, good (fun _ => True) Z.compare x.
Proof.
  intros x. repeat split; intros.
  - apply Z.compare_refl.
  - apply Z.compare_eq. assumption.
  - symmetry. rewrite <- Z.compare_antisym. reflexivity.
  - apply Z.compare_gt_iff in H1, H2. apply Z.compare_gt_iff. lia.
  - apply Z.compare_gt_iff in H1. apply Z.compare_eq in H2. apply Z.compare_gt_iff. lia.
Qed.
Lemma good_natcompare : forall x, good (fun _ => True) Nat.compare x.
Proof.
  intros x. repeat split; intros.
  - apply Nat.compare_refl.
  - apply Nat.compare_eq. assumption.
  - symmetry. rewrite <- Nat.compare_antisym. reflexivity.
  - apply Nat.compare_gt_iff in H1, H2. apply Nat.compare_gt_iff. lia.
  - apply Nat.compare_gt_iff in H1. apply Nat.compare_eq in H2. apply Nat.compare_gt_iff. lia.
Qed.

(* ------------------------------------------------------------------ key first, then an order that is good among equal keys *)
Section KeyLex.
  Context {A K : Type} (D : A -> Prop) (ck : K -> K -> comparison) (k : A -> K) (c : A -> A -> comparison).
  Hypothesis Hk : forall u, good (fun _ => True) ck u.
  Definition keylex (a b : A) : comparison := lex (ck (k a) (k b)) (c a b).
  Lemma good_keylex : forall x, good (fun y => D y /\ k y = k x) c x -> good D keylex x.
  Proof.
    intros x (R & E & An & T1 & T2). destruct (Hk (k x)) as (kR & kE & kA & kT1 & kT2).
    unfold keylex. repeat split.
    - rewrite kR. exact R.
    - intros y Dy H. apply lex_eq in H. destruct H as [H1 H2]. apply E; auto. split; auto. symmetry. apply kE; auto.
    - intros y Dy. rewrite (kA (k y) I).
      destruct (ck (k x) (k y)) eqn:Ek; cbn [CompOpp lex]; [|reflexivity|reflexivity].
      apply An. split; [exact Dy|]. symmetry. apply kE; auto.
    - intros y z Dy Dz H1 H2. apply lex_gt in H1, H2. apply lex_gt.
      destruct H1 as [H1|[H1 H1']]; destruct H2 as [H2|[H2 H2']].
      + left. eapply kT1; eauto.
      + left. destruct (Hk (k y)) as (_ & kEy & _). rewrite <- (kEy (k z) I H2). exact H1.
      + left. rewrite (kE (k y) I H1). exact H2.
      + right. pose proof (kE (k y) I H1) as E1. destruct (Hk (k y)) as (_ & kEy & _). pose proof (kEy (k z) I H2) as E2.
        split; [rewrite E1, E2; destruct (Hk (k z)) as (r & _); exact r|].
        apply (T1 y z); auto; split; auto; congruence.
    - intros y z Dy Dz H1 H2. apply lex_gt in H1. apply lex_eq in H2. apply lex_gt. destruct H2 as [H2 H2'].
      destruct (Hk (k y)) as (_ & kEy & _). pose proof (kEy (k z) I H2) as E2.
      destruct H1 as [H1|[H1 H1']].
      + left. rewrite <- E2. exact H1.
      + right. pose proof (kE (k y) I H1) as E1. split; [rewrite <- E2; exact H1|].
        apply (T2 y z); auto; split; auto; congruence.
  Qed.
End KeyLex.

(* ------------------------------------------------------------------ lexicographic order on lists (Geometry::compare on vectors; pointwise compare of sequences) *)
Section ListLex.
  Context {A : Type} (D : A -> Prop) (c : A -> A -> comparison).
  Lemma good_cmp_list : forall l, Forall (good D c) l -> good (Forall D) (cmp_list c) l.
  Proof.
    induction l as [|x r IH]; intros HF.
    - repeat split.
      + intros [|y s] _ H; [reflexivity|discriminate].
      + intros [|y s] _; reflexivity.
      + intros [|y s] z _ _ H; discriminate.
      + intros [|y s] z _ _ H; discriminate.
    - inversion HF as [|? ? Gx Gr]; subst. specialize (IH Gr).
      destruct Gx as (R & E & An & T1 & T2). destruct IH as (lR & lE & lA & lT1 & lT2).
      repeat split.
      + cbn [cmp_list]. rewrite R. exact lR.
      + intros [|y s] Dy H; [discriminate|]. cbn [cmp_list] in H. apply lex_eq in H. destruct H as [H1 H2].
        inversion Dy; subst. f_equal; auto.
      + intros [|y s] Dy; [reflexivity|]. inversion Dy; subst. cbn [cmp_list]. rewrite lex_opp. rewrite <- An, <- lA; auto.
      + intros [|y s] [|z u] Dy Dz H1 H2; try discriminate; [reflexivity|].
        inversion Dy; inversion Dz; subst. cbn [cmp_list] in *. apply lex_gt in H1, H2. apply lex_gt.
        destruct H1 as [H1|[H1 H1']]; destruct H2 as [H2|[H2 H2']].
        * left. apply (T1 y z); assumption.
        * left. apply (T2 y z); assumption.
        * left. rewrite (E y) by assumption. exact H2.
        * right. rewrite (E y) by assumption. split; [exact H2|]. apply (lT1 s u); assumption.
      + intros [|y s] [|z u] Dy Dz H1 H2; try discriminate; [reflexivity|].
        inversion Dy; inversion Dz; subst. cbn [cmp_list] in *. apply lex_gt in H1. apply lex_eq in H2. apply lex_gt.
        destruct H2 as [H2 H2']. destruct H1 as [H1|[H1 H1']].
        * left. apply (T2 y z); assumption.
        * right. rewrite (E y) by assumption. split; [exact H2|]. apply (lT2 s u); assumption.
  Qed.
End ListLex.

(* ------------------------------------------------------------------ product order (shell first, then the holes) *)
Section PairLex.
  Context {A B : Type} (DA : A -> Prop) (DB : B -> Prop) (ca : A -> A -> comparison) (cb : B -> B -> comparison).
  Definition pairlex (p q : A * B) : comparison := lex (ca (fst p) (fst q)) (cb (snd p) (snd q)).
  Lemma good_pairlex : forall x y, good DA ca x -> good DB cb y -> good (fun p => DA (fst p) /\ DB (snd p)) pairlex (x, y).
  Proof.
    intros x y (R & E & An & T1 & T2) (R' & E' & An' & T1' & T2'). unfold pairlex. repeat split; cbn [fst snd].
    - rewrite R. exact R'.
    - intros [u v] [Du Dv] H. cbn [fst snd] in *. apply lex_eq in H. destruct H. f_equal; auto.
    - intros [u v] [Du Dv]. cbn [fst snd] in *. rewrite lex_opp, <- An, <- An'; auto.
    - intros [u v] [u' v'] [Du Dv] [Du' Dv'] H1 H2. cbn [fst snd] in *. apply lex_gt in H1, H2. apply lex_gt.
      destruct H1 as [H1|[H1 H1']]; destruct H2 as [H2|[H2 H2']].
      + left. apply (T1 u u'); assumption.
      + left. apply (T2 u u'); assumption.
      + left. rewrite (E u) by assumption. exact H2.
      + right. rewrite (E u) by assumption. split; [exact H2|]. apply (T1' v v'); assumption.
    - intros [u v] [u' v'] [Du Dv] [Du' Dv'] H1 H2. cbn [fst snd] in *. apply lex_gt in H1. apply lex_eq in H2. apply lex_gt.
      destruct H2 as [H2 H2']. destruct H1 as [H1|[H1 H1']].
      + left. apply (T2 u u'); assumption.
      + right. rewrite (E u) by assumption. split; [exact H2|]. apply (T2' v v'); assumption.
  Qed.
End PairLex.

(* ------------------------------------------------------------------ sorting *)
Section Sorting.
  Context {A : Type} (D : A -> Prop) (c : A -> A -> comparison).
  Hypothesis Hgood : forall x, D x -> good D c x.
  (* descending: no element is strictly smaller than its successor — exactly what std::sort guarantees for the
     comparator  a.compareTo(b) > 0 :  not comp(next, prev) *)
  Definition ge (x y : A) : Prop := c x y <> Lt.
  Inductive dsorted : list A -> Prop :=
  | ds_nil : dsorted []
  | ds_one : forall x, dsorted [x]
  | ds_cons : forall x y r, ge x y -> dsorted (y :: r) -> dsorted (x :: y :: r).

  Lemma ge_trans : forall x y z, D x -> D y -> D z -> ge x y -> ge y z -> ge x z.
  Proof.
    intros x y z Dx Dy Dz H1 H2. destruct (Hgood x Dx) as (R & E & An & T1 & T2). unfold ge in *.
    destruct (c x y) eqn:E1; [|congruence|].
    - rewrite (E y Dy E1). exact H2.
    - destruct (c y z) eqn:E2; [|congruence|].
      + rewrite (T2 y z Dy Dz E1 E2). discriminate.
      + rewrite (T1 y z Dy Dz E1 E2). discriminate.
  Qed.
  Lemma dsorted_head_ge : forall x l, Forall D (x :: l) -> dsorted (x :: l) -> forall y, In y l -> ge x y.
  Proof.
    intros x l. revert x. induction l as [|z r IH]; intros x HD HS y Hy; [destruct Hy|].
    inversion HS; subst. inversion HD as [|? ? Dx Dr]; subst. inversion Dr as [|? ? Dz Dr']; subst.
    destruct Hy as [<-|Hy]; [assumption|].
    assert (Dy : D y) by (rewrite Forall_forall in Dr'; auto).
    apply (ge_trans x z y); try assumption.
    apply IH; assumption.
  Qed.
  Lemma ge_antisym : forall x y, D x -> D y -> ge x y -> ge y x -> x = y.
  Proof.
    intros x y Dx Dy H1 H2. destruct (Hgood x Dx) as (R & E & An & _). apply E; auto. unfold ge in *.
    rewrite (An y Dy) in H2. destruct (c x y); cbn in *; congruence.
  Qed.

  (* the normal form does not depend on which sorted permutation the sorting routine returns *)
  Theorem sorted_perm_unique : forall l1 l2, Forall D l1 -> Permutation l1 l2 -> dsorted l1 -> dsorted l2 -> l1 = l2.
  Proof.
    induction l1 as [|x r1 IH]; intros l2 HD HP S1 S2.
    - apply Permutation_nil in HP. auto.
    - destruct l2 as [|y r2]; [apply Permutation_sym, Permutation_nil in HP; discriminate|].
      assert (HD2 : Forall D (y :: r2)) by (eapply Permutation_Forall; eauto).
      assert (x = y).
      { inversion HD; inversion HD2; subst. apply ge_antisym; auto.
        - assert (Hy : In y (x :: r1)) by (eapply Permutation_in; [apply Permutation_sym; exact HP|left; reflexivity]).
          destruct Hy as [->|Hy]; [destruct (Hgood y H5) as (R & _); unfold ge; rewrite R; discriminate|].
          eapply dsorted_head_ge; eauto.
        - assert (Hx : In x (y :: r2)) by (eapply Permutation_in; [exact HP|left; reflexivity]).
          destruct Hx as [->|Hx]; [destruct (Hgood x H1) as (R & _); unfold ge; rewrite R; discriminate|].
          eapply dsorted_head_ge; eauto. }
      subst y. f_equal. apply IH.
      + inversion HD; auto.
      + eapply Permutation_cons_inv; eauto.
      + inversion S1; subst; [constructor|assumption].
      + inversion S2; subst; [constructor|assumption].
  Qed.

  Lemma insert_perm : forall x l, Permutation (x :: l) (insert (desc c) x l).
  Proof.
    intros x l. induction l as [|y r IH]; cbn [insert]; [reflexivity|].
    destruct (desc c x y); [reflexivity|]. rewrite perm_swap. constructor. exact IH.
  Qed.
  Lemma isort_perm : forall l, Permutation l (isort (desc c) l).
  Proof.
    induction l as [|x r IH]; cbn [isort]; [constructor|]. rewrite <- insert_perm. constructor. exact IH.
  Qed.
  Lemma desc_true : forall x y, desc c x y = true <-> ge x y.
  Proof. intros x y. unfold desc, ge. destruct (c x y); split; congruence. Qed.
  Lemma insert_sorted : forall x l, D x -> Forall D l -> dsorted l -> dsorted (insert (desc c) x l).
  Proof.
    intros x l Dx. induction l as [|y r IH]; intros HD HS; cbn [insert]; [constructor|].
    destruct (desc c x y) eqn:Ed.
    - constructor; [apply desc_true; exact Ed|exact HS].
    - inversion HD as [|? ? Dy Dr]; subst.
      assert (Gyx : ge y x).
      { unfold ge. destruct (Hgood x Dx) as (_ & _ & An & _). rewrite (An y Dy). unfold desc in Ed. destruct (c x y); cbn; congruence. }
      inversion HS as [| |? y0 r0 Gy0 HS0]; subst.
      + cbn [insert]. constructor; [exact Gyx|constructor].
      + specialize (IH Dr HS0). cbn [insert] in *. destruct (desc c x y0); constructor; auto.
  Qed.
  Lemma isort_sorted : forall l, Forall D l -> dsorted (isort (desc c) l).
  Proof.
    induction l as [|x r IH]; intros HD; cbn [isort]; [constructor|]. inversion HD; subst.
    apply insert_sorted; auto. eapply Permutation_Forall; [apply isort_perm|assumption].
  Qed.

  (* element order does not matter *)
  Theorem isort_perm_eq : forall l1 l2, Forall D l1 -> Permutation l1 l2 -> isort (desc c) l1 = isort (desc c) l2.
  Proof.
    intros l1 l2 HD HP. assert (HD2 : Forall D l2) by (eapply Permutation_Forall; eauto).
    apply sorted_perm_unique.
    - eapply Permutation_Forall; [apply isort_perm|assumption].
    - rewrite <- (isort_perm l1), <- (isort_perm l2). exact HP.
    - apply isort_sorted; assumption.
    - apply isort_sorted; assumption.
  Qed.
  (* sorting a sorted list changes nothing *)
  Theorem isort_idem : forall l, Forall D l -> isort (desc c) (isort (desc c) l) = isort (desc c) l.
  Proof.
    intros l HD. symmetry. apply sorted_perm_unique.
    - eapply Permutation_Forall; [apply isort_perm|assumption].
    - apply isort_perm.
    - apply isort_sorted; assumption.
    - apply isort_sorted. eapply Permutation_Forall; [apply isort_perm|assumption].
  Qed.
End Sorting.
