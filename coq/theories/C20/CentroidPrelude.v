(* C20/CentroidPrelude — meaning of the names in the generated units Gen/CEN_*.v (geos::algorithm::Centroid,
   src/algorithm/Centroid.cpp).  `double` is an INTEGER on the grid: the arithmetic names come from Lib.GenPreludeZ.
   The object is the record of its data members; a CoordinateSequence is the list of its points.
   Hand-written here (not generated): setAreaBasePoint (areaBasePt.reset(new CoordinateXY(p)): the pointee becomes p) and
   operator* of the unique_ptr (the pointee; a null areaBasePt is not modelled).
   NOT defined here, Section variables of the generated files: Orientation::isCCW, CoordinateXY::distance, `/`. *)
From Coq Require Import ZArith List Bool.
From GeosV.Lib Require Export GenPreludeZ.
Import ListNotations.
Local Open Scope Z_scope.

Definition pt := (Z * Z)%type.
Definition set_x (p : pt) (v : Z) : pt := (v, snd p).
Definition set_y (p : pt) (v : Z) : pt := (fst p, v).

Record cst := mkCst { f_areaBasePt : pt; f_triangleCent3 : pt; f_cg3 : pt; f_lineCentSum : pt; f_ptCentSum : pt;
                      f_areasum2 : Z; f_totalLength : Z; f_ptCount : Z }.
Definition set_areaBasePt (s : cst) (v : pt) := mkCst v (f_triangleCent3 s) (f_cg3 s) (f_lineCentSum s) (f_ptCentSum s) (f_areasum2 s) (f_totalLength s) (f_ptCount s).
Definition set_triangleCent3 (s : cst) (v : pt) := mkCst (f_areaBasePt s) v (f_cg3 s) (f_lineCentSum s) (f_ptCentSum s) (f_areasum2 s) (f_totalLength s) (f_ptCount s).
Definition set_cg3 (s : cst) (v : pt) := mkCst (f_areaBasePt s) (f_triangleCent3 s) v (f_lineCentSum s) (f_ptCentSum s) (f_areasum2 s) (f_totalLength s) (f_ptCount s).
Definition set_lineCentSum (s : cst) (v : pt) := mkCst (f_areaBasePt s) (f_triangleCent3 s) (f_cg3 s) v (f_ptCentSum s) (f_areasum2 s) (f_totalLength s) (f_ptCount s).
Definition set_ptCentSum (s : cst) (v : pt) := mkCst (f_areaBasePt s) (f_triangleCent3 s) (f_cg3 s) (f_lineCentSum s) v (f_areasum2 s) (f_totalLength s) (f_ptCount s).
Definition set_areasum2 (s : cst) (v : Z) := mkCst (f_areaBasePt s) (f_triangleCent3 s) (f_cg3 s) (f_lineCentSum s) (f_ptCentSum s) v (f_totalLength s) (f_ptCount s).
Definition set_totalLength (s : cst) (v : Z) := mkCst (f_areaBasePt s) (f_triangleCent3 s) (f_cg3 s) (f_lineCentSum s) (f_ptCentSum s) (f_areasum2 s) v (f_ptCount s).
Definition set_ptCount (s : cst) (v : Z) := mkCst (f_areaBasePt s) (f_triangleCent3 s) (f_cg3 s) (f_lineCentSum s) (f_ptCentSum s) (f_areasum2 s) (f_totalLength s) v.
(* the constructor Centroid(geom): areasum2(0.0), totalLength(0.0), ptCount(0); CoordinateXY members default to (0, 0) *)
Definition cst0 : cst := mkCst (0, 0) (0, 0) (0, 0) (0, 0) (0, 0) 0 0 0.

Definition zrange (lo hi : Z) : list Z := map (fun k => lo + Z.of_nat k) (seq 0 (Z.to_nat (hi - lo))).
(* CoordinateSequence *)
Definition m_size_0 (l : list pt) : Z := Z.of_nat (length l).
Definition m_isEmpty_0 (l : list pt) : bool := match l with [] => true | _ => false end.
Definition m_getAt_1 (l : list pt) (i : Z) : pt := nth (Z.to_nat i) l (0, 0).
Definition c_opidx_2 (l : list pt) (i : Z) : pt := m_getAt_1 l i.
(* std::unique_ptr<CoordinateXY> areaBasePt *)
Definition c_opmul_1 (p : pt) : pt := p.
Definition m_setAreaBasePoint_1 (s : cst) (p : pt) : cst := set_areaBasePt s p.
