(* C02 — property theorems only. *)
From Coq Require Import ZArith List Bool Lia.
From GeosV.Lib Require Import GenPreludePred IM.
From GeosV.C01 Require Import IMGen IMLaws Pred PredSound EnvGen GateGen.
From GeosV.Lib Require Import GenPreludeGate.
Import ListNotations.
Local Open Scope Z_scope.

(* the generated IntersectionMatrix::isX units are the OGC/JTS pattern sets, for every integer matrix and dimension pair *)
Theorem C02_generated_predicates_are_patterns : forall a b c d e f g h i,
  let m := mk9 a b c d e f g h i in
  IM_isDisjoint.m_isDisjoint_0 m = spec_disjoint m /\ IM_isIntersects.m_isIntersects_0 m = spec_intersects m /\
  IM_isWithin.m_isWithin_0 m = spec_within m /\ IM_isContains.m_isContains_0 m = spec_contains m /\
  IM_isCovers.m_isCovers_0 m = spec_covers m /\ IM_isCoveredBy.m_isCoveredBy_0 m = spec_coveredBy m /\
  (forall dA dB, IM_isEquals.m_isEquals_2 m dA dB = spec_equals dA dB m) /\
  (forall dA dB, IM_isCrosses.m_isCrosses_2 m dA dB = spec_crosses dA dB m) /\
  (forall dA dB, IM_isOverlaps.m_isOverlaps_2 m dA dB = spec_overlaps dA dB m) /\
  (forall dA dB, IM_isTouches.m_isTouches_2 m dA dB = spec_touches dA dB m).
Proof. intros. repeat split; intros; first [apply gen_isDisjoint | apply gen_isIntersects | apply gen_isWithin | apply gen_isContains
  | apply gen_isCovers | apply gen_isCoveredBy | apply gen_isEquals | apply gen_isCrosses | apply gen_isOverlaps | apply gen_isTouches]. Qed.
Print Assumptions C02_generated_predicates_are_patterns.

Theorem C02_matches_is_symbol_table : forall v c s, sym_of_code c = Some s -> IM_matches.c_matches_2 v c = sym_matches s v.
Proof. exact gen_matches_sym. Qed.
Print Assumptions C02_matches_is_symbol_table.

(* converse, transpose, negation and implication laws: every way of asking is a function of one matrix *)
Theorem C02_im_laws : forall a b c d e f g h i dA dB,
  let m := mk9 a b c d e f g h i in
  spec_within (transpose m) = spec_contains m /\ spec_coveredBy (transpose m) = spec_covers m /\
  spec_disjoint m = negb (spec_intersects m) /\ spec_intersects (transpose m) = spec_intersects m /\
  spec_equals dA dB (transpose m) = spec_equals dB dA m /\ spec_touches dA dB (transpose m) = spec_touches dB dA m /\
  spec_overlaps dA dB (transpose m) = spec_overlaps dB dA m /\ spec_crosses dA dB (transpose m) = spec_crosses dB dA m /\
  (spec_contains m = true -> spec_covers m = true) /\ (spec_within m = true -> spec_coveredBy m = true) /\
  (spec_containsProperly m = true -> spec_contains m = true) /\
  (spec_equals dA dB m = true -> spec_covers m = true /\ spec_coveredBy m = true /\ spec_contains m = true /\ spec_within m = true).
Proof. intros a b c d e f g h i dA dB m. subst m.
  split; [apply within_transpose|]. split; [apply coveredBy_transpose|]. split; [apply disjoint_not_intersects|].
  split; [apply intersects_transpose|]. split; [apply equals_transpose|]. split; [apply touches_transpose|].
  split; [apply overlaps_transpose|]. split; [apply crosses_transpose|]. split; [apply contains_covers|].
  split; [apply within_coveredBy|]. split; [apply containsProperly_contains|]. apply equals_covers. Qed.
Print Assumptions C02_im_laws.

Theorem C02_self_relation : forall a b c d e f g h i dA, 0 <= a -> c = dF -> f = dF -> g = dF -> h = dF ->
  let m := mk9 a b c d e f g h i in
  spec_equals dA dA m = true /\ spec_covers m = true /\ spec_coveredBy m = true /\ spec_intersects m = true.
Proof. intros. apply self_relation; assumption. Qed.
Print Assumptions C02_self_relation.

(* named predicates (generated RelateNG units run through the evaluation protocol) = their definition on the final matrix *)
Theorem C02_named_eq_pattern : forall dA dB eA eB evs, Forall ev_ok evs -> realizable dA dB eA eB (final evs) ->
  evaluate vt_contains dA dB eA eB evs = spec_contains (final evs) /\
  evaluate vt_within dA dB eA eB evs = spec_within (final evs) /\
  evaluate vt_covers dA dB eA eB evs = spec_covers (final evs) /\
  evaluate vt_coveredBy dA dB eA eB evs = spec_coveredBy (final evs) /\
  evaluate vt_crosses dA dB eA eB evs = spec_crosses dA dB (final evs) /\
  evaluate vt_overlaps dA dB eA eB evs = spec_overlaps dA dB (final evs) /\
  evaluate vt_touches dA dB eA eB evs = spec_touches dA dB (final evs) /\
  evaluate vt_intersects dA dB eA eB evs = spec_intersects (final evs) /\
  evaluate vt_disjoint dA dB eA eB evs = spec_disjoint (final evs) /\
  (~ (eA = None /\ eB = None) -> evaluate vt_equals dA dB eA eB evs = spec_equals dA dB (final evs)).
Proof. intros dA dB eA eB evs Hev HR. repeat split;
  first [apply contains_sound | apply within_sound | apply covers_sound | apply coveredBy_sound | apply crosses_sound | apply overlaps_sound
        | apply touches_sound | apply intersects_sound | apply disjoint_sound | intros; apply equals_sound]; assumption. Qed.
Print Assumptions C02_named_eq_pattern.

(* the envelope predicates used by the predicate layer are the generated Envelope::covers / intersects / equals / isNull *)
Theorem C02_envelope_predicates_generated : forall a b,
  ENV_covers.m_covers_1 (rep a) (rep b) = m_covers_1 a b /\ ENV_intersects.m_intersects_1 (rep a) (rep b) = m_intersects_1 a b /\
  ENV_equals.m_equals_1 (rep a) (rep b) = m_equals_1 a b /\ ENV_isNull.m_isNull_0 (rep a) = m_isNull_0 a.
Proof. intros a b. split; [apply gen_env_covers|split; [apply gen_env_intersects|split; [apply gen_env_equals|apply gen_env_isNull]]]. Qed.
Print Assumptions C02_envelope_predicates_generated.

(* the envelope gate of the protocol model is the generated RelateNG::hasRequiredEnvelopeInteraction *)
Theorem C02_gate_generated : forall (vt : vtable) (eA eB : envl),
  RNG_hasRequiredEnvelopeInteraction.m_hasRequiredEnvelopeInteraction_2 (mkRng eA) eB (mkPvt (vt_reqCovers vt) (vt_reqInteraction vt)) = gate vt eA eB.
Proof. exact gen_gate. Qed.
Print Assumptions C02_gate_generated.

(* envelope laws: covers => intersects (non-null, well-formed), intersects symmetric, covers transitive, disjoint = not intersects *)
Theorem C02_env_laws : (forall a b, m_intersects_1 a b = m_intersects_1 b a) /\
  (forall a b c, m_covers_1 a b = true -> m_covers_1 b c = true -> m_covers_1 a c = true) /\
  (forall a b, m_disjoint_1 a b = negb (m_intersects_1 a b)).
Proof. split; [exact env_intersects_sym|split; [exact env_covers_trans|exact env_disjoint_not_intersects]]. Qed.
Print Assumptions C02_env_laws.

(* converse predicate classes are configured as mirror images of each other *)
Theorem C02_converse_classes_mirror : forall isA : bool,
  RP_Within_requireExteriorCheck.m_requireExteriorCheck_1 isA = RP_Contains_requireExteriorCheck.m_requireExteriorCheck_1 (negb isA) /\
  RP_CoveredBy_requireExteriorCheck.m_requireExteriorCheck_1 isA = RP_Covers_requireExteriorCheck.m_requireExteriorCheck_1 (negb isA) /\
  RP_Covers_requireExteriorCheck.m_requireExteriorCheck_1 isA = RP_Contains_requireExteriorCheck.m_requireExteriorCheck_1 isA /\
  RP_Contains_requireExteriorCheck.m_requireExteriorCheck_1 isA = negb (RP_Contains_requireCovers.m_requireCovers_1 isA).
Proof. exact mirror_requireExteriorCheck. Qed.
Print Assumptions C02_converse_classes_mirror.

(* ... and the one place where the implementation leaves the DE-9IM definition: two empty geometries are "equal" *)
Theorem C02_equals_both_empty_refuted :
  evaluate vt_equals (-1) (-1) None None [] = true /\ spec_equals (-1) (-1) (final []) = false /\ realizable (-1) (-1) None None (final []).
Proof. exact equals_both_empty_refuted. Qed.
Print Assumptions C02_equals_both_empty_refuted.

(* non-vacuity: a realizable final matrix reached through events in an order that triggers an early exit *)
Example ex_contains : let evs := [(0, 0, 2); (0, 1, 1); (0, 2, 2); (1, 2, 1); (2, 2, 2)] in
  Forall ev_ok evs /\ realizable 2 2 (Some (0, 10, 0, 10)) (Some (2, 3, 2, 3)) (final evs) /\
  evaluate vt_contains 2 2 (Some (0, 10, 0, 10)) (Some (2, 3, 2, 3)) evs = true.
Proof. cbv zeta. split; [repeat constructor; cbv; intuition congruence|split; [|reflexivity]].
  cbv [realizable final fold_left sal m0 pst0 f_intMatrix m_get_2 m_set_3 upd_nth nth Z.to_nat Pos.to_nat Pos.iter_op Init.Nat.add Z.mul Z.add Pos.mul Pos.add Pos.succ Z.ltb Z.compare Pos.compare Pos.compare_cont].
  repeat split; intros; try discriminate; try lia; auto. Qed.
