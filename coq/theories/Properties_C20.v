(* C20 — property theorems only. Each is closed by `exact <lemma>` and followed by Print Assumptions.
   Models: Defs.v (R hull checker, S monotone chain, envelope fold, exact centroid, M normalize / compareTo / reverse / isCCW),
   Gen/HC_*.v (generated from HilbertCode.cpp). Not proved (checked by brute force at run time only, "Tp"): that the
   minimum over hull-edge directions is the minimum over ALL directions, that mbc_exact is the smallest enclosing
   circle, that hull_mc satisfies check_hull, and uniqueness of an accepted hull cycle (check_hull_unique). *)
From Coq Require Import ZArith List Bool Permutation Lia.
From GeosV.C20 Require Import Defs Hilbert HullProofs CentroidProofs SortProofs CmpProofs RingProofs MeasureProofs NormProofs CheckerProofs.
From GeosV.Gen Require Import HC_encode HC_decode.
Import ListNotations.
Local Open Scope Z_scope.

(* ---- convex hull: an accepted cycle is convex (strict left turns, every vertex in every edge's closed left half-plane),
   contains every input vertex, and its corners are input vertices *)
Theorem C20_check_hull_sound : forall pts h, check_hull pts h = true ->
  convex_ccw h /\ (forall p, In p pts -> inside h p) /\ (forall v, In v h -> In v pts) /\ (h = [] <-> pts = []).
Proof. exact check_hull_sound. Qed.
Print Assumptions C20_check_hull_sound.

(* ---- envelope: the fold bounds every vertex and each side is attained *)
Theorem C20_envelope_tight : forall pts,
  match envelope pts with None => pts = [] | Some e => bounds e pts /\ attained e pts end.
Proof. exact envelope_tight. Qed.
Print Assumptions C20_envelope_tight.

(* ---- centroid: translation equivariance of the exact area- / length- / count-weighted mean with dimension fallback *)
Theorem C20_centroid_translation : forall k t g kind nx ny d, centroid k g = Some (kind, nx, ny, d) ->
  centroid k (translate t g) = Some (kind, nx + px t * d, ny + py t * d, d).
Proof. exact centroid_translation. Qed.
Print Assumptions C20_centroid_translation.

(* ---- centroid: the triangle-fan sums of a closed ring do not depend on the base point (Centroid.cpp uses the first shell vertex) *)
Theorem C20_centroid_fan_origin_independent : forall b b' r d, r <> [] -> hd d r = last r d -> fan b r = fan b' r.
Proof. exact centroid_fan_origin_independent. Qed.
Print Assumptions C20_centroid_fan_origin_independent.

(* ---- compareTo is a total order with "equal keys => equal elements" on well-formed geometries *)
Theorem C20_compareTo_total_order : forall g, Dc g -> good Dc cmp_geom g.
Proof. exact good_cmp_geom. Qed.
Print Assumptions C20_compareTo_total_order.

(* ---- whatever sorted permutation std::sort returns, it is the same list *)
Theorem C20_sorted_perm_unique : forall l1 l2, Forall Dc l1 -> Permutation l1 l2 -> dsorted cmp_geom l1 -> dsorted cmp_geom l2 -> l1 = l2.
Proof. exact (sorted_perm_unique Dc cmp_geom good_cmp_geom). Qed.
Print Assumptions C20_sorted_perm_unique.

(* ---- normalize is idempotent (hypotheses: well-formed tree; every ring / closed curve has a unique minimum vertex and a
   direction-determinate isCCW) *)
Theorem C20_normalize_idempotent : forall g, Dc g -> norm_hyp g -> normalize (normalize g) = normalize g.
Proof. exact normalize_idempotent. Qed.
Print Assumptions C20_normalize_idempotent.
(* ... and it is NOT idempotent without them (known finding C20-F5; C20-F1 is fixed: Polygon::normalize now keeps the repeated seam point) *)
Theorem C20_normalize_idempotent_refuted_bowtie : exists r, norm_ring true (norm_ring true r) <> norm_ring true r.
Proof. exact norm_ring_idempotent_refuted_bowtie. Qed.
Print Assumptions C20_normalize_idempotent_refuted_bowtie.

(* ---- canonical form: geometries related by ring start, ring direction, hole order, element order (at any depth) have
   the same normal form; side conditions are carried by the constructors of `variant` *)
Theorem C20_normalize_canonical : forall a b, variant a b -> normalize a = normalize b.
Proof. exact normalize_canonical. Qed.
Print Assumptions C20_normalize_canonical.
(* ring level, spelled out *)
Theorem C20_normalize_ring_start : forall cw o, count_pt (min_coord o) o = 1%nat -> (2 <= length o)%nat ->
  forall o', rot o o' -> norm_open cw o' = norm_open cw o.
Proof. exact norm_open_rot. Qed.
Print Assumptions C20_normalize_ring_start.
Theorem C20_normalize_ring_direction : forall cw o, count_pt (min_coord o) o = 1%nat -> (2 <= length o)%nat -> orient_det o ->
  forall o', rot (rev o) o' -> norm_open cw o' = norm_open cw o.
Proof. exact norm_open_rev. Qed.
Print Assumptions C20_normalize_ring_direction.
(* ... refuted without the hypotheses (known findings C20-F5, C20-F6) *)
Theorem C20_normalize_direction_refuted : exists r, norm_ring true (rev r) <> norm_ring true r.
Proof. exact norm_ring_direction_refuted. Qed.
Print Assumptions C20_normalize_direction_refuted.
Theorem C20_normalize_start_refuted : exists o o', rot o o' /\ norm_open true o' <> norm_open true o.
Proof. exact norm_ring_start_refuted. Qed.
Print Assumptions C20_normalize_start_refuted.
(* element order alone *)
Theorem C20_normalize_element_order : forall l1 l2, Forall Dc l1 -> Permutation l1 l2 -> isort (desc cmp_geom) l1 = isort (desc cmp_geom) l2.
Proof. exact (isort_perm_eq Dc cmp_geom good_cmp_geom). Qed.
Print Assumptions C20_normalize_element_order.

(* ---- reverse *)
Theorem C20_reverse_involutive : forall g, reverse (reverse g) = g.
Proof. exact reverse_involutive. Qed.
Print Assumptions C20_reverse_involutive.
Theorem C20_area2_reverse : forall r, shoelace (rev r) = - shoelace r.
Proof. exact shoelace_rev. Qed.
Print Assumptions C20_area2_reverse.

(* ---- area, length (multiset of squared segment lengths), counts, dimension, emptiness: invariant under reverse and normalize
   (clone is the identity of the model) *)
Theorem C20_invariants_reverse : forall p g, area2 (reverse g) = area2 g /\ length_scaled p (reverse g) = length_scaled p g /\
  Permutation (all_seg_d2s (reverse g)) (all_seg_d2s g) /\
  num_coords (reverse g) = num_coords g /\ num_geoms_deep (reverse g) = num_geoms_deep g /\ dimension (reverse g) = dimension g /\ is_empty (reverse g) = is_empty g.
Proof. intros p g. exact (conj (area2_reverse g) (conj (length_reverse p g) (conj (seg_lengths_reverse g) (counts_reverse g)))). Qed.
Print Assumptions C20_invariants_reverse.
Theorem C20_invariants_normalize : forall p g, norm_hyp g -> area2 (normalize g) = area2 g /\ length_scaled p (normalize g) = length_scaled p g /\
  Permutation (all_seg_d2s (normalize g)) (all_seg_d2s g) /\
  (num_coords (normalize g) = num_coords g /\ num_geoms_deep (normalize g) = num_geoms_deep g /\ dimension (normalize g) = dimension g) /\
  is_empty (normalize g) = is_empty g.
Proof.
  intros p g H. exact (conj (area2_normalize g H) (conj (length_normalize p g H) (conj (seg_lengths_normalize g H) (conj (counts_normalize g H) (is_empty_normalize g H))))).
Qed.
Print Assumptions C20_invariants_normalize.
(* the executable per-case test implies the ring hypothesis *)
Theorem C20_ring_ok_hyp : forall r, ring_ok r = true -> is_closed r = true -> ring_hyp r.
Proof. exact ring_ok_hyp. Qed.
Print Assumptions C20_ring_ok_hyp.

(* ---- brute-force checkers (Tp): sound, not proved minimal *)
Theorem C20_mbc_check_sound : forall pts cx cy r sc einv, mbc_check pts cx cy r sc einv = true ->
  (forall p, In p pts -> d2s cx cy sc p * einv * einv <= r * r * (einv + 1) * (einv + 1)) /\
  (2 <= Z.of_nat (length (filter (fun p => r * r * (einv - 1) * (einv - 1) <=? d2s cx cy sc p * einv * einv) pts))).
Proof. exact mbc_check_sound. Qed.
Print Assumptions C20_mbc_check_sound.
Theorem C20_min_width2_attained_partial : forall h w, (forall e, In e (edges h) -> fst e <> snd e) -> min_width2 h = Some w ->
  exists e, In e (edges h) /\ w = edge_width2 h e /\ forall e', In e' (edges h) -> fle w (edge_width2 h e').
Proof. exact min_width2_attained. Qed.
Print Assumptions C20_min_width2_attained_partial.

(* ---- Hilbert code (generated definitions), bounded: every level <= LEVEL_BOUND = 7 *)
Theorem C20_hilbert_decode_encode : forall level x y, 0 <= level <= LEVEL_BOUND -> 0 <= x < 2 ^ level -> 0 <= y < 2 ^ level ->
  c_decode_2 level (c_encode_3 level x y) = (x, y) /\ 0 <= c_encode_3 level x y < 4 ^ level.
Proof. exact hilbert_decode_encode. Qed.
Print Assumptions C20_hilbert_decode_encode.
Theorem C20_hilbert_encode_decode_adjacent : forall level i, 0 <= level <= LEVEL_BOUND -> 0 <= i < 4 ^ level - 1 ->
  let '(x0, y0) := c_decode_2 level i in let '(x1, y1) := c_decode_2 level (i + 1) in
  c_encode_3 level x0 y0 = i /\ Z.abs (x1 - x0) + Z.abs (y1 - y0) = 1.
Proof. exact hilbert_encode_decode_adjacent. Qed.
Print Assumptions C20_hilbert_encode_decode_adjacent.

(* non-vacuity: the hypotheses of the conditional theorems are satisfiable and the models compute *)
Example ex_hull : check_hull [(0,0); (4,0); (2,1); (4,4); (0,4); (2,0)] (hull_mc [(0,0); (4,0); (2,1); (4,4); (0,4); (2,0)]) = true.
Proof. vm_compute. reflexivity. Qed.
Example ex_norm_hyp : let g := GColl 7 [GPoint [(1,1)]; GLine [(5,5); (2,2)]; GPoly [(0,0); (4,0); (4,3); (0,0)] [[(2,1); (3,1); (3,2); (2,1)]]] in
  Dc g /\ norm_hyp g /\ normalize g = GColl 7 [GPoly [(0,0); (4,3); (4,0); (0,0)] [[(2,1); (3,1); (3,2); (2,1)]]; GLine [(2,2); (5,5)]; GPoint [(1,1)]].
Proof. split; [|split; [exact norm_hyp_ex|vm_compute; reflexivity]]. apply Dc_coll. split; [lia|]. split; [vm_compute; discriminate|]. repeat constructor; discriminate. Qed.
Example ex_variant : variant (GPoly [(0,0); (4,0); (4,3); (0,0)] []) (GPoly [(4,3); (4,0); (0,0); (4,3)] []).
Proof.
  apply v_shell. right. exists [(0,0); (4,0); (4,3)], [(4,3); (4,0); (0,0)]. split; [reflexivity|]. split; [reflexivity|].
  split; [vm_compute; reflexivity|]. split; [cbn; lia|]. right. split; [vm_compute; reflexivity|]. exists [], [(4,3); (4,0); (0,0)]. split; reflexivity.
Qed.
Example ex_centroid : centroid 8 (GPoly [(0,0); (6,0); (6,6); (0,6); (0,0)] []) = Some (2, 648, 648, 216).
Proof. vm_compute. reflexivity. Qed.
Example ex_hilbert : c_encode_3 3 5 6 = 39 /\ c_decode_2 3 39 = (5, 6).
Proof. vm_compute. split; reflexivity. Qed.

(* ================================================================== Centroid.cpp accumulation, GENERATED (Gen/CEN_*.v)
   `double` read as an integer on the grid; ccw = Orientation::isCCW, dist = CoordinateXY::distance, dv = the floating `/`
   are universally quantified (the theorems hold for every such function).  Names of the generated units: cen_<member>. *)
From GeosV.C20 Require CentroidPrelude CentroidGen.
From GeosV.Gen Require CEN_addTriangle CEN_addPoint CEN_addLineSegments CEN_addShell CEN_addHole CEN_getCentroid.
Section GeneratedCentroid.
Import CentroidPrelude CentroidGen CEN_addTriangle CEN_addPoint CEN_addLineSegments CEN_addShell CEN_addHole CEN_getCentroid.

(* addTriangle: cg3 += sign*area2*(p0+p1+p2) on both ordinates, areasum2 += sign*area2, nothing else moves *)
Theorem C20_gen_addTriangle : forall st p0 p1 p2 pos,
  cen_addTriangle st p0 p1 p2 pos =
  mkCst (f_areaBasePt st) (px p0 + px p1 + px p2, py p0 + py p1 + py p2)
        (fst (f_cg3 st) + sg pos * orient p0 p1 p2 * (px p0 + px p1 + px p2),
         snd (f_cg3 st) + sg pos * orient p0 p1 p2 * (py p0 + py p1 + py p2))
        (f_lineCentSum st) (f_ptCentSum st) (f_areasum2 st + sg pos * orient p0 p1 p2) (f_totalLength st) (f_ptCount st).
Proof. exact gen_addTriangle_spec. Qed.
Print Assumptions C20_gen_addTriangle.

(* (a) addShell on ANY non-empty coordinate list (no size bound): base point = r[0], areasum2 / cg3 grow by sign * fan sums,
   sign = +1 iff not isCCW(r) *)
Theorem C20_gen_addShell_area : forall ccw dist dv st b r', let r := b :: r' in
  let st' := cen_addShell ccw dist dv st r in
  f_areaBasePt st' = b /\ area_part st st' (scale3 (sg (negb (ccw r))) (fan b r)).
Proof. exact gen_addShell_area. Qed.
Print Assumptions C20_gen_addShell_area.

(* (a') on a CLOSED ring the same sums come out for every base point, and the area term is sign * shoelace *)
Theorem C20_gen_addShell_base_independent : forall ccw dist dv st b r' b', let r := b :: r' in last r b = b ->
  let st' := cen_addShell ccw dist dv st r in
  area_part st st' (scale3 (sg (negb (ccw r))) (fan b' r)) /\
  f_areasum2 st' = f_areasum2 st + sg (negb (ccw r)) * shoelace r.
Proof. exact gen_addShell_base_independent. Qed.
Print Assumptions C20_gen_addShell_base_independent.

(* (b) holes: the same accumulation with the opposite flag, from the base point addShell left *)
Theorem C20_gen_addHole_area : forall ccw dist dv st r, r <> [] ->
  let st' := cen_addHole ccw dist dv st r in
  f_areaBasePt st' = f_areaBasePt st /\ area_part st st' (scale3 (sg (ccw r)) (fan (f_areaBasePt st) r)).
Proof. exact gen_addHole_area. Qed.
Print Assumptions C20_gen_addHole_area.

(* addLineSegments never touches the area accumulators (any distance, any division) *)
Theorem C20_gen_addLineSegments_area_frame : forall dist dv st r, area_frame st (cen_addLineSegments dist dv st r).
Proof. exact gen_addLineSegments_area_frame. Qed.
Print Assumptions C20_gen_addLineSegments_area_frame.

(* (c) addPoint over any point list: plain sums and the count *)
Theorem C20_gen_addPoints_sum : forall l st,
  let st' := fold_left cen_addPoint l st in
  f_ptCount st' = f_ptCount st + Z.of_nat (length l) /\
  fst (f_ptCentSum st') = fst (f_ptCentSum st) + fold_right (fun p a => px p + a) 0 l /\
  snd (f_ptCentSum st') = snd (f_ptCentSum st) + fold_right (fun p a => py p + a) 0 l /\
  f_areasum2 st' = f_areasum2 st /\ f_cg3 st' = f_cg3 st /\ f_totalLength st' = f_totalLength st /\ f_lineCentSum st' = f_lineCentSum st.
Proof. exact gen_addPoints_sum. Qed.
Print Assumptions C20_gen_addPoints_sum.

(* (d) getCentroid: area sums iff |areasum2| > 0, else line sums iff totalLength > 0, else point sums iff ptCount > 0, else
   false; the operands that reach the division are exactly (cg3/3, areasum2), (lineCentSum, totalLength), (ptCentSum, ptCount) *)
Theorem C20_gen_getCentroid_selection : forall dv st c0,
  cen_getCentroid dv st c0 =
  match sel_kind st with
  | Some 2 => ((dv (dv (fst (f_cg3 st)) 3) (f_areasum2 st), dv (dv (snd (f_cg3 st)) 3) (f_areasum2 st)), true)
  | Some 1 => ((dv (fst (f_lineCentSum st)) (f_totalLength st), dv (snd (f_lineCentSum st)) (f_totalLength st)), true)
  | Some _ => ((dv (fst (f_ptCentSum st)) (f_ptCount st), dv (snd (f_ptCentSum st)) (f_ptCount st)), true)
  | None => (c0, false)
  end.
Proof. exact gen_getCentroid_selection. Qed.
Print Assumptions C20_gen_getCentroid_selection.
(* what the code does for "highest-dimension components": it tests the accumulated signed area, so polygons whose areas
   are all zero (or cancel) fall through to the line sums, which include the polygon rings *)
Theorem C20_gen_getCentroid_zero_area_falls_through : forall dv st c0, f_areasum2 st = 0 -> 0 < f_totalLength st ->
  cen_getCentroid dv st c0 = ((dv (fst (f_lineCentSum st)) (f_totalLength st), dv (snd (f_lineCentSum st)) (f_totalLength st)), true).
Proof. exact gen_getCentroid_zero_area_falls_through. Qed.
Print Assumptions C20_gen_getCentroid_zero_area_falls_through.

(* bridging: generated accumulation over any polygon list = - (area sums of Defs.acc_geom); when Defs.centroid is the
   area-weighted mean nx/d, ny/d the generated getCentroid divides cg3 = -(nx, ny) by 3*areasum2 = -d *)
Theorem C20_gen_polygons_centroid_bridge : forall ccw dist dv k ps, Forall (poly_agrees ccw) ps ->
  let st := fold_left (gen_poly ccw dist dv) ps cst0 in
  let g := GColl 6 (map poly_geom (rev ps)) in
  area_neg st (acc_geom k g) /\
  (forall nx ny d, centroid k g = Some (2, nx, ny, d) ->
     sel_kind st = Some 2 /\ fst (f_cg3 st) = - nx /\ snd (f_cg3 st) = - ny /\ 3 * f_areasum2 st = - d /\ d <> 0).
Proof. exact gen_polygons_centroid_bridge. Qed.
Print Assumptions C20_gen_polygons_centroid_bridge.

Example ex_gen_centroid : Forall (poly_agrees isCCW) ex_ps /\
  (let st := fold_left (gen_poly isCCW (fun _ _ => 1) Z.div) ex_ps cst0 in
   (f_areasum2 st, f_cg3 st, sel_kind st) = (-79, (-936, -666), Some 2) /\
   centroid 8 (GColl 6 (map poly_geom (rev ex_ps))) = Some (2, 936, 666, 237)).
Proof. split; [exact ex_ps_agrees | exact ex_ps_state]. Qed.
Example ex_gen_zero_area : let st := fold_left (gen_poly isCCW (fun _ _ => 1) Z.div) [([(0,0); (2,0); (4,0); (0,0)], [])] cst0 in
  f_areasum2 st = 0 /\ sel_kind st = Some 1.
Proof. exact ex_zero_area_falls_through. Qed.
End GeneratedCentroid.
