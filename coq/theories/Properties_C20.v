(* C20 — property theorems only. Each is closed by `exact <lemma>` and followed by Print Assumptions. *)
From Coq Require Import ZArith List.
From GeosV.C20 Require Import Defs Hilbert.
From GeosV.Gen Require Import HC_encode HC_decode.
Import ListNotations.
Local Open Scope Z_scope.

(* Hilbert code (generated definitions): decode (encode (x,y)) = (x,y) for every cell of every level <= LEVEL_BOUND = 7 *)
Theorem C20_hilbert_decode_encode : forall level x y, 0 <= level <= LEVEL_BOUND -> 0 <= x < 2 ^ level -> 0 <= y < 2 ^ level ->
  c_decode_2 level (c_encode_3 level x y) = (x, y) /\ 0 <= c_encode_3 level x y < 4 ^ level.
Proof. exact hilbert_decode_encode. Qed.
Print Assumptions C20_hilbert_decode_encode.
