(* C10 — number formatting and parsing: executable definitions only (no proofs).

   S  shortest        the shortest decimal k*10^g inside the rounding interval of a binary64 value, closest to it,
                      ties to even: a direct search over decimal levels in exact integer arithmetic (no Ryu tables)
   M  to_chars_fixed  src/deps/ryu/d2s.c::to_chars_fixed (rounding of the shortest digits to `precision` decimals and
                      the fixed layout), geos_d2sfixed_buffered_n, geos_d2sexp_buffered_n, copy_special_str
   M  print_trimmed   WKTWriter::writeTrimmedNumber = GEOS_printDouble (notation switch at 1e-4 / 1e17, precision lift)
   S  print_untrimmed the `std::fixed << setprecision(p)` path as exact decimal rounding (what printf("%.*f") is specified to do)
   S  strtod_spec     value of a numeral in the language strtod accepts (decimal forms, inf/infinity/nan), correctly
                      rounded to binary64 by the stdlib's SpecFloat division (round to nearest even)
   All integers are Z; a double is its 64-bit pattern (0 <= bits < 2^64). *)
From Coq Require Import ZArith List Ascii String Bool.
From Coq Require Import Floats.SpecFloat.
Import ListNotations.
Local Open Scope Z_scope.

Definition str := list ascii.
Definition lit (x : string) : str := list_ascii_of_string x.

(* ------------------------------------------------------------------ decimal digit strings *)
Definition digit (d : Z) : ascii := ascii_of_nat (48 + Z.to_nat d).

(* the k-digit, zero padded decimal representation of n mod 10^k *)
Fixpoint digs (k : nat) (n : Z) : str :=
  match k with O => [] | S k' => let '(q, r) := Z.div_eucl n 10 in digs k' q ++ [digit r] end.

Fixpoint declen_aux (fuel : nat) (n : Z) : nat :=
  match fuel with O => 1%nat | S f => if n <? 10 then 1%nat else S (declen_aux f (n / 10)) end.
(* number of decimal digits of n (1 for n <= 9, also for 0); the fuel covers every n < 10^1200 *)
Definition declen (n : Z) : nat := declen_aux 1200 n.
Definition digits_of (n : Z) : str := digs (declen n) n.

Definition is_digit (c : ascii) : bool := let n := nat_of_ascii c in (48 <=? n)%nat && (n <=? 57)%nat.
Definition digit_val (c : ascii) : Z := Z.of_nat (nat_of_ascii c) - 48.
Definition dec_value (l : str) : Z := fold_left (fun a c => 10 * a + digit_val c) l 0.

Fixpoint zeros (k : nat) : str := match k with O => [] | S k' => "0"%char :: zeros k' end.

(* ------------------------------------------------------------------ binary64 decoding *)
Inductive dbl :=
| DZero (s : bool) | DInf (s : bool) | DNaN (s : bool)
| DFin (s : bool) (m2 e2 : Z) (closer : bool).   (* value (-1)^s * m2 * 2^e2, m2 > 0; closer = the lower neighbour is at half the distance *)

Definition decode (bits : Z) : dbl :=
  let sign := 1 <=? bits / 2 ^ 63 in
  let expo := (bits / 2 ^ 52) mod 2048 in
  let mant := bits mod 2 ^ 52 in
  if expo =? 2047 then (if mant =? 0 then DInf sign else DNaN sign)
  else if expo =? 0 then (if mant =? 0 then DZero sign else DFin sign mant (-1074) false)
  else DFin sign (2 ^ 52 + mant) (expo - 1075) ((mant =? 0) && (1 <? expo)).

(* m1*2^e1 < m2*2^e2, exactly *)
Definition dy_ltb (m1 e1 m2 e2 : Z) : bool :=
  if e1 <=? e2 then m1 <? m2 * 2 ^ (e2 - e1) else m1 * 2 ^ (e1 - e2) <? m2.
Definition dy_leb (m1 e1 m2 e2 : Z) : bool := negb (dy_ltb m2 e2 m1 e1).

(* ------------------------------------------------------------------ S: shortest decimal in the rounding interval *)
(* In units of 2^(e2-2): the value is u = 4*m2, the interval is [u - (closer ? 1 : 2), u + 2]; its end points are
   admissible iff m2 is even (round-to-nearest-even reads them back to this value). Returned as lo = A/D, v = C/D, hi = B/D. *)
Definition interval (m2 e2 : Z) (closer : bool) : Z * Z * Z * Z :=
  let u := 4 * m2 in
  let lo := u - (if closer then 1 else 2) in
  let hi := u + 2 in
  let s := e2 - 2 in
  if 0 <=? s then (lo * 2 ^ s, u * 2 ^ s, hi * 2 ^ s, 1) else (lo, u, hi, 2 ^ (- s)).

(* x/D divided by 10^g is  (scale_num g x) / (scale_den g D) *)
Definition scale_num (g x : Z) : Z := if g <? 0 then x * 10 ^ (- g) else x.
Definition scale_den (g D : Z) : Z := if g <? 0 then D else D * 10 ^ g.

(* smallest / largest k with k*10^g inside the interval (end points only if accept) *)
Definition kmin (accept : bool) (g A D : Z) : Z :=
  let '(q, r) := Z.div_eucl (scale_num g A) (scale_den g D) in
  if (r =? 0) && accept then q else q + 1.
Definition kmax (accept : bool) (g B D : Z) : Z :=
  let '(q, r) := Z.div_eucl (scale_num g B) (scale_den g D) in
  if (r =? 0) && negb accept then q - 1 else q.
Definition nonempty (accept : bool) (g A B D : Z) : bool := kmin accept g A D <=? kmax accept g B D.

(* the integer nearest to (C/D)/10^g, ties to even *)
Definition nearest (g C D : Z) : Z :=
  let d := scale_den g D in
  let '(q, r) := Z.div_eucl (scale_num g C) d in
  match 2 * r ?= d with Lt => q | Gt => q + 1 | Eq => if Z.even q then q else q + 1 end.

Definition pick (accept : bool) (g A C B D : Z) : Z :=
  let lo := kmin accept g A D in let hi := kmax accept g B D in let k := nearest g C D in
  if k <? lo then lo else if hi <? k then hi else k.

(* climb to the coarsest decimal level that still has a point in the interval *)
Fixpoint climb (fuel : nat) (accept : bool) (g A B D : Z) : Z :=
  match fuel with
  | O => g
  | S f => if nonempty accept (g + 1) A B D then climb f accept (g + 1) A B D else g
  end.

(* a level at which at least 18 significant digits are available: a lower estimate of log10 (B/D), minus 18 *)
Definition start_level (B D : Z) : Z := ((Z.log2 B - Z.log2 D - 1) * 30103) / 100000 - 18.

(* exact decimal expansion of C/D (D a power of two): used only if the start level were empty (it never is: checked by the tie) *)
Definition exact_decimal (C D : Z) : Z * Z := let s := Z.log2 D in (C * 5 ^ s, - s).

Definition shortest (m2 e2 : Z) (closer : bool) : Z * Z :=
  let '(A, C, B, D) := interval m2 e2 closer in
  let accept := Z.even m2 in
  let g0 := start_level B D in
  if nonempty accept g0 A B D then
    let g := climb 40 accept g0 A B D in (pick accept g A C B D, g)
  else exact_decimal C D.

(* k*10^g lies in the rounding interval (the membership the search is supposed to establish) *)
Definition in_interval (accept : bool) (A B D k g : Z) : bool :=
  let l := (if 0 <=? g then k * 10 ^ g else k) * D in       (* k*10^g = l / (D*den) *)
  let den := if 0 <=? g then 1 else 10 ^ (- g) in
  if accept then (A * den <=? l) && (l <=? B * den) else (A * den <? l) && (l <? B * den).

(* ------------------------------------------------------------------ M: d2s.c *)
Definition decimalLength17 (v : Z) : Z :=
  if 10000000000000000 <=? v then 17 else if 1000000000000000 <=? v then 16 else
  if 100000000000000 <=? v then 15 else if 10000000000000 <=? v then 14 else
  if 1000000000000 <=? v then 13 else if 100000000000 <=? v then 12 else
  if 10000000000 <=? v then 11 else if 1000000000 <=? v then 10 else
  if 100000000 <=? v then 9 else if 10000000 <=? v then 8 else
  if 1000000 <=? v then 7 else if 100000 <=? v then 6 else
  if 10000 <=? v then 5 else if 1000 <=? v then 4 else
  if 100 <=? v then 3 else if 10 <=? v then 2 else 1.

Definition pow_10 (k : Z) : Z := 10 ^ k.        (* POW_TABLE[k]; the C asserts 0 <= k <= 17 *)

(* to_chars_uint64 (output, olength, result): writes the decimal digits of output (a single '0' for 0) and returns their
   number; the olength argument only positions the writes and must equal that number unless output < 10
   (NumProofs.olength_invariant shows every call of to_chars_fixed satisfies this) *)
Definition to_chars_uint64 (output olength : Z) : str := digits_of output.

(* while (output && output % 10 == 0) { output = div10(output); exp++; olength--; } *)
Fixpoint strip_zeros (fuel : nat) (output exp olength : Z) : Z * Z * Z :=
  match fuel with
  | O => (output, exp, olength)
  | S f => if negb (output =? 0) && (output mod 10 =? 0) then strip_zeros f (output / 10) (exp + 1) (olength - 1)
           else (output, exp, olength)
  end.

(* the block "Adapt the decimal digits to the desired precision" (entered with exp < 0) *)
Definition adapt (output exp olength precision : Z) : Z * Z * Z :=
  if precision <? - exp then
    let digits_to_trim := - exp - precision in
    if olength <? digits_to_trim then (0, 0, olength)
    else
      let divisor := pow_10 digits_to_trim in
      let divisor_half := divisor / 2 in
      let outputDiv := output / divisor in
      let remainder := output - outputDiv * divisor in
      let exp1 := exp + digits_to_trim in
      if (divisor_half <? remainder) || ((remainder =? divisor_half) && Z.odd outputDiv)
      then strip_zeros 20 (outputDiv + 1) exp1 (decimalLength17 (outputDiv + 1))
      else strip_zeros 20 outputDiv exp1 (olength - digits_to_trim)
  else (output, exp, olength).

Record parts := { p_int : Z; p_int_len : Z; p_tz : Z; p_dec : Z; p_dec_len : Z; p_lz : Z }.

Definition split_parts (output exp olength : Z) : parts :=
  if 0 <=? exp then {| p_int := output; p_int_len := olength; p_tz := exp; p_dec := 0; p_dec_len := 0; p_lz := 0 |}
  else
    let nexp := - exp in
    if nexp <? olength then
      let p := pow_10 nexp in
      let ip := output / p in
      let dp := output mod p in
      let ipl := olength - nexp in
      let dpl := olength - ipl in
      if dp <? pow_10 (dpl - 1)
      then let dpl' := decimalLength17 dp in
           {| p_int := ip; p_int_len := ipl; p_tz := 0; p_dec := dp; p_dec_len := dpl'; p_lz := olength - ipl - dpl' |}
      else {| p_int := ip; p_int_len := ipl; p_tz := 0; p_dec := dp; p_dec_len := dpl; p_lz := 0 |}
    else {| p_int := 0; p_int_len := 0; p_tz := 0; p_dec := output; p_dec_len := olength; p_lz := nexp - olength |}.

Definition fixed_parts (mantissa exponent precision : Z) : parts :=
  let olength := decimalLength17 mantissa in
  if 0 <=? exponent then split_parts mantissa exponent olength
  else let '(o, e, l) := adapt mantissa exponent olength precision in split_parts o e l.

Definition emit_parts (sign : bool) (p : parts) : str :=
  (if sign && (negb (p_int p =? 0) || negb (p_dec p =? 0)) then ["-"%char] else [])
  ++ to_chars_uint64 (p_int p) (p_int_len p) ++ zeros (Z.to_nat (p_tz p))
  ++ (if negb (p_dec p =? 0) then "."%char :: zeros (Z.to_nat (p_lz p)) ++ to_chars_uint64 (p_dec p) (p_dec_len p) else []).

Definition to_chars_fixed (mantissa exponent : Z) (sign : bool) (precision : Z) : str :=
  emit_parts sign (fixed_parts mantissa exponent precision).

(* copy_special_str: NaN loses its sign, zero loses its sign ("PostGIS: Do not print signed zero") *)
Definition special_str (d : dbl) : str :=
  match d with
  | DNaN _ => lit "NaN"
  | DInf s => (if s then ["-"%char] else []) ++ lit "Infinity"
  | _ => lit "0"
  end.

(* geos_d2sfixed_buffered_n, given the digits (k, g) that d2d (or the small-integer shortcut, which yields the same
   digits) computes for a finite non-zero value *)
Definition d2sfixed_sd (d : dbl) (sd : Z * Z) (precision : Z) : str :=
  match d with
  | DFin s _ _ _ => to_chars_fixed (fst sd) (snd sd) s precision
  | _ => special_str d
  end.

Definition exp_suffix (e : Z) : str :=
  "e"%char :: (if e <? 0 then "-"%char else "+"%char) :: digits_of (Z.abs e).

(* geos_d2sexp_buffered_n *)
Definition d2sexp_sd (d : dbl) (sd : Z * Z) (precision : Z) : str :=
  match d with
  | DFin s _ _ _ =>
      let olength := decimalLength17 (fst sd) in
      to_chars_fixed (fst sd) (1 - olength) s precision ++ exp_suffix (snd sd + olength - 1)
  | _ => special_str d
  end.

(* the two double constants of writeTrimmedNumber, as the compiler reads them: 1e+17 = 10^17 exactly,
   1e-4 = 0x3F1A36E2EB1C432D = 7378697629483821 * 2^-66 (NumProofs.const_1e_4 shows it is strtod_spec "1e-4") *)
Definition c1e17_m := 100000000000000000.
Definition c1e_4_m := 7378697629483821.
Definition c1e_4_e := -66.

(* -floor(log10(da)) for 1e-4 <= da < 1 (the mathematical value; libm's log10 may differ from it only for arguments so
   close below a power of ten that both precisions print the same digits — compared by the tie) *)
Definition neg_floor_log10 (m2 e2 : Z) : Z :=
  if dy_leb 1 0 (m2 * 10) e2 then 1 else if dy_leb 1 0 (m2 * 100) e2 then 2
  else if dy_leb 1 0 (m2 * 1000) e2 then 3 else if dy_leb 1 0 (m2 * 10000) e2 then 4 else 5.

(* WKTWriter::writeTrimmedNumber (= GEOS_printDouble), given the shortest digits of the value *)
Definition print_trimmed_sd (d : dbl) (sd : Z * Z) (precision : Z) : str :=
  match d with
  | DFin s m2 e2 c =>
      if dy_leb c1e17_m 0 m2 e2 || dy_ltb m2 e2 c1e_4_m c1e_4_e then d2sexp_sd d sd precision
      else
        let precision' :=
          if (precision <? 4) && dy_ltb m2 e2 1 0 then Z.max precision (neg_floor_log10 m2 e2) else precision in
        d2sfixed_sd d sd precision'
  | _ => d2sfixed_sd d sd precision
  end.

Definition shortest_of (d : dbl) : Z * Z :=
  match d with DFin _ m2 e2 c => shortest m2 e2 c | _ => (0, 0) end.

Definition print_trimmed (bits precision : Z) : str :=
  let d := decode bits in print_trimmed_sd d (shortest_of d) precision.

(* the digits of a bit pattern are in range: at most 17 digits, decimal exponent within the range of binary64 (the hypothesis under which
   the round-trip and grammar theorems are stated for bit patterns; evaluated by the tie on every generated double) *)
Definition digits_ok (bits : Z) : bool :=
  match decode bits with
  | DFin _ m2 e2 c => let '(k, g) := shortest m2 e2 c in (1 <=? k) && (k <? 10 ^ 17) && (-400 <=? g) && (g <=? 380)
  | _ => true
  end.

(* ------------------------------------------------------------------ S: the untrimmed path, printf("%.*f") *)
Definition round_half_even (n d : Z) : Z :=
  let '(q, r) := Z.div_eucl n d in
  match 2 * r ?= d with Lt => q | Gt => q + 1 | Eq => if Z.even q then q else q + 1 end.

Definition print_untrimmed (bits precision : Z) : str :=
  match decode bits with
  | DNaN s => (if s then ["-"%char] else []) ++ lit "nan"
  | DInf s => (if s then ["-"%char] else []) ++ lit "inf"
  | DZero s => (if s then ["-"%char] else []) ++ "0"%char :: (if 0 <? precision then "."%char :: zeros (Z.to_nat precision) else [])
  | DFin s m2 e2 _ =>
      let n := if 0 <=? e2 then m2 * 2 ^ e2 * 10 ^ precision else round_half_even (m2 * 10 ^ precision) (2 ^ (- e2)) in
      let p := 10 ^ precision in
      (if s then ["-"%char] else []) ++ digits_of (n / p)
      ++ (if 0 <? precision then "."%char :: digs (Z.to_nat precision) (n mod p) else [])
  end.

(* ------------------------------------------------------------------ S: the number language and its value *)
Inductive numval := NVnan | NVinf (neg : bool) | NVdec (neg : bool) (n e10 : Z).

Fixpoint span_digits (s : str) : str * str :=
  match s with
  | c :: t => if is_digit c then let '(a, b) := span_digits t in (c :: a, b) else ([], s)
  | [] => ([], [])
  end.

Definition lower (c : ascii) : ascii :=
  let n := nat_of_ascii c in if (65 <=? n)%nat && (n <=? 90)%nat then ascii_of_nat (n + 32) else c.
Definition eq_ci (a b : str) : bool :=
  (List.length a =? List.length b)%nat && forallb (fun p => Ascii.eqb (lower (fst p)) (lower (snd p))) (combine a b).

Definition split_sign (s : str) : bool * str :=
  match s with
  | "-"%char :: t => (true, t)
  | "+"%char :: t => (false, t)
  | _ => (false, s)
  end.

(* strtod's subject sequence must be the WHOLE token (the tokenizer tests *stopstring == '\0'). Left out of the model:
   hexadecimal floats ("0x1p3", which strtod also accepts; no writer emits them) and "nan(chars)" (a token cannot
   contain parentheses: they are tokenizer delimiters) *)
Definition parse_special (neg : bool) (s : str) : option numval :=
  if eq_ci s (lit "inf") || eq_ci s (lit "infinity") then Some (NVinf neg)
  else if eq_ci s (lit "nan") then Some NVnan
  else None.

Definition parse_decimal (neg : bool) (s : str) : option numval :=
  let '(ip, s2) := span_digits s in
  let '(fp, s3) := match s2 with "."%char :: t => span_digits t | _ => ([], s2) end in
  match ip ++ fp with
  | [] => None
  | ds =>
      let n := dec_value ds in
      let f := Z.of_nat (List.length fp) in
      match s3 with
      | [] => Some (NVdec neg n (- f))
      | c :: t =>
          if Ascii.eqb (lower c) "e"%char then
            let '(eneg, t1) := split_sign t in
            let '(ed, t2) := span_digits t1 in
            match ed, t2 with
            | _ :: _, [] => Some (NVdec neg n ((if eneg then - dec_value ed else dec_value ed) - f))
            | _, _ => None
            end
          else None
      end
  end.

Definition parse_number (s0 : str) : option numval :=
  let '(neg, s) := split_sign s0 in
  match s with
  | c :: _ => if is_digit c || Ascii.eqb c "."%char then parse_decimal neg s else parse_special neg s
  | [] => None
  end.

Definition is_number (s : str) : bool := match parse_number s with Some _ => true | None => false end.

(* the characters that end a token in StringTokenizer: "\n\r\t() ," *)
Definition is_delim (c : ascii) : bool :=
  let n := nat_of_ascii c in
  (n =? 10)%nat || (n =? 13)%nat || (n =? 9)%nat || (n =? 40)%nat || (n =? 41)%nat || (n =? 32)%nat || (n =? 44)%nat.

(* correct rounding of (-1)^neg * n * 10^e10 to binary64: one exact division by SpecFloat.SFdiv (mantissas unbounded) *)
Definition b64_div (neg : bool) (num den : positive) : spec_float :=
  SFdiv 53 1024 (S754_finite neg num 0) (S754_finite false den 0).

Definition round_dec (neg : bool) (n e10 : Z) : spec_float :=
  match n with
  | Zpos p =>
      if 400 <? e10 then S754_infinity neg                          (* n >= 1, 10^401 > max double *)
      else if e10 + Z.of_nat (declen n) <? -400 then S754_zero neg   (* n*10^e10 < 10^-400 < half the least subnormal *)
      else if 0 <=? e10 then b64_div neg (p * Z.to_pos (10 ^ e10)) 1
      else b64_div neg p (Z.to_pos (10 ^ (- e10)))
  | _ => S754_zero neg
  end.

Definition strtod_spec (s : str) : option spec_float :=
  match parse_number s with
  | Some NVnan => Some S754_nan
  | Some (NVinf neg) => Some (S754_infinity neg)
  | Some (NVdec neg n e) => Some (round_dec neg n e)
  | None => None
  end.

(* binary64 bit pattern of a spec_float (NaN as the canonical quiet NaN) *)
Definition to_bits (f : spec_float) : Z :=
  match f with
  | S754_zero s => if s then 2 ^ 63 else 0
  | S754_infinity s => (if s then 2 ^ 63 else 0) + 2047 * 2 ^ 52
  | S754_nan => 2047 * 2 ^ 52 + 2 ^ 51
  | S754_finite s m e =>
      (if s then 2 ^ 63 else 0) +
      (if Zpos m <? 2 ^ 52 then Zpos m                       (* subnormal: e = -1074 *)
       else (e + 1075) * 2 ^ 52 + (Zpos m - 2 ^ 52))
  end.

Definition of_dbl (d : dbl) : spec_float :=
  match d with
  | DZero s => S754_zero s | DInf s => S754_infinity s | DNaN _ => S754_nan
  | DFin s m2 e2 _ => match m2 with Zpos p => S754_finite s p e2 | _ => S754_nan end
  end.
