(* C10 — binary64 round-to-nearest-even of any real inside the rounding interval of a double gives that double back (Flocq),
   SpecFloat.SFdiv is that rounding (Flocq's Bdiv_correct_aux), and the integer interval of NumDefs.interval is the real one.
   Consequence: NumDefs.round_dec (the rounding inside strtod_spec) maps every decimal that `shortest` may return to the double. *)
From Coq Require Import ZArith Reals Lia Lra Psatz Bool SpecFloat.
From Flocq Require Import Core Ulp Round_NE BinarySingleNaN.
From GeosV.C10 Require Import NumDefs.
Local Open Scope R_scope.

Definition fexp64 := SpecFloat.fexp 53 1024.

Global Instance fexp64_valid : Valid_exp fexp64.
Proof. apply (fexp_correct 53 1024). reflexivity. Qed.

Lemma fexp64_eq : forall x, fexp64 x = Z.max (x - 53) (-1074).
Proof. intros. reflexivity. Qed.

Section OneDouble.
  Variable m : positive.
  Variable e : Z.
  Hypothesis Hb : bounded 53 1024 m e = true.

  Let u := F2R (Float radix2 (Zpos m) e).
  Let d := Zdigits radix2 (Zpos m).
  Definition closer : bool := (Zpos m =? 2 ^ 52)%Z && (-1074 <? e)%Z.

  Lemma Hcm : canonical_mantissa 53 1024 m e = true.
  Proof. unfold bounded in Hb. apply andb_prop in Hb. apply Hb. Qed.

  Lemma Hcan : canonical radix2 fexp64 (Float radix2 (Zpos m) e).
  Proof. apply (canonical_canonical_mantissa 53 1024 false m e Hcm). Qed.

  Lemma He_eq : e = Z.max (d + e - 53) (-1074).
  Proof.
    pose proof Hcm as H. unfold canonical_mantissa in H. apply Zeq_bool_eq in H.
    rewrite Zpos_digits2_pos in H. fold d in H. unfold SpecFloat.fexp, SpecFloat.emin in H. lia.
  Qed.

  Lemma d_pos : (1 <= d)%Z.
  Proof. unfold d. pose proof (Zdigits_gt_0 radix2 (Zpos m) ltac:(discriminate)). lia. Qed.

  Lemma d_le : (d <= 53)%Z.
  Proof. pose proof He_eq. lia. Qed.

  Lemma e_range : (-1074 <= e <= 971)%Z.
  Proof.
    split; [pose proof He_eq; lia|]. unfold bounded in Hb. apply andb_prop in Hb. destruct Hb as [_ H]. apply Zle_bool_imp_le in H. lia.
  Qed.

  Lemma Fu : generic_format radix2 fexp64 u.
  Proof. apply generic_format_canonical. exact Hcan. Qed.

  Lemma u_pos : 0 < u.
  Proof. apply F2R_gt_0. reflexivity. Qed.

  Lemma ulp_u : ulp radix2 fexp64 u = bpow radix2 e.
  Proof. apply ulp_canonical; [discriminate | exact Hcan]. Qed.

  Lemma succ_u : succ radix2 fexp64 u = u + bpow radix2 e.
  Proof. rewrite succ_eq_pos by (apply Rlt_le, u_pos). rewrite ulp_u. reflexivity. Qed.

  Lemma mag_u : mag radix2 u = (d + e)%Z :> Z.
  Proof. unfold u, d. rewrite mag_F2R_Zdigits by discriminate. reflexivity. Qed.

  Lemma m_bounds : (2 ^ (d - 1) <= Zpos m < 2 ^ d)%Z.
  Proof.
    pose proof (Zdigits_correct radix2 (Zpos m)) as H. fold d in H. rewrite Z.abs_eq in H by lia.
    change (Zpower radix2) with (Z.pow 2) in H. exact H.
  Qed.

  Lemma u_is_pow : u = bpow radix2 (d + e - 1) <-> Zpos m = (2 ^ (d - 1))%Z.
  Proof.
    pose proof d_pos. unfold u, F2R. cbn [Fnum Fexp].
    replace (d + e - 1)%Z with ((d - 1) + e)%Z by lia. rewrite bpow_plus.
    split; intros H0.
    - apply Rmult_eq_reg_r in H0; [|apply Rgt_not_eq, bpow_gt_0].
      rewrite <- (Raux.IZR_Zpower radix2) in H0 by lia. apply eq_IZR in H0. exact H0.
    - rewrite H0. rewrite (Raux.IZR_Zpower radix2) by lia. reflexivity.
  Qed.

  Lemma pred_u : pred radix2 fexp64 u = u - bpow radix2 (if closer then e - 1 else e).
  Proof.
    rewrite pred_eq_pos by (apply Rlt_le, u_pos). unfold pred_pos. rewrite mag_u.
    pose proof He_eq as He. pose proof d_pos as Hd1. pose proof d_le as Hd2. pose proof m_bounds as Hm.
    destruct (Req_bool_spec u (bpow radix2 (d + e - 1))) as [Hp | Hp].
    - apply u_is_pow in Hp. f_equal. f_equal. rewrite fexp64_eq. unfold closer.
      destruct (Z.eqb_spec (Zpos m) (2 ^ 52)) as [E52 | N52].
      + assert (d = 53)%Z as Hd.
        { rewrite E52 in Hp. apply Z.pow_inj_r in Hp; lia. }
        destruct (Z.ltb_spec (-1074) e); cbn [andb]; lia.
      + cbn [andb]. assert (d < 53)%Z.
        { destruct (Z.eq_dec d 53) as [Hd|]; [|lia]. rewrite Hd in Hp. change (53 - 1)%Z with 52%Z in Hp. congruence. }
        lia.
    - rewrite ulp_u. f_equal. f_equal. unfold closer.
      destruct (Z.eqb_spec (Zpos m) (2 ^ 52)) as [E52 | N52]; [|reflexivity].
      exfalso. apply Hp. apply u_is_pow.
      assert (d = 53)%Z as Hd.
      { rewrite E52 in Hm. destruct Hm as [H1 H2]. apply Z.pow_le_mono_r_iff in H1; try lia. apply Z.pow_lt_mono_r_iff in H2; lia. }
      rewrite Hd. exact E52.
  Qed.

  Definition lo : R := u - bpow radix2 (if closer then e - 1 else e) / 2.
  Definition hi : R := u + bpow radix2 e / 2.

  Notation rnd := (round radix2 fexp64 ZnearestE).

  Lemma round_interior : forall x, lo < x < hi -> rnd x = u.
  Proof.
    intros x [Hl Hh]. apply Rle_antisym.
    - apply round_N_le_midp; [apply fexp64_valid | exact Fu |]. rewrite succ_u. unfold hi in Hh. lra.
    - apply round_N_ge_midp; [apply fexp64_valid | exact Fu |]. rewrite pred_u. unfold lo in Hl. lra.
  Qed.

  (* ---- the end points, admissible when the mantissa is even (ties go to even) *)
  Lemma cexp_F2R_pos : forall (M : Z) (E : Z), (0 < M)%Z -> fexp64 (Zdigits radix2 M + E) = E ->
    cexp radix2 fexp64 (F2R (Float radix2 M E)) = E.
  Proof. intros M E HM HE. unfold cexp. rewrite mag_F2R_Zdigits by lia. exact HE. Qed.

  Lemma sm_half : forall (M E : Z) x, x = F2R (Float radix2 M E) + bpow radix2 E / 2 -> cexp radix2 fexp64 x = E ->
    Zfloor (scaled_mantissa radix2 fexp64 x) = M.
  Proof.
    intros M E x Hx Hc. unfold scaled_mantissa. rewrite Hc, Hx. unfold F2R. cbn [Fnum Fexp].
    replace ((IZR M * bpow radix2 E + bpow radix2 E / 2) * bpow radix2 (- E)) with (IZR M + / 2).
    - apply Zfloor_imp. rewrite plus_IZR. lra.
    - rewrite bpow_opp. field. apply Rgt_not_eq, bpow_gt_0.
  Qed.

  Lemma round_hi_even : Z.even (Zpos m) = true -> rnd hi = u.
  Proof.
    intros Hev.
    assert (0 < bpow radix2 e) as Hbp by apply bpow_gt_0.
    assert (round radix2 fexp64 Zfloor hi = u) as HDN.
    { apply round_DN_eq; [apply fexp64_valid | exact Fu |]. rewrite succ_u. unfold hi. lra. }
    assert (round radix2 fexp64 Zceil hi = succ radix2 fexp64 u) as HUP.
    { apply round_UP_eq; [apply fexp64_valid | apply generic_format_succ; [apply fexp64_valid | exact Fu] |].
      rewrite pred_succ by (try apply fexp64_valid; exact Fu). rewrite succ_u. unfold hi. lra. }
    rewrite (round_N_middle radix2 fexp64 (fun t => negb (Z.even t)) hi).
    2:{ rewrite HDN, HUP, succ_u. unfold hi. lra. }
    assert (cexp radix2 fexp64 hi = e) as Hc.
    { rewrite <- (cexp_DN radix2 fexp64 hi) by (rewrite HDN; apply u_pos). rewrite HDN. symmetry. apply Hcan. }
    rewrite (sm_half (Zpos m) e hi eq_refl Hc). rewrite Hev. cbn [negb]. exact HDN.
  Qed.

  Lemma m_ge_2 : Z.even (Zpos m) = true -> (2 <= Zpos m)%Z.
  Proof. intros H. destruct m; try discriminate H; lia. Qed.

  Lemma round_lo_even : Z.even (Zpos m) = true -> rnd lo = u.
  Proof.
    intros Hev. pose proof (m_ge_2 Hev) as Hm2.
    set (e' := if closer then (e - 1)%Z else e).
    set (M' := if closer then (2 * Zpos m - 1)%Z else (Zpos m - 1)%Z).
    assert (0 < bpow radix2 e') as Hbp by apply bpow_gt_0.
    pose proof He_eq as He. pose proof d_pos as Hd1. pose proof d_le as Hd2. pose proof m_bounds as Hmb.
    assert (pred radix2 fexp64 u = F2R (Float radix2 M' e')) as Hpred.
    { rewrite pred_u. fold e'. unfold u, M', e', F2R. cbn [Fnum Fexp]. destruct closer.
      - rewrite minus_IZR, mult_IZR. replace e with ((e - 1) + 1)%Z at 1 by lia. rewrite bpow_plus. change (bpow radix2 1) with 2. simpl (IZR 2). simpl (IZR 1). ring.
      - rewrite minus_IZR. simpl (IZR 1). ring. }
    assert (0 < M')%Z as HM' by (unfold M'; destruct closer; lia).
    assert (0 < pred radix2 fexp64 u) as Hpp by (rewrite Hpred; apply F2R_gt_0; exact HM').
    assert (lo = F2R (Float radix2 M' e') + bpow radix2 e' / 2) as Hlo.
    { rewrite <- Hpred, pred_u. fold e'. unfold lo. fold e'. lra. }
    assert (round radix2 fexp64 Zceil lo = u) as HUP.
    { apply round_UP_eq; [apply fexp64_valid | exact Fu |]. rewrite pred_u. fold e'. unfold lo. fold e'. lra. }
    assert (round radix2 fexp64 Zfloor lo = pred radix2 fexp64 u) as HDN.
    { apply round_DN_eq; [apply fexp64_valid | apply generic_format_pred; [apply fexp64_valid | exact Fu] |].
      rewrite succ_pred by (try apply fexp64_valid; exact Fu). rewrite pred_u. fold e'. unfold lo. fold e'. lra. }
    rewrite (round_N_middle radix2 fexp64 (fun t => negb (Z.even t)) lo).
    2:{ rewrite HDN, HUP, pred_u. fold e'. unfold lo. fold e'. lra. }
    assert (cexp radix2 fexp64 lo = e') as Hc.
    { rewrite <- (cexp_DN radix2 fexp64 lo) by (rewrite HDN; exact Hpp). rewrite HDN, Hpred.
      apply cexp_F2R_pos; [exact HM'|]. rewrite fexp64_eq. unfold M', e', closer.
      destruct (Z.eqb_spec (Zpos m) (2 ^ 52)) as [E52 | N52].
      - assert (d = 53)%Z as Hd.
        { rewrite E52 in Hmb. destruct Hmb as [H1 H2]. apply Z.pow_le_mono_r_iff in H1; try lia. apply Z.pow_lt_mono_r_iff in H2; lia. }
        destruct (Z.ltb_spec (-1074) e); cbn [andb].
        + rewrite E52. change (Zdigits radix2 (2 * 2 ^ 52 - 1)) with 53%Z. lia.
        + rewrite E52. change (Zdigits radix2 (2 ^ 52 - 1)) with 52%Z. lia.
      - cbn [andb].
        assert (2 <= d)%Z as Hd2' by (destruct (Z.eq_dec d 1) as [E1|]; [rewrite E1 in Hmb; change (2 ^ 1)%Z with 2%Z in Hmb; lia | lia]).
        assert (d - 1 <= Zdigits radix2 (Zpos m - 1) <= d)%Z as Hdd.
        { split.
          - destruct (Z.le_gt_cases (d - 1) (Zdigits radix2 (Zpos m - 1))) as [|G]; [assumption|exfalso].
            pose proof (Zdigits_correct radix2 (Zpos m - 1)) as Hc'. rewrite Z.abs_eq in Hc' by lia. change (Zpower radix2) with (Z.pow 2) in Hc'.
            destruct Hc' as [_ Hc']. assert (2 ^ Zdigits radix2 (Zpos m - 1) <= 2 ^ (d - 2))%Z by (apply Z.pow_le_mono_r; lia).
            assert (2 ^ (d - 1) = 2 * 2 ^ (d - 2))%Z by (replace (d - 1)%Z with ((d - 2) + 1)%Z by lia; rewrite Z.pow_add_r by lia; lia).
            assert (0 < 2 ^ (d - 2))%Z by (apply Z.pow_pos_nonneg; lia). lia.
          - unfold d. apply Zdigits_le; lia. }
        destruct (Z.eq_dec (Zdigits radix2 (Zpos m - 1)) d) as [Ed | Nd]; [rewrite Ed; lia|].
        assert (Zdigits radix2 (Zpos m - 1) = d - 1)%Z as Ed by lia. rewrite Ed.
        (* then m = 2^(d-1): a power of two below 2^52, or 2^52 at the bottom exponent *)
        pose proof (Zdigits_correct radix2 (Zpos m - 1)) as Hc'. rewrite Z.abs_eq in Hc' by lia. change (Zpower radix2) with (Z.pow 2) in Hc'. rewrite Ed in Hc'.
        assert (Zpos m = 2 ^ (d - 1))%Z as Epow by lia.
        assert (d < 53)%Z by (destruct (Z.eq_dec d 53) as [E53|]; [rewrite E53 in Epow; change (53 - 1)%Z with 52%Z in Epow; congruence | lia]).
        lia. }
    rewrite (sm_half M' e' lo Hlo Hc).
    assert (Z.even M' = false) as ->.
    { unfold M'. destruct closer; [rewrite Z.even_sub, Z.even_mul; reflexivity | rewrite Z.even_sub, Hev; reflexivity]. }
    cbn [negb]. exact HUP.
  Qed.

  (* any real in the rounding interval (end points only for an even mantissa) rounds to u *)
  Theorem round_interval : forall x,
    (if Z.even (Zpos m) then lo <= x <= hi else lo < x < hi) -> rnd x = u.
  Proof.
    intros x H. destruct (Z.even (Zpos m)) eqn:Hev.
    - destruct H as [[Hl | Hl] [Hh | Hh]].
      + apply round_interior. split; assumption.
      + rewrite Hh. apply round_hi_even. exact Hev.
      + rewrite <- Hl. apply round_lo_even. exact Hev.
      + rewrite <- Hl. apply round_lo_even. exact Hev.
    - apply round_interior. exact H.
  Qed.
End OneDouble.

(* SpecFloat's rounding is Flocq's binary_round_aux at mode_NE (same two lemmas as in Flocq.IEEE754.PrimFloat, restated here so that
   the primitive-float library and its axioms are not loaded) *)
Lemma round_nearest_even_equiv s m l : round_nearest_even m l = choice_mode mode_NE s m l.
Proof.
  case l; [reflexivity|intro c]. case c; [ | reflexivity..]. now simpl; unfold Round.cond_incr; case Z.even.
Qed.

Lemma binary_round_aux_equiv sx mx ex lx :
  SpecFloat.binary_round_aux 53 1024 sx mx ex lx = binary_round_aux 53 1024 mode_NE sx mx ex lx.
Proof.
  unfold SpecFloat.binary_round_aux, binary_round_aux.
  set (mrse' := shr_fexp _ _ _ _ _). case mrse'; intros mrs' e'; simpl.
  now rewrite (round_nearest_even_equiv sx).
Qed.

Global Instance prec_gt_0_53 : Prec_gt_0 53. Proof. reflexivity. Qed.
Global Instance prec_lt_emax_53 : Prec_lt_emax 53 1024. Proof. reflexivity. Qed.

(* correct rounding of num/den: if the quotient lies in the rounding interval of the binary64 value (m, e), SFdiv returns that value *)
Theorem sfdiv_in_interval : forall (s : bool) (num den m : positive) (e : Z),
  bounded 53 1024 m e = true ->
  (let x := IZR (Zpos num) / IZR (Zpos den) in
   if Z.even (Zpos m) then lo m e <= x <= hi m e else lo m e < x < hi m e) ->
  SFdiv 53 1024 (S754_finite s num 0) (S754_finite false den 0) = S754_finite s m e.
Proof.
  intros s num den m e Hb Hx. cbn zeta in Hx.
  set (x := IZR (Zpos num) / IZR (Zpos den)) in *.
  pose proof (round_interval m e Hb x Hx) as Hr.
  set (u := F2R (Float radix2 (Zpos m) e)) in *.
  unfold SFdiv.
  pose proof (Bdiv_correct_aux 53 1024 _ _ mode_NE s num 0 false den 0) as H.
  cbn zeta in H.
  destruct (SFdiv_core_binary 53 1024 (Zpos num) 0 (Zpos den) 0) as [[mz ez] lz].
  rewrite binary_round_aux_equiv. rewrite xorb_false_r in H. rewrite xorb_false_r.
  set (z := binary_round_aux 53 1024 mode_NE s mz ez lz) in *.
  destruct H as [Hv H].
  assert (F2R (Float radix2 (cond_Zopp s (Zpos num)) 0) / F2R (Float radix2 (cond_Zopp false (Zpos den)) 0) = if s then - x else x) as Hq.
  { unfold F2R, x. cbn [Fnum Fexp cond_Zopp bpow]. destruct s; cbn [cond_Zopp]; [rewrite opp_IZR|]; field; apply IZR_neq; discriminate. }
  rewrite Hq in H.
  assert (round radix2 (SpecFloat.fexp 53 1024) (round_mode mode_NE) (if s then - x else x) = if s then - u else u) as Hru.
  { change (SpecFloat.fexp 53 1024) with fexp64. change (round_mode mode_NE) with ZnearestE.
    destruct s; [rewrite round_NE_opp, Hr | rewrite Hr]; reflexivity. }
  rewrite Hru in H.
  assert (0 < u) as Hu by (apply F2R_gt_0; reflexivity).
  assert (u < bpow radix2 1024) as Hlt by (apply (bounded_lt_emax 53 1024 m e Hb)).
  rewrite Rlt_bool_true in H.
  2:{ destruct s; [rewrite Rabs_Ropp|]; rewrite Rabs_pos_eq by lra; exact Hlt. }
  destruct H as (HR & Hfin & Hsign).
  destruct z as [sz | sz | | sz mz' ez']; try discriminate Hfin.
  - (* zero: impossible, the value is not zero *)
    cbn [SF2R] in HR. destruct s; lra.
  - cbn [sign_SF] in Hsign. subst sz. cbn [SF2R] in HR.
    assert (F2R (Float radix2 (cond_Zopp s (Zpos mz')) ez') = F2R (Float radix2 (cond_Zopp s (Zpos m)) e)) as HF.
    { rewrite HR. unfold u. destruct s; cbn [cond_Zopp]; [rewrite !F2R_Zopp; lra | reflexivity]. }
    assert (canonical radix2 (SpecFloat.fexp 53 1024) (Float radix2 (cond_Zopp s (Zpos mz')) ez')) as C1.
    { apply canonical_canonical_mantissa. cbn [valid_binary] in Hv. unfold bounded in Hv. apply andb_prop in Hv. apply Hv. }
    assert (canonical radix2 (SpecFloat.fexp 53 1024) (Float radix2 (cond_Zopp s (Zpos m)) e)) as C2.
    { apply canonical_canonical_mantissa. unfold bounded in Hb. apply andb_prop in Hb. apply Hb. }
    pose proof (canonical_unique radix2 _ _ _ C1 C2 HF) as Heq.
    injection Heq as Hm He. subst ez'. destruct s; cbn [cond_Zopp Z.opp] in Hm; injection Hm as ->; reflexivity.
Qed.

Lemma IZR_pow2 : forall k, (0 <= k)%Z -> IZR (2 ^ k) = bpow radix2 k.
Proof. intros. rewrite <- (Raux.IZR_Zpower radix2) by assumption. reflexivity. Qed.

(* the integer interval of NumDefs is the real rounding interval *)
Lemma interval_real : forall (m : positive) (e : Z),
  let '(A, C, B, D) := interval (Zpos m) e (closer m e) in
  (0 < D)%Z /\ IZR A / IZR D = lo m e /\ IZR B / IZR D = hi m e.
Proof.
  intros m e. unfold interval, lo, hi, F2R. cbn [Fnum Fexp].
  set (c := closer m e).
  assert (bpow radix2 e = 4 * bpow radix2 (e - 2)) as E4.
  { replace e with ((e - 2) + 2)%Z at 1 by lia. rewrite bpow_plus. change (bpow radix2 2) with 4. ring. }
  assert (bpow radix2 (e - 1) = 2 * bpow radix2 (e - 2)) as E2.
  { replace (e - 1)%Z with ((e - 2) + 1)%Z by lia. rewrite bpow_plus. change (bpow radix2 1) with 2. ring. }
  destruct (Z.leb_spec 0 (e - 2)) as [Hs | Hs].
  - split; [lia|]. rewrite !mult_IZR, !minus_IZR, !plus_IZR, !mult_IZR, IZR_pow2 by lia. unfold Rdiv. rewrite Rinv_1, !Rmult_1_r.
    destruct c; rewrite ?E2, E4; simpl (IZR 4); simpl (IZR 2); simpl (IZR 1); split; field.
  - assert (0 < 2 ^ (- (e - 2)))%Z by (apply Z.pow_pos_nonneg; lia). split; [assumption|].
    rewrite IZR_pow2 by lia. rewrite bpow_opp.
    assert (bpow radix2 (e - 2) <> 0) by (apply Rgt_not_eq, bpow_gt_0).
    rewrite !minus_IZR, !plus_IZR, !mult_IZR.
    destruct c; rewrite ?E2, E4; simpl (IZR 4); simpl (IZR 2); simpl (IZR 1); split; field; assumption.
Qed.

Lemma IZR_pow10_pos : forall k, (0 <= k)%Z -> 0 < IZR (10 ^ k).
Proof. intros. apply IZR_lt. apply Z.pow_pos_nonneg; lia. Qed.

Lemma frac_le : forall a d n t, 0 < d -> 0 < t -> a * t <= n * d -> a / d <= n / t.
Proof.
  intros a d n t Hd Ht H. replace (a / d) with ((a * t) * / (d * t)) by (field; lra). replace (n / t) with ((n * d) * / (d * t)) by (field; lra).
  apply Rmult_le_compat_r; [left; apply Rinv_0_lt_compat; nra | assumption].
Qed.

Lemma frac_lt : forall a d n t, 0 < d -> 0 < t -> a * t < n * d -> a / d < n / t.
Proof.
  intros a d n t Hd Ht H. replace (a / d) with ((a * t) * / (d * t)) by (field; lra). replace (n / t) with ((n * d) * / (d * t)) by (field; lra).
  apply Rmult_lt_compat_r; [apply Rinv_0_lt_compat; nra | assumption].
Qed.

(* correct rounding of a decimal inside the rounding interval gives the double back *)
Theorem round_dec_in_interval : forall (s : bool) (m : positive) (e N E : Z),
  bounded 53 1024 m e = true -> (0 < N)%Z -> (E <= 400)%Z -> (-400 <= E + Z.of_nat (declen N))%Z ->
  (let '(A, C, B, D) := interval (Zpos m) e (closer m e) in in_interval (Z.even (Zpos m)) A B D N E = true) ->
  round_dec s N E = S754_finite s m e.
Proof.
  intros s m e N E Hb HN HE1 HE2 Hin.
  pose proof (interval_real m e) as HI.
  destruct (interval (Zpos m) e (closer m e)) as [[[A C] B] D]. destruct HI as (HD & HA & HB).
  unfold round_dec. destruct N as [|p|p]; try lia.
  destruct (Z.ltb_spec 400 E); [lia|]. destruct (Z.ltb_spec (E + Z.of_nat (declen (Zpos p))) (-400)); [lia|].
  assert (0 < IZR D) as HDr by (apply IZR_lt; assumption).
  unfold in_interval in Hin. unfold b64_div.
  destruct (Z.leb_spec 0 E) as [HE | HE].
  - assert (0 < 10 ^ E)%Z as Hp10 by (apply Z.pow_pos_nonneg; lia).
    apply sfdiv_in_interval; [exact Hb|]. cbn zeta.
    rewrite Pos2Z.inj_mul, Z2Pos.id by assumption.
    rewrite <- HA, <- HB.
    destruct (Z.even (Zpos m)); apply andb_prop in Hin; destruct Hin as [H1 H2].
    + apply Z.leb_le in H1. apply Z.leb_le in H2. apply IZR_le in H1. apply IZR_le in H2. rewrite !mult_IZR in H1, H2.
      split; apply frac_le; try lra; rewrite ?mult_IZR; lra.
    + apply Z.ltb_lt in H1. apply Z.ltb_lt in H2. apply IZR_lt in H1. apply IZR_lt in H2. rewrite !mult_IZR in H1, H2.
      split; apply frac_lt; try lra; rewrite ?mult_IZR; lra.
  - assert (0 < 10 ^ (- E))%Z as Hp10 by (apply Z.pow_pos_nonneg; lia).
    apply sfdiv_in_interval; [exact Hb|]. cbn zeta.
    rewrite Z2Pos.id by assumption.
    assert (0 < IZR (10 ^ (- E))) as Hdr by (apply IZR_lt; assumption).
    rewrite <- HA, <- HB.
    destruct (Z.even (Zpos m)); apply andb_prop in Hin; destruct Hin as [H1 H2].
    + apply Z.leb_le in H1. apply Z.leb_le in H2. apply IZR_le in H1. apply IZR_le in H2. rewrite !mult_IZR in H1, H2.
      split; apply frac_le; try lra.
    + apply Z.ltb_lt in H1. apply Z.ltb_lt in H2. apply IZR_lt in H1. apply IZR_lt in H2. rewrite !mult_IZR in H1, H2.
      split; apply frac_lt; try lra.
Qed.
