(* C10 — the WKT reader model applied to the WKT writer model's tokens gives exactly `expect` (accepting and rejecting). *)
From Coq Require Import ZArith List Ascii String Bool Lia.
From GeosV.C10 Require Import NumDefs WktDefs.
Import ListNotations.
Local Open Scope Z_scope.

(* ------------------------------------------------------------------ the reader's flag state inside one tagged element *)
(* determined: the flags equal the written ordinates o and may not change; open: XY, changes allowed *)
Definition st (o : dims) (det : bool) : flags := if det then mkf (dz o) (dm o) false else flagsXY.
(* the open state occurs only when no Z/M word was written, i.e. never for M-only ordinates *)
Definition inv (o : dims) (det : bool) : Prop := det = false -> dm o = true -> dz o = true.

Lemma inv_tag_written : forall c o, inv o (tag_written c o).
Proof. intros c [[] []]; unfold inv, tag_written; destruct (c_old3d c); cbn; intros; congruence. Qed.

Lemma inv_true : forall o, inv o true.
Proof. intros o H; discriminate. Qed.

Lemma fdims_st : forall o det, fdims (st o det) = cur o det.
Proof. intros [z m] []; reflexivity. Qed.

Lemma fchg_st : forall o det, fchg (st o det) = negb det.
Proof. intros o []; reflexivity. Qed.

Definition not_num (ts : list token) : Prop := is_num_next ts = false.

(* ------------------------------------------------------------------ coordinates *)
Definition prev_ok (o : dims) (p : coord) : Prop := (dz o = false -> cz p = nan_bits) /\ (dm o = false -> cm p = nan_bits).

Lemma keep_prev_ok : forall o d p, prev_ok o (keep o d p).
Proof. intros [[] []] d p; split; cbn; intros; congruence. Qed.

Lemma precise_coordinate_ok : forall o d p det prev rest, inv o det -> not_num rest -> prev_ok o prev ->
  precise_coordinate (st o det) prev (coord_tokens o d p ++ rest) = Some (keep o d p, st o true, rest).
Proof.
  intros [oz om] d p det prev rest Hinv Hr [Pz Pm]. unfold not_num in Hr.
  unfold precise_coordinate, coord_tokens, keep, st. cbn [dz dm] in *.
  destruct det, oz, om; try (exfalso; specialize (Hinv eq_refl eq_refl); discriminate);
    unfold flagsXY; repeat (progress (cbn [app next_num is_num_next fz fm fchg andb]; rewrite ?Hr));
    try (rewrite Pz by reflexivity); try (rewrite Pm by reflexivity); reflexivity.
Qed.

Definition tail_by {X} (f : X -> list token) (l : list X) : list token := flat_map (fun y => TC :: f y) l.

Lemma sep_by_cons : forall X (f : X -> list token) x t, sep_by f (x :: t) = f x ++ tail_by f t.
Proof.
  intros X f x t. revert x. induction t as [|y t IH]; intros x.
  - cbn. rewrite app_nil_r. reflexivity.
  - change (sep_by f (x :: y :: t)) with (f x ++ TC :: sep_by f (y :: t)). rewrite IH. reflexivity.
Qed.

Lemma more_coordinates_ok : forall o d cs fuel prev rest, (List.length cs < fuel)%nat -> prev_ok o prev ->
  more_coordinates fuel (st o true) prev (tail_by (coord_tokens o d) cs ++ TR :: rest) = Some (map (keep o d) cs, st o true, rest).
Proof.
  intros o d cs. induction cs as [|p cs IH]; intros fuel prev rest Hf Hp.
  - destruct fuel; [cbn in Hf; lia|]. reflexivity.
  - destruct fuel; [cbn in Hf; lia|]. cbn [tail_by flat_map app more_coordinates].
    rewrite <- app_assoc.
    assert (not_num (flat_map (fun y => TC :: coord_tokens o d y) cs ++ TR :: rest)) as Hn by (destruct cs; reflexivity).
    rewrite (precise_coordinate_ok o d p true prev _ (inv_true o) Hn Hp).
    change (flat_map (fun y => TC :: coord_tokens o d y) cs) with (tail_by (coord_tokens o d) cs).
    rewrite (IH fuel (keep o d p) rest) by (try apply keep_prev_ok; cbn in Hf; lia). reflexivity.
Qed.

(* ------------------------------------------------------------------ EMPTY / "(" with and without a dimension word *)
Lemma opener_plain : forall fl rest,
  empty_or_opener fl (W "EMPTY" :: rest) = Some (true, fl, rest) /\
  empty_or_opener fl (TL :: rest) = Some (false, fl, rest).
Proof. intros. split; reflexivity. Qed.

Lemma opener_tagged : forall c o rest,
  empty_or_opener flagsXY (ordinate_text c o ++ W "EMPTY" :: rest) = Some (true, st o (tag_written c o), rest) /\
  empty_or_opener flagsXY (ordinate_text c o ++ TL :: rest) = Some (false, st o (tag_written c o), rest).
Proof.
  intros c [[] []] rest; unfold ordinate_text, tag_written, st; destruct (c_old3d c); split; reflexivity.
Qed.

(* ------------------------------------------------------------------ coordinate sequences *)
Lemma sequence_read : forall k o d cs det fuel fl0 pre rest,
  inv o det -> (List.length cs <= fuel)%nat -> (k = KPoint -> (List.length cs <= 1)%nat) ->
  (forall r, empty_or_opener fl0 (pre ++ W "EMPTY" :: r) = Some (true, st o det, r)) ->
  (forall r, empty_or_opener fl0 (pre ++ TL :: r) = Some (false, st o det, r)) ->
  read_leaf k fuel fl0 (pre ++ sequence_text o d cs ++ rest) =
  match e_seq o k d cs det with Some (g, det') => Some (g, st o det', rest) | None => None end.
Proof.
  intros k o d cs det fuel fl0 pre rest Hinv Hf Hpt HE HL.
  unfold read_leaf, get_coordinates, sequence_text, e_seq.
  destruct cs as [|p cs].
  - cbn [app]. rewrite HE. rewrite fdims_st. destruct k; reflexivity.
  - rewrite sep_by_cons. cbn [app]. rewrite HL. rewrite <- !app_assoc.
    assert (not_num (tail_by (coord_tokens o d) cs ++ [TR] ++ rest)) as Hn by (destruct cs; reflexivity).
    assert (prev_ok o (mkc 0 0 nan_bits nan_bits)) as P0 by (split; reflexivity).
    rewrite (precise_coordinate_ok o d p det _ _ Hinv Hn P0).
    cbn [app]. rewrite (more_coordinates_ok o d cs fuel (keep o d p) rest) by (try apply keep_prev_ok; cbn in Hf; lia).
    rewrite fdims_st. cbn [cur map].
    destruct k; try reflexivity. destruct cs; [reflexivity|]. specialize (Hpt eq_refl). cbn in Hpt. lia.
Qed.

(* a bare sequence (no dimension word) read in the enclosing element's state *)
Lemma bare_read : forall k o d cs det fuel rest,
  inv o det -> (List.length cs <= fuel)%nat -> (k = KPoint -> (List.length cs <= 1)%nat) ->
  read_leaf k fuel (st o det) (sequence_text o d cs ++ rest) =
  match e_seq o k d cs det with Some (g, det') => Some (g, st o det', rest) | None => None end.
Proof.
  intros. apply (sequence_read k o d cs det fuel (st o det) [] rest); try assumption; intros; apply opener_plain.
Qed.

(* a sequence behind its dimension word, read with fresh flags *)
Lemma tagged_seq_read : forall c k o d cs fuel rest,
  (List.length cs <= fuel)%nat -> (k = KPoint -> (List.length cs <= 1)%nat) ->
  read_leaf k fuel flagsXY (ordinate_text c o ++ sequence_text o d cs ++ rest) =
  match e_seq o k d cs (tag_written c o) with Some (g, det') => Some (g, st o det', rest) | None => None end.
Proof.
  intros. apply (sequence_read k o d cs (tag_written c o) fuel flagsXY (ordinate_text c o) rest); try assumption.
  - apply inv_tag_written.
  - intros; apply opener_tagged.
  - intros; apply opener_tagged.
Qed.

Lemma e_seq_inv : forall o k d cs det g det', inv o det -> e_seq o k d cs det = Some (g, det') -> inv o det'.
Proof.
  intros o k d cs det g det' Hi H. unfold e_seq in H. destruct cs; inversion H; subst; [assumption | apply inv_true].
Qed.

(* ------------------------------------------------------------------ lists: item ("," item)* ")" *)
Section ItemsLemma.
  Context {X : Type}.
  Variable item : reader.
  Variable f : X -> list token.
  Variable E : X -> bool -> option (geom * bool).
  Variable o : dims.

  Lemma items_ok : forall (l : list X) fuel det rest,
    l <> [] -> (List.length l <= fuel)%nat -> inv o det ->
    (forall x det r, In x l -> inv o det -> (r = [] \/ exists r', r = TC :: r' \/ r = TR :: r') ->
        item (st o det) (f x ++ r) = match E x det with Some (g, d1) => Some (g, st o d1, r) | None => None end) ->
    (forall x det g d1, In x l -> inv o det -> E x det = Some (g, d1) -> inv o d1) ->
    items item fuel (st o det) (sep_by f l ++ TR :: rest) =
    match thread E l det with Some (gs, d1) => Some (gs, st o d1, rest) | None => None end.
  Proof.
    induction l as [|x l IH]; intros fuel det rest Hne Hf Hinv Hitem HE; [congruence|].
    destruct fuel; [cbn in Hf; lia|].
    rewrite sep_by_cons. cbn [items thread]. rewrite <- app_assoc.
    destruct l as [|y l].
    - cbn [tail_by flat_map app].
      rewrite (Hitem x det (TR :: rest)) by (try (left; reflexivity); try assumption; right; eexists; right; reflexivity).
      destruct (E x det) as [[g d1]|]; reflexivity.
    - cbn [tail_by flat_map app].
      rewrite (Hitem x det _) by (try (left; reflexivity); try assumption; right; eexists; left; reflexivity).
      destruct (E x det) as [[g d1]|] eqn:Ex; [|reflexivity].
      change ((f y ++ flat_map (fun y0 => TC :: f y0) l) ++ TR :: rest) with ((f y ++ tail_by f l) ++ TR :: rest).
      rewrite <- (sep_by_cons X f y l).
      rewrite (IH fuel d1 rest); try discriminate.
      + destruct (thread E (y :: l) d1) as [[gs d2]|]; reflexivity.
      + cbn in Hf |- *. lia.
      + eapply HE; [left; reflexivity | exact Hinv | exact Ex].
      + intros x0 det0 r Hin. apply Hitem. right. exact Hin.
      + intros x0 det0 g0 d0 Hin. apply HE. right. exact Hin.
  Qed.
End ItemsLemma.

(* ------------------------------------------------------------------ type words *)
Definition word_ok (name : string) (ty : wkt_type) : Prop :=
  map upper (lit name) = lit name /\ str_eqb (lit name) "EMPTY" = false /\ type_of_word (lit name) = Some ty /\
  read_ordinate_flags (lit name) = flagsXY.

Lemma leaf_word : forall k, word_ok (leaf_name k)
  (match k with KPoint => TyPoint | KLineString => TyLineString | KLinearRing => TyLinearRing | KCircularString => TyCircularString end).
Proof. intros []; vm_compute; repeat split; reflexivity. Qed.

Lemma node_word : forall k, word_ok (node_name k)
  (match k with KCompoundCurve => TyCompoundCurve | KPolygon => TyPolygon | KCurvePolygon => TyCurvePolygon | KMultiPoint => TyMultiPoint
              | KMultiLineString => TyMultiLineString | KMultiPolygon => TyMultiPolygon | KMultiCurve => TyMultiCurve
              | KMultiSurface => TyMultiSurface | KCollection => TyCollection end).
Proof. intros []; vm_compute; repeat split; reflexivity. Qed.

Definition mix_check (orig : flags) (res : option (geom * flags * list token)) : option (geom * list token) :=
  match res with
  | Some (g, nf', r') => if negb (fchg orig) && negb (flags_val_eqb nf' orig) then None else Some (g, r')
  | None => None
  end.

Lemma tagged_body_word : forall T f name ty orig et r, word_ok name ty ->
  tagged_body T f orig et (W name :: r) = mix_check orig (dispatch T f ty flagsXY r).
Proof.
  intros T f name ty orig et r (H1 & H2 & H3 & H4). unfold tagged_body, W. cbn zeta. rewrite H1, H2, H3, H4. reflexivity.
Qed.

Lemma tagged_body_empty : forall T f orig e r,
  tagged_body T f orig (Some e) (W "EMPTY" :: r) =
  Some (match e with ELineString => GLeaf KLineString (fdims orig) [] | EPolygon => GNode KPolygon [empty_ring (fdims orig)] end, r).
Proof. intros. unfold tagged_body, W. cbn zeta. change (str_eqb (map upper (lit "EMPTY")) "EMPTY") with true. destruct e; reflexivity. Qed.

(* ------------------------------------------------------------------ helpers on lists *)
Lemma sep_by_ext : forall X (f f' : X -> list token) l, (forall x, In x l -> f x = f' x) -> sep_by f l = sep_by f' l.
Proof.
  intros X f f' l. induction l as [|x l IH]; intros H; [reflexivity|].
  destruct l as [|y l]; [cbn; apply H; left; reflexivity|].
  change (sep_by f (x :: y :: l)) with (f x ++ TC :: sep_by f (y :: l)).
  change (sep_by f' (x :: y :: l)) with (f' x ++ TC :: sep_by f' (y :: l)).
  rewrite IH by (intros; apply H; right; assumption). rewrite (H x) by (left; reflexivity). reflexivity.
Qed.

Lemma thread_ext : forall X Y S (E E' : X -> S -> option (Y * S)) l s, (forall x s, In x l -> E x s = E' x s) -> thread E l s = thread E' l s.
Proof.
  intros X Y S E E' l. induction l as [|x l IH]; intros s H; [reflexivity|]. cbn [thread].
  rewrite (H x s) by (left; reflexivity). destruct (E' x s) as [[y s1]|]; [|reflexivity].
  rewrite IH by (intros; apply H; right; assumption). reflexivity.
Qed.

Lemma thread_inv : forall X (E : X -> bool -> option (geom * bool)) o l det gs d1,
  (forall x det g d1, In x l -> inv o det -> E x det = Some (g, d1) -> inv o d1) ->
  inv o det -> thread E l det = Some (gs, d1) -> inv o d1.
Proof.
  intros X E o l. induction l as [|x l IH]; intros det gs d1 HE Hi H; cbn [thread] in H.
  - inversion H; subst; assumption.
  - destruct (E x det) as [[g d2]|] eqn:Ex; [|discriminate].
    destruct (thread E l d2) as [[gs' d3]|] eqn:Et; [|discriminate]. inversion H; subst.
    eapply IH; [| |exact Et]; [intros; eapply HE; eauto; right; assumption|]. eapply HE; eauto. left; reflexivity.
Qed.

Lemma forallb_In : forall X (p : X -> bool) l x, forallb p l = true -> In x l -> p x = true.
Proof. intros X p l x H Hin. rewrite forallb_forall in H. apply H. assumption. Qed.

Fixpoint sum_sizes (l : list geom) : nat := match l with [] => 0%nat | x :: t => (gsize x + sum_sizes t)%nat end.

Lemma gsize_node : forall k l, gsize (GNode k l) = S (List.length l + sum_sizes l).
Proof.
  intros. cbn [gsize].
  assert (fold_right (fun x a => (gsize x + a)%nat) 0%nat l = sum_sizes l) as -> by (induction l as [|x l IH]; cbn [fold_right sum_sizes]; congruence).
  reflexivity.
Qed.

Lemma gsize_pos : forall g, (1 <= gsize g)%nat.
Proof. intros []; cbn [gsize]; lia. Qed.

Lemma sum_sizes_In : forall l x, In x l -> (gsize x + List.length l <= List.length l + sum_sizes l)%nat.
Proof.
  induction l as [|y l IH]; intros x Hin; [destruct Hin|]. destruct Hin as [-> | Hin]; cbn [sum_sizes List.length].
  - lia.
  - specialize (IH x Hin). pose proof (gsize_pos y). lia.
Qed.

(* ------------------------------------------------------------------ one nesting level, given the readers for the levels below *)
Definition lift (r : option (geom * bool)) (o : dims) (rest : list token) : option (geom * flags * list token) :=
  match r with Some (g, d1) => Some (g, st o d1, rest) | None => None end.

Definition check (orig : flags) (r : option (geom * dims)) (rest : list token) : option (geom * list token) :=
  match r with
  | Some (g', v) => if negb (fchg orig) && negb (dims_eqb v (fdims orig)) then None else Some (g', rest)
  | None => None
  end.

Definition empty_geom (e : empty_type) (d : dims) : geom :=
  match e with ELineString => GLeaf KLineString d [] | EPolygon => GNode KPolygon [empty_ring d] end.

Lemma flags_val_dims : forall o d1 orig, flags_val_eqb (st o d1) orig = dims_eqb (cur o d1) (fdims orig).
Proof. intros [z m] [] [a b ch]; reflexivity. Qed.

Lemma mix_check_lift : forall orig r o rest, mix_check orig (lift r o rest) = check orig (fin o r) rest.
Proof.
  intros orig [[g d1]|] o rest; [|reflexivity]. unfold mix_check, lift, check, fin.
  rewrite (flags_val_dims o d1 orig). reflexivity.
Qed.

Lemma expect_o_kind : forall c o x g' v, expect_o c o x = Some (g', v) ->
  match x, g' with GLeaf k _ _, GLeaf k' _ _ => k = k' | GNode k _, GNode k' _ => k = k' | _, _ => False end.
Proof.
  intros c o [k d cs | k l] g' v H.
  - cbn [expect_o] in H. unfold fin, e_seq in H. destruct cs; inversion H; subst; reflexivity.
  - destruct k; cbn [expect_o] in H; unfold fin in H;
      match type of H with (match ?body with _ => _ end) = _ => destruct body as [x|] eqn:Eb; [|discriminate] end;
      try (destruct x as [gg dd]); inversion H; subst; clear H; try reflexivity;
      unfold e_compound_body, e_polygon_body, e_curvepolygon_body, e_list in Eb;
      repeat match type of Eb with context [match ?t with _ => _ end] => destruct t eqn:? end;
      try discriminate; inversion Eb; subst; reflexivity.
Qed.

Definition curve_member_ok (x : geom) : bool :=
  match x with
  | GLeaf KPoint _ _ => false
  | GLeaf _ _ _ => true
  | GNode KCompoundCurve m => forallb nonempty_simple m
  | _ => false
  end.

Definition tail_ok (r : list token) : Prop := r = [] \/ exists r', r = TC :: r' \/ r = TR :: r'.

Section Level.
  Variable c : cfg.
  Variable T : tagged_fn.
  Variable n : nat.
  Hypothesis HT : forall g o orig et rest, wf g = true -> (gsize g <= n)%nat ->
    T orig et (tagged_text_o c o g ++ rest) = check orig (expect_o c o g) rest.
  Hypothesis HTE : (1 <= n)%nat -> forall orig e rest, T orig (Some e) (W "EMPTY" :: rest) = Some (empty_geom e (fdims orig), rest).

  (* an element carrying its own tag, read from inside an element whose state is (o, det) *)
  Lemma inner_T : forall x o' o det et r, wf x = true -> (gsize x <= n)%nat ->
    T (st o det) et (tagged_text_o c o' x ++ r) =
    match e_inner o (expect_o c o' x) det with Some (g', _) => Some (g', r) | None => None end.
  Proof.
    intros x o' o det et r Hw Hs. rewrite HT by assumption. unfold check, e_inner.
    destruct (expect_o c o' x) as [[g' v]|]; [|reflexivity]. rewrite fchg_st, fdims_st.
    destruct det; cbn [negb andb cur]; [|reflexivity]. destruct (dims_eqb v o); reflexivity.
  Qed.

  Lemma e_inner_det : forall o r det g d1, e_inner o r det = Some (g, d1) -> d1 = det.
  Proof. intros o [[g' v]|] det g d1 H; unfold e_inner in H; [|discriminate]. destruct (det && negb (dims_eqb v o)); inversion H; reflexivity. Qed.

  Lemma wf_leaf_any : forall k d cs, k <> KPoint -> wf (GLeaf k d cs) = true.
  Proof. intros [] d cs H; try reflexivity. congruence. Qed.

  (* readCurveText on what appendCurveText wrote *)
  Lemma curve_read : forall x o det r, inv o det -> curve_member_ok x = true -> (gsize x <= n)%nat ->
    read_curve T n (st o det) (curve_text c o x ++ r) = lift (e_curve c o x det) o r.
  Proof.
    intros x o det r Hinv Hok Hs.
    assert (1 <= n)%nat as Hn1 by (pose proof (gsize_pos x); lia).
    destruct x as [k d cs | k l].
    - destruct k; [discriminate Hok | | |].
      + (* line string: bare *)
        cbn [curve_text simple_curve_text e_curve e_simple]. destruct cs as [|p cs].
        * cbn [sequence_text app]. unfold read_curve. rewrite (HTE Hn1). cbn [empty_geom is_curve]. rewrite fdims_st. reflexivity.
        * unfold read_curve. change (sequence_text o d (p :: cs) ++ r) with (TL :: (sep_by (coord_tokens o d) (p :: cs) ++ [TR]) ++ r).
          change (TL :: (sep_by (coord_tokens o d) (p :: cs) ++ [TR]) ++ r) with (sequence_text o d (p :: cs) ++ r).
          rewrite bare_read; [reflexivity | assumption | cbn [gsize] in Hs; lia | discriminate].
      + (* linear ring written bare: read back as a line string *)
        cbn [curve_text simple_curve_text e_curve e_simple]. destruct cs as [|p cs].
        * cbn [sequence_text app]. unfold read_curve. rewrite (HTE Hn1). cbn [empty_geom is_curve]. rewrite fdims_st. reflexivity.
        * unfold read_curve. change (sequence_text o d (p :: cs) ++ r) with (TL :: (sep_by (coord_tokens o d) (p :: cs) ++ [TR]) ++ r).
          change (TL :: (sep_by (coord_tokens o d) (p :: cs) ++ [TR]) ++ r) with (sequence_text o d (p :: cs) ++ r).
          rewrite bare_read; [reflexivity | assumption | cbn [gsize] in Hs; lia | discriminate].
      + (* circular string: carries its tag *)
        cbn [curve_text simple_curve_text e_curve e_simple].
        change (leaf_tagged c o KCircularString d cs) with (tagged_text_o c o (GLeaf KCircularString d cs)).
        unfold read_curve. change (tagged_text_o c o (GLeaf KCircularString d cs) ++ r) with (W "CIRCULARSTRING" :: (ordinate_text c o ++ sequence_text o d cs) ++ r).
        change (W "CIRCULARSTRING" :: (ordinate_text c o ++ sequence_text o d cs) ++ r) with (tagged_text_o c o (GLeaf KCircularString d cs) ++ r).
        rewrite (inner_T _ o o det) by (try reflexivity; assumption).
        change (fin o (e_seq o KCircularString d cs (tag_written c o))) with (expect_o c o (GLeaf KCircularString d cs)).
        destruct (e_inner o (expect_o c o (GLeaf KCircularString d cs)) det) as [[g' d1]|] eqn:Ei; [|reflexivity].
        pose proof (e_inner_det _ _ _ _ _ Ei) as ->.
        unfold e_inner in Ei. destruct (expect_o c o (GLeaf KCircularString d cs)) as [[g2 v]|] eqn:Ex; [|discriminate].
        pose proof (expect_o_kind _ _ _ _ _ Ex) as K. destruct (det && negb (dims_eqb v o)); [discriminate|]. inversion Ei; subst.
        destruct g'; [subst; reflexivity | contradiction].
    - destruct k; try discriminate Hok.
      cbn [curve_text e_curve].
      change (compound_text c o (GNode KCompoundCurve l) l) with (tagged_text_o c o (GNode KCompoundCurve l)).
      unfold read_curve. change (tagged_text_o c o (GNode KCompoundCurve l) ++ r) with (W "COMPOUNDCURVE" :: (ordinate_text c o ++ (if isEmpty (GNode KCompoundCurve l) then [W "EMPTY"] else TL :: sep_by (simple_curve_text c o) l ++ [TR])) ++ r).
      change (W "COMPOUNDCURVE" :: (ordinate_text c o ++ (if isEmpty (GNode KCompoundCurve l) then [W "EMPTY"] else TL :: sep_by (simple_curve_text c o) l ++ [TR])) ++ r) with (tagged_text_o c o (GNode KCompoundCurve l) ++ r).
      rewrite (inner_T _ o o det) by (try assumption; exact Hok).
      change (fin o (e_compound_body c o (GNode KCompoundCurve l) l (tag_written c o))) with (expect_o c o (GNode KCompoundCurve l)).
      destruct (e_inner o (expect_o c o (GNode KCompoundCurve l)) det) as [[g' d1]|] eqn:Ei; [|reflexivity].
      pose proof (e_inner_det _ _ _ _ _ Ei) as ->.
      unfold e_inner in Ei. destruct (expect_o c o (GNode KCompoundCurve l)) as [[g2 v]|] eqn:Ex; [|discriminate].
      pose proof (expect_o_kind _ _ _ _ _ Ex) as K. destruct (det && negb (dims_eqb v o)); [discriminate|]. inversion Ei; subst.
      destruct g'; [contradiction | subst; reflexivity].
  Qed.

  Lemma e_curve_inv : forall x o det g d1, inv o det -> e_curve c o x det = Some (g, d1) -> inv o d1.
  Proof.
    intros x o det g d1 Hi H. destruct x as [k d cs | k l].
    - destruct k; cbn [e_curve e_simple] in H; try discriminate; try (eapply e_seq_inv; eassumption).
      rewrite (e_inner_det _ _ _ _ _ H). assumption.
    - destruct k; cbn [e_curve e_simple] in H; try discriminate. rewrite (e_inner_det _ _ _ _ _ H). assumption.
  Qed.

  (* members of a compound curve: simple curves, never empty *)
  Lemma simple_read : forall x o det r, inv o det -> nonempty_simple x = true -> (gsize x <= n)%nat ->
    read_simple T n (st o det) (simple_curve_text c o x ++ r) = lift (e_simple c o x det) o r.
  Proof.
    intros x o det r Hinv Hne Hs. unfold read_simple.
    assert (curve_member_ok x = true) as Hok by (destruct x as [[] d [|p cs] | k l]; try discriminate Hne; reflexivity).
    assert (curve_text c o x = simple_curve_text c o x /\ e_curve c o x det = e_simple c o x det) as [E1 E2]
      by (destruct x as [[] d cs | k l]; try discriminate Hne; split; reflexivity).
    rewrite <- E1, (curve_read x o det r Hinv Hok Hs), E2.
    destruct (e_simple c o x det) as [[g d1]|] eqn:Es; [|reflexivity]. cbn [lift].
    assert (is_simple_curve g = true) as ->; [|reflexivity].
    destruct x as [[] d [|p cs] | k l]; try discriminate Hne; cbn [e_simple] in Es.
    - unfold e_seq in Es. inversion Es; reflexivity.
    - unfold e_inner, fin, e_seq in Es. destruct (det && _); inversion Es; reflexivity.
  Qed.

  Definition opens (fl0 : flags) (pre : list token) (o : dims) (det : bool) : Prop :=
    (forall r, empty_or_opener fl0 (pre ++ W "EMPTY" :: r) = Some (true, st o det, r)) /\
    (forall r, empty_or_opener fl0 (pre ++ TL :: r) = Some (false, st o det, r)).

  Lemma opens_plain : forall o det, opens (st o det) [] o det.
  Proof. intros. split; intros; apply opener_plain. Qed.

  Lemma opens_tagged : forall o, opens flagsXY (ordinate_text c o) o (tag_written c o).
  Proof. intros. split; intros; apply opener_tagged. Qed.

  (* readPolygonText on what appendSurfaceText wrote for a Polygon *)
  Lemma polygon_read : forall l o det fl0 pre rest, opens fl0 pre o det -> inv o det ->
    wf (GNode KPolygon l) = true -> (List.length l <= n)%nat -> (forall x, In x l -> (gsize x <= n)%nat) ->
    read_polygon n fl0 (pre ++ surface_text c o (GNode KPolygon l) l ++ rest) = lift (e_polygon_body o (GNode KPolygon l) l det) o rest.
  Proof.
    intros l o det fl0 pre rest [HE HL] Hinv Hw Hlen Hsz. unfold read_polygon, surface_text, e_polygon_body.
    destruct (isEmpty (GNode KPolygon l)) eqn:Eem.
    - cbn [app]. rewrite HE. rewrite fdims_st. reflexivity.
    - cbn [app]. rewrite HL. rewrite <- app_assoc. cbn [app].
      cbn [wf] in Hw. destruct l as [|s0 holes]; [discriminate|]. apply andb_prop in Hw. destruct Hw as [Hrings _].
      rewrite (sep_by_ext _ (curve_text c o) (fun x => match x with GLeaf _ d cs => sequence_text o d cs | _ => [] end)).
      2:{ intros x Hin. pose proof (forallb_In _ _ _ _ Hrings Hin) as Hx. destruct x as [[] d cs | k l']; try discriminate Hx; reflexivity. }
      rewrite (items_ok (read_leaf KLinearRing n) _ (e_ring o) o (s0 :: holes) n det rest); try assumption; try discriminate.
      + destruct (thread (e_ring o) (s0 :: holes) det) as [[gs d1]|]; reflexivity.
      + intros x det0 r Hin Hi0 _. pose proof (forallb_In _ _ _ _ Hrings Hin) as Hx.
        destruct x as [[] d cs | k l']; try discriminate Hx. cbn [e_ring].
        rewrite bare_read; [reflexivity | assumption | specialize (Hsz _ Hin); cbn [gsize] in Hsz; lia | discriminate].
      + intros x det0 g d1 Hin Hi0 Ex. destruct x as [k d cs | k l']; cbn [e_ring] in Ex; [|discriminate]. eapply e_seq_inv; eassumption.
  Qed.

  Lemma e_polygon_body_inv : forall o g l det g' d1, inv o det -> e_polygon_body o g l det = Some (g', d1) -> inv o d1.
  Proof.
    intros o g l det g' d1 Hi H. unfold e_polygon_body in H. destruct (isEmpty g); [inversion H; subst; assumption|].
    destruct (thread (e_ring o) l det) as [[gs d2]|] eqn:Et; [|discriminate]. inversion H; subst.
    eapply thread_inv; [|exact Hi|exact Et]. intros x det0 g0 d0 _ Hi0 Ex. destruct x; cbn [e_ring] in Ex; [|discriminate]. eapply e_seq_inv; eassumption.
  Qed.

  Definition cp_rings_ok (l : list geom) : bool :=
    forallb (fun x => match x with
                      | GLeaf KLineString _ _ | GLeaf KCircularString _ _ => true
                      | GNode KCompoundCurve m => forallb nonempty_simple m
                      | _ => false end) l.

  Lemma cp_ring_member : forall l x, cp_rings_ok l = true -> In x l -> curve_member_ok x = true.
  Proof.
    intros l x H Hin. pose proof (forallb_In _ _ _ _ H Hin) as Hx. destruct x as [[] d cs | [] m]; try discriminate Hx; try reflexivity. exact Hx.
  Qed.

  (* readCurvePolygonText on what appendSurfaceText wrote for a CurvePolygon *)
  Lemma curvepolygon_read : forall l o det fl0 pre rest, opens fl0 pre o det -> inv o det ->
    wf (GNode KCurvePolygon l) = true -> (List.length l <= n)%nat -> (forall x, In x l -> (gsize x <= n)%nat) ->
    read_curvepolygon T n fl0 (pre ++ surface_text c o (GNode KCurvePolygon l) l ++ rest) =
    lift (e_curvepolygon_body c o (GNode KCurvePolygon l) l det) o rest.
  Proof.
    intros l o det fl0 pre rest [HE HL] Hinv Hw Hlen Hsz. unfold read_curvepolygon, surface_text, e_curvepolygon_body.
    destruct (isEmpty (GNode KCurvePolygon l)) eqn:Eem.
    - cbn [app]. rewrite HE. rewrite fdims_st. reflexivity.
    - cbn [app]. rewrite HL. rewrite <- app_assoc. cbn [app].
      assert (l <> [] /\ cp_rings_ok l = true) as [Hne Hrings].
      { cbn [wf] in Hw. destruct l as [|s0 t]; [discriminate|]. split; [discriminate|].
        destruct s0 as [[] d [|p cs] | k m]; destruct t; try (apply andb_prop in Hw; destruct Hw as [_ Hw]; exact Hw); try discriminate Hw;
          cbn [isEmpty] in Eem; try discriminate Eem. }
      rewrite (items_ok (read_curve T n) (curve_text c o) (e_curve c o) o l n det rest); try assumption.
      + destruct (thread (e_curve c o) l det) as [[gs d1]|]; reflexivity.
      + intros x det0 r Hin Hi0 _. apply curve_read; [assumption | eapply cp_ring_member; eassumption | apply Hsz; assumption].
      + intros x det0 g d1 _ Hi0 Ex. eapply e_curve_inv; eassumption.
  Qed.

  Lemma e_surface_inv : forall x o det g d1, inv o det -> e_surface c o x det = Some (g, d1) -> inv o d1.
  Proof.
    intros x o det g d1 Hi H. destruct x as [k d cs | k l]; [discriminate|].
    destruct k; cbn [e_surface] in H; try discriminate.
    - eapply e_polygon_body_inv; eassumption.
    - rewrite (e_inner_det _ _ _ _ _ H). assumption.
  Qed.

  (* readSurfaceText on a member of a MultiSurface *)
  Lemma surface_read : forall x o det r, inv o det ->
    match x with GNode KPolygon _ | GNode KCurvePolygon _ => wf x | _ => false end = true -> (gsize x <= n)%nat ->
    read_surface T n (st o det) (multisurface_member c o x ++ r) = lift (e_surface c o x det) o r.
  Proof.
    intros x o det r Hinv Hw Hs.
    assert (1 <= n)%nat as Hn1 by (pose proof (gsize_pos x); lia).
    destruct x as [k d cs | k l]; [discriminate|]. destruct k; try discriminate Hw.
    - (* polygon, bare *)
      cbn [multisurface_member e_surface]. rewrite gsize_node in Hs.
      destruct (isEmpty (GNode KPolygon l)) eqn:Eem.
      + unfold surface_text, e_polygon_body. rewrite Eem. cbn [app]. unfold read_surface. rewrite (HTE Hn1). cbn [empty_geom is_surface]. rewrite fdims_st. reflexivity.
      + assert (exists t, surface_text c o (GNode KPolygon l) l ++ r = TL :: t) as [t Et] by (unfold surface_text; rewrite Eem; eexists; reflexivity).
        unfold read_surface. rewrite Et. rewrite <- Et.
        apply (polygon_read l o det (st o det) [] r); try assumption; [apply opens_plain | lia |].
        intros y Hin. pose proof (sum_sizes_In l y Hin). lia.
    - (* curve polygon: carries its tag *)
      cbn [multisurface_member e_surface].
      change (curvepolygon_text c o (GNode KCurvePolygon l) l) with (tagged_text_o c o (GNode KCurvePolygon l)).
      assert (exists t, tagged_text_o c o (GNode KCurvePolygon l) ++ r = W "CURVEPOLYGON" :: t) as [t Et] by (eexists; reflexivity).
      unfold read_surface. rewrite Et. change (W "CURVEPOLYGON" :: t) with (TWord (lit "CURVEPOLYGON") :: t). cbn iota. change (TWord (lit "CURVEPOLYGON") :: t) with (W "CURVEPOLYGON" :: t). rewrite <- Et.
      rewrite (inner_T _ o o det) by assumption.
      change (fin o (e_curvepolygon_body c o (GNode KCurvePolygon l) l (tag_written c o))) with (expect_o c o (GNode KCurvePolygon l)).
      destruct (e_inner o (expect_o c o (GNode KCurvePolygon l)) det) as [[g' d1]|] eqn:Ei; [|reflexivity].
      pose proof (e_inner_det _ _ _ _ _ Ei) as ->.
      unfold e_inner in Ei. destruct (expect_o c o (GNode KCurvePolygon l)) as [[g2 v]|] eqn:Ex; [|discriminate].
      pose proof (expect_o_kind _ _ _ _ _ Ex) as K. destruct (det && negb (dims_eqb v o)); [discriminate|]. inversion Ei; subst.
      destruct g'; [contradiction | subst; reflexivity].
  Qed.

  (* "TYPE [Z|M|ZM] EMPTY" / "TYPE [Z|M|ZM] ( item, ... )" *)
  Lemma list_read : forall (k : nodekind) (item : reader) (f : geom -> list token) (E : geom -> bool -> option (geom * bool)) l o rest,
    (List.length l <= n)%nat ->
    (forall x det r, In x l -> inv o det -> item (st o det) (f x ++ r) = lift (E x det) o r) ->
    (forall x det g d1, In x l -> inv o det -> E x det = Some (g, d1) -> inv o d1) ->
    read_list k item n flagsXY (ordinate_text c o ++ list_text f l ++ rest) = lift (e_list k E l (tag_written c o)) o rest.
  Proof.
    intros k item f E l o rest Hlen Hitem HE. unfold read_list, list_text, e_list.
    destruct l as [|x l].
    - cbn [app thread]. rewrite (proj1 (opener_tagged c o rest)). reflexivity.
    - cbn [app]. rewrite (proj2 (opener_tagged c o _)). rewrite <- app_assoc. cbn [app].
      rewrite (items_ok item f E o (x :: l) n (tag_written c o) rest); try assumption; try discriminate.
      + destruct (thread E (x :: l) (tag_written c o)) as [[gs d1]|]; reflexivity.
      + apply inv_tag_written.
      + intros y det r Hin Hi _. apply Hitem; assumption.
  Qed.

  Lemma compound_as_list : forall l o, forallb nonempty_simple l = true ->
    (if isEmpty (GNode KCompoundCurve l) then [W "EMPTY"] else TL :: sep_by (simple_curve_text c o) l ++ [TR]) = list_text (simple_curve_text c o) l /\
    forall d0, e_compound_body c o (GNode KCompoundCurve l) l d0 = e_list KCompoundCurve (e_simple c o) l d0.
  Proof.
    intros l o Hne. unfold e_compound_body, e_list, list_text. destruct l as [|x l]; [split; reflexivity|].
    assert (isEmpty (GNode KCompoundCurve (x :: l)) = false) as ->; [|split; reflexivity].
    cbn [isEmpty forallb]. cbn [forallb] in Hne. apply andb_prop in Hne. destruct Hne as [Hx _].
    destruct x as [[] d [|p cs] | k m]; try discriminate Hx; reflexivity.
  Qed.

  Lemma collection_members_text : forall (l : list geom),
    (fix members (l : list geom) : list token :=
       match l with
       | [] => []
       | [x] => tagged_text_o c (out_ordinates c x) x
       | x :: t => tagged_text_o c (out_ordinates c x) x ++ TC :: members t
       end) l = sep_by (fun x => tagged_text_o c (out_ordinates c x) x) l.
  Proof. induction l as [|x l IH]; [reflexivity|]. destruct l as [|y l]; [reflexivity|]. rewrite IH. reflexivity. Qed.

  Lemma collection_members_expect : forall o d0 (l : list geom),
    (fix members (l : list geom) : option (list geom) :=
       match l with
       | [] => Some []
       | x :: t =>
           match expect_o c (out_ordinates c x) x with
           | Some (x', v) => if d0 && negb (dims_eqb v o) then None else match members t with Some t' => Some (x' :: t') | None => None end
           | None => None
           end
       end) l =
    match thread (fun x det => e_inner o (expect_o c (out_ordinates c x) x) det) l d0 with Some (l', _) => Some l' | None => None end /\
    forall l' d1, thread (fun x det => e_inner o (expect_o c (out_ordinates c x) x) det) l d0 = Some (l', d1) -> d1 = d0.
  Proof.
    intros o d0. induction l as [|x l [IH1 IH2]]; [split; [reflexivity | intros l' d1 H; inversion H; reflexivity]|].
    cbn [thread]. unfold e_inner at 1 3. destruct (expect_o c (out_ordinates c x) x) as [[x' v]|]; [|split; [reflexivity | discriminate]].
    destruct (d0 && negb (dims_eqb v o)); [split; [reflexivity | discriminate]|].
    rewrite IH1. destruct (thread _ l d0) as [[l' d1]|] eqn:Et; split; try reflexivity; try discriminate.
    intros l'' d2 H. inversion H; subst. eapply IH2. reflexivity.
  Qed.

  Lemma lift_unfold : forall r o rest, match r with Some (g, d1) => Some (g, st o d1, rest) | None => None end = lift r o rest.
  Proof. reflexivity. Qed.

  Lemma members_small : forall k l x, (gsize (GNode k l) <= S n)%nat -> In x l -> (gsize x <= n)%nat /\ (List.length l <= n)%nat.
  Proof. intros k l x Hs Hin. rewrite gsize_node in Hs. pose proof (sum_sizes_In l x Hin). pose proof (gsize_pos x). lia. Qed.

  (* readGeometryTaggedText, one level: every sub-element is read by T *)
  Lemma level_ok : forall g o orig et rest, wf g = true -> (gsize g <= S n)%nat ->
    tagged_body T n orig et (tagged_text_o c o g ++ rest) = check orig (expect_o c o g) rest.
  Proof.
    intros g o orig et rest Hw Hs. destruct g as [k d cs | k l].
    - (* a coordinate sequence behind its tag *)
      cbn [tagged_text_o]. unfold leaf_tagged. cbn [app].
      rewrite (tagged_body_word T n _ _ orig et _ (leaf_word k)). rewrite <- app_assoc.
      assert (dispatch T n (match k with KPoint => TyPoint | KLineString => TyLineString | KLinearRing => TyLinearRing | KCircularString => TyCircularString end) = read_leaf k n) as -> by (destruct k; reflexivity).
      rewrite tagged_seq_read; [| cbn [gsize] in Hs; lia | intros ->; cbn [wf] in Hw; apply Nat.leb_le; exact Hw].
      rewrite lift_unfold, mix_check_lift. reflexivity.
    - pose proof (fun x => members_small k l x Hs) as Hsm.
      assert (List.length l <= n)%nat as Hlen by (rewrite gsize_node in Hs; lia).
      destruct k; cbn [tagged_text_o].
      + (* COMPOUNDCURVE *)
        unfold compound_text. cbn [app]. rewrite (tagged_body_word T n _ _ orig et _ (node_word KCompoundCurve)). cbn [dispatch].
        cbn [wf] in Hw. destruct (compound_as_list l o Hw) as [E1 E2]. rewrite E1.
        rewrite <- app_assoc.
        rewrite (list_read KCompoundCurve (read_simple T n) (simple_curve_text c o) (e_simple c o) l o rest Hlen).
        * rewrite mix_check_lift. cbn [expect_o]. rewrite E2. reflexivity.
        * intros x det r Hin Hi. apply simple_read; [assumption | eapply forallb_In; eassumption | apply (Hsm x Hin)].
        * intros x det g d1 Hin Hi Ex. apply (e_curve_inv x o det g d1 Hi).
          pose proof (forallb_In _ _ _ _ Hw Hin) as Hx. destruct x as [[] dd [|p cs] | kk m]; try discriminate Hx; exact Ex.
      + (* POLYGON *)
        cbn [app]. rewrite (tagged_body_word T n _ _ orig et _ (node_word KPolygon)). cbn [dispatch]. rewrite <- app_assoc.
        rewrite (polygon_read l o (tag_written c o) flagsXY (ordinate_text c o) rest (opens_tagged o) (inv_tag_written c o) Hw Hlen (fun x Hin => proj1 (Hsm x Hin))).
        rewrite mix_check_lift. reflexivity.
      + (* CURVEPOLYGON *)
        unfold curvepolygon_text. cbn [app]. rewrite (tagged_body_word T n _ _ orig et _ (node_word KCurvePolygon)). cbn [dispatch]. rewrite <- app_assoc.
        rewrite (curvepolygon_read l o (tag_written c o) flagsXY (ordinate_text c o) rest (opens_tagged o) (inv_tag_written c o) Hw Hlen (fun x Hin => proj1 (Hsm x Hin))).
        rewrite mix_check_lift. reflexivity.
      + (* MULTIPOINT *)
        cbn [app]. rewrite (tagged_body_word T n _ _ orig et _ (node_word KMultiPoint)). cbn [dispatch]. rewrite <- app_assoc.
        cbn [wf] in Hw.
        assert (forall x, In x l -> exists d cs, x = GLeaf KPoint d cs /\ (List.length cs <= 1)%nat /\ multipoint_member o x = sequence_text o d cs /\
                                               forall det, e_point o x det = e_seq o KPoint d cs det) as Hpt.
        { intros x Hin. pose proof (forallb_In _ _ _ _ Hw Hin) as Hx. destruct x as [[] d cs | kk m]; try discriminate Hx.
          apply Nat.leb_le in Hx. exists d, cs. destruct cs as [|p [|q cs]]; [| |cbn in Hx; lia]; repeat split; try reflexivity; cbn; lia. }
        assert (read_multipoint n flagsXY (ordinate_text c o ++ list_text (multipoint_member o) l ++ rest) =
                read_list KMultiPoint (read_leaf KPoint n) n flagsXY (ordinate_text c o ++ list_text (multipoint_member o) l ++ rest)) as ->.
        { unfold read_multipoint, list_text. destruct l as [|x l]; [cbn [app]; rewrite (proj1 (opener_tagged c o rest)); reflexivity|].
          cbn [app]. rewrite (proj2 (opener_tagged c o _)). rewrite sep_by_cons.
          destruct (Hpt x (or_introl eq_refl)) as (d & cs & -> & _ & Em & _). rewrite Em.
          destruct cs; reflexivity. }
        rewrite (list_read KMultiPoint (read_leaf KPoint n) (multipoint_member o) (e_point o) l o rest Hlen).
        * rewrite mix_check_lift. reflexivity.
        * intros x det r Hin Hi. destruct (Hpt x Hin) as (d & cs & -> & Hl1 & Em & Ee). rewrite Em, Ee.
          rewrite bare_read; [reflexivity | assumption | pose proof (proj1 (Hsm _ Hin)) as Hx; cbn [gsize] in Hx; lia | intros _; assumption].
        * intros x det g d1 Hin Hi Ex. destruct (Hpt x Hin) as (d & cs & -> & _ & _ & Ee). rewrite Ee in Ex. eapply e_seq_inv; eassumption.
      + (* MULTILINESTRING *)
        cbn [app]. rewrite (tagged_body_word T n _ _ orig et _ (node_word KMultiLineString)). cbn [dispatch]. rewrite <- app_assoc.
        cbn [wf] in Hw.
        rewrite (list_read KMultiLineString (read_leaf KLineString n) (curve_text c o) (e_line c o) l o rest Hlen).
        * rewrite mix_check_lift. reflexivity.
        * intros x det r Hin Hi. pose proof (forallb_In _ _ _ _ Hw Hin) as Hx. destruct x as [[] d cs | kk m]; try discriminate Hx.
          cbn [curve_text simple_curve_text e_line].
          rewrite bare_read; [reflexivity | assumption | pose proof (proj1 (Hsm _ Hin)) as Hy; cbn [gsize] in Hy; lia | discriminate].
        * intros x det g d1 Hin Hi Ex. destruct x as [[] d cs | kk m]; cbn [e_line] in Ex; try discriminate. eapply e_seq_inv; eassumption.
      + (* MULTIPOLYGON *)
        cbn [app]. rewrite (tagged_body_word T n _ _ orig et _ (node_word KMultiPolygon)). cbn [dispatch]. rewrite <- app_assoc.
        cbn [wf] in Hw.
        rewrite (list_read KMultiPolygon (read_polygon n) (multisurface_member c o) (e_polygon_member o) l o rest Hlen).
        * rewrite mix_check_lift. reflexivity.
        * intros x det r Hin Hi. pose proof (forallb_In _ _ _ _ Hw Hin) as Hx. destruct x as [kk d cs | [] m]; try discriminate Hx.
          cbn [multisurface_member e_polygon_member]. pose proof (proj1 (Hsm _ Hin)) as Hy. rewrite gsize_node in Hy.
          apply (polygon_read m o det (st o det) [] r); try assumption; [apply opens_plain | lia |].
          intros y Hiny. pose proof (sum_sizes_In m y Hiny). lia.
        * intros x det g d1 Hin Hi Ex. destruct x as [kk d cs | [] m]; cbn [e_polygon_member] in Ex; try discriminate. eapply e_polygon_body_inv; eassumption.
      + (* MULTICURVE *)
        cbn [app]. rewrite (tagged_body_word T n _ _ orig et _ (node_word KMultiCurve)). cbn [dispatch]. rewrite <- app_assoc.
        cbn [wf] in Hw.
        rewrite (list_read KMultiCurve (read_curve T n) (curve_text c o) (e_curve c o) l o rest Hlen).
        * rewrite mix_check_lift. reflexivity.
        * intros x det r Hin Hi. apply curve_read; [assumption | eapply cp_ring_member; eassumption | apply (Hsm x Hin)].
        * intros x det g d1 Hin Hi Ex. eapply e_curve_inv; eassumption.
      + (* MULTISURFACE *)
        cbn [app]. rewrite (tagged_body_word T n _ _ orig et _ (node_word KMultiSurface)). cbn [dispatch]. rewrite <- app_assoc.
        cbn [wf] in Hw.
        rewrite (list_read KMultiSurface (read_surface T n) (multisurface_member c o) (e_surface c o) l o rest Hlen).
        * rewrite mix_check_lift. reflexivity.
        * intros x det r Hin Hi. apply surface_read; [assumption | exact (forallb_In _ _ _ _ Hw Hin) | apply (Hsm x Hin)].
        * intros x det g d1 Hin Hi Ex. eapply e_surface_inv; eassumption.
      + (* GEOMETRYCOLLECTION *)
        cbn [app]. rewrite (tagged_body_word T n _ _ orig et _ (node_word KCollection)). cbn [dispatch].
        cbn [wf] in Hw.
        set (f := fun x => tagged_text_o c (out_ordinates c x) x).
        set (E := fun x det => e_inner o (expect_o c (out_ordinates c x) x) det).
        assert ((ordinate_text c o ++ match l with [] => [W "EMPTY"] | _ :: _ => TL :: (fix members (l0 : list geom) : list token :=
                   match l0 with [] => [] | [x] => tagged_text_o c (out_ordinates c x) x | x :: (_ :: _) as t => tagged_text_o c (out_ordinates c x) x ++ TC :: members t end) l ++ [TR] end) ++ rest
                = ordinate_text c o ++ list_text f l ++ rest) as ->.
        { rewrite <- app_assoc. f_equal. unfold list_text. destruct l; [reflexivity|]. rewrite collection_members_text. reflexivity. }
        rewrite (list_read KCollection (read_member T) f E l o rest Hlen).
        * rewrite mix_check_lift. cbn [expect_o]. fold E.
          destruct (collection_members_expect o (tag_written c o) l) as [C1 C2]. fold E in C1, C2. rewrite C1.
          unfold e_list, fin. destruct (thread E l (tag_written c o)) as [[l' d1]|] eqn:Et; [|reflexivity].
          rewrite (C2 l' d1 eq_refl). reflexivity.
        * intros x det r Hin Hi. unfold read_member, f, E.
          rewrite (inner_T x (out_ordinates c x) o det None r (forallb_In _ _ _ _ Hw Hin) (proj1 (Hsm x Hin))).
          destruct (e_inner o (expect_o c (out_ordinates c x) x) det) as [[g' d1]|] eqn:Ei; [|reflexivity].
          rewrite (e_inner_det _ _ _ _ _ Ei). reflexivity.
        * intros x det g d1 Hin Hi Ex. unfold E in Ex. rewrite (e_inner_det _ _ _ _ _ Ex). assumption.
  Qed.
End Level.

(* ------------------------------------------------------------------ all levels *)
Theorem tagged_ok : forall c n g o orig et rest, wf g = true -> (gsize g <= n)%nat ->
  tagged n orig et (tagged_text_o c o g ++ rest) = check orig (expect_o c o g) rest.
Proof.
  intros c n. induction n as [|n IH]; intros g o orig et rest Hw Hs.
  - pose proof (gsize_pos g). lia.
  - cbn [tagged]. apply (level_ok c (tagged n) n); try assumption.
    intros Hn1 orig' e rest'. destruct n; [lia|]. cbn [tagged]. rewrite tagged_body_empty. destruct e; reflexivity.
Qed.

(* ------------------------------------------------------------------ fuel: three units per token suffice *)
Lemma tail_by_len : forall X (f : X -> list token) l, (List.length l <= List.length (tail_by f l))%nat.
Proof.
  intros X f l. unfold tail_by. induction l as [|x l IH]; [cbn; lia|].
  cbn [flat_map]. rewrite app_length. cbn [List.length]. lia.
Qed.

Lemma sequence_text_len : forall o d cs, (S (List.length cs) <= 3 * List.length (sequence_text o d cs))%nat.
Proof.
  intros o d cs. unfold sequence_text. destruct cs as [|p cs]; [cbn; lia|].
  cbn [List.length]. rewrite app_length, sep_by_cons, app_length. cbn [List.length].
  pose proof (tail_by_len _ (coord_tokens o d) cs).
  assert (2 <= List.length (coord_tokens o d p))%nat by (unfold coord_tokens; rewrite !app_length; cbn [List.length]; lia). lia.
Qed.

Lemma tail_by_weight : forall X (f : X -> list token) (w : X -> nat) l,
  (forall x, In x l -> (w x <= 3 * List.length (f x))%nat) ->
  (List.length l + fold_right (fun x a => (w x + a)%nat) 0%nat l <= 3 * List.length (tail_by f l))%nat.
Proof.
  intros X f w l. unfold tail_by. induction l as [|x l IH]; intros H; [cbn; lia|].
  cbn [flat_map fold_right]. rewrite app_length. cbn [List.length].
  specialize (IH (fun z Hz => H z (or_intror Hz))). pose proof (H x (or_introl eq_refl)). lia.
Qed.

Lemma sep_by_len : forall X (f : X -> list token) (w : X -> nat) l,
  (forall x, In x l -> (w x <= 3 * List.length (f x))%nat /\ (1 <= List.length (f x))%nat) ->
  (List.length l + fold_right (fun x a => (w x + a)%nat) 0%nat l <= 3 * List.length (sep_by f l) + 2)%nat.
Proof.
  intros X f w l H. destruct l as [|x l]; [cbn; lia|].
  rewrite sep_by_cons, app_length. cbn [List.length fold_right].
  pose proof (tail_by_weight X f w l (fun z Hz => proj1 (H z (or_intror Hz)))).
  destruct (H x (or_introl eq_refl)). lia.
Qed.

Lemma fold_sizes : forall l, fold_right (fun x a => (gsize x + a)%nat) 0%nat l = sum_sizes l.
Proof. induction l as [|x l IH]; cbn [fold_right sum_sizes]; congruence. Qed.

Lemma list_text_len : forall (f : geom -> list token) l,
  (forall x, In x l -> (gsize x <= 3 * List.length (f x))%nat /\ (1 <= List.length (f x))%nat) ->
  (S (List.length l + sum_sizes l) <= 3 * List.length (list_text f l))%nat.
Proof.
  intros f l H. unfold list_text. destruct l as [|x l]; [cbn; lia|].
  pose proof (sep_by_len geom f gsize (x :: l) H) as L. rewrite fold_sizes in L.
  cbn [List.length] in *. rewrite app_length. cbn [List.length]. lia.
Qed.

Lemma simple_text_len : forall c o x, nonempty_simple x = true ->
  (gsize x <= 3 * List.length (simple_curve_text c o x))%nat /\ (1 <= List.length (simple_curve_text c o x))%nat.
Proof.
  intros c o x H. destruct x as [[] d [|p cs] | k l]; try discriminate H; cbn [simple_curve_text gsize].
  - pose proof (sequence_text_len o d (p :: cs)). destruct (sequence_text o d (p :: cs)); cbn [List.length] in *; lia.
  - unfold leaf_tagged. cbn [List.length]. rewrite app_length. pose proof (sequence_text_len o d (p :: cs)). cbn [List.length] in *. lia.
Qed.

Lemma compound_text_len : forall c o l, forallb nonempty_simple l = true ->
  (gsize (GNode KCompoundCurve l) <= 3 * List.length (compound_text c o (GNode KCompoundCurve l) l))%nat /\
  (2 <= List.length (compound_text c o (GNode KCompoundCurve l) l))%nat.
Proof.
  intros c o l H. rewrite gsize_node. unfold compound_text.
  rewrite (proj1 (compound_as_list c l o H)). cbn [List.length]. rewrite app_length.
  pose proof (list_text_len (simple_curve_text c o) l (fun x Hin => simple_text_len c o x (forallb_In _ _ _ _ H Hin))) as L.
  assert (1 <= List.length (list_text (simple_curve_text c o) l))%nat by (unfold list_text; destruct l; cbn; lia). lia.
Qed.

Lemma curve_text_len : forall c o x, curve_member_ok x = true ->
  (gsize x <= 3 * List.length (curve_text c o x))%nat /\ (1 <= List.length (curve_text c o x))%nat.
Proof.
  intros c o x H. destruct x as [k d cs | k l].
  - destruct k; try discriminate H; cbn [curve_text simple_curve_text gsize];
      try (pose proof (sequence_text_len o d cs); destruct (sequence_text o d cs) eqn:E; [unfold sequence_text in E; destruct cs; discriminate | cbn [List.length] in *; lia]).
    unfold leaf_tagged. cbn [List.length]. rewrite app_length. pose proof (sequence_text_len o d cs). lia.
  - destruct k; try discriminate H. cbn [curve_text]. pose proof (compound_text_len c o l H). lia.
Qed.

Lemma polygon_text_len : forall c o l, wf (GNode KPolygon l) = true ->
  (gsize (GNode KPolygon l) <= 3 * List.length (surface_text c o (GNode KPolygon l) l))%nat /\
  (1 <= List.length (surface_text c o (GNode KPolygon l) l))%nat.
Proof.
  intros c o l Hw. rewrite gsize_node. unfold surface_text. cbn [wf] in Hw. destruct l as [|s0 holes]; [discriminate|].
  apply andb_prop in Hw. destruct Hw as [Hr He].
  destruct (isEmpty (GNode KPolygon (s0 :: holes))) eqn:Em.
  - cbn [isEmpty] in Em. rewrite Em in He. cbn [negb orb] in He. destruct holes; [|discriminate].
    destruct s0 as [k d [|p cs] | k m]; try discriminate Em; try discriminate Hr. cbn. lia.
  - cbn [List.length]. rewrite app_length. cbn [List.length].
    pose proof (sep_by_len geom (curve_text c o) gsize (s0 :: holes)) as L. rewrite fold_sizes in L.
    assert (forall x, In x (s0 :: holes) -> (gsize x <= 3 * List.length (curve_text c o x))%nat /\ (1 <= List.length (curve_text c o x))%nat) as Hx.
    { intros x Hin. apply curve_text_len. pose proof (forallb_In _ _ _ _ Hr Hin) as Hy. destruct x as [[] d cs | k m]; try discriminate Hy; reflexivity. }
    specialize (L Hx). cbn [List.length] in *. lia.
Qed.

Lemma curvepolygon_text_len : forall c o l, wf (GNode KCurvePolygon l) = true ->
  (gsize (GNode KCurvePolygon l) <= 3 * List.length (curvepolygon_text c o (GNode KCurvePolygon l) l))%nat /\
  (2 <= List.length (curvepolygon_text c o (GNode KCurvePolygon l) l))%nat.
Proof.
  intros c o l Hw. rewrite gsize_node. unfold curvepolygon_text, surface_text. cbn [List.length]. rewrite app_length.
  destruct (isEmpty (GNode KCurvePolygon l)) eqn:Em.
  - cbn [wf] in Hw. destruct l as [|s0 t]; [discriminate|].
    assert (isEmpty s0 = true) as Es by exact Em.
    destruct s0 as [[] d [|p cs] | k m]; destruct t; try discriminate Hw; try discriminate Es; try (cbn; lia);
      (rewrite Es in Hw; discriminate Hw).
  - assert (l <> [] /\ cp_rings_ok l = true) as [Hne Hrings].
    { cbn [wf] in Hw. destruct l as [|s0 t]; [discriminate|]. split; [discriminate|].
      destruct s0 as [[] d [|p cs] | k m]; destruct t; try (apply andb_prop in Hw; destruct Hw as [_ Hw]; exact Hw); try discriminate Hw;
        cbn [isEmpty] in Em; try discriminate Em. }
    cbn [List.length]. rewrite app_length. cbn [List.length].
    pose proof (sep_by_len geom (curve_text c o) gsize l (fun x Hin => curve_text_len c o x (cp_ring_member l x Hrings Hin))) as L. rewrite fold_sizes in L. lia.
Qed.

Lemma tagged_text_len_n : forall c n g o, (gsize g <= n)%nat -> wf g = true ->
  (gsize g <= 3 * List.length (tagged_text_o c o g))%nat /\ (2 <= List.length (tagged_text_o c o g))%nat.
Proof.
  intros c n. induction n as [|n IH]; intros g o Hs Hw; [pose proof (gsize_pos g); lia|].
  destruct g as [k d cs | k l].
  - cbn [tagged_text_o gsize]. unfold leaf_tagged. cbn [List.length]. rewrite app_length.
    pose proof (sequence_text_len o d cs). assert (1 <= List.length (sequence_text o d cs))%nat by (unfold sequence_text; destruct cs; cbn; lia). lia.
  - assert (forall (f : geom -> list token), (forall x, In x l -> (gsize x <= 3 * List.length (f x))%nat /\ (1 <= List.length (f x))%nat) ->
              forall name, (gsize (GNode k l) <= 3 * List.length (W name :: ordinate_text c o ++ list_text f l))%nat /\
                           (2 <= List.length (W name :: ordinate_text c o ++ list_text f l))%nat) as Hlist.
    { intros f Hf name. rewrite gsize_node. cbn [List.length]. rewrite app_length. pose proof (list_text_len f l Hf).
      assert (1 <= List.length (list_text f l))%nat by (unfold list_text; destruct l; cbn; lia). lia. }
    destruct k; cbn [tagged_text_o]; cbn [wf] in Hw.
    + apply compound_text_len. exact Hw.
    + pose proof (polygon_text_len c o l Hw). cbn [List.length]. rewrite app_length. lia.
    + apply curvepolygon_text_len. exact Hw.
    + apply Hlist. intros x Hin. pose proof (forallb_In _ _ _ _ Hw Hin) as Hx. destruct x as [[] d cs | kk m]; try discriminate Hx.
      apply Nat.leb_le in Hx. destruct cs as [|p [|q cs]]; [cbn; lia | | cbn in Hx; lia].
      cbn [multipoint_member gsize List.length]. rewrite app_length. cbn [List.length]. lia.
    + apply Hlist. intros x Hin. apply curve_text_len. pose proof (forallb_In _ _ _ _ Hw Hin) as Hx. destruct x as [[] d cs | kk m]; try discriminate Hx; reflexivity.
    + apply Hlist. intros x Hin. pose proof (forallb_In _ _ _ _ Hw Hin) as Hx. destruct x as [kk d cs | [] m]; try discriminate Hx.
      cbn [multisurface_member]. apply polygon_text_len. exact Hx.
    + apply Hlist. intros x Hin. apply curve_text_len. eapply cp_ring_member; eassumption.
    + apply Hlist. intros x Hin. pose proof (forallb_In _ _ _ _ Hw Hin) as Hx. destruct x as [kk d cs | [] m]; try discriminate Hx; cbn [multisurface_member].
      * apply polygon_text_len. exact Hx.
      * pose proof (curvepolygon_text_len c o m Hx). lia.
    + assert (match l with [] => [W "EMPTY"] | _ :: _ => TL :: (fix members (l0 : list geom) : list token :=
                 match l0 with [] => [] | [x] => tagged_text_o c (out_ordinates c x) x | x :: (_ :: _) as t => tagged_text_o c (out_ordinates c x) x ++ TC :: members t end) l ++ [TR] end
              = list_text (fun x => tagged_text_o c (out_ordinates c x) x) l) as ->.
      { unfold list_text. destruct l; [reflexivity|]. rewrite collection_members_text. reflexivity. }
      apply Hlist. intros x Hin.
      assert (gsize x <= n)%nat by (rewrite gsize_node in Hs; pose proof (sum_sizes_In l x Hin); pose proof (gsize_pos x); lia).
      destruct (IH x (out_ordinates c x) H (forallb_In _ _ _ _ Hw Hin)). lia.
Qed.

Lemma print_tokens_fuel : forall c g, wf g = true -> (gsize g <= 3 * List.length (print_tokens c g))%nat.
Proof. intros c g Hw. apply (tagged_text_len_n c (gsize g) g (out_ordinates c g) (le_n _) Hw). Qed.

(* ------------------------------------------------------------------ the round trip *)
Theorem parse_print : forall c g, wf g = true -> parse (print_tokens c g) = expect c g.
Proof.
  intros c g Hw. unfold parse, parse_fuel, print_tokens, tagged_text, expect, expect_tagged.
  pose proof (tagged_ok c (3 * List.length (tagged_text_o c (out_ordinates c g) g)) g (out_ordinates c g) flagsXY None [] Hw (print_tokens_fuel c g Hw)) as H.
  rewrite app_nil_r in H. rewrite H. unfold check. destruct (expect_o c (out_ordinates c g) g) as [[g' v]|]; reflexivity.
Qed.
