(* C10 — GeoJSON writer / reader as mappings between geometry trees and an abstract JSON tree: executable definitions only.
   M  json_encode   GeoJSONWriter::encodeGeometry (output dimension 3, the default; there is no C API setter)
   M  json_decode   GeoJSONReader::readGeometry
   nlohmann's dump / parse (text <-> tree, number formatting) is NOT modelled; the tie compares the tree the real writer's
   text denotes with json_encode, and requires every number token to denote exactly the written double. *)
From Coq Require Import ZArith List Ascii String Bool.
From GeosV.C10 Require Import NumDefs WktDefs.
Import ListNotations.
Local Open Scope Z_scope.

Inductive json := JNull | JNum (a : Z) | JStr (s : string) | JArr (l : list json) | JObj (l : list (string * json)).

Definition is_nan_bits (b : Z) : bool := ((b / 2 ^ 52) mod 2048 =? 2047) && negb (b mod 2 ^ 52 =? 0).
Definition is_finite_bits (b : Z) : bool := negb ((b / 2 ^ 52) mod 2048 =? 2047).

(* nlohmann::json::dump writes a non-finite double as null *)
Definition jnum (a : Z) : json := if is_finite_bits a then JNum a else JNull.

(* GeoJSONWriter::convertCoordinate on a Coordinate (x, y, z) read from a sequence: z is NaN when the sequence has none *)
Definition jcoord (d : dims) (p : coord) : json :=
  let z := if dz d then cz p else nan_bits in
  if is_nan_bits z then JArr [jnum (cx p); jnum (cy p)] else JArr [jnum (cx p); jnum (cy p); jnum z].

Definition jseq (g : geom) : json := match g with GLeaf _ d cs => JArr (map (jcoord d) cs) | GNode _ _ => JArr [] end.
Definition jrings (g : geom) : json := match g with GNode _ l => JArr (map jseq l) | GLeaf _ _ _ => JArr [] end.

Fixpoint has_curved (g : geom) : bool :=
  match g with GLeaf KCircularString _ _ => true | GLeaf _ _ _ => false | GNode _ l => existsb has_curved l end.

Definition jobj (ty : string) (key : string) (v : json) : json := JObj [("type"%string, JStr ty); (key, v)].

(* encodeGeometry: the if-chain has no branch for CompoundCurve / CurvePolygon / MultiCurve / MultiSurface, so for those
   (reachable when they contain no circular arc) the json value is left as it was: null at top level, {} inside a collection *)
Fixpoint jenc (top : bool) (g : geom) : json :=
  match g with
  | GLeaf KPoint d cs => jobj "Point" "coordinates" (match cs with [] => JArr [] | p :: _ => jcoord d p end)
  | GLeaf _ d cs => jobj "LineString" "coordinates" (jseq g)
  | GNode KPolygon l => jobj "Polygon" "coordinates" (jrings g)
  | GNode KMultiPoint l =>
      jobj "MultiPoint" "coordinates"
           (JArr (flat_map (fun x => match x with GLeaf _ d (p :: _) => [jcoord d p] | _ => [] end) l))   (* getCoordinates() skips empty points *)
  | GNode KMultiLineString l => jobj "MultiLineString" "coordinates" (JArr (map jseq l))
  | GNode KMultiPolygon l => jobj "MultiPolygon" "coordinates" (JArr (map jrings l))
  | GNode KCollection l => jobj "GeometryCollection" "geometries" (JArr (map (jenc false) l))
  | GNode _ _ => if top then JNull else JObj []
  end.

(* a CompoundCurve / CurvePolygon / MultiCurve / MultiSurface node anywhere: encodeGeometry throws UnsupportedOperationException *)
Fixpoint has_curve_family (g : geom) : bool :=
  match g with
  | GLeaf _ _ _ => false
  | GNode KCompoundCurve _ | GNode KCurvePolygon _ | GNode KMultiCurve _ | GNode KMultiSurface _ => true
  | GNode _ l => existsb has_curve_family l
  end.

(* None: ensureNoCurvedComponents or encodeGeometry throws, nothing is written *)
Definition json_encode (g : geom) : option json := if has_curved g || has_curve_family g then None else Some (jenc true g).

(* ---- reader *)
Fixpoint lookup (k : string) (l : list (string * json)) : option json :=
  match l with [] => None | (k', v) :: t => if String.eqb k k' then Some v else lookup k t end.

Definition get_doubles (j : json) : option (list Z) :=          (* get<std::vector<double>>() *)
  match j with
  | JArr l => fold_right (fun x acc => match x, acc with JNum a, Some r => Some (a :: r) | _, _ => None end) (Some []) l
  | _ => None
  end.

(* readCoordinate: 2 or 3 numbers *)
Definition read_coordinate (v : list Z) : option coord :=
  match v with
  | [x; y] => Some (mkc x y nan_bits nan_bits)
  | [x; y; z] => Some (mkc x y z nan_bits)
  | _ => None
  end.

Definition all_some {X} (l : list (option X)) : option (list X) :=
  fold_right (fun x acc => match x, acc with Some a, Some r => Some (a :: r) | _, _ => None end) (Some []) l.

(* a coordinate list: has_z = some entry has more than two numbers *)
Definition read_seq (k : leafkind) (j : json) : option geom :=
  match j with
  | JArr l =>
      match all_some (map get_doubles l) with
      | Some vs =>
          let has_z := existsb (fun v => (2 <? List.length v)%nat) vs in
          match all_some (map read_coordinate vs) with
          | Some cs => Some (GLeaf k (mkdims has_z false) cs)
          | None => None
          end
      | None => None
      end
  | _ => None
  end.

(* Point(const Coordinate&): the sequence reports Z iff the z it holds is not NaN *)
Definition point_of (c : coord) : geom := GLeaf KPoint (mkdims (negb (is_nan_bits (cz c))) false) [c].

Definition read_rings (j : json) : option geom :=
  match j with
  | JArr l =>
      match all_some (map (read_seq KLinearRing) l) with
      | Some [] => Some (GNode KPolygon [empty_ring XY])
      | Some rs => Some (GNode KPolygon rs)
      | None => None
      end
  | _ => None
  end.

Fixpoint jdec (fuel : nat) (j : json) : option geom :=
  match fuel with
  | O => None
  | S f =>
      match j with
      | JObj kv =>
          match lookup "type" kv with
          | Some (JStr ty) =>
              let coords := lookup "coordinates" kv in
              if String.eqb ty "Point" then
                match coords with
                | Some c => match get_doubles c with
                            | Some [] => Some (GLeaf KPoint XY [])
                            | Some v => match read_coordinate v with Some p => Some (point_of p) | None => None end
                            | None => None
                            end
                | None => None
                end
              else if String.eqb ty "LineString" then match coords with Some c => read_seq KLineString c | None => None end
              else if String.eqb ty "Polygon" then match coords with Some c => read_rings c | None => None end
              else if String.eqb ty "MultiPoint" then
                match coords with
                | Some (JArr l) =>
                    match all_some (map get_doubles l) with
                    | Some vs => match all_some (map read_coordinate vs) with
                                 | Some cs => Some (GNode KMultiPoint (map point_of cs))
                                 | None => None
                                 end
                    | None => None
                    end
                | _ => None
                end
              else if String.eqb ty "MultiLineString" then
                match coords with
                | Some (JArr l) => match all_some (map (read_seq KLineString) l) with Some ls => Some (GNode KMultiLineString ls) | None => None end
                | _ => None
                end
              else if String.eqb ty "MultiPolygon" then
                match coords with
                | Some (JArr l) => match all_some (map read_rings l) with Some ps => Some (GNode KMultiPolygon ps) | None => None end
                | _ => None
                end
              else if String.eqb ty "GeometryCollection" then
                match lookup "geometries" kv with
                | Some (JArr l) => match all_some (map (jdec f) l) with Some gs => Some (GNode KCollection gs) | None => None end
                | _ => None
                end
              else None        (* Feature / FeatureCollection are not produced by writeGeometry; anything else: Unknown geometry type *)
          | _ => None
          end
      | _ => None
      end
  end.

Fixpoint jdepth (j : json) : nat :=
  match j with
  | JArr l => S (fold_right (fun x a => Nat.max (jdepth x) a) 0%nat l)
  | JObj l => S (fold_right (fun x a => Nat.max (jdepth (snd x)) a) 0%nat l)
  | _ => 1%nat
  end.

Definition json_decode (j : json) : option geom := jdec (S (jdepth j)) j.

(* what writing then reading gives; None = nothing written, or the written text is rejected by the reader *)
Definition json_roundtrip (g : geom) : option geom :=
  match json_encode g with Some j => json_decode j | None => None end.
