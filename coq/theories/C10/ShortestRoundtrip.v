(* C10 — shortest_roundtrip: reading back what GEOS_printDouble prints (all shortest digits kept) gives the same double. *)
From Coq Require Import ZArith List Ascii String Bool Lia SpecFloat.
From Flocq Require Import Core BinarySingleNaN.
From GeosV.C10 Require Import NumDefs NumProofs ShortestProofs RoundInterval.
Import ListNotations.
Local Open Scope Z_scope.

Lemma digits2_of_range : forall (m : positive) d, 1 <= d -> 2 ^ (d - 1) <= Zpos m < 2 ^ d -> Zpos (digits2_pos m) = d.
Proof.
  intros m d Hd Hm. rewrite Zpos_digits2_pos. apply Zdigits_unique. rewrite Z.abs_eq by lia. exact Hm.
Qed.

(* a decoded finite non-zero double is a valid binary64 number, and the `closer` flag is the one of the rounding-interval theory *)
Lemma decode_bounded : forall bits s m2 e2 c, decode bits = DFin s m2 e2 c ->
  exists m, m2 = Zpos m /\ bounded 53 1024 m e2 = true /\ c = closer m e2.
Proof.
  intros bits s m2 e2 c. unfold decode.
  pose proof (Z.mod_pos_bound (bits / 2 ^ 52) 2048 ltac:(lia)) as He.
  pose proof (Z.mod_pos_bound bits (2 ^ 52) ltac:(lia)) as Hm.
  set (expo := (bits / 2 ^ 52) mod 2048) in *. set (mant := bits mod 2 ^ 52) in *. clearbody expo mant.
  change (2 ^ 52) with 4503599627370496 in *.
  destruct (Z.eqb_spec expo 2047); [destruct (mant =? 0); discriminate|].
  destruct (Z.eqb_spec expo 0) as [E0 | N0].
  - destruct (Z.eqb_spec mant 0); [discriminate|]. intro E.
    assert (mant = m2) as <- by exact (f_equal (fun d => match d with DFin _ m _ _ => m | _ => mant end) E).
    assert (-1074 = e2) as <- by exact (f_equal (fun d => match d with DFin _ _ e _ => e | _ => -1074 end) E).
    assert (false = c) as <- by exact (f_equal (fun d => match d with DFin _ _ _ c => c | _ => false end) E).
    destruct mant as [|m|m]; try lia. exists m. split; [reflexivity|]. split.
    + unfold bounded, canonical_mantissa. apply andb_true_intro. split; [|reflexivity]. apply Zeq_is_eq_bool.
      set (d := Zpos (digits2_pos m)).
      assert (1 <= d <= 52) as Hd.
      { unfold d. rewrite Zpos_digits2_pos. pose proof (Zdigits_gt_0 radix2 (Zpos m) ltac:(discriminate)).
        split; [lia|]. apply Zdigits_le_Zpower. rewrite Z.abs_eq by lia. change (Zpower radix2 52) with 4503599627370496. lia. }
      unfold SpecFloat.fexp, SpecFloat.emin. lia.
    + unfold closer. destruct (Z.eqb_spec (Zpos m) (2 ^ 52)) as [E52|]; [change (2 ^ 52) with 4503599627370496 in E52; lia | reflexivity].
  - intro E.
    assert (4503599627370496 + mant = m2) as <- by exact (f_equal (fun d => match d with DFin _ m _ _ => m | _ => 4503599627370496 + mant end) E).
    assert (expo - 1075 = e2) as <- by exact (f_equal (fun d => match d with DFin _ _ e _ => e | _ => expo - 1075 end) E).
    assert (((mant =? 0) && (1 <? expo)) = c) as <- by exact (f_equal (fun d => match d with DFin _ _ _ c => c | _ => (mant =? 0) && (1 <? expo) end) E).
    destruct (4503599627370496 + mant) as [|m|m] eqn:Em; try lia. exists m. split; [reflexivity|]. split.
    + unfold bounded, canonical_mantissa. apply andb_true_intro. split; [|apply Zle_bool_true; lia]. apply Zeq_is_eq_bool.
      rewrite (digits2_of_range m 53) by (change (2 ^ (53 - 1)) with 4503599627370496; change (2 ^ 53) with 9007199254740992; lia).
      unfold SpecFloat.fexp, SpecFloat.emin. lia.
    + unfold closer. change (2 ^ 52) with 4503599627370496.
      destruct (Z.eqb_spec mant 0), (Z.eqb_spec (Zpos m) 4503599627370496), (Z.ltb_spec 1 expo), (Z.ltb_spec (-1074) (expo - 1075)); cbn [andb]; try reflexivity; lia.
Qed.

(* shortest_roundtrip, up to the range of the digits the search returns.
   Full statement:  forall bits prec, decode bits is finite and non-zero -> prec keeps every shortest digit ->
                    strtod_spec (print_trimmed bits prec) = Some (of_dbl (decode bits)).
   Proved here under the hypothesis  1 <= k < 10^17 /\ -400 <= g <= 380  on (k, g) = shortest m2 e2 c ("17 significant digits always
   suffice, and the decimal exponent of a double is within [-340, 308]"): a property of the search function of the MODEL alone
   (NumDefs.shortest), not of the code; it is evaluated on every double the tie generates (field `digits_in_range` of the evidence).
   Everything else is proved: the digits lie in the rounding interval (shortest_in_interval), the printed string denotes exactly these
   digits (fixed_layout_value / exp_layout_value), the number language reads it (parse_number), and correct rounding (SpecFloat.SFdiv, shown
   to be round-to-nearest-even by Flocq's Bdiv_correct_aux) maps every real of the rounding interval back to the double (RoundInterval). *)
Theorem shortest_roundtrip_partial : forall bits prec s m2 e2 c k g,
  decode bits = DFin s m2 e2 c -> shortest m2 e2 c = (k, g) -> 1 <= k < 10 ^ 17 -> -400 <= g <= 380 ->
  0 <= prec -> - g <= prec -> decimalLength17 k - 1 <= prec ->
  strtod_spec (print_trimmed bits prec) = Some (of_dbl (decode bits)).
Proof.
  intros bits prec s m2 e2 c k g Hd Hsh Hk Hg Hp Hfix Hexp.
  destruct (ShortestProofs.shortest_roundtrip_partial bits prec s m2 e2 c k g Hd Hsh Hk ltac:(lia) Hp Hfix Hexp) as (N & E & P1 & _ & P3 & P4 & P5).
  destruct (decode_bounded bits s m2 e2 c Hd) as (m & -> & Hb & ->).
  unfold strtod_spec. rewrite P1. rewrite Hd. cbn [of_dbl]. f_equal.
  apply round_dec_in_interval; try assumption; try lia.
Qed.
