(* C10 — the WKT writer grammar as a printer and the WKT reader restricted to that language: executable definitions only.

   M  print_tokens / render   WKTWriter::appendGeometryTaggedText and everything below it (all 13 types, Z/M/ZM tags,
                              old-3D, EMPTY at any level, output dimension 2..4), unformatted output
   M  tokenize                StringTokenizer::nextToken (delimiters "\n\r\t() ,", a token is a number iff strtod eats it all)
   M  parse                   WKTReader::readGeometryTaggedText and everything below it, with the OrdinateSet flags
                              (hasZ, hasM, changesAllowed) threaded exactly as the C++ passes them by reference
   S  expect                  what re-reading is supposed to give: same tree, same emptiness, dimensionality by the
                              writer's dropping rule
   Ordinates are opaque here: a 64-bit pattern (Z); the number strings come from a printer passed to `render`. *)
From Coq Require Import ZArith List Ascii String Bool.
From GeosV.C10 Require Import NumDefs.
Import ListNotations.
Local Open Scope Z_scope.

(* ------------------------------------------------------------------ geometry trees *)
Record dims := mkdims { dz : bool; dm : bool }.
Definition XY := mkdims false false.
Definition dims_eqb (a b : dims) : bool := Bool.eqb (dz a) (dz b) && Bool.eqb (dm a) (dm b).

Record coord := mkc { cx : Z; cy : Z; cz : Z; cm : Z }.
Definition nan_bits : Z := 0x7FF8000000000000.

Inductive leafkind := KPoint | KLineString | KLinearRing | KCircularString.
Inductive nodekind := KCompoundCurve | KPolygon | KCurvePolygon | KMultiPoint | KMultiLineString | KMultiPolygon
                    | KMultiCurve | KMultiSurface | KCollection.

Inductive geom :=
| GLeaf (k : leafkind) (d : dims) (cs : list coord)    (* a coordinate sequence with its Z/M flags; [] = EMPTY *)
| GNode (k : nodekind) (l : list geom).                 (* Polygon/CurvePolygon: shell :: holes *)

Definition leafkind_eqb (a b : leafkind) : bool :=
  match a, b with KPoint, KPoint | KLineString, KLineString | KLinearRing, KLinearRing | KCircularString, KCircularString => true | _, _ => false end.

Fixpoint hasZ (g : geom) : bool := match g with GLeaf _ d _ => dz d | GNode _ l => existsb hasZ l end.
Fixpoint hasM (g : geom) : bool := match g with GLeaf _ d _ => dm d | GNode _ l => existsb hasM l end.

(* Geometry::isEmpty: a surface is empty iff its shell is; compound curves and collections iff all members are *)
Fixpoint isEmpty (g : geom) : bool :=
  match g with
  | GLeaf _ _ cs => match cs with [] => true | _ => false end
  | GNode KPolygon l | GNode KCurvePolygon l => match l with s :: _ => isEmpty s | [] => true end
  | GNode _ l => forallb isEmpty l
  end.

(* ------------------------------------------------------------------ writer configuration *)
Record cfg := mkcfg { c_dim : Z; c_old3d : bool }.     (* output dimension 2..4, old-3D flag; trim / precision only affect numbers *)

(* while (outputOrdinates.size() > defaultOutputDimension) { ZM -> Z ; otherwise -> XY } *)
Definition clip (c : cfg) (o : dims) : dims :=
  let size o := 2 + (if dz o then 1 else 0) + (if dm o then 1 else 0) in
  let step o := if dz o && dm o then mkdims true false else XY in
  let o1 := if c_dim c <? size o then step o else o in
  if c_dim c <? size o1 then step o1 else o1.

(* removeEmptyDimensions = false: the declared dimensionality of the geometry being tagged *)
Definition out_ordinates (c : cfg) (g : geom) : dims := clip c (mkdims (hasZ g) (hasM g)).

(* ------------------------------------------------------------------ tokens *)
Inductive token := TWord (w : str) | TNum (a : Z) | TL | TR | TC.

Definition W (x : string) : token := TWord (lit x).

(* WKTWriter::appendOrdinateText *)
Definition ordinate_text (c : cfg) (o : dims) : list token :=
  if c_old3d c then (if negb (dz o) && dm o then [W "M"] else [])
  else match dz o, dm o with
       | true, true => [W "ZM"] | true, false => [W "Z"] | false, true => [W "M"] | false, false => []
       end.

Definition coord_tokens (o : dims) (d : dims) (p : coord) : list token :=
  (* seq.getAt(i, c) fills the ordinates the sequence lacks with NaN *)
  [TNum (cx p); TNum (cy p)]
  ++ (if dz o then [TNum (if dz d then cz p else nan_bits)] else [])
  ++ (if dm o then [TNum (if dm d then cm p else nan_bits)] else []).

Fixpoint sep_by {X} (f : X -> list token) (l : list X) : list token :=
  match l with
  | [] => []
  | [x] => f x
  | x :: t => f x ++ TC :: sep_by f t
  end.

(* appendSequenceText *)
Definition sequence_text (o : dims) (d : dims) (cs : list coord) : list token :=
  match cs with [] => [W "EMPTY"] | _ => TL :: sep_by (coord_tokens o d) cs ++ [TR] end.

Definition leaf_name (k : leafkind) : string :=
  match k with KPoint => "POINT" | KLineString => "LINESTRING" | KLinearRing => "LINEARRING" | KCircularString => "CIRCULARSTRING" end.
Definition node_name (k : nodekind) : string :=
  match k with
  | KCompoundCurve => "COMPOUNDCURVE" | KPolygon => "POLYGON" | KCurvePolygon => "CURVEPOLYGON" | KMultiPoint => "MULTIPOINT"
  | KMultiLineString => "MULTILINESTRING" | KMultiPolygon => "MULTIPOLYGON" | KMultiCurve => "MULTICURVE"
  | KMultiSurface => "MULTISURFACE" | KCollection => "GEOMETRYCOLLECTION"
  end.

Definition leaf_tagged (c : cfg) (o : dims) (k : leafkind) (d : dims) (cs : list coord) : list token :=
  W (leaf_name k) :: ordinate_text c o ++ sequence_text o d cs.

(* appendSimpleCurveText: a circular string carries its tag (with the ENCLOSING element's ordinates), a line string / linear ring is bare *)
Definition simple_curve_text (c : cfg) (o : dims) (g : geom) : list token :=
  match g with
  | GLeaf KCircularString d cs => leaf_tagged c o KCircularString d cs
  | GLeaf _ d cs => sequence_text o d cs
  | GNode _ _ => []        (* not a simple curve: excluded by well-formedness *)
  end.

(* appendCompoundCurveTaggedText *)
Definition compound_text (c : cfg) (o : dims) (g : geom) (l : list geom) : list token :=
  W "COMPOUNDCURVE" :: ordinate_text c o ++
  (if isEmpty g then [W "EMPTY"] else TL :: sep_by (simple_curve_text c o) l ++ [TR]).

(* appendCurveText *)
Definition curve_text (c : cfg) (o : dims) (g : geom) : list token :=
  match g with
  | GNode KCompoundCurve l => compound_text c o g l
  | _ => simple_curve_text c o g
  end.

(* appendSurfaceText *)
Definition surface_text (c : cfg) (o : dims) (g : geom) (rings : list geom) : list token :=
  if isEmpty g then [W "EMPTY"] else TL :: sep_by (curve_text c o) rings ++ [TR].

Definition curvepolygon_text (c : cfg) (o : dims) (g : geom) (rings : list geom) : list token :=
  W "CURVEPOLYGON" :: ordinate_text c o ++ surface_text c o g rings.

(* appendMultiPointText *)
Definition multipoint_member (o : dims) (g : geom) : list token :=
  match g with
  | GLeaf _ d (p :: _) => TL :: coord_tokens o d p ++ [TR]
  | _ => [W "EMPTY"]
  end.

(* appendMultiSurfaceText member: a Polygon is bare, anything else is written tagged *)
Definition multisurface_member (c : cfg) (o : dims) (g : geom) : list token :=
  match g with
  | GNode KPolygon rings => surface_text c o g rings
  | GNode KCurvePolygon rings => curvepolygon_text c o g rings
  | _ => []
  end.

Definition list_text {X} (f : X -> list token) (l : list X) : list token :=
  match l with [] => [W "EMPTY"] | _ => TL :: sep_by f l ++ [TR] end.

(* appendGeometryTaggedText with the output ordinates o already decided: everything below one tagged element is written
   with that element's ordinates; only the members of a GEOMETRYCOLLECTION decide their own *)
Fixpoint tagged_text_o (c : cfg) (o : dims) (g : geom) : list token :=
  match g with
  | GLeaf k d cs => leaf_tagged c o k d cs
  | GNode KCompoundCurve l => compound_text c o g l
  | GNode KPolygon l => W "POLYGON" :: ordinate_text c o ++ surface_text c o g l
  | GNode KCurvePolygon l => curvepolygon_text c o g l
  | GNode KMultiPoint l => W "MULTIPOINT" :: ordinate_text c o ++ list_text (multipoint_member o) l
  | GNode KMultiLineString l => W "MULTILINESTRING" :: ordinate_text c o ++ list_text (curve_text c o) l
  | GNode KMultiCurve l => W "MULTICURVE" :: ordinate_text c o ++ list_text (curve_text c o) l
  | GNode KMultiPolygon l => W "MULTIPOLYGON" :: ordinate_text c o ++ list_text (multisurface_member c o) l
  | GNode KMultiSurface l => W "MULTISURFACE" :: ordinate_text c o ++ list_text (multisurface_member c o) l
  | GNode KCollection l =>
      W "GEOMETRYCOLLECTION" :: ordinate_text c o ++
      match l with
      | [] => [W "EMPTY"]
      | _ => TL :: (fix members (l : list geom) : list token :=
                      match l with
                      | [] => []
                      | [x] => tagged_text_o c (out_ordinates c x) x
                      | x :: t => tagged_text_o c (out_ordinates c x) x ++ TC :: members t
                      end) l ++ [TR]
      end
  end.

Definition tagged_text (c : cfg) (g : geom) : list token := tagged_text_o c (out_ordinates c g) g.
Definition print_tokens := tagged_text.

(* the characters the writer puts between tokens: "TYPE ", "Z ", "(", ")", ", ", one blank between ordinates, EMPTY bare *)
Fixpoint render (num : Z -> str) (ts : list token) : str :=
  match ts with
  | [] => []
  | TWord w :: r => (if list_eq_dec ascii_dec w (lit "EMPTY") then w else w ++ [" "%char]) ++ render num r
  | TNum a :: r => num a ++ (match r with TNum _ :: _ => [" "%char] | _ => [] end) ++ render num r
  | TL :: r => "("%char :: render num r
  | TR :: r => ")"%char :: render num r
  | TC :: r => ","%char :: " "%char :: render num r
  end.

(* ------------------------------------------------------------------ tokenizer *)
Definition is_space (c : ascii) : bool :=
  let n := nat_of_ascii c in (n =? 10)%nat || (n =? 13)%nat || (n =? 9)%nat || (n =? 32)%nat.

Fixpoint span_token (s : str) : str * str :=
  match s with
  | c :: t => if is_delim c then ([], s) else let '(a, b) := span_token t in (c :: a, b)
  | [] => ([], [])
  end.

(* the value of a number token is kept as the binary64 pattern strtod_spec gives (NaN canonical) *)
Definition classify (w : str) : token :=
  match strtod_spec w with Some f => TNum (to_bits f) | None => TWord w end.

Fixpoint tokenize (fuel : nat) (s : str) : list token :=
  match fuel with
  | O => []
  | S f =>
      match s with
      | [] => []
      | c :: t =>
          if Ascii.eqb c "("%char then TL :: tokenize f t
          else if Ascii.eqb c ")"%char then TR :: tokenize f t
          else if Ascii.eqb c ","%char then TC :: tokenize f t
          else if is_space c then tokenize f t
          else let '(w, r) := span_token s in classify w :: tokenize f r
      end
  end.

(* ------------------------------------------------------------------ reader *)
Record flags := mkf { fz : bool; fm : bool; fchg : bool }.   (* OrdinateSet: hasZ, hasM, changesAllowed *)
Definition flagsXY := mkf false false true.
Definition fdims (f : flags) : dims := mkdims (fz f) (fm f).

Definition upper (c : ascii) : ascii :=
  let n := nat_of_ascii c in if (97 <=? n)%nat && (n <=? 122)%nat then ascii_of_nat (n - 32) else c.
Definition str_eqb (a : str) (b : string) : bool := if list_eq_dec ascii_dec a (lit b) then true else false.
Definition ends_with (a : str) (b : string) : bool :=
  let lb := lit b in
  (List.length lb <=? List.length a)%nat && (if list_eq_dec ascii_dec (skipn (List.length a - List.length lb) a) lb then true else false).

(* WKTReader::getNextEmptyOrOpener: optional ZM | Z | M word, then EMPTY (true) or "(" (false) *)
Definition empty_or_opener (fl : flags) (ts : list token) : option (bool * flags * list token) :=
  let finish (fl' : flags) (ts' : list token) :=
    match ts' with
    | TWord w :: r => if str_eqb (map upper w) "EMPTY" then Some (true, fl', r) else None
    | TL :: r => Some (false, fl', r)
    | _ => None
    end in
  match ts with
  | TWord w0 :: r =>
      let w := map upper w0 in
      if str_eqb w "ZM" then (if fchg fl then finish (mkf true true false) r else None)
      else if str_eqb w "Z" then
        (if fchg fl then
           match r with
           | TWord w1 :: _ => if str_eqb (map upper w1) "M" then None else finish (mkf true (fm fl) false) r
           | _ => finish (mkf true (fm fl) false) r
           end
         else None)
      else if str_eqb w "M" then (if fchg fl then finish (mkf (fz fl) true false) r else None)
      else finish fl ts
  | _ => finish fl ts
  end.

Definition is_num_next (ts : list token) : bool := match ts with TNum _ :: _ => true | _ => false end.
Definition next_num (ts : list token) : option (Z * list token) := match ts with TNum a :: r => Some (a, r) | _ => None end.

(* WKTReader::getPreciseCoordinate; `prev` is the CoordinateXYZM variable the C++ reuses between coordinates *)
Definition precise_coordinate (fl : flags) (prev : coord) (ts : list token) : option (coord * flags * list token) :=
  match next_num ts with
  | Some (x, t1) =>
      match next_num t1 with
      | Some (y, t2) =>
          let fl1 := if fchg fl && is_num_next t2 then mkf true (fm fl) (fchg fl) else fl in
          match (if fz fl1 then next_num t2 else Some (cz prev, t2)) with
          | Some (z, t3) =>
              let fl2 := if fchg fl1 && fz fl1 && is_num_next t3 then mkf (fz fl1) true (fchg fl1) else fl1 in
              match (if fm fl2 then next_num t3 else Some (cm prev, t3)) with
              | Some (m, t4) => Some (mkc x y z m, mkf (fz fl2) (fm fl2) false, t4)
              | None => None
              end
          | None => None
          end
      | None => None
      end
  | None => None
  end.

(* "," coordinate ... ")" *)
Fixpoint more_coordinates (fuel : nat) (fl : flags) (prev : coord) (ts : list token) : option (list coord * flags * list token) :=
  match fuel with
  | O => None
  | S f =>
      match ts with
      | TR :: r => Some ([], fl, r)
      | TC :: r =>
          match precise_coordinate fl prev r with
          | Some (p, fl1, r1) =>
              match more_coordinates f fl1 p r1 with
              | Some (ps, fl2, r2) => Some (p :: ps, fl2, r2)
              | None => None
              end
          | None => None
          end
      | _ => None
      end
  end.

(* WKTReader::getCoordinates: the sequence is created with the flags as they are after the first coordinate *)
Definition get_coordinates (fuel : nat) (fl : flags) (ts : list token) : option (dims * list coord * flags * list token) :=
  match empty_or_opener fl ts with
  | Some (true, fl1, r) => Some (fdims fl1, [], fl1, r)
  | Some (false, fl1, r) =>
      match precise_coordinate fl1 (mkc 0 0 nan_bits nan_bits) r with
      | Some (p, fl2, r1) =>
          match more_coordinates fuel fl2 p r1 with
          | Some (ps, fl3, r2) => Some (fdims fl2, p :: ps, fl3, r2)
          | None => None
          end
      | None => None
      end
  | None => None
  end.

Definition read_leaf (k : leafkind) (fuel : nat) (fl : flags) (ts : list token) : option (geom * flags * list token) :=
  match get_coordinates fuel fl ts with
  | Some (d, cs, fl1, r) =>
      match k, cs with
      | KPoint, _ :: _ :: _ => None      (* Point coordinate list must contain a single element *)
      | _, _ => Some (GLeaf k d cs, fl1, r)
      end
  | None => None
  end.

(* WKTReader::isTypeName / readOrdinateFlags *)
Definition is_type_name (w : str) (name : string) : bool :=
  str_eqb w name || str_eqb w (name ++ "Z") || str_eqb w (name ++ "M") || str_eqb w (name ++ "ZM").
Definition read_ordinate_flags (w : str) : flags :=
  if ends_with w "ZM" then mkf true true false
  else if ends_with w "M" then mkf false true false
  else if ends_with w "Z" then mkf true false false
  else flagsXY.

(* item ("," item)* ")"  — the do { ... } while (nextToken == ",") loops *)
Section Items.
  Context {X : Type}.
  Variable item : flags -> list token -> option (X * flags * list token).
  Fixpoint items (fuel : nat) (fl : flags) (ts : list token) : option (list X * flags * list token) :=
    match fuel with
    | O => None
    | S f =>
        match item fl ts with
        | Some (x, fl1, r) =>
            match r with
            | TR :: r1 => Some ([x], fl1, r1)
            | TC :: r1 => match items f fl1 r1 with Some (xs, fl2, r2) => Some (x :: xs, fl2, r2) | None => None end
            | _ => None
            end
        | None => None
        end
    end.
End Items.

Definition is_curve (g : geom) : bool :=
  match g with GLeaf KPoint _ _ => false | GLeaf _ _ _ => true | GNode KCompoundCurve _ => true | _ => false end.
Definition is_simple_curve (g : geom) : bool := match g with GLeaf KPoint _ _ => false | GLeaf _ _ _ => true | _ => false end.
Definition is_surface (g : geom) : bool := match g with GNode KPolygon _ | GNode KCurvePolygon _ => true | _ => false end.

Definition empty_ring (d : dims) : geom := GLeaf KLinearRing d [].

Inductive empty_type := ELineString | EPolygon.

Definition flags_val_eqb (a b : flags) : bool := Bool.eqb (fz a) (fz b) && Bool.eqb (fm a) (fm b).

(* readPolygonText *)
Definition read_polygon (fuel : nat) (fl : flags) (ts : list token) : option (geom * flags * list token) :=
  match empty_or_opener fl ts with
  | Some (true, fl1, r) => Some (GNode KPolygon [empty_ring (fdims fl1)], fl1, r)
  | Some (false, fl1, r) =>
      match items (read_leaf KLinearRing fuel) fuel fl1 r with
      | Some (rings, fl2, r1) => Some (GNode KPolygon rings, fl2, r1)
      | None => None
      end
  | None => None
  end.

(* "TYPE EMPTY" or "TYPE ( item, ... )" for the list-like readers *)
Definition read_list (k : nodekind) (item : flags -> list token -> option (geom * flags * list token))
                     (fuel : nat) (fl : flags) (ts : list token) : option (geom * flags * list token) :=
  match empty_or_opener fl ts with
  | Some (true, fl1, r) => Some (GNode k [], fl1, r)
  | Some (false, fl1, r) =>
      match items item fuel fl1 r with
      | Some (xs, fl2, r1) => Some (GNode k xs, fl2, r1)
      | None => None
      end
  | None => None
  end.

Inductive wkt_type := TyPoint | TyLineString | TyLinearRing | TyCircularString | TyCompoundCurve | TyPolygon | TyCurvePolygon
                    | TyMultiPoint | TyMultiLineString | TyMultiCurve | TyMultiPolygon | TyMultiSurface | TyCollection.

(* the if-chain of isTypeName tests in readGeometryTaggedText *)
Definition type_of_word (w : str) : option wkt_type :=
  if is_type_name w "POINT" then Some TyPoint
  else if is_type_name w "LINESTRING" then Some TyLineString
  else if is_type_name w "LINEARRING" then Some TyLinearRing
  else if is_type_name w "CIRCULARSTRING" then Some TyCircularString
  else if is_type_name w "COMPOUNDCURVE" then Some TyCompoundCurve
  else if is_type_name w "POLYGON" then Some TyPolygon
  else if is_type_name w "CURVEPOLYGON" then Some TyCurvePolygon
  else if is_type_name w "MULTIPOINT" then Some TyMultiPoint
  else if is_type_name w "MULTILINESTRING" then Some TyMultiLineString
  else if is_type_name w "MULTICURVE" then Some TyMultiCurve
  else if is_type_name w "MULTIPOLYGON" then Some TyMultiPolygon
  else if is_type_name w "MULTISURFACE" then Some TyMultiSurface
  else if is_type_name w "GEOMETRYCOLLECTION" then Some TyCollection
  else None.

Definition tagged_fn := flags -> option empty_type -> list token -> option (geom * list token).
Definition reader := flags -> list token -> option (geom * flags * list token).

(* readCurveText: "(" starts a bare line string; otherwise a tagged geometry that must be a curve (EMPTY = empty line string) *)
Definition read_curve (T : tagged_fn) (f : nat) : reader := fun fl ts =>
  match ts with
  | TL :: _ => read_leaf KLineString f fl ts
  | _ => match T fl (Some ELineString) ts with
         | Some (g, r1) => if is_curve g then Some (g, fl, r1) else None
         | None => None
         end
  end.

(* readSurfaceText *)
Definition read_surface (T : tagged_fn) (f : nat) : reader := fun fl ts =>
  match ts with
  | TL :: _ => read_polygon f fl ts
  | _ => match T fl (Some EPolygon) ts with
         | Some (g, r1) => if is_surface g then Some (g, fl, r1) else None
         | None => None
         end
  end.

(* the member loop of readCompoundCurveText: a curve that must be a SimpleCurve *)
Definition read_simple (T : tagged_fn) (f : nat) : reader := fun fl ts =>
  match read_curve T f fl ts with
  | Some (g, fl1, r1) => if is_simple_curve g then Some (g, fl1, r1) else None
  | None => None
  end.

(* the member loop of readGeometryCollectionText: the collection's flags are only looked at *)
Definition read_member (T : tagged_fn) : reader := fun fl ts =>
  match T fl None ts with Some (g, r1) => Some (g, fl, r1) | None => None end.

Definition read_curvepolygon (T : tagged_fn) (f : nat) : reader := fun nf r =>
  match empty_or_opener nf r with
  | Some (true, fl1, r1) => Some (GNode KCurvePolygon [empty_ring (fdims fl1)], fl1, r1)
  | Some (false, fl1, r1) =>
      match items (read_curve T f) f fl1 r1 with
      | Some (xs, fl2, r2) => Some (GNode KCurvePolygon xs, fl2, r2)
      | None => None
      end
  | None => None
  end.

(* only the "MULTIPOINT ((x y), EMPTY)" form the writer produces; the flat "MULTIPOINT (x y, ...)" form is outside this model *)
Definition read_multipoint (f : nat) : reader := fun nf r =>
  match empty_or_opener nf r with
  | Some (false, _, TNum _ :: _) => None
  | _ => read_list KMultiPoint (read_leaf KPoint f) f nf r
  end.

(* the read<Type>Text function selected by the type word; nf is the fresh OrdinateSet (newFlags) *)
Definition dispatch (T : tagged_fn) (f : nat) (ty : wkt_type) : reader :=
  match ty with
  | TyPoint => read_leaf KPoint f
  | TyLineString => read_leaf KLineString f
  | TyLinearRing => read_leaf KLinearRing f
  | TyCircularString => read_leaf KCircularString f
  | TyCompoundCurve => read_list KCompoundCurve (read_simple T f) f
  | TyPolygon => read_polygon f
  | TyCurvePolygon => read_curvepolygon T f
  | TyMultiPoint => read_multipoint f
  | TyMultiLineString => read_list KMultiLineString (read_leaf KLineString f) f
  | TyMultiCurve => read_list KMultiCurve (read_curve T f) f
  | TyMultiPolygon => read_list KMultiPolygon (read_polygon f) f
  | TyMultiSurface => read_list KMultiSurface (read_surface T f) f
  | TyCollection => read_list KCollection (read_member T) f
  end.

(* readGeometryTaggedText (tokenizer, ordinateFlags, emptyType), one level: T reads the nested tagged geometries.
   The caller's flags `orig` are only compared with the fresh ones after reading ("Cannot mix dimensionality in a geometry"). *)
Definition tagged_body (T : tagged_fn) (f : nat) : tagged_fn := fun orig et ts =>
  match ts with
  | TWord w0 :: r =>
      let w := map upper w0 in
      if str_eqb w "EMPTY" then
        match et with
        | Some ELineString => Some (GLeaf KLineString (fdims orig) [], r)
        | Some EPolygon => Some (GNode KPolygon [empty_ring (fdims orig)], r)
        | None => None
        end
      else
        match type_of_word w with
        | Some ty =>
            match dispatch T f ty (read_ordinate_flags w) r with
            | Some (g, nf', r') => if negb (fchg orig) && negb (flags_val_eqb nf' orig) then None else Some (g, r')
            | None => None
            end
        | None => None
        end
  | _ => None
  end.

(* one unit of fuel per nesting level; the same amount bounds every list *)
Fixpoint tagged (fuel : nat) : tagged_fn :=
  match fuel with
  | O => fun _ _ _ => None
  | S f => tagged_body (tagged f) f
  end.

(* WKTReader::read: one tagged geometry, then end of input *)
Definition parse_fuel (n : nat) (ts : list token) : option geom :=
  match tagged n flagsXY None ts with
  | Some (g, []) => Some g
  | _ => None
  end.

(* fuel: three units per token are enough for every text the writer produces (WktProofs.print_tokens_fuel) *)
Definition parse (ts : list token) : option geom := parse_fuel (3 * List.length ts) ts.

Definition parse_string (s : str) : option geom := parse (tokenize (S (List.length s)) s).

(* ------------------------------------------------------------------ S: what re-reading is supposed to give *)
(* The reader state inside one tagged element whose written ordinates are o is either "determined" (flags = o, no
   changes allowed) or "open" (flags = XY, changes allowed; possible only when no Z/M word was written). *)
Definition tag_written (c : cfg) (o : dims) : bool :=
  if c_old3d c then negb (dz o) && dm o else dz o || dm o.

Definition keep (o d : dims) (p : coord) : coord :=
  mkc (cx p) (cy p) (if dz o then (if dz d then cz p else nan_bits) else nan_bits)
                    (if dm o then (if dm d then cm p else nan_bits) else nan_bits).

Definition cur (o : dims) (det : bool) : dims := if det then o else XY.

Definition e_seq (o : dims) (k : leafkind) (d : dims) (cs : list coord) (det : bool) : option (geom * bool) :=
  match cs with
  | [] => Some (GLeaf k (cur o det) [], det)
  | _ => Some (GLeaf k o (map (keep o d) cs), true)
  end.

Section Thread.
  Context {X Y S : Type}.
  Variable E : X -> S -> option (Y * S).
  Fixpoint thread (l : list X) (s : S) : option (list Y * S) :=
    match l with
    | [] => Some ([], s)
    | x :: t => match E x s with
                | Some (y, s1) => match thread t s1 with Some (ys, s2) => Some (y :: ys, s2) | None => None end
                | None => None
                end
    end.
End Thread.

(* an element that carries its own tag inside a tagged element written with the same ordinates o: it is read with fresh
   flags and leaves the enclosing flags alone; r is its own result with the value v its flags end with; it is rejected when
   the enclosing flags are determined and differ from v *)
Definition e_inner (o : dims) (r : option (geom * dims)) (det : bool) : option (geom * bool) :=
  match r with
  | Some (g, v) => if det && negb (dims_eqb v o) then None else Some (g, det)
  | None => None
  end.

Definition fin (o : dims) (r : option (geom * bool)) : option (geom * dims) :=
  match r with Some (g', d1) => Some (g', cur o d1) | None => None end.

Definition e_simple (c : cfg) (o : dims) (g : geom) (det : bool) : option (geom * bool) :=
  match g with
  | GLeaf KCircularString d cs => e_inner o (fin o (e_seq o KCircularString d cs (tag_written c o))) det
  | GLeaf KPoint _ _ => None
  | GLeaf _ d cs => e_seq o KLineString d cs det
  | GNode _ _ => None
  end.

Definition e_compound_body (c : cfg) (o : dims) (g : geom) (l : list geom) (det0 : bool) : option (geom * bool) :=
  if isEmpty g then Some (GNode KCompoundCurve [], det0)
  else match thread (e_simple c o) l det0 with Some (l', d1) => Some (GNode KCompoundCurve l', d1) | None => None end.

Definition e_curve (c : cfg) (o : dims) (g : geom) (det : bool) : option (geom * bool) :=
  match g with
  | GNode KCompoundCurve l => e_inner o (fin o (e_compound_body c o g l (tag_written c o))) det
  | _ => e_simple c o g det
  end.

Definition e_ring (o : dims) (g : geom) (det : bool) : option (geom * bool) :=
  match g with GLeaf _ d cs => e_seq o KLinearRing d cs det | _ => None end.

Definition e_polygon_body (o : dims) (g : geom) (l : list geom) (det : bool) : option (geom * bool) :=
  if isEmpty g then Some (GNode KPolygon [empty_ring (cur o det)], det)
  else match thread (e_ring o) l det with Some (l', d1) => Some (GNode KPolygon l', d1) | None => None end.

Definition e_curvepolygon_body (c : cfg) (o : dims) (g : geom) (l : list geom) (det : bool) : option (geom * bool) :=
  if isEmpty g then Some (GNode KCurvePolygon [empty_ring (cur o det)], det)
  else match thread (e_curve c o) l det with Some (l', d1) => Some (GNode KCurvePolygon l', d1) | None => None end.

Definition e_surface (c : cfg) (o : dims) (g : geom) (det : bool) : option (geom * bool) :=
  match g with
  | GNode KPolygon l => e_polygon_body o g l det
  | GNode KCurvePolygon l => e_inner o (fin o (e_curvepolygon_body c o g l (tag_written c o))) det
  | _ => None
  end.

Definition e_point (o : dims) (g : geom) (det : bool) : option (geom * bool) :=
  match g with
  | GLeaf _ d (p :: _) => e_seq o KPoint d [p] det
  | GLeaf _ d [] => e_seq o KPoint d [] det
  | _ => None
  end.

Definition e_line (c : cfg) (o : dims) (g : geom) (det : bool) : option (geom * bool) :=
  match g with GLeaf KLineString d cs => e_seq o KLineString d cs det | _ => None end.

Definition e_polygon_member (o : dims) (g : geom) (det : bool) : option (geom * bool) :=
  match g with GNode KPolygon l => e_polygon_body o g l det | _ => None end.

Definition e_list {X} (k : nodekind) (E : X -> bool -> option (geom * bool)) (l : list X) (det : bool) : option (geom * bool) :=
  match thread E l det with Some (l', d1) => Some (GNode k l', d1) | None => None end.

(* result of re-reading the text of a tagged element written with ordinates o, with the value its flags end up with;
   None = the reader rejects the text *)
Fixpoint expect_o (c : cfg) (o : dims) (g : geom) : option (geom * dims) :=
  let d0 := tag_written c o in
  match g with
  | GLeaf k d cs => fin o (e_seq o k d cs d0)
  | GNode KCompoundCurve l => fin o (e_compound_body c o g l d0)
  | GNode KPolygon l => fin o (e_polygon_body o g l d0)
  | GNode KCurvePolygon l => fin o (e_curvepolygon_body c o g l d0)
  | GNode KMultiPoint l => fin o (e_list KMultiPoint (e_point o) l d0)
  | GNode KMultiLineString l => fin o (e_list KMultiLineString (e_line c o) l d0)
  | GNode KMultiCurve l => fin o (e_list KMultiCurve (e_curve c o) l d0)
  | GNode KMultiPolygon l => fin o (e_list KMultiPolygon (e_polygon_member o) l d0)
  | GNode KMultiSurface l => fin o (e_list KMultiSurface (e_surface c o) l d0)
  | GNode KCollection l =>
      (* every member is a tagged element of its own; it must end with the collection's flag value if that is determined *)
      match (fix members (l : list geom) : option (list geom) :=
               match l with
               | [] => Some []
               | x :: t =>
                   match expect_o c (out_ordinates c x) x with
                   | Some (x', v) =>
                       if d0 && negb (dims_eqb v o) then None
                       else match members t with Some t' => Some (x' :: t') | None => None end
                   | None => None
                   end
               end) l with
      | Some l' => Some (GNode KCollection l', cur o d0)
      | None => None
      end
  end.

Definition expect_tagged (c : cfg) (g : geom) : option (geom * dims) := expect_o c (out_ordinates c g) g.

Definition expect (c : cfg) (g : geom) : option geom :=
  match expect_tagged c g with Some (g', _) => Some g' | None => None end.

(* ------------------------------------------------------------------ well-formed inputs (what GEOS lets one construct) *)
Definition is_leaf_of (k : leafkind) (g : geom) : bool := match g with GLeaf k' _ _ => leafkind_eqb k k' | _ => false end.
Definition nonempty_simple (g : geom) : bool :=
  match g with GLeaf KLineString _ (_ :: _) | GLeaf KCircularString _ (_ :: _) => true | _ => false end.

Fixpoint wf (g : geom) : bool :=
  match g with
  | GLeaf KPoint _ cs => (List.length cs <=? 1)%nat
  | GLeaf _ _ _ => true
  | GNode KCompoundCurve l => forallb nonempty_simple l
  | GNode KPolygon l =>
      match l with
      | [] => false
      | s :: holes => forallb (is_leaf_of KLinearRing) l && (negb (isEmpty s) || match holes with [] => true | _ => false end)
      end
  | GNode KCurvePolygon l =>
      match l with
      | [] => false
      | [GLeaf KLinearRing _ []] => true
      | s :: _ => negb (isEmpty s) &&
                  forallb (fun x => match x with
                                    | GLeaf KLineString _ _ | GLeaf KCircularString _ _ => true
                                    | GNode KCompoundCurve m => forallb nonempty_simple m
                                    | _ => false end) l
      end
  | GNode KMultiPoint l => forallb (fun x => match x with GLeaf KPoint _ cs => (List.length cs <=? 1)%nat | _ => false end) l
  | GNode KMultiLineString l => forallb (is_leaf_of KLineString) l
  | GNode KMultiCurve l =>
      forallb (fun x => match x with
                        | GLeaf KLineString _ _ | GLeaf KCircularString _ _ => true
                        | GNode KCompoundCurve m => forallb nonempty_simple m
                        | _ => false end) l
  | GNode KMultiPolygon l => forallb (fun x => match x with GNode KPolygon _ => wf x | _ => false end) l
  | GNode KMultiSurface l => forallb (fun x => match x with GNode KPolygon _ | GNode KCurvePolygon _ => wf x | _ => false end) l
  | GNode KCollection l => forallb wf l
  end.

Definition valid_cfg (c : cfg) : bool := (2 <=? c_dim c) && (c_dim c <=? 4).

Fixpoint gsize (g : geom) : nat :=
  match g with
  | GLeaf _ _ cs => S (List.length cs)
  | GNode _ l => S (List.length l + fold_right (fun x a => gsize x + a) 0 l)%nat
  end.
