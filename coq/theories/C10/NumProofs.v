(* C10 — lemmas about decimal digit strings, the fixed layout (to_chars_fixed) and the number language. *)
From Coq Require Import ZArith List Ascii String Bool Lia Znumtheory.
From GeosV.C10 Require Import NumDefs.
Import ListNotations.
Local Open Scope Z_scope.
Arguments declen : simpl never.
Arguments digits_of : simpl never.

(* ------------------------------------------------------------------ arithmetic helpers *)
Lemma div_eucl_pair : forall a b, Z.div_eucl a b = (a / b, a mod b).
Proof. intros. unfold Z.div, Z.modulo. destruct (Z.div_eucl a b). reflexivity. Qed.

Lemma pow10_pos : forall k, 0 <= k -> 0 < 10 ^ k.
Proof. intros. apply Z.pow_pos_nonneg; lia. Qed.

Lemma pow10_S : forall k, 0 <= k -> 10 ^ (k + 1) = 10 * 10 ^ k.
Proof. intros. rewrite Z.pow_add_r by lia. change (10 ^ 1) with 10. lia. Qed.

Lemma pow10_split : forall a b, 0 <= a -> 0 <= b -> 10 ^ (a + b) = 10 ^ a * 10 ^ b.
Proof. intros. apply Z.pow_add_r; lia. Qed.

Lemma pow10_le : forall a b, 0 <= a <= b -> 10 ^ a <= 10 ^ b.
Proof. intros. apply Z.pow_le_mono_r; lia. Qed.

Lemma pow10_lt : forall a b, 0 <= a < b -> 10 ^ a < 10 ^ b.
Proof. intros. apply Z.pow_lt_mono_r; lia. Qed.

(* ------------------------------------------------------------------ digits *)
Lemma digit_spec : forall d, 0 <= d < 10 -> is_digit (digit d) = true /\ digit_val (digit d) = d.
Proof.
  intros d H.
  assert (d = 0 \/ d = 1 \/ d = 2 \/ d = 3 \/ d = 4 \/ d = 5 \/ d = 6 \/ d = 7 \/ d = 8 \/ d = 9) as C by lia.
  destruct C as [-> | [-> | [-> | [-> | [-> | [-> | [-> | [-> | [-> | ->]]]]]]]]]; split; reflexivity.
Qed.

Definition all_digits (s : str) : Prop := Forall (fun c => is_digit c = true) s.

Lemma digs_length : forall k n, List.length (digs k n) = k.
Proof.
  induction k; intros; cbn [digs]; [reflexivity|].
  rewrite div_eucl_pair. rewrite app_length, IHk. cbn. lia.
Qed.

Lemma digs_all_digits : forall k n, all_digits (digs k n).
Proof.
  induction k; intros; cbn [digs]; [constructor|].
  rewrite div_eucl_pair. apply Forall_app. split; [apply IHk|].
  constructor; [|constructor]. apply digit_spec. apply Z.mod_pos_bound. lia.
Qed.

Lemma fold_dec_acc : forall l a, fold_left (fun a c => 10 * a + digit_val c) l a = a * 10 ^ Z.of_nat (List.length l) + dec_value l.
Proof.
  unfold dec_value. induction l; intros a0; cbn [fold_left List.length].
  - change (10 ^ Z.of_nat 0) with 1. lia.
  - rewrite IHl. rewrite (IHl (10 * 0 + digit_val a)).
    rewrite Nat2Z.inj_succ, <- Z.add_1_r, pow10_S by lia. ring.
Qed.

Lemma dec_value_app : forall a b, dec_value (a ++ b) = dec_value a * 10 ^ Z.of_nat (List.length b) + dec_value b.
Proof.
  intros. unfold dec_value at 1. rewrite fold_left_app. rewrite fold_dec_acc. reflexivity.
Qed.

Lemma dec_value_single : forall d, 0 <= d < 10 -> dec_value [digit d] = d.
Proof. intros. unfold dec_value. cbn [fold_left]. destruct (digit_spec d H) as [_ ->]. lia. Qed.

Lemma dec_value_digs : forall k n, 0 <= n -> dec_value (digs k n) = n mod 10 ^ Z.of_nat k.
Proof.
  induction k; intros n Hn; cbn [digs].
  - change (10 ^ Z.of_nat 0) with 1. rewrite Z.mod_1_r. reflexivity.
  - rewrite div_eucl_pair, dec_value_app. cbn [List.length]. change (10 ^ Z.of_nat 1) with 10.
    rewrite IHk by (apply Z.div_pos; lia).
    rewrite dec_value_single by (apply Z.mod_pos_bound; lia).
    rewrite Nat2Z.inj_succ, <- Z.add_1_r, pow10_S by lia.
    assert (0 < 10 ^ Z.of_nat k) by (apply pow10_pos; lia).
    rewrite Z.rem_mul_r by lia. lia.
Qed.

Lemma zeros_length : forall k, List.length (zeros k) = k.
Proof. induction k; cbn; congruence. Qed.

Lemma zeros_all_digits : forall k, all_digits (zeros k).
Proof. induction k; cbn; constructor; auto. Qed.

Lemma dec_value_zeros : forall k, dec_value (zeros k) = 0.
Proof.
  induction k; [reflexivity|]. change (zeros (S k)) with (["0"%char] ++ zeros k).
  rewrite dec_value_app, IHk. reflexivity.
Qed.

(* ------------------------------------------------------------------ declen *)
Lemma declen_aux_spec : forall fuel n, 0 <= n -> n < 10 ^ Z.of_nat (S fuel) ->
  let k := declen_aux fuel n in
  (1 <= k)%nat /\ n < 10 ^ Z.of_nat k /\ (k = 1%nat \/ 10 ^ (Z.of_nat k - 1) <= n).
Proof.
  induction fuel; intros n H0 H1; cbn [declen_aux].
  - cbn zeta. split; [lia|]. split; [exact H1|]. left; reflexivity.
  - destruct (Z.ltb_spec n 10).
    + cbn zeta. split; [lia|]. split; [change (10 ^ Z.of_nat 1) with 10; lia|]. left; reflexivity.
    + cbn zeta.
      assert (0 <= n / 10) by (apply Z.div_pos; lia).
      assert (n / 10 < 10 ^ Z.of_nat (S fuel)).
      { apply Z.div_lt_upper_bound; [lia|]. rewrite (Nat2Z.inj_succ (S fuel)), <- Z.add_1_r, pow10_S in H1 by lia. lia. }
      destruct (IHfuel (n / 10) H2 H3) as (A & B & C).
      set (k := declen_aux fuel (n / 10)) in *.
      split; [lia|]. split.
      * rewrite Nat2Z.inj_succ, <- Z.add_1_r, pow10_S by lia.
        pose proof (Z.div_mod n 10 ltac:(lia)). pose proof (Z.mod_pos_bound n 10 ltac:(lia)). lia.
      * right. replace (Z.of_nat (S k) - 1) with (Z.of_nat k) by lia.
        destruct C as [-> | C].
        -- change (10 ^ Z.of_nat 1) with 10. lia.
        -- replace (Z.of_nat k) with ((Z.of_nat k - 1) + 1) by lia. rewrite pow10_S by lia.
           pose proof (Z.div_mod n 10 ltac:(lia)). pose proof (Z.mod_pos_bound n 10 ltac:(lia)). lia.
Qed.

Definition small (n : Z) : Prop := 0 <= n < 10 ^ 1200.

Lemma declen_spec : forall n, small n ->
  (1 <= declen n)%nat /\ n < 10 ^ Z.of_nat (declen n) /\ (declen n = 1%nat \/ 10 ^ (Z.of_nat (declen n) - 1) <= n).
Proof.
  intros n [H0 H1]. unfold declen. apply declen_aux_spec; [assumption|].
  eapply Z.lt_le_trans; [exact H1|]. apply pow10_le. lia.
Qed.

Lemma declen_unique : forall n k, small n -> (1 <= k)%nat -> n < 10 ^ Z.of_nat k -> (k = 1%nat \/ 10 ^ (Z.of_nat k - 1) <= n) -> declen n = k.
Proof.
  intros n k Hs Hk Hlt Hge.
  destruct (declen_spec n Hs) as (A & B & C).
  destruct (Nat.lt_trichotomy (declen n) k) as [L | [E | G]]; [|assumption|]; exfalso.
  - destruct Hge as [-> | Hge]; [lia|].
    assert (10 ^ Z.of_nat (declen n) <= 10 ^ (Z.of_nat k - 1)) by (apply pow10_le; lia). lia.
  - destruct C as [C | C]; [lia|].
    assert (10 ^ Z.of_nat k <= 10 ^ (Z.of_nat (declen n) - 1)) by (apply pow10_le; lia). lia.
Qed.

Lemma digits_of_value : forall n, small n -> dec_value (digits_of n) = n.
Proof.
  intros n Hs. unfold digits_of. rewrite dec_value_digs by apply Hs.
  apply Z.mod_small. destruct (declen_spec n Hs) as (_ & B & _). split; [apply Hs | exact B].
Qed.

Lemma digits_of_length : forall n, List.length (digits_of n) = declen n.
Proof. intros. apply digs_length. Qed.

Lemma digits_of_all_digits : forall n, all_digits (digits_of n).
Proof. intros. apply digs_all_digits. Qed.

Lemma digits_of_nonempty : forall n, small n -> exists c t, digits_of n = c :: t /\ is_digit c = true.
Proof.
  intros n Hs. pose proof (digits_of_length n) as L. pose proof (digits_of_all_digits n) as F.
  destruct (declen_spec n Hs) as (A & _).
  destruct (digits_of n) as [|c t]; [change (List.length (@nil ascii)) with 0%nat in L; lia|].
  exists c, t. split; [reflexivity|]. inversion F; assumption.
Qed.

Lemma small_17 : forall n, 0 <= n < 10 ^ 17 -> small n.
Proof. intros n H. split; [lia|]. eapply Z.lt_le_trans; [apply H|]. apply pow10_le. lia. Qed.

Lemma declen_unique_Z : forall n k, small n -> 1 <= k -> n < 10 ^ k -> (k = 1 \/ 10 ^ (k - 1) <= n) -> Z.of_nat (declen n) = k.
Proof.
  intros n k Hs Hk Hlt Hge.
  rewrite (declen_unique n (Z.to_nat k)); try assumption; try lia.
  - rewrite Z2Nat.id by lia. assumption.
  - destruct Hge as [-> | Hge]; [left; reflexivity | right]. rewrite Z2Nat.id by lia. assumption.
Qed.

Ltac pow_norm :=
  repeat match goal with
         | |- context [10 ^ ?k] => let x := eval vm_compute in (10 ^ k) in change (10 ^ k) with x
         end.

Lemma decimalLength17_declen : forall v, 0 <= v < 10 ^ 17 -> decimalLength17 v = Z.of_nat (declen v).
Proof.
  intros v H. pose proof (small_17 v H) as Hs.
  change (10 ^ 17) with 100000000000000000 in H.
  unfold decimalLength17.
  repeat match goal with |- (if ?a <=? v then _ else _) = _ => destruct (Z.leb_spec a v) end;
  symmetry; apply declen_unique_Z; try assumption; try lia; pow_norm; lia.
Qed.

(* ------------------------------------------------------------------ rounding to `precision` decimals (the block `adapt` of to_chars_fixed) *)
Lemma declen_div10 : forall n, small n -> 10 <= n -> declen (n / 10) = (declen n - 1)%nat.
Proof.
  intros n Hs H10.
  destruct (declen_spec n Hs) as (A & B & C).
  assert (small (n / 10)) as Hs'.
  { destruct Hs. split; [apply Z.div_pos; lia|]. apply Z.div_lt_upper_bound; lia. }
  destruct C as [C | C].
  { rewrite C in B. change (10 ^ Z.of_nat 1) with 10 in B. lia. }
  assert (2 <= declen n)%nat as A2.
  { destruct (Nat.le_gt_cases 2 (declen n)); [assumption|]. replace (declen n) with 1%nat in B by lia. change (10 ^ Z.of_nat 1) with 10 in B. lia. }
  apply declen_unique; try assumption; try lia.
  - apply Z.div_lt_upper_bound; [lia|].
    replace (Z.of_nat (declen n)) with (Z.of_nat (declen n - 1) + 1) in B by lia. rewrite pow10_S in B by lia. lia.
  - destruct (Nat.eq_dec (declen n - 1) 1) as [E | NE]; [left; assumption | right].
    apply Z.div_le_lower_bound; [lia|].
    replace (Z.of_nat (declen n) - 1) with ((Z.of_nat (declen n - 1) - 1) + 1) in C by lia. rewrite pow10_S in C by lia. lia.
Qed.

Lemma strip_zeros_spec : forall fuel o e l, 0 <= o -> small o ->
  let '(o', e', l') := strip_zeros fuel o e l in
  o' * 10 ^ (e' - e) = o /\ e <= e' /\ 0 <= o' /\ small o' /\ (o = 0 -> o' = 0 /\ e' = e) /\ (0 < o -> 0 < o') /\
  (1 <= o -> l = Z.of_nat (declen o) -> l' = Z.of_nat (declen o')).
Proof.
  induction fuel; intros o e l H0 Hs; cbn [strip_zeros].
  - rewrite Z.sub_diag. change (10 ^ 0) with 1. repeat split; try lia; try apply Hs; auto.
  - destruct (Z.eqb_spec o 0) as [-> | Hne]; cbn [negb andb].
    + rewrite Z.sub_diag. change (10 ^ 0) with 1. repeat split; try lia.
    + destruct (Z.eqb_spec (o mod 10) 0) as [Hm | Hm].
      * assert (o = 10 * (o / 10)) as Ho by (pose proof (Z.div_mod o 10 ltac:(lia)); lia).
        assert (10 <= o) as H10 by lia.
        assert (small (o / 10)) as Hs' by (destruct Hs; split; [apply Z.div_pos; lia | apply Z.div_lt_upper_bound; lia]).
        specialize (IHfuel (o / 10) (e + 1) (l - 1) ltac:(apply Z.div_pos; lia) Hs').
        destruct (strip_zeros fuel (o / 10) (e + 1) (l - 1)) as [[o' e'] l'].
        destruct IHfuel as (A & B & C & D & E & F & G).
        split.
        { replace (e' - e) with ((e' - (e + 1)) + 1) by lia. rewrite pow10_S by lia. lia. }
        repeat split; try lia; try apply D.
        intros _ Hl. apply G; [lia|]. rewrite declen_div10 by assumption.
        destruct (declen_spec o Hs) as (A1 & _). lia.
      * rewrite Z.sub_diag. change (10 ^ 0) with 1. repeat split; try lia; try apply Hs; auto.
Qed.

Lemma round_half_even_bound : forall n d, 0 < d -> 2 * Z.abs (round_half_even n d * d - n) <= d.
Proof.
  intros n d Hd. unfold round_half_even. rewrite div_eucl_pair.
  pose proof (Z.div_mod n d ltac:(lia)). pose proof (Z.mod_pos_bound n d Hd).
  destruct (Z.compare_spec (2 * (n mod d)) d); [destruct (Z.even (n / d))| |]; nia.
Qed.

Lemma round_half_even_nonneg : forall n d, 0 <= n -> 0 < d -> 0 <= round_half_even n d.
Proof.
  intros n d Hn Hd. unfold round_half_even. rewrite div_eucl_pair.
  assert (0 <= n / d) by (apply Z.div_pos; lia).
  destruct (2 * (n mod d) ?= d); [destruct (Z.even (n / d))| |]; lia.
Qed.

(* what `adapt` computes: the digits rounded half-even to `precision` decimals, trailing zeros removed *)
Lemma adapt_spec : forall m e prec, 1 <= m < 10 ^ 17 -> e < 0 -> 0 <= prec ->
  let '(o', e', l') := adapt m e (decimalLength17 m) prec in
  (- e <= prec -> o' = m /\ e' = e) /\
  (prec < - e -> o' * 10 ^ (e' - e) = round_half_even m (10 ^ (- e - prec)) * 10 ^ (- e - prec)) /\
  e <= e' /\ 0 <= o' < 10 ^ 17 /\ (o' = 0 \/ l' = Z.of_nat (declen o')) /\ (prec < - e -> - prec <= e') /\
  (o' = 0 -> e' <= 0) /\ (0 < o' -> l' + e' <= decimalLength17 m + e + 1).
Proof.
  intros m e prec Hm He Hp.
  assert (small m) as Hsm by (apply small_17; lia).
  pose proof (decimalLength17_declen m ltac:(lia)) as Hl.
  destruct (declen_spec m Hsm) as (L1 & L2 & L3).
  unfold adapt. destruct (Z.ltb_spec prec (- e)) as [Hlt | Hge].
  2:{ repeat split; try lia. }
  set (dtt := - e - prec). assert (1 <= dtt) by (unfold dtt; lia).
  destruct (Z.ltb_spec (decimalLength17 m) dtt) as [Hbig | Hfit].
  - (* all digits are dropped: m < 10^olength <= 10^(dtt-1), the rounded value is 0 *)
    assert (m < 10 ^ (dtt - 1)).
    { eapply Z.lt_le_trans; [exact L2|]. apply pow10_le. lia. }
    assert (round_half_even m (10 ^ dtt) = 0) as R0.
    { unfold round_half_even. rewrite div_eucl_pair.
      assert (10 ^ dtt = 10 * 10 ^ (dtt - 1)) as E10 by (replace dtt with ((dtt - 1) + 1) at 1 by lia; apply pow10_S; lia).
      assert (0 < 10 ^ (dtt - 1)) by (apply pow10_pos; lia).
      rewrite Z.div_small, Z.mod_small by lia.
      destruct (Z.compare_spec (2 * m) (10 ^ dtt)); first [lia | reflexivity]. }
    split; [lia|]. split; [intros _; rewrite R0; lia|]. repeat split; try lia; pow_norm; lia.
  - unfold pow_10. fold dtt.
    set (D := 10 ^ dtt). assert (0 < D) by (apply pow10_pos; lia).
    assert (D = 2 * (D / 2)) as Heven.
    { unfold D. replace dtt with ((dtt - 1) + 1) by lia. rewrite pow10_S by lia.
      replace (10 * 10 ^ (dtt - 1)) with ((5 * 10 ^ (dtt - 1)) * 2) by ring. rewrite Z.div_mul by lia. ring. }
    set (q := m / D). set (r := m - q * D).
    assert (r = m mod D) as Hr by (unfold r, q; pose proof (Z.div_mod m D ltac:(lia)); lia).
    pose proof (Z.mod_pos_bound m D ltac:(lia)) as Hrb.
    assert (0 <= q) by (apply Z.div_pos; lia).
    assert (q * 10 < 10 ^ 17 /\ q * D <= m) as [Hq Hq2].
    { pose proof (Z.div_mod m D ltac:(lia)). fold q in H2.
      assert (10 <= D) by (unfold D; replace dtt with ((dtt - 1) + 1) by lia; rewrite pow10_S by lia; pose proof (pow10_pos (dtt - 1) ltac:(lia)); lia).
      split; nia. }
    (* the value selected by the C condition is round_half_even *)
    assert (round_half_even m D = if (D / 2 <? r) || ((r =? D / 2) && Z.odd q) then q + 1 else q) as HR.
    { unfold round_half_even. rewrite div_eucl_pair. fold q. rewrite <- Hr.
      destruct (Z.compare_spec (2 * r) D) as [E | L | G].
      - assert (r = D / 2) as -> by lia. rewrite Z.ltb_irrefl, Z.eqb_refl. cbn [orb andb].
        rewrite <- Z.negb_even. destruct (Z.even q); reflexivity.
      - destruct (Z.ltb_spec (D / 2) r); [lia|]. destruct (Z.eqb_spec r (D / 2)); [lia|]. reflexivity.
      - destruct (Z.ltb_spec (D / 2) r); [reflexivity | lia]. }
    (* q has olength - dtt digits unless it is 0 *)
    assert (1 <= q -> decimalLength17 m - dtt = Z.of_nat (declen q)) as Hlq.
    { intros Hq1.
      assert (1 <= decimalLength17 m - dtt) as Hge1.
      { destruct (Z.eq_dec (decimalLength17 m) dtt) as [E|NE]; [|lia].
        exfalso. assert (m < D) by (unfold D; rewrite <- E, Hl; exact L2).
        assert (q = 0) by (apply Z.div_small; lia). lia. }
      symmetry. apply declen_unique_Z; [apply small_17; pow_norm; lia | exact Hge1 | | ].
      - apply Z.div_lt_upper_bound; [lia|]. unfold D. rewrite <- pow10_split by lia.
        replace (dtt + (decimalLength17 m - dtt)) with (Z.of_nat (declen m)) by lia. exact L2.
      - destruct (Z.eq_dec (decimalLength17 m - dtt) 1) as [E1|N1]; [left; assumption | right].
        apply Z.div_le_lower_bound; [lia|]. unfold D. rewrite <- pow10_split by lia.
        destruct L3 as [L3 | L3]; [lia|].
        replace (dtt + (decimalLength17 m - dtt - 1)) with (Z.of_nat (declen m) - 1) by lia. exact L3. }
    assert (forall R l, (R = q /\ l = decimalLength17 m - dtt \/ R = q + 1 /\ l = decimalLength17 (q + 1)) -> R = round_half_even m D ->
      let '(o', e', l') := strip_zeros 20 R (e + dtt) l in
      (- e <= prec -> o' = m /\ e' = e) /\
      (prec < - e -> o' * 10 ^ (e' - e) = round_half_even m D * D) /\
      e <= e' /\ 0 <= o' < 10 ^ 17 /\ (o' = 0 \/ l' = Z.of_nat (declen o')) /\ (prec < - e -> - prec <= e') /\
      (o' = 0 -> e' <= 0) /\ (0 < o' -> l' + e' <= decimalLength17 m + e + 1)) as Hgen.
    { intros R l HRl HRR.
      assert (0 <= R < 10 ^ 17) as HRb by (destruct HRl as [[-> _] | [-> _]]; pow_norm; lia).
      pose proof (strip_zeros_spec 20 R (e + dtt) l ltac:(lia) (small_17 R HRb)) as S.
      destruct (strip_zeros 20 R (e + dtt) l) as [[o' e'] l'].
      destruct S as (S1 & S2 & S3 & S4 & S5 & S6 & S7).
      split; [lia|]. split.
      { intros _. rewrite <- HRR, <- S1. unfold D. replace (e' - e) with ((e' - (e + dtt)) + dtt) by lia. rewrite pow10_split by lia. ring. }
      split; [lia|].
      assert (o' <= R) as Hle.
      { assert (1 <= 10 ^ (e' - (e + dtt))) by (pose proof (pow10_pos (e' - (e + dtt)) ltac:(lia)); lia). nia. }
      assert (o' = 0 \/ l' = Z.of_nat (declen o')) as Hl'.
      { destruct (Z.eq_dec R 0) as [R0 | Rn]; [left; apply S5; assumption|]. right. apply S7; [lia|].
        destruct HRl as [[-> ->] | [-> ->]]; [apply Hlq; lia | apply decimalLength17_declen; pow_norm; lia]. }
      split; [lia|]. split; [exact Hl'|]. split; [intros; unfold dtt in S2; lia|]. split.
      - intros O0. destruct (Z.eq_dec R 0) as [R0 | Rn]; [destruct (S5 R0) as [_ ->]; unfold dtt; lia|].
        assert (0 < o') by (apply S6; lia). lia.
      - intros Opos. destruct Hl' as [-> | Hl']; [lia|].
        (* 10^(l'-1) <= o', o' * 10^(e' - e1) = R <= q + 1 <= 10^(olength - dtt) *)
        assert (R <= 10 ^ (decimalLength17 m - dtt)) as HRle.
        { assert (q < 10 ^ (decimalLength17 m - dtt)).
          { apply Z.div_lt_upper_bound; [lia|]. unfold D. rewrite <- pow10_split by lia.
            replace (dtt + (decimalLength17 m - dtt)) with (Z.of_nat (declen m)) by lia. exact L2. }
          destruct HRl as [[-> _] | [-> _]]; lia. }
        destruct (declen_spec o' S4) as (B1 & B2 & B3).
        assert (10 ^ (l' - 1) <= o') as Hlow.
        { rewrite Hl'. destruct B3 as [-> | B3]; [change (10 ^ (Z.of_nat 1 - 1)) with 1; lia | exact B3]. }
        assert (10 ^ (l' - 1 + (e' - (e + dtt))) <= 10 ^ (decimalLength17 m - dtt)) as Hpw.
        { rewrite pow10_split by lia. eapply Z.le_trans; [|exact HRle]. rewrite <- S1.
          apply Z.mul_le_mono_nonneg_r; [apply Z.lt_le_incl, pow10_pos; lia | exact Hlow]. }
        apply Z.pow_le_mono_r_iff in Hpw; lia. }
    destruct ((D / 2 <? r) || ((r =? D / 2) && Z.odd q)).
    + apply Hgen; [right; split; reflexivity | symmetry; exact HR].
    + apply Hgen; [left; split; reflexivity | symmetry; exact HR].
Qed.

(* ------------------------------------------------------------------ reading back what the layout emits *)
Lemma digit_not_sign : forall c t, is_digit c = true -> split_sign (c :: t) = (false, c :: t).
Proof. intros c t H. destruct c as [[] [] [] [] [] [] [] []]; try discriminate H; reflexivity. Qed.

Lemma digit_not_dot_e : forall c, is_digit c = true -> Ascii.eqb c "."%char = false /\ Ascii.eqb (lower c) "e"%char = false.
Proof. intros c H. destruct c as [[] [] [] [] [] [] [] []]; try discriminate H; split; reflexivity. Qed.

Definition stops (b : str) : Prop := match b with c :: _ => is_digit c = false | [] => True end.

Lemma span_digits_app : forall a b, all_digits a -> stops b -> span_digits (a ++ b) = (a, b).
Proof.
  induction a as [|c a IH]; intros b Ha Hb; cbn [app span_digits].
  - destruct b as [|c b]; [reflexivity|]. cbn in Hb. cbn [span_digits]. rewrite Hb. reflexivity.
  - inversion Ha; subst. rewrite H1. rewrite (IH b H2 Hb). reflexivity.
Qed.

Lemma span_digits_all : forall a, all_digits a -> span_digits a = (a, []).
Proof. intros. rewrite <- (app_nil_r a) at 1. apply span_digits_app; [assumption | exact I]. Qed.

Definition dot_part (FP : str) : str := match FP with [] => [] | _ => "."%char :: FP end.

(* the exponent suffix of the scientific layout, abstractly: e, a sign, digits *)
Definition exp_part (sg : bool) (ED : str) : str := "e"%char :: (if sg then "-"%char else "+"%char) :: ED.

Lemma parse_decimal_plain : forall neg IP FP, all_digits IP -> all_digits FP -> IP <> [] ->
  parse_decimal neg (IP ++ dot_part FP) = Some (NVdec neg (dec_value (IP ++ FP)) (- Z.of_nat (List.length FP))).
Proof.
  intros neg IP FP HI HF Hne. unfold parse_decimal.
  destruct FP as [|f FP].
  - cbn [dot_part]. rewrite app_nil_r. rewrite (span_digits_all IP HI). rewrite app_nil_r.
    destruct IP; [congruence|]. reflexivity.
  - cbn [dot_part]. rewrite (span_digits_app IP ("."%char :: f :: FP) HI) by reflexivity.
    rewrite (span_digits_all (f :: FP) HF).
    destruct IP as [|i IP]; [congruence|]. reflexivity.
Qed.

Lemma parse_decimal_exp : forall neg IP FP sg ED, all_digits IP -> all_digits FP -> IP <> [] -> all_digits ED -> ED <> [] ->
  parse_decimal neg (IP ++ dot_part FP ++ exp_part sg ED) =
  Some (NVdec neg (dec_value (IP ++ FP)) ((if sg then - dec_value ED else dec_value ED) - Z.of_nat (List.length FP))).
Proof.
  intros neg IP FP sg ED HI HF Hne HE HEne. unfold parse_decimal.
  assert (split_sign ((if sg then "-"%char else "+"%char) :: ED) = (sg, ED)) as HS by (destruct sg; reflexivity).
  destruct FP as [|f FP].
  - cbn [dot_part app]. rewrite (span_digits_app IP (exp_part sg ED) HI) by reflexivity. rewrite app_nil_r.
    destruct IP as [|i IP]; [congruence|]. cbn [app].
    unfold exp_part. change (Ascii.eqb (lower "e"%char) "e"%char) with true. cbn iota.
    rewrite HS. rewrite (span_digits_all ED HE). destruct ED; [congruence|]. cbn [app]. rewrite ?app_nil_r. reflexivity.
  - cbn [dot_part]. rewrite <- app_comm_cons. rewrite (span_digits_app IP ("."%char :: (f :: FP) ++ exp_part sg ED) HI) by reflexivity.
    rewrite (span_digits_app (f :: FP) (exp_part sg ED) HF) by reflexivity.
    destruct IP as [|i IP]; [congruence|]. cbn [app].
    unfold exp_part. change (Ascii.eqb (lower "e"%char) "e"%char) with true. cbn iota.
    rewrite HS. rewrite (span_digits_all ED HE). destruct ED; [congruence|]. cbn [app]. rewrite ?app_nil_r. reflexivity.
Qed.

Lemma parse_number_signed : forall (neg : bool) body c t, body = c :: t -> is_digit c = true ->
  parse_number ((if neg then ["-"%char] else []) ++ body) = parse_decimal neg body.
Proof.
  intros neg body c t -> Hc. unfold parse_number. destruct neg; cbn [app].
  - cbn [split_sign]. rewrite Hc. reflexivity.
  - rewrite (digit_not_sign c t Hc). rewrite Hc. reflexivity.
Qed.

(* ------------------------------------------------------------------ the value of a decimal (mantissa, exponent) pair, compared exactly *)
Definition same_val (n1 e1 n2 e2 : Z) : Prop :=
  n1 * 10 ^ (e1 - Z.min e1 e2) = n2 * 10 ^ (e2 - Z.min e1 e2).

(* what the emitted parts denote *)
Definition parts_N (p : parts) : Z :=
  if p_dec p =? 0 then p_int p * 10 ^ p_tz p
  else p_int p * 10 ^ p_tz p * 10 ^ (p_lz p + Z.of_nat (declen (p_dec p))) + p_dec p.
Definition parts_E (p : parts) : Z :=
  if p_dec p =? 0 then 0 else - (p_lz p + Z.of_nat (declen (p_dec p))).

Definition parts_ok (p : parts) : Prop :=
  0 <= p_int p < 10 ^ 17 /\ 0 <= p_dec p < 10 ^ 17 /\ 0 <= p_tz p /\ 0 <= p_lz p.

Lemma emit_parts_body : forall sign p, parts_ok p ->
  emit_parts sign p =
  (if sign && (negb (p_int p =? 0) || negb (p_dec p =? 0)) then ["-"%char] else []) ++
  (digits_of (p_int p) ++ zeros (Z.to_nat (p_tz p))) ++
  dot_part (if p_dec p =? 0 then [] else zeros (Z.to_nat (p_lz p)) ++ digits_of (p_dec p)).
Proof.
  intros sign p Hok. unfold emit_parts, to_chars_uint64. f_equal. rewrite <- app_assoc. f_equal. f_equal.
  destruct (Z.eqb_spec (p_dec p) 0); cbn [negb]; [reflexivity|].
  destruct Hok as (_ & Hd & _).
  destruct (digits_of_nonempty (p_dec p) (small_17 _ Hd)) as (c & t & E & _).
  unfold dot_part. destruct (zeros (Z.to_nat (p_lz p)) ++ digits_of (p_dec p)) eqn:EE; [|reflexivity].
  apply app_eq_nil in EE. destruct EE as [_ EE]. rewrite E in EE. discriminate.
Qed.

Lemma parts_body_facts : forall p, parts_ok p ->
  let IP := digits_of (p_int p) ++ zeros (Z.to_nat (p_tz p)) in
  let FP := if p_dec p =? 0 then [] else zeros (Z.to_nat (p_lz p)) ++ digits_of (p_dec p) in
  all_digits IP /\ all_digits FP /\ IP <> [] /\ (exists c t, IP ++ dot_part FP = c :: t /\ is_digit c = true) /\
  dec_value (IP ++ FP) = parts_N p /\ - Z.of_nat (List.length FP) = parts_E p.
Proof.
  intros p (Hi & Hd & Ht & Hl). cbn zeta.
  pose proof (small_17 _ Hi) as Si. pose proof (small_17 _ Hd) as Sd.
  destruct (digits_of_nonempty (p_int p) Si) as (c & t & Ec & Hc).
  assert (all_digits (digits_of (p_int p) ++ zeros (Z.to_nat (p_tz p)))) as A1 by (apply Forall_app; split; [apply digits_of_all_digits | apply zeros_all_digits]).
  split; [exact A1|].
  assert (all_digits (if p_dec p =? 0 then [] else zeros (Z.to_nat (p_lz p)) ++ digits_of (p_dec p))) as A2.
  { destruct (p_dec p =? 0); [constructor|]. apply Forall_app; split; [apply zeros_all_digits | apply digits_of_all_digits]. }
  split; [exact A2|]. split; [rewrite Ec; discriminate|]. split.
  { exists c. rewrite Ec. cbn [app]. eexists; split; [reflexivity | exact Hc]. }
  unfold parts_N, parts_E. destruct (Z.eqb_spec (p_dec p) 0) as [E0 | N0].
  - rewrite app_nil_r, dec_value_app, zeros_length, dec_value_zeros, digits_of_value by assumption.
    rewrite Z2Nat.id by lia. split; [ring | reflexivity].
  - rewrite !dec_value_app, !app_length, !zeros_length, !dec_value_zeros, !digits_of_value, digits_of_length by assumption.
    rewrite Nat2Z.inj_add, !Z2Nat.id by lia. split; [|reflexivity].
    rewrite pow10_split by lia. ring.
Qed.

Lemma parse_emit_parts : forall sign p, parts_ok p ->
  parse_number (emit_parts sign p) =
  Some (NVdec (sign && (negb (p_int p =? 0) || negb (p_dec p =? 0))) (parts_N p) (parts_E p)).
Proof.
  intros sign p Hok. rewrite emit_parts_body by assumption.
  destruct (parts_body_facts p Hok) as (A1 & A2 & A3 & (c & t & Ec & Hc) & HN & HE).
  rewrite (parse_number_signed _ _ c t Ec Hc).
  rewrite parse_decimal_plain by assumption. rewrite HN, HE. reflexivity.
Qed.

Lemma declen_le : forall n k, 0 <= n < 10 ^ k -> 1 <= k -> small n -> Z.of_nat (declen n) <= k.
Proof.
  intros n k Hn Hk Hs. destruct (declen_spec n Hs) as (A & B & [C | C]); [lia|].
  destruct (Z.le_gt_cases (Z.of_nat (declen n)) k) as [|G]; [assumption|exfalso].
  assert (10 ^ k <= 10 ^ (Z.of_nat (declen n) - 1)) by (apply pow10_le; lia). lia.
Qed.

Lemma same_val_refl : forall n e, same_val n e n e.
Proof. intros. reflexivity. Qed.

Lemma split_parts_spec : forall o e l, 0 <= o < 10 ^ 17 -> (o = 0 \/ l = Z.of_nat (declen o)) ->
  let p := split_parts o e l in
  parts_ok p /\ same_val (parts_N p) (parts_E p) o e /\ (o = 0 -> p_int p = 0 /\ p_dec p = 0) /\ (0 < o -> 0 < p_int p \/ 0 < p_dec p) /\
  Z.min e 0 <= parts_E p <= 0.
Proof.
  intros o e l Ho Hl. pose proof (small_17 o Ho) as So.
  unfold split_parts. destruct (Z.leb_spec 0 e) as [He | He].
  - cbn zeta. unfold parts_ok, parts_N, parts_E, same_val. cbn [p_int p_dec p_tz p_lz]. rewrite Z.eqb_refl.
    rewrite Z.min_l by lia. rewrite !Z.sub_0_r. change (10 ^ 0) with 1.
    repeat split; try lia; change (10 ^ 17) with 100000000000000000; lia.
  - set (nexp := - e). assert (1 <= nexp) by (unfold nexp; lia).
    assert (0 < 10 ^ nexp) as Ppos by (apply pow10_pos; lia).
    destruct (Z.ltb_spec nexp l) as [Hin | Hout].
    + unfold pow_10.
      set (ip := o / 10 ^ nexp). set (dp := o mod 10 ^ nexp).
      pose proof (Z.div_mod o (10 ^ nexp) ltac:(lia)) as DM. fold ip dp in DM.
      pose proof (Z.mod_pos_bound o (10 ^ nexp) Ppos) as DB. fold dp in DB.
      assert (0 <= ip) by (apply Z.div_pos; lia).
      assert (ip <= o) by nia.
      assert (dp <= o) by nia.
      assert (small dp) as Sdp by (apply small_17; lia).
      replace (l - (l - nexp)) with nexp by lia.
      assert (Z.of_nat (declen dp) <= nexp) as Dle by (apply declen_le; try assumption; lia).
      assert (decimalLength17 dp = Z.of_nat (declen dp)) as D17 by (apply decimalLength17_declen; lia).
      assert (o = 0 \/ 1 <= ip) as Hip.
      { destruct Hl as [-> | Hl]; [left; reflexivity | right].
        destruct (declen_spec o So) as (A & B & [C | C]); [lia|].
        apply Z.div_le_lower_bound; [lia|]. rewrite Z.mul_1_r.
        eapply Z.le_trans; [|exact C]. apply pow10_le. lia. }
      assert (forall dpl lz, lz + Z.of_nat (declen dp) = nexp -> 0 <= lz ->
              let p := {| p_int := ip; p_int_len := l - nexp; p_tz := 0; p_dec := dp; p_dec_len := dpl; p_lz := lz |} in
              parts_ok p /\ same_val (parts_N p) (parts_E p) o e /\ (o = 0 -> p_int p = 0 /\ p_dec p = 0) /\ (0 < o -> 0 < p_int p \/ 0 < p_dec p) /\
              Z.min e 0 <= parts_E p <= 0) as Hgen.
      { intros dpl lz Hsum Hlz. cbn zeta. unfold parts_ok, parts_N, parts_E, same_val. cbn [p_int p_dec p_tz p_lz].
        change (10 ^ 0) with 1. rewrite Hsum.
        split; [repeat split; lia|]. split.
        - destruct (Z.eqb_spec dp 0) as [E0 | N0].
          + rewrite Z.min_r by lia. replace (e - e) with 0 by lia. change (10 ^ 0) with 1. replace (0 - e) with nexp by (unfold nexp; lia). lia.
          + replace (- nexp) with e by (unfold nexp; lia). rewrite Z.min_id, Z.sub_diag. change (10 ^ 0) with 1. lia.
        - split; [intros ->; unfold ip, dp; rewrite Z.div_0_l, Z.mod_0_l by lia; split; reflexivity|].
          split; [lia|]. destruct (dp =? 0); unfold nexp; lia. }
      destruct (Z.ltb_spec dp (10 ^ (nexp - 1))) as [Hsmall | Hbig].
      * rewrite D17. apply Hgen; lia.
      * apply Hgen; [|lia].
        assert (Z.of_nat (declen dp) = nexp); [|lia].
        apply declen_unique_Z; try assumption; try lia.
    + cbn zeta. unfold parts_ok, parts_N, parts_E, same_val. cbn [p_int p_dec p_tz p_lz].
      change (10 ^ 0) with 1.
      destruct (Z.eqb_spec o 0) as [-> | N0].
      * rewrite !Z.mul_0_l. repeat split; try lia; change (10 ^ 17) with 100000000000000000; lia.
      * destruct Hl as [-> | Hl]; [congruence|].
        replace (- (nexp - l + Z.of_nat (declen o))) with e by (unfold nexp; lia). rewrite Z.min_id, Z.sub_diag. change (10 ^ 0) with 1.
        repeat split; try lia; change (10 ^ 17) with 100000000000000000; lia.
Qed.

(* ------------------------------------------------------------------ exact rational values *)
From Coq Require Import QArith Qabs Qpower.
Local Open Scope Z_scope.

Definition dval (n e : Z) : Q := (inject_Z n * (10 # 1) ^ e)%Q.

Lemma ten_nz : ~ ((10 # 1) == 0)%Q.
Proof. discriminate. Qed.

Lemma ten_pow_pos : forall e, (0 < (10 # 1) ^ e)%Q.
Proof. intros. apply Qpower_0_lt. reflexivity. Qed.

Lemma inject_pow10 : forall k, 0 <= k -> (inject_Z (10 ^ k) == (10 # 1) ^ k)%Q.
Proof. intros. rewrite Zpower_Qpower by assumption. reflexivity. Qed.

Lemma dval_shift : forall n e k, 0 <= k -> (dval (n * 10 ^ k) (e - k) == dval n e)%Q.
Proof.
  intros n e k Hk. unfold dval. rewrite inject_Z_mult, inject_pow10 by assumption.
  replace e with ((e - k) + k) at 2 by lia. rewrite (Qpower_plus _ (e - k) k ten_nz). ring.
Qed.

Lemma same_val_dval : forall n1 e1 n2 e2, same_val n1 e1 n2 e2 -> (dval n1 e1 == dval n2 e2)%Q.
Proof.
  intros n1 e1 n2 e2 H. unfold same_val in H. set (mn := Z.min e1 e2) in *.
  rewrite <- (dval_shift n1 e1 (e1 - mn)) by (unfold mn; lia).
  rewrite <- (dval_shift n2 e2 (e2 - mn)) by (unfold mn; lia).
  rewrite H. replace (e1 - (e1 - mn)) with (e2 - (e2 - mn)) by lia. reflexivity.
Qed.

Lemma dval_minus : forall a b e, (dval a e - dval b e == dval (a - b) e)%Q.
Proof. intros. unfold dval, Z.sub. rewrite inject_Z_plus, inject_Z_opp. ring. Qed.

Lemma dval_abs : forall z e, (Qabs (dval z e) == dval (Z.abs z) e)%Q.
Proof.
  intros. unfold dval. rewrite Qabs_Qmult. rewrite (Qabs_pos ((10 # 1) ^ e)) by (apply Qlt_le_weak, ten_pow_pos). reflexivity.
Qed.

Lemma dval_le : forall a b e, a <= b -> (dval a e <= dval b e)%Q.
Proof.
  intros. unfold dval. apply Qmult_le_compat_r; [rewrite <- Zle_Qle; assumption | apply Qlt_le_weak, ten_pow_pos].
Qed.

(* |R*10^-prec - m*10^e| <= 1/2 * 10^-prec  whenever  2*|R*10^dtt - m| <= 10^dtt  and  -prec = e + dtt *)
Lemma half_unit_bound : forall R m e prec, prec < - e -> 2 * Z.abs (R * 10 ^ (- e - prec) - m) <= 10 ^ (- e - prec) ->
  (Qabs (dval R (- prec) - dval m e) <= (1 # 2) * (10 # 1) ^ (- prec))%Q.
Proof.
  intros R m e prec Hlt H. set (dtt := - e - prec) in *.
  assert (dval R (- prec) == dval (R * 10 ^ dtt) e)%Q as E1.
  { rewrite <- (dval_shift R (- prec) dtt) by (unfold dtt; lia). replace (- prec - dtt) with e by (unfold dtt; lia). reflexivity. }
  rewrite E1, dval_minus, dval_abs.
  assert (dval (2 * Z.abs (R * 10 ^ dtt - m)) e <= dval (10 ^ dtt) e)%Q as L by (apply dval_le; assumption).
  assert (dval (10 ^ dtt) e == (10 # 1) ^ (- prec))%Q as E2.
  { unfold dval. rewrite inject_pow10 by (unfold dtt; lia). rewrite <- (Qpower_plus _ dtt e ten_nz). replace (dtt + e) with (- prec) by (unfold dtt; lia). reflexivity. }
  rewrite E2 in L. unfold dval in *. rewrite inject_Z_mult in L.
  set (x := (inject_Z (Z.abs (R * 10 ^ dtt - m)) * (10 # 1) ^ e)%Q) in *.
  assert (inject_Z 2 * inject_Z (Z.abs (R * 10 ^ dtt - m)) * (10 # 1) ^ e == 2 * x)%Q as E3 by (unfold x; ring).
  rewrite E3 in L. clear - L.
  apply (Qmult_le_l _ _ 2); [reflexivity|]. rewrite Qmult_assoc. setoid_replace (2 * (1 # 2))%Q with 1%Q by reflexivity. rewrite Qmult_1_l. exact L.
Qed.

Lemma same_val_sym : forall a ea b eb, same_val a ea b eb -> same_val b eb a ea.
Proof. unfold same_val. intros. rewrite (Z.min_comm eb ea). symmetry. assumption. Qed.

(* ------------------------------------------------------------------ the fixed layout: value, rounding error, no "-0" *)
Lemma parts_N_zero : forall p, parts_ok p -> 0 <= parts_N p /\ ((parts_N p =? 0) = (p_int p =? 0) && (p_dec p =? 0)).
Proof.
  intros p (Hi & Hd & Ht & Hlz). unfold parts_N. destruct (Z.eqb_spec (p_dec p) 0) as [E0 | N0].
  - pose proof (pow10_pos (p_tz p) Ht). split; [nia|]. rewrite andb_true_r.
    destruct (Z.eqb_spec (p_int p) 0) as [-> | Ni]; [reflexivity|]. apply Z.eqb_neq. nia.
  - rewrite andb_false_r.
    pose proof (pow10_pos (p_tz p) Ht). pose proof (pow10_pos (p_lz p + Z.of_nat (declen (p_dec p))) ltac:(lia)).
    assert (0 <= p_int p * 10 ^ p_tz p * 10 ^ (p_lz p + Z.of_nat (declen (p_dec p)))) by nia.
    split; [lia|]. apply Z.eqb_neq. lia.
Qed.

Lemma sign_flag : forall (sign : bool) p, parts_ok p ->
  sign && (negb (p_int p =? 0) || negb (p_dec p =? 0)) = sign && negb (parts_N p =? 0).
Proof.
  intros sign p Hok. destruct (parts_N_zero p Hok) as [_ ->]. destruct (p_int p =? 0), (p_dec p =? 0), sign; reflexivity.
Qed.

(* what the parts computed by to_chars_fixed denote *)
Lemma fixed_parts_spec : forall m e prec, 1 <= m < 10 ^ 17 -> 0 <= prec ->
  let p := fixed_parts m e prec in
  parts_ok p /\
  (0 <= e \/ - e <= prec -> (dval (parts_N p) (parts_E p) == dval m e)%Q) /\
  (e < 0 -> prec < - e -> (dval (parts_N p) (parts_E p) == dval (round_half_even m (10 ^ (- e - prec))) (- prec))%Q) /\
  (Qabs (dval (parts_N p) (parts_E p) - dval m e) <= (1 # 2) * (10 # 1) ^ (- prec))%Q /\
  Z.min e 0 <= parts_E p <= 0 /\
  (0 <= e \/ - e <= prec -> same_val (parts_N p) (parts_E p) m e).
Proof.
  intros m e prec Hm Hp. unfold fixed_parts.
  assert (forall o' e' l', 0 <= o' < 10 ^ 17 -> (o' = 0 \/ l' = Z.of_nat (declen o')) ->
          parts_ok (split_parts o' e' l') /\ (dval (parts_N (split_parts o' e' l')) (parts_E (split_parts o' e' l')) == dval o' e')%Q /\
          Z.min e' 0 <= parts_E (split_parts o' e' l') <= 0 /\ same_val (parts_N (split_parts o' e' l')) (parts_E (split_parts o' e' l')) o' e') as Hemit.
  { intros o' e' l' Ho Hl. destruct (split_parts_spec o' e' l' Ho Hl) as (Hok & Hsv & _ & _ & Hbd). split; [exact Hok|]. split; [apply same_val_dval; exact Hsv|]. split; [exact Hbd | exact Hsv]. }
  assert (forall x y : Q, (x == y)%Q -> (Qabs (x - y) <= (1 # 2) * (10 # 1) ^ (- prec))%Q) as Hzero.
  { intros x y Exy. setoid_replace (x - y)%Q with 0%Q by (rewrite Exy; ring). cbn [Qabs Z.abs].
    apply Qmult_le_0_compat; [discriminate | apply Qlt_le_weak, ten_pow_pos]. }
  destruct (Z.leb_spec 0 e) as [He | He].
  - destruct (Hemit m e (decimalLength17 m) ltac:(lia)) as (P1 & P3 & P4 & P6).
    { right. apply decimalLength17_declen. lia. }
    cbn zeta. split; [exact P1|]. split; [intros _; exact P3|]. split; [lia|]. split; [apply Hzero; exact P3|]. split; [exact P4 | intros _; exact P6].
  - pose proof (adapt_spec m e prec Hm He Hp) as HA.
    destruct (adapt m e (decimalLength17 m) prec) as [[o' e'] l'].
    destruct HA as (A1 & A2 & A3 & A4 & A5 & A6 & A7 & A8).
    destruct (Hemit o' e' l' A4 A5) as (P1 & P3 & P4 & P6).
    cbn zeta. split; [exact P1|].
    assert (Z.min e 0 <= parts_E (split_parts o' e' l') <= 0) as P5 by lia.
    destruct (Z.le_gt_cases (- e) prec) as [G | G].
    + destruct (A1 G) as [-> ->]. split; [intros _; exact P3|]. split; [lia|]. split; [apply Hzero; exact P3|]. split; [exact P5 | intros _; exact P6].
    + specialize (A2 G). specialize (A6 G).
      assert (same_val o' e' (round_half_even m (10 ^ (- e - prec))) (- prec)) as SV.
      { unfold same_val. rewrite Z.min_r by lia. rewrite Z.sub_diag. change (10 ^ 0) with 1. rewrite Z.mul_1_r.
        assert (0 < 10 ^ (- e - prec)) by (apply pow10_pos; lia).
        apply (Z.mul_cancel_r _ _ (10 ^ (- e - prec))); [lia|]. rewrite <- A2.
        rewrite <- Z.mul_assoc, <- pow10_split by lia. f_equal. f_equal. lia. }
      pose proof (same_val_dval _ _ _ _ SV) as EQ.
      split; [lia|]. split; [intros _ _; rewrite P3; exact EQ|]. split; [|split; [exact P5 | lia]].
      rewrite P3, EQ. apply half_unit_bound; [lia|].
      apply round_half_even_bound. apply pow10_pos. lia.
Qed.

Theorem fixed_layout_value : forall m e sign prec, 1 <= m < 10 ^ 17 -> 0 <= prec ->
  exists N E,
    parse_number (to_chars_fixed m e sign prec) = Some (NVdec (sign && negb (N =? 0)) N E) /\ 0 <= N /\
    (0 <= e \/ - e <= prec -> (dval N E == dval m e)%Q) /\
    (e < 0 -> prec < - e -> (dval N E == dval (round_half_even m (10 ^ (- e - prec))) (- prec))%Q) /\
    (Qabs (dval N E - dval m e) <= (1 # 2) * (10 # 1) ^ (- prec))%Q /\
    Z.min e 0 <= E <= 0 /\ (0 <= e \/ - e <= prec -> same_val N E m e).
Proof.
  intros m e sign prec Hm Hp. destruct (fixed_parts_spec m e prec Hm Hp) as (Hok & V1 & V2 & V3 & V4 & V5).
  exists (parts_N (fixed_parts m e prec)), (parts_E (fixed_parts m e prec)).
  unfold to_chars_fixed. rewrite parse_emit_parts by assumption. rewrite sign_flag by assumption.
  split; [reflexivity|]. split; [apply parts_N_zero; assumption|]. split; [exact V1|]. split; [exact V2|]. split; [exact V3|]. split; [exact V4 | exact V5].
Qed.

(* ------------------------------------------------------------------ the number language: every emitted string is a number token *)
Definition no_delim (s : str) : Prop := Forall (fun c => is_delim c = false) s.
Definition number_token (s : str) : Prop := is_number s = true /\ no_delim s.

Lemma digit_no_delim : forall c, is_digit c = true -> is_delim c = false.
Proof. intros c H. destruct c as [[] [] [] [] [] [] [] []]; try discriminate H; reflexivity. Qed.

Lemma all_digits_no_delim : forall s, all_digits s -> no_delim s.
Proof. intros s H. induction H; constructor; auto using digit_no_delim. Qed.

Lemma no_delim_app : forall a b, no_delim a -> no_delim b -> no_delim (a ++ b).
Proof. intros. apply Forall_app; split; assumption. Qed.

Lemma no_delim_sign : forall (b : bool), no_delim (if b then ["-"%char] else []).
Proof. destruct b; repeat constructor. Qed.

Lemma no_delim_dot_part : forall FP, all_digits FP -> no_delim (dot_part FP).
Proof. intros [|f FP] H; [constructor|]. constructor; [reflexivity | apply all_digits_no_delim; assumption]. Qed.

Lemma emit_parts_no_delim : forall sign p, parts_ok p -> no_delim (emit_parts sign p).
Proof.
  intros sign p Hok. rewrite emit_parts_body by assumption.
  destruct (parts_body_facts p Hok) as (A1 & A2 & _).
  apply no_delim_app; [apply no_delim_sign|]. apply no_delim_app; [apply all_digits_no_delim; exact A1 | apply no_delim_dot_part; exact A2].
Qed.

Lemma fixed_parts_ok : forall m e prec, 1 <= m < 10 ^ 17 -> 0 <= prec -> parts_ok (fixed_parts m e prec).
Proof.
  intros m e prec Hm Hp. unfold fixed_parts.
  destruct (Z.leb_spec 0 e) as [He | He].
  - apply split_parts_spec; [lia | right; apply decimalLength17_declen; lia].
  - pose proof (adapt_spec m e prec Hm He Hp) as HA.
    destruct (adapt m e (decimalLength17 m) prec) as [[o' e'] l']. destruct HA as (_ & _ & _ & A4 & A5 & _).
    apply split_parts_spec; assumption.
Qed.

Lemma exp_suffix_shape : forall e, small (Z.abs e) ->
  exp_suffix e = exp_part (e <? 0) (digits_of (Z.abs e)) /\ all_digits (digits_of (Z.abs e)) /\ digits_of (Z.abs e) <> [].
Proof.
  intros e Hs. split; [reflexivity|]. split; [apply digits_of_all_digits|].
  destruct (digits_of_nonempty _ Hs) as (c & t & -> & _). discriminate.
Qed.

(* the scientific layout parses as mantissa digits with the printed exponent added *)
Lemma parse_emit_parts_exp : forall sign p e, parts_ok p -> small (Z.abs e) ->
  parse_number (emit_parts sign p ++ exp_suffix e) =
  Some (NVdec (sign && (negb (p_int p =? 0) || negb (p_dec p =? 0))) (parts_N p) (e + parts_E p)).
Proof.
  intros sign p e Hok Hs. rewrite emit_parts_body by assumption.
  destruct (parts_body_facts p Hok) as (A1 & A2 & A3 & (c & t & Ec & Hc) & HN & HE).
  destruct (exp_suffix_shape e Hs) as (-> & D1 & D2).
  set (IP := digits_of (p_int p) ++ zeros (Z.to_nat (p_tz p))) in *.
  set (FP := if p_dec p =? 0 then [] else zeros (Z.to_nat (p_lz p)) ++ digits_of (p_dec p)) in *.
  rewrite <- !app_assoc.
  assert (exists t', IP ++ dot_part FP ++ exp_part (e <? 0) (digits_of (Z.abs e)) = c :: t') as (t' & Ec').
  { rewrite app_assoc, Ec. eexists. reflexivity. }
  rewrite (parse_number_signed _ _ c t' Ec' Hc).
  rewrite parse_decimal_exp by assumption. rewrite HN. do 2 f_equal.
  rewrite digits_of_value by assumption. rewrite <- HE.
  destruct (Z.ltb_spec e 0); lia.
Qed.

Lemma exp_suffix_no_delim : forall e, no_delim (exp_suffix e).
Proof.
  intros. unfold exp_suffix. constructor; [reflexivity|]. constructor; [destruct (e <? 0); reflexivity|].
  apply all_digits_no_delim, digits_of_all_digits.
Qed.

Lemma special_number_token : forall d, match d with DFin _ _ _ _ => True | _ => number_token (special_str d) end.
Proof.
  intros [s | s | s | s m2 e2 c]; try exact I; try (destruct s); split; try reflexivity; repeat constructor.
Qed.

(* every string of the trimmed writer, for whatever digits 1 <= k < 10^17 it is handed, is a number token *)
Theorem trimmed_number_token : forall d k g prec, 1 <= k < 10 ^ 17 -> 0 <= prec -> -1000 <= g <= 1000 ->
  number_token (print_trimmed_sd d (k, g) prec).
Proof.
  intros d k g prec Hk Hp Hg.
  assert (forall p, 0 <= p -> number_token (d2sfixed_sd d (k, g) p)) as Hfix.
  { intros p Hp0. destruct d as [s | s | s | s m2 e2 c]; try apply (special_number_token (DZero s)); try apply (special_number_token (DInf s)); try apply (special_number_token (DNaN s)).
    cbn [d2sfixed_sd fst snd]. unfold to_chars_fixed. pose proof (fixed_parts_ok k g p Hk Hp0) as Hok. split.
    - unfold is_number. rewrite parse_emit_parts by assumption. reflexivity.
    - apply emit_parts_no_delim. assumption. }
  assert (number_token (d2sexp_sd d (k, g) prec)) as Hexp.
  { destruct d as [s | s | s | s m2 e2 c]; try apply (special_number_token (DZero s)); try apply (special_number_token (DInf s)); try apply (special_number_token (DNaN s)).
    cbn [d2sexp_sd fst snd]. unfold to_chars_fixed.
    pose proof (fixed_parts_ok k (1 - decimalLength17 k) prec Hk Hp) as Hok.
    assert (small (Z.abs (g + decimalLength17 k - 1))) as Hs.
    { rewrite decimalLength17_declen by lia. destruct (declen_spec k (small_17 k ltac:(lia))) as (A & _).
      pose proof (declen_le k 17 ltac:(lia) ltac:(lia) (small_17 k ltac:(lia))).
      split; [lia|]. apply (Z.lt_le_trans _ (10 ^ 4)); [pow_norm; lia | apply pow10_le; lia]. }
    split.
    - unfold is_number. rewrite parse_emit_parts_exp by assumption. reflexivity.
    - apply no_delim_app; [apply emit_parts_no_delim; assumption | apply exp_suffix_no_delim]. }
  unfold print_trimmed_sd. destruct d as [s | s | s | s m2 e2 c]; try (apply Hfix; assumption).
  destruct (dy_leb c1e17_m 0 m2 e2 || dy_ltb m2 e2 c1e_4_m c1e_4_e); [exact Hexp|].
  apply Hfix. destruct ((prec <? 4) && dy_ltb m2 e2 1 0); lia.
Qed.

(* ------------------------------------------------------------------ the untrimmed writer (std::fixed) *)
Lemma decode_range : forall bits s m2 e2 c, decode bits = DFin s m2 e2 c -> 0 < m2 < 2 ^ 53 /\ -1074 <= e2 <= 971.
Proof.
  intros bits s m2 e2 c. unfold decode.
  pose proof (Z.mod_pos_bound (bits / 2 ^ 52) 2048 ltac:(lia)) as He.
  pose proof (Z.mod_pos_bound bits (2 ^ 52) ltac:(lia)) as Hm.
  set (expo := (bits / 2 ^ 52) mod 2048) in *. set (mant := bits mod 2 ^ 52) in *.
  clearbody expo mant.
  change (2 ^ 52) with 4503599627370496 in *. change (2 ^ 53) with 9007199254740992.
  destruct (Z.eqb_spec expo 2047); [destruct (mant =? 0); discriminate|].
  destruct (Z.eqb_spec expo 0).
  - destruct (Z.eqb_spec mant 0); [discriminate|]. intro E.
    assert (mant = m2) as <- by exact (f_equal (fun d => match d with DFin _ m _ _ => m | _ => mant end) E).
    assert (-1074 = e2) as <- by exact (f_equal (fun d => match d with DFin _ _ e _ => e | _ => -1074 end) E).
    lia.
  - intro E.
    assert (4503599627370496 + mant = m2) as <- by exact (f_equal (fun d => match d with DFin _ m _ _ => m | _ => 4503599627370496 + mant end) E).
    assert (expo - 1075 = e2) as <- by exact (f_equal (fun d => match d with DFin _ _ e _ => e | _ => expo - 1075 end) E).
    lia.
Qed.

Lemma round_half_even_le : forall a d, 0 <= a -> 0 < d -> 0 <= round_half_even a d <= a + 1.
Proof.
  intros a d Ha Hd. unfold round_half_even. rewrite div_eucl_pair.
  assert (0 <= a / d) by (apply Z.div_pos; lia).
  assert (a / d <= a) by (apply Z.div_le_upper_bound; nia).
  destruct (2 * (a mod d) ?= d); [destruct (Z.even (a / d))| |]; lia.
Qed.

Lemma zeros_dot_part : forall n, (0 < n)%nat -> dot_part (zeros n) = "."%char :: zeros n.
Proof. intros [|n] H; [lia | reflexivity]. Qed.

Lemma digs_dot_part : forall n x, (0 < n)%nat -> dot_part (digs n x) = "."%char :: digs n x.
Proof.
  intros n x H. pose proof (digs_length n x) as L. unfold dot_part. destruct (digs n x); [cbn in L; lia | reflexivity].
Qed.

Theorem untrimmed_number_token : forall bits prec, 0 <= prec -> number_token (print_untrimmed bits prec).
Proof.
  intros bits prec Hp. unfold print_untrimmed.
  assert (forall (s : bool) IP FP c t, IP = c :: t -> is_digit c = true -> all_digits IP -> all_digits FP ->
            number_token ((if s then ["-"%char] else []) ++ IP ++ dot_part FP)) as Hgen.
  { intros s IP FP c t E Hc A1 A2. split.
    - unfold is_number. assert (exists t', IP ++ dot_part FP = c :: t') as (t' & E') by (rewrite E; eexists; reflexivity).
      rewrite (parse_number_signed _ _ c t' E' Hc). rewrite parse_decimal_plain; [reflexivity | assumption | assumption | rewrite E; discriminate].
    - apply no_delim_app; [apply no_delim_sign|]. apply no_delim_app; [apply all_digits_no_delim; assumption | apply no_delim_dot_part; assumption]. }
  destruct (decode bits) as [s | s | s | s m2 e2 c] eqn:D.
  - (* zero *)
    destruct (Z.ltb_spec 0 prec).
    + rewrite <- zeros_dot_part by lia. apply (Hgen s ["0"%char] (zeros (Z.to_nat prec)) "0"%char []); try reflexivity; [repeat constructor | apply zeros_all_digits].
    + apply (Hgen s ["0"%char] [] "0"%char []); try reflexivity; repeat constructor.
  - destruct s; split; try reflexivity; repeat constructor.
  - destruct s; split; try reflexivity; repeat constructor.
  - destruct (decode_range _ _ _ _ _ D) as (Hm & He).
    set (p := 10 ^ prec). assert (0 < p) by (apply pow10_pos; lia).
    set (n := if 0 <=? e2 then m2 * 2 ^ e2 * 10 ^ prec else round_half_even (m2 * 10 ^ prec) (2 ^ (- e2))).
    assert (0 <= n /\ n / p < 2 ^ 1024) as [Hn0 Hnp].
    { unfold n. destruct (Z.leb_spec 0 e2).
      - assert (0 < 2 ^ e2) by (apply Z.pow_pos_nonneg; lia).
        split; [fold p; nia|]. fold p. rewrite Z.div_mul by lia.
        assert (2 ^ e2 <= 2 ^ 971) by (apply Z.pow_le_mono_r; lia).
        replace (2 ^ 1024) with (2 ^ 53 * 2 ^ 971) by (rewrite <- Z.pow_add_r by lia; reflexivity). nia.
      - assert (0 < 2 ^ (- e2)) as Hpw by (apply Z.pow_pos_nonneg; lia).
        pose proof (round_half_even_le (m2 * 10 ^ prec) (2 ^ (- e2)) ltac:(fold p; nia) Hpw) as [R1 R2].
        split; [exact R1|]. apply (Z.le_lt_trans _ (m2 + 1)).
        + apply Z.div_le_upper_bound; [lia|]. unfold p in *. nia.
        + assert (2 ^ 53 < 2 ^ 1024) by (apply Z.pow_lt_mono_r; lia). lia. }
    assert (small (n / p)) as Hs.
    { split; [apply Z.div_pos; lia|]. eapply Z.lt_trans; [exact Hnp|]. vm_compute. reflexivity. }
    destruct (digits_of_nonempty (n / p) Hs) as (c0 & t0 & E0 & Hc0).
    destruct (Z.ltb_spec 0 prec).
    + rewrite <- (digs_dot_part (Z.to_nat prec)) by lia.
      apply (Hgen s _ _ c0 t0 E0 Hc0); [apply digits_of_all_digits | apply digs_all_digits].
    + apply (Hgen s _ [] c0 t0 E0 Hc0); [apply digits_of_all_digits | constructor].
Qed.

(* ------------------------------------------------------------------ length of the emitted string *)
Lemma declen_div_pow : forall o k, small o -> 1 <= k < Z.of_nat (declen o) -> Z.of_nat (declen (o / 10 ^ k)) = Z.of_nat (declen o) - k.
Proof.
  intros o k Hs Hk. destruct (declen_spec o Hs) as (A & B & [C | C]); [lia|].
  assert (0 < 10 ^ k) by (apply pow10_pos; lia).
  assert (small (o / 10 ^ k)) as Hs'.
  { destruct Hs. split; [apply Z.div_pos; lia|]. apply Z.div_lt_upper_bound; [lia|]. nia. }
  apply declen_unique_Z; try assumption; try lia.
  - apply Z.div_lt_upper_bound; [lia|]. rewrite <- pow10_split by lia. replace (k + (Z.of_nat (declen o) - k)) with (Z.of_nat (declen o)) by lia. exact B.
  - destruct (Z.eq_dec (Z.of_nat (declen o) - k) 1); [left; assumption | right].
    apply Z.div_le_lower_bound; [lia|]. rewrite <- pow10_split by lia.
    replace (k + (Z.of_nat (declen o) - k - 1)) with (Z.of_nat (declen o) - 1) by lia. exact C.
Qed.

Definition zlen (s : str) : Z := Z.of_nat (List.length s).

Lemma zlen_app : forall a b, zlen (a ++ b) = zlen a + zlen b.
Proof. intros. unfold zlen. rewrite app_length. lia. Qed.

Lemma emit_parts_zlen : forall sign p, parts_ok p ->
  zlen (emit_parts sign p) <=
  (if sign && (negb (p_int p =? 0) || negb (p_dec p =? 0)) then 1 else 0) + Z.of_nat (declen (p_int p)) + p_tz p +
  (if p_dec p =? 0 then 0 else 1 + p_lz p + Z.of_nat (declen (p_dec p))).
Proof.
  intros sign p (Hi & Hd & Ht & Hl). unfold emit_parts, to_chars_uint64, zlen.
  rewrite !app_length, digits_of_length, zeros_length.
  destruct (sign && (negb (p_int p =? 0) || negb (p_dec p =? 0))); destruct (Z.eqb_spec (p_dec p) 0); cbn [negb List.length];
    rewrite ?app_length, ?zeros_length, ?digits_of_length; lia.
Qed.

(* the layout of o * 10^e (o with l = declen o digits) takes at most: sign + integer digits + point + decimals *)
Lemma split_parts_zlen : forall sign o e l, 0 <= o < 10 ^ 17 -> (o = 0 \/ l = Z.of_nat (declen o)) -> (o = 0 -> e <= 0) ->
  zlen (emit_parts sign (split_parts o e l)) <=
  if o =? 0 then 1 else 1 + (if 0 <=? e then l + e else if - e <? l then l + 1 else 2 - e).
Proof.
  intros sign o e l Ho Hl H0.
  destruct (split_parts_spec o e l Ho Hl) as (Hok & _ & Hz & Hnz).
  pose proof (emit_parts_zlen sign _ Hok) as L. pose proof (small_17 o Ho) as So.
  revert L Hok Hz Hnz. unfold split_parts.
  destruct (Z.leb_spec 0 e) as [He | He].
  - cbn [p_int p_dec p_tz p_lz]. rewrite Z.eqb_refl. intros L _ _ _.
    destruct (Z.eqb_spec o 0) as [-> | No].
    + rewrite andb_false_r in L. change (declen 0) with 1%nat in L. specialize (H0 eq_refl). lia.
    + destruct Hl as [-> | ->]; [congruence|]. destruct (sign && _); lia.
  - set (nexp := - e). assert (1 <= nexp) by (unfold nexp; lia).
    destruct (Z.ltb_spec nexp l) as [Hin | Hout].
    + unfold pow_10. replace (l - (l - nexp)) with nexp by lia.
      destruct (Z.eqb_spec o 0) as [-> | No].
      { rewrite Z.div_0_l, Z.mod_0_l by (pose proof (pow10_pos nexp ltac:(lia)); lia).
        destruct (0 <? 10 ^ (nexp - 1)); cbn [p_int p_dec p_tz p_lz]; rewrite Z.eqb_refl; cbn [negb orb]; rewrite andb_false_r;
          change (declen 0) with 1%nat; intros; lia. }
      destruct Hl as [-> | Hl]; [congruence|].
      assert (Z.of_nat (declen (o / 10 ^ nexp)) = l - nexp) as Dip by (rewrite Hl; apply declen_div_pow; [assumption | lia]).
      assert (0 < 10 ^ nexp) as Ppos by (apply pow10_pos; lia).
      pose proof (Z.mod_pos_bound o (10 ^ nexp) Ppos) as DB.
      assert (o mod 10 ^ nexp <= o) by (apply Z.mod_le; lia).
      assert (small (o mod 10 ^ nexp)) as Sdp by (apply small_17; lia).
      assert (decimalLength17 (o mod 10 ^ nexp) = Z.of_nat (declen (o mod 10 ^ nexp))) as D17 by (apply decimalLength17_declen; lia).
      destruct (Z.ltb_spec (o mod 10 ^ nexp) (10 ^ (nexp - 1))) as [Hs | Hb]; cbn [p_int p_dec p_tz p_lz]; intros L _ _ _.
      * rewrite D17 in L |- *. rewrite Dip in L. destruct (sign && _), (o mod 10 ^ nexp =? 0); lia.
      * assert (Z.of_nat (declen (o mod 10 ^ nexp)) = nexp) as Dd by (apply declen_unique_Z; try assumption; try lia).
        rewrite Dip, Dd in L. destruct (sign && _), (o mod 10 ^ nexp =? 0); lia.
    + cbn [p_int p_dec p_tz p_lz]. intros L _ _ _. change (declen 0) with 1%nat in L.
      destruct (Z.eqb_spec o 0) as [-> | No].
      * rewrite Z.eqb_refl in L. cbn [negb orb] in L. rewrite andb_false_r in L. lia.
      * destruct Hl as [-> | ->]; [congruence|]. destruct (sign && _); lia.
Qed.

Lemma declen_17 : forall o, 0 <= o < 10 ^ 17 -> Z.of_nat (declen o) <= 17.
Proof. intros. apply declen_le; [assumption | lia | apply small_17; assumption]. Qed.

Lemma to_chars_fixed_zlen : forall k g sign prec, 1 <= k < 10 ^ 17 -> 0 <= prec ->
  zlen (to_chars_fixed k g sign prec) <= 1 + Z.max (Z.max (decimalLength17 k + g + 1) 18) (2 - g).
Proof.
  intros k g sign prec Hk Hp. unfold to_chars_fixed, fixed_parts.
  pose proof (decimalLength17_declen k ltac:(lia)) as Hol. pose proof (declen_17 k ltac:(lia)) as H17.
  destruct (Z.leb_spec 0 g) as [Hg | Hg].
  - pose proof (split_parts_zlen sign k g (decimalLength17 k) ltac:(lia) ltac:(right; assumption) ltac:(lia)) as L.
    destruct (Z.eqb_spec k 0); [lia|]. destruct (Z.leb_spec 0 g); lia.
  - pose proof (adapt_spec k g prec Hk Hg Hp) as HA.
    destruct (adapt k g (decimalLength17 k) prec) as [[o' e'] l'].
    destruct HA as (A1 & A2 & A3 & A4 & A5 & A6 & A7 & A8).
    pose proof (split_parts_zlen sign o' e' l' A4 A5 A7) as L.
    destruct (Z.eqb_spec o' 0); [lia|].
    assert (l' <= 17) by (destruct A5 as [-> | ->]; [lia | apply declen_17; assumption]).
    specialize (A8 ltac:(lia)).
    destruct (Z.leb_spec 0 e'); [lia|]. destruct (Z.ltb_spec (- e') l'); lia.
Qed.

Definition uses_fixed (d : dbl) : bool :=
  match d with DFin _ m2 e2 _ => negb (dy_leb c1e17_m 0 m2 e2 || dy_ltb m2 e2 c1e_4_m c1e_4_e) | _ => false end.

(* the C buffer is char[28] (27 characters + NUL): the layout never needs more than 24 *)
Theorem trimmed_length_bound : forall d k g prec, 1 <= k < 10 ^ 17 -> 0 <= prec ->
  Z.abs (g + decimalLength17 k - 1) <= 999 ->
  (uses_fixed d = true -> -4 <= g + decimalLength17 k <= 17) ->
  zlen (print_trimmed_sd d (k, g) prec) <= 24.
Proof.
  intros d k g prec Hk Hp HE Hfix.
  pose proof (decimalLength17_declen k ltac:(lia)) as Hol. pose proof (declen_17 k ltac:(lia)) as H17.
  destruct (declen_spec k (small_17 k ltac:(lia))) as (D1 & _).
  assert (forall d', match d' with DFin _ _ _ _ => True | _ => zlen (special_str d') <= 24 end) as Hsp.
  { intros [s | s | s | s m2 e2 c]; try exact I; try destruct s; cbn; lia. }
  unfold print_trimmed_sd. destruct d as [s | s | s | s m2 e2 c];
    try (cbn [d2sfixed_sd]; first [apply (Hsp (DZero s)) | apply (Hsp (DInf s)) | apply (Hsp (DNaN s))]).
  cbn [uses_fixed] in Hfix.
  destruct (dy_leb c1e17_m 0 m2 e2 || dy_ltb m2 e2 c1e_4_m c1e_4_e).
  - (* exponent notation *)
    cbn [d2sexp_sd fst snd]. rewrite zlen_app.
    pose proof (to_chars_fixed_zlen k (1 - decimalLength17 k) s prec Hk Hp) as L.
    assert (zlen (exp_suffix (g + decimalLength17 k - 1)) <= 5) as LE.
    { unfold exp_suffix, zlen. cbn [List.length]. rewrite digits_of_length.
      assert (Z.of_nat (declen (Z.abs (g + decimalLength17 k - 1))) <= 3); [|lia].
      apply declen_le; [pow_norm; lia | lia | apply small_17; pow_norm; lia]. }
    lia.
  - cbn [d2sfixed_sd fst snd]. specialize (Hfix eq_refl).
    set (p' := if (prec <? 4) && dy_ltb m2 e2 1 0 then Z.max prec (neg_floor_log10 m2 e2) else prec).
    assert (0 <= p') by (unfold p'; destruct ((prec <? 4) && dy_ltb m2 e2 1 0); lia).
    pose proof (to_chars_fixed_zlen k g s p' Hk H) as L. lia.
Qed.
