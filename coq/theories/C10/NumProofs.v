(* C10 — lemmas about decimal digit strings, the fixed layout (to_chars_fixed) and the number language. *)
From Coq Require Import ZArith List Ascii String Bool Lia Znumtheory.
From GeosV.C10 Require Import NumDefs.
Import ListNotations.
Local Open Scope Z_scope.

(* ------------------------------------------------------------------ arithmetic helpers *)
Lemma div_eucl_pair : forall a b, Z.div_eucl a b = (a / b, a mod b).
Proof. intros. unfold Z.div, Z.modulo. destruct (Z.div_eucl a b). reflexivity. Qed.

Lemma pow10_pos : forall k, 0 <= k -> 0 < 10 ^ k.
Proof. intros. apply Z.pow_pos_nonneg; lia. Qed.

Lemma pow10_S : forall k, 0 <= k -> 10 ^ (k + 1) = 10 * 10 ^ k.
Proof. intros. rewrite Z.pow_add_r by lia. change (10 ^ 1) with 10. lia. Qed.

Lemma pow10_split : forall a b, 0 <= a -> 0 <= b -> 10 ^ (a + b) = 10 ^ a * 10 ^ b.
Proof. intros. apply Z.pow_add_r; lia. Qed.

Lemma pow10_le : forall a b, 0 <= a <= b -> 10 ^ a <= 10 ^ b.
Proof. intros. apply Z.pow_le_mono_r; lia. Qed.

Lemma pow10_lt : forall a b, 0 <= a < b -> 10 ^ a < 10 ^ b.
Proof. intros. apply Z.pow_lt_mono_r; lia. Qed.

(* ------------------------------------------------------------------ digits *)
Lemma digit_spec : forall d, 0 <= d < 10 -> is_digit (digit d) = true /\ digit_val (digit d) = d.
Proof.
  intros d H.
  assert (d = 0 \/ d = 1 \/ d = 2 \/ d = 3 \/ d = 4 \/ d = 5 \/ d = 6 \/ d = 7 \/ d = 8 \/ d = 9) as C by lia.
  destruct C as [-> | [-> | [-> | [-> | [-> | [-> | [-> | [-> | [-> | ->]]]]]]]]]; split; reflexivity.
Qed.

Definition all_digits (s : str) : Prop := Forall (fun c => is_digit c = true) s.

Lemma digs_length : forall k n, List.length (digs k n) = k.
Proof.
  induction k; intros; cbn [digs]; [reflexivity|].
  rewrite div_eucl_pair. rewrite app_length, IHk. cbn. lia.
Qed.

Lemma digs_all_digits : forall k n, all_digits (digs k n).
Proof.
  induction k; intros; cbn [digs]; [constructor|].
  rewrite div_eucl_pair. apply Forall_app. split; [apply IHk|].
  constructor; [|constructor]. apply digit_spec. apply Z.mod_pos_bound. lia.
Qed.

Lemma fold_dec_acc : forall l a, fold_left (fun a c => 10 * a + digit_val c) l a = a * 10 ^ Z.of_nat (List.length l) + dec_value l.
Proof.
  unfold dec_value. induction l; intros a0; cbn [fold_left List.length].
  - change (10 ^ Z.of_nat 0) with 1. lia.
  - rewrite IHl. rewrite (IHl (10 * 0 + digit_val a)).
    rewrite Nat2Z.inj_succ, <- Z.add_1_r, pow10_S by lia. ring.
Qed.

Lemma dec_value_app : forall a b, dec_value (a ++ b) = dec_value a * 10 ^ Z.of_nat (List.length b) + dec_value b.
Proof.
  intros. unfold dec_value at 1. rewrite fold_left_app. rewrite fold_dec_acc. reflexivity.
Qed.

Lemma dec_value_single : forall d, 0 <= d < 10 -> dec_value [digit d] = d.
Proof. intros. unfold dec_value. cbn [fold_left]. destruct (digit_spec d H) as [_ ->]. lia. Qed.

Lemma dec_value_digs : forall k n, 0 <= n -> dec_value (digs k n) = n mod 10 ^ Z.of_nat k.
Proof.
  induction k; intros n Hn; cbn [digs].
  - change (10 ^ Z.of_nat 0) with 1. rewrite Z.mod_1_r. reflexivity.
  - rewrite div_eucl_pair, dec_value_app. cbn [List.length]. change (10 ^ Z.of_nat 1) with 10.
    rewrite IHk by (apply Z.div_pos; lia).
    rewrite dec_value_single by (apply Z.mod_pos_bound; lia).
    rewrite Nat2Z.inj_succ, <- Z.add_1_r, pow10_S by lia.
    assert (0 < 10 ^ Z.of_nat k) by (apply pow10_pos; lia).
    rewrite Z.rem_mul_r by lia. lia.
Qed.

Lemma zeros_length : forall k, List.length (zeros k) = k.
Proof. induction k; cbn; congruence. Qed.

Lemma zeros_all_digits : forall k, all_digits (zeros k).
Proof. induction k; cbn; constructor; auto. Qed.

Lemma dec_value_zeros : forall k, dec_value (zeros k) = 0.
Proof.
  induction k; [reflexivity|]. change (zeros (S k)) with (["0"%char] ++ zeros k).
  rewrite dec_value_app, IHk. reflexivity.
Qed.

(* ------------------------------------------------------------------ declen *)
Lemma declen_aux_spec : forall fuel n, 0 <= n -> n < 10 ^ Z.of_nat (S fuel) ->
  let k := declen_aux fuel n in
  (1 <= k)%nat /\ n < 10 ^ Z.of_nat k /\ (k = 1%nat \/ 10 ^ (Z.of_nat k - 1) <= n).
Proof.
  induction fuel; intros n H0 H1; cbn [declen_aux].
  - cbn zeta. split; [lia|]. split; [exact H1|]. left; reflexivity.
  - destruct (Z.ltb_spec n 10).
    + cbn zeta. split; [lia|]. split; [change (10 ^ Z.of_nat 1) with 10; lia|]. left; reflexivity.
    + cbn zeta.
      assert (0 <= n / 10) by (apply Z.div_pos; lia).
      assert (n / 10 < 10 ^ Z.of_nat (S fuel)).
      { apply Z.div_lt_upper_bound; [lia|]. rewrite (Nat2Z.inj_succ (S fuel)), <- Z.add_1_r, pow10_S in H1 by lia. lia. }
      destruct (IHfuel (n / 10) H2 H3) as (A & B & C).
      set (k := declen_aux fuel (n / 10)) in *.
      split; [lia|]. split.
      * rewrite Nat2Z.inj_succ, <- Z.add_1_r, pow10_S by lia.
        pose proof (Z.div_mod n 10 ltac:(lia)). pose proof (Z.mod_pos_bound n 10 ltac:(lia)). lia.
      * right. replace (Z.of_nat (S k) - 1) with (Z.of_nat k) by lia.
        destruct C as [-> | C].
        -- change (10 ^ Z.of_nat 1) with 10. lia.
        -- replace (Z.of_nat k) with ((Z.of_nat k - 1) + 1) by lia. rewrite pow10_S by lia.
           pose proof (Z.div_mod n 10 ltac:(lia)). pose proof (Z.mod_pos_bound n 10 ltac:(lia)). lia.
Qed.

Definition small (n : Z) : Prop := 0 <= n < 10 ^ 1200.

Lemma declen_spec : forall n, small n ->
  (1 <= declen n)%nat /\ n < 10 ^ Z.of_nat (declen n) /\ (declen n = 1%nat \/ 10 ^ (Z.of_nat (declen n) - 1) <= n).
Proof.
  intros n [H0 H1]. unfold declen. apply declen_aux_spec; [assumption|].
  eapply Z.lt_le_trans; [exact H1|]. apply pow10_le. lia.
Qed.

Lemma declen_unique : forall n k, small n -> (1 <= k)%nat -> n < 10 ^ Z.of_nat k -> (k = 1%nat \/ 10 ^ (Z.of_nat k - 1) <= n) -> declen n = k.
Proof.
  intros n k Hs Hk Hlt Hge.
  destruct (declen_spec n Hs) as (A & B & C).
  destruct (Nat.lt_trichotomy (declen n) k) as [L | [E | G]]; [|assumption|]; exfalso.
  - destruct Hge as [-> | Hge]; [lia|].
    assert (10 ^ Z.of_nat (declen n) <= 10 ^ (Z.of_nat k - 1)) by (apply pow10_le; lia). lia.
  - destruct C as [C | C]; [lia|].
    assert (10 ^ Z.of_nat k <= 10 ^ (Z.of_nat (declen n) - 1)) by (apply pow10_le; lia). lia.
Qed.

Lemma digits_of_value : forall n, small n -> dec_value (digits_of n) = n.
Proof.
  intros n Hs. unfold digits_of. rewrite dec_value_digs by apply Hs.
  apply Z.mod_small. destruct (declen_spec n Hs) as (_ & B & _). split; [apply Hs | exact B].
Qed.

Lemma digits_of_length : forall n, List.length (digits_of n) = declen n.
Proof. intros. apply digs_length. Qed.

Lemma digits_of_all_digits : forall n, all_digits (digits_of n).
Proof. intros. apply digs_all_digits. Qed.

Lemma digits_of_nonempty : forall n, small n -> exists c t, digits_of n = c :: t /\ is_digit c = true.
Proof.
  intros n Hs. pose proof (digits_of_length n) as L. pose proof (digits_of_all_digits n) as F.
  destruct (declen_spec n Hs) as (A & _).
  destruct (digits_of n) as [|c t]; [cbn in L; lia|].
  exists c, t. split; [reflexivity|]. inversion F; assumption.
Qed.

Lemma small_17 : forall n, 0 <= n < 10 ^ 17 -> small n.
Proof. intros n H. split; [lia|]. eapply Z.lt_le_trans; [apply H|]. apply pow10_le. lia. Qed.

Lemma decimalLength17_declen : forall v, 0 <= v < 10 ^ 17 -> decimalLength17 v = Z.of_nat (declen v).
Proof.
  intros v H. pose proof (small_17 v H) as Hs.
  assert (forall k : nat, (1 <= k)%nat -> v < 10 ^ Z.of_nat k -> (k = 1%nat \/ 10 ^ (Z.of_nat k - 1) <= v) -> Z.of_nat k = Z.of_nat (declen v)) as U.
  { intros k A B C. f_equal. symmetry. apply declen_unique; assumption. }
  change (10 ^ 17) with 100000000000000000 in H.
  unfold decimalLength17.
  repeat match goal with |- context [?a <=? v] => destruct (Z.leb_spec a v) end;
  match goal with |- ?k = _ => apply (U (Z.to_nat k)) end;
  try (cbn; lia); try (right; cbn; lia); try (left; reflexivity).
Qed.
