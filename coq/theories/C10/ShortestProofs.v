(* C10 — the shortest-digits search: whatever it returns lies in the rounding interval (by construction of kmin/kmax);
   the decimal-layout half of the round trip: at sufficient precision the printed string denotes exactly those digits. *)
From Coq Require Import ZArith List Ascii String Bool Lia QArith Qabs Qpower.
From GeosV.C10 Require Import NumDefs NumProofs.
Import ListNotations.
Local Open Scope Z_scope.

Lemma scale_den_pos : forall g D, 0 < D -> 0 < scale_den g D.
Proof. intros g D HD. unfold scale_den. destruct (Z.ltb_spec g 0); [assumption|]. pose proof (pow10_pos g ltac:(lia)). nia. Qed.

(* k at least kmin: the lower end of the interval is respected (strictly unless end points are admissible) *)
Lemma kmin_spec : forall accept g A D k, 0 < D -> kmin accept g A D <= k ->
  if accept then scale_num g A <= k * scale_den g D else scale_num g A < k * scale_den g D.
Proof.
  intros accept g A D k HD Hk. unfold kmin in Hk. rewrite div_eucl_pair in Hk.
  pose proof (scale_den_pos g D HD) as Hd. set (n := scale_num g A) in *. set (d := scale_den g D) in *.
  pose proof (Z.div_mod n d ltac:(lia)) as DM. pose proof (Z.mod_pos_bound n d Hd) as MB.
  destruct (Z.eqb_spec (n mod d) 0) as [E0 | N0]; destruct accept; cbn [andb] in Hk; nia.
Qed.

Lemma kmax_spec : forall accept g B D k, 0 < D -> k <= kmax accept g B D ->
  if accept then k * scale_den g D <= scale_num g B else k * scale_den g D < scale_num g B.
Proof.
  intros accept g B D k HD Hk. unfold kmax in Hk. rewrite div_eucl_pair in Hk.
  pose proof (scale_den_pos g D HD) as Hd. set (n := scale_num g B) in *. set (d := scale_den g D) in *.
  pose proof (Z.div_mod n d ltac:(lia)) as DM. pose proof (Z.mod_pos_bound n d Hd) as MB.
  destruct (Z.eqb_spec (n mod d) 0) as [E0 | N0]; destruct accept; cbn [andb negb] in Hk; nia.
Qed.

Lemma in_interval_of_bounds : forall (accept : bool) A B D k g, 0 < D ->
  (if accept then scale_num g A <= k * scale_den g D else scale_num g A < k * scale_den g D) ->
  (if accept then k * scale_den g D <= scale_num g B else k * scale_den g D < scale_num g B) ->
  in_interval accept A B D k g = true.
Proof.
  intros accept A B D k g HD HA HB. unfold in_interval, scale_num, scale_den in *.
  destruct (Z.ltb_spec g 0) as [Hg | Hg].
  - destruct (Z.leb_spec 0 g); [lia|]. destruct accept; apply andb_true_intro; split;
      try (apply Z.leb_le); try (apply Z.ltb_lt); lia.
  - destruct (Z.leb_spec 0 g); [|lia]. rewrite !Z.mul_1_r. destruct accept; apply andb_true_intro; split;
      try (apply Z.leb_le); try (apply Z.ltb_lt); lia.
Qed.

Lemma pick_in_interval : forall accept g A C B D, 0 < D -> nonempty accept g A B D = true ->
  in_interval accept A B D (pick accept g A C B D) g = true.
Proof.
  intros accept g A C B D HD Hne. unfold nonempty in Hne. apply Z.leb_le in Hne.
  apply in_interval_of_bounds; [assumption | apply kmin_spec | apply kmax_spec]; try assumption; unfold pick;
    destruct (Z.ltb_spec (nearest g C D) (kmin accept g A D)); try lia;
    destruct (Z.ltb_spec (kmax accept g B D) (nearest g C D)); lia.
Qed.

Lemma climb_nonempty : forall fuel accept g A B D, nonempty accept g A B D = true ->
  nonempty accept (climb fuel accept g A B D) A B D = true.
Proof.
  induction fuel; intros accept g A B D H; cbn [climb]; [assumption|].
  destruct (nonempty accept (g + 1) A B D) eqn:E; [apply IHfuel; assumption | assumption].
Qed.

Lemma interval_facts : forall m2 e2 closer, 0 < m2 ->
  let '(A, C, B, D) := interval m2 e2 closer in 0 < D /\ 0 < A /\ A < C /\ C < B /\ D = 2 ^ Z.log2 D.
Proof.
  intros m2 e2 closer Hm. unfold interval. destruct (Z.leb_spec 0 (e2 - 2)) as [Hs | Hs].
  - assert (0 < 2 ^ (e2 - 2)) by (apply Z.pow_pos_nonneg; lia). destruct closer; repeat split; try nia; reflexivity.
  - assert (0 < 2 ^ (- (e2 - 2))) by (apply Z.pow_pos_nonneg; lia).
    rewrite Z.log2_pow2 by lia. destruct closer; repeat split; lia.
Qed.

(* the digits `shortest` returns always denote a value inside the rounding interval of m2 * 2^e2 *)
Theorem shortest_in_interval : forall m2 e2 closer, 0 < m2 ->
  let '(k, g) := shortest m2 e2 closer in
  let '(A, C, B, D) := interval m2 e2 closer in
  in_interval (Z.even m2) A B D k g = true.
Proof.
  intros m2 e2 closer Hm. unfold shortest.
  pose proof (interval_facts m2 e2 closer Hm) as HF.
  destruct (interval m2 e2 closer) as [[[A C] B] D]. destruct HF as (HD & HA & HAC & HCB & HDlog).
  destruct (nonempty (Z.even m2) (start_level B D) A B D) eqn:Hne.
  - apply pick_in_interval; [assumption|]. apply climb_nonempty. assumption.
  - (* fallback: the exact decimal expansion C/D = C*5^s / 10^s *)
    unfold exact_decimal, in_interval. set (s := Z.log2 D) in *.
    assert (0 <= s) by apply Z.log2_nonneg.
    destruct (Z.leb_spec 0 (- s)) as [H0 | H0].
    + assert (s = 0) by lia. replace (- s) with 0 by lia. replace s with 0 by lia. rewrite HDlog. fold s. replace s with 0 by lia.
      change (2 ^ 0) with 1. change (5 ^ 0) with 1. change (10 ^ 0) with 1.
      destruct (Z.even m2); apply andb_true_intro; split; try apply Z.leb_le; try apply Z.ltb_lt; lia.
    + replace (- - s) with s by lia.
      assert (10 ^ s = 5 ^ s * D) as E10.
      { rewrite HDlog. fold s. rewrite <- Z.pow_mul_l. reflexivity. }
      assert (0 < 5 ^ s) by (apply Z.pow_pos_nonneg; lia).
      rewrite E10. destruct (Z.even m2); apply andb_true_intro; split; try apply Z.leb_le; try apply Z.ltb_lt; nia.
Qed.

(* ------------------------------------------------------------------ the exponent notation: value and rounding error *)
Lemma dval_exp_shift : forall n e x, (dval n (x + e) == dval n e * (10 # 1) ^ x)%Q.
Proof.
  intros. unfold dval. rewrite (Qpower_plus _ x e ten_nz). ring.
Qed.

Lemma same_val_shift : forall a ea b eb x, same_val a ea b eb -> same_val a (x + ea) b (x + eb).
Proof.
  unfold same_val. intros a ea b eb x H. rewrite Z.add_min_distr_l.
  replace (x + ea - (x + Z.min ea eb)) with (ea - Z.min ea eb) by lia.
  replace (x + eb - (x + Z.min ea eb)) with (eb - Z.min ea eb) by lia. exact H.
Qed.

Theorem exp_layout_value : forall k g sign prec, 1 <= k < 10 ^ 17 -> 0 <= prec -> -1000 <= g <= 1000 ->
  let X := g + decimalLength17 k - 1 in
  exists N E,
    parse_number (to_chars_fixed k (1 - decimalLength17 k) sign prec ++ exp_suffix X) = Some (NVdec (sign && negb (N =? 0)) N E) /\ 0 <= N /\
    (decimalLength17 k - 1 <= prec -> (dval N E == dval k g)%Q) /\
    (Qabs (dval N E - dval k g) <= (1 # 2) * (10 # 1) ^ (X - prec))%Q /\
    g <= E <= X /\ (decimalLength17 k - 1 <= prec -> same_val N E k g).
Proof.
  intros k g sign prec Hk Hp Hg X.
  pose proof (decimalLength17_declen k ltac:(lia)) as Hol. pose proof (declen_17 k ltac:(lia)) as H17.
  destruct (declen_spec k (small_17 k ltac:(lia))) as (D1 & _).
  destruct (fixed_parts_spec k (1 - decimalLength17 k) prec Hk Hp) as (Hok & V1 & _ & V3 & V4 & V5).
  set (p := fixed_parts k (1 - decimalLength17 k) prec) in *.
  assert (small (Z.abs X)) as Hs.
  { split; [lia|]. apply (Z.lt_le_trans _ (10 ^ 4)); [unfold X; pow_norm; lia | apply pow10_le; lia]. }
  exists (parts_N p), (X + parts_E p).
  unfold to_chars_fixed. fold p. rewrite parse_emit_parts_exp by assumption. rewrite sign_flag by assumption.
  split; [reflexivity|]. split; [apply parts_N_zero; assumption|].
  assert (dval k g == dval k (1 - decimalLength17 k) * (10 # 1) ^ X)%Q as Ekg.
  { rewrite <- dval_exp_shift. replace (X + (1 - decimalLength17 k)) with g by (unfold X; lia). reflexivity. }
  split; [intros Hprec; rewrite dval_exp_shift, Ekg; rewrite V1 by lia; reflexivity|].
  split.
  - rewrite dval_exp_shift, Ekg.
    setoid_replace (dval (parts_N p) (parts_E p) * (10 # 1) ^ X - dval k (1 - decimalLength17 k) * (10 # 1) ^ X)%Q
      with ((dval (parts_N p) (parts_E p) - dval k (1 - decimalLength17 k)) * (10 # 1) ^ X)%Q by ring.
    rewrite Qabs_Qmult. rewrite (Qabs_pos ((10 # 1) ^ X)) by (apply Qlt_le_weak, ten_pow_pos).
    replace (X - prec) with (- prec + X) by lia. rewrite (Qpower_plus _ (- prec) X ten_nz). rewrite Qmult_assoc.
    apply Qmult_le_compat_r; [exact V3 | apply Qlt_le_weak, ten_pow_pos].
  - split; [unfold X in *; lia|]. intros Hprec.
    pose proof (same_val_shift _ _ _ _ X (V5 ltac:(lia))) as Hsv.
    replace (X + (1 - decimalLength17 k)) with g in Hsv by (unfold X; lia). exact Hsv.
Qed.

(* membership in the interval only depends on the value of the decimal *)
Lemma in_interval_norm : forall accept A B D n e K, 0 < D -> K <= e -> K <= 0 ->
  in_interval accept A B D n e =
  if accept then (A * 10 ^ (- K) <=? n * 10 ^ (e - K) * D) && (n * 10 ^ (e - K) * D <=? B * 10 ^ (- K))
  else (A * 10 ^ (- K) <? n * 10 ^ (e - K) * D) && (n * 10 ^ (e - K) * D <? B * 10 ^ (- K)).
Proof.
  intros accept A B D n e K HD HK HK0. unfold in_interval.
  assert (forall a b t, 0 < t -> (a * t <=? b * t) = (a <=? b)) as Lle.
  { intros a b t Ht. destruct (Z.leb_spec a b), (Z.leb_spec (a * t) (b * t)); try reflexivity; nia. }
  assert (forall a b t, 0 < t -> (a * t <? b * t) = (a <? b)) as Llt.
  { intros a b t Ht. destruct (Z.ltb_spec a b), (Z.ltb_spec (a * t) (b * t)); try reflexivity; nia. }
  destruct (Z.leb_spec 0 e) as [He | He].
  - assert (0 < 10 ^ (- K)) as HP by (apply pow10_pos; lia).
    replace (e - K) with (e + - K) by lia. rewrite pow10_split by lia. rewrite !Z.mul_1_r.
    replace (n * (10 ^ e * 10 ^ (- K)) * D) with (n * 10 ^ e * D * 10 ^ (- K)) by ring.
    destruct accept; rewrite ?Lle, ?Llt by assumption; reflexivity.
  - assert (0 < 10 ^ (e - K)) as HP by (apply pow10_pos; lia).
    replace (- K) with (- e + (e - K)) by lia. rewrite pow10_split by lia.
    replace (A * (10 ^ (- e) * 10 ^ (e - K))) with (A * 10 ^ (- e) * 10 ^ (e - K)) by ring.
    replace (B * (10 ^ (- e) * 10 ^ (e - K))) with (B * 10 ^ (- e) * 10 ^ (e - K)) by ring.
    replace (n * 10 ^ (e - K) * D) with (n * D * 10 ^ (e - K)) by ring.
    destruct accept; rewrite ?Lle, ?Llt by assumption; reflexivity.
Qed.

Lemma in_interval_same_val : forall accept A B D n1 e1 n2 e2, 0 < D -> same_val n1 e1 n2 e2 ->
  in_interval accept A B D n1 e1 = in_interval accept A B D n2 e2.
Proof.
  intros accept A B D n1 e1 n2 e2 HD Hsv. unfold same_val in Hsv.
  set (K := Z.min (Z.min e1 e2) 0).
  rewrite (in_interval_norm accept A B D n1 e1 K), (in_interval_norm accept A B D n2 e2 K) by (unfold K; lia).
  assert (n1 * 10 ^ (e1 - K) = n2 * 10 ^ (e2 - K)) as ->; [|reflexivity].
  replace (e1 - K) with ((e1 - Z.min e1 e2) + (Z.min e1 e2 - K)) by lia.
  replace (e2 - K) with ((e2 - Z.min e1 e2) + (Z.min e1 e2 - K)) by lia.
  rewrite !pow10_split by (unfold K; lia). rewrite !Z.mul_assoc, Hsv. reflexivity.
Qed.

(* ------------------------------------------------------------------ the decimal-layout half of the round trip *)
Lemma dval_pos : forall k g, 0 < k -> (0 < dval k g)%Q.
Proof. intros. unfold dval. apply Qmult_lt_0_compat; [rewrite <- (Zlt_Qlt 0); assumption | apply ten_pow_pos]. Qed.

Lemma dval_zero : forall g, (dval 0 g == 0)%Q.
Proof. intros. unfold dval. ring. Qed.

(* shortest_roundtrip, the part that does not need the theory of floating-point rounding:
   for a finite non-zero double, with enough precision to keep all shortest digits, the string GEOS_printDouble emits is in the
   number language, carries the sign of the double, and denotes EXACTLY the shortest digits k*10^g, which lie inside the rounding
   interval of the double (end points only when the binary mantissa is even).
   Full statement (shortest_roundtrip):  strtod_spec (print_trimmed bits prec) = Some (of_dbl (decode bits)).
   Missing for it: (1) 1 <= k < 10^17 for the digits `shortest` returns (17 digits suffice) — here a hypothesis, checked by the tie on every
   generated double; (2) round-to-nearest-even of any decimal inside the rounding interval is the double itself (theory of binary64
   rounding; SpecFloat.SFdiv is correct rounding by Flocq's Bdiv_correct_aux) — covered by running `strtod_spec` on every emitted string
   and comparing bit for bit with the original and with the real strtod. *)
Theorem shortest_roundtrip_partial : forall bits prec s m2 e2 c k g,
  decode bits = DFin s m2 e2 c -> shortest m2 e2 c = (k, g) -> 1 <= k < 10 ^ 17 -> -1000 <= g <= 1000 ->
  0 <= prec -> - g <= prec -> decimalLength17 k - 1 <= prec ->
  exists N E,
    parse_number (print_trimmed bits prec) = Some (NVdec s N E) /\ (dval N E == dval k g)%Q /\
    (let '(A, C, B, D) := interval m2 e2 c in in_interval (Z.even m2) A B D N E = true) /\
    0 < N /\ Z.min g 0 <= E <= Z.max (g + 16) 0.
Proof.
  intros bits prec s m2 e2 c k g Hd Hsh Hk Hg Hp Hfix Hexp.
  pose proof (decode_range _ _ _ _ _ Hd) as [Hm _].
  pose proof (shortest_in_interval m2 e2 c ltac:(lia)) as Hin. rewrite Hsh in Hin.
  assert (forall N E (sg : bool), (dval N E == dval k g)%Q -> sg && negb (N =? 0) = sg) as Hsign.
  { intros N E sg EQ. destruct (Z.eqb_spec N 0) as [-> | Nz]; [|destruct sg; reflexivity].
    exfalso. rewrite dval_zero in EQ. pose proof (dval_pos k g ltac:(lia)) as P. rewrite <- EQ in P. discriminate P. }
  assert (forall N E, 0 <= N -> (dval N E == dval k g)%Q -> 0 < N) as Hnz.
  { intros N E HN0 EQ. destruct (Z.eq_dec N 0) as [-> | Nz]; [|lia].
    exfalso. rewrite dval_zero in EQ. pose proof (dval_pos k g ltac:(lia)) as P. rewrite <- EQ in P. discriminate P. }
  unfold print_trimmed. rewrite Hd. cbn [shortest_of]. rewrite Hsh. unfold print_trimmed_sd.
  destruct (dy_leb c1e17_m 0 m2 e2 || dy_ltb m2 e2 c1e_4_m c1e_4_e).
  - cbn [d2sexp_sd fst snd].
    destruct (exp_layout_value k g s prec Hk Hp Hg) as (N & E & P1 & P2 & P3 & _ & P5 & P6).
    exists N, E. rewrite P1. specialize (P3 Hexp). specialize (P6 Hexp). rewrite (Hsign N E s P3). split; [reflexivity|]. split; [exact P3|].
    pose proof (decimalLength17_declen k ltac:(lia)) as Hol. pose proof (declen_17 k ltac:(lia)) as H17.
    split; [|split; [apply Hnz with E; assumption | lia]].
    revert Hin. destruct (interval m2 e2 c) as [[[A C] B] D] eqn:EI. intros Hin.
    pose proof (interval_facts m2 e2 c ltac:(lia)) as HF. rewrite EI in HF.
    rewrite (in_interval_same_val _ A B D N E k g) by (try apply HF; exact P6). exact Hin.
  - cbn [d2sfixed_sd fst snd].
    set (p' := if (prec <? 4) && dy_ltb m2 e2 1 0 then Z.max prec (neg_floor_log10 m2 e2) else prec).
    assert (prec <= p') by (unfold p'; destruct ((prec <? 4) && dy_ltb m2 e2 1 0); lia).
    destruct (fixed_layout_value k g s p' Hk ltac:(lia)) as (N & E & P1 & P2 & P3 & _ & _ & P5 & P6).
    exists N, E. rewrite P1. assert (dval N E == dval k g)%Q as EQ by (apply P3; lia). specialize (P6 ltac:(lia)).
    rewrite (Hsign N E s EQ). split; [reflexivity|]. split; [exact EQ|].
    split; [|split; [apply Hnz with E; assumption | lia]].
    revert Hin. destruct (interval m2 e2 c) as [[[A C] B] D] eqn:EI. intros Hin.
    pose proof (interval_facts m2 e2 c ltac:(lia)) as HF. rewrite EI in HF.
    rewrite (in_interval_same_val _ A B D N E k g) by (try apply HF; exact P6). exact Hin.
Qed.

(* ------------------------------------------------------------------ the writer on a bit pattern, with the digit range as a checked condition *)
(* every string GEOS_printDouble's model emits is a token of the number language (digits in range: evaluated by the tie on every double) *)
Theorem print_trimmed_number_token : forall bits prec, 0 <= prec -> digits_ok bits = true -> number_token (print_trimmed bits prec).
Proof.
  intros bits prec Hp Hok. unfold print_trimmed, digits_ok in *.
  destruct (decode bits) as [s | s | s | s m2 e2 c] eqn:Hd;
    [exact (special_number_token (DZero s)) | exact (special_number_token (DInf s)) | exact (special_number_token (DNaN s)) |].
  cbn [shortest_of]. destruct (shortest m2 e2 c) as [k g].
  apply andb_prop in Hok. destruct Hok as [Hok H4]. apply andb_prop in Hok. destruct Hok as [Hok H3]. apply andb_prop in Hok. destruct Hok as [H1 H2].
  apply Z.leb_le in H1. apply Z.ltb_lt in H2. apply Z.leb_le in H3. apply Z.leb_le in H4.
  apply trimmed_number_token; [split; assumption | assumption | lia].
Qed.
