(* C10 — what `expect` (= the result of re-reading, by WktProofs.parse_print) preserves: the type tree, emptiness, the number of
   coordinates and every X and Y; Z and M survive exactly where the element's written ordinates have them. *)
From Coq Require Import ZArith List Ascii String Bool Lia.
From GeosV.C10 Require Import NumDefs WktDefs WktProofs.
Import ListNotations.
Local Open Scope Z_scope.

(* forget the dimensionality: flags to XY, Z and M to NaN *)
Definition erase_coord (p : coord) : coord := mkc (cx p) (cy p) nan_bits nan_bits.
Fixpoint erase (g : geom) : geom :=
  match g with
  | GLeaf k _ cs => GLeaf k XY (map erase_coord cs)
  | GNode k l => GNode k (map erase l)
  end.

Lemma erase_keep : forall o d cs, map erase_coord (map (keep o d) cs) = map erase_coord cs.
Proof. intros. rewrite map_map. apply map_ext. intros p. reflexivity. Qed.

Lemma e_seq_erase : forall o k d cs det g d1, e_seq o k d cs det = Some (g, d1) -> erase g = erase (GLeaf k d cs).
Proof.
  intros o k d cs det g d1 H. unfold e_seq in H. destruct cs as [|p cs]; inversion H; subst; cbn [erase]; [reflexivity|].
  change (keep o d p :: map (keep o d) cs) with (map (keep o d) (p :: cs)). rewrite erase_keep. reflexivity.
Qed.

Lemma thread_erase : forall (E : geom -> bool -> option (geom * bool)) l det gs d1,
  (forall x det g d1, In x l -> E x det = Some (g, d1) -> erase g = erase x) ->
  thread E l det = Some (gs, d1) -> map erase gs = map erase l.
Proof.
  intros E l. induction l as [|x l IH]; intros det gs d1 HE H; cbn [thread] in H.
  - inversion H. reflexivity.
  - destruct (E x det) as [[g d2]|] eqn:Ex; [|discriminate].
    destruct (thread E l d2) as [[gs' d3]|] eqn:Et; [|discriminate]. inversion H; subst. cbn [map].
    rewrite (HE x det g d2 (or_introl eq_refl) Ex). f_equal. eapply IH; [|exact Et]. intros; eapply HE; eauto. right; assumption.
Qed.

Lemma e_inner_erase : forall o r det g d1 x, (forall g' v, r = Some (g', v) -> erase g' = erase x) -> e_inner o r det = Some (g, d1) -> erase g = erase x.
Proof.
  intros o [[g' v]|] det g d1 x Hr H; unfold e_inner in H; [|discriminate].
  destruct (det && negb (dims_eqb v o)); inversion H; subst. apply (Hr g v eq_refl).
Qed.

Lemma fin_erase : forall o r x, (forall g d1, r = Some (g, d1) -> erase g = erase x) -> forall g' v, fin o r = Some (g', v) -> erase g' = erase x.
Proof. intros o [[g d1]|] x Hr g' v H; unfold fin in H; inversion H; subst. apply (Hr g' d1 eq_refl). Qed.

Lemma e_simple_erase : forall c o x det g d1, nonempty_simple x = true -> e_simple c o x det = Some (g, d1) -> erase g = erase x.
Proof.
  intros c o x det g d1 Hne H. destruct x as [[] d [|p cs] | k l]; try discriminate Hne; cbn [e_simple] in H.
  - eapply e_seq_erase; eassumption.
  - eapply e_inner_erase; [|exact H]. apply fin_erase. intros; eapply e_seq_erase; eassumption.
Qed.

Lemma e_compound_erase : forall c o l det0 g d1, forallb nonempty_simple l = true ->
  e_compound_body c o (GNode KCompoundCurve l) l det0 = Some (g, d1) -> erase g = erase (GNode KCompoundCurve l).
Proof.
  intros c o l det0 g d1 Hw H. rewrite (proj2 (compound_as_list c l o Hw)) in H. unfold e_list in H.
  destruct (thread (e_simple c o) l det0) as [[l' d2]|] eqn:Et; [|discriminate]. inversion H; subst. cbn [erase]. f_equal.
  eapply thread_erase; [|exact Et]. intros x det g0 d0 Hin Ex. eapply e_simple_erase; [|exact Ex]. eapply forallb_In; eassumption.
Qed.

Lemma e_curve_erase : forall c o x det g d1, curve_member_ok x = true ->
  match x with GLeaf KLinearRing _ _ => False | _ => True end -> e_curve c o x det = Some (g, d1) -> erase g = erase x.
Proof.
  intros c o x det g d1 Hok Hnr H. destruct x as [k d cs | k l].
  - destruct k; try discriminate Hok; try contradiction; cbn [e_curve e_simple] in H.
    + eapply e_seq_erase; eassumption.
    + eapply e_inner_erase; [|exact H]. apply fin_erase. intros; eapply e_seq_erase; eassumption.
  - destruct k; try discriminate Hok. cbn [e_curve] in H.
    eapply e_inner_erase; [|exact H]. apply fin_erase. intros; eapply e_compound_erase; [exact Hok | eassumption].
Qed.

Lemma e_polygon_erase : forall o l det g d1, wf (GNode KPolygon l) = true ->
  e_polygon_body o (GNode KPolygon l) l det = Some (g, d1) -> erase g = erase (GNode KPolygon l).
Proof.
  intros o l det g d1 Hw H. unfold e_polygon_body in H. cbn [wf] in Hw. destruct l as [|s0 holes]; [discriminate|].
  apply andb_prop in Hw. destruct Hw as [Hr He].
  destruct (isEmpty (GNode KPolygon (s0 :: holes))) eqn:Em.
  - inversion H; subst. cbn [isEmpty] in Em. rewrite Em in He. cbn [negb orb] in He. destruct holes; [|discriminate].
    destruct s0 as [[] d [|p cs] | k m]; try discriminate Em; try discriminate Hr. reflexivity.
  - destruct (thread (e_ring o) (s0 :: holes) det) as [[l' d2]|] eqn:Et; [|discriminate]. inversion H; subst. cbn [erase]. f_equal.
    eapply thread_erase; [|exact Et]. intros x det0 g0 d0 Hin Ex.
    pose proof (forallb_In _ _ _ _ Hr Hin) as Hx. destruct x as [[] d cs | k m]; try discriminate Hx. cbn [e_ring] in Ex. eapply e_seq_erase; eassumption.
Qed.

Lemma cp_ring_not_linear : forall l x, cp_rings_ok l = true -> In x l -> match x with GLeaf KLinearRing _ _ => False | _ => True end.
Proof. intros l x H Hin. pose proof (forallb_In _ _ _ _ H Hin) as Hx. destruct x as [[] d cs | k m]; try discriminate Hx; exact I. Qed.

Lemma e_curvepolygon_erase : forall c o l det g d1, wf (GNode KCurvePolygon l) = true ->
  e_curvepolygon_body c o (GNode KCurvePolygon l) l det = Some (g, d1) -> erase g = erase (GNode KCurvePolygon l).
Proof.
  intros c o l det g d1 Hw H. unfold e_curvepolygon_body in H.
  destruct (isEmpty (GNode KCurvePolygon l)) eqn:Em.
  - inversion H; subst. cbn [wf] in Hw. destruct l as [|s0 t]; [discriminate|].
    assert (isEmpty s0 = true) as Es by exact Em.
    destruct s0 as [[] d [|p cs] | k m]; destruct t; try discriminate Hw; try discriminate Es; try reflexivity;
      (rewrite Es in Hw; discriminate Hw).
  - assert (l <> [] /\ cp_rings_ok l = true) as [Hne Hrings].
    { cbn [wf] in Hw. destruct l as [|s0 t]; [discriminate|]. split; [discriminate|].
      destruct s0 as [[] d [|p cs] | k m]; destruct t; try (apply andb_prop in Hw; destruct Hw as [_ Hw]; exact Hw); try discriminate Hw;
        cbn [isEmpty] in Em; try discriminate Em. }
    destruct (thread (e_curve c o) l det) as [[l' d2]|] eqn:Et; [|discriminate]. inversion H; subst. cbn [erase]. f_equal.
    eapply thread_erase; [|exact Et]. intros x det0 g0 d0 Hin Ex.
    eapply e_curve_erase; [eapply cp_ring_member; eassumption | eapply cp_ring_not_linear; eassumption | exact Ex].
Qed.

(* re-reading preserves the type tree, emptiness, coordinate counts and all X, Y *)
Theorem expect_o_erase : forall c n g o g' v, (gsize g <= n)%nat -> wf g = true -> expect_o c o g = Some (g', v) -> erase g' = erase g.
Proof.
  intros c n. induction n as [|n IH]; intros g o g' v Hs Hw H; [pose proof (gsize_pos g); lia|].
  destruct g as [k d cs | k l].
  - cbn [expect_o] in H. eapply fin_erase; [|exact H]. intros; eapply e_seq_erase; eassumption.
  - destruct k; cbn [expect_o] in H; cbn [wf] in Hw.
    + eapply fin_erase; [|exact H]. intros; eapply e_compound_erase; eassumption.
    + eapply fin_erase; [|exact H]. intros; eapply e_polygon_erase; eassumption.
    + eapply fin_erase; [|exact H]. intros; eapply e_curvepolygon_erase; eassumption.
    + eapply fin_erase; [|exact H]. intros g0 d0 E0. unfold e_list in E0.
      destruct (thread (e_point o) l (tag_written c o)) as [[l' d2]|] eqn:Et; [|discriminate]. inversion E0; subst. cbn [erase]. f_equal.
      eapply thread_erase; [|exact Et]. intros x det g1 d1 Hin Ex. pose proof (forallb_In _ _ _ _ Hw Hin) as Hx.
      destruct x as [[] dd cs | kk m]; try discriminate Hx. apply Nat.leb_le in Hx. destruct cs as [|p [|q cs]]; [| |cbn in Hx; lia]; cbn [e_point] in Ex; eapply e_seq_erase; eassumption.
    + eapply fin_erase; [|exact H]. intros g0 d0 E0. unfold e_list in E0.
      destruct (thread (e_line c o) l (tag_written c o)) as [[l' d2]|] eqn:Et; [|discriminate]. inversion E0; subst. cbn [erase]. f_equal.
      eapply thread_erase; [|exact Et]. intros x det g1 d1 Hin Ex. destruct x as [[] dd cs | kk m]; cbn [e_line] in Ex; try discriminate. eapply e_seq_erase; eassumption.
    + eapply fin_erase; [|exact H]. intros g0 d0 E0. unfold e_list in E0.
      destruct (thread (e_polygon_member o) l (tag_written c o)) as [[l' d2]|] eqn:Et; [|discriminate]. inversion E0; subst. cbn [erase]. f_equal.
      eapply thread_erase; [|exact Et]. intros x det g1 d1 Hin Ex. pose proof (forallb_In _ _ _ _ Hw Hin) as Hx.
      destruct x as [kk dd cs | [] m]; try discriminate Hx. cbn [e_polygon_member] in Ex. eapply e_polygon_erase; eassumption.
    + eapply fin_erase; [|exact H]. intros g0 d0 E0. unfold e_list in E0.
      destruct (thread (e_curve c o) l (tag_written c o)) as [[l' d2]|] eqn:Et; [|discriminate]. inversion E0; subst. cbn [erase]. f_equal.
      eapply thread_erase; [|exact Et]. intros x det g1 d1 Hin Ex.
      eapply e_curve_erase; [eapply cp_ring_member; eassumption | eapply cp_ring_not_linear; eassumption | exact Ex].
    + eapply fin_erase; [|exact H]. intros g0 d0 E0. unfold e_list in E0.
      destruct (thread (e_surface c o) l (tag_written c o)) as [[l' d2]|] eqn:Et; [|discriminate]. inversion E0; subst. cbn [erase]. f_equal.
      eapply thread_erase; [|exact Et]. intros x det g1 d1 Hin Ex. pose proof (forallb_In _ _ _ _ Hw Hin) as Hx.
      destruct x as [kk dd cs | [] m]; try discriminate Hx; cbn [e_surface] in Ex.
      * eapply e_polygon_erase; eassumption.
      * eapply e_inner_erase; [|exact Ex]. apply fin_erase. intros; eapply e_curvepolygon_erase; eassumption.
    + destruct (collection_members_expect c o (tag_written c o) l) as [C1 _]. rewrite C1 in H.
      destruct (thread (fun x det => e_inner o (expect_o c (out_ordinates c x) x) det) l (tag_written c o)) as [[l' d2]|] eqn:Et; [|discriminate].
      inversion H; subst. cbn [erase]. f_equal.
      eapply thread_erase; [|exact Et]. intros x det g1 d1 Hin Ex. cbn beta in Ex.
      eapply e_inner_erase; [|exact Ex]. intros g2 v2 E2.
      assert (gsize x <= n)%nat by (rewrite gsize_node in Hs; pose proof (sum_sizes_In l x Hin); pose proof (gsize_pos x); lia).
      eapply IH; [eassumption | eapply forallb_In; eassumption | exact E2].
Qed.

Theorem expect_erase : forall c g g', wf g = true -> expect c g = Some g' -> erase g' = erase g.
Proof.
  intros c g g' Hw H. unfold expect, expect_tagged in H. destruct (expect_o c (out_ordinates c g) g) as [[g2 v]|] eqn:E; inversion H; subst.
  eapply expect_o_erase; [apply le_n | exact Hw | exact E].
Qed.

(* ------------------------------------------------------------------ dimensionality (standard tags, i.e. old-3D off) *)
Fixpoint all_leaves (o : dims) (g : geom) : bool :=
  match g with GLeaf _ d _ => dims_eqb d o | GNode _ l => forallb (all_leaves o) l end.

Lemma dims_eqb_refl : forall o, dims_eqb o o = true.
Proof. intros [[] []]; reflexivity. Qed.

Lemma dims_eqb_eq : forall a b, dims_eqb a b = true -> a = b.
Proof. intros [[] []] [[] []] H; try discriminate H; reflexivity. Qed.

Section Std.
  Variable c : cfg.
  Hypothesis Hstd : c_old3d c = false.

  (* with standard tags the reader state is open only for XY elements, where it makes no difference *)
  Lemma cur_std : forall o det, det = tag_written c o \/ det = true -> cur o det = o.
  Proof.
    intros [[] []] det [-> | ->]; unfold tag_written, cur; rewrite ?Hstd; reflexivity.
  Qed.

  Definition okdet (o : dims) (det : bool) : Prop := det = true \/ o = XY.

  Lemma okdet_start : forall o, okdet o (tag_written c o).
  Proof. intros [[] []]; unfold okdet, tag_written; rewrite Hstd; cbn; auto. Qed.

  Lemma cur_ok : forall o det, okdet o det -> cur o det = o.
  Proof. intros o det [-> | ->]; [reflexivity | destruct det; reflexivity]. Qed.

  Lemma e_seq_dims : forall o k d cs det g d1, okdet o det -> e_seq o k d cs det = Some (g, d1) -> all_leaves o g = true /\ okdet o d1.
  Proof.
    intros o k d cs det g d1 Hok H. unfold e_seq in H. destruct cs; inversion H; subst; cbn [all_leaves].
    - rewrite (cur_ok o d1 Hok). split; [apply dims_eqb_refl | exact Hok].
    - split; [apply dims_eqb_refl | left; reflexivity].
  Qed.

  Lemma thread_dims : forall (E : geom -> bool -> option (geom * bool)) o l det gs d1,
    (forall x det g d1, In x l -> okdet o det -> E x det = Some (g, d1) -> all_leaves o g = true /\ okdet o d1) ->
    okdet o det -> thread E l det = Some (gs, d1) -> forallb (all_leaves o) gs = true /\ okdet o d1.
  Proof.
    intros E o l. induction l as [|x l IH]; intros det gs d1 HE Hok H; cbn [thread] in H.
    - inversion H; subst. split; [reflexivity | exact Hok].
    - destruct (E x det) as [[g d2]|] eqn:Ex; [|discriminate].
      destruct (thread E l d2) as [[gs' d3]|] eqn:Et; [|discriminate]. inversion H; subst.
      destruct (HE x det g d2 (or_introl eq_refl) Hok Ex) as [A B].
      destruct (IH d2 gs' d1 (fun y dd gg dd1 Hin => HE y dd gg dd1 (or_intror Hin)) B Et) as [C D].
      split; [cbn [forallb]; rewrite A, C; reflexivity | exact D].
  Qed.

  Lemma e_inner_dims : forall o r det g d1, okdet o det ->
    (forall g' v, r = Some (g', v) -> all_leaves o g' = true) -> e_inner o r det = Some (g, d1) -> all_leaves o g = true /\ okdet o d1.
  Proof.
    intros o [[g' v]|] det g d1 Hok Hr H; unfold e_inner in H; [|discriminate].
    destruct (det && negb (dims_eqb v o)); inversion H; subst. split; [apply (Hr g v eq_refl) | exact Hok].
  Qed.

  Lemma fin_dims : forall o (r : option (geom * bool)) g' v,
    (forall g d1, r = Some (g, d1) -> all_leaves o g = true /\ okdet o d1) -> fin o r = Some (g', v) -> all_leaves o g' = true /\ v = o.
  Proof.
    intros o [[g d1]|] g' v Hr H; unfold fin in H; inversion H; subst.
    destruct (Hr g' d1 eq_refl) as [A B]. split; [exact A | apply cur_ok; exact B].
  Qed.

  Lemma e_simple_dims : forall o x det g d1, okdet o det -> e_simple c o x det = Some (g, d1) -> all_leaves o g = true /\ okdet o d1.
  Proof.
    intros o x det g d1 Hok H. destruct x as [[] d cs | k l]; cbn [e_simple] in H; try discriminate;
      try (eapply e_seq_dims; eassumption).
    eapply e_inner_dims; [exact Hok | | exact H]. intros g' v E. eapply (fin_dims o _ g' v); [|exact E].
    intros g0 d0 E0. eapply e_seq_dims; [apply okdet_start | exact E0].
  Qed.

  Lemma e_compound_dims : forall o g l det g' d1, okdet o det -> e_compound_body c o g l det = Some (g', d1) -> all_leaves o g' = true /\ okdet o d1.
  Proof.
    intros o g l det g' d1 Hok H. unfold e_compound_body in H. destruct (isEmpty g); [inversion H; subst; split; [reflexivity | exact Hok]|].
    destruct (thread (e_simple c o) l det) as [[l' d2]|] eqn:Et; [|discriminate]. inversion H; subst. cbn [all_leaves].
    eapply thread_dims; [|exact Hok|exact Et]. intros; eapply e_simple_dims; eassumption.
  Qed.

  Lemma e_curve_dims : forall o x det g d1, okdet o det -> e_curve c o x det = Some (g, d1) -> all_leaves o g = true /\ okdet o d1.
  Proof.
    intros o x det g d1 Hok H. destruct x as [k d cs | k l]; [exact (e_simple_dims o _ det g d1 Hok H)|].
    destruct k; try exact (e_simple_dims o _ det g d1 Hok H). cbn [e_curve] in H.
    eapply e_inner_dims; [exact Hok | | exact H]. intros g' v E. eapply (fin_dims o _ g' v); [|exact E].
    intros g0 d0 E0. eapply e_compound_dims; [apply okdet_start | exact E0].
  Qed.

  Lemma e_polygon_dims : forall o g l det g' d1, okdet o det -> e_polygon_body o g l det = Some (g', d1) -> all_leaves o g' = true /\ okdet o d1.
  Proof.
    intros o g l det g' d1 Hok H. unfold e_polygon_body in H. destruct (isEmpty g).
    - inversion H; subst. cbn [all_leaves forallb empty_ring]. rewrite (cur_ok o d1 Hok), dims_eqb_refl. split; [reflexivity | exact Hok].
    - destruct (thread (e_ring o) l det) as [[l' d2]|] eqn:Et; [|discriminate]. inversion H; subst. cbn [all_leaves].
      eapply thread_dims; [|exact Hok|exact Et]. intros x dd gg dd1 _ Hk Ex. destruct x; cbn [e_ring] in Ex; [|discriminate]. eapply e_seq_dims; eassumption.
  Qed.

  Lemma e_curvepolygon_dims : forall o g l det g' d1, okdet o det -> e_curvepolygon_body c o g l det = Some (g', d1) -> all_leaves o g' = true /\ okdet o d1.
  Proof.
    intros o g l det g' d1 Hok H. unfold e_curvepolygon_body in H. destruct (isEmpty g).
    - inversion H; subst. cbn [all_leaves forallb empty_ring]. rewrite (cur_ok o d1 Hok), dims_eqb_refl. split; [reflexivity | exact Hok].
    - destruct (thread (e_curve c o) l det) as [[l' d2]|] eqn:Et; [|discriminate]. inversion H; subst. cbn [all_leaves].
      eapply thread_dims; [|exact Hok|exact Et]. intros; eapply e_curve_dims; eassumption.
  Qed.

  Lemma e_surface_dims : forall o x det g d1, okdet o det -> e_surface c o x det = Some (g, d1) -> all_leaves o g = true /\ okdet o d1.
  Proof.
    intros o x det g d1 Hok H. destruct x as [k d cs | k l]; [discriminate|]. destruct k; cbn [e_surface] in H; try discriminate.
    - eapply e_polygon_dims; eassumption.
    - eapply e_inner_dims; [exact Hok | | exact H]. intros g' v E. eapply (fin_dims o _ g' v); [|exact E].
      intros g0 d0 E0. eapply e_curvepolygon_dims; [apply okdet_start | exact E0].
  Qed.

  (* a geometry without Z and M, or written in two dimensions, has XY output ordinates, and so have all its parts *)
  Definition flat (g : geom) : Prop := c_dim c = 2 \/ (hasZ g = false /\ hasM g = false).

  Lemma clip_XY : forall g, valid_cfg c = true -> flat g -> out_ordinates c g = XY.
  Proof.
    intros g Hv [H2 | [Hz Hm]]; unfold out_ordinates, clip; [rewrite H2 | rewrite Hz, Hm].
    - destruct (hasZ g), (hasM g); reflexivity.
    - unfold valid_cfg in Hv. apply andb_prop in Hv. destruct Hv as [Hv1 Hv2]. apply Z.leb_le in Hv1. apply Z.leb_le in Hv2.
      assert (c_dim c = 2 \/ c_dim c = 3 \/ c_dim c = 4) as [-> | [-> | ->]] by lia; reflexivity.
  Qed.

  Lemma flat_member : forall k l x, flat (GNode k l) -> In x l -> flat x.
  Proof.
    intros k l x [H2 | [Hz Hm]] Hin; [left; exact H2 | right]. cbn [hasZ hasM] in Hz, Hm.
    split.
    - destruct (hasZ x) eqn:E; [|reflexivity]. assert (existsb hasZ l = true) by (apply existsb_exists; exists x; auto). congruence.
    - destruct (hasM x) eqn:E; [|reflexivity]. assert (existsb hasM l = true) by (apply existsb_exists; exists x; auto). congruence.
  Qed.

  (* with standard tags every coordinate sequence that comes back carries exactly the ordinates its tagged element was written with *)
  Theorem expect_o_dims : valid_cfg c = true -> forall n g o g' v, (gsize g <= n)%nat ->
    (o = XY -> flat g) -> expect_o c o g = Some (g', v) -> all_leaves o g' = true /\ v = o.
  Proof.
    intros Hv n. induction n as [|n IH]; intros g o g' v Hs Hflat H; [pose proof (gsize_pos g); lia|].
    pose proof (okdet_start o) as Hok.
    destruct g as [k d cs | k l].
    - cbn [expect_o] in H. eapply fin_dims; [|exact H]. intros; eapply e_seq_dims; eassumption.
    - destruct k; cbn [expect_o] in H.
      + eapply fin_dims; [|exact H]. intros; eapply e_compound_dims; eassumption.
      + eapply fin_dims; [|exact H]. intros; eapply e_polygon_dims; eassumption.
      + eapply fin_dims; [|exact H]. intros; eapply e_curvepolygon_dims; eassumption.
      + eapply fin_dims; [|exact H]. intros g0 d0 E0. unfold e_list in E0.
        destruct (thread (e_point o) l (tag_written c o)) as [[l' d2]|] eqn:Et; [|discriminate]. inversion E0; subst. cbn [all_leaves].
        eapply thread_dims; [|exact Hok|exact Et]. intros x dd gg dd1 _ Hk Ex. destruct x as [kk dx [|p cs] | kk m]; cbn [e_point] in Ex; try discriminate; eapply e_seq_dims; eassumption.
      + eapply fin_dims; [|exact H]. intros g0 d0 E0. unfold e_list in E0.
        destruct (thread (e_line c o) l (tag_written c o)) as [[l' d2]|] eqn:Et; [|discriminate]. inversion E0; subst. cbn [all_leaves].
        eapply thread_dims; [|exact Hok|exact Et]. intros x dd gg dd1 _ Hk Ex. destruct x as [[] dx cs | kk m]; cbn [e_line] in Ex; try discriminate. eapply e_seq_dims; eassumption.
      + eapply fin_dims; [|exact H]. intros g0 d0 E0. unfold e_list in E0.
        destruct (thread (e_polygon_member o) l (tag_written c o)) as [[l' d2]|] eqn:Et; [|discriminate]. inversion E0; subst. cbn [all_leaves].
        eapply thread_dims; [|exact Hok|exact Et]. intros x dd gg dd1 _ Hk Ex. destruct x as [kk dx cs | [] m]; cbn [e_polygon_member] in Ex; try discriminate. eapply e_polygon_dims; eassumption.
      + eapply fin_dims; [|exact H]. intros g0 d0 E0. unfold e_list in E0.
        destruct (thread (e_curve c o) l (tag_written c o)) as [[l' d2]|] eqn:Et; [|discriminate]. inversion E0; subst. cbn [all_leaves].
        eapply thread_dims; [|exact Hok|exact Et]. intros; eapply e_curve_dims; eassumption.
      + eapply fin_dims; [|exact H]. intros g0 d0 E0. unfold e_list in E0.
        destruct (thread (e_surface c o) l (tag_written c o)) as [[l' d2]|] eqn:Et; [|discriminate]. inversion E0; subst. cbn [all_leaves].
        eapply thread_dims; [|exact Hok|exact Et]. intros; eapply e_surface_dims; eassumption.
      + (* collection: a member ends with the collection's ordinates when these are tagged; when they are XY the member is flat too *)
        destruct (collection_members_expect c o (tag_written c o) l) as [C1 _]. rewrite C1 in H.
        destruct (thread (fun x det => e_inner o (expect_o c (out_ordinates c x) x) det) l (tag_written c o)) as [[l' d2]|] eqn:Et; [|discriminate].
        inversion H; subst. split; [|apply cur_ok; exact Hok]. cbn [all_leaves].
        refine (proj1 (thread_dims _ o l (tag_written c o) l' d2 _ Hok Et)).
        intros x det g1 d1 Hin Hk Ex. cbn beta in Ex.
        assert (gsize x <= n)%nat as Hsx by (rewrite gsize_node in Hs; pose proof (sum_sizes_In l x Hin); pose proof (gsize_pos x); lia).
        unfold e_inner in Ex. destruct (expect_o c (out_ordinates c x) x) as [[gx vx]|] eqn:Exx; [|discriminate].
        destruct (det && negb (dims_eqb vx o)) eqn:Echk; inversion Ex; subst. split; [|exact Hk].
        destruct Hk as [-> | ->].
        * (* determined: the check passed, so the member's final ordinates are o *)
          cbn [andb] in Echk. apply negb_false_iff in Echk. apply dims_eqb_eq in Echk.
          destruct (dims_eqb (out_ordinates c x) XY) eqn:Exy.
          -- apply dims_eqb_eq in Exy.
             (* an XY member: it can only have passed the check if o = XY as well; then everything is flat *)
             assert (vx = out_ordinates c x) as Ev.
             { destruct (dims_eqb o XY) eqn:Eo.
               - apply dims_eqb_eq in Eo. eapply (IH x (out_ordinates c x) g1 vx Hsx); [|exact Exx]. intros _. eapply flat_member; [apply Hflat; exact Eo | exact Hin].
               - rewrite Exy in Exx. rewrite Exy. destruct x as [kx dx csx | kx lx].
                 + cbn [expect_o] in Exx. unfold fin, e_seq in Exx. destruct csx; inversion Exx; destruct (tag_written c XY); reflexivity.
                 + (* final value of a node read under XY ordinates is XY whatever its state *)
                   destruct kx; cbn [expect_o] in Exx; unfold fin in Exx;
                     repeat match type of Exx with context [match ?t with _ => _ end] => destruct t eqn:? end; try discriminate; inversion Exx;
                     match goal with |- cur XY ?b = XY => destruct b; reflexivity end. }
             rewrite Ev in Echk. rewrite <- Echk.
             destruct (dims_eqb o XY) eqn:Eo.
             ++ apply dims_eqb_eq in Eo. refine (proj1 (IH x (out_ordinates c x) g1 vx Hsx _ Exx)). intros _. eapply flat_member; [apply Hflat; exact Eo | exact Hin].
             ++ exfalso. rewrite <- Echk, Exy in Eo. discriminate Eo.
          -- destruct (IH x (out_ordinates c x) g1 vx Hsx) as [A B]; [intros E0; rewrite E0 in Exy; discriminate Exy | exact Exx|].
             rewrite B in Echk. rewrite <- Echk. exact A.
        * (* the collection is XY and untagged: by flatness the member's ordinates are XY too *)
          specialize (Hflat eq_refl). pose proof (flat_member _ _ _ Hflat Hin) as Hfx.
          rewrite (clip_XY x Hv Hfx) in Exx. refine (proj1 (IH x XY g1 vx Hsx (fun _ => Hfx) Exx)).
  Qed.

  Theorem expect_dims : valid_cfg c = true -> forall g g', expect c g = Some g' -> all_leaves (out_ordinates c g) g' = true.
  Proof.
    intros Hv g g' H. unfold expect, expect_tagged in H. destruct (expect_o c (out_ordinates c g) g) as [[g2 v]|] eqn:E; inversion H; subst.
    refine (proj1 (expect_o_dims Hv (gsize g) g (out_ordinates c g) g' v (le_n _) _ E)).
    intros Hxy. unfold out_ordinates, clip in Hxy. unfold flat.
    unfold valid_cfg in Hv. apply andb_prop in Hv. destruct Hv as [Hv1 Hv2]. apply Z.leb_le in Hv1. apply Z.leb_le in Hv2.
    assert (c_dim c = 2 \/ c_dim c = 3 \/ c_dim c = 4) as Hd by lia.
    destruct (hasZ g), (hasM g); try (right; split; reflexivity);
      destruct Hd as [E2 | [E3 | E4]]; try (left; exact E2);
      first [rewrite E3 in Hxy | rewrite E4 in Hxy]; discriminate Hxy.
  Qed.
End Std.

(* ------------------------------------------------------------------ the round trip, spelled out *)
Theorem roundtrip_shape : forall c g g', wf g = true -> parse (print_tokens c g) = Some g' -> erase g' = erase g.
Proof. intros c g g' Hw H. rewrite parse_print in H by assumption. eapply expect_erase; eassumption. Qed.

Theorem roundtrip_dims : forall c g g', wf g = true -> valid_cfg c = true -> c_old3d c = false ->
  parse (print_tokens c g) = Some g' -> all_leaves (out_ordinates c g) g' = true.
Proof. intros c g g' Hw Hv Hs H. rewrite parse_print in H by assumption. eapply expect_dims; eassumption. Qed.
