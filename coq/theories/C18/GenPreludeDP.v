(* C18 — meaning of the abstract names in the translator output for
   geos::simplify::DouglasPeuckerLineSimplifier::simplifySection (unit DP_simplifySection, Gen/DP_simplifySection.v).
   Definitions only.

   Representation boundary (the reading under which C18/DPDefs.v was written):
   * the object (`this`) is a record of the members the function touches: the coordinate sequence `pts` (a list of integer
     points, indexed from 0), the marks `usePt` (std::vector<bool> as a list of bool) and `distanceTolerance`;
   * a `double` that holds a DISTANCE d is represented by the exact rational d*|d| (the signed square), kept as a pair
     num/den with den > 0 and compared by cross-multiplication.  x -> x*|x| is strictly increasing on the reals, so `>` and `<=`
     between distances are the code's comparisons on exact values; the sentinel literal -1.0 becomes -1, which is below
     every squared distance exactly as -1.0 is below every distance.  distanceTolerance is therefore held as tol*|tol| (= T2);
   * LineSegment(a, b).distance(p) is Distance::pointToSegment, squared: DPDefs.dist2_pt_seg p a b;
   * std::size_t indices are Z (no wrap-around: every index that occurs is below the length of a list);
     pts[k] = nth k; usePt[k] = v overwrites position k (out of range: no effect — the theorems keep indices in range);
   * binary64 rounding of the distance computation is NOT modelled (see design/C18.md: ties). *)
From Coq Require Import ZArith List Bool.
From GeosV.C18 Require Import DPDefs.
Import ListNotations.
Local Open Scope Z_scope.

Record dp_state := mkDP { f_pts : list pt; f_usePt : list bool; f_distanceTolerance : rat }.

Fixpoint upd_nth {A} (n : nat) (l : list A) (v : A) : list A :=
  match l, n with
  | [], _ => []
  | _ :: t, O => v :: t
  | h :: t, S n' => h :: upd_nth n' t v
  end.

Definition set1_usePt (st : dp_state) (k : Z) (v : bool) : dp_state :=
  mkDP (f_pts st) (upd_nth (Z.to_nat k) (f_usePt st) v) (f_distanceTolerance st).

Definition c_opidx_2 (s : list pt) (k : Z) : pt := nth (Z.to_nat k) s (0, 0).
Definition mk_LineSegment_2 (a b : pt) : pt * pt := (a, b).
Definition m_distance_1 (seg : pt * pt) (p : pt) : rat := dist2_pt_seg p (fst seg) (snd seg).

(* distance-valued doubles as signed squares *)
Definition flit (bits num den : Z) : rat := (num * Z.abs num, den * den).
Definition neg (r : rat) : rat := (- fst r, snd r).
Definition gtb (a b : rat) : bool := rlt b a.
Definition leb (a b : rat) : bool := rle a b.
Definition ltb (a b : rat) : bool := rlt a b.
Definition geb (a b : rat) : bool := rle b a.

Definition zrange (lo hi : Z) : list Z := map (fun k => lo + Z.of_nat k) (seq 0 (Z.to_nat (hi - lo))).
