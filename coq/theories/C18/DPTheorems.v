(* C18 — the Douglas–Peucker theorems in geometric form: every input vertex is within the tolerance of the simplified
   line (twice the tolerance after the closed-ring origin step), zero tolerance is the identity exactly when no interior
   vertex lies on the chord of its section, and what is dropped at zero tolerance lies ON the simplified line. *)
From Coq Require Import ZArith Reals Lra Lia Bool List Arith Sorted.
From GeosV.C18 Require Import DPDefs DPProofs DPMetric.
Import ListNotations.

(* v is within squared distance T of some point of some segment of the polyline `out` *)
Definition near_line (T : R) (v : pt) (out : list pt) : Prop :=
  exists a b t, adjacent a b out /\ (0 <= t <= 1)%R /\ (Rd2 (Rpt v) (on_seg (Rpt a) (Rpt b) t) <= T)%R.

Lemma near_line_weaken T T' v out : (T <= T')%R -> near_line T v out -> near_line T' v out.
Proof. intros H (a & b & t & Ha & Ht & Hd). exists a, b, t. repeat split; try tauto. lra. Qed.

Lemma within_near T2 v a b out : rok T2 -> rle (dist2_pt_seg v a b) T2 = true -> adjacent a b out ->
  near_line (rval T2) v out.
Proof.
  intros HT Hle Hadj. destruct (dist2_pt_seg_attained v a b) as (t & Ht & Heq).
  exists a, b, t. repeat split; try tauto. rewrite Heq. apply rle_rval; [apply dist2_rok | exact HT | exact Hle].
Qed.

Lemma on_seg_0 a b : on_seg a b 0 = a.
Proof. unfold on_seg. destruct a. cbn [fst snd]. f_equal; ring. Qed.
Lemma on_seg_1 a b : on_seg a b 1 = b.
Proof. unfold on_seg. destruct a, b. cbn [fst snd]. f_equal; ring. Qed.
Lemma on_seg_same a t : on_seg a a t = a.
Proof. unfold on_seg. destruct a. cbn [fst snd]. f_equal; ring. Qed.
Lemma Rd2_same p : Rd2 p p = 0%R.
Proof. unfold Rd2. ring. Qed.

Lemma in_adjacent {A} (x : A) l : In x l -> (2 <= length l)%nat -> exists y, adjacent x y l \/ adjacent y x l.
Proof.
  intros Hin Hlen. apply in_split in Hin as (l1 & l2 & ->).
  destruct l2 as [|y l2].
  - destruct (exists_last (l := l1)) as (l1' & y & ->).
    { intros ->. cbn in Hlen. lia. }
    exists y. right. exists l1', []. rewrite <- app_assoc. reflexivity.
  - exists y. left. exists l1, l2. reflexivity.
Qed.

Lemma vertex_near T v out : (0 <= T)%R -> In v out -> (2 <= length out)%nat -> near_line T v out.
Proof.
  intros HT Hin Hlen. destruct (in_adjacent v out Hin Hlen) as (y & [H | H]).
  - exists v, y, 0%R. repeat split; [exact H | lra | lra |]. rewrite on_seg_0, Rd2_same. exact HT.
  - exists y, v, 1%R. repeat split; [exact H | lra | lra |]. rewrite on_seg_1, Rd2_same. exact HT.
Qed.

Lemma rval_nonneg r : rok r -> (0 <= fst r)%Z -> (0 <= rval r)%R.
Proof.
  unfold rok, rval. intros H1 H2. apply IZR_lt in H1. apply IZR_le in H2.
  apply Rmult_le_pos; [exact H2 | apply Rlt_le, Rinv_0_lt_compat; exact H1].
Qed.

Section Line.
  Variable T2 : rat.
  Variable pts : list pt.
  Hypothesis T2ok : rok T2.
  Hypothesis T2pos : (0 <= fst T2)%Z.
  Notation P := (P pts).

  Lemma dp_points_length : (2 <= length pts)%nat -> (2 <= length (dp_points T2 pts))%nat.
  Proof.
    intros H. unfold dp_points, dp_indices. destruct (length pts) as [|[|n]]; [lia | lia |].
    rewrite map_length. cbn [length]. rewrite app_length. cbn [length]. lia.
  Qed.

  (* every input vertex lies within the tolerance of the simplified line *)
  Theorem dp_within_tol_R : (2 <= length pts)%nat -> forall v, In v pts -> near_line (rval T2) v (dp_points T2 pts).
  Proof.
    intros Hlen v Hin. apply (In_nth _ _ (0, 0)%Z) in Hin as (k & Hk & <-). change (nth k pts (0, 0)%Z) with (P k).
    destruct (dp_line_within T2 pts T2ok k Hk) as [Hkept | (a & b & Hadj & Hab & Hw)].
    - apply vertex_near; [apply rval_nonneg; assumption | | apply dp_points_length; exact Hlen].
      unfold dp_points. apply in_map. exact Hkept.
    - apply within_near with (a := P a) (b := P b); [exact T2ok | exact Hw |].
      unfold dp_points. apply adjacent_map. exact Hadj.
  Qed.
End Line.

(* ------------------------------------------------------------------ the closed-ring origin step *)
Lemma hd_app_ne {A} (d : A) l r : l <> [] -> hd d (l ++ r) = hd d l.
Proof. destruct l; [congruence | reflexivity]. Qed.

Lemma chord_near T v body A B t : (2 <= length body)%nat -> A = last body (0, 0)%Z -> B = hd (0, 0)%Z body ->
  (0 <= t <= 1)%R -> (Rd2 (Rpt v) (on_seg (Rpt A) (Rpt B) t) <= T)%R -> near_line T v (close_ring body).
Proof.
  intros Hlen HA HB Ht Hd.
  destruct body as [|b0 [|b1 rest]]; [cbn in Hlen; lia | cbn in Hlen; lia |].
  cbn [hd] in HB. subst B.
  change (close_ring (b0 :: b1 :: rest)) with
    (if pt_eqb b0 (last (b0 :: b1 :: rest) (0, 0)%Z) then b0 :: b1 :: rest else (b0 :: b1 :: rest) ++ [b0]).
  destruct (pt_eqb b0 (last (b0 :: b1 :: rest) (0, 0)%Z)) eqn:E.
  - apply pt_eqb_eq in E. rewrite <- HA in E. rewrite <- E in Hd. rewrite on_seg_same in Hd.
    exists b0, b1, 0%R. repeat split; [exists [], rest; reflexivity | lra | lra |]. rewrite on_seg_0. exact Hd.
  - exists A, b0, t. repeat split; try tauto.
    destruct (exists_last (l := b0 :: b1 :: rest)) as (l' & z & El); [discriminate|].
    rewrite El in HA. rewrite last_last in HA. subst z. rewrite El. exists l', []. rewrite <- app_assoc. reflexivity.
Qed.

Lemma adjacent_close_ring (a b : pt) body : adjacent a b body -> adjacent a b (close_ring body).
Proof.
  intros H. destruct body as [|x r]; [exact H|].
  change (close_ring (x :: r)) with (if pt_eqb x (last (x :: r) (0, 0)%Z) then x :: r else (x :: r) ++ [x]).
  destruct (pt_eqb x (last (x :: r) (0, 0)%Z)); [exact H | apply adjacent_app_l; exact H].
Qed.

Lemma ring_near T v o body : (2 <= length body)%nat -> (0 <= T)%R ->
  (exists t2, (0 <= t2 <= 1)%R /\ (Rd2 (Rpt o) (on_seg (Rpt (last body (0, 0)%Z)) (Rpt (hd (0, 0)%Z body)) t2) <= T)%R) ->
  near_line T v (o :: body ++ [o]) -> near_line (4 * T) v (close_ring body).
Proof.
  intros Hlen HT (t2 & Ht2 & HO) (a & b & t & (l1 & l2 & Hadj) & Ht & Hd).
  set (A := last body (0, 0)%Z) in *. set (B := hd (0, 0)%Z body) in *.
  assert (Hbody : body <> []) by (intros ->; cbn in Hlen; lia).
  destruct l1 as [|o' l1].
  - (* first segment (o, B) *)
    cbn [app] in Hadj. inversion Hadj as [[Ho Hrest]]. subst a.
    assert (Hb : b = B).
    { unfold B. destruct body as [|b0 r]; [congruence|]. cbn in Hrest. inversion Hrest. reflexivity. }
    subst b.
    destruct (two_tol_right (Rpt v) (Rpt A) (Rpt o) (Rpt B) t t2 T Ht Ht2 Hd HO) as (Hr & Hd4).
    apply chord_near with (A := A) (B := B) (t := (t2 + t * (1 - t2))%R); auto.
  - cbn [app] in Hadj. inversion Hadj as [[Ho Hrest]]. subst o'.
    destruct l2 as [|z l2].
    + (* last segment (A, o) *)
      assert (E : body ++ [o] = (l1 ++ [a]) ++ [b]) by (rewrite Hrest, <- app_assoc; reflexivity).
      apply app_inj_tail in E as [Eb Eo]. subst b.
      assert (Ha : a = A) by (unfold A; rewrite Eb, last_last; reflexivity). subst a.
      destruct (two_tol_left (Rpt v) (Rpt A) (Rpt o) (Rpt B) t t2 T Ht Ht2 Hd HO) as (Hr & Hd4).
      apply chord_near with (A := A) (B := B) (t := (t * t2)%R); auto.
    + (* a segment of the body itself *)
      destruct (exists_last (l := z :: l2)) as (l2' & w & El2); [discriminate|].
      rewrite El2 in Hrest.
      assert (E : body ++ [o] = (l1 ++ a :: b :: l2') ++ [w]).
      { rewrite Hrest, <- app_assoc. cbn [app]. reflexivity. }
      apply app_inj_tail in E as [Eb _].
      exists a, b, t. repeat split; try tauto; [|lra].
      apply adjacent_close_ring. exists l1, l2'. exact Eb.
Qed.

Section Ring.
  Variable T2 : rat.
  Variable pts : list pt.
  Hypothesis T2ok : rok T2.
  Hypothesis T2pos : (0 <= fst T2)%Z.
  Notation P := (P pts).

  Lemma ring_step_shape o body z : (2 <= length body)%nat ->
    ring_step T2 (o :: body ++ [z]) =
    if rle (dist2_pt_seg o (last body (0, 0)%Z) (hd (0, 0)%Z body)) T2 then close_ring body else o :: body ++ [z].
  Proof.
    intros Hlen. unfold ring_step. cbn [length]. rewrite app_length. cbn [length].
    replace (3 <? S (length body + 1))%nat with true by (symmetry; apply Nat.ltb_lt; lia).
    cbn [andb].
    replace (S (length body + 1) - 2)%nat with (length body) by lia.
    change (nth 0 (o :: body ++ [z]) (0, 0)%Z) with o.
    change (nth 1 (o :: body ++ [z]) (0, 0)%Z) with (nth 0 (body ++ [z]) (0, 0)%Z).
    assert (E1 : nth (length body) (o :: body ++ [z]) (0, 0)%Z = last body (0, 0)%Z).
    { destruct body as [|b0 r]; [cbn in Hlen; lia|]. cbn [length nth]. rewrite app_nth1 by (cbn; lia).
      rewrite last_nth. cbn [length]. replace (S (length r) - 1)%nat with (length r) by lia. reflexivity. }
    assert (E2 : nth 0 (body ++ [z]) (0, 0)%Z = hd (0, 0)%Z body).
    { destruct body; [cbn in Hlen; lia | reflexivity]. }
    rewrite E1, E2.
    assert (E3 : firstn (length body) (skipn 1 (o :: body ++ [z])) = body).
    { cbn [skipn]. rewrite firstn_app, Nat.sub_diag, firstn_all. cbn. apply app_nil_r. }
    rewrite E3. reflexivity.
  Qed.

  (* closed rings: every input vertex lies within TWICE the tolerance of the simplified ring *)
  Theorem dp_ring_2tol_R : is_ring pts = true -> forall v, In v pts -> near_line (4 * rval T2) v (dp_simplify T2 pts false).
  Proof.
    intros Hring v Hin. unfold dp_simplify. rewrite Hring. cbn [negb andb].
    unfold is_ring in Hring. apply andb_true_iff in Hring as [Hn Hclosed]. apply Nat.leb_le in Hn.
    apply pt_eqb_eq in Hclosed.
    assert (Hlen2 : (2 <= length pts)%nat) by lia.
    pose proof (dp_within_tol_R T2 pts T2ok T2pos Hlen2 v Hin) as Hnear.
    pose proof (rval_nonneg T2 T2ok T2pos) as HT.
    unfold dp_points, dp_indices in *. destruct (length pts) as [|[|n]] eqn:En; [lia | lia |].
    set (K := kept T2 pts (S n) 0 (S n)) in *.
    change (map P (0%nat :: K ++ [S n])) with (P 0%nat :: map P (K ++ [S n])) in *.
    rewrite map_app in *. cbn [map] in *.
    assert (Hz : P (S n) = P 0%nat).
    { unfold DPDefs.P. rewrite last_nth, En in Hclosed. replace (S (S n) - 1)%nat with (S n) in Hclosed by lia.
      rewrite <- Hclosed. destruct pts; reflexivity. }
    rewrite Hz in *.
    destruct (le_lt_dec 2 (length (map P K))) as [Hbig | Hsmall].
    - rewrite ring_step_shape by exact Hbig.
      destruct (rle (dist2_pt_seg (P 0%nat) (last (map P K) (0, 0)%Z) (hd (0, 0)%Z (map P K))) T2) eqn:Efire.
      + apply ring_near with (o := P 0%nat); [exact Hbig | exact HT | | exact Hnear].
        destruct (dist2_pt_seg_attained (P 0%nat) (last (map P K) (0, 0)%Z) (hd (0, 0)%Z (map P K))) as (t2 & Ht2 & Heq).
        exists t2. split; [exact Ht2|]. eapply Rle_trans; [apply Req_le; exact Heq|]. apply rle_rval; [apply dist2_rok | exact T2ok | exact Efire].
      + apply near_line_weaken with (T := rval T2); [lra | exact Hnear].
    - unfold ring_step. cbn [length]. rewrite app_length. cbn [length].
      replace (3 <? S (length (map P K) + 1))%nat with false by (symmetry; apply Nat.ltb_ge; lia).
      cbn [andb]. apply near_line_weaken with (T := rval T2); [lra | exact Hnear].
  Qed.

  (* the ring step only drops vertices (and repeats the new first vertex to re-close the ring) *)
  Lemma close_ring_in (l : list pt) v : In v (close_ring l) -> In v l.
  Proof.
    destruct l as [|x r]; [intros []|].
    change (close_ring (x :: r)) with (if pt_eqb x (last (x :: r) (0, 0)%Z) then x :: r else (x :: r) ++ [x]).
    destruct (pt_eqb x (last (x :: r) (0, 0)%Z)); [tauto|].
    intros H. apply in_app_or in H as [H | [<- | []]]; [exact H | left; reflexivity].
  Qed.
  Lemma ring_step_in cl v : In v (ring_step T2 cl) -> In v cl.
  Proof.
    unfold ring_step. destruct (_ && _); [|tauto].
    intros H. apply close_ring_in in H.
    eapply subseq_in; [|exact H]. eapply subseq_trans; [apply subseq_firstn | apply subseq_skipn].
  Qed.

  Theorem dp_simplify_vertices_subset preserve v : In v (dp_simplify T2 pts preserve) -> In v pts.
  Proof.
    unfold dp_simplify. intros H.
    assert (H' : In v (dp_points T2 pts)) by (destruct (_ && _); [apply ring_step_in; exact H | exact H]).
    eapply subseq_in; [apply dp_points_subseq; exact T2ok | exact H'].
  Qed.
End Ring.

(* ------------------------------------------------------------------ zero tolerance *)
Definition T0 : rat := (0, 1)%Z.

Section Zero.
  Variable pts : list pt.
  Notation P := (P pts).
  (* the hypothesis the proof forces: no interior vertex at distance 0 from a chord that spans it *)
  Definition no_vertex_on_chord : Prop :=
    forall i k j, (i < k < j)%nat -> (j < length pts)%nat -> (0 < fst (dist2_pt_seg (P k) (P i) (P j)))%Z.

  Lemma kept_zero_all : no_vertex_on_chord -> forall fuel i j, (j - i <= fuel)%nat -> (j < length pts)%nat ->
    kept T0 pts fuel i j = seq (S i) (j - i - 1).
  Proof.
    intros H. induction fuel as [|f IH]; intros i j Hf Hj.
    - replace (j - i - 1)%nat with 0%nat by lia. reflexivity.
    - cbn [kept]. destruct (Nat.leb_spec j (S i)) as [Hle|Hgt].
      + replace (j - i - 1)%nat with 0%nat by lia. reflexivity.
      + destruct (find_max_spec pts i j Hgt) as (Hm & Hfst & _).
        set (m := snd (find_max pts i j)) in *.
        assert (Hnot : rle (fst (find_max pts i j)) T0 = false).
        { rewrite Hfst. specialize (H i m j Hm Hj). unfold rle, T0. cbn [fst snd]. apply Z.leb_gt. lia. }
        rewrite Hnot. rewrite (IH i m) by lia. rewrite (IH m j) by lia.
        replace (j - i - 1)%nat with ((m - i - 1) + S (j - m - 1))%nat by lia.
        rewrite seq_app. cbn [seq]. replace (S i + (m - i - 1))%nat with m by lia. reflexivity.
  Qed.

  Lemma map_P_seq : map P (seq 0 (length pts)) = pts.
  Proof.
    apply nth_ext with (d := (0, 0)%Z) (d' := (0, 0)%Z); [rewrite map_length, seq_length; reflexivity|].
    intros n Hn. rewrite map_length, seq_length in Hn.
    rewrite (nth_indep _ (0, 0)%Z (P 0%nat)) by (rewrite map_length, seq_length; exact Hn).
    rewrite map_nth, seq_nth by exact Hn. reflexivity.
  Qed.

  Theorem dp_zero_tol_identity_line : no_vertex_on_chord -> dp_points T0 pts = pts.
  Proof.
    intros H. unfold dp_points, dp_indices. destruct (length pts) as [|[|n]] eqn:En.
    - destruct pts; [reflexivity | discriminate].
    - destruct pts as [|a [|b l]]; try discriminate. reflexivity.
    - rewrite kept_zero_all by (try exact H; lia).
      replace (0%nat :: seq 1 (S n - 0 - 1) ++ [S n]) with (seq 0 (S (S n))).
      + rewrite <- En. apply map_P_seq.
      + replace (S n - 0 - 1)%nat with n by lia. replace (S (S n)) with (S n + 1)%nat by lia.
        rewrite seq_app. cbn [seq]. reflexivity.
  Qed.

  (* what IS dropped at zero tolerance lies exactly on the chord between its two neighbours in the output *)
  Theorem dp_zero_tol_dropped_on_chord : forall k, (k < length pts)%nat ->
    In k (dp_indices T0 pts) \/
    exists a b, adjacent a b (dp_indices T0 pts) /\ (a < k < b)%nat /\ fst (dist2_pt_seg (P k) (P a) (P b)) = 0%Z.
  Proof.
    intros k Hk. destruct (dp_line_within T0 pts ltac:(unfold rok, T0; cbn; lia) k Hk) as [Hin | (a & b & Hadj & Hab & Hw)].
    - left. exact Hin.
    - right. exists a, b. repeat split; try tauto; try lia.
      apply rle_iff in Hw. unfold T0 in Hw. cbn [fst snd] in Hw.
      pose proof (dist2_nonneg (P k) (P a) (P b)). lia.
  Qed.
End Zero.

Theorem dp_zero_tol_identity : forall pts preserve, no_vertex_on_chord pts ->
  (0 < fst (dist2_pt_seg (P pts 0) (P pts (length pts - 2)) (P pts 1)))%Z ->
  dp_simplify T0 pts preserve = pts.
Proof.
  intros pts preserve H Horig. unfold dp_simplify. rewrite (dp_zero_tol_identity_line pts H).
  destruct (negb preserve && is_ring pts); [|reflexivity].
  unfold ring_step. destruct (3 <? length pts)%nat; [|reflexivity]. cbn [andb].
  replace (rle _ T0) with false; [reflexivity|].
  symmetry. unfold rle, T0. cbn [fst snd]. apply Z.leb_gt. unfold P in Horig. lia.
Qed.

(* without the hypothesis the statement "zero tolerance returns the input unchanged" is false (finding F6) *)
Theorem dp_zero_tol_refuted : ~ (forall pts, dp_simplify T0 pts true = pts).
Proof.
  intros H. specialize (H [(0, 0); (1, 0); (2, 0)]%Z). vm_compute in H. discriminate.
Qed.

(* open lines, and closed lines whose end point is preserved: a subsequence of the input that keeps both end points *)
Theorem dp_subsequence : forall T2 pts,
  subseq (dp_simplify T2 pts true) pts /\
  (pts <> [] -> hd (0, 0)%Z (dp_simplify T2 pts true) = hd (0, 0)%Z pts /\ last (dp_simplify T2 pts true) (0, 0)%Z = last pts (0, 0)%Z).
Proof.
  intros T2 pts. unfold dp_simplify. cbn [negb andb]. split; [apply dp_points_subseq|].
  intros Hne. split; [apply dp_points_hd; exact Hne | apply dp_points_last; exact Hne].
Qed.

(* the same holds for preserveEndpoint = false whenever the input is not a closed ring of >= 4 points *)
Theorem dp_subsequence_open : forall T2 pts b, is_ring pts = false ->
  dp_simplify T2 pts b = dp_simplify T2 pts true.
Proof. intros T2 pts b H. unfold dp_simplify. rewrite H, !andb_false_r. reflexivity. Qed.
