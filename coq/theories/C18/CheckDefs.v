(* C18 — relational specifications R, executable side: checkers run (extracted) on the implementation's outputs.
   Exact integer coordinates; tolerances enter squared, as rationals.  Definitions only. *)
From Coq Require Import ZArith List Bool.
From GeosV.C18 Require Import DPDefs.
Import ListNotations.
Local Open Scope Z_scope.

Definition ring := list pt.
Definition polygon := list ring.            (* shell :: holes *)
Inductive comp := CLine (l : list pt) | CPoly (p : polygon).

(* ------------------------------------------------------------------ vertex lists *)
Definition mem (v : pt) (l : list pt) : bool := existsb (pt_eqb v) l.
Definition verts_subset (out inp : list pt) : bool := forallb (fun v => mem v inp) out.

Fixpoint is_subseq (s l : list pt) {struct l} : bool :=
  match l with
  | [] => match s with [] => true | _ :: _ => false end
  | b :: l' => match s with
               | [] => true
               | a :: s' => if pt_eqb a b then is_subseq s' l' else is_subseq s l'
               end
  end.

Fixpoint exists_adj (f : pt -> pt -> bool) (l : list pt) : bool :=
  match l with
  | a :: t => match t with b :: _ => f a b || exists_adj f t | [] => false end
  | [] => false
  end.
Fixpoint forall_adj (f : pt -> pt -> bool) (l : list pt) : bool :=
  match l with
  | a :: t => match t with b :: _ => f a b && forall_adj f t | [] => true end
  | [] => true
  end.
Fixpoint adj_pairs (l : list pt) : list (pt * pt) :=
  match l with
  | a :: t => match t with b :: _ => (a, b) :: adj_pairs t | [] => [] end
  | [] => []
  end.

(* v within squared distance T2 of some segment of the polyline out *)
Definition near_lineb (T2 : rat) (v : pt) (out : list pt) : bool :=
  exists_adj (fun a b => rle (dist2_pt_seg v a b) T2) out.
Definition all_near (T2 : rat) (inp out : list pt) : bool := forallb (fun v => near_lineb T2 v out) inp.

Definition ends_eq (inp out : list pt) : bool :=
  pt_eqb (hd (0, 0) out) (hd (0, 0) inp) && pt_eqb (last out (0, 0)) (last inp (0, 0)).

(* open line (or closed line whose end point is preserved): subsequence, both ends kept, every input vertex near *)
Definition check_line (T2 : rat) (inp out : list pt) : bool :=
  is_subseq out inp && ends_eq inp out && all_near T2 inp out.

(* closed ring whose origin may have been removed: vertex subset, cyclic order kept, closed, every input vertex near *)
Definition check_ring (T2 : rat) (inp out : list pt) : bool :=
  verts_subset out inp && is_subseq (removelast out) (removelast inp ++ removelast inp) &&
  pt_eqb (hd (0, 0) out) (last out (0, 0)) && all_near T2 inp out.

Fixpoint forallb2 {A B} (f : A -> B -> bool) (l : list A) (m : list B) : bool :=
  match l, m with
  | [], [] => true
  | a :: l', b :: m' => f a b && forallb2 f l' m'
  | _, _ => false
  end.

(* geometry level: same number of elements, same kind, same number of rings, each line / ring checked *)
Definition check_comp (T2 T2ring : rat) (cin cout : comp) : bool :=
  match cin, cout with
  | CLine a, CLine b => check_line T2 a b
  | CPoly ra, CPoly rb => forallb2 (check_ring T2ring) ra rb
  | _, _ => false
  end.
Definition check_simpl_geom (T2 T2ring : rat) (gin gout : list comp) : bool := forallb2 (check_comp T2 T2ring) gin gout.

(* ------------------------------------------------------------------ exact point location (even-odd), areas *)
Definition cross3 (a b p : pt) : Z := (px b - px a) * (py p - py a) - (py b - py a) * (px p - px a).
Definition on_segb (p a b : pt) : bool :=
  (cross3 a b p =? 0) && (Z.min (px a) (px b) <=? px p) && (px p <=? Z.max (px a) (px b))
  && (Z.min (py a) (py b) <=? py p) && (py p <=? Z.max (py a) (py b)).
(* does the half-open edge (a, b) cross the horizontal ray from p towards +x ? *)
Definition crossesb (p a b : pt) : bool :=
  if (py a <=? py p) && (py p <? py b) then 0 <? cross3 a b p
  else if (py b <=? py p) && (py p <? py a) then cross3 a b p <? 0
  else false.
Definition on_ringb (r : ring) (p : pt) : bool := exists_adj (fun a b => on_segb p a b) r.
Definition ring_parity (r : ring) (p : pt) : bool :=
  fold_left xorb (map (fun ab => crossesb p (fst ab) (snd ab)) (adj_pairs r)) false.
(* 0 = exterior, 1 = boundary, 2 = interior *)
Definition ring_loc (r : ring) (p : pt) : Z := if on_ringb r p then 1 else if ring_parity r p then 2 else 0.
Definition poly_loc (pg : polygon) (p : pt) : Z :=
  match pg with
  | [] => 0
  | shell :: holes =>
    match ring_loc shell p with
    | 0 => 0
    | 1 => 1
    | _ => if existsb (fun h => ring_loc h p =? 1) holes then 1
           else if existsb (fun h => ring_loc h p =? 2) holes then 0 else 2
    end
  end.
Definition mpoly_loc (mp : list polygon) (p : pt) : Z := fold_left Z.max (map (fun pg => poly_loc pg p) mp) 0.

Definition ring_area2 (r : ring) : Z :=
  fold_left Z.add (map (fun ab => px (fst ab) * py (snd ab) - px (snd ab) * py (fst ab)) (adj_pairs r)) 0.
Definition poly_area2 (pg : polygon) : Z :=
  match pg with [] => 0 | shell :: holes => Z.abs (ring_area2 shell) - fold_left Z.add (map (fun h => Z.abs (ring_area2 h)) holes) 0 end.
Definition mpoly_area2 (mp : list polygon) : Z := fold_left Z.add (map poly_area2 mp) 0.

(* sample points of a ring in DOUBLED coordinates: every vertex and every edge midpoint *)
Definition dbl (p : pt) : pt := (2 * px p, 2 * py p).
Definition ring_samples (r : ring) : list pt :=
  flat_map (fun ab => [dbl (fst ab); (px (fst ab) + px (snd ab), py (fst ab) + py (snd ab))]) (adj_pairs r).
Definition mpoly_dbl (mp : list polygon) : list polygon := map (map (map dbl)) mp.
Definition mpoly_samples (mp : list polygon) : list pt := flat_map (flat_map ring_samples) mp.
Definition mpoly_rings (mp : list polygon) : list ring := concat mp.

(* polygon hull: same structure, hull vertices among the input's (ring by ring), and
   outer: no vertex / edge midpoint of the input outside the hull, area not smaller;  inner: the converse *)
Definition check_hull (outer : bool) (min mout : list polygon) : bool :=
  forallb2 (fun pi po => forallb2 (fun ri ro => verts_subset ro ri) pi po) min mout &&
  (if outer
   then forallb (fun s => negb (mpoly_loc (mpoly_dbl mout) s =? 0)) (mpoly_samples min) && (mpoly_area2 min <=? mpoly_area2 mout)
   else forallb (fun s => negb (mpoly_loc (mpoly_dbl min) s =? 0)) (mpoly_samples mout) && (mpoly_area2 mout <=? mpoly_area2 min)).

(* ------------------------------------------------------------------ coverages: a list of elements, each a list of polygons *)
Definition seg := (pt * pt)%type.
Definition seg_eqb (s t : seg) : bool :=
  (pt_eqb (fst s) (fst t) && pt_eqb (snd s) (snd t)) || (pt_eqb (fst s) (snd t) && pt_eqb (snd s) (fst t)).
Definition cov_rings (c : list (list polygon)) : list ring := concat (concat c).
Definition cov_segs (c : list (list polygon)) : list seg := flat_map adj_pairs (cov_rings c).
Definition count_seg (s : seg) (l : list seg) : nat := length (filter (seg_eqb s) l).
Definition is_boundary_seg (all : list seg) (s : seg) : bool := (count_seg s all =? 1)%nat.
(* neighbours of v in the edge graph, without repetition *)
Definition add_new (v : pt) (l : list pt) : list pt := if mem v l then l else v :: l.
Definition neighbours (all : list seg) (v : pt) : list pt :=
  fold_left (fun acc s => if pt_eqb (fst s) v then add_new (snd s) acc
                          else if pt_eqb (snd s) v then add_new (fst s) acc else acc) all [].
Definition is_node (all : list seg) (v : pt) : bool := (3 <=? length (neighbours all v))%nat.

Definition seg_mem (s : seg) (l : list seg) : bool := existsb (seg_eqb s) l.

Definition check_cov_ring (preserve : bool) (allin : list seg) (ri ro : ring) : bool :=
  verts_subset ro ri && pt_eqb (hd (0, 0) ro) (last ro (0, 0)) &&
  forallb (fun v => negb (is_node allin v) || mem v ro) ri &&
  (negb preserve || forallb (fun s => negb (is_boundary_seg allin s) || seg_mem s (adj_pairs ro)) (adj_pairs ri)).

Definition removed_count (pi po : polygon) : Z :=
  Z.of_nat (length (concat pi)) - Z.of_nat (length (concat po)).
(* |area(out) - area(in)| <= removed * tol^2   (areas doubled: 2 * removed * T2) *)
Definition area_within (T2 : rat) (pi po : polygon) : bool :=
  Z.abs (poly_area2 po - poly_area2 pi) * snd T2 <=? 2 * removed_count pi po * fst T2.

Definition check_cov (preserve : bool) (T2 : rat) (cin cout : list (list polygon)) : bool :=
  let allin := cov_segs cin in
  let allout := cov_segs cout in
  forallb2 (fun ei eo => forallb2 (fun pi po => forallb2 (check_cov_ring preserve allin) pi po && area_within T2 pi po) ei eo) cin cout &&
  (negb preserve || forallb (fun s => negb (is_boundary_seg allout s) || (seg_mem s allin && is_boundary_seg allin s)) allout).
