(* C18 — combinatorial proofs about the Douglas–Peucker model (DPDefs.v): the running-maximum loop delivers a maximum,
   the recursion keeps a strictly increasing index list (so the output is a subsequence with both ends kept) and every
   dropped index lies between two ADJACENT kept indices whose chord is within tolerance of it. *)
From Coq Require Import ZArith List Bool Lia Arith Sorted.
From GeosV.C18 Require Import DPDefs.
Import ListNotations.
Local Open Scope Z_scope.

(* ------------------------------------------------------------------ rationals num/den with den > 0 *)
Definition rok (r : rat) : Prop := 0 < snd r.

Lemma rle_iff a b : rle a b = true <-> fst a * snd b <= fst b * snd a.
Proof. unfold rle. apply Z.leb_le. Qed.
Lemma rlt_iff a b : rlt a b = true <-> fst a * snd b < fst b * snd a.
Proof. unfold rlt. apply Z.ltb_lt. Qed.
Lemma rlt_false_rle a b : rlt a b = false -> rle b a = true.
Proof. unfold rlt, rle. intros H. apply Z.ltb_ge in H. apply Z.leb_le. lia. Qed.
Lemma rlt_rle a b : rlt a b = true -> rle a b = true.
Proof. unfold rlt, rle. intros H. apply Z.ltb_lt in H. apply Z.leb_le. lia. Qed.
Lemma rle_refl a : rle a a = true.
Proof. apply rle_iff. lia. Qed.

Lemma rle_trans a b c : rok a -> rok b -> rok c -> rle a b = true -> rle b c = true -> rle a c = true.
Proof.
  unfold rok. destruct a as [a1 a2], b as [b1 b2], c as [c1 c2]. cbn [fst snd].
  intros Ha Hb Hc H1 H2. apply rle_iff in H1. apply rle_iff in H2. apply rle_iff. cbn [fst snd] in *.
  assert (E1 : a1 * b2 * c2 <= b1 * a2 * c2) by (apply Z.mul_le_mono_nonneg_r; lia).
  assert (E2 : b1 * c2 * a2 <= c1 * b2 * a2) by (apply Z.mul_le_mono_nonneg_r; lia).
  assert (E3 : (a1 * c2) * b2 <= (c1 * a2) * b2) by lia.
  apply Z.mul_le_mono_pos_r in E3; lia.
Qed.

Lemma sq_nonneg x : 0 <= sq x.
Proof. unfold sq. nia. Qed.
Lemma d2pp_nonneg p q : 0 <= d2pp p q.
Proof. unfold d2pp. pose proof (sq_nonneg (px p - px q)). pose proof (sq_nonneg (py p - py q)). lia. Qed.

Lemma pt_eqb_eq p q : pt_eqb p q = true <-> p = q.
Proof.
  unfold pt_eqb, px, py. destruct p as [a b], q as [c d]. cbn [fst snd]. rewrite andb_true_iff, !Z.eqb_eq.
  split; [intros [-> ->]; reflexivity | intros H; inversion H; auto].
Qed.

Lemma dist2_rok p a b : rok (dist2_pt_seg p a b).
Proof.
  unfold rok, dist2_pt_seg. destruct (pt_eqb a b); [cbn; lia|].
  destruct (Z.leb_spec (dotp p a b) 0); [cbn; lia|].
  destruct (Z.leb_spec (d2pp b a) (dotp p a b)); cbn [snd]; lia.
Qed.
Lemma dist2_nonneg p a b : 0 <= fst (dist2_pt_seg p a b).
Proof.
  unfold dist2_pt_seg. destruct (pt_eqb a b); [cbn [fst]; apply d2pp_nonneg|].
  destruct (dotp p a b <=? 0); [cbn [fst]; apply d2pp_nonneg|].
  destruct (d2pp b a <=? dotp p a b); cbn [fst]; [apply d2pp_nonneg | apply sq_nonneg].
Qed.

(* ------------------------------------------------------------------ lists of indices *)
Definition adjacent {A} (a b : A) (l : list A) : Prop := exists l1 l2, l = l1 ++ a :: b :: l2.

Lemma adjacent_app_l {A} (a b : A) l r : adjacent a b l -> adjacent a b (l ++ r).
Proof. intros (l1 & l2 & ->). exists l1, (l2 ++ r). rewrite <- app_assoc. reflexivity. Qed.
Lemma adjacent_app_r {A} (a b : A) l r : adjacent a b r -> adjacent a b (l ++ r).
Proof. intros (l1 & l2 & ->). exists (l ++ l1), l2. rewrite <- app_assoc. reflexivity. Qed.
Lemma adjacent_map {A B} (f : A -> B) a b l : adjacent a b l -> adjacent (f a) (f b) (map f l).
Proof. intros (l1 & l2 & ->). exists (map f l1), (map f l2). rewrite map_app. reflexivity. Qed.

Lemma ssorted_app (l1 l2 : list nat) :
  StronglySorted lt l1 -> StronglySorted lt l2 -> (forall x y, In x l1 -> In y l2 -> (x < y)%nat) ->
  StronglySorted lt (l1 ++ l2).
Proof.
  induction l1 as [|a l1 IH]; intros H1 H2 H; [exact H2|].
  inversion H1 as [|? ? Hs Hf]; subst. cbn. constructor.
  - apply IH; [exact Hs | exact H2 | intros x y Hx Hy; apply H; [right; exact Hx | exact Hy]].
  - apply Forall_app. split; [exact Hf|]. apply Forall_forall. intros y Hy. apply H; [left; reflexivity | exact Hy].
Qed.

(* the sublist relation *)
Inductive subseq {A} : list A -> list A -> Prop :=
| sub_nil l : subseq [] l
| sub_skip a s l : subseq s l -> subseq s (a :: l)
| sub_take a s l : subseq s l -> subseq (a :: s) (a :: l).

Lemma subseq_refl {A} (l : list A) : subseq l l.
Proof. induction l; constructor; assumption. Qed.
Lemma subseq_in {A} (s l : list A) x : subseq s l -> In x s -> In x l.
Proof. induction 1; intros Hin; [destruct Hin | right; auto | destruct Hin; [left; assumption | right; auto]]. Qed.
Lemma subseq_length {A} (s l : list A) : subseq s l -> (length s <= length l)%nat.
Proof. induction 1; cbn; lia. Qed.
Lemma subseq_trans {A} (a b c : list A) : subseq a b -> subseq b c -> subseq a c.
Proof.
  intros Hab Hbc. revert a Hab. induction Hbc as [l | x s l Hs IH | x s l Hs IH]; intros a Hab.
  - inversion Hab; constructor.
  - constructor. apply IH. exact Hab.
  - inversion Hab; subst; [constructor | constructor; apply IH; assumption | constructor; apply IH; assumption].
Qed.
Lemma subseq_app_skip {A} (c b d : list A) : subseq c d -> subseq c (b ++ d).
Proof. intros H. induction b as [|x b IH]; cbn; [exact H | apply sub_skip; exact IH]. Qed.
Lemma subseq_app {A} (a b c d : list A) : subseq a b -> subseq c d -> subseq (a ++ c) (b ++ d).
Proof.
  intros H1 H2. induction H1 as [l | x s l Hs IH | x s l Hs IH]; cbn.
  - apply subseq_app_skip. exact H2.
  - apply sub_skip. exact IH.
  - apply sub_take. exact IH.
Qed.
Lemma subseq_firstn {A} n (l : list A) : subseq (firstn n l) l.
Proof. revert n. induction l as [|a l IH]; intros [|n]; cbn; [apply sub_nil | apply sub_nil | apply sub_nil | apply sub_take; apply IH]. Qed.
Lemma subseq_skipn {A} n (l : list A) : subseq (skipn n l) l.
Proof. revert n. induction l as [|a l IH]; intros [|n]; cbn; [apply sub_nil | apply sub_nil | apply subseq_refl | apply sub_skip; apply IH]. Qed.

Lemma all_pos_map_S (l : list nat) : (forall x, In x l -> (0 < x)%nat) -> l = map S (map pred l).
Proof.
  induction l as [|a l IH]; intros H; [reflexivity|]. cbn. f_equal.
  - specialize (H a (or_introl eq_refl)). lia.
  - apply IH. intros x Hx. apply H. right. exact Hx.
Qed.
Lemma ssorted_map_pred (l : list nat) : (forall x, In x l -> (0 < x)%nat) -> StronglySorted lt l -> StronglySorted lt (map pred l).
Proof.
  induction l as [|a l IH]; intros Hp Hs; [constructor|]. inversion Hs as [|? ? Hs' Hf]; subst. cbn. constructor.
  - apply IH; [intros x Hx; apply Hp; right; exact Hx | exact Hs'].
  - apply Forall_forall. intros y Hy. apply in_map_iff in Hy as (z & <- & Hz).
    rewrite Forall_forall in Hf. specialize (Hf z Hz). pose proof (Hp a (or_introl eq_refl)). specialize (Hp z (or_intror Hz)). lia.
Qed.

Lemma last_nth {A} (l : list A) d : last l d = nth (length l - 1) l d.
Proof.
  induction l as [|a l IH]; [reflexivity|]. destruct l as [|b l]; [reflexivity|].
  cbn [length] in *. replace (S (S (length l)) - 1)%nat with (S (length l)) by lia.
  replace (S (length l) - 1)%nat with (length l) in IH by lia.
  change (nth (S (length l)) (a :: b :: l) d) with (nth (length l) (b :: l) d). rewrite <- IH. reflexivity.
Qed.

(* a strictly increasing list of valid indices selects a sublist *)
Lemma map_nth_subseq {A} (d : A) (l : list A) : forall idx,
  StronglySorted lt idx -> (forall x, In x idx -> (x < length l)%nat) -> subseq (map (fun i => nth i l d) idx) l.
Proof.
  induction l as [|a l IH]; intros idx Hs Hb.
  - destruct idx as [|x idx]; [constructor|]. specialize (Hb x (or_introl eq_refl)). cbn in Hb. lia.
  - destruct idx as [|x idx]; [constructor|].
    inversion Hs as [|? ? Hs' Hf]; subst. rewrite Forall_forall in Hf.
    assert (Hpos : forall y, In y idx -> (0 < y)%nat) by (intros y Hy; specialize (Hf y Hy); lia).
    destruct x as [|x].
    + cbn [map nth]. apply sub_take.
      rewrite (all_pos_map_S idx Hpos), map_map. cbn [nth].
      apply IH; [apply ssorted_map_pred; assumption|].
      intros y Hy. apply in_map_iff in Hy as (z & <- & Hz). specialize (Hb z (or_intror Hz)). specialize (Hpos z Hz). cbn in Hb. lia.
    + apply sub_skip.
      assert (Hpos' : forall y, In y (S x :: idx) -> (0 < y)%nat) by (intros y [<-|Hy]; [lia | auto]).
      rewrite (all_pos_map_S (S x :: idx) Hpos'), map_map. cbn [nth].
      apply IH; [apply ssorted_map_pred; assumption|].
      intros y Hy. apply in_map_iff in Hy as (z & <- & Hz). specialize (Hb z Hz). specialize (Hpos' z Hz). cbn in Hb. lia.
Qed.

(* ------------------------------------------------------------------ the model *)
Section Proofs.
  Variable T2 : rat.
  Variable pts : list pt.
  Hypothesis T2ok : rok T2.
  Notation P := (P pts).
  Notation D i j k := (dist2_pt_seg (P k) (P i) (P j)).

  (* the running-maximum loop *)
  Lemma fold_max_spec i j : forall l st, rok (fst st) ->
    let r := fold_left (step_max pts i j) l st in
    rok (fst r) /\ rle (fst st) (fst r) = true /\ (forall k, In k l -> rle (D i j k) (fst r) = true) /\
    (r = st \/ (In (snd r) l /\ fst r = D i j (snd r))).
  Proof.
    induction l as [|k l IH]; intros st Hst; cbn [fold_left].
    - repeat split; [exact Hst | apply rle_refl | intros k [] | left; reflexivity].
    - assert (Hstep : step_max pts i j st k = if rlt (fst st) (D i j k) then (D i j k, k) else st) by reflexivity.
      rewrite Hstep. clear Hstep. destruct (rlt (fst st) (D i j k)) eqn:E.
      + specialize (IH (D i j k, k) (dist2_rok _ _ _)). cbn zeta in IH. cbn [fst snd] in IH.
        destruct IH as (R1 & R2 & R3 & R4). cbn zeta. repeat split.
        * exact R1.
        * apply rle_trans with (b := D i j k); [exact Hst | apply dist2_rok | exact R1 | apply rlt_rle; exact E | exact R2].
        * intros k' [<-|Hk']; [exact R2 | apply R3; exact Hk'].
        * right. destruct R4 as [-> | [Hin Heq]]; cbn [fst snd]; [split; [left; reflexivity | reflexivity] | split; [right; exact Hin | exact Heq]].
      + specialize (IH st Hst). cbn zeta in IH. destruct IH as (R1 & R2 & R3 & R4). cbn zeta. repeat split.
        * exact R1.
        * exact R2.
        * intros k' [<-|Hk']; [|apply R3; exact Hk'].
          apply rle_trans with (b := fst st); [apply dist2_rok | exact Hst | exact R1 | apply rlt_false_rle; exact E | exact R2].
        * destruct R4 as [-> | [Hin Heq]]; [left; reflexivity | right; split; [right; exact Hin | exact Heq]].
  Qed.

  Lemma find_max_spec i j : (S i < j)%nat ->
    (i < snd (find_max pts i j) < j)%nat /\ fst (find_max pts i j) = D i j (snd (find_max pts i j)) /\
    forall k, (i < k < j)%nat -> rle (D i j k) (fst (find_max pts i j)) = true.
  Proof.
    intros Hij. unfold find_max.
    pose proof (fold_max_spec i j (seq (S i) (j - i - 1)) ((-1, 1), i)) as H. cbn zeta in H.
    destruct H as (R1 & R2 & R3 & R4); [cbn; unfold rok; cbn; lia|].
    assert (Hin : forall k, (i < k < j)%nat -> In k (seq (S i) (j - i - 1))) by (intros k Hk; apply in_seq; lia).
    destruct R4 as [Eq | [Hin' Heq]].
    - exfalso. specialize (R3 (S i) (Hin (S i) ltac:(lia))). rewrite Eq in R3. cbn [fst] in R3.
      apply rle_iff in R3. cbn [fst snd] in R3.
      pose proof (dist2_nonneg (P (S i)) (P i) (P j)). pose proof (dist2_rok (P (S i)) (P i) (P j)) as Hr. unfold rok in Hr. lia.
    - apply in_seq in Hin'. repeat split; [lia | lia | exact Heq | intros k Hk; apply R3; apply Hin; exact Hk].
  Qed.

  (* kept indices lie strictly inside the section and increase strictly *)
  Lemma kept_between : forall fuel i j x, In x (kept T2 pts fuel i j) -> (i < x < j)%nat.
  Proof.
    induction fuel as [|f IH]; intros i j x Hin; cbn [kept] in Hin; [destruct Hin|].
    destruct (Nat.leb_spec j (S i)) as [Hle|Hgt]; [destruct Hin|].
    destruct (find_max_spec i j Hgt) as (Hm & _ & _).
    destruct (rle (fst (find_max pts i j)) T2); [destruct Hin|].
    apply in_app_or in Hin as [Hin|[<-|Hin]]; [apply IH in Hin; lia | lia | apply IH in Hin; lia].
  Qed.

  Lemma kept_sorted : forall fuel i j, StronglySorted lt (kept T2 pts fuel i j).
  Proof.
    induction fuel as [|f IH]; intros i j; cbn [kept]; [constructor|].
    destruct (Nat.leb_spec j (S i)) as [Hle|Hgt]; [constructor|].
    destruct (rle (fst (find_max pts i j)) T2); [constructor|].
    apply ssorted_app; [apply IH | |].
    - constructor; [apply IH|]. apply Forall_forall. intros y Hy. apply kept_between in Hy. lia.
    - intros x y Hx [<-|Hy]; apply kept_between in Hx; [lia | apply kept_between in Hy; lia].
  Qed.

  (* every interior index of a section is kept, or lies strictly between two adjacent kept indices (the section ends
     included) whose chord is within tolerance of it *)
  Definition covered (l : list nat) (k : nat) : Prop :=
    exists a b, adjacent a b l /\ (a < k < b)%nat /\ rle (D a b k) T2 = true.

  Lemma kept_within : forall fuel i j k, (j - i <= fuel)%nat -> (i < k < j)%nat ->
    In k (kept T2 pts fuel i j) \/ covered (i :: kept T2 pts fuel i j ++ [j]) k.
  Proof.
    induction fuel as [|f IH]; intros i j k Hf Hk; [lia|]. cbn [kept].
    destruct (Nat.leb_spec j (S i)) as [Hle|Hgt]; [lia|].
    destruct (find_max_spec i j Hgt) as (Hm & Hfst & Hmax).
    set (m := snd (find_max pts i j)) in *.
    destruct (rle (fst (find_max pts i j)) T2) eqn:Eflat.
    - right. exists i, j. split; [exists [], []; reflexivity|]. split; [exact Hk|].
      apply rle_trans with (b := fst (find_max pts i j)); [apply dist2_rok | rewrite Hfst; apply dist2_rok | exact T2ok | apply Hmax; exact Hk | exact Eflat].
    - destruct (lt_eq_lt_dec k m) as [[Hlt|Heq]|Hgtm].
      + destruct (IH i m k) as [Hin | (a & b & Hadj & Hab & Hw)]; [lia | lia | left; apply in_or_app; left; exact Hin |].
        right. exists a, b. split; [|split; assumption].
        replace (i :: (kept T2 pts f i m ++ m :: kept T2 pts f m j) ++ [j])
          with ((i :: kept T2 pts f i m ++ [m]) ++ (kept T2 pts f m j ++ [j]))
          by (cbn; rewrite <- !app_assoc; reflexivity).
        apply adjacent_app_l. exact Hadj.
      + left. subst k. apply in_or_app. right. left. reflexivity.
      + destruct (IH m j k) as [Hin | (a & b & Hadj & Hab & Hw)]; [lia | lia | left; apply in_or_app; right; right; exact Hin |].
        right. exists a, b. split; [|split; assumption].
        replace (i :: (kept T2 pts f i m ++ m :: kept T2 pts f m j) ++ [j])
          with ((i :: kept T2 pts f i m) ++ (m :: kept T2 pts f m j ++ [j]))
          by (cbn; rewrite <- !app_assoc; reflexivity).
        apply adjacent_app_r. exact Hadj.
  Qed.

  (* ---------------------------------------------------------------- whole line *)
  Lemma dp_indices_sorted : StronglySorted lt (dp_indices T2 pts).
  Proof.
    unfold dp_indices. destruct (length pts) as [|[|n]]; [constructor | repeat constructor |].
    constructor.
    - apply ssorted_app; [apply kept_sorted | repeat constructor |].
      intros x y Hx [<-|[]]. apply kept_between in Hx. lia.
    - apply Forall_forall. intros y Hy. apply in_app_or in Hy as [Hy|[<-|[]]]; [apply kept_between in Hy; lia | lia].
  Qed.
  Lemma dp_indices_bound x : In x (dp_indices T2 pts) -> (x < length pts)%nat.
  Proof.
    unfold dp_indices. destruct (length pts) as [|[|n]]; [intros [] | intros [<-|[]]; lia |].
    intros [<-|Hx]; [lia|]. apply in_app_or in Hx as [Hx|[<-|[]]]; [apply kept_between in Hx; lia | lia].
  Qed.

  Theorem dp_points_subseq : subseq (dp_points T2 pts) pts.
  Proof. unfold dp_points, DPDefs.P. apply map_nth_subseq; [apply dp_indices_sorted | apply dp_indices_bound]. Qed.

  Lemma dp_points_hd : pts <> [] -> hd (0, 0) (dp_points T2 pts) = hd (0, 0) pts.
  Proof.
    intros Hne. unfold dp_points, dp_indices. destruct pts as [|a [|b l]] eqn:E; [congruence | reflexivity | reflexivity].
  Qed.
  Lemma dp_points_last : pts <> [] -> last (dp_points T2 pts) (0, 0) = last pts (0, 0).
  Proof.
    intros Hne. unfold dp_points, dp_indices. destruct (length pts) as [|[|n]] eqn:E.
    - destruct pts; [congruence | discriminate].
    - destruct pts as [|a [|b l]]; try discriminate. reflexivity.
    - change (O :: kept T2 pts (S n) 0 (S n) ++ [S n]) with ((O :: kept T2 pts (S n) 0 (S n)) ++ [S n]).
      rewrite map_app. cbn [map]. rewrite last_last. unfold DPDefs.P.
      rewrite last_nth, E. replace (S (S n) - 1)%nat with (S n) by lia. reflexivity.
  Qed.

  Theorem dp_line_within : forall k, (k < length pts)%nat ->
    In k (dp_indices T2 pts) \/ covered (dp_indices T2 pts) k.
  Proof.
    intros k Hk. unfold dp_indices. destruct (length pts) as [|[|n]] eqn:E; [lia | left; left; lia |].
    destruct (Nat.eq_dec k 0) as [->|Hk0]; [left; left; reflexivity|].
    destruct (Nat.eq_dec k (S n)) as [->|HkN]; [left; right; apply in_or_app; right; left; reflexivity|].
    destruct (kept_within (S n) 0 (S n) k) as [Hin|Hc]; [lia | lia | left; right; apply in_or_app; left; exact Hin | right; exact Hc].
  Qed.
End Proofs.
