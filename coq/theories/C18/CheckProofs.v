(* C18 — soundness of the relational checkers (CheckDefs.v):  check ... = true -> Spec ...
   The specifications are stated with In / subseq / Forall2 and, for distances, over the reals (near_line). *)
From Coq Require Import ZArith Reals Lra Lia Bool List Arith.
From GeosV.C18 Require Import DPDefs DPProofs DPMetric DPTheorems CheckDefs.
Import ListNotations.

(* ------------------------------------------------------------------ generic reflection lemmas *)
Lemma mem_In v l : mem v l = true -> In v l.
Proof. unfold mem. intros H. apply existsb_exists in H as (x & Hx & E). apply pt_eqb_eq in E. subst. exact Hx. Qed.
Lemma In_mem v l : In v l -> mem v l = true.
Proof. intros H. unfold mem. apply existsb_exists. exists v. split; [exact H | apply pt_eqb_eq; reflexivity]. Qed.

Lemma verts_subset_sound out inp : verts_subset out inp = true -> forall v, In v out -> In v inp.
Proof. unfold verts_subset. intros H v Hv. rewrite forallb_forall in H. apply mem_In. apply H. exact Hv. Qed.

Lemma is_subseq_sound : forall l s, is_subseq s l = true -> subseq s l.
Proof.
  induction l as [|b l IH]; intros s H; cbn [is_subseq] in H.
  - destruct s; [apply sub_nil | discriminate].
  - destruct s as [|a s]; [apply sub_nil|].
    destruct (pt_eqb a b) eqn:E.
    + apply pt_eqb_eq in E. subst b. apply sub_take. apply IH. exact H.
    + apply sub_skip. apply IH. exact H.
Qed.

Lemma exists_adj_sound f : forall l, exists_adj f l = true -> exists a b, adjacent a b l /\ f a b = true.
Proof.
  induction l as [|a t IH]; intros H; [discriminate|]. cbn [exists_adj] in H.
  destruct t as [|b t']; [discriminate|].
  apply orb_true_iff in H as [H|H].
  - exists a, b. split; [exists [], t'; reflexivity | exact H].
  - destruct (IH H) as (x & y & (l1 & l2 & E) & Hf). exists x, y. split; [|exact Hf].
    exists (a :: l1), l2. rewrite E. reflexivity.
Qed.

Lemma adj_pairs_adjacent : forall l a b, In (a, b) (adj_pairs l) -> adjacent a b l.
Proof.
  induction l as [|x t IH]; intros a b H; [destruct H|]. cbn [adj_pairs] in H.
  destruct t as [|y t']; [destruct H|].
  destruct H as [E|H].
  - inversion E; subst. exists [], t'. reflexivity.
  - destruct (IH a b H) as (l1 & l2 & E). exists (x :: l1), l2. rewrite E. reflexivity.
Qed.
Lemma adjacent_adj_pairs : forall l a b, adjacent a b l -> In (a, b) (adj_pairs l).
Proof.
  intros l a b (l1 & l2 & ->). induction l1 as [|x l1 IH].
  - left. reflexivity.
  - cbn [app adj_pairs]. destruct (l1 ++ a :: b :: l2) eqn:E; [destruct l1; discriminate|]. right. exact IH.
Qed.

Lemma forallb2_Forall2 {A B} (f : A -> B -> bool) (P : A -> B -> Prop) :
  (forall a b, f a b = true -> P a b) -> forall l m, forallb2 f l m = true -> Forall2 P l m.
Proof.
  intros Hf. induction l as [|a l IH]; intros [|b m] H; cbn [forallb2] in H; try discriminate; [constructor|].
  apply andb_true_iff in H as [H1 H2]. constructor; [apply Hf; exact H1 | apply IH; exact H2].
Qed.

(* ------------------------------------------------------------------ lines and rings *)
Lemma near_lineb_sound T2 v out : rok T2 -> near_lineb T2 v out = true -> near_line (rval T2) v out.
Proof.
  intros HT H. unfold near_lineb in H. apply exists_adj_sound in H as (a & b & Hadj & Hle).
  apply within_near with (a := a) (b := b); assumption.
Qed.
Lemma all_near_sound T2 inp out : rok T2 -> all_near T2 inp out = true -> forall v, In v inp -> near_line (rval T2) v out.
Proof. intros HT H v Hv. unfold all_near in H. rewrite forallb_forall in H. apply near_lineb_sound; [exact HT | apply H; exact Hv]. Qed.

(* open lines: output is a subsequence with both end points kept, every input vertex within the tolerance of the output *)
Definition Spec_line (T : R) (inp out : list pt) : Prop :=
  subseq out inp /\ hd (0, 0)%Z out = hd (0, 0)%Z inp /\ last out (0, 0)%Z = last inp (0, 0)%Z /\
  forall v, In v inp -> near_line T v out.

Theorem check_line_sound T2 inp out : rok T2 -> check_line T2 inp out = true -> Spec_line (rval T2) inp out.
Proof.
  intros HT H. unfold check_line, ends_eq in H.
  apply andb_true_iff in H as [H Hn]. apply andb_true_iff in H as [Hs He]. apply andb_true_iff in He as [E1 E2].
  apply pt_eqb_eq in E1. apply pt_eqb_eq in E2.
  repeat split; [apply is_subseq_sound; exact Hs | exact E1 | exact E2 | apply all_near_sound; assumption].
Qed.

(* closed rings: vertex subset, cyclic order kept, closed, every input vertex within the (doubled) tolerance *)
Definition Spec_ring (T : R) (inp out : list pt) : Prop :=
  (forall v, In v out -> In v inp) /\ subseq (removelast out) (removelast inp ++ removelast inp) /\
  hd (0, 0)%Z out = last out (0, 0)%Z /\ forall v, In v inp -> near_line T v out.

Theorem check_ring_sound T2 inp out : rok T2 -> check_ring T2 inp out = true -> Spec_ring (rval T2) inp out.
Proof.
  intros HT H. unfold check_ring in H.
  apply andb_true_iff in H as [H Hn]. apply andb_true_iff in H as [H Hc]. apply andb_true_iff in H as [Hv Hs].
  apply pt_eqb_eq in Hc.
  repeat split; [apply verts_subset_sound; exact Hv | apply is_subseq_sound; exact Hs | exact Hc | apply all_near_sound; assumption].
Qed.

(* geometries: same number of elements, same kinds, same number of rings, every line / ring as above *)
Definition Spec_comp (T Tring : R) (cin cout : comp) : Prop :=
  match cin, cout with
  | CLine a, CLine b => Spec_line T a b
  | CPoly ra, CPoly rb => Forall2 (Spec_ring Tring) ra rb
  | _, _ => False
  end.
Definition Spec_geom (T Tring : R) (gin gout : list comp) : Prop := Forall2 (Spec_comp T Tring) gin gout.

Theorem check_simpl_geom_sound T2 T2r gin gout : rok T2 -> rok T2r ->
  check_simpl_geom T2 T2r gin gout = true -> Spec_geom (rval T2) (rval T2r) gin gout.
Proof.
  intros H1 H2. unfold check_simpl_geom, Spec_geom. apply forallb2_Forall2.
  intros [a|ra] [b|rb] H; cbn [check_comp Spec_comp] in *; try discriminate.
  - apply check_line_sound; assumption.
  - revert H. apply forallb2_Forall2. intros x y. apply check_ring_sound. exact H2.
Qed.

Lemma Forall2_length {A B} (P : A -> B -> Prop) l m : Forall2 P l m -> length l = length m.
Proof. induction 1; cbn; congruence. Qed.

(* same element count and same ring counts follow from the specification *)
Theorem Spec_geom_counts T Tr gin gout : Spec_geom T Tr gin gout ->
  length gin = length gout /\
  Forall2 (fun ci co => match ci, co with CPoly a, CPoly b => length a = length b | CLine _, CLine _ => True | _, _ => False end) gin gout.
Proof.
  intros H. split; [eapply Forall2_length; exact H|].
  induction H as [|ci co l m Hc _ IH]; constructor; [|exact IH].
  destruct ci, co; cbn [Spec_comp] in Hc; try contradiction; [exact I | eapply Forall2_length; exact Hc].
Qed.

(* ------------------------------------------------------------------ polygon hull (partial: containment is sampled) *)
(* FULL statement wanted: the point set of the outer hull contains the point set of the input (inner: is contained in it).
   PROVED (partial): ring-by-ring vertex subset, same structure, every vertex and every edge midpoint of the contained
   geometry is not exterior (even-odd location, exact) to the containing one, and the areas are ordered accordingly.
   MISSING: points of the edges other than end points and midpoints; even-odd location is the definition of interior here. *)
Definition Spec_hull_partial (outer : bool) (min mout : list polygon) : Prop :=
  Forall2 (Forall2 (fun ri ro : ring => forall v, In v ro -> In v ri)) min mout /\
  let (big, small) := if outer then (mout, min) else (min, mout) in
  (forall pg r a b, In pg small -> In r pg -> adjacent a b r ->
     mpoly_loc (mpoly_dbl big) (dbl a) <> 0%Z /\
     mpoly_loc (mpoly_dbl big) (px a + px b, py a + py b)%Z <> 0%Z) /\
  (mpoly_area2 small <= mpoly_area2 big)%Z.

Lemma samples_cover small pg r a b : In pg small -> In r pg -> adjacent a b r ->
  In (dbl a) (mpoly_samples small) /\ In (px a + px b, py a + py b)%Z (mpoly_samples small).
Proof.
  intros Hpg Hr Hadj. apply adjacent_adj_pairs in Hadj. unfold mpoly_samples.
  split; apply in_flat_map; exists pg; (split; [exact Hpg|]); apply in_flat_map; exists r; (split; [exact Hr|]);
    unfold ring_samples; apply in_flat_map; exists (a, b); (split; [exact Hadj|]); cbn [fst snd]; [left | right; left]; reflexivity.
Qed.

Theorem check_hull_sound_partial outer min mout : check_hull outer min mout = true -> Spec_hull_partial outer min mout.
Proof.
  unfold check_hull, Spec_hull_partial. intros H. apply andb_true_iff in H as [Hs H]. split.
  - revert Hs. apply forallb2_Forall2. intros pi po. apply forallb2_Forall2. intros ri ro. apply verts_subset_sound.
  - destruct outer; apply andb_true_iff in H as [Hl Ha]; rewrite forallb_forall in Hl; apply Z.leb_le in Ha.
    + split; [|exact Ha]. intros pg r a b Hpg Hr Hadj. destruct (samples_cover min pg r a b Hpg Hr Hadj) as [S1 S2].
      split; [specialize (Hl _ S1) | specialize (Hl _ S2)]; apply negb_true_iff, Z.eqb_neq in Hl; exact Hl.
    + split; [|exact Ha]. intros pg r a b Hpg Hr Hadj. destruct (samples_cover mout pg r a b Hpg Hr Hadj) as [S1 S2].
      split; [specialize (Hl _ S1) | specialize (Hl _ S2)]; apply negb_true_iff, Z.eqb_neq in Hl; exact Hl.
Qed.

(* what "on the boundary" means for the location function: the point lies on a segment of the ring *)
Lemma on_segb_sound p a b : on_segb p a b = true ->
  cross3 a b p = 0%Z /\ (Z.min (px a) (px b) <= px p <= Z.max (px a) (px b))%Z /\ (Z.min (py a) (py b) <= py p <= Z.max (py a) (py b))%Z.
Proof.
  unfold on_segb. intros H. repeat (apply andb_true_iff in H as [H ?]).
  apply Z.eqb_eq in H. repeat match goal with E : (_ <=? _)%Z = true |- _ => apply Z.leb_le in E end. lia.
Qed.
Theorem ring_loc_boundary r p : ring_loc r p = 1%Z -> exists a b, adjacent a b r /\ on_segb p a b = true.
Proof.
  unfold ring_loc. destruct (on_ringb r p) eqn:E; [|destruct (ring_parity r p); discriminate].
  intros _. unfold on_ringb in E. apply exists_adj_sound in E. exact E.
Qed.

(* ------------------------------------------------------------------ coverage simplification *)
Definition seg_in (s : seg) (l : list seg) : Prop := exists s', In s' l /\ seg_eqb s s' = true.
Lemma seg_mem_sound s l : seg_mem s l = true -> seg_in s l.
Proof. unfold seg_mem. intros H. apply existsb_exists in H as (x & Hx & E). exists x. split; assumption. Qed.

Definition Spec_cov_ring (preserve : bool) (allin : list seg) (ri ro : ring) : Prop :=
  (forall v, In v ro -> In v ri) /\ hd (0, 0)%Z ro = last ro (0, 0)%Z /\
  (forall v, In v ri -> is_node allin v = true -> In v ro) /\
  (preserve = true -> forall s, In s (adj_pairs ri) -> is_boundary_seg allin s = true -> seg_in s (adj_pairs ro)).

Lemma check_cov_ring_sound preserve allin ri ro : check_cov_ring preserve allin ri ro = true -> Spec_cov_ring preserve allin ri ro.
Proof.
  unfold check_cov_ring, Spec_cov_ring. intros H.
  apply andb_true_iff in H as [H Hb]. apply andb_true_iff in H as [H Hn]. apply andb_true_iff in H as [Hv Hc].
  apply pt_eqb_eq in Hc. rewrite forallb_forall in Hn.
  repeat split; [apply verts_subset_sound; exact Hv | exact Hc | |].
  - intros v Hv' Hnode. specialize (Hn v Hv'). rewrite Hnode in Hn. cbn in Hn. apply mem_In. exact Hn.
  - intros -> s Hs Hbs. cbn [negb orb] in Hb. rewrite forallb_forall in Hb. specialize (Hb s Hs). rewrite Hbs in Hb. cbn in Hb.
    apply seg_mem_sound. exact Hb.
Qed.

(* same numbers of elements, polygons and rings; ring by ring: vertex subset, closed, nodes (degree >= 3 in the input's edge
   graph) kept, boundary segments (used once in the input) kept when requested; per polygon the area changes by at most
   (number of removed vertices) * tol^2; when requested no new boundary segment appears *)
Definition Spec_cov (preserve : bool) (T2 : rat) (cin cout : list (list polygon)) : Prop :=
  Forall2 (Forall2 (fun pi po : polygon =>
      Forall2 (Spec_cov_ring preserve (cov_segs cin)) pi po /\
      (Z.abs (poly_area2 po - poly_area2 pi) * snd T2 <= 2 * removed_count pi po * fst T2)%Z)) cin cout /\
  (preserve = true -> forall s, In s (cov_segs cout) -> is_boundary_seg (cov_segs cout) s = true ->
     seg_in s (cov_segs cin) /\ is_boundary_seg (cov_segs cin) s = true).

Theorem check_cov_sound preserve T2 cin cout : check_cov preserve T2 cin cout = true -> Spec_cov preserve T2 cin cout.
Proof.
  unfold check_cov, Spec_cov. intros H. apply andb_true_iff in H as [Hs Hb]. split.
  - revert Hs. apply forallb2_Forall2. intros ei eo. apply forallb2_Forall2. intros pi po H.
    apply andb_true_iff in H as [Hr Ha]. split.
    + revert Hr. apply forallb2_Forall2. intros ri ro. apply check_cov_ring_sound.
    + unfold area_within in Ha. apply Z.leb_le in Ha. exact Ha.
  - clear Hs. intros -> s Hs Hbs. cbn [negb orb] in Hb. rewrite forallb_forall in Hb. specialize (Hb s Hs). rewrite Hbs in Hb. cbn in Hb.
    apply andb_true_iff in Hb as [H1 H2]. split; [apply seg_mem_sound; exact H1 | exact H2].
Qed.

Theorem Spec_cov_counts preserve T2 cin cout : Spec_cov preserve T2 cin cout ->
  length cin = length cout /\ Forall2 (fun ei eo => length ei = length eo) cin cout.
Proof.
  intros [H _]. split; [eapply Forall2_length; exact H|].
  induction H as [|ei eo l m He _ IH]; constructor; [eapply Forall2_length; exact He | exact IH].
Qed.
