(* C18 — executable model M of Douglas–Peucker line simplification as implemented in
   /repo/src/simplify/DouglasPeuckerLineSimplifier.cpp (simplify, simplifySection) and of the distance it uses
   (/repo/src/algorithm/Distance.cpp: pointToSegment), over exact integer coordinates.
   Distances are kept SQUARED, as exact rationals num/den (den > 0); the tolerance enters as its square T2.
   Definitions only (no proofs): this file still runs when a proof breaks. *)
From Coq Require Import ZArith List Bool.
Import ListNotations.
Local Open Scope Z_scope.

Definition pt := (Z * Z)%type.
Definition px (p : pt) : Z := fst p.
Definition py (p : pt) : Z := snd p.
Definition pt_eqb (p q : pt) : bool := (px p =? px q) && (py p =? py q).

(* non-negative rationals as pairs (num, den), den > 0; compared by cross-multiplication *)
Definition rat := (Z * Z)%type.
Definition rle (a b : rat) : bool := fst a * snd b <=? fst b * snd a.
Definition rlt (a b : rat) : bool := fst a * snd b <? fst b * snd a.

Definition sq (x : Z) : Z := x * x.
Definition d2pp (p q : pt) : Z := sq (px p - px q) + sq (py p - py q).
Definition dotp (p a b : pt) : Z := (px p - px a) * (px b - px a) + (py p - py a) * (py b - py a).
Definition crossp (p a b : pt) : Z := (py a - py p) * (px b - px a) - (px a - px p) * (py b - py a).

(* Distance::pointToSegment, squared:  A == B -> |pA|^2 ; r <= 0 -> |pA|^2 ; r >= 1 -> |pB|^2 ; else s^2 * L^2 = cross^2 / L^2 *)
Definition dist2_pt_seg (p a b : pt) : rat :=
  if pt_eqb a b then (d2pp p a, 1)
  else
    let len2 := d2pp b a in
    let dot := dotp p a b in
    if dot <=? 0 then (d2pp p a, 1)
    else if len2 <=? dot then (d2pp p b, 1)
    else (sq (crossp p a b), len2).

Section DP.
  Variable T2 : rat.          (* squared distance tolerance *)
  Variable pts : list pt.
  Definition P (i : nat) : pt := nth i pts (0, 0).

  (* the search loop of simplifySection:  maxDistance = -1; maxIndex = i; for k in i+1 .. j-1: if (distance > maxDistance) {...} *)
  Definition step_max (i j : nat) (st : rat * nat) (k : nat) : rat * nat :=
    let d := dist2_pt_seg (P k) (P i) (P j) in
    if rlt (fst st) d then (d, k) else st.
  Definition find_max (i j : nat) : rat * nat :=
    fold_left (step_max i j) (seq (S i) (j - i - 1)) ((-1, 1), i).

  (* simplifySection(i, j): the interior indices of (i, j) that stay in use; fuel >= j - i always suffices *)
  Fixpoint kept (fuel i j : nat) : list nat :=
    match fuel with
    | O => []
    | S f =>
      if (j <=? S i)%nat then []
      else
        let mi := find_max i j in
        if rle (fst mi) T2 then []                              (* maxDistance <= distanceTolerance: drop all of them *)
        else kept f i (snd mi) ++ snd mi :: kept f (snd mi) j   (* simplifySection(i, maxIndex); simplifySection(maxIndex, j) *)
    end.

  (* usePt after simplifySection(0, size - 1), as the list of indices in use *)
  Definition dp_indices : list nat :=
    match length pts with
    | O => []
    | S O => [O]
    | S (S n) => O :: kept (S n) O (S n) ++ [S n]
    end.
  Definition dp_points : list pt := map P dp_indices.

  (* CoordinateSequence::isRing, closeRing *)
  Definition is_ring (l : list pt) : bool := (4 <=? length l)%nat && pt_eqb (hd (0, 0) l) (last l (0, 0)).
  Definition close_ring (l : list pt) : list pt :=
    match l with
    | [] => []
    | a :: _ => if pt_eqb a (last l (0, 0)) then l else l ++ [a]
    end.

  (* the ring step: if (!preserveEndpoint && pts.isRing() && coordList.size() > LinearRing::MINIMUM_VALID_SIZE (= 3))
       and the origin is within tolerance of segment (coordList[size-2], coordList[1]): drop it, re-close the ring *)
  Definition ring_step (cl : list pt) : list pt :=
    let n := length cl in
    if (3 <? n)%nat && rle (dist2_pt_seg (nth 0 cl (0, 0)) (nth (n - 2) cl (0, 0)) (nth 1 cl (0, 0))) T2
    then close_ring (firstn (n - 2) (skipn 1 cl))
    else cl.

  Definition dp_simplify (preserveEndpoint : bool) : list pt :=
    if negb preserveEndpoint && is_ring pts then ring_step dp_points else dp_points.

  (* ---- tie detector (used by the correspondence only, not by any theorem): the implementation compares rounded
     binary64 distances; the model's exact comparisons predict them unless two compared quantities are closer than
     2^-30 relative (squared).  Bit-identical computations (same num/den pair, or both exactly 0) are not ties. *)
  Definition near (a b : rat) : bool :=
    let x := fst a * snd b in
    let y := fst b * snd a in
    negb ((x =? 0) && (y =? 0)) && (Z.abs (x - y) * 1073741824 <=? Z.max x y).
  Definition rat_same (a b : rat) : bool := (fst a =? fst b) && (snd a =? snd b).
  Definition section_tie (i j : nat) : bool :=
    let mi := find_max i j in
    near (fst mi) T2
    || existsb (fun k => negb (k =? snd mi)%nat &&
                         let d := dist2_pt_seg (P k) (P i) (P j) in negb (rat_same d (fst mi)) && near d (fst mi))
               (seq (S i) (j - i - 1)).
  Fixpoint ties (fuel i j : nat) : bool :=
    match fuel with
    | O => false
    | S f =>
      if (j <=? S i)%nat then false
      else
        let mi := find_max i j in
        section_tie i j || (if rle (fst mi) T2 then false else ties f i (snd mi) || ties f (snd mi) j)
    end.
  Definition dp_ties (preserveEndpoint : bool) : bool :=
    match length pts with
    | O => false
    | S n => ties n O n
             || (negb preserveEndpoint && is_ring pts &&
                 let cl := dp_points in let m := length cl in
                 (3 <? m)%nat && near (dist2_pt_seg (nth 0 cl (0, 0)) (nth (m - 2) cl (0, 0)) (nth 1 cl (0, 0))) T2)
    end.
End DP.

(* squared tolerance of a rational tolerance tn/td *)
Definition tol2 (tn td : Z) : rat := (tn * tn, td * td).
