(* C18 — what the squared rational distance of the model means (over the reals): dist2_pt_seg p a b is the minimum of the
   squared Euclidean distance from p to the points a + t (b - a), 0 <= t <= 1, and it is attained
   (DESIGN.md C08 `dist2_pt_seg_spec`).  Plus the two convexity lemmas behind "twice the tolerance" for closed rings. *)
From Coq Require Import ZArith Reals Lra Lia Psatz Bool List.
From GeosV.C18 Require Import DPDefs DPProofs.
Import ListNotations.
Local Open Scope R_scope.

Definition RP := (R * R)%type.
Definition Rpt (p : pt) : RP := (IZR (px p), IZR (py p)).
Definition Rd2 (p q : RP) : R := (fst p - fst q) * (fst p - fst q) + (snd p - snd q) * (snd p - snd q).
Definition on_seg (a b : RP) (t : R) : RP := (fst a + t * (fst b - fst a), snd a + t * (snd b - snd a)).
Definition rval (r : rat) : R := IZR (fst r) / IZR (snd r).

Lemma div1 x : x / 1 = x.
Proof. field. Qed.
Lemma sq0 x : 0 <= x * x.
Proof. apply Rle_0_sqr. Qed.
Lemma Rd2_nonneg p q : 0 <= Rd2 p q.
Proof. unfold Rd2. pose proof (sq0 (fst p - fst q)). pose proof (sq0 (snd p - snd q)). lra. Qed.

Lemma rle_rval a b : rok a -> rok b -> rle a b = true -> rval a <= rval b.
Proof.
  unfold rok, rval. destruct a as [a1 a2], b as [b1 b2]. cbn [fst snd]. intros Ha Hb H.
  apply rle_iff in H. cbn [fst snd] in H. apply IZR_le in H. rewrite !mult_IZR in H.
  apply IZR_lt in Ha. apply IZR_lt in Hb.
  apply Rmult_le_reg_r with (r := IZR a2 * IZR b2); [apply Rmult_lt_0_compat; assumption|].
  replace (IZR a1 / IZR a2 * (IZR a2 * IZR b2)) with (IZR a1 * IZR b2) by (field; lra).
  replace (IZR b1 / IZR b2 * (IZR a2 * IZR b2)) with (IZR b1 * IZR a2) by (field; lra).
  exact H.
Qed.

Lemma rval_tol2 tn td : (0 < td)%Z -> rval (tol2 tn td) = (IZR tn / IZR td) * (IZR tn / IZR td).
Proof. intros H. unfold rval, tol2. cbn [fst snd]. rewrite !mult_IZR. apply IZR_lt in H. field. lra. Qed.

(* ------------------------------------------------------------------ pure real geometry *)
Section RealSeg.
  Variables vx vy ux uy : R.       (* v = p - a, u = b - a *)
  Let dot := vx * ux + vy * uy.
  Let len2 := ux * ux + uy * uy.
  Let cr := vx * uy - vy * ux.
  Let v2 := vx * vx + vy * vy.
  Definition dpar t := (vx - t * ux) * (vx - t * ux) + (vy - t * uy) * (vy - t * uy).

  Lemma dpar_expand t : dpar t = v2 - 2 * t * dot + t * t * len2.
  Proof. unfold dpar, v2, dot, len2. ring. Qed.
  Lemma lagrange : len2 * v2 = dot * dot + cr * cr.
  Proof. unfold len2, v2, dot, cr. ring. Qed.
  Lemma len2_nonneg : 0 <= len2.
  Proof. unfold len2. pose proof (sq0 ux). pose proof (sq0 uy). lra. Qed.

  Lemma case_before t : dot <= 0 -> 0 <= t -> v2 <= dpar t.
  Proof. intros Hd Ht. rewrite dpar_expand. pose proof len2_nonneg.
    assert (0 <= t * (- dot)) by (apply Rmult_le_pos; lra).
    assert (0 <= t * t * len2) by (apply Rmult_le_pos; [apply sq0 | assumption]). lra. Qed.
  Lemma case_after t : len2 <= dot -> 0 <= t <= 1 -> dpar 1 <= dpar t.
  Proof.
    intros Hd Ht. rewrite !dpar_expand. pose proof len2_nonneg.
    assert (len2 * t <= len2 * 1) by (apply Rmult_le_compat_l; lra).
    assert (0 <= (1 - t) * (2 * dot - len2 * (1 + t))) by (apply Rmult_le_pos; lra). lra.
  Qed.
  Lemma case_perp t : 0 < len2 -> cr * cr / len2 <= dpar t.
  Proof.
    intros Hl. apply Rmult_le_reg_r with (r := len2); [exact Hl|].
    replace (cr * cr / len2 * len2) with (cr * cr) by (field; lra).
    assert (E : dpar t * len2 = cr * cr + (dot - t * len2) * (dot - t * len2)).
    { rewrite dpar_expand. pose proof lagrange. lra. }
    rewrite E. pose proof (sq0 (dot - t * len2)). lra.
  Qed.
  Lemma case_perp_attained : 0 < len2 -> dpar (dot / len2) = cr * cr / len2.
  Proof.
    intros Hl. rewrite dpar_expand.
    assert (E : v2 = (dot * dot + cr * cr) / len2) by (rewrite <- lagrange; field; lra).
    rewrite E. field. lra.
  Qed.
End RealSeg.

(* ------------------------------------------------------------------ the model's distance is that minimum *)
Lemma Rd2_on_seg p a b t :
  Rd2 (Rpt p) (on_seg (Rpt a) (Rpt b) t) =
  dpar (IZR (px p - px a)) (IZR (py p - py a)) (IZR (px b - px a)) (IZR (py b - py a)) t.
Proof. unfold Rd2, on_seg, Rpt, dpar. cbn [fst snd]. rewrite !minus_IZR. ring. Qed.

Lemma IZR_d2pp p a : IZR (d2pp p a) = IZR (px p - px a) * IZR (px p - px a) + IZR (py p - py a) * IZR (py p - py a).
Proof. unfold d2pp, sq. rewrite plus_IZR, !mult_IZR. reflexivity. Qed.
Lemma IZR_dotp p a b : IZR (dotp p a b) = IZR (px p - px a) * IZR (px b - px a) + IZR (py p - py a) * IZR (py b - py a).
Proof. unfold dotp. rewrite plus_IZR, !mult_IZR. reflexivity. Qed.
Lemma IZR_crossp2 p a b : IZR (sq (crossp p a b)) =
  (IZR (px p - px a) * IZR (py b - py a) - IZR (py p - py a) * IZR (px b - px a)) *
  (IZR (px p - px a) * IZR (py b - py a) - IZR (py p - py a) * IZR (px b - px a)).
Proof. unfold sq, crossp. rewrite !mult_IZR, !minus_IZR, !mult_IZR, !minus_IZR. ring. Qed.

Lemma d2pp_b_p p a b : IZR (d2pp p b) =
  dpar (IZR (px p - px a)) (IZR (py p - py a)) (IZR (px b - px a)) (IZR (py b - py a)) 1.
Proof. unfold dpar. rewrite IZR_d2pp, !minus_IZR. ring. Qed.
Lemma d2pp_a_p p a b : IZR (d2pp p a) =
  dpar (IZR (px p - px a)) (IZR (py p - py a)) (IZR (px b - px a)) (IZR (py b - py a)) 0.
Proof. unfold dpar. rewrite IZR_d2pp. ring. Qed.

Theorem dist2_pt_seg_min p a b t : 0 <= t <= 1 ->
  rval (dist2_pt_seg p a b) <= Rd2 (Rpt p) (on_seg (Rpt a) (Rpt b) t).
Proof.
  intros Ht. rewrite Rd2_on_seg. unfold dist2_pt_seg, rval.
  destruct (pt_eqb a b) eqn:Eab.
  - apply pt_eqb_eq in Eab. subst b. cbn [fst snd]. rewrite div1, (d2pp_a_p p a a).
    unfold dpar. rewrite !Z.sub_diag. cbn [IZR]. lra.
  - destruct (Z.leb_spec (dotp p a b) 0) as [Hd|Hd]; cbn [fst snd].
    + rewrite div1, (d2pp_a_p p a b). apply IZR_le in Hd. rewrite IZR_dotp in Hd.
      replace (dpar _ _ _ _ 0) with
        (IZR (px p - px a) * IZR (px p - px a) + IZR (py p - py a) * IZR (py p - py a)) by (unfold dpar; ring).
      apply case_before; [exact Hd | lra].
    + destruct (Z.leb_spec (d2pp b a) (dotp p a b)) as [Hl|Hl]; cbn [fst snd].
      * rewrite div1, (d2pp_b_p p a b). apply IZR_le in Hl. rewrite IZR_dotp, IZR_d2pp in Hl.
        apply case_after; [exact Hl | exact Ht].
      * rewrite IZR_crossp2, IZR_d2pp. apply case_perp.
        apply IZR_lt in Hd. apply IZR_lt in Hl. rewrite IZR_dotp in Hd, Hl. rewrite IZR_d2pp in Hl. lra.
Qed.

Theorem dist2_pt_seg_attained p a b : exists t, 0 <= t <= 1 /\
  Rd2 (Rpt p) (on_seg (Rpt a) (Rpt b) t) = rval (dist2_pt_seg p a b).
Proof.
  unfold dist2_pt_seg, rval. destruct (pt_eqb a b) eqn:Eab.
  - exists 0. split; [lra|]. rewrite Rd2_on_seg. cbn [fst snd]. rewrite div1, (d2pp_a_p p a b). reflexivity.
  - destruct (Z.leb_spec (dotp p a b) 0) as [Hd|Hd]; cbn [fst snd].
    + exists 0. split; [lra|]. rewrite Rd2_on_seg, div1, (d2pp_a_p p a b). reflexivity.
    + destruct (Z.leb_spec (d2pp b a) (dotp p a b)) as [Hl|Hl]; cbn [fst snd].
      * exists 1. split; [lra|]. rewrite Rd2_on_seg, div1, (d2pp_b_p p a b). reflexivity.
      * apply IZR_lt in Hd. apply IZR_lt in Hl. rewrite IZR_dotp in Hd, Hl. rewrite IZR_d2pp in Hl.
        set (dot := IZR (px p - px a) * IZR (px b - px a) + IZR (py p - py a) * IZR (py b - py a)) in *.
        set (len2 := IZR (px b - px a) * IZR (px b - px a) + IZR (py b - py a) * IZR (py b - py a)) in *.
        exists (dot / len2). split.
        { split; [apply Rmult_le_pos; [lra | apply Rlt_le, Rinv_0_lt_compat; lra]|].
          apply Rmult_le_reg_r with (r := len2); [lra|]. replace (dot / len2 * len2) with dot by (field; lra). lra. }
        rewrite Rd2_on_seg, IZR_crossp2, IZR_d2pp. fold len2. unfold dot, len2.
        apply case_perp_attained. fold len2. lra.
Qed.

(* ------------------------------------------------------------------ convexity: removing a ring origin O that is within
   tolerance of the new chord (A, B) moves nothing that was within tolerance of (A, O) or (O, B) farther than twice that *)
Lemma sum2_sq x y : (x + y) * (x + y) <= 2 * (x * x) + 2 * (y * y).
Proof. pose proof (sq0 (x - y)). lra. Qed.
Lemma unit_prod a b : 0 <= a <= 1 -> 0 <= b <= 1 -> 0 <= a * b <= 1.
Proof.
  intros Ha Hb. split; [apply Rmult_le_pos; lra|].
  replace 1 with (1 * 1) by ring. apply Rmult_le_compat; lra.
Qed.
Lemma scaled_sq s ex ey : 0 <= s <= 1 -> (s * ex) * (s * ex) + (s * ey) * (s * ey) <= ex * ex + ey * ey.
Proof.
  intros Hs. replace ((s * ex) * (s * ex) + (s * ey) * (s * ey)) with (s * s * (ex * ex + ey * ey)) by ring.
  pose proof (unit_prod s s Hs Hs). pose proof (sq0 ex). pose proof (sq0 ey).
  replace (ex * ex + ey * ey) with (1 * (ex * ex + ey * ey)) at 2 by ring.
  apply Rmult_le_compat_r; lra.
Qed.

Lemma two_tol_left (v A O B : RP) t1 t2 T : 0 <= t1 <= 1 -> 0 <= t2 <= 1 ->
  Rd2 v (on_seg A O t1) <= T -> Rd2 O (on_seg A B t2) <= T ->
  0 <= t1 * t2 <= 1 /\ Rd2 v (on_seg A B (t1 * t2)) <= 4 * T.
Proof.
  intros H1 H2 Hv HO. split; [apply unit_prod; assumption|].
  destruct v as [vx vy], A as [ax ay], O as [ox oy], B as [bx by_]. unfold Rd2, on_seg in *. cbn [fst snd] in *.
  set (qx := ax + t1 * (ox - ax)) in *. set (qy := ay + t1 * (oy - ay)) in *.
  set (ex := ox - (ax + t2 * (bx - ax))) in *. set (ey := oy - (ay + t2 * (by_ - ay))) in *.
  replace (vx - (ax + t1 * t2 * (bx - ax))) with ((vx - qx) + t1 * ex) by (unfold qx, ex; ring).
  replace (vy - (ay + t1 * t2 * (by_ - ay))) with ((vy - qy) + t1 * ey) by (unfold qy, ey; ring).
  pose proof (sum2_sq (vx - qx) (t1 * ex)). pose proof (sum2_sq (vy - qy) (t1 * ey)).
  pose proof (scaled_sq t1 ex ey H1). lra.
Qed.

Lemma two_tol_right (v A O B : RP) t1 t2 T : 0 <= t1 <= 1 -> 0 <= t2 <= 1 ->
  Rd2 v (on_seg O B t1) <= T -> Rd2 O (on_seg A B t2) <= T ->
  0 <= t2 + t1 * (1 - t2) <= 1 /\ Rd2 v (on_seg A B (t2 + t1 * (1 - t2))) <= 4 * T.
Proof.
  intros H1 H2 Hv HO. split.
  { assert (Hu : 0 <= 1 - t2 <= 1) by lra. pose proof (unit_prod t1 (1 - t2) H1 Hu).
    assert (t1 * (1 - t2) <= 1 * (1 - t2)) by (apply Rmult_le_compat_r; lra). lra. }
  destruct v as [vx vy], A as [ax ay], O as [ox oy], B as [bx by_]. unfold Rd2, on_seg in *. cbn [fst snd] in *.
  set (qx := ox + t1 * (bx - ox)) in *. set (qy := oy + t1 * (by_ - oy)) in *.
  set (ex := ox - (ax + t2 * (bx - ax))) in *. set (ey := oy - (ay + t2 * (by_ - ay))) in *.
  replace (vx - (ax + (t2 + t1 * (1 - t2)) * (bx - ax))) with ((vx - qx) + (1 - t1) * ex) by (unfold qx, ex; ring).
  replace (vy - (ay + (t2 + t1 * (1 - t2)) * (by_ - ay))) with ((vy - qy) + (1 - t1) * ey) by (unfold qy, ey; ring).
  pose proof (sum2_sq (vx - qx) ((1 - t1) * ex)). pose proof (sum2_sq (vy - qy) ((1 - t1) * ey)).
  assert (Hs : 0 <= 1 - t1 <= 1) by lra.
  pose proof (scaled_sq (1 - t1) ex ey Hs). lra.
Qed.
