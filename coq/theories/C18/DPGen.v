(* C18 — tie G: the translator output for DouglasPeuckerLineSimplifier::simplifySection (Gen/DP_simplifySection.v, regenerated
   from /repo on every run) computes the usePt marks of the hand model `kept` of DPDefs.v; the theorems of DPProofs.v /
   DPTheorems.v are restated about the GENERATED definition.  Reading of the abstract names: C18/GenPreludeDP.v. *)
From Coq Require Import ZArith List Bool Lia Sorted.
From Coq Require Import Reals.
From GeosV.C18 Require Import DPDefs DPProofs DPMetric DPTheorems.
From GeosV.C18 Require Import GenPreludeDP.
From GeosV.Gen Require Import DP_simplifySection.
Import ListNotations.

Notation G := g_simplifySection_fuel.

(* ------------------------------------------------------------------ list helpers *)
Lemma fold_left_ext {A B} (f g : A -> B -> A) l : (forall a x, f a x = g a x) -> forall a, fold_left f l a = fold_left g l a.
Proof. intros H. induction l as [|x l IH]; intros a; cbn [fold_left]; [reflexivity|]. rewrite H. apply IH. Qed.

Lemma zrange_shift i : forall n s, map (fun k => (Z.of_nat i + 1 + Z.of_nat k)%Z) (seq s n) = map Z.of_nat (seq (S i + s) n).
Proof.
  induction n as [|n IH]; intros s; [reflexivity|].
  cbn [seq map]. f_equal; [lia|]. rewrite IH. replace (S i + S s)%nat with (S (S i + s)) by lia. reflexivity.
Qed.

Lemma zrange_nat i j : zrange (Z.of_nat i + 1) (Z.of_nat j) = map Z.of_nat (seq (S i) (j - i - 1)).
Proof.
  unfold zrange. replace (Z.to_nat (Z.of_nat j - (Z.of_nat i + 1))) with (j - i - 1)%nat by lia.
  rewrite zrange_shift. replace (S i + 0)%nat with (S i) by lia. reflexivity.
Qed.

Lemma upd_nth_length {A} (v : A) : forall l n, length (upd_nth n l v) = length l.
Proof. induction l as [|h t IH]; intros [|n]; cbn [upd_nth length]; try reflexivity. rewrite IH. reflexivity. Qed.

Lemma nth_upd_false : forall l n k, nth k (upd_nth n l false) false = if (n =? k)%nat then false else nth k l false.
Proof.
  induction l as [|h t IH]; intros n k.
  - cbn [upd_nth]. destruct n, k; cbn [nth]; destruct (_ =? _)%nat; reflexivity.
  - destruct n as [|n], k as [|k]; cbn [upd_nth nth Nat.eqb]; try reflexivity. apply IH.
Qed.

Lemma nth_repeat_true : forall n k, (k < n)%nat -> nth k (repeat true n) false = true.
Proof. induction n as [|n IH]; intros [|k] Hk; cbn [repeat nth]; try lia; try reflexivity. apply IH; lia. Qed.

Lemma ssorted_seq : forall n s, StronglySorted lt (seq s n).
Proof.
  induction n as [|n IH]; intros s; cbn [seq]; constructor; [apply IH|].
  apply Forall_forall. intros x Hx. apply in_seq in Hx. lia.
Qed.

Lemma ssorted_filter (f : nat -> bool) l : StronglySorted lt l -> StronglySorted lt (filter f l).
Proof.
  induction 1 as [|a l Hs IH Hall]; cbn [filter]; [constructor|].
  destruct (f a); [|exact IH]. constructor; [exact IH|].
  apply Forall_forall. intros x Hx. apply filter_In in Hx as [Hx _]. rewrite Forall_forall in Hall. apply Hall. exact Hx.
Qed.

Lemma ssorted_lt_ext : forall l1 l2, StronglySorted lt l1 -> StronglySorted lt l2 -> (forall x, In x l1 <-> In x l2) -> l1 = l2.
Proof.
  induction l1 as [|a l1 IH]; intros [|b l2] H1 H2 Hio.
  - reflexivity.
  - exfalso. apply (proj2 (Hio b)). left. reflexivity.
  - exfalso. apply (proj1 (Hio a)). left. reflexivity.
  - apply StronglySorted_inv in H1 as [H1 F1]. apply StronglySorted_inv in H2 as [H2 F2].
    rewrite Forall_forall in F1, F2.
    assert (a = b).
    { destruct (proj1 (Hio a) (or_introl eq_refl)) as [Hab|Hab]; [congruence|].
      destruct (proj2 (Hio b) (or_introl eq_refl)) as [Hba|Hba]; [congruence|].
      specialize (F2 a Hab). specialize (F1 b Hba). lia. }
    subst b. f_equal. apply IH; [exact H1 | exact H2|].
    intros x. split; intros Hx.
    + destruct (proj1 (Hio x) (or_intror Hx)) as [Hax|Hax]; [|exact Hax]. specialize (F1 x Hx). lia.
    + destruct (proj2 (Hio x) (or_intror Hx)) as [Hax|Hax]; [|exact Hax]. specialize (F2 x Hx). lia.
Qed.

(* ------------------------------------------------------------------ one unfolding of the generated function *)
(* the search loop of the generated text, on the hand model's carrier *)
Definition gstep (pts : list pt) (i j : nat) (acc : rat * Z) (k : Z) : rat * Z :=
  let d := dist2_pt_seg (P pts (Z.to_nat k)) (P pts i) (P pts j) in
  if rlt (fst acc) d then (d, k) else acc.

Lemma gfold pts i j : forall l d m,
  fold_left (gstep pts i j) (map Z.of_nat l) (d, Z.of_nat m) =
  (fst (fold_left (step_max pts i j) l (d, m)), Z.of_nat (snd (fold_left (step_max pts i j) l (d, m)))).
Proof.
  induction l as [|a l IH]; intros d m; cbn [map fold_left]; [reflexivity|].
  assert (E : gstep pts i j (d, Z.of_nat m) (Z.of_nat a) =
              (fst (step_max pts i j (d, m) a), Z.of_nat (snd (step_max pts i j (d, m) a)))).
  { unfold gstep, step_max. cbn [fst snd]. rewrite Nat2Z.id. destruct (rlt d _); reflexivity. }
  rewrite E. destruct (step_max pts i j (d, m) a) as [d' m']. cbn [fst snd]. apply IH.
Qed.

(* the loop `for (k = i + 1; k < j; k++) usePt[k] = false` *)
Definition clear_sec (st : dp_state) (i j : nat) : dp_state :=
  fold_left (fun acc k => set1_usePt acc k false) (map Z.of_nat (seq (S i) (j - i - 1))) st.

Lemma G_unfold f st i j :
  G (S f) st (Z.of_nat i) (Z.of_nat j) =
  if (j =? S i)%nat then st
  else
    let mi := find_max (f_pts st) i j in
    if rle (fst mi) (f_distanceTolerance st) then clear_sec st i j
    else G f (G f st (Z.of_nat i) (Z.of_nat (snd mi))) (Z.of_nat (snd mi)) (Z.of_nat j).
Proof.
  cbn [g_simplifySection_fuel].
  replace (Z.of_nat i + 1 =? Z.of_nat j)%Z with (j =? S i)%nat
    by (destruct (Nat.eqb_spec j (S i)), (Z.eqb_spec (Z.of_nat i + 1) (Z.of_nat j)); try reflexivity; lia).
  destruct (j =? S i)%nat; [reflexivity|].
  rewrite zrange_nat.
  erewrite fold_left_ext with (g := gstep (f_pts st) i j).
  2:{ intros [md mk] k. unfold gstep, gtb, m_distance_1, mk_LineSegment_2, c_opidx_2, P. cbn [fst snd].
      rewrite !Nat2Z.id. reflexivity. }
  rewrite gfold. cbn zeta. unfold leb, clear_sec.
  change (neg (flit 4607182418800017408 1 1)) with ((-1, 1)%Z : rat).
  unfold find_max.
  destruct (rle _ _); reflexivity.
Qed.

(* ------------------------------------------------------------------ what a section does to the state *)
(* st' agrees with st except that usePt[k] has been cleared for the interior indices k of (i, j) that are not in K *)
Definition sec_spec (K : list nat) (i j : nat) (st st' : dp_state) : Prop :=
  f_pts st' = f_pts st /\ f_distanceTolerance st' = f_distanceTolerance st /\
  length (f_usePt st') = length (f_usePt st) /\
  forall k, nth k (f_usePt st') false = true <-> (nth k (f_usePt st) false = true /\ ((i < k < j)%nat -> In k K)).

Lemma clear_spec : forall l st,
  let st' := fold_left (fun acc k => set1_usePt acc k false) (map Z.of_nat l) st in
  f_pts st' = f_pts st /\ f_distanceTolerance st' = f_distanceTolerance st /\
  length (f_usePt st') = length (f_usePt st) /\
  forall k, nth k (f_usePt st') false = true <-> (nth k (f_usePt st) false = true /\ ~ In k l).
Proof.
  induction l as [|a l IH]; intros st; cbn [map fold_left].
  - repeat split; tauto.
  - specialize (IH (set1_usePt st (Z.of_nat a) false)). cbn zeta in IH.
    destruct IH as (E1 & E2 & E3 & E4). cbn zeta.
    split; [exact E1|]. split; [exact E2|]. split; [rewrite E3; cbn [set1_usePt f_usePt]; apply upd_nth_length|].
    intros k. rewrite E4. cbn [set1_usePt f_usePt]. rewrite nth_upd_false, Nat2Z.id.
    destruct (Nat.eqb_spec a k) as [->|Hne].
    + split; [intros [H _]; discriminate | intros [_ Hn]; exfalso; apply Hn; left; reflexivity].
    + split.
      * intros [H Hn]. split; [exact H | intros [Hak|Hin]; [congruence | exact (Hn Hin)]].
      * intros [H Hn]. split; [exact H | intros Hin; apply Hn; right; exact Hin].
Qed.

Theorem gen_section_spec : forall fuel st i j, (i < j)%nat -> (j - i <= fuel)%nat ->
  sec_spec (kept (f_distanceTolerance st) (f_pts st) fuel i j) i j st (G fuel st (Z.of_nat i) (Z.of_nat j)).
Proof.
  induction fuel as [|f IH]; intros st i j Hij Hf; [lia|].
  rewrite G_unfold. cbn [kept].
  destruct (Nat.eqb_spec j (S i)) as [->|Hne].
  - rewrite Nat.leb_refl. repeat split; try tauto. lia.
  - destruct (Nat.leb_spec j (S i)) as [Hle|Hgt]; [lia|].
    destruct (find_max_spec (f_pts st) i j Hgt) as (Hm & _ & _).
    cbn zeta. set (m := snd (find_max (f_pts st) i j)) in *.
    destruct (rle (fst (find_max (f_pts st) i j)) (f_distanceTolerance st)).
    + destruct (clear_spec (seq (S i) (j - i - 1)) st) as (E1 & E2 & E3 & E4). fold (clear_sec st i j) in E1, E2, E3, E4.
      split; [exact E1|]. split; [exact E2|]. split; [exact E3|]. intros k. rewrite E4. split.
      * intros [H Hn]. split; [exact H|]. intros Hk. exfalso. apply Hn. apply in_seq. lia.
      * intros [H Hk]. split; [exact H|]. intros Hin. apply in_seq in Hin. apply (Hk ltac:(lia)).
    + destruct (IH st i m ltac:(lia) ltac:(lia)) as (A1 & A2 & A3 & A4).
      pose proof (IH (G f st (Z.of_nat i) (Z.of_nat m)) m j ltac:(lia) ltac:(lia)) as IH2.
      rewrite A1, A2 in IH2. destruct IH2 as (B1 & B2 & B3 & B4).
      split; [rewrite B1; exact A1|]. split; [rewrite B2; exact A2|]. split; [rewrite B3; exact A3|].
      intros k. rewrite B4, A4. split.
      * intros [[H Hk1] Hk2]. split; [exact H|]. intros Hk. apply in_or_app.
        destruct (lt_eq_lt_dec k m) as [[Hlt|Heq]|Hgt'].
        -- left. apply Hk1. lia.
        -- right. left. congruence.
        -- right. right. apply Hk2. lia.
      * intros [H Hk]. split; [split; [exact H|]|].
        -- intros Hkm. destruct (in_app_or _ _ _ (Hk ltac:(lia))) as [Hin|[Heq|Hin]];
             [exact Hin | lia | apply kept_between in Hin; lia].
        -- intros Hmk. destruct (in_app_or _ _ _ (Hk ltac:(lia))) as [Hin|[Heq|Hin]];
             [apply kept_between in Hin; lia | lia | exact Hin].
Qed.

(* ------------------------------------------------------------------ termination: the recursion depth never exceeds j - i *)
(* with fuel >= j - i the out-of-fuel branch of the generated function is not reached: more fuel changes nothing *)
Theorem gen_fuel_stable : forall f1 f2 st i j, (i < j)%nat -> (j - i <= f1)%nat -> (j - i <= f2)%nat ->
  G f1 st (Z.of_nat i) (Z.of_nat j) = G f2 st (Z.of_nat i) (Z.of_nat j).
Proof.
  induction f1 as [|f1 IH]; intros [|f2] st i j Hij H1 H2; try lia.
  rewrite !G_unfold.
  destruct (Nat.eqb_spec j (S i)) as [->|Hne]; [reflexivity|].
  destruct (find_max_spec (f_pts st) i j ltac:(lia)) as (Hm & _ & _).
  cbn zeta. destruct (rle _ _); [reflexivity|].
  rewrite (IH f2 st i _) by lia. apply IH; lia.
Qed.

Theorem gen_fuel_bound : forall fuel st i j, (i < j)%nat -> (j - i <= fuel)%nat ->
  G fuel st (Z.of_nat i) (Z.of_nat j) = G (j - i) st (Z.of_nat i) (Z.of_nat j).
Proof. intros fuel st i j Hij Hf. apply gen_fuel_stable; lia. Qed.

(* the one call that makes no progress: on a section with i = j (a one-point sequence) and a tolerance below the sentinel
   -1.0 every unfolding calls the same section again, twice (the C++ recursion does not terminate there) *)
Theorem gen_degenerate_section_no_progress : forall f st i, rle (-1, 1)%Z (f_distanceTolerance st) = false ->
  G (S f) st (Z.of_nat i) (Z.of_nat i) = G f (G f st (Z.of_nat i) (Z.of_nat i)) (Z.of_nat i) (Z.of_nat i).
Proof.
  intros f st i H. rewrite G_unfold.
  destruct (Nat.eqb_spec i (S i)) as [E|_]; [lia|].
  unfold find_max. replace (i - i - 1)%nat with 0%nat by lia. cbn [seq fold_left fst snd]. rewrite H. reflexivity.
Qed.

(* ------------------------------------------------------------------ the whole line, as simplify() calls it *)
(* usePt = std::vector<bool>(pts.size(), true); simplifySection(0, pts.size() - 1); *)
Definition gen_state0 (T2 : rat) (pts : list pt) : dp_state := mkDP pts (repeat true (length pts)) T2.
Definition gen_usePt (T2 : rat) (pts : list pt) : list bool :=
  f_usePt (G (length pts - 1) (gen_state0 T2 pts) 0 (Z.of_nat (length pts - 1))).
(* for (i = 0; i < n; ++i) if (usePt[i]) coordList->add(pts[i]); *)
Definition gen_indices (T2 : rat) (pts : list pt) : list nat :=
  filter (fun k => nth k (gen_usePt T2 pts) false) (seq 0 (length pts)).
Definition gen_points (T2 : rat) (pts : list pt) : list pt := map (P pts) (gen_indices T2 pts).

Theorem gen_usePt_marks : forall T2 pts, (2 <= length pts)%nat ->
  length (gen_usePt T2 pts) = length pts /\
  forall k, (k < length pts)%nat -> (nth k (gen_usePt T2 pts) false = true <-> In k (dp_indices T2 pts)).
Proof.
  intros T2 pts Hn. unfold gen_usePt.
  destruct (gen_section_spec (length pts - 1) (gen_state0 T2 pts) 0 (length pts - 1) ltac:(lia) ltac:(lia)) as (_ & _ & E3 & E4).
  cbn [gen_state0 f_pts f_distanceTolerance f_usePt] in E3, E4. change (Z.of_nat 0) with 0%Z in E3, E4.
  split; [rewrite E3; apply repeat_length|].
  intros k Hk. rewrite E4. unfold dp_indices.
  destruct (length pts) as [|[|n]] eqn:En; try lia.
  replace (S (S n) - 1)%nat with (S n) by lia. rewrite nth_repeat_true by lia. split.
  - intros [_ H]. destruct (Nat.eq_dec k 0) as [->|H0]; [left; reflexivity|]. right. apply in_or_app.
    destruct (Nat.eq_dec k (S n)) as [->|H1]; [right; left; reflexivity|]. left. apply H. lia.
  - intros H. split; [reflexivity|]. intros Hk'. destruct H as [<-|H]; [lia|].
    apply in_app_or in H as [H|[<-|[]]]; [exact H | lia].
Qed.

Theorem gen_indices_eq : forall T2 pts, (2 <= length pts)%nat -> gen_indices T2 pts = dp_indices T2 pts.
Proof.
  intros T2 pts Hn. apply ssorted_lt_ext.
  - apply ssorted_filter, ssorted_seq.
  - apply dp_indices_sorted.
  - intros k. destruct (gen_usePt_marks T2 pts Hn) as (_ & Hm). unfold gen_indices. rewrite filter_In, in_seq. split.
    + intros [Hk H]. apply Hm; [lia | exact H].
    + intros H. pose proof (dp_indices_bound T2 pts k H) as Hk. split; [lia | apply Hm; assumption].
Qed.

Theorem gen_points_eq : forall T2 pts, (2 <= length pts)%nat -> gen_points T2 pts = dp_points T2 pts.
Proof. intros T2 pts Hn. unfold gen_points, dp_points. rewrite gen_indices_eq by exact Hn. reflexivity. Qed.

(* any fuel >= section length gives the same marks *)
Theorem gen_usePt_any_fuel : forall T2 pts fuel, (2 <= length pts)%nat -> (length pts - 1 <= fuel)%nat ->
  f_usePt (G fuel (gen_state0 T2 pts) 0 (Z.of_nat (length pts - 1))) = gen_usePt T2 pts.
Proof.
  intros T2 pts fuel Hn Hf. unfold gen_usePt. f_equal. change 0%Z with (Z.of_nat 0).
  apply gen_fuel_stable; lia.
Qed.

(* ------------------------------------------------------------------ the property facts, about the generated definition *)
Theorem gen_subsequence : forall T2 pts, (2 <= length pts)%nat ->
  subseq (gen_points T2 pts) pts /\
  hd (0, 0)%Z (gen_points T2 pts) = hd (0, 0)%Z pts /\ last (gen_points T2 pts) (0, 0)%Z = last pts (0, 0)%Z.
Proof.
  intros T2 pts Hn. rewrite gen_points_eq by exact Hn.
  assert (Hne : pts <> []) by (intros ->; cbn in Hn; lia).
  split; [apply dp_points_subseq|]. split; [apply dp_points_hd | apply dp_points_last]; exact Hne.
Qed.

Theorem gen_within_tol : forall T2 pts, rok T2 -> (2 <= length pts)%nat -> forall k, (k < length pts)%nat ->
  In k (gen_indices T2 pts) \/ covered T2 pts (gen_indices T2 pts) k.
Proof. intros T2 pts Hr Hn k Hk. rewrite gen_indices_eq by exact Hn. apply dp_line_within; assumption. Qed.

Theorem gen_zero_tol_dropped_on_chord : forall pts, (2 <= length pts)%nat -> forall k, (k < length pts)%nat ->
  In k (gen_indices T0 pts) \/
  exists a b, adjacent a b (gen_indices T0 pts) /\ (a < k < b)%nat /\ fst (dist2_pt_seg (P pts k) (P pts a) (P pts b)) = 0%Z.
Proof. intros pts Hn k Hk. rewrite gen_indices_eq by exact Hn. apply dp_zero_tol_dropped_on_chord. exact Hk. Qed.

(* "zero tolerance returns the input unchanged" is false for the generated definition as well (finding F6) *)
Theorem gen_zero_tol_refuted : ~ (forall pts, gen_points T0 pts = pts).
Proof. intros H. specialize (H [(0, 0); (1, 0); (2, 0)]%Z). vm_compute in H. discriminate. Qed.

(* ------------------------------------------------------------------ simplify(): generated section + the hand-modelled ring step *)
(* the closed-ring origin step of simplify() (DPDefs.ring_step, tied by the correspondence stream `dpl`) applied to the
   coordinate list that the GENERATED simplifySection leaves in use *)
Definition gen_simplify (T2 : rat) (pts : list pt) (preserveEndpoint : bool) : list pt :=
  if negb preserveEndpoint && is_ring pts then ring_step T2 (gen_points T2 pts) else gen_points T2 pts.

Theorem gen_simplify_eq : forall T2 pts b, (2 <= length pts)%nat -> gen_simplify T2 pts b = dp_simplify T2 pts b.
Proof. intros T2 pts b Hn. unfold gen_simplify, dp_simplify. rewrite gen_points_eq by exact Hn. reflexivity. Qed.

Theorem gen_within_tol_R : forall T2 pts, rok T2 -> (0 <= fst T2)%Z -> (2 <= length pts)%nat ->
  forall v, In v pts -> near_line (rval T2) v (gen_points T2 pts).
Proof. intros T2 pts Hr H0 Hn v Hv. rewrite gen_points_eq by exact Hn. apply dp_within_tol_R; assumption. Qed.

Theorem gen_ring_2tol : forall T2 pts, rok T2 -> (0 <= fst T2)%Z -> is_ring pts = true ->
  forall v, In v pts -> near_line (4 * rval T2) v (gen_simplify T2 pts false).
Proof.
  intros T2 pts Hr H0 Hring v Hv.
  assert (Hn : (2 <= length pts)%nat).
  { unfold is_ring in Hring. apply andb_prop in Hring as [H _]. apply Nat.leb_le in H. lia. }
  rewrite gen_simplify_eq by exact Hn. apply dp_ring_2tol_R; assumption.
Qed.
