(* C01 — property theorems only (proofs: C01/ArrangementProofs.v, C01/OracleProofs.v, C01/PredSound.v). *)
From Coq Require Import ZArith List Bool Lia.
From GeosV.Lib Require Import GeomDefs LocateDefs ValidDefs GenPreludePred IM.
From GeosV.C01 Require Import ArrangementDefs ArrangementProofs OracleDefs OraclePred OracleProofs OracleInvariance IMGen Pred PredSound.
Import ListNotations.
Local Open Scope Z_scope.

(* ---- the oracle: every entry is the maximum dimension of a witness with that pair of locations ----
   is_witness r A B la lb d w: w belongs to the witness family of the arrangement of A and B, has dimension d, is located la
   in A and lb in B by Lib/LocateDefs (codes 0 = Interior, 1 = Boundary, 2 = Exterior; line boundaries by rule r), and when
   d = 2 it is open in both geometries (located by areas only).
   So: no entry exceeds 2, EE = 2, every entry d >= 0 (other than EE) has a witness of exactly that dimension with exactly
   those two locations (the oracle never over-reports relative to its witnesses), and no witness of higher dimension with
   those locations exists.
   GAP (named, not proved): completeness of the witness family — "every connected component of (la-part of A) meet
   (lb-part of B) of dimension d contains a witness of dimension d, and a witness of dimension d lies in a component of
   dimension >= d".  Full statement:
       forall r A B la lb,  mentry (relate_oracle r A B) la lb  =  dim { p in R^2 | loc r A p = la /\ loc r B p = lb }
   This is the planar-arrangement argument (the open sub-edges and the faces of the arrangement of all segments are
   connected sets on which both locations are constant; every face is adjacent to a sub-edge or is the whole plane); it is
   backed by running the oracle against the expected matrices of the repository's relate XML corpus and against the
   implementation (props/C01.py). *)
Theorem C01_oracle_witness_sound : forall r A B la lb, (la = 0 \/ la = 1 \/ la = 2) -> (lb = 0 \/ lb = 1 \/ lb = 2) ->
  let d := mentry (relate_oracle r A B) la lb in
  dF <= d <= 2 /\
  (forall d' w, is_witness r A B la lb d' w -> d' <= d) /\
  (0 <= d -> (la = 2 /\ lb = 2 /\ d = 2) \/ exists w, is_witness r A B la lb d w) /\
  mentry (relate_oracle r A B) 2 2 = 2.
Proof. exact oracle_entry_is_max. Qed.
Print Assumptions C01_oracle_witness_sound.

(* the evaluated oracle (IntersectionMatrix-style accumulation, fast locator) is the specification (matrix of maxima, Lib locator) *)
Theorem C01_oracle_is_spec : forall r A B, relate_oracle r A B = relate_spec r A B.
Proof. exact relate_oracle_spec. Qed.
Print Assumptions C01_oracle_is_spec.

Theorem C01_fast_locator_is_loc : forall r g q, loc_dim_fast r g q = loc_dim r (map_geom (scale_pt (hw q)) g) (hx q, hy q).
Proof. exact loc_dim_fast_eq. Qed.
Print Assumptions C01_fast_locator_is_loc.

(* relate(B, A) is the transpose of relate(A, B) *)
Theorem C01_oracle_transpose : forall r A B, relate_oracle r B A = transpose (relate_oracle r A B).
Proof. exact oracle_transpose. Qed.
Print Assumptions C01_oracle_transpose.

(* invariance under the similarities of the grid: translation by a grid vector, reflection in either axis, axis swap *)
Theorem C01_oracle_invariant : forall r A B,
  (forall d, relate_oracle r (map_geom (translate d) A) (map_geom (translate d) B) = relate_oracle r A B) /\
  relate_oracle r (map_geom reflect_x A) (map_geom reflect_x B) = relate_oracle r A B /\
  relate_oracle r (map_geom reflect_y A) (map_geom reflect_y B) = relate_oracle r A B /\
  relate_oracle r (map_geom swap_xy A) (map_geom swap_xy B) = relate_oracle r A B.
Proof.
  intros. split; [intros; apply oracle_translate|]. split; [apply oracle_reflect_x|]. split; [apply oracle_reflect_y | apply oracle_swap_xy].
Qed.
Print Assumptions C01_oracle_invariant.

(* every witness is a genuine rational point (positive denominator) *)
Theorem C01_witnesses_are_points : forall A B w, In w (witnesses A B) -> 0 < hw (fst w).
Proof. exact witnesses_pos. Qed.
Print Assumptions C01_witnesses_are_points.

(* the per-instance certificate eps_ok ranges over paths that start at a sub-edge midpoint witness and end in a side witness *)
Theorem C01_eps_certificate_paths : forall A B s sg m p, In (s, sg, m, p) (side_paths A B) ->
  In (m, 1) (witnesses A B) /\ In (p, 2) (witnesses A B).
Proof. exact side_paths_witnesses. Qed.
Print Assumptions C01_eps_certificate_paths.

(* what the driver evaluates: matrix and side certificate in one pass; one rule serves all when neither geometry has lines *)
Theorem C01_driver_shortcuts : forall r A B,
  oracle_run r A B = (relate_oracle r A B, side_ok r A B) /\
  (lines_of A = [] -> lines_of B = [] -> forall r', relate_oracle r A B = relate_oracle r' A B /\ side_ok r A B = side_ok r' A B).
Proof. intros. split; [apply oracle_run_eq|]. intros HA HB r'. apply oracle_rule_irrelevant; assumption. Qed.
Print Assumptions C01_driver_shortcuts.

(* every named predicate, evaluated by the GENERATED RelateNG predicate classes through the evaluation protocol on the
   oracle's events (in the oracle's order; PredSound: in any order), returns its DE-9IM pattern-set definition on the
   oracle's matrix — whenever that matrix passes the decision procedure of PredSound.realizable for the real dimensions and
   envelopes of A and B (checked on every generated pair: an unrealizable triple would be a finding). *)
Theorem C01_named_predicates : forall r A B,
  let dA := dim_real A in let dB := dim_real B in let eA := env_of A in let eB := env_of B in
  let evs := oracle_events r A B in let m := relate_oracle r A B in
  oracle_realizable r A B = true ->
  evaluate vt_contains dA dB eA eB evs = spec_contains m /\
  evaluate vt_within dA dB eA eB evs = spec_within m /\
  evaluate vt_covers dA dB eA eB evs = spec_covers m /\
  evaluate vt_coveredBy dA dB eA eB evs = spec_coveredBy m /\
  evaluate vt_crosses dA dB eA eB evs = spec_crosses dA dB m /\
  evaluate vt_overlaps dA dB eA eB evs = spec_overlaps dA dB m /\
  evaluate vt_touches dA dB eA eB evs = spec_touches dA dB m /\
  evaluate vt_intersects dA dB eA eB evs = spec_intersects m /\
  evaluate vt_disjoint dA dB eA eB evs = spec_disjoint m /\
  (~ (eA = None /\ eB = None) -> evaluate vt_equals dA dB eA eB evs = spec_equals dA dB m).
Proof. exact oracle_named_predicates. Qed.
Print Assumptions C01_named_predicates.

(* one of the realizability facts proved outright: a geometry without non-empty polygons has no 2-dimensional interior,
   so for two lines II <= 1 (the fact the crosses / overlaps short-cuts need) *)
Theorem C01_realizable_lines_partial : forall r A B, dim_real A = 1 -> dim_real B = 1 -> mentry (relate_oracle r A B) 0 0 <= 1.
Proof. exact oracle_realizable_LL. Qed.
Print Assumptions C01_realizable_lines_partial.
(* FULL statement (realizable_of_oracle), not proved:  forall r A B, in_scope A = true -> in_scope B = true ->
     realizable (dim_real A) (dim_real B) (env_of A) (env_of B) (relate_oracle r A B).
   Missing: the envelope facts (a point outside the envelope of a geometry is in its exterior: needs winding number 0
   outside the bounding box) and the dimension fact (a set of higher dimension is not covered by one of lower dimension).
   The decision procedure realizable_b is evaluated on every generated pair instead (props/C01.py). *)

Theorem C01_realizable_reflect : forall dA dB eA eB m, realizable_b dA dB eA eB m = true -> realizable dA dB eA eB m.
Proof. exact realizable_reflect. Qed.
Print Assumptions C01_realizable_reflect.

(* ---- non-vacuity ---- *)
Definition sqA : geom := GPoly [(0, 0); (12, 0); (12, 12); (0, 12); (0, 0)] [].
Definition sqB : geom := GPoly [(6, 6); (18, 6); (18, 18); (6, 18); (6, 6)] [].
Definition lnB : geom := GLine [(-6, 6); (6, 6); (6, 18)].
Example ex_overlap : relate_oracle Mod2 sqA sqB = [2; 1; 2; 1; 0; 1; 2; 1; 2] /\ oracle_realizable Mod2 sqA sqB = true /\ side_ok Mod2 sqA sqB = true.
Proof. vm_compute. auto. Qed.
Example ex_eps : eps_ok sqA sqB = true /\ eps_ok lnB sqA = true /\ fragile_nodes sqA sqB = [].
Proof. vm_compute. auto. Qed.
Example ex_line_area : relate_oracle Mod2 lnB sqA = [1; 0; 1; -1; -1; 0; 2; 1; 2] /\ relate_oracle Mod2 sqA lnB = [1; -1; 2; 0; -1; 1; 1; 0; 2] /\
  spec_crosses (dim_real lnB) (dim_real sqA) (relate_oracle Mod2 lnB sqA) = true.
Proof. vm_compute. auto. Qed.
Example ex_invariant : relate_oracle Mod2 (map_geom (translate (7, -13)) lnB) (map_geom (translate (7, -13)) sqA) = [1; 0; 1; -1; -1; 0; 2; 1; 2] /\
  relate_oracle Mod2 (map_geom swap_xy lnB) (map_geom swap_xy sqA) = [1; 0; 1; -1; -1; 0; 2; 1; 2].
Proof. vm_compute. auto. Qed.
(* the boundary node rule matters: the end point (6, 18) of lnB is a boundary point for mod-2, not for the multivalent rule *)
Example ex_rules : relate_oracle MultiValentEndPoint lnB sqA = [1; 0; 1; -1; -1; -1; 2; 1; 2].
Proof. vm_compute. auto. Qed.
Example ex_witness : exists w, is_witness Mod2 sqA sqB 0 0 2 w.
Proof.
  destruct (C01_oracle_witness_sound Mod2 sqA sqB 0 0) as (_ & _ & H & _); auto.
  destruct H as [(E & _) | H]; [vm_compute; discriminate | discriminate | exact H].
Qed.
