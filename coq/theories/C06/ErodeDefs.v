(* C06/ErodeDefs — real-plane specification vocabulary for the ring-dropping decisions of BufferCurveSetBuilder
   (isRingFullyEroded / isTriangleErodedCompletely) and Triangle::inCentre.  Definitions only.  Points are C08's rpt (pairs of
   reals); crossR / dotR / distR / on_seg / is_pt_seg_dist / is_pt_line_dist are those of C08/RealDistDefs. *)
From Coq Require Import Reals List Bool.
From GeosV.C06 Require Import GenPreludeErode.
From GeosV.C08 Require Import RealDistDefs.
Import ListNotations.
Local Open Scope R_scope.

(* ---- triangles *)
Definition area2 (A B C : rpt) : R := Rabs (crossR A B C).                    (* twice the area *)
Definition perim (A B C : rpt) : R := distR B C + distR A C + distR A B.
Definition inradius (A B C : rpt) : R := area2 A B C / perim A B C.           (* r = 2 area / perimeter *)
(* (a A + b B + c C) / (a + b + c),  a b c = lengths of the sides opposite to A B C *)
Definition incentre (A B C : rpt) : rpt :=
  mk_rpt ((distR B C * f_x A + distR A C * f_x B + distR A B * f_x C) / perim A B C)
         ((distR B C * f_y A + distR A C * f_y B + distR A B * f_y C) / perim A B C).
(* distance from p to the LINE through a and b (a <> b) *)
Definition line_dist (p a b : rpt) : R := Rabs (crossR a b p) / distR a b.
(* p = u A + v B + w C *)
Definition bary (A B C : rpt) (u v w : R) : rpt :=
  mk_rpt (u * f_x A + v * f_x B + w * f_x C) (u * f_y A + v * f_y B + w * f_y C).
(* the closed triangle ABC (the convex hull of its corners) *)
Definition in_tri (p A B C : rpt) : Prop := exists u v w, 0 <= u /\ 0 <= v /\ 0 <= w /\ u + v + w = 1 /\ p = bary A B C u v w.
(* the boundary of the triangle: its three closed sides *)
Definition on_tri_boundary (q A B C : rpt) : Prop := on_seg q A B \/ on_seg q B C \/ on_seg q C A.

(* ---- rings (point lists; closed when first = last) *)
Definition segs (l : list rpt) : list (rpt * rpt) := combine l (tl l).
Definition on_ring (q : rpt) (l : list rpt) : Prop := exists s, In s (segs l) /\ on_seg q (fst s) (snd s).
Definition closed_ring (l : list rpt) : Prop := exists a m, l = a :: m ++ [a].
(* every axis-parallel ray from p meets the ring (true of every location that the ring separates from infinity) *)
Definition v_enclosed (p : rpt) (l : list rpt) : Prop :=
  (exists q, on_ring q l /\ f_x q = f_x p /\ f_y p <= f_y q) /\ (exists q, on_ring q l /\ f_x q = f_x p /\ f_y q <= f_y p).
Definition h_enclosed (p : rpt) (l : list rpt) : Prop :=
  (exists q, on_ring q l /\ f_y q = f_y p /\ f_x p <= f_x q) /\ (exists q, on_ring q l /\ f_y q = f_y p /\ f_x q <= f_x p).

(* even-odd rule with a vertical ray: the segment ab meets the line x = c under the half-open rule (a.x <= c) xor (b.x <= c) *)
Definition lebR (x y : R) : bool := if Rle_dec x y then true else false.
Definition ltbR (x y : R) : bool := if Rlt_dec x y then true else false.
Definition straddles (c : R) (s : rpt * rpt) : bool := xorb (lebR (f_x (fst s)) c) (lebR (f_x (snd s)) c).
Definition ycross (c : R) (s : rpt * rpt) : R :=
  f_y (fst s) + (c - f_x (fst s)) / (f_x (snd s) - f_x (fst s)) * (f_y (snd s) - f_y (fst s)).
Definition up_cross (p : rpt) (s : rpt * rpt) : bool := straddles (f_x p) s && ltbR (f_y p) (ycross (f_x p) s).
Definition down_cross (p : rpt) (s : rpt * rpt) : bool := straddles (f_x p) s && ltbR (ycross (f_x p) s) (f_y p).
Definition count (f : rpt * rpt -> bool) (l : list (rpt * rpt)) : nat := length (filter f l).
(* p is inside by the even-odd rule (upward vertical ray) and not on the ring *)
Definition inside_eo (p : rpt) (l : list rpt) : Prop := ~ on_ring p l /\ Nat.odd (count (up_cross p) (segs l)) = true.
(* the same rule after exchanging the axes (rightward horizontal ray) *)
Definition swap (p : rpt) : rpt := mk_rpt (f_y p) (f_x p).
