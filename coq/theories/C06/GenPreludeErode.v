(* C06/GenPreludeErode — representation boundary of the translated units C06_envWidth, C06_envHeight (Envelope::getWidth /
   getHeight), C06_inCentre (Triangle::inCentre), C06_triEroded (BufferCurveSetBuilder::isTriangleErodedCompletely) and
   C06_ringEroded (BufferCurveSetBuilder::isRingFullyEroded, 4-argument form).  Definitions only.

   Every `double` is read as a REAL NUMBER exactly as in C08/GenPreludeR (re-exported: add sub mul div, the comparisons, fabs,
   sqrt, min, CoordinateXY = pair of reals), so that the translated Distance::pointToSegment (Gen/C08_ptSeg) and
   CoordinateXY::distance (Gen/C08_coordDist) and their theorems (C08/GenDist) are the ones used here.

   Modelled, not verified:
     * binary64 rounding, NaN and infinities (a triangle whose three corners coincide gives 0/0 = NaN in the code, hence `false`;
       in this reading x/0 = 0 — the theorems about the triangle test assume a positive perimeter);
     * CoordinateSequence = the list of its points; getAt(i) = i-th element (the Z / M ordinates are not read); getSize = length;
     * Envelope = its null flag and four bounds (isNull is `std::isnan(maxx)` in the code: a flag here);
     * Triangle = the record of its three corners; std::abs on double = std::fabs = |.|. *)
From Coq Require Import Reals ZArith List.
From GeosV Require Export C08.GenPreludeR.
Import ListNotations.
Local Open Scope R_scope.

Definition c_abs_1 := Rabs.

(* CoordinateXY constructors *)
Definition mk_CoordinateXY_2 (x y : R) : rpt := mk_rpt x y.
Definition mk_CoordinateXY_0 (_ : unit) : rpt := mk_rpt 0 0.

(* CoordinateSequence *)
Definition cseq := list rpt.
Definition m_getAt_1 (s : cseq) (i : Z) : rpt := nth (Z.to_nat i) s (mk_rpt 0 0).
Definition m_getSize_0 (s : cseq) : Z := Z.of_nat (length s).

(* Triangle *)
Record tri := mk_tri { f_p0 : rpt; f_p1 : rpt; f_p2 : rpt }.
Definition mk_Triangle_3 (a b c : rpt) : tri := mk_tri a b c.

(* Envelope *)
Record env := mk_env { f_null : bool; f_minx : R; f_maxx : R; f_miny : R; f_maxy : R }.
Definition m_isNull_0 (e : env) : bool := f_null e.

(* the envelope of a point list (CoordinateSequence::expandEnvelope / LinearRing::getEnvelopeInternal): null for the empty list *)
Definition env_of (s : cseq) : env :=
  match s with
  | [] => mk_env true 0 0 0 0
  | p :: t => mk_env false (fold_right (fun q m => Rmin (f_x q) m) (f_x p) t) (fold_right (fun q m => Rmax (f_x q) m) (f_x p) t)
                           (fold_right (fun q m => Rmin (f_y q) m) (f_y p) t) (fold_right (fun q m => Rmax (f_y q) m) (f_y p) t)
  end.
