(* C06/PreludeR — meaning of the translator's abstract names when every `double` is read as a REAL NUMBER (Coq reals).
   Used by the generated units C06_fillet (OffsetSegmentGenerator::addDirectedFillet, 5-argument form) and C06_distErr
   (BufferParameters::bufferDistanceError).  Definitions only.

   Modelled, not verified (compared with the real library by the correspondence of props/C06.py):
     * binary64 rounding of + - * / is ignored (the operations are the exact ones);
     * (int)x is truncation toward zero (Flocq's Ztrunc); the int range is not an issue (the operand is <= 4q + 1/2);
     * std::sin / std::cos / std::fabs are the mathematical functions; Angle::sinCosSnap is (sin, cos) without its
       snapping of values below 5e-16 to zero; Angle::PI_OVER_2 is pi/2;
     * OffsetSegmentList::addPt appends (its precision-model rounding and its suppression of a point closer than
       1e-6 * distance to the previous one are not modelled). *)
From Coq Require Import Reals ZArith List.
From Flocq Require Import Core.Raux.
Import ListNotations.
Local Open Scope R_scope.

Definition add := Rplus.
Definition sub := Rminus.
Definition mul := Rmult.
Definition div := Rdiv.
Definition neg := Ropp.
Definition ofZ := IZR.
Definition toZ := Ztrunc.
Definition flit (bits num den : Z) : R := IZR num / IZR den.
Definition dflt : R := 0.
Definition c_fabs_1 := Rabs.
Definition c_cos_1 := cos.
Definition c_sinCosSnap_1 (a : R) : R * R := (sin a, cos a).       (* (rSin, rCos) *)
Definition v_PI_OVER_2 : R := PI / 2.

(* Coordinate *)
Record rpt := mk_rpt { f_x : R; f_y : R }.
Definition set_x (p : rpt) (v : R) := mk_rpt v (f_y p).
Definition set_y (p : rpt) (v : R) := mk_rpt (f_x p) v.
Definition mk_Coordinate_0 (_ : unit) : rpt := mk_rpt 0 0.

(* the part of the OffsetSegmentGenerator object the unit reads and writes *)
Record osg := mk_osg { f_filletAngleQuantum : R; f_segList : list rpt }.
Definition set_segList (st : osg) (l : list rpt) := mk_osg (f_filletAngleQuantum st) l.
Definition m_addPt_1 (l : list rpt) (p : rpt) : list rpt := l ++ [p].

Definition zrange (lo hi : Z) : list Z := map (fun k => (lo + Z.of_nat k)%Z) (seq 0 (Z.to_nat (hi - lo))).
