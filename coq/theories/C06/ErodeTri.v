(* C06/ErodeTri — Triangle::inCentre and BufferCurveSetBuilder::isTriangleErodedCompletely AS TRANSLATED from /repo
   (Gen/C06_inCentre, Gen/C06_triEroded; doubles read as reals, C06/GenPreludeErode), for all inputs:
     * the generated inCentre is the incentre (a A + b B + c C)/(a+b+c), equidistant (r = 2 area / perimeter) from the side lines;
     * the generated triangle test is true iff inradius < |d| (positive perimeter);
     * soundness of dropping: every point of the closed triangle has a boundary point within the inradius (the incentre
       maximises the distance to the boundary), hence within < |d| when the test says "eroded completely". *)
From Coq Require Import Reals Lra Psatz List Bool ZArith.
From GeosV.C06 Require Import GenPreludeErode ErodeDefs.
From GeosV.C08 Require Import RealDistDefs RealPtSeg GenDist.
From GeosV.Gen Require Import C08_coordDist C08_ptSeg C06_inCentre C06_triEroded.
Import ListNotations.
Local Open Scope R_scope.
Set Default Timeout 120.

(* ---------------------------------------------------------------- lengths *)
Lemma distR_sq : forall p q, distR p q * distR p q = d2R p q.
Proof. intros. unfold distR. apply sqrt_sqrt, d2R_nonneg. Qed.
Lemma len2_sq : forall a b, len2 a b = distR a b * distR a b.
Proof. intros. unfold len2. rewrite distR_sq. apply d2R_sym. Qed.
Lemma sqrt_len2 : forall a b, sqrt (len2 a b) = distR a b.
Proof. intros. unfold len2, distR. rewrite d2R_sym. reflexivity. Qed.
(* Cauchy-Schwarz, lower side: AB . AC >= - |AB| |AC| *)
Lemma cs_lower : forall A B C, - (distR A B * distR A C) <= dotR A B C.
Proof.
  intros A B C. assert (G := lagrangeR C A B). rewrite len2_sq in G.
  assert (Eb : d2R C A = distR A C * distR A C) by (rewrite distR_sq; apply d2R_sym). rewrite Eb in G.
  assert (Hc := distR_nonneg A B). assert (Hb := distR_nonneg A C).
  set (c := distR A B) in *. set (b := distR A C) in *. set (d := dotR A B C) in *. set (x := crossR A B C) in *. clearbody c b d x.
  destruct (Rle_dec (- (c * b)) d) as [H|H]; [exact H | exfalso].
  assert (0 <= c * b) by (apply Rmult_le_pos; assumption).
  assert (c * b * (c * b) < d * d) by nra. nra.
Qed.
Lemma cross_cyc : forall A B C, crossR B C A = crossR A B C.
Proof. intros. unfold crossR. ring. Qed.
Lemma area2_cyc : forall A B C, area2 B C A = area2 A B C.
Proof. intros. unfold area2. rewrite cross_cyc. reflexivity. Qed.
Lemma area2_nonneg : forall A B C, 0 <= area2 A B C.
Proof. intros. apply Rabs_pos. Qed.
Lemma bary_cyc : forall A B C u v w, bary B C A v w u = bary A B C u v w.
Proof. intros. unfold bary. f_equal; ring. Qed.

(* ---------------------------------------------------------------- the nearest side *)
(* p = uA + vB + wC in the closed triangle; if w/c is the smallest of u/a, v/b, w/c then the foot of the perpendicular from p to
   AB lies on the side AB, so the translated Distance::pointToSegment(p, A, B) is the distance to the line: w * 2area / c *)
Lemma side_foot : forall A B C u v w, 0 <= u -> 0 <= v -> 0 <= w -> u + v + w = 1 -> 0 < distR A B ->
  w * distR A C <= v * distR A B -> w * distR B C <= u * distR A B ->
  g_pointToSegment (bary A B C u v w) A B = w * area2 A B C / distR A B.
Proof.
  intros A B C u v w Hu Hv Hw Hs Hc H1 H2. set (p := bary A B C u v w).
  assert (HL : 0 < len2 A B) by (rewrite len2_sq; apply Rmult_lt_0_compat; assumption).
  assert (E1 : dotR A B p = v * len2 A B + w * dotR A B C).
  { unfold p, bary, dotR, len2, d2R. cbn [f_x f_y]. replace u with (1 - v - w) by lra. ring. }
  assert (E2 : len2 A B - dotR A B p = u * len2 A B + w * dotR B A C).
  { unfold p, bary, dotR, len2, d2R. cbn [f_x f_y]. replace u with (1 - v - w) by lra. ring. }
  assert (E3 : crossR A B p = w * crossR A B C).
  { unfold p, bary, crossR. cbn [f_x f_y]. replace u with (1 - v - w) by lra. ring. }
  assert (C1 := cs_lower A B C). assert (C2 := cs_lower B A C). rewrite (distR_sym B A) in C2.
  rewrite len2_sq in E1, E2. assert (EL := len2_sq A B).
  set (c := distR A B) in *. set (b := distR A C) in *. set (a := distR B C) in *.
  assert (P1 : 0 <= dotR A B p).
  { assert (0 <= w * (dotR A B C + c * b)) by (apply Rmult_le_pos; lra).
    assert (0 <= c * (v * c - w * b)) by (apply Rmult_le_pos; lra). lra. }
  assert (P2 : dotR A B p <= len2 A B).
  { assert (0 <= w * (dotR B A C + c * a)) by (apply Rmult_le_pos; lra).
    assert (0 <= c * (u * c - w * a)) by (apply Rmult_le_pos; lra). lra. }
  assert (Hr : 0 <= dotR A B p / len2 A B <= 1).
  { assert (0 < / len2 A B) by (apply Rinv_0_lt_compat; exact HL). split.
    - apply Rmult_le_pos; lra.
    - replace 1 with (len2 A B * / len2 A B) by (field; lra). apply Rmult_le_compat_r; lra. }
  rewrite (pt_seg_dist_unique _ _ p A B (g_pointToSegment_is_dist p A B) (pt_seg_foot p A B HL Hr)).
  rewrite sqrt_len2, E3, len2_sq. fold c. unfold area2, Rdiv.
  rewrite !Rabs_mult, (Rabs_pos_eq w) by exact Hw.
  rewrite (Rabs_pos_eq (/ (c * c))) by (left; apply Rinv_0_lt_compat, Rmult_lt_0_compat; assumption).
  field. lra.
Qed.

(* ---------------------------------------------------------------- Triangle::inCentre *)
Theorem gen_inCentre_is_incentre : forall A B C r0, m_inCentre_1 (mk_Triangle_3 A B C) r0 = incentre A B C.
Proof.
  intros. unfold m_inCentre_1, mk_Triangle_3. cbn [f_p0 f_p1 f_p2]. rewrite !g_coordDist. unop. cbv zeta.
  unfold mk_CoordinateXY_2, incentre, perim. reflexivity.
Qed.
Lemma incentre_bary : forall A B C, 0 < perim A B C ->
  incentre A B C = bary A B C (distR B C / perim A B C) (distR A C / perim A B C) (distR A B / perim A B C).
Proof. intros A B C Hs. unfold incentre, bary. f_equal; field; lra. Qed.

(* the signed doubled areas seen from the incentre are proportional to the side lengths *)
Lemma incentre_cross : forall A B C, 0 < perim A B C ->
  crossR A B (incentre A B C) = distR A B / perim A B C * crossR A B C /\
  crossR B C (incentre A B C) = distR B C / perim A B C * crossR A B C /\
  crossR C A (incentre A B C) = distR A C / perim A B C * crossR A B C.
Proof.
  intros A B C Hs. unfold incentre. set (s := perim A B C) in *.
  assert (Es : distR B C + distR A C + distR A B = s) by reflexivity.
  set (a := distR B C) in *. set (b := distR A C) in *. set (c := distR A B) in *. clearbody a b c s.
  unfold crossR. cbn [f_x f_y]. subst s. repeat split; field; lra.
Qed.
Lemma Rabs_scale : forall k s D, 0 < k -> 0 < s -> Rabs (k / s * D) / k = Rabs D / s.
Proof.
  intros k s D Hk Hs. rewrite Rabs_mult, Rabs_pos_eq.
  - field. lra.
  - apply Rmult_le_pos; [lra | left; apply Rinv_0_lt_compat; exact Hs].
Qed.
(* (a) the generated point is at EQUAL distance r = 2 area / perimeter from the three side lines *)
Theorem incentre_equidistant : forall A B C, 0 < distR A B -> 0 < distR B C -> 0 < distR A C ->
  line_dist (incentre A B C) A B = inradius A B C /\ line_dist (incentre A B C) B C = inradius A B C /\
  line_dist (incentre A B C) C A = inradius A B C.
Proof.
  intros A B C Hc Ha Hb. assert (Hs : 0 < perim A B C) by (unfold perim; lra).
  destruct (incentre_cross A B C Hs) as [E1 [E2 E3]]. unfold line_dist, inradius, area2.
  rewrite E1, E2, E3, (distR_sym C A). repeat split; apply Rabs_scale; assumption.
Qed.
(* line_dist is THE distance to the line *)
Lemma line_dist_is_dist : forall p a b, 0 < distR a b -> is_pt_line_dist (line_dist p a b) p a b.
Proof.
  intros p a b Hc. assert (HL : 0 < len2 a b) by (rewrite len2_sq; apply Rmult_lt_0_compat; assumption).
  assert (E : line_dist p a b = Rabs (crossR a b p / len2 a b) * sqrt (len2 a b)).
  { unfold line_dist. rewrite sqrt_len2, len2_sq. unfold Rdiv. rewrite Rabs_mult.
    rewrite (Rabs_pos_eq (/ (distR a b * distR a b))) by (left; apply Rinv_0_lt_compat, Rmult_lt_0_compat; assumption).
    field. lra. }
  rewrite E. apply pt_line_foot. exact HL.
Qed.

(* the translated pointToSegment from the incentre to the side p0 p1 is the inradius, for EVERY triangle of positive perimeter
   (also the flat ones: there both are 0) *)
Lemma ptseg_incentre : forall A B C, 0 < perim A B C -> g_pointToSegment (incentre A B C) A B = inradius A B C.
Proof.
  intros A B C Hs. assert (Ha := distR_nonneg B C). assert (Hb := distR_nonneg A C).
  destruct (Rle_lt_or_eq_dec 0 (distR A B) (distR_nonneg A B)) as [Hc | Hc].
  - rewrite incentre_bary by exact Hs. rewrite side_foot.
    + unfold inradius. field. split; lra.
    + apply Rmult_le_pos; [exact Ha | left; apply Rinv_0_lt_compat; exact Hs].
    + apply Rmult_le_pos; [exact Hb | left; apply Rinv_0_lt_compat; exact Hs].
    + apply Rmult_le_pos; [lra | left; apply Rinv_0_lt_compat; exact Hs].
    + unfold perim. field. unfold perim in Hs. lra.
    + exact Hc.
    + right. field. lra.
    + right. field. lra.
  - symmetry in Hc. apply distR_zero in Hc. subst B.
    rewrite (pt_seg_dist_unique _ _ _ A A (g_pointToSegment_is_dist _ A A) (pt_seg_deg _ A)).
    unfold perim in Hs. rewrite distR_self in Hs.
    assert (EI : incentre A A C = A).
    { unfold incentre, perim. rewrite distR_self. destruct A as [ax ay]. cbn [f_x f_y]. f_equal; field; lra. }
    rewrite EI, distR_self. unfold inradius, area2, crossR. replace ((f_y A - f_y C) * (f_x A - f_x A) - (f_x A - f_x C) * (f_y A - f_y A)) with 0 by ring.
    rewrite Rabs_R0. unfold Rdiv. ring.
Qed.

(* ---------------------------------------------------------------- isTriangleErodedCompletely *)
Lemma getAt_012 : forall A B C rest, m_getAt_1 (A :: B :: C :: rest) 0%Z = A /\ m_getAt_1 (A :: B :: C :: rest) 1%Z = B /\
  m_getAt_1 (A :: B :: C :: rest) 2%Z = C.
Proof. intros. repeat split. Qed.
Lemma gen_triEroded_value : forall A B C rest d,
  g_isTriangleErodedCompletely (A :: B :: C :: rest) d = ltb (g_pointToSegment (incentre A B C) A B) (Rabs d).
Proof.
  intros. unfold g_isTriangleErodedCompletely. cbv zeta. destruct (getAt_012 A B C rest) as [E0 [E1 E2]]. rewrite E0, E1, E2.
  rewrite gen_inCentre_is_incentre. unfold mk_Triangle_3. cbn [f_p0 f_p1]. reflexivity.
Qed.
(* (b) the generated test is true iff inradius < |d| *)
Theorem gen_triEroded_iff : forall A B C rest d, 0 < perim A B C ->
  (g_isTriangleErodedCompletely (A :: B :: C :: rest) d = true <-> inradius A B C < Rabs d).
Proof.
  intros A B C rest d Hs. rewrite gen_triEroded_value, ptseg_incentre by exact Hs. unfold ltb.
  destruct (Rlt_dec (inradius A B C) (Rabs d)); split; intro H; try reflexivity; try assumption; try discriminate H. contradiction.
Qed.

(* ---------------------------------------------------------------- (c) the incentre maximises the distance to the boundary *)
Theorem tri_side_within_inradius : forall A B C p, 0 < distR A B -> 0 < distR B C -> 0 < distR A C -> in_tri p A B C ->
  g_pointToSegment p A B <= inradius A B C \/ g_pointToSegment p B C <= inradius A B C \/ g_pointToSegment p C A <= inradius A B C.
Proof.
  intros A B C p Hc Ha Hb [u [v [w [Hu [Hv [Hw [Hs Ep]]]]]]]. subst p.
  assert (Hp : 0 < perim A B C) by (unfold perim; lra).
  assert (HD := area2_nonneg A B C).
  assert (F1 := side_foot A B C u v w Hu Hv Hw Hs Hc).
  assert (F2 := side_foot B C A v w u Hv Hw Hu). rewrite bary_cyc, area2_cyc, (distR_sym B A), (distR_sym C A) in F2.
  assert (F3 := side_foot C A B w u v Hw Hu Hv). rewrite bary_cyc, bary_cyc, area2_cyc, area2_cyc, (distR_sym C B), (distR_sym C A) in F3.
  unfold inradius, perim in *.
  set (a := distR B C) in *. set (b := distR A C) in *. set (c := distR A B) in *. set (D := area2 A B C) in *.
  set (P := bary A B C u v w) in *. clearbody a b c D P.
  assert (Eu : u = u / a * a) by (field; lra). assert (Ev : v = v / b * b) by (field; lra). assert (Ew : w = w / c * c) by (field; lra).
  set (x := u / a) in *. set (y := v / b) in *. set (z := w / c) in *. clearbody x y z.
  assert (Hab : 0 < a * b) by (apply Rmult_lt_0_compat; assumption).
  assert (Hbc : 0 < b * c) by (apply Rmult_lt_0_compat; assumption).
  assert (Hac : 0 < a * c) by (apply Rmult_lt_0_compat; assumption).
  (* m <= 1/s for the smallest m of x y z, since a x + b y + c z = 1 *)
  assert (Bound : forall m, m <= x -> m <= y -> m <= z -> m * D <= D / (a + b + c)).
  { intros m Hx Hy Hz. assert (m * (a + b + c) <= 1) by nra.
    assert (0 < / (a + b + c)) by (apply Rinv_0_lt_compat; lra).
    assert (m <= / (a + b + c)).
    { replace m with (m * (a + b + c) * / (a + b + c)) by (field; lra).
      replace (/ (a + b + c)) with (1 * / (a + b + c)) at 2 by ring. apply Rmult_le_compat_r; lra. }
    unfold Rdiv. rewrite (Rmult_comm D). apply Rmult_le_compat_r; assumption. }
  destruct (Rle_dec z x) as [Hzx | Hzx]; [destruct (Rle_dec z y) as [Hzy | Hzy] | destruct (Rle_dec x y) as [Hxy | Hxy]].
  - left. rewrite F1; [| nra | nra]. replace (w * D / c) with (z * D) by (rewrite Ew; field; lra). apply Bound; lra.
  - right. right. rewrite F3; [| lra | lra | nra | nra]. replace (v * D / b) with (y * D) by (rewrite Ev; field; lra). apply Bound; lra.
  - right. left. rewrite F2; [| lra | lra | nra | nra]. replace (u * D / a) with (x * D) by (rewrite Eu; field; lra). apply Bound; lra.
  - right. right. rewrite F3; [| lra | lra | nra | nra]. replace (v * D / b) with (y * D) by (rewrite Ev; field; lra). apply Bound; lra.
Qed.

(* ... in terms of points: every point of the closed triangle has a point of the boundary within the inradius *)
Theorem tri_boundary_within_inradius : forall A B C p, 0 < distR A B -> 0 < distR B C -> 0 < distR A C -> in_tri p A B C ->
  exists q, on_tri_boundary q A B C /\ distR p q <= inradius A B C.
Proof.
  intros A B C p Hc Ha Hb Hin.
  destruct (tri_side_within_inradius A B C p Hc Ha Hb Hin) as [H | [H | H]];
    [destruct (g_pointToSegment_is_dist p A B) as [_ [[q [Hq Eq]] _]] | destruct (g_pointToSegment_is_dist p B C) as [_ [[q [Hq Eq]] _]]
    | destruct (g_pointToSegment_is_dist p C A) as [_ [[q [Hq Eq]] _]]];
    exists q; (split; [unfold on_tri_boundary; tauto | rewrite <- Eq; exact H]).
Qed.

(* the distance to the side LINES: the smallest of the three is at most the inradius (it is the inradius at the incentre) *)
Theorem tri_line_dist_max : forall A B C p, 0 < distR A B -> 0 < distR B C -> 0 < distR A C -> in_tri p A B C ->
  Rmin (line_dist p A B) (Rmin (line_dist p B C) (line_dist p C A)) <= inradius A B C.
Proof.
  intros A B C p Hc Ha Hb Hin.
  assert (L : forall a b, 0 < distR a b -> line_dist p a b <= g_pointToSegment p a b).
  { intros a b H. destruct (line_dist_is_dist p a b H) as [_ [_ Lo]].
    destruct (g_pointToSegment_is_dist p a b) as [_ [[q [[t [_ Eq]] Ev]] _]]. rewrite Ev, Eq. apply Lo. }
  assert (L1 := L A B Hc). assert (L2 := L B C Ha). assert (Hb' : 0 < distR C A) by (rewrite distR_sym; exact Hb). assert (L3 := L C A Hb').
  assert (M1 := Rmin_l (line_dist p A B) (Rmin (line_dist p B C) (line_dist p C A))).
  assert (M2 := Rmin_r (line_dist p A B) (Rmin (line_dist p B C) (line_dist p C A))).
  assert (M3 := Rmin_l (line_dist p B C) (line_dist p C A)). assert (M4 := Rmin_r (line_dist p B C) (line_dist p C A)).
  destruct (tri_side_within_inradius A B C p Hc Ha Hb Hin) as [H | [H | H]]; lra.
Qed.

(* SOUNDNESS of dropping a triangular ring: if the generated test says "eroded completely", every point of the closed triangle
   has a point of the triangle's boundary at distance < |d| — no location at distance >= |d| from the boundary exists *)
Theorem gen_triEroded_sound : forall A B C rest d, 0 < distR A B -> 0 < distR B C -> 0 < distR A C ->
  g_isTriangleErodedCompletely (A :: B :: C :: rest) d = true ->
  forall p, in_tri p A B C -> exists q, on_tri_boundary q A B C /\ distR p q < Rabs d.
Proof.
  intros A B C rest d Hc Ha Hb Ht p Hin.
  apply gen_triEroded_iff in Ht; [| unfold perim; lra].
  destruct (tri_boundary_within_inradius A B C p Hc Ha Hb Hin) as [q [Hq Hd]]. exists q. split; [exact Hq | lra].
Qed.
(* and it is exact: when the test says "not eroded", the incentre itself is a point of the triangle at distance >= |d| from
   every point of the side p0 p1 ... and (equidistance) from the other two side lines *)
Theorem gen_triEroded_complete : forall A B C rest d, 0 < perim A B C ->
  g_isTriangleErodedCompletely (A :: B :: C :: rest) d = false ->
  Rabs d <= inradius A B C /\ in_tri (incentre A B C) A B C.
Proof.
  intros A B C rest d Hs Ht. split.
  - destruct (Rle_dec (Rabs d) (inradius A B C)) as [H | H]; [exact H | exfalso].
    assert (Hlt : inradius A B C < Rabs d) by lra. apply (gen_triEroded_iff A B C rest d Hs) in Hlt. congruence.
  - rewrite incentre_bary by exact Hs. assert (Ha := distR_nonneg B C). assert (Hb := distR_nonneg A C). assert (Hc := distR_nonneg A B).
    assert (0 < / perim A B C) by (apply Rinv_0_lt_compat; exact Hs).
    exists (distR B C / perim A B C), (distR A C / perim A B C), (distR A B / perim A B C).
    repeat split; try (apply Rmult_le_pos; lra). unfold perim. field. unfold perim in Hs. lra.
Qed.
