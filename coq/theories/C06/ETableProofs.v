(* GENERATED ONCE by gen/corpus/C06_mk_etable.py (committed): one `interval` proof per table row, then e_table. *)
From Coq Require Import Reals ZArith List Lra Lia.
From Interval Require Import Tactic.
From GeosV.C06 Require Import ETable.
Local Open Scope R_scope.
Definition row_ok (q : Z) : Prop :=
  IZR (a_lo q) / IZR e_den <= 1 - cos (PI / (4 * IZR q)) <= IZR (a_hi q) / IZR e_den /\
  IZR (b_lo q) / IZR e_den <= 1 - cos (3 * PI / (8 * IZR q)) <= IZR (b_hi q) / IZR e_den.
Lemma row_1 : (292893218813451 / 1000000000000000 <= 1 - cos (PI / (4 * 1)) <= 292893218813454 / 1000000000000000) /\ (617316567634909 / 1000000000000000 <= 1 - cos (3 * PI / (8 * 1)) <= 617316567634912 / 1000000000000000).
Proof. repeat split; interval with (i_prec 90). Qed.
Lemma row_2 : (76120467488712 / 1000000000000000 <= 1 - cos (PI / (4 * 2)) <= 76120467488715 / 1000000000000000) /\ (168530387697453 / 1000000000000000 <= 1 - cos (3 * PI / (8 * 2)) <= 168530387697456 / 1000000000000000).
Proof. repeat split; interval with (i_prec 90). Qed.
Lemma row_3 : (34074173710930 / 1000000000000000 <= 1 - cos (PI / (4 * 3)) <= 34074173710933 / 1000000000000000) /\ (76120467488712 / 1000000000000000 <= 1 - cos (3 * PI / (8 * 3)) <= 76120467488715 / 1000000000000000).
Proof. repeat split; interval with (i_prec 90). Qed.
Lemma row_4 : (19214719596768 / 1000000000000000 <= 1 - cos (PI / (4 * 4)) <= 19214719596771 / 1000000000000000) /\ (43059664267790 / 1000000000000000 <= 1 - cos (3 * PI / (8 * 4)) <= 43059664267793 / 1000000000000000).
Proof. repeat split; interval with (i_prec 90). Qed.
Lemma row_5 : (12311659404861 / 1000000000000000 <= 1 - cos (PI / (4 * 5)) <= 12311659404864 / 1000000000000000) /\ (27630079602322 / 1000000000000000 <= 1 - cos (3 * PI / (8 * 5)) <= 27630079602325 / 1000000000000000).
Proof. repeat split; interval with (i_prec 90). Qed.
Lemma row_6 : (8555138626188 / 1000000000000000 <= 1 - cos (PI / (4 * 6)) <= 8555138626191 / 1000000000000000) /\ (19214719596768 / 1000000000000000 <= 1 - cos (3 * PI / (8 * 6)) <= 19214719596771 / 1000000000000000).
Proof. repeat split; interval with (i_prec 90). Qed.
Lemma row_7 : (6287790106756 / 1000000000000000 <= 1 - cos (PI / (4 * 7)) <= 6287790106759 / 1000000000000000) /\ (14128981481763 / 1000000000000000 <= 1 - cos (3 * PI / (8 * 7)) <= 14128981481766 / 1000000000000000).
Proof. repeat split; interval with (i_prec 90). Qed.
Lemma row_8 : (4815273327802 / 1000000000000000 <= 1 - cos (PI / (4 * 8)) <= 4815273327805 / 1000000000000000) /\ (10823490035218 / 1000000000000000 <= 1 - cos (3 * PI / (8 * 8)) <= 10823490035221 / 1000000000000000).
Proof. repeat split; interval with (i_prec 90). Qed.
Lemma row_9 : (3805301908253 / 1000000000000000 <= 1 - cos (PI / (4 * 9)) <= 3805301908256 / 1000000000000000) /\ (8555138626188 / 1000000000000000 <= 1 - cos (3 * PI / (8 * 9)) <= 8555138626191 / 1000000000000000).
Proof. repeat split; interval with (i_prec 90). Qed.
Lemma row_10 : (3082666266871 / 1000000000000000 <= 1 - cos (PI / (4 * 10)) <= 3082666266874 / 1000000000000000) /\ (6931543045072 / 1000000000000000 <= 1 - cos (3 * PI / (8 * 10)) <= 6931543045075 / 1000000000000000).
Proof. repeat split; interval with (i_prec 90). Qed.
Lemma row_11 : (2547885389745 / 1000000000000000 <= 1 - cos (PI / (4 * 11)) <= 2547885389748 / 1000000000000000) /\ (5729698228101 / 1000000000000000 <= 1 - cos (3 * PI / (8 * 11)) <= 5729698228104 / 1000000000000000).
Proof. repeat split; interval with (i_prec 90). Qed.
Lemma row_12 : (2141076761395 / 1000000000000000 <= 1 - cos (PI / (4 * 12)) <= 2141076761398 / 1000000000000000) /\ (4815273327802 / 1000000000000000 <= 1 - cos (3 * PI / (8 * 12)) <= 4815273327805 / 1000000000000000).
Proof. repeat split; interval with (i_prec 90). Qed.
Lemma row_13 : (1824445776681 / 1000000000000000 <= 1 - cos (PI / (4 * 13)) <= 1824445776684 / 1000000000000000) /\ (4103442382908 / 1000000000000000 <= 1 - cos (3 * PI / (8 * 13)) <= 4103442382911 / 1000000000000000).
Proof. repeat split; interval with (i_prec 90). Qed.
Lemma row_14 : (1573184982182 / 1000000000000000 <= 1 - cos (PI / (4 * 14)) <= 1573184982185 / 1000000000000000) /\ (3538505882379 / 1000000000000000 <= 1 - cos (3 * PI / (8 * 14)) <= 3538505882382 / 1000000000000000).
Proof. repeat split; interval with (i_prec 90). Qed.
Lemma row_15 : (1370465245425 / 1000000000000000 <= 1 - cos (PI / (4 * 15)) <= 1370465245428 / 1000000000000000) /\ (3082666266871 / 1000000000000000 <= 1 - cos (3 * PI / (8 * 15)) <= 3082666266874 / 1000000000000000).
Proof. repeat split; interval with (i_prec 90). Qed.
Lemma row_16 : (1204543794826 / 1000000000000000 <= 1 - cos (PI / (4 * 16)) <= 1204543794829 / 1000000000000000) /\ (2709543321308 / 1000000000000000 <= 1 - cos (3 * PI / (8 * 16)) <= 2709543321311 / 1000000000000000).
Proof. repeat split; interval with (i_prec 90). Qed.
Lemma row_17 : (1067025197626 / 1000000000000000 <= 1 - cos (PI / (4 * 17)) <= 1067025197629 / 1000000000000000) /\ (2400272936282 / 1000000000000000 <= 1 - cos (3 * PI / (8 * 17)) <= 2400272936285 / 1000000000000000).
Proof. repeat split; interval with (i_prec 90). Qed.
Lemma row_18 : (951778418141 / 1000000000000000 <= 1 - cos (PI / (4 * 18)) <= 951778418144 / 1000000000000000) /\ (2141076761395 / 1000000000000000 <= 1 - cos (3 * PI / (8 * 18)) <= 2141076761398 / 1000000000000000).
Proof. repeat split; interval with (i_prec 90). Qed.
Lemma row_19 : (854241612697 / 1000000000000000 <= 1 - cos (PI / (4 * 19)) <= 854241612700 / 1000000000000000) /\ (1921701534130 / 1000000000000000 <= 1 - cos (3 * PI / (8 * 19)) <= 1921701534133 / 1000000000000000).
Proof. repeat split; interval with (i_prec 90). Qed.
Lemma row_20 : (770963759276 / 1000000000000000 <= 1 - cos (PI / (4 * 20)) <= 770963759279 / 1000000000000000) /\ (1734389815283 / 1000000000000000 <= 1 - cos (3 * PI / (8 * 20)) <= 1734389815286 / 1000000000000000).
Proof. repeat split; interval with (i_prec 90). Qed.
Lemma row_21 : (699295211600 / 1000000000000000 <= 1 - cos (PI / (4 * 21)) <= 699295211603 / 1000000000000000) /\ (1573184982182 / 1000000000000000 <= 1 - cos (3 * PI / (8 * 21)) <= 1573184982185 / 1000000000000000).
Proof. repeat split; interval with (i_prec 90). Qed.
Lemma row_22 : (637174343007 / 1000000000000000 <= 1 - cos (PI / (4 * 22)) <= 637174343010 / 1000000000000000) /\ (1433451949270 / 1000000000000000 <= 1 - cos (3 * PI / (8 * 22)) <= 1433451949273 / 1000000000000000).
Proof. repeat split; interval with (i_prec 90). Qed.
Lemma row_23 : (582977633824 / 1000000000000000 <= 1 - cos (PI / (4 * 23)) <= 582977633827 / 1000000000000000) /\ (1311540354526 / 1000000000000000 <= 1 - cos (3 * PI / (8 * 23)) <= 1311540354529 / 1000000000000000).
Proof. repeat split; interval with (i_prec 90). Qed.
Lemma row_24 : (535412523633 / 1000000000000000 <= 1 - cos (PI / (4 * 24)) <= 535412523636 / 1000000000000000) /\ (1204543794826 / 1000000000000000 <= 1 - cos (3 * PI / (8 * 24)) <= 1204543794829 / 1000000000000000).
Proof. repeat split; interval with (i_prec 90). Qed.
Lemma row_25 : (493439634267 / 1000000000000000 <= 1 - cos (PI / (4 * 25)) <= 493439634270 / 1000000000000000) /\ (1110125038029 / 1000000000000000 <= 1 - cos (3 * PI / (8 * 25)) <= 1110125038032 / 1000000000000000).
Proof. repeat split; interval with (i_prec 90). Qed.
Lemma row_26 : (456215510465 / 1000000000000000 <= 1 - cos (PI / (4 * 26)) <= 456215510468 / 1000000000000000) /\ (1026387331203 / 1000000000000000 <= 1 - cos (3 * PI / (8 * 26)) <= 1026387331206 / 1000000000000000).
Proof. repeat split; interval with (i_prec 90). Qed.
Lemma row_27 : (423049917798 / 1000000000000000 <= 1 - cos (PI / (4 * 27)) <= 423049917801 / 1000000000000000) /\ (951778418141 / 1000000000000000 <= 1 - cos (3 * PI / (8 * 27)) <= 951778418144 / 1000000000000000).
Proof. repeat split; interval with (i_prec 90). Qed.
Lemma row_28 : (393373616946 / 1000000000000000 <= 1 - cos (PI / (4 * 28)) <= 393373616949 / 1000000000000000) /\ (885018099112 / 1000000000000000 <= 1 - cos (3 * PI / (8 * 28)) <= 885018099115 / 1000000000000000).
Proof. repeat split; interval with (i_prec 90). Qed.
Lemma row_29 : (366713776715 / 1000000000000000 <= 1 - cos (PI / (4 * 29)) <= 366713776718 / 1000000000000000) /\ (825042957884 / 1000000000000000 <= 1 - cos (3 * PI / (8 * 29)) <= 825042957887 / 1000000000000000).
Proof. repeat split; interval with (i_prec 90). Qed.
Lemma row_30 : (342675024441 / 1000000000000000 <= 1 - cos (PI / (4 * 30)) <= 342675024444 / 1000000000000000) /\ (770963759276 / 1000000000000000 <= 1 - cos (3 * PI / (8 * 30)) <= 770963759279 / 1000000000000000).
Proof. repeat split; interval with (i_prec 90). Qed.
Lemma row_31 : (320924703568 / 1000000000000000 <= 1 - cos (PI / (4 * 31)) <= 320924703571 / 1000000000000000) /\ (722032303410 / 1000000000000000 <= 1 - cos (3 * PI / (8 * 31)) <= 722032303413 / 1000000000000000).
Proof. repeat split; interval with (i_prec 90). Qed.
Lemma row_32 : (301181303794 / 1000000000000000 <= 1 - cos (PI / (4 * 32)) <= 301181303797 / 1000000000000000) /\ (677615411649 / 1000000000000000 <= 1 - cos (3 * PI / (8 * 32)) <= 677615411652 / 1000000000000000).
Proof. repeat split; interval with (i_prec 90). Qed.
Theorem e_table q : (1 <= q <= 32)%Z -> row_ok q.
Proof.
  intros Hq. assert (C : (q = 1 \/ q = 2 \/ q = 3 \/ q = 4 \/ q = 5 \/ q = 6 \/ q = 7 \/ q = 8 \/ q = 9 \/ q = 10 \/ q = 11 \/ q = 12 \/ q = 13 \/ q = 14 \/ q = 15 \/ q = 16 \/ q = 17 \/ q = 18 \/ q = 19 \/ q = 20 \/ q = 21 \/ q = 22 \/ q = 23 \/ q = 24 \/ q = 25 \/ q = 26 \/ q = 27 \/ q = 28 \/ q = 29 \/ q = 30 \/ q = 31 \/ q = 32)%Z) by lia.
  destruct C as [-> | C]; [unfold row_ok; replace (a_lo 1) with 292893218813451%Z by reflexivity; replace (a_hi 1) with 292893218813454%Z by reflexivity; replace (b_lo 1) with 617316567634909%Z by reflexivity; replace (b_hi 1) with 617316567634912%Z by reflexivity; exact row_1 |].
  destruct C as [-> | C]; [unfold row_ok; replace (a_lo 2) with 76120467488712%Z by reflexivity; replace (a_hi 2) with 76120467488715%Z by reflexivity; replace (b_lo 2) with 168530387697453%Z by reflexivity; replace (b_hi 2) with 168530387697456%Z by reflexivity; exact row_2 |].
  destruct C as [-> | C]; [unfold row_ok; replace (a_lo 3) with 34074173710930%Z by reflexivity; replace (a_hi 3) with 34074173710933%Z by reflexivity; replace (b_lo 3) with 76120467488712%Z by reflexivity; replace (b_hi 3) with 76120467488715%Z by reflexivity; exact row_3 |].
  destruct C as [-> | C]; [unfold row_ok; replace (a_lo 4) with 19214719596768%Z by reflexivity; replace (a_hi 4) with 19214719596771%Z by reflexivity; replace (b_lo 4) with 43059664267790%Z by reflexivity; replace (b_hi 4) with 43059664267793%Z by reflexivity; exact row_4 |].
  destruct C as [-> | C]; [unfold row_ok; replace (a_lo 5) with 12311659404861%Z by reflexivity; replace (a_hi 5) with 12311659404864%Z by reflexivity; replace (b_lo 5) with 27630079602322%Z by reflexivity; replace (b_hi 5) with 27630079602325%Z by reflexivity; exact row_5 |].
  destruct C as [-> | C]; [unfold row_ok; replace (a_lo 6) with 8555138626188%Z by reflexivity; replace (a_hi 6) with 8555138626191%Z by reflexivity; replace (b_lo 6) with 19214719596768%Z by reflexivity; replace (b_hi 6) with 19214719596771%Z by reflexivity; exact row_6 |].
  destruct C as [-> | C]; [unfold row_ok; replace (a_lo 7) with 6287790106756%Z by reflexivity; replace (a_hi 7) with 6287790106759%Z by reflexivity; replace (b_lo 7) with 14128981481763%Z by reflexivity; replace (b_hi 7) with 14128981481766%Z by reflexivity; exact row_7 |].
  destruct C as [-> | C]; [unfold row_ok; replace (a_lo 8) with 4815273327802%Z by reflexivity; replace (a_hi 8) with 4815273327805%Z by reflexivity; replace (b_lo 8) with 10823490035218%Z by reflexivity; replace (b_hi 8) with 10823490035221%Z by reflexivity; exact row_8 |].
  destruct C as [-> | C]; [unfold row_ok; replace (a_lo 9) with 3805301908253%Z by reflexivity; replace (a_hi 9) with 3805301908256%Z by reflexivity; replace (b_lo 9) with 8555138626188%Z by reflexivity; replace (b_hi 9) with 8555138626191%Z by reflexivity; exact row_9 |].
  destruct C as [-> | C]; [unfold row_ok; replace (a_lo 10) with 3082666266871%Z by reflexivity; replace (a_hi 10) with 3082666266874%Z by reflexivity; replace (b_lo 10) with 6931543045072%Z by reflexivity; replace (b_hi 10) with 6931543045075%Z by reflexivity; exact row_10 |].
  destruct C as [-> | C]; [unfold row_ok; replace (a_lo 11) with 2547885389745%Z by reflexivity; replace (a_hi 11) with 2547885389748%Z by reflexivity; replace (b_lo 11) with 5729698228101%Z by reflexivity; replace (b_hi 11) with 5729698228104%Z by reflexivity; exact row_11 |].
  destruct C as [-> | C]; [unfold row_ok; replace (a_lo 12) with 2141076761395%Z by reflexivity; replace (a_hi 12) with 2141076761398%Z by reflexivity; replace (b_lo 12) with 4815273327802%Z by reflexivity; replace (b_hi 12) with 4815273327805%Z by reflexivity; exact row_12 |].
  destruct C as [-> | C]; [unfold row_ok; replace (a_lo 13) with 1824445776681%Z by reflexivity; replace (a_hi 13) with 1824445776684%Z by reflexivity; replace (b_lo 13) with 4103442382908%Z by reflexivity; replace (b_hi 13) with 4103442382911%Z by reflexivity; exact row_13 |].
  destruct C as [-> | C]; [unfold row_ok; replace (a_lo 14) with 1573184982182%Z by reflexivity; replace (a_hi 14) with 1573184982185%Z by reflexivity; replace (b_lo 14) with 3538505882379%Z by reflexivity; replace (b_hi 14) with 3538505882382%Z by reflexivity; exact row_14 |].
  destruct C as [-> | C]; [unfold row_ok; replace (a_lo 15) with 1370465245425%Z by reflexivity; replace (a_hi 15) with 1370465245428%Z by reflexivity; replace (b_lo 15) with 3082666266871%Z by reflexivity; replace (b_hi 15) with 3082666266874%Z by reflexivity; exact row_15 |].
  destruct C as [-> | C]; [unfold row_ok; replace (a_lo 16) with 1204543794826%Z by reflexivity; replace (a_hi 16) with 1204543794829%Z by reflexivity; replace (b_lo 16) with 2709543321308%Z by reflexivity; replace (b_hi 16) with 2709543321311%Z by reflexivity; exact row_16 |].
  destruct C as [-> | C]; [unfold row_ok; replace (a_lo 17) with 1067025197626%Z by reflexivity; replace (a_hi 17) with 1067025197629%Z by reflexivity; replace (b_lo 17) with 2400272936282%Z by reflexivity; replace (b_hi 17) with 2400272936285%Z by reflexivity; exact row_17 |].
  destruct C as [-> | C]; [unfold row_ok; replace (a_lo 18) with 951778418141%Z by reflexivity; replace (a_hi 18) with 951778418144%Z by reflexivity; replace (b_lo 18) with 2141076761395%Z by reflexivity; replace (b_hi 18) with 2141076761398%Z by reflexivity; exact row_18 |].
  destruct C as [-> | C]; [unfold row_ok; replace (a_lo 19) with 854241612697%Z by reflexivity; replace (a_hi 19) with 854241612700%Z by reflexivity; replace (b_lo 19) with 1921701534130%Z by reflexivity; replace (b_hi 19) with 1921701534133%Z by reflexivity; exact row_19 |].
  destruct C as [-> | C]; [unfold row_ok; replace (a_lo 20) with 770963759276%Z by reflexivity; replace (a_hi 20) with 770963759279%Z by reflexivity; replace (b_lo 20) with 1734389815283%Z by reflexivity; replace (b_hi 20) with 1734389815286%Z by reflexivity; exact row_20 |].
  destruct C as [-> | C]; [unfold row_ok; replace (a_lo 21) with 699295211600%Z by reflexivity; replace (a_hi 21) with 699295211603%Z by reflexivity; replace (b_lo 21) with 1573184982182%Z by reflexivity; replace (b_hi 21) with 1573184982185%Z by reflexivity; exact row_21 |].
  destruct C as [-> | C]; [unfold row_ok; replace (a_lo 22) with 637174343007%Z by reflexivity; replace (a_hi 22) with 637174343010%Z by reflexivity; replace (b_lo 22) with 1433451949270%Z by reflexivity; replace (b_hi 22) with 1433451949273%Z by reflexivity; exact row_22 |].
  destruct C as [-> | C]; [unfold row_ok; replace (a_lo 23) with 582977633824%Z by reflexivity; replace (a_hi 23) with 582977633827%Z by reflexivity; replace (b_lo 23) with 1311540354526%Z by reflexivity; replace (b_hi 23) with 1311540354529%Z by reflexivity; exact row_23 |].
  destruct C as [-> | C]; [unfold row_ok; replace (a_lo 24) with 535412523633%Z by reflexivity; replace (a_hi 24) with 535412523636%Z by reflexivity; replace (b_lo 24) with 1204543794826%Z by reflexivity; replace (b_hi 24) with 1204543794829%Z by reflexivity; exact row_24 |].
  destruct C as [-> | C]; [unfold row_ok; replace (a_lo 25) with 493439634267%Z by reflexivity; replace (a_hi 25) with 493439634270%Z by reflexivity; replace (b_lo 25) with 1110125038029%Z by reflexivity; replace (b_hi 25) with 1110125038032%Z by reflexivity; exact row_25 |].
  destruct C as [-> | C]; [unfold row_ok; replace (a_lo 26) with 456215510465%Z by reflexivity; replace (a_hi 26) with 456215510468%Z by reflexivity; replace (b_lo 26) with 1026387331203%Z by reflexivity; replace (b_hi 26) with 1026387331206%Z by reflexivity; exact row_26 |].
  destruct C as [-> | C]; [unfold row_ok; replace (a_lo 27) with 423049917798%Z by reflexivity; replace (a_hi 27) with 423049917801%Z by reflexivity; replace (b_lo 27) with 951778418141%Z by reflexivity; replace (b_hi 27) with 951778418144%Z by reflexivity; exact row_27 |].
  destruct C as [-> | C]; [unfold row_ok; replace (a_lo 28) with 393373616946%Z by reflexivity; replace (a_hi 28) with 393373616949%Z by reflexivity; replace (b_lo 28) with 885018099112%Z by reflexivity; replace (b_hi 28) with 885018099115%Z by reflexivity; exact row_28 |].
  destruct C as [-> | C]; [unfold row_ok; replace (a_lo 29) with 366713776715%Z by reflexivity; replace (a_hi 29) with 366713776718%Z by reflexivity; replace (b_lo 29) with 825042957884%Z by reflexivity; replace (b_hi 29) with 825042957887%Z by reflexivity; exact row_29 |].
  destruct C as [-> | C]; [unfold row_ok; replace (a_lo 30) with 342675024441%Z by reflexivity; replace (a_hi 30) with 342675024444%Z by reflexivity; replace (b_lo 30) with 770963759276%Z by reflexivity; replace (b_hi 30) with 770963759279%Z by reflexivity; exact row_30 |].
  destruct C as [-> | C]; [unfold row_ok; replace (a_lo 31) with 320924703568%Z by reflexivity; replace (a_hi 31) with 320924703571%Z by reflexivity; replace (b_lo 31) with 722032303410%Z by reflexivity; replace (b_hi 31) with 722032303413%Z by reflexivity; exact row_31 |].
  subst q; [unfold row_ok; replace (a_lo 32) with 301181303794%Z by reflexivity; replace (a_hi 32) with 301181303797%Z by reflexivity; replace (b_lo 32) with 677615411649%Z by reflexivity; replace (b_hi 32) with 677615411652%Z by reflexivity; exact row_32 ].
Qed.
