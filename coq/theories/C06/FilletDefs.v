(* C06/FilletDefs — model M of the fillet (round join / round cap) generator of
   /repo/src/operation/buffer/OffsetSegmentGenerator.cpp (init: filletAngleQuantum = (pi/2)/quadrantSegments;
   addDirectedFillet(p, startAngle, endAngle, direction, radius)) over the reals, and the executable rational form of its
   segment-count arithmetic.  Definitions only. *)
From Coq Require Import Reals ZArith QArith Qround List.
From Flocq Require Import Core.Raux.
From GeosV.C06 Require Import PreludeR.
Import ListNotations.
Local Open Scope R_scope.

(* int nSegs = (int)(totalAngle / filletAngleQuantum + 0.5) *)
Definition nsegs (total quantum : R) : Z := Ztrunc (total / quantum + 1 / 2).
(* startAngle + directionFactor * i * angleInc *)
Definition fillet_angle (start : R) (dirf : Z) (inc : R) (i : Z) : R := start + IZR (dirf * i) * inc.
Definition polar (p : rpt) (r a : R) : rpt := mk_rpt (f_x p + r * cos a) (f_y p + r * sin a).
(* the points the loop appends: i = 0 .. nSegs-1 (the caller appends the end point p1 itself) *)
Definition fillet_model (quantum : R) (p : rpt) (start end_ : R) (dirf : Z) (r : R) : list rpt :=
  let total := Rabs (start - end_) in
  let n := nsegs total quantum in
  if (n <? 1)%Z then []
  else map (fun i => polar p r (fillet_angle start dirf (total / IZR n) i)) (zrange 0 n).

(* a point of the chord from the fillet vertex at angle a to the one at angle a + theta, t in [0,1] *)
Definition chord_pt (p : rpt) (r a theta t : R) : rpt :=
  mk_rpt ((1 - t) * f_x (polar p r a) + t * f_x (polar p r (a + theta)))
         ((1 - t) * f_y (polar p r a) + t * f_y (polar p r (a + theta))).
Definition rd2 (p q : rpt) : R := (f_x p - f_x q) * (f_x p - f_x q) + (f_y p - f_y q) * (f_y p - f_y q).

(* the property's tolerance and the true worst case of the generator, as functions of a real q *)
Definition e_prop (q : R) : R := 15 / 1000 + 1 - cos (PI / (4 * q)).
Definition e_fillet (q : R) : R := 1 - cos (3 * PI / (8 * q)).

(* executable, exact: the same count on rationals (doubles are dyadic rationals) *)
Definition nsegs_q (total quantum : Q) : Z := Qfloor (total / quantum + (1 # 2))%Q.
