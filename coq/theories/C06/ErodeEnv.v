(* C06/ErodeEnv — BufferCurveSetBuilder::isRingFullyEroded (4-argument form) and Envelope::getWidth / getHeight AS TRANSLATED from
   /repo (Gen/C06_ringEroded, C06_envWidth, C06_envHeight; doubles read as reals, C06/GenPreludeErode), for all inputs:
     * the case split of the generated decision (size < 4; size = 4: the triangle test; otherwise erodable and 2|d| > min(h, w));
     * soundness of the envelope test: a location that the ring separates from infinity along the axis directions (every
       axis-parallel ray from it meets the ring) has a ring point within min(h, w)/2 < |d|;
     * the even-odd rule gives that hypothesis: for a closed ring, an odd number of crossings of the upward ray from a point not
       on the ring implies that the ray AND the opposite ray meet the ring (the crossings of the whole line are even). *)
From Coq Require Import Reals Lra Psatz List Bool ZArith Lia.
From GeosV.C06 Require Import GenPreludeErode ErodeDefs ErodeTri.
From GeosV.C08 Require Import RealDistDefs RealPtSeg GenDist.
From GeosV.Gen Require Import C06_envWidth C06_envHeight C06_triEroded C06_ringEroded.
Import ListNotations.
Local Open Scope R_scope.
Set Default Timeout 120.

(* ---------------------------------------------------------------- the generated decision, case by case *)
Definition height (e : env) : R := if f_null e then 0 else f_maxy e - f_miny e.
Definition width (e : env) : R := if f_null e then 0 else f_maxx e - f_minx e.
Definition erodable (isHole : bool) (d : R) : Prop := (isHole = true /\ 0 < d) \/ (isHole = false /\ d < 0).

Lemma gen_getHeight : forall e, m_getHeight_0 e = height e.
Proof. intros. unfold m_getHeight_0, height, m_isNull_0. unop. destruct (f_null e); [unfold Rdiv; simpl; lra | reflexivity]. Qed.
Lemma gen_getWidth : forall e, m_getWidth_0 e = width e.
Proof. intros. unfold m_getWidth_0, width, m_isNull_0. unop. destruct (f_null e); [unfold Rdiv; simpl; lra | reflexivity]. Qed.

Theorem gen_ringEroded_small : forall l e isHole d, (length l < 4)%nat -> g_isRingFullyEroded tt l e isHole d = true.
Proof.
  intros l e isHole d H. unfold g_isRingFullyEroded, m_getSize_0.
  destruct (Z.ltb_spec (Z.of_nat (length l)) 4) as [_ | H']; [reflexivity | lia].
Qed.
Theorem gen_ringEroded_triangle : forall l e isHole d, length l = 4%nat ->
  g_isRingFullyEroded tt l e isHole d = g_isTriangleErodedCompletely l d.
Proof.
  intros l e isHole d H. unfold g_isRingFullyEroded, m_getSize_0. rewrite H. reflexivity.
Qed.
Theorem gen_ringEroded_large : forall l e isHole d, (length l > 4)%nat ->
  (g_isRingFullyEroded tt l e isHole d = true <-> erodable isHole d /\ 2 * Rabs d > Rmin (height e) (width e)).
Proof.
  intros l e isHole d H. unfold g_isRingFullyEroded, m_getSize_0.
  destruct (Z.ltb_spec (Z.of_nat (length l)) 4) as [H' | _]; [lia |].
  destruct (Z.eqb_spec (Z.of_nat (length l)) 4) as [H' | _]; [lia |].
  cbv zeta. rewrite gen_getHeight, gen_getWidth, c_min_Rmin. unfold erodable, c_abs_1. unop. uncmp.
  replace (IZR 0) with 0 by reflexivity. replace (IZR 2) with 2 by reflexivity.
  destruct isHole; cbn [andb orb negb];
    destruct (Rlt_dec 0 d); destruct (Rlt_dec d 0); cbn [andb orb negb];
    try destruct (Rlt_dec (Rmin (height e) (width e)) (2 * Rabs d));
    split; intro G; try reflexivity; try discriminate G;
    try (split; [tauto | lra]); try (destruct G as [[[G1 G2] | [G1 G2]] G3]; try discriminate G1; lra).
Qed.

(* ---------------------------------------------------------------- the envelope of a point list bounds every ring point *)
Lemma fold_min_le : forall (f : rpt -> R) t x0, fold_right (fun q m => Rmin (f q) m) x0 t <= x0 /\
  forall v, In v t -> fold_right (fun q m => Rmin (f q) m) x0 t <= f v.
Proof.
  intros f t x0. induction t as [| a t [IH0 IH]]; cbn [fold_right]; split.
  - lra.
  - intros v [].
  - eapply Rle_trans; [apply Rmin_r | exact IH0].
  - intros v [E | Hv]; [subst; apply Rmin_l | eapply Rle_trans; [apply Rmin_r | apply IH; exact Hv]].
Qed.
Lemma fold_max_ge : forall (f : rpt -> R) t x0, x0 <= fold_right (fun q m => Rmax (f q) m) x0 t /\
  forall v, In v t -> f v <= fold_right (fun q m => Rmax (f q) m) x0 t.
Proof.
  intros f t x0. induction t as [| a t [IH0 IH]]; cbn [fold_right]; split.
  - lra.
  - intros v [].
  - eapply Rle_trans; [exact IH0 | apply Rmax_r].
  - intros v [E | Hv]; [subst; apply Rmax_l | eapply Rle_trans; [apply IH; exact Hv | apply Rmax_r]].
Qed.
Lemma env_of_bounds : forall l v, In v l ->
  f_null (env_of l) = false /\ f_minx (env_of l) <= f_x v <= f_maxx (env_of l) /\ f_miny (env_of l) <= f_y v <= f_maxy (env_of l).
Proof.
  intros [| p t] v Hv; [destruct Hv |]. cbn [env_of f_null f_minx f_maxx f_miny f_maxy].
  destruct (fold_min_le f_x t (f_x p)) as [A0 A]. destruct (fold_max_ge f_x t (f_x p)) as [B0 B].
  destruct (fold_min_le f_y t (f_y p)) as [C0 C]. destruct (fold_max_ge f_y t (f_y p)) as [D0 D].
  destruct Hv as [E | Hv]; [subst v; tauto |]. specialize (A v Hv). specialize (B v Hv). specialize (C v Hv). specialize (D v Hv). tauto.
Qed.
Lemma in_segs : forall l a b, In (a, b) (segs l) -> In a l /\ In b l.
Proof.
  intros l a b H. unfold segs in H. split; [eapply in_combine_l; exact H |].
  apply in_combine_r in H. destruct l; [destruct H | right; exact H].
Qed.
Lemma on_ring_bounds : forall l q, on_ring q l ->
  f_null (env_of l) = false /\ f_minx (env_of l) <= f_x q <= f_maxx (env_of l) /\ f_miny (env_of l) <= f_y q <= f_maxy (env_of l).
Proof.
  intros l q [[a b] [Hs [t [Ht E]]]]. cbn [fst snd] in E. apply in_segs in Hs. destruct Hs as [Ha Hb].
  destruct (env_of_bounds l a Ha) as [N [Ax Ay]]. destruct (env_of_bounds l b Hb) as [_ [Bx By]].
  subst q. unfold lerp. cbn [f_x f_y]. split; [exact N |]. split; split; nra.
Qed.

(* ---------------------------------------------------------------- (d) the envelope test is sound *)
Lemma distR_vert : forall p q, f_x q = f_x p -> distR p q = Rabs (f_y p - f_y q).
Proof.
  intros p q E. unfold distR, d2R. rewrite E. replace ((f_x p - f_x p) * (f_x p - f_x p) + (f_y p - f_y q) * (f_y p - f_y q)) with (Rsqr (f_y p - f_y q)) by (unfold Rsqr; ring).
  apply sqrt_Rsqr_abs.
Qed.
Lemma distR_horiz : forall p q, f_y q = f_y p -> distR p q = Rabs (f_x p - f_x q).
Proof.
  intros p q E. unfold distR, d2R. rewrite E. replace ((f_x p - f_x q) * (f_x p - f_x q) + (f_y p - f_y p) * (f_y p - f_y p)) with (Rsqr (f_x p - f_x q)) by (unfold Rsqr; ring).
  apply sqrt_Rsqr_abs.
Qed.
(* a location enclosed vertically by a ring of envelope height h has a ring point within h/2 *)
Theorem narrow_height : forall l p, v_enclosed p l -> exists q, on_ring q l /\ 2 * distR p q <= height (env_of l).
Proof.
  intros l p [[q1 [R1 [X1 Y1]]] [q2 [R2 [X2 Y2]]]].
  destruct (on_ring_bounds l q1 R1) as [N [_ B1]]. destruct (on_ring_bounds l q2 R2) as [_ [_ B2]].
  unfold height. rewrite N.
  destruct (Rle_dec (f_y q1 - f_y p) (f_y p - f_y q2)) as [H | H].
  - exists q1. split; [exact R1 |]. rewrite (distR_vert p q1 X1), Rabs_left1 by lra. lra.
  - exists q2. split; [exact R2 |]. rewrite (distR_vert p q2 X2), Rabs_pos_eq by lra. lra.
Qed.
Theorem narrow_width : forall l p, h_enclosed p l -> exists q, on_ring q l /\ 2 * distR p q <= width (env_of l).
Proof.
  intros l p [[q1 [R1 [Y1 X1]]] [q2 [R2 [Y2 X2]]]].
  destruct (on_ring_bounds l q1 R1) as [N [B1 _]]. destruct (on_ring_bounds l q2 R2) as [_ [B2 _]].
  unfold width. rewrite N.
  destruct (Rle_dec (f_x q1 - f_x p) (f_x p - f_x q2)) as [H | H].
  - exists q1. split; [exact R1 |]. rewrite (distR_horiz p q1 Y1), Rabs_left1 by lra. lra.
  - exists q2. split; [exact R2 |]. rewrite (distR_horiz p q2 Y2), Rabs_pos_eq by lra. lra.
Qed.
(* SOUNDNESS of dropping a ring by the envelope test: when the generated decision (on the ring's own envelope) says "fully eroded"
   for a ring of more than 4 points, every location enclosed by the ring has a ring point at distance < |d| *)
Theorem gen_ringEroded_sound : forall l isHole d, (length l > 4)%nat -> g_isRingFullyEroded tt l (env_of l) isHole d = true ->
  erodable isHole d /\ forall p, v_enclosed p l -> h_enclosed p l -> exists q, on_ring q l /\ distR p q < Rabs d.
Proof.
  intros l isHole d Hl Ht. apply (gen_ringEroded_large l (env_of l) isHole d Hl) in Ht. destruct Ht as [He Hm].
  split; [exact He |]. intros p Hv Hh.
  destruct (narrow_height l p Hv) as [q1 [R1 D1]]. destruct (narrow_width l p Hh) as [q2 [R2 D2]].
  unfold Rmin in Hm. revert Hm. destruct (Rle_dec (height (env_of l)) (width (env_of l))); intro Hm; [exists q1 | exists q2]; (split; [assumption | lra]).
Qed.

(* ---------------------------------------------------------------- the even-odd rule implies "enclosed" *)
Lemma segs_cons2 : forall a b m, segs (a :: b :: m) = (a, b) :: segs (b :: m).
Proof. reflexivity. Qed.
Lemma count_cons : forall f s L, count f (s :: L) = ((if f s then 1 else 0) + count f L)%nat.
Proof. intros. unfold count. cbn [filter]. destruct (f s); reflexivity. Qed.
Lemma last_cons_def : forall m (b a : rpt), last (b :: m) a = last m b.
Proof.
  induction m as [| x m IH]; intros b a; [reflexivity |].
  change (last (b :: x :: m) a) with (last (x :: m) a). rewrite (IH x a), (IH x b). reflexivity.
Qed.
(* the number of crossings of the line x = c along a path has the parity of "the two ends are on different sides" *)
Lemma straddle_parity : forall c m a, Nat.odd (count (straddles c) (segs (a :: m))) = xorb (lebR (f_x a) c) (lebR (f_x (last m a)) c).
Proof.
  intros c m. induction m as [| b m IH]; intros a.
  - cbn. rewrite xorb_nilpotent. reflexivity.
  - rewrite segs_cons2, count_cons. rewrite last_cons_def.
    specialize (IH b). unfold straddles at 1. cbn [fst snd].
    destruct (lebR (f_x a) c), (lebR (f_x b) c); cbn [xorb]; cbn [xorb] in IH.
    + rewrite Nat.add_0_l, IH. reflexivity.
    + rewrite Nat.add_1_l, Nat.odd_succ, <- Nat.negb_odd, IH. destruct (lebR (f_x (last m b)) c); reflexivity.
    + rewrite Nat.add_1_l, Nat.odd_succ, <- Nat.negb_odd, IH. destruct (lebR (f_x (last m b)) c); reflexivity.
    + rewrite Nat.add_0_l, IH. reflexivity.
Qed.
Lemma straddle_even_closed : forall c l, closed_ring l -> Nat.odd (count (straddles c) (segs l)) = false.
Proof. intros c l [a [m E]]. subst l. rewrite straddle_parity, last_last. apply xorb_nilpotent. Qed.
(* a straddling segment meets the line x = c in the point (c, ycross) *)
Lemma cross_point : forall c s, straddles c s = true -> on_seg (mk_rpt c (ycross c s)) (fst s) (snd s).
Proof.
  intros c [a b] H. unfold straddles, lebR in H. cbn [fst snd] in *.
  exists ((c - f_x a) / (f_x b - f_x a)). unfold lerp, ycross. cbn [fst snd].
  destruct (Rle_dec (f_x a) c), (Rle_dec (f_x b) c); cbn [xorb] in H; try discriminate H.
  - assert (0 < / (f_x b - f_x a)) by (apply Rinv_0_lt_compat; lra). split.
    + unfold Rdiv. split.
      * apply Rmult_le_pos; lra.
      * replace 1 with ((f_x b - f_x a) * / (f_x b - f_x a)) by (field; lra). apply Rmult_le_compat_r; lra.
    + f_equal. field. lra.
  - assert (0 < / (f_x a - f_x b)) by (apply Rinv_0_lt_compat; lra). split.
    + replace ((c - f_x a) / (f_x b - f_x a)) with ((f_x a - c) * / (f_x a - f_x b)) by (field; lra). split.
      * apply Rmult_le_pos; lra.
      * replace 1 with ((f_x a - f_x b) * / (f_x a - f_x b)) by (field; lra). apply Rmult_le_compat_r; lra.
    + f_equal. field. lra.
Qed.
Lemma count_split : forall p L, (forall s, In s L -> straddles (f_x p) s = true -> ycross (f_x p) s <> f_y p) ->
  count (straddles (f_x p)) L = (count (up_cross p) L + count (down_cross p) L)%nat.
Proof.
  intros p L. induction L as [| s L IH]; intros H; [reflexivity |].
  rewrite !count_cons, IH by (intros s' Hs'; apply H; right; exact Hs').
  assert (Hs := H s (or_introl eq_refl)). unfold up_cross, down_cross, ltbR.
  destruct (straddles (f_x p) s); cbn [andb]; [| lia]. specialize (Hs eq_refl).
  destruct (Rlt_dec (f_y p) (ycross (f_x p) s)), (Rlt_dec (ycross (f_x p) s) (f_y p)); try lia; exfalso; lra.
Qed.
Lemma odd_count_ex : forall f L, Nat.odd (count f L) = true -> exists s, In s L /\ f s = true.
Proof.
  intros f L H. unfold count in H. destruct (filter f L) as [| s F] eqn:E; [discriminate H |].
  assert (Hs : In s (filter f L)) by (rewrite E; left; reflexivity). apply filter_In in Hs. exists s. exact Hs.
Qed.
(* even-odd inside (upward ray), not on the ring, closed ring: the vertical line through p meets the ring above AND below p *)
Theorem inside_eo_v_enclosed : forall l p, closed_ring l -> inside_eo p l -> v_enclosed p l.
Proof.
  intros l p Hc [Hn Ho].
  assert (Hne : forall s, In s (segs l) -> straddles (f_x p) s = true -> ycross (f_x p) s <> f_y p).
  { intros s Hs Hst E. apply Hn. exists s. split; [exact Hs |]. assert (G := cross_point _ s Hst). rewrite E in G.
    destruct p as [px py]. exact G. }
  assert (Hsplit := count_split p (segs l) Hne). assert (Hev := straddle_even_closed (f_x p) l Hc).
  rewrite Hsplit, Nat.odd_add, Ho in Hev. cbn [xorb] in Hev. apply negb_false_iff in Hev.
  destruct (odd_count_ex _ _ Ho) as [s1 [I1 U1]]. destruct (odd_count_ex _ _ Hev) as [s2 [I2 U2]].
  unfold up_cross in U1. unfold down_cross in U2. apply andb_true_iff in U1, U2. destruct U1 as [S1 L1]. destruct U2 as [S2 L2].
  unfold ltbR in L1, L2.
  destruct (Rlt_dec (f_y p) (ycross (f_x p) s1)) as [G1 |]; [| discriminate L1].
  destruct (Rlt_dec (ycross (f_x p) s2) (f_y p)) as [G2 |]; [| discriminate L2].
  split.
  - exists (mk_rpt (f_x p) (ycross (f_x p) s1)). split; [exists s1; split; [exact I1 | apply cross_point; exact S1] |]. cbn [f_x f_y]. split; [reflexivity | lra].
  - exists (mk_rpt (f_x p) (ycross (f_x p) s2)). split; [exists s2; split; [exact I2 | apply cross_point; exact S2] |]. cbn [f_x f_y]. split; [reflexivity | lra].
Qed.

(* the horizontal direction: the same rule after exchanging the axes *)
Lemma swap_swap : forall p, swap (swap p) = p.
Proof. intros [x y]. reflexivity. Qed.
Lemma on_seg_swap : forall q a b, on_seg q (swap a) (swap b) -> on_seg (swap q) a b.
Proof. intros q a b [t [Ht E]]. exists t. split; [exact Ht |]. subst q. reflexivity. Qed.
Lemma segs_map_swap : forall l, segs (map swap l) = map (fun s => (swap (fst s), swap (snd s))) (segs l).
Proof.
  intros l. unfold segs. destruct l as [| a m]; [reflexivity |]. cbn [map tl]. revert a.
  induction m as [| b m IH]; intros a; [reflexivity |]. cbn [map combine]. f_equal. apply IH.
Qed.
Lemma on_ring_swap : forall q l, on_ring q (map swap l) -> on_ring (swap q) l.
Proof.
  intros q l [s [Hs Hq]]. rewrite segs_map_swap in Hs. apply in_map_iff in Hs. destruct Hs as [s0 [E Hs0]]. subst s. cbn [fst snd] in Hq.
  exists s0. split; [exact Hs0 | apply on_seg_swap; exact Hq].
Qed.
Lemma closed_ring_swap : forall l, closed_ring l -> closed_ring (map swap l).
Proof. intros l [a [m E]]. subst l. exists (swap a), (map swap m). cbn [map]. rewrite map_app. reflexivity. Qed.
Theorem inside_eo_h_enclosed : forall l p, closed_ring l -> inside_eo (swap p) (map swap l) -> h_enclosed p l.
Proof.
  intros l p Hc Hi. destruct (inside_eo_v_enclosed _ _ (closed_ring_swap l Hc) Hi) as [[q1 [R1 [X1 Y1]]] [q2 [R2 [X2 Y2]]]].
  destruct p as [px py]. destruct q1 as [a1 b1]. destruct q2 as [a2 b2]. cbn [swap f_x f_y] in *.
  split; [exists (mk_rpt b1 a1) | exists (mk_rpt b2 a2)]; (split; [apply on_ring_swap in R1; apply on_ring_swap in R2; assumption | cbn [f_x f_y]; split; assumption]).
Qed.

(* (d) with the even-odd rule as the meaning of "inside".
   FULL statement wanted: closed_ring l -> inside_eo p l -> (test true) -> exists q on the ring with |pq| < |d|.
   Proved here with the even-odd condition required for BOTH axis directions; the missing lemma is the direction independence of
   the even-odd rule for closed polygonal rings:  closed_ring l -> inside_eo p l -> inside_eo (swap p) (map swap l). *)
Theorem gen_ringEroded_sound_eo_partial : forall l isHole d, closed_ring l -> (length l > 4)%nat ->
  g_isRingFullyEroded tt l (env_of l) isHole d = true ->
  forall p, inside_eo p l -> inside_eo (swap p) (map swap l) -> exists q, on_ring q l /\ distR p q < Rabs d.
Proof.
  intros l isHole d Hc Hl Ht p H1 H2. destruct (gen_ringEroded_sound l isHole d Hl Ht) as [_ G].
  apply G; [apply inside_eo_v_enclosed | apply inside_eo_h_enclosed]; assumption.
Qed.
