(* C06/CheckProofs — what a verdict of the executable checker (CheckDefs.v) means over the reals.
     near / far           decide  "some point of the linework is within B" / "every point of the linework is at least B away"
                          (squared Euclidean distance to ALL points a + t (b - a), 0 <= t <= 1, of every segment):
                          dist2_pt_seg is the minimum and it is attained (C18/DPMetric, DESIGN.md C08 dist2_pt_seg_spec);
     verdict OK           => at every witness both distance clauses hold (with e_up, the certified enclosure of e);
     a reported failure   => the clause of the property text (with the exact e(q)) is violated at that witness.
   Point location (memb, in_area: even-odd rule on exact integers) is the definition of the point sets involved. *)
From Coq Require Import ZArith Reals Lra Lia Bool List.
From GeosV.C18 Require Import DPDefs DPProofs DPMetric.
From GeosV.C06 Require Import PreludeR FilletDefs ETable ETableProofs EProofs CheckDefs.
Import ListNotations.
Local Open Scope R_scope.

(* ------------------------------------------------------------------ rationals *)
Lemma rle_complete a b : rok a -> rok b -> rval a <= rval b -> rle a b = true.
Proof.
  unfold rok, rval. destruct a as [a1 a2], b as [b1 b2]. cbn [fst snd]. intros Ha Hb H.
  apply rle_iff. cbn [fst snd]. apply le_IZR. rewrite !mult_IZR.
  apply IZR_lt in Ha. apply IZR_lt in Hb.
  apply Rmult_le_compat_r with (r := IZR a2 * IZR b2) in H; [|apply Rlt_le, Rmult_lt_0_compat; assumption].
  replace (IZR a1 / IZR a2 * (IZR a2 * IZR b2)) with (IZR a1 * IZR b2) in H by (field; lra).
  replace (IZR b1 / IZR b2 * (IZR a2 * IZR b2)) with (IZR b1 * IZR a2) in H by (field; lra).
  exact H.
Qed.

(* ------------------------------------------------------------------ distance to a linework, over the reals *)
Definition on_linework (ss : list seg) (P : RP) : Prop :=
  exists s t, In s ss /\ 0 <= t <= 1 /\ P = on_seg (Rpt (fst s)) (Rpt (snd s)) t.
(* some point of the linework is within squared distance B of w / every point of it is at squared distance >= B *)
Definition Within (B : R) (w : pt) (ss : list seg) : Prop := exists P, on_linework ss P /\ Rd2 (Rpt w) P <= B.
Definition Beyond (B : R) (w : pt) (ss : list seg) : Prop := forall P, on_linework ss P -> B <= Rd2 (Rpt w) P.

Lemma Within_mono B B' w ss : B <= B' -> Within B w ss -> Within B' w ss.
Proof. intros H (P & HP & Hd). exists P. split; [exact HP | lra]. Qed.
Lemma Beyond_mono B B' w ss : B' <= B -> Beyond B w ss -> Beyond B' w ss.
Proof. intros H HB P HP. specialize (HB P HP). lra. Qed.

Theorem near_iff B w ss : rok B -> near B w ss = true <-> Within (rval B) w ss.
Proof.
  intros HB. unfold near. rewrite existsb_exists. split.
  - intros (s & Hin & Hle). destruct (dist2_pt_seg_attained w (fst s) (snd s)) as (t & Ht & Heq).
    exists (on_seg (Rpt (fst s)) (Rpt (snd s)) t). split; [exists s, t; auto|].
    rewrite Heq. apply rle_rval; [apply dist2_rok | exact HB | exact Hle].
  - intros (P & (s & t & Hin & Ht & ->) & Hd). exists s. split; [exact Hin|].
    apply rle_complete; [apply dist2_rok | exact HB|].
    eapply Rle_trans; [apply dist2_pt_seg_min; exact Ht | exact Hd].
Qed.

Theorem far_iff B w ss : rok B -> far B w ss = true <-> Beyond (rval B) w ss.
Proof.
  intros HB. unfold far. rewrite forallb_forall. split.
  - intros H P (s & t & Hin & Ht & ->). specialize (H s Hin).
    eapply Rle_trans; [apply rle_rval; [exact HB | apply dist2_rok | exact H] | apply dist2_pt_seg_min; exact Ht].
  - intros H s Hin. destruct (dist2_pt_seg_attained w (fst s) (snd s)) as (t & Ht & Heq).
    apply rle_complete; [exact HB | apply dist2_rok|]. rewrite <- Heq. apply H. exists s, t. auto.
Qed.

(* ------------------------------------------------------------------ the bounds *)
Lemma e_den_pos : (0 < e_den)%Z. Proof. reflexivity. Qed.
Lemma bin2_rok d q : rok (bin2 d q).
Proof. unfold rok, bin2, e_up, sq. cbn [fst snd]. pose proof e_den_pos. nia. Qed.
Lemma bout2_rok d k : (0 < snd k)%Z -> rok (bout2 d k).
Proof. unfold rok, bout2, sq. cbn [fst snd]. lia. Qed.

Definition eup_R (q : Z) : R := IZR (fst (e_up q)) / IZR (snd (e_up q)).
Lemma rval_bin2 d q : rval (bin2 d q) = ((1 - eup_R q) * IZR d) * ((1 - eup_R q) * IZR d).
Proof.
  unfold rval, bin2, eup_R, e_up, sq. cbn [fst snd]. rewrite !mult_IZR, minus_IZR.
  assert (IZR e_den <> 0) by (apply not_0_IZR; pose proof e_den_pos; lia). field. exact H.
Qed.
Lemma rval_bout2 d kn kd : (0 < kd)%Z ->
  rval (bout2 d (kn, kd)) = ((1 + 1 / 1000000) * IZR d) * ((1 + 1 / 1000000) * IZR d) * (IZR kn / IZR kd).
Proof.
  intros Hk. unfold rval, bout2, sq. cbn [fst snd]. rewrite !mult_IZR.
  assert (IZR kd <> 0) by (apply not_0_IZR; lia). field. exact H.
Qed.

Lemma a_hi_small q : (1 <= q <= 32)%Z -> (a_hi q <= 300000000000000)%Z.
Proof.
  intros Hq. unfold a_hi, row.
  assert (Hall : forallb (fun r => (snd r <=? 300000000000000)%Z) tab_a = true) by (vm_compute; reflexivity).
  rewrite forallb_forall in Hall. apply Z.leb_le, Hall, nth_In.
  replace (length tab_a) with 32%nat by reflexivity. lia.
Qed.

(* the checker's inside bound never exceeds the property's ((1 - e(q)) |d|)^2 *)
Lemma bin2_le_property d q : (1 <= q <= 32)%Z ->
  rval (bin2 d q) <= ((1 - e_prop (IZR q)) * IZR d) * ((1 - e_prop (IZR q)) * IZR d).
Proof.
  intros Hq. rewrite rval_bin2.
  destruct (e_up_sound q Hq) as [Hlo _]. fold (eup_R q) in Hlo.
  assert (Hup : eup_R q <= 1).
  { unfold eup_R, e_up. cbn [fst snd]. pose proof (a_hi_small q Hq) as Ha. apply IZR_le in Ha.
    replace (15 * (e_den / 1000))%Z with 15000000000000%Z by reflexivity. rewrite plus_IZR.
    replace (IZR e_den) with 1000000000000000 by reflexivity. lra. }
  set (x := 1 - eup_R q) in *. set (y := 1 - e_prop (IZR q)) in *.
  assert (0 <= x <= y) by (unfold x, y; lra).
  assert (0 <= IZR d * IZR d) by (generalize (Rle_0_sqr (IZR d)); unfold Rsqr; lra).
  replace (x * IZR d * (x * IZR d)) with (x * x * (IZR d * IZR d)) by ring.
  replace (y * IZR d * (y * IZR d)) with (y * y * (IZR d * IZR d)) by ring.
  apply Rmult_le_compat_r; [assumption | nra].
Qed.

(* ------------------------------------------------------------------ failure lists *)
Lemma failing_from_nil f : forall ws i, failing_from f ws i = [] <-> forall w, In w ws -> f w = true.
Proof.
  induction ws as [|w r IH]; intros i; cbn [failing_from].
  - split; [intros _ w [] | reflexivity].
  - destruct (f w) eqn:E.
    + rewrite IH. split; [intros H w' [<- | Hin]; auto | intros H w' Hin; apply H; right; exact Hin].
    + split; [discriminate | intros H; specialize (H w (or_introl eq_refl)); congruence].
Qed.
Lemma failing_from_In f : forall ws i0 i, In i (failing_from f ws i0) ->
  (i0 <= i)%Z /\ exists w, nth_error ws (Z.to_nat (i - i0)) = Some w /\ f w = false.
Proof.
  induction ws as [|w r IH]; intros i0 i; cbn [failing_from]; [intros []|].
  destruct (f w) eqn:E.
  - intros H. destruct (IH _ _ H) as (Hle & w' & Hn & Hf). split; [lia|]. exists w'. split; [|exact Hf].
    replace (Z.to_nat (i - i0)) with (S (Z.to_nat (i - (i0 + 1)))) by lia. exact Hn.
  - intros [<- | H].
    + split; [lia|]. exists w. rewrite Z.sub_diag. split; [reflexivity | exact E].
    + destruct (IH _ _ H) as (Hle & w' & Hn & Hf). split; [lia|]. exists w'. split; [|exact Hf].
      replace (Z.to_nat (i - i0)) with (S (Z.to_nat (i - (i0 + 1)))) by lia. exact Hn.
Qed.
Lemma failing_nil f ws : failing f ws = [] <-> forall w, In w ws -> f w = true.
Proof. apply failing_from_nil. Qed.
Lemma failing_In f ws i : In i (failing f ws) -> exists w, nth_error ws (Z.to_nat i) = Some w /\ f w = false.
Proof. intros H. destruct (failing_from_In f ws 0%Z i H) as (_ & w & Hn & Hf). rewrite Z.sub_0_r in Hn. eauto. Qed.

Lemma failing_from'_nil {A} (f : A -> bool) : forall ws i, failing_from' f ws i = [] <-> forall w, In w ws -> f w = true.
Proof.
  induction ws as [|w r IH]; intros i; cbn [failing_from'].
  - split; [intros _ w [] | reflexivity].
  - destruct (f w) eqn:E.
    + rewrite IH. split; [intros H w' [<- | Hin]; auto | intros H w' Hin; apply H; right; exact Hin].
    + split; [discriminate | intros H; specialize (H w (or_introl eq_refl)); congruence].
Qed.

(* ------------------------------------------------------------------ the specification at one witness *)
(* positive distance, round joins and caps *)
Definition SpecPos (g : input) (Bin Bout : R) (R_ : list polygon) (w : pt) : Prop :=
  ((in_area g w = true \/ Within Bin w (in_segs g)) -> memb R_ w = true) /\
  ((in_area g w = false /\ Beyond Bout w (in_segs g)) -> memb R_ w = false).
(* positive distance, any other style: only the (enlarged) outside bound *)
Definition SpecPosOut (g : input) (Bout : R) (R_ : list polygon) (w : pt) : Prop :=
  (in_area g w = false /\ Beyond Bout w (in_segs g)) -> memb R_ w = false.
(* negative distance on polygons *)
Definition SpecNeg (rnd : bool) (g : input) (Bin Bout : R) (R_ : list polygon) (w : pt) : Prop :=
  ((in_area g w = true /\ Beyond Bout w (poly_segs g)) -> memb R_ w = true) /\
  ((in_area g w = false \/ (rnd = true /\ Within Bin w (poly_segs g))) -> memb R_ w = false).
Definition SpecZero (g : input) (R_ : list polygon) (w : pt) : Prop := memb R_ w = in_area g w.

Definition BufferSpec (sgn : Z) (rnd : bool) (g : input) (d q : Z) (k : rat) (R_ : list polygon) (w : pt) : Prop :=
  match sgn with
  | Zpos _ => if rnd then SpecPos g (rval (bin2 d q)) (rval (bout2 d k)) R_ w else SpecPosOut g (rval (bout2 d k)) R_ w
  | Zneg _ => SpecNeg rnd g (rval (bin2 d q)) (rval (bout2 d k)) R_ w
  | Z0 => SpecZero g R_ w
  end.

Lemma ok_in_pos_spec g Bin R_ w : rok Bin -> ok_in_pos true g Bin R_ w = true ->
  (in_area g w = true \/ Within (rval Bin) w (in_segs g)) -> memb R_ w = true.
Proof.
  intros HB. unfold ok_in_pos. cbn [andb]. intros H Hyp.
  assert (E : in_area g w || near Bin w (in_segs g) = true).
  { apply orb_true_iff. destruct Hyp as [Ha | Hw]; [left; exact Ha | right; apply near_iff; assumption]. }
  rewrite E in H. exact H.
Qed.
Lemma ok_out_pos_spec g Bout R_ w : rok Bout -> ok_out_pos g Bout R_ w = true ->
  (in_area g w = false /\ Beyond (rval Bout) w (in_segs g)) -> memb R_ w = false.
Proof.
  intros HB. unfold ok_out_pos. intros H [Ha Hb].
  rewrite Ha in H. cbn [negb andb] in H. apply (far_iff Bout w (in_segs g) HB) in Hb. rewrite Hb in H.
  apply negb_true_iff. exact H.
Qed.
Lemma ok_in_neg_spec g Bout R_ w : rok Bout -> ok_in_neg g Bout R_ w = true ->
  (in_area g w = true /\ Beyond (rval Bout) w (poly_segs g)) -> memb R_ w = true.
Proof.
  intros HB. unfold ok_in_neg. intros H [Ha Hb].
  rewrite Ha in H. cbn [andb] in H. apply (far_iff Bout w (poly_segs g) HB) in Hb. rewrite Hb in H. exact H.
Qed.
Lemma ok_out_neg_spec rnd g Bin R_ w : rok Bin -> ok_out_neg rnd g Bin R_ w = true ->
  (in_area g w = false \/ (rnd = true /\ Within (rval Bin) w (poly_segs g))) -> memb R_ w = false.
Proof.
  intros HB. unfold ok_out_neg. intros H Hyp.
  assert (E : negb (in_area g w) || (rnd && near Bin w (poly_segs g)) = true).
  { apply orb_true_iff. destruct Hyp as [Ha | [Hr Hw]]; [left; rewrite Ha; reflexivity|].
    right. rewrite Hr. cbn [andb]. apply near_iff; assumption. }
  rewrite E in H. apply negb_true_iff. exact H.
Qed.

(* ------------------------------------------------------------------ soundness of the verdict.
   FULL statement wanted (not provable by a finite check):  forall locations w of the plane, BufferSpec ... w.
   PROVED: the same for the witness locations ws handed to the checker (the gap: locations that are not witnesses;
   and e_up in place of e, which only narrows the first hypothesis by < 4e-15 |d| - see bin2_le_property). *)
Theorem buffer_check_sound_partial sgn rnd g d q k R_ ws : (0 < snd k)%Z ->
  check_buffer_ok sgn rnd g d q k R_ ws = true ->
  forall w, In w ws -> BufferSpec sgn rnd g d q k R_ w.
Proof.
  intros Hk Hok w Hin. unfold check_buffer_ok, check_buffer in Hok.
  pose proof (bin2_rok d q) as HBin. pose proof (bout2_rok d k Hk) as HBout.
  unfold BufferSpec. destruct sgn as [|p|p].
  - destruct (failing (ok_zero g R_) ws) eqn:E; [|discriminate].
    rewrite failing_nil in E. specialize (E w Hin). unfold ok_zero in E. apply eqb_prop in E. exact E.
  - destruct (failing (ok_in_pos rnd g (bin2 d q) R_) ws) eqn:E1; [|discriminate].
    destruct (failing (ok_out_pos g (bout2 d k) R_) ws) eqn:E2; [|discriminate].
    rewrite failing_nil in E1, E2. specialize (E1 w Hin). specialize (E2 w Hin).
    destruct rnd.
    + split; [apply ok_in_pos_spec; assumption | apply ok_out_pos_spec; assumption].
    + unfold SpecPosOut. apply ok_out_pos_spec; assumption.
  - destruct (failing (ok_in_neg g (bout2 d k) R_) ws) eqn:E1; [|discriminate].
    destruct (failing (ok_out_neg rnd g (bin2 d q) R_) ws) eqn:E2; [|discriminate].
    rewrite failing_nil in E1, E2. specialize (E1 w Hin). specialize (E2 w Hin).
    split; [apply ok_in_neg_spec; assumption | apply ok_out_neg_spec; assumption].
Qed.

(* ------------------------------------------------------------------ a reported failure is a violation of the property text *)
(* d > 0, round: witness i is within (1 - e(q)) d of the input (or in its area) and NOT in the result *)
Theorem inside_failure_is_violation g d q k R_ ws i : (1 <= q <= 32)%Z ->
  In i (fst (check_buffer 1 true g d q k R_ ws)) ->
  exists w, nth_error ws (Z.to_nat i) = Some w /\ memb R_ w = false /\
    (in_area g w = true \/ Within (((1 - e_prop (IZR q)) * IZR d) * ((1 - e_prop (IZR q)) * IZR d)) w (in_segs g)).
Proof.
  intros Hq H. cbn [check_buffer fst] in H. apply failing_In in H. destruct H as (w & Hn & Hf).
  exists w. split; [exact Hn|]. unfold ok_in_pos in Hf. cbn [andb] in Hf.
  destruct (in_area g w || near (bin2 d q) w (in_segs g)) eqn:E; [|discriminate].
  split; [exact Hf|]. apply orb_true_iff in E. destruct E as [Ha | Hnear]; [left; exact Ha | right].
  apply near_iff in Hnear; [|apply bin2_rok]. eapply Within_mono; [apply bin2_le_property; exact Hq | exact Hnear].
Qed.

(* d > 0, any style: witness i is outside the input's area, at least (1 + 1e-6) d sqrt(k) from all of it, and IN the result *)
Theorem outside_failure_is_violation rnd g d q kn kd R_ ws i : (0 < kd)%Z ->
  In i (snd (check_buffer 1 rnd g d q (kn, kd) R_ ws)) ->
  exists w, nth_error ws (Z.to_nat i) = Some w /\ memb R_ w = true /\ in_area g w = false /\
    Beyond (((1 + 1 / 1000000) * IZR d) * ((1 + 1 / 1000000) * IZR d) * (IZR kn / IZR kd)) w (in_segs g).
Proof.
  intros Hk H. cbn [check_buffer snd] in H. apply failing_In in H. destruct H as (w & Hn & Hf).
  exists w. split; [exact Hn|]. unfold ok_out_pos in Hf.
  destruct (negb (in_area g w) && far (bout2 d (kn, kd)) w (in_segs g)) eqn:E; [|discriminate].
  apply andb_true_iff in E. destruct E as [Ha Hfar]. apply negb_false_iff in Hf. apply negb_true_iff in Ha.
  split; [exact Hf|]. split; [exact Ha|].
  apply far_iff in Hfar; [|apply bout2_rok; exact Hk]. rewrite rval_bout2 in Hfar by exact Hk. exact Hfar.
Qed.

(* d < 0, round joins: witness i is outside the polygon or within (1 - e(q)) |d| of its boundary, and IN the result *)
Theorem erosion_failure_is_violation g d q k R_ ws i : (1 <= q <= 32)%Z ->
  In i (snd (check_buffer (-1) true g d q k R_ ws)) ->
  exists w, nth_error ws (Z.to_nat i) = Some w /\ memb R_ w = true /\
    (in_area g w = false \/ Within (((1 - e_prop (IZR q)) * IZR d) * ((1 - e_prop (IZR q)) * IZR d)) w (poly_segs g)).
Proof.
  intros Hq H. cbn [check_buffer snd] in H. apply failing_In in H. destruct H as (w & Hn & Hf).
  exists w. split; [exact Hn|]. unfold ok_out_neg in Hf. cbn [andb] in Hf.
  destruct (negb (in_area g w) || near (bin2 d q) w (poly_segs g)) eqn:E; [|discriminate].
  apply negb_false_iff in Hf. split; [exact Hf|]. apply orb_true_iff in E. destruct E as [Ha | Hnear].
  - left. apply negb_true_iff. exact Ha.
  - right. apply near_iff in Hnear; [|apply bin2_rok]. eapply Within_mono; [apply bin2_le_property; exact Hq | exact Hnear].
Qed.

(* ------------------------------------------------------------------ single-sided buffers and offset curves: the clauses are
   stated on the executable predicates themselves (hypotheses in_strip / side_of / far are exact integer tests) *)
Theorem single_sided_check_sound_partial side lines d q k R_ ws :
  check_single_sided side lines d q k R_ ws = ([], []) ->
  forall wk, In wk ws ->
    ok_ss_right side (flat_map adj_pairs lines) (bin2 d q) (bout2 d k) R_ wk = true /\
    ok_ss_wrong side (flat_map adj_pairs lines) (bout2 d k) R_ wk = true /\
    ok_ss_out (flat_map adj_pairs lines) (bout2 d k) R_ wk = true.
Proof.
  unfold check_single_sided. cbv zeta. intros H wk Hin. injection H as H1 H2.
  rewrite failing_from'_nil in H1, H2. specialize (H1 wk Hin). specialize (H2 wk Hin).
  apply andb_true_iff in H2. tauto.
Qed.
(* the distance part of ok_ss_out in real terms: farther than the bound from every point of the line -> not in the result *)
Corollary single_sided_outside side lines d q k R_ ws : (0 < snd k)%Z ->
  check_single_sided side lines d q k R_ ws = ([], []) ->
  forall wk, In wk ws -> Beyond (rval (bout2 d k)) (fst wk) (flat_map adj_pairs lines) -> memb R_ (fst wk) = false.
Proof.
  intros Hk H wk Hin Hb. destruct (single_sided_check_sound_partial _ _ _ _ _ _ _ H wk Hin) as (_ & _ & H3).
  unfold ok_ss_out in H3. apply (far_iff _ _ _ (bout2_rok d k Hk)) in Hb. rewrite Hb in H3. apply negb_true_iff. exact H3.
Qed.

Theorem offset_curve_check_sound_partial side rnd lines d q k c ws : (0 < snd k)%Z ->
  check_offset_curve side rnd lines d q k c ws = ([], [], []) ->
  forall wk, In wk ws ->
    on_curve c (fst wk) = true /\
    Within (rval (bout2 d k)) (fst wk) (flat_map adj_pairs lines) /\
    (rnd = true -> Beyond (rval (bin2 d q)) (fst wk) (flat_map adj_pairs lines)) /\
    ok_oc_side side (flat_map adj_pairs lines) (bout2 d k) wk = true.
Proof.
  unfold check_offset_curve. cbv zeta. intros Hk H wk Hin. injection H as H1 H2 H3.
  rewrite failing_from'_nil in H1, H2, H3. specialize (H1 wk Hin). specialize (H2 wk Hin). specialize (H3 wk Hin).
  apply andb_true_iff in H2. destruct H2 as [H2a H2b].
  split; [exact H3|]. split; [apply near_iff; [apply bout2_rok; exact Hk | exact H2a]|].
  split; [|exact H2b]. intros ->. unfold ok_oc_near in H1. apply far_iff; [apply bin2_rok | exact H1].
Qed.
