(* C06/CheckDefs — relational specification R of the buffer, executable side: the checker that is run (extracted) on the
   implementation's outputs.  Exact integer coordinates: input, result, distance and witness locations are all given on ONE
   common grid (doubles are dyadic rationals; the check multiplies everything by the same power of two).  Distances are kept
   squared, as exact rationals; no square root is taken anywhere.  Definitions only.

   dist2_pt_seg (squared distance point / segment) and its arithmetic are those of C18/DPDefs (Distance::pointToSegment). *)
From Coq Require Import ZArith List Bool.
From GeosV.C18 Require Import DPDefs.
From GeosV.C06 Require Import ETable.
Import ListNotations.
Local Open Scope Z_scope.

Definition ring := list pt.
Definition polygon := list ring.             (* shell :: holes *)
Definition seg := (pt * pt)%type.
Record input := mkIn { in_pts : list pt; in_lines : list (list pt); in_polys : list polygon }.

Fixpoint adj_pairs (l : list pt) : list seg :=
  match l with
  | a :: t => match t with b :: _ => (a, b) :: adj_pairs t | [] => [] end
  | [] => []
  end.

(* ------------------------------------------------------------------ exact point location (even-odd) *)
Definition cross3 (a b p : pt) : Z := (px b - px a) * (py p - py a) - (py b - py a) * (px p - px a).
Definition in_box (p a b : pt) : bool :=
  (Z.min (px a) (px b) <=? px p) && (px p <=? Z.max (px a) (px b)) &&
  (Z.min (py a) (py b) <=? py p) && (py p <=? Z.max (py a) (py b)).
Definition on_segb (p : pt) (s : seg) : bool := if in_box p (fst s) (snd s) then cross3 (fst s) (snd s) p =? 0 else false.
(* does the half-open edge (a, b) cross the horizontal ray from p towards +x ? *)
Definition crossesb (p : pt) (s : seg) : bool :=
  let a := fst s in let b := snd s in
  if (py a <=? py p) && (py p <? py b) then 0 <? cross3 a b p
  else if (py b <=? py p) && (py p <? py a) then cross3 a b p <? 0
  else false.
Definition on_ringb (r : ring) (p : pt) : bool := existsb (on_segb p) (adj_pairs r).
Definition ring_parity (r : ring) (p : pt) : bool := fold_left xorb (map (crossesb p) (adj_pairs r)) false.
(* 0 = exterior, 1 = boundary, 2 = interior *)
Definition ring_loc (r : ring) (p : pt) : Z := if on_ringb r p then 1 else if ring_parity r p then 2 else 0.
Definition poly_loc (pg : polygon) (p : pt) : Z :=
  match pg with
  | [] => 0
  | shell :: holes =>
    match ring_loc shell p with
    | 0 => 0
    | 1 => 1
    | _ => if existsb (fun h => ring_loc h p =? 1) holes then 1
           else if existsb (fun h => ring_loc h p =? 2) holes then 0 else 2
    end
  end.
Definition mpoly_loc (mp : list polygon) (p : pt) : Z := fold_left Z.max (map (fun pg => poly_loc pg p) mp) 0.
(* membership in the closed point set of a polygonal geometry *)
Definition memb (mp : list polygon) (w : pt) : bool := negb (mpoly_loc mp w =? 0).

(* ------------------------------------------------------------------ the linework of the input *)
Definition poly_segs (g : input) : list seg := flat_map (flat_map adj_pairs) (in_polys g).
Definition in_segs (g : input) : list seg :=
  map (fun p => (p, p)) (in_pts g) ++ flat_map adj_pairs (in_lines g) ++ poly_segs g.
Definition in_area (g : input) (w : pt) : bool := memb (in_polys g) w.

(* squared distance from w to the linework ss compared with the bound B *)
Definition near (B : rat) (w : pt) (ss : list seg) : bool := existsb (fun s => rle (dist2_pt_seg w (fst s) (snd s)) B) ss.
Definition far (B : rat) (w : pt) (ss : list seg) : bool := forallb (fun s => rle B (dist2_pt_seg w (fst s) (snd s))) ss.
(* w projects strictly inside the segment *)
Definition in_strip (w : pt) (s : seg) : bool :=
  let dot := dotp w (fst s) (snd s) in (0 <? dot) && (dot <? d2pp (snd s) (fst s)).
Definition perp2 (w : pt) (s : seg) : rat := (sq (crossp w (fst s) (snd s)), d2pp (snd s) (fst s)).

(* ------------------------------------------------------------------ bounds *)
(* ((1 - e_up q) |d|)^2 with e_up the certified enclosure of 0.015 + 1 - cos(pi/(4q)) *)
Definition bin2 (d q : Z) : rat := let eu := e_up q in (sq d * sq (snd eu - fst eu), sq (snd eu)).
(* k ((1 + 1e-6) |d|)^2 ; k = (kn, kd) >= 1 enlarges the squared bound for square caps (2) and mitre joins (1 + limit^2) *)
Definition bout2 (d : Z) (k : rat) : rat := (sq d * sq 1000001 * fst k, sq 1000000 * snd k).

(* ------------------------------------------------------------------ clauses at one witness location *)
(* d > 0 :  dist(w, g) <= (1-e)d -> w in R   (round joins and caps only: rnd = true; the property claims nothing of the
            kind for flat / square caps and mitre / bevel joins) ;
            dist(w, g) >= (1+1e-6)d sqrt(k) -> w not in R   (every style; k enlarges the bound for square caps / mitre joins) *)
Definition ok_in_pos (rnd : bool) (g : input) (Bin : rat) (R : list polygon) (w : pt) : bool :=
  if rnd && (in_area g w || near Bin w (in_segs g)) then memb R w else true.
Definition ok_out_pos (g : input) (Bout : rat) (R : list polygon) (w : pt) : bool :=
  if negb (in_area g w) && far Bout w (in_segs g) then negb (memb R w) else true.
(* d < 0 (polygons only): in the polygon and >= (1+1e-6)|d| sqrt(k) from its boundary -> in R ;
                          outside the polygon (every style), or within (1-e)|d| of the boundary (round joins) -> not in R *)
Definition ok_in_neg (g : input) (Bout : rat) (R : list polygon) (w : pt) : bool :=
  if in_area g w && far Bout w (poly_segs g) then memb R w else true.
Definition ok_out_neg (rnd : bool) (g : input) (Bin : rat) (R : list polygon) (w : pt) : bool :=
  if negb (in_area g w) || (rnd && near Bin w (poly_segs g)) then negb (memb R w) else true.
(* d = 0 (polygons): same point set *)
Definition ok_zero (g : input) (R : list polygon) (w : pt) : bool := Bool.eqb (memb R w) (in_area g w).

(* indices of the witnesses at which a clause fails *)
Fixpoint failing_from (f : pt -> bool) (ws : list pt) (i : Z) : list Z :=
  match ws with
  | [] => []
  | w :: r => if f w then failing_from f r (i + 1) else i :: failing_from f r (i + 1)
  end.
Definition failing (f : pt -> bool) (ws : list pt) : list Z := failing_from f ws 0.

(* the checker: sgn = sign of the distance, d = |distance| on the grid, q = quadrant segments (1..32), k = enlargement of the
   outside bound, rnd = round joins and caps.  Returns (failures of the "contains" clause, failures of the "excludes" clause) *)
Definition check_buffer (sgn : Z) (rnd : bool) (g : input) (d q : Z) (k : rat) (R : list polygon) (ws : list pt)
  : list Z * list Z :=
  match sgn with
  | Zpos _ => (failing (ok_in_pos rnd g (bin2 d q) R) ws, failing (ok_out_pos g (bout2 d k) R) ws)
  | Zneg _ => (failing (ok_in_neg g (bout2 d k) R) ws, failing (ok_out_neg rnd g (bin2 d q) R) ws)
  | Z0 => (failing (ok_zero g R) ws, [])
  end.
Definition check_buffer_ok sgn rnd g d q k R ws : bool :=
  match check_buffer sgn rnd g d q k R ws with ([], []) => true | _ => false end.

(* ------------------------------------------------------------------ single-sided buffers (polygonal result) of lines *)
(* side = +1: the buffer lies to the left of the line's direction, -1: to the right.  A witness is attached to the k-th
   segment of the linework; `others` is the linework without that segment. *)
Fixpoint remove_nth {A} (k : nat) (l : list A) : list A :=
  match l, k with
  | [], _ => []
  | _ :: r, O => r
  | a :: r, S k' => a :: remove_nth k' r
  end.
Definition side_of (w : pt) (s : seg) : Z := Z.sgn (cross3 (fst s) (snd s) w).
(* on the wrong side of its segment, projecting inside it, everything else farther than the outside bound -> not in R *)
Definition ok_ss_wrong (side : Z) (ss : list seg) (Bout : rat) (R : list polygon) (wk : pt * nat) : bool :=
  let w := fst wk in let k := snd wk in
  match nth_error ss k with
  | None => true
  | Some s => if in_strip w s && (side_of w s =? - side) && far Bout w (remove_nth k ss) then negb (memb R w) else true
  end.
(* on the requested side, projecting inside its segment, within (1-e)|d| of it, everything else far -> in R *)
Definition ok_ss_right (side : Z) (ss : list seg) (Bin Bout : rat) (R : list polygon) (wk : pt * nat) : bool :=
  let w := fst wk in let k := snd wk in
  match nth_error ss k with
  | None => true
  | Some s => if in_strip w s && (side_of w s =? side) && rle (perp2 w s) Bin && far Bout w (remove_nth k ss) then memb R w else true
  end.
Definition ok_ss_out (ss : list seg) (Bout : rat) (R : list polygon) (wk : pt * nat) : bool :=
  if far Bout (fst wk) ss then negb (memb R (fst wk)) else true.
Fixpoint failing_from' {A} (f : A -> bool) (ws : list A) (i : Z) : list Z :=
  match ws with
  | [] => []
  | w :: r => if f w then failing_from' f r (i + 1) else i :: failing_from' f r (i + 1)
  end.
Definition check_single_sided (side : Z) (lines : list (list pt)) (d q : Z) (k : rat) (R : list polygon) (ws : list (pt * nat))
  : list Z * list Z :=
  let ss := flat_map adj_pairs lines in
  (failing_from' (ok_ss_right side ss (bin2 d q) (bout2 d k) R) ws 0,
   failing_from' (fun wk => ok_ss_wrong side ss (bout2 d k) R wk && ok_ss_out ss (bout2 d k) R wk) ws 0).

(* ------------------------------------------------------------------ offset curves (linear result) of lines *)
Definition on_curve (c : list (list pt)) (w : pt) : bool := existsb (fun l => match l with [a] => pt_eqb w a | _ => existsb (on_segb w) (adj_pairs l) end) c.
(* a witness is a location w of the result curve together with the index k of a segment of the input.
   not farther than the (enlarged) outside bound from the input *)
Definition ok_oc_far (ss : list seg) (Bout : rat) (wk : pt * nat) : bool := near Bout (fst wk) ss.
(* not closer than (1-e)|d| (round joins only) *)
Definition ok_oc_near (rnd : bool) (ss : list seg) (Bin : rat) (wk : pt * nat) : bool := if rnd then far Bin (fst wk) ss else true.
(* projecting strictly inside segment k, within the outside bound of it, everything else farther than that bound
   -> on the requested side of segment k *)
Definition ok_oc_side (side : Z) (ss : list seg) (Bout : rat) (wk : pt * nat) : bool :=
  let w := fst wk in let k := snd wk in
  match nth_error ss k with
  | None => true
  | Some s => if in_strip w s && rle (perp2 w s) Bout && far Bout w (remove_nth k ss) then side_of w s =? side else true
  end.
(* (too close, too far or on the wrong side, not a location of the curve) *)
Definition check_offset_curve (side : Z) (rnd : bool) (lines : list (list pt)) (d q : Z) (k : rat) (c : list (list pt)) (ws : list (pt * nat))
  : list Z * list Z * list Z :=
  let ss := flat_map adj_pairs lines in
  (failing_from' (ok_oc_near rnd ss (bin2 d q)) ws 0,
   failing_from' (fun wk => ok_oc_far ss (bout2 d k) wk && ok_oc_side side ss (bout2 d k) wk) ws 0,
   failing_from' (fun wk => on_curve c (fst wk)) ws 0).
