(* C06/EProofs — the property's tolerance e(q) = 0.015 + 1 - cos(pi/(4q)) against the true worst case of the fillet
   generator 1 - cos(3 pi/(8q)) (one chord can span 1.5 quanta: FilletProofs.fillet_step_bound), and the certified rational
   enclosure e_up used by the executable checker. *)
From Coq Require Import Reals ZArith List Lra Lia.
From Interval Require Import Tactic.
From GeosV.C06 Require Import PreludeR FilletDefs FilletProofs ETable ETableProofs.
Import ListNotations.
Local Open Scope R_scope.

(* for every REAL q in [6, 32] the generator's worst case is within the property's tolerance *)
Theorem fillet_within_property_bound q : 6 <= q <= 32 -> e_fillet q <= e_prop q.
Proof. intros Hq. apply Rminus_le. unfold e_fillet, e_prop. interval with (i_bisect q, i_prec 40). Qed.

(* ... and for q = 1..5 it is NOT: the inequality is reversed (finding F1) *)
Theorem fillet_bound_refuted_small_q q : (1 <= q <= 5)%Z -> e_prop (IZR q) < e_fillet (IZR q).
Proof.
  intros Hq. assert (C : (q = 1 \/ q = 2 \/ q = 3 \/ q = 4 \/ q = 5)%Z) by lia.
  unfold e_fillet, e_prop. destruct C as [-> | [-> | [-> | [-> | ->]]]]; interval with (i_prec 40).
Qed.

(* the margins, for the record: at q = 5 the deficit is below 4e-4 of the distance, at q = 1 it is about 0.31 *)
Example deficit_q5 : 3 / 10000 < e_fillet 5 - e_prop 5 < 4 / 10000.
Proof. unfold e_fillet, e_prop. split; interval with (i_prec 40). Qed.
Example deficit_q1 : 30 / 100 < e_fillet 1 - e_prop 1 < 31 / 100.
Proof. unfold e_fillet, e_prop. split; interval with (i_prec 40). Qed.

(* e_up q is a rational upper bound of e(q), tight to 4e-15 *)
Theorem e_up_sound q : (1 <= q <= 32)%Z ->
  e_prop (IZR q) <= IZR (fst (e_up q)) / IZR (snd (e_up q)) <= e_prop (IZR q) + 4 / IZR e_den.
Proof.
  intros Hq. destruct (e_table q Hq) as [[Hlo Hhi] _].
  assert (W : (a_hi q - a_lo q <= 4)%Z).
  { unfold a_hi, a_lo, row.
    assert (Hall : forallb (fun r => (snd r - fst r <=? 4)%Z) tab_a = true) by (vm_compute; reflexivity).
    rewrite forallb_forall in Hall. apply Z.leb_le, Hall, nth_In.
    replace (length tab_a) with 32%nat by reflexivity. lia. }
  unfold e_up, e_prop. cbn [fst snd].
  replace (15 * (e_den / 1000))%Z with 15000000000000%Z by reflexivity.
  rewrite plus_IZR. apply IZR_le in W. rewrite minus_IZR in W.
  assert (HD : IZR e_den = 1000000000000000) by reflexivity. rewrite HD in *.
  lra.
Qed.

(* for q = 6..32 every point of every chord of a generated fillet of radius r is at least (1 - e(q)) r from the centre:
   the generator (as translated from the code: FilletProofs.gen_fillet_eq) meets the property's tolerance there *)
Theorem fillet_error_within_tolerance (q : Z) p start total (dirf : Z) r i t :
  (6 <= q <= 32)%Z -> 0 <= total -> (dirf = 1 \/ dirf = -1)%Z -> 0 <= t <= 1 ->
  let quantum := PI / 2 / IZR q in
  (1 <= nsegs total quantum)%Z ->
  let inc := total / IZR (nsegs total quantum) in
  ((1 - e_prop (IZR q)) * r) * ((1 - e_prop (IZR q)) * r) <=
  rd2 (chord_pt p r (fillet_angle start dirf inc i) (IZR dirf * inc) t) p.
Proof.
  intros Hq Ht Hd Htt quantum Hn inc.
  assert (Hq' : 6 <= IZR q <= 32) by (split; apply IZR_le; lia).
  assert (HP := PI_RGT_0).
  assert (Hquant : 0 < quantum <= PI / 2).
  { unfold quantum. split.
    - apply Rmult_lt_0_compat; [lra | apply Rinv_0_lt_compat; lra].
    - apply Rmult_le_reg_r with (r := IZR q); [lra|]. unfold Rdiv at 1. rewrite Rmult_assoc, Rinv_l by lra. nra. }
  eapply Rle_trans; [| apply (fillet_inward_error quantum p start total dirf r i t Hquant Ht Hd Hn Htt)].
  assert (E : cos (3 / 4 * quantum) = 1 - e_fillet (IZR q)).
  { unfold e_fillet, quantum. replace (3 / 4 * (PI / 2 / IZR q)) with (3 * PI / (8 * IZR q)) by (field; lra). ring. }
  rewrite E. pose proof (fillet_within_property_bound (IZR q) Hq') as Hb.
  assert (H0 : 0 <= 1 - e_prop (IZR q)) by (unfold e_prop; interval with (i_prec 40)).
  set (x := 1 - e_prop (IZR q)) in *. set (y := 1 - e_fillet (IZR q)) in *.
  assert (x <= y) by (unfold x, y; lra).
  assert (0 <= r * r) by (generalize (Rle_0_sqr r); unfold Rsqr; lra).
  replace (x * r * (x * r)) with (x * x * (r * r)) by ring. replace (r * y * (r * y)) with (y * y * (r * r)) by ring.
  apply Rmult_le_compat_r; [assumption | nra].
Qed.
