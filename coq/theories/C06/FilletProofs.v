(* C06/FilletProofs — theorems about the fillet model and the equality generated unit = model (tie G). *)
From Coq Require Import Reals ZArith QArith Qround Qreals List Lra Lia Psatz.
From Flocq Require Import Core.Raux.
From GeosV.C06 Require Import PreludeR FilletDefs.
From GeosV.Gen Require Import C06_fillet C06_distErr.
Import ListNotations.
Local Open Scope R_scope.

(* ------------------------------------------------------------------ segment count *)
Lemma nsegs_bounds total quantum : 0 < quantum -> 0 <= total ->
  IZR (nsegs total quantum) <= total / quantum + 1 / 2 < IZR (nsegs total quantum) + 1.
Proof.
  intros Hq Ht. unfold nsegs.
  assert (H0 : 0 <= total / quantum + 1 / 2).
  { assert (0 <= total / quantum) by (apply Rmult_le_pos; [lra | apply Rlt_le, Rinv_0_lt_compat; lra]). lra. }
  rewrite Ztrunc_floor by exact H0. split; [apply Zfloor_lb | apply Zfloor_ub].
Qed.

(* n = floor(total/quantum + 1/2):  n >= 1 -> total/n <= (3/2) quantum ;  n <= 0 -> total < quantum/2 *)
Lemma step_bound_Z (total quantum : R) (n : Z) :
  0 < quantum -> 0 <= total ->
  IZR n <= total / quantum + 1 / 2 < IZR n + 1 ->
  ((1 <= n)%Z -> total / IZR n <= 3 / 2 * quantum) /\ ((n <= 0)%Z -> total < quantum / 2).
Proof.
  intros Hq Ht [Hlo Hhi]. split.
  - intros Hn. assert (1 <= IZR n) by (apply IZR_le in Hn; exact Hn).
    assert (Hx : total / quantum < IZR n + 1 / 2) by lra.
    assert (total < (IZR n + 1 / 2) * quantum).
    { apply Rmult_lt_compat_r with (r := quantum) in Hx; [|lra]. unfold Rdiv in Hx. rewrite Rmult_assoc, Rinv_l in Hx; lra. }
    apply Rmult_le_reg_r with (r := IZR n); [lra|]. unfold Rdiv. rewrite Rmult_assoc, Rinv_l by lra.
    nra.
  - intros Hn. assert (IZR n <= 0) by (apply IZR_le in Hn; exact Hn).
    assert (Hx : total / quantum < 1 / 2) by lra.
    apply Rmult_lt_compat_r with (r := quantum) in Hx; [|lra]. unfold Rdiv in Hx. rewrite Rmult_assoc, Rinv_l in Hx; lra.
Qed.

Theorem fillet_step_bound total quantum : 0 < quantum -> 0 <= total ->
  ((1 <= nsegs total quantum)%Z -> total / IZR (nsegs total quantum) <= 3 / 2 * quantum) /\
  ((nsegs total quantum <= 0)%Z -> total < quantum / 2).
Proof. intros Hq Ht. apply step_bound_Z; [exact Hq | exact Ht | apply nsegs_bounds; assumption]. Qed.

(* the bound 3/2 is approached: a total angle just below 1.5 quanta is covered by ONE chord *)
Theorem fillet_step_bound_tight quantum eps : 0 < quantum -> 0 < eps <= 1 ->
  let total := (3 / 2 - eps / 2) * quantum in
  nsegs total quantum = 1%Z /\ (3 / 2 - eps) * quantum < total / IZR (nsegs total quantum).
Proof.
  intros Hq He total.
  assert (Hn : nsegs total quantum = 1%Z).
  { unfold nsegs, total. replace ((3 / 2 - eps / 2) * quantum / quantum) with (3 / 2 - eps / 2) by (field; lra).
    rewrite Ztrunc_floor by lra. apply Zfloor_imp. simpl. lra. }
  split; [exact Hn|]. rewrite Hn. unfold total. replace ((3 / 2 - eps / 2) * quantum / 1) with ((3 / 2 - eps / 2) * quantum) by field.
  nra.
Qed.

(* ------------------------------------------------------------------ sagitta *)
Lemma cos_half_sq theta : cos theta = 2 * (cos (theta / 2) * cos (theta / 2)) - 1.
Proof. replace theta with (2 * (theta / 2)) at 1 by field. rewrite cos_2a_cos. ring. Qed.

(* every point of a chord that subtends the angle theta on the circle of radius r about p is at squared distance
   >= (r cos(theta/2))^2 from p *)
Theorem sagitta_sq p r a theta t : 0 <= t <= 1 ->
  (r * cos (theta / 2)) * (r * cos (theta / 2)) <= rd2 (chord_pt p r a theta t) p.
Proof.
  intros Ht. unfold rd2, chord_pt, polar. cbn [f_x f_y].
  set (ca := cos a). set (sa := sin a). set (cb := cos (a + theta)). set (sb := sin (a + theta)). set (c := cos (theta / 2)).
  assert (Ha : ca * ca + sa * sa = 1) by (unfold ca, sa; generalize (sin2_cos2 a); unfold Rsqr; lra).
  assert (Hb : cb * cb + sb * sb = 1) by (unfold cb, sb; generalize (sin2_cos2 (a + theta)); unfold Rsqr; lra).
  assert (Hab : ca * cb + sa * sb = 2 * (c * c) - 1).
  { unfold ca, cb, sa, sb, c. rewrite <- cos_half_sq. replace theta with ((a + theta) - a) at 3 by ring. rewrite cos_minus. ring. }
  assert (Hc : c * c <= 1).
  { unfold c. generalize (COS_bound (theta / 2)). intros [H1 H2]. nra. }
  match goal with |- _ <= ?e => replace e with
    (r * r * ((1 - t) * (1 - t) * (ca * ca + sa * sa) + t * t * (cb * cb + sb * sb) + 2 * t * (1 - t) * (ca * cb + sa * sb))) by ring end.
  rewrite Ha, Hb, Hab.
  apply Rminus_le.
  replace (r * c * (r * c) - r * r * ((1 - t) * (1 - t) * 1 + t * t * 1 + 2 * t * (1 - t) * (2 * (c * c) - 1)))
    with (- ((r * r) * ((1 - 2 * t) * (1 - 2 * t)) * (1 - c * c))) by ring.
  assert (0 <= r * r) by (generalize (Rle_0_sqr r); unfold Rsqr; lra).
  assert (0 <= (1 - 2 * t) * (1 - 2 * t)) by (generalize (Rle_0_sqr (1 - 2 * t)); unfold Rsqr; lra). assert (0 <= 1 - c * c) by lra.
  assert (0 <= r * r * ((1 - 2 * t) * (1 - 2 * t)) * (1 - c * c)) by (apply Rmult_le_pos; [apply Rmult_le_pos|]; assumption).
  lra.
Qed.

(* the same with the square root taken: distance >= r cos(theta/2), for r >= 0 and |theta| <= pi *)
Theorem sagitta p r a theta t : 0 <= r -> - PI <= theta <= PI -> 0 <= t <= 1 ->
  r * cos (theta / 2) <= sqrt (rd2 (chord_pt p r a theta t) p).
Proof.
  intros Hr Hth Ht.
  assert (Hc : 0 <= cos (theta / 2)) by (apply cos_ge_0; lra).
  rewrite <- (sqrt_square (r * cos (theta / 2))) by (apply Rmult_le_pos; assumption).
  apply sqrt_le_1_alt. apply sagitta_sq. exact Ht.
Qed.

(* ------------------------------------------------------------------ inward error of a generated fillet *)
Lemma cos_sq_mono x y : 0 <= x <= y -> y <= PI / 2 -> cos y * cos y <= cos x * cos x.
Proof.
  intros [Hx Hxy] Hy. assert (HP := PI_RGT_0).
  assert (0 <= cos y) by (apply cos_ge_0; lra).
  assert (cos y <= cos x) by (apply cos_decr_1; lra).
  nra.
Qed.

(* chords of a fillet with n >= 1 steps: step i -> i+1 turns by dirf * inc with inc = total/n <= 1.5 quantum, so every
   chord point stays at squared distance >= (r cos(3/4 quantum))^2 from the centre.  quantum <= pi/2 is q >= 1. *)
Theorem fillet_inward_error quantum p start total (dirf : Z) r i t :
  0 < quantum <= PI / 2 -> 0 <= total -> (dirf = 1 \/ dirf = -1)%Z ->
  (1 <= nsegs total quantum)%Z -> 0 <= t <= 1 ->
  let inc := total / IZR (nsegs total quantum) in
  (r * cos (3 / 4 * quantum)) * (r * cos (3 / 4 * quantum)) <=
  rd2 (chord_pt p r (fillet_angle start dirf inc i) (IZR dirf * inc) t) p.
Proof.
  intros [Hq Hq2] Ht Hd Hn Htt inc.
  destruct (fillet_step_bound total quantum Hq Ht) as [Hstep _]. specialize (Hstep Hn). fold inc in Hstep.
  assert (Hinc0 : 0 <= inc).
  { unfold inc. apply Rmult_le_pos; [exact Ht|]. apply Rlt_le, Rinv_0_lt_compat. apply IZR_le in Hn. lra. }
  eapply Rle_trans; [| apply sagitta_sq; exact Htt].
  assert (Hcos : cos (IZR dirf * inc / 2) = cos (inc / 2)).
  { destruct Hd as [-> | ->]; [f_equal; lra|]. replace (-1 * inc / 2) with (- (inc / 2)) by lra. apply cos_neg. }
  rewrite Hcos.
  assert (HP := PI_RGT_0).
  assert (Hm : cos (3 / 4 * quantum) * cos (3 / 4 * quantum) <= cos (inc / 2) * cos (inc / 2)) by (apply cos_sq_mono; lra).
  assert (0 <= r * r) by nra. nra.
Qed.

(* no intermediate vertex (n = 0): the caller joins p0 to p1 directly; that chord subtends total < quantum/2 *)
Theorem fillet_inward_error_n0 quantum p a total sgn r t :
  0 < quantum <= PI / 2 -> 0 <= total -> (sgn = 1 \/ sgn = -1) ->
  (nsegs total quantum <= 0)%Z -> 0 <= t <= 1 ->
  (r * cos (3 / 4 * quantum)) * (r * cos (3 / 4 * quantum)) <= rd2 (chord_pt p r a (sgn * total) t) p.
Proof.
  intros [Hq Hq2] Ht Hs Hn Htt.
  destruct (fillet_step_bound total quantum Hq Ht) as [_ H0]. specialize (H0 Hn).
  eapply Rle_trans; [| apply sagitta_sq; exact Htt].
  assert (Hcos : cos (sgn * total / 2) = cos (total / 2)).
  { destruct Hs as [-> | ->]; [f_equal; lra|]. replace (-1 * total / 2) with (- (total / 2)) by lra. apply cos_neg. }
  rewrite Hcos. assert (HP := PI_RGT_0).
  assert (Hm : cos (3 / 4 * quantum) * cos (3 / 4 * quantum) <= cos (total / 2) * cos (total / 2)) by (apply cos_sq_mono; lra).
  assert (0 <= r * r) by nra. nra.
Qed.

(* ------------------------------------------------------------------ tie G: the generated units say the same *)
Lemma fold_append {S : Type} (step : S -> Z -> S) (proj : S -> osg) (F : Z -> rpt) :
  (forall s i, proj (step s i) = set_segList (proj s) (f_segList (proj s) ++ [F i])) ->
  forall l s, proj (fold_left step l s) = set_segList (proj s) (f_segList (proj s) ++ map F l).
Proof.
  intros Hstep l. induction l as [|i l IH]; intros s; cbn [fold_left map].
  - rewrite app_nil_r. destruct (proj s); reflexivity.
  - rewrite IH, Hstep. unfold set_segList. cbn [f_segList f_filletAngleQuantum]. rewrite <- app_assoc. reflexivity.
Qed.

Theorem gen_fillet_eq st p s e dir r :
  g_addDirectedFillet st p s e dir r =
  set_segList st (f_segList st ++ fillet_model (f_filletAngleQuantum st) p s e (if (dir =? -1)%Z then (-1)%Z else 1%Z) r).
Proof.
  unfold g_addDirectedFillet, fillet_model, E_CLOCKWISE.
  change (toZ (add (div (c_fabs_1 (sub s e)) (f_filletAngleQuantum st)) (flit 4602678819172646912 1 2)))
    with (nsegs (Rabs (s - e)) (f_filletAngleQuantum st)).
  set (n := nsegs (Rabs (s - e)) (f_filletAngleQuantum st)).
  destruct (n <? 1)%Z.
  - rewrite app_nil_r. destruct st; reflexivity.
  - match goal with |- context [fold_left ?step ?l ?init] =>
      pose proof (fold_append step (fun acc : osg * R * rpt * R => fst (fst (fst acc)))
        (fun i => polar p r (fillet_angle s (if (dir =? -1)%Z then (-1)%Z else 1%Z) (Rabs (s - e) / IZR n) i))) as H;
      assert (Hs : forall (acc : osg * R * rpt * R) i, fst (fst (fst (step acc i))) =
                set_segList (fst (fst (fst acc))) (f_segList (fst (fst (fst acc))) ++
                  [polar p r (fillet_angle s (if (dir =? -1)%Z then (-1)%Z else 1%Z) (Rabs (s - e) / IZR n) i)]))
        by (intros [[[st0 c0] pt0] s0] i; reflexivity);
      specialize (H Hs l init); destruct (fold_left step l init) as [[[st1 c1] pt1] s1] end.
    cbn [fst] in H. rewrite H. reflexivity.
Qed.

(* BufferParameters::bufferDistanceError(q) = 1 - cos(pi/(4q)): the second summand of the property's e *)
Theorem gen_distErr_eq q : (1 <= q)%Z -> g_bufferDistanceError q = 1 - cos (PI / (4 * IZR q)).
Proof.
  intros Hq. unfold g_bufferDistanceError, sub, div, ofZ, c_cos_1, v_PI_OVER_2, flit.
  apply IZR_le in Hq. f_equal. f_equal. field. lra.
Qed.
Corollary e_prop_is_code q : (1 <= q)%Z -> e_prop (IZR q) = 15 / 1000 + g_bufferDistanceError q.
Proof. intros Hq. rewrite gen_distErr_eq by exact Hq. unfold e_prop. ring. Qed.

(* ------------------------------------------------------------------ executable count = real count on rationals *)
Lemma Zfloor_Q2R x : Zfloor (Q2R x) = Qfloor x.
Proof.
  apply Zfloor_imp. split.
  - replace (IZR (Qfloor x)) with (Q2R (inject_Z (Qfloor x))) by (unfold Q2R, inject_Z; simpl; field).
    apply Qle_Rle, Qfloor_le.
  - replace (IZR (Qfloor x + 1)) with (Q2R (inject_Z (Qfloor x + 1))) by (unfold Q2R, inject_Z; simpl; field).
    apply Qlt_Rlt, Qlt_floor.
Qed.

Theorem nsegs_q_correct (total quantum : Q) : (0 <= total)%Q -> (0 < quantum)%Q ->
  nsegs (Q2R total) (Q2R quantum) = nsegs_q total quantum.
Proof.
  intros Ht Hq. unfold nsegs, nsegs_q.
  assert (Hq' : 0 < Q2R quantum) by (replace 0 with (Q2R 0) by (unfold Q2R; simpl; field); apply Qlt_Rlt; exact Hq).
  assert (Ht' : 0 <= Q2R total) by (replace 0 with (Q2R 0) by (unfold Q2R; simpl; field); apply Qle_Rle; exact Ht).
  assert (E : Q2R total / Q2R quantum + 1 / 2 = Q2R (total / quantum + (1 # 2))).
  { rewrite Q2R_plus, Q2R_div by (intro H; rewrite H in Hq; discriminate Hq).
    replace (Q2R (1 # 2)) with (1 / 2) by (unfold Q2R; simpl; field). reflexivity. }
  rewrite E. rewrite Ztrunc_floor.
  - apply Zfloor_Q2R.
  - rewrite <- E. assert (0 <= Q2R total / Q2R quantum) by (apply Rmult_le_pos; [lra | apply Rlt_le, Rinv_0_lt_compat; lra]). lra.
Qed.
