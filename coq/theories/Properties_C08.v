(* C08 — property theorems only. Each is closed by `exact <lemma>` and followed by Print Assumptions.
   The model is coq/theories/C08/DistDefs.v: exact squared distances (rationals num/den) over integer-scaled dyadic ordinates;
   a point of a segment ab is a homogeneous triple (x, y, w) with `hon (x,y,w) a b` (w > 0 and it is a + (n/m)(b-a), 0 <= n <= m). *)
From Coq Require Import ZArith List Bool.
From GeosV.Lib Require Import GeomDefs LocateDefs.
From GeosV.C08 Require Import DistDefs PtSeg SegSeg GeomDist Frechet FacetSeq.
From GeosV.C15 Require Import STRDefs STRProofs.
Import ListNotations.
Local Open Scope Z_scope.

(* point/segment: the value is attained at the returned point of the segment and is <= the squared distance to every point
   a + (n/m)(b-a), 0 <= n <= m: it is the minimum over the segment *)
Theorem C08_dist2_pt_seg_spec : forall p a b,
  let v := fst (dist2_pt_seg p a b) in let x := snd (dist2_pt_seg p a b) in
  rat_ok v /\ hon x a b /\ req (pd2 p x) v /\
  (forall n m, 0 < m -> 0 <= n <= m -> rle v (pd2 p (hlerp a b n m)) = true).
Proof. exact dist2_pt_seg_spec. Qed.
Print Assumptions C08_dist2_pt_seg_spec.

(* segment/segment: the value is the squared distance of the two returned points, one on each segment ... *)
Theorem C08_dist2_seg_seg_attained : forall a b c d,
  let v := fst (dist2_seg_seg a b c d) in let x := fst (snd (dist2_seg_seg a b c d)) in let y := snd (snd (dist2_seg_seg a b c d)) in
  rat_ok v /\ hon x a b /\ hon y c d /\ req (hd2 x y) v.
Proof. exact dist2_seg_seg_attained. Qed.
Print Assumptions C08_dist2_seg_seg_attained.

(* ... and no point of ab is closer to any point of cd: unless the segments cross properly, the minimum is realised by an end
   of one segment against the other segment (full statement, all rational points of both segments) *)
Theorem C08_dist2_seg_seg_lower : forall a b c d x y, hon x a b -> hon y c d ->
  rle (fst (dist2_seg_seg a b c d)) (hd2 x y) = true.
Proof. exact dist2_seg_seg_lower_on. Qed.
Print Assumptions C08_dist2_seg_seg_lower.

Theorem C08_dist2_seg_seg_sym : forall a b c d, req (fst (dist2_seg_seg a b c d)) (fst (dist2_seg_seg c d a b)).
Proof. exact dist2_seg_seg_sym. Qed.
Print Assumptions C08_dist2_seg_seg_sym.

(* the distance of two segments is 0 exactly when they have a point in common *)
Theorem C08_dist2_zero_iff_intersects : forall a b c d,
  rn (fst (dist2_seg_seg a b c d)) = 0 <-> exists x, hon x a b /\ hon x c d.
Proof. exact dist2_seg_seg_zero_iff. Qed.
Print Assumptions C08_dist2_zero_iff_intersects.

(* geometries: the facet distance (what IndexedFacetDistance is specified to return) is attained on a facet of each geometry
   and is a lower bound for every pair of points of facets: the minimum distance between the boundaries / linework *)
Theorem C08_facet_dist2_spec : forall g h r, facet_dist2 g h = Some r ->
  (exists f f', In f (facets_of g) /\ In f' (facets_of h) /\ on_facet (fst (snd r)) f /\ on_facet (snd (snd r)) f' /\
                req (hd2 (fst (snd r)) (snd (snd r))) (fst r)) /\
  (forall f f' x y, In f (facets_of g) -> In f' (facets_of h) -> on_facet x f -> on_facet y f' -> rle (fst r) (hd2 x y) = true) /\
  rat_ok (fst r).
Proof. intros g h r; exact (facets_dist2_spec (facets_of g) (facets_of h) r). Qed.
Print Assumptions C08_facet_dist2_spec.

(* the distance of the point sets is the squared distance of the two returned points, one in each point set (a point set =
   the facets and the grid points the even-odd rule does not put outside a polygon) ... *)
Theorem C08_dist2_attained : forall g h r, dist2 g h = Some r ->
  rat_ok (fst r) /\ in_set g (fst (snd r)) /\ in_set h (snd (snd r)) /\ req (hd2 (fst (snd r)) (snd (snd r))) (fst r).
Proof. exact dist2_attained. Qed.
Print Assumptions C08_dist2_attained.

(* ... it is symmetric ... *)
Theorem C08_dist2_sym : forall g h,
  match dist2 g h, dist2 h g with
  | Some r, Some r' => req (fst r) (fst r')
  | None, None => True
  | _, _ => False
  end.
Proof. exact dist2_sym. Qed.
Print Assumptions C08_dist2_sym.

(* ... and 0 exactly when a vertex of one lies in or on a polygon of the other or two facets share a point *)
Theorem C08_dist2_zero_iff : forall g h r, dist2 g h = Some r ->
  (rn (fst r) = 0 <->
   vertex_inside g h <> None \/ vertex_inside h g <> None \/
   exists f f' x, In f (facets_of g) /\ In f' (facets_of h) /\ on_facet x f /\ on_facet x f').
Proof. exact dist2_zero_iff. Qed.
Print Assumptions C08_dist2_zero_iff.

(* discrete Hausdorff: the directed distance is the largest, over the sample points, of the least distance to the other
   geometry's linework; the distance is the larger of the two directed ones and symmetric *)
Theorem C08_directed_hausdorff_max_min : forall n g h r, directed_h2 n g h = Some r ->
  let fs := facets_of (map_geom (scale_pt n) h) in
  (In (fst (snd r)) (sample_pts n g) /\ exists r0, dist2_pt_facets (fst (snd r)) fs = Some r0 /\ fst r0 = fst r) /\
  (forall p r', In p (sample_pts n g) -> dist2_pt_facets p fs = Some r' -> rle (fst r') (fst r) = true).
Proof. exact directed_h2_spec. Qed.
Print Assumptions C08_directed_hausdorff_max_min.
Theorem C08_point_to_linework_min : forall p fs r, dist2_pt_facets p fs = Some r ->
  (exists f, In f fs /\ on_facet (snd r) f /\ req (pd2 p (snd r)) (fst r)) /\
  (forall f n m, In f fs -> 0 < m -> 0 <= n <= m -> rle (fst r) (pd2 p (hlerp (fst f) (snd f) n m)) = true).
Proof. exact dist2_pt_facets_spec. Qed.
Print Assumptions C08_point_to_linework_min.
Theorem C08_hausdorff_sym : forall n g h,
  match hausdorff2 n g h, hausdorff2 n h g with
  | Some r, Some r' => req r r'
  | None, None => True
  | _, _ => False
  end.
Proof. exact hausdorff2_sym. Qed.
Print Assumptions C08_hausdorff_sym.

(* discrete Frechet: the dynamic programme (the table of DiscreteFrechetDistance) equals the minimum over all monotone
   couplings of the largest squared distance between coupled points, and answers on all non-empty inputs *)
Theorem C08_frechet_dp_eq_spec : forall ps qs v, frechet2_seq ps qs = Some v ->
  (exists c, coupling (rev ps) (rev qs) c /\ cost c = v) /\ (forall c, coupling (rev ps) (rev qs) c -> v <= cost c).
Proof. exact frechet_dp_eq_spec. Qed.
Print Assumptions C08_frechet_dp_eq_spec.
Theorem C08_frechet_total : forall ps qs, ps <> [] -> qs <> [] -> exists v, frechet2_seq ps qs = Some v.
Proof. exact frechet_total. Qed.
Print Assumptions C08_frechet_total.

(* facet sequencing (FacetSequenceTreeBuilder::addFacetSequences): every segment and every vertex of a coordinate sequence lies
   inside one of the index ranges handed to the tree, and the ranges are non-empty and within the sequence *)
Theorem C08_facet_sections_cover : forall size k, 0 <= k -> k + 1 < size ->
  exists s e, In (s, e) (sections size) /\ s <= k /\ k + 1 < e.
Proof. exact sections_cover_segments. Qed.
Print Assumptions C08_facet_sections_cover.
Theorem C08_facet_sections_cover_vertices : forall size k, 0 <= k < size -> exists s e, In (s, e) (sections size) /\ s <= k < e.
Proof. exact sections_cover_vertices. Qed.
Print Assumptions C08_facet_sections_cover_vertices.
Theorem C08_facet_sections_bounds : forall size s e, In (s, e) (sections size) -> 0 <= s /\ s < e /\ e <= size.
Proof. exact sections_bounds. Qed.
Print Assumptions C08_facet_sections_bounds.

(* branch and bound over the packed R-tree (IndexedFacetDistance, MinimumClearance): proved for C15 — with a non-negative
   item metric that is never below the envelope distance the best-first search returns a minimum item; cited, not redone *)
Theorem C08_branch_and_bound_min : forall idist qenv, (forall it, 0 <= idist it) -> forall t, WF t -> admissible idist qenv t ->
  is_min idist (live t) (nearest idist qenv (Some t)).
Proof. exact nearest_min. Qed.
Print Assumptions C08_branch_and_bound_min.

(* ------------------------------------------------------------------ non-vacuity: concrete instances of every notion *)
(* the foot of the perpendicular: (1,3) against (0,0)-(4,0) is at squared distance 9 = 144/16 from (1,0) = (16,0,16) *)
Example ex_pt_seg_foot : dist2_pt_seg (1, 3) (0, 0) (4, 0) = (mkr 144 16, (16, 0, 16)).
Proof. vm_compute. reflexivity. Qed.
Example ex_pt_seg_before : dist2_pt_seg (-3, 4) (0, 0) (4, 0) = (mkr 25 1, (0, 0, 1)).
Proof. vm_compute. reflexivity. Qed.
Example ex_hon : hon (16, 0, 16) (0, 0) (4, 0).
Proof. split; [reflexivity|]. exists 1, 4. repeat split; vm_compute; congruence. Qed.
(* a proper crossing at (2,2), a T-junction, disjoint parallel segments *)
Example ex_seg_cross : dist2_seg_seg (0, 0) (4, 4) (0, 4) (4, 0) = (mkr 0 1, ((64, 64, 32), (64, 64, 32))).
Proof. vm_compute. reflexivity. Qed.
Example ex_seg_tjunction : rzero (fst (dist2_seg_seg (0, 0) (4, 0) (2, 0) (2, 5))) = true.
Proof. vm_compute. reflexivity. Qed.
Example ex_seg_parallel : fst (dist2_seg_seg (0, 0) (4, 0) (1, 3) (9, 3)) = mkr 144 16.
Proof. vm_compute. reflexivity. Qed.
(* a line inside a polygon: facet distance 1, point-set distance 0; the same line inside the hole: distance 1 *)
Definition ex_poly := GPoly [(0, 0); (10, 0); (10, 10); (0, 10); (0, 0)] [].
Definition ex_holed := GPoly [(0, 0); (10, 0); (10, 10); (0, 10); (0, 0)] [[(1, 1); (1, 9); (9, 9); (9, 1); (1, 1)]].
Definition ex_line := GLine [(2, 2); (3, 5)].
Example ex_contained : option_map (fun r => fst r) (dist2 ex_line ex_poly) = Some (mkr 0 1) /\
                       option_map (fun r => reqb (fst r) (mkr 4 1)) (facet_dist2 ex_line ex_poly) = Some true.
Proof. vm_compute. split; reflexivity. Qed.
Example ex_in_hole : option_map (fun r => reqb (fst r) (mkr 1 1)) (dist2 ex_line ex_holed) = Some true.
Proof. vm_compute. reflexivity. Qed.
Example ex_empty_elements : option_map (fun r => reqb (fst r) (mkr 4 1))
    (dist2 (GColl [GPoint None; GPoint (Some (1, 1))]) (GColl [GLine []; GLine [(3, 1); (3, 5)]])) = Some true.
Proof. vm_compute. reflexivity. Qed.
(* Hausdorff 3, with two-fold subdivision 9 = 36/4; Frechet sqrt 34 *)
Example ex_hausdorff : option_map (fun r => reqb r (mkr 9 1)) (hausdorff2 1 (GLine [(0, 0); (10, 0)]) (GLine [(0, 1); (5, 3); (10, 1)])) = Some true /\
                       option_map (fun r => reqb r (mkr 36 1)) (hausdorff2 2 (GLine [(0, 0); (10, 0)]) (GLine [(0, 1); (5, 3); (10, 1)])) = Some true.
Proof. vm_compute. split; reflexivity. Qed.
Example ex_frechet : frechet2 1 (GLine [(0, 0); (10, 0)]) (GLine [(0, 1); (5, 3); (10, 1)]) = Some 34.
Proof. vm_compute. reflexivity. Qed.
Example ex_coupling : coupling [(10, 0); (0, 0)] [(10, 1); (5, 3); (0, 1)] [((10, 0), (10, 1)); ((0, 0), (5, 3)); ((0, 0), (0, 1))]
                      /\ cost [((10, 0), (10, 1)); ((0, 0), (5, 3)); ((0, 0), (0, 1))] = 34.
Proof. split; [apply cp_pq; apply cp_q; apply cp_base | vm_compute; reflexivity]. Qed.
Example ex_sections : sections 8 = [(0, 8); (6, 8)] /\ sections 7 = [(0, 7); (6, 7)] /\ sections 14 = [(0, 7); (6, 14); (12, 14)] /\ sections 1 = [(0, 1)].
Proof. vm_compute. repeat split. Qed.
Example ex_minclear : option_map (fun r => reqb r (mkr 1 1)) (minclear2 (GPoly [(0, 0); (10, 0); (10, 10); (5, 1); (0, 10); (0, 0)] [])) = Some true.
Proof. vm_compute. reflexivity. Qed.

(* ==================================================================================================================
   Tie G: the leaf distance functions REGENERATED from /repo's src/algorithm/Distance.cpp (and the inline helpers of
   Coordinate.h / Envelope.h they call) on every run: Gen/C08_ptSeg, C08_ptLinePerp, C08_segSeg, C08_coordEq, C08_equals2D,
   C08_coordDist, C08_envSeg.  `double` is read as a REAL number (C08/GenPreludeR): binary64 rounding is not part of these
   statements; it is bounded by the sampled correspondence of props/C08.py (1e-12 relative, exact rational comparison).
   Points are pairs of reals; on_seg x a b: x = a + t (b - a) for some real 0 <= t <= 1; distR = Euclidean distance. *)
From Coq Require Import Reals Lra.
From GeosV.C08 Require GenPreludeR RealDistDefs RealPtSeg RealSegSeg GenDist.
From GeosV.Gen Require C08_ptSeg C08_ptLinePerp C08_segSeg C08_envSeg.
Local Close Scope Z_scope.
Local Open Scope R_scope.
Notation rpt := GenPreludeR.rpt (only parsing).
Notation on_seg := RealDistDefs.on_seg (only parsing).
Notation distR := RealDistDefs.distR (only parsing).
Notation d2R := RealDistDefs.d2R (only parsing).
Notation g_pointToSegment := C08_ptSeg.g_pointToSegment (only parsing).
Notation g_segmentToSegment := C08_segSeg.g_segmentToSegment (only parsing).

(* Distance::pointToSegment(p, A, B) returns THE distance from p to the closed segment AB, for all inputs (A = B included):
   it is non-negative, it is the distance to some point of the segment, and no point of the segment is closer *)
Theorem C08_gen_pointToSegment_is_distance : forall p a b : rpt,
  let v := g_pointToSegment p a b in
  0 <= v /\ (exists x, on_seg x a b /\ v = distR p x) /\ (forall x, on_seg x a b -> v <= distR p x).
Proof. exact GenDist.g_pointToSegment_is_dist. Qed.
Print Assumptions C08_gen_pointToSegment_is_distance.

(* ... in squared form: (returned value)^2 is the exact squared distance to the nearest point of the segment *)
Theorem C08_gen_pointToSegment_squared : forall p a b : rpt,
  exists x, on_seg x a b /\ g_pointToSegment p a b * g_pointToSegment p a b = d2R p x /\ forall y, on_seg y a b -> d2R p x <= d2R p y.
Proof. exact GenDist.g_pointToSegment_sq. Qed.
Print Assumptions C08_gen_pointToSegment_squared.

(* Distance::pointToLinePerpendicular(p, A, B), A <> B: the distance from p to the whole line AB *)
Theorem C08_gen_pointToLinePerpendicular_is_distance : forall p a b : rpt, 0 < RealDistDefs.len2 a b ->
  let v := C08_ptLinePerp.g_pointToLinePerpendicular p a b in
  0 <= v /\ (exists t, v = distR p (RealDistDefs.lerp a b t)) /\ (forall t, v <= distR p (RealDistDefs.lerp a b t)).
Proof. exact GenDist.g_pointToLinePerpendicular_is_dist. Qed.
Print Assumptions C08_gen_pointToLinePerpendicular_is_distance.

(* Distance::segmentToSegment(A, B, C, D) returns THE distance between the closed segments AB and CD, for all inputs
   (zero-length segments, parallel, collinear, touching, crossing, disjoint): attained by a point of each, and a lower bound
   for every pair of points *)
Theorem C08_gen_segmentToSegment_is_distance : forall a b c d : rpt,
  let v := g_segmentToSegment a b c d in
  0 <= v /\ (exists x y, on_seg x a b /\ on_seg y c d /\ v = distR x y) /\
  (forall x y, on_seg x a b -> on_seg y c d -> v <= distR x y).
Proof. exact GenDist.g_segmentToSegment_is_dist. Qed.
Print Assumptions C08_gen_segmentToSegment_is_distance.

(* the code's own branch structure: for proper segments the result is 0 when the envelopes meet and the crossing test
   (denom <> 0, 0 <= r <= 1, 0 <= s <= 1) succeeds, otherwise the least of the four end point / segment distances *)
Theorem C08_gen_segmentToSegment_branches : forall a b c d : rpt, a <> b -> c <> d ->
  (C08_envSeg.c_intersects_4 a b c d = true /\ RealDistDefs.crossing a b c d -> g_segmentToSegment a b c d = 0) /\
  (~ (C08_envSeg.c_intersects_4 a b c d = true /\ RealDistDefs.crossing a b c d) ->
     g_segmentToSegment a b c d = Rmin (g_pointToSegment a c d) (Rmin (g_pointToSegment b c d) (Rmin (g_pointToSegment c a b) (g_pointToSegment d a b)))).
Proof. exact GenDist.g_segmentToSegment_branches. Qed.
Print Assumptions C08_gen_segmentToSegment_branches.

(* when the crossing test succeeds the segments do share a point ... *)
Theorem C08_gen_crossing_meets : forall a b c d : rpt, RealDistDefs.crossing a b c d -> exists x, on_seg x a b /\ on_seg x c d.
Proof. exact RealSegSeg.crossing_meets. Qed.
Print Assumptions C08_gen_crossing_meets.

(* ... and when it fails the least of the four end point / segment distances is the distance of the segments *)
Theorem C08_gen_min_of_four_is_distance : forall (a b c d : rpt) (va vb vc vd : R), 0 < RealDistDefs.len2 a b -> ~ RealDistDefs.crossing a b c d ->
  RealDistDefs.is_pt_seg_dist va a c d -> RealDistDefs.is_pt_seg_dist vb b c d ->
  RealDistDefs.is_pt_seg_dist vc c a b -> RealDistDefs.is_pt_seg_dist vd d a b ->
  RealDistDefs.is_seg_seg_dist (Rmin va (Rmin vb (Rmin vc vd))) a b c d.
Proof. exact RealSegSeg.min4_is_dist. Qed.
Print Assumptions C08_gen_min_of_four_is_distance.

(* zero exactly when the segments have a point in common; symmetric in the two segments *)
Theorem C08_gen_segmentToSegment_zero_iff_meet : forall a b c d : rpt,
  g_segmentToSegment a b c d = 0 <-> exists x, on_seg x a b /\ on_seg x c d.
Proof. exact GenDist.g_segmentToSegment_zero_iff. Qed.
Print Assumptions C08_gen_segmentToSegment_zero_iff_meet.
Theorem C08_gen_segmentToSegment_sym : forall a b c d : rpt, g_segmentToSegment a b c d = g_segmentToSegment c d a b.
Proof. exact GenDist.g_segmentToSegment_sym. Qed.
Print Assumptions C08_gen_segmentToSegment_sym.

(* non-vacuity of the hypotheses above, and concrete values *)
Example ex_gen_proper_segments : GenPreludeR.mk_rpt 0 0 <> GenPreludeR.mk_rpt 2 0 /\ GenPreludeR.mk_rpt 1 (-1) <> GenPreludeR.mk_rpt 1 1
                                 /\ 0 < RealDistDefs.len2 (GenPreludeR.mk_rpt 0 0) (GenPreludeR.mk_rpt 2 0).
Proof. exact GenDist.ex_proper_segments. Qed.
(* (0,0)-(2,0) and (1,-1)-(1,1) cross (r = s = 1/2); (0,0)-(2,0) and (0,1)-(2,1) are parallel: the test fails *)
Example ex_gen_crossing : RealDistDefs.crossing (GenPreludeR.mk_rpt 0 0) (GenPreludeR.mk_rpt 2 0) (GenPreludeR.mk_rpt 1 (-1)) (GenPreludeR.mk_rpt 1 1)
                          /\ ~ RealDistDefs.crossing (GenPreludeR.mk_rpt 0 0) (GenPreludeR.mk_rpt 2 0) (GenPreludeR.mk_rpt 0 1) (GenPreludeR.mk_rpt 2 1).
Proof. exact GenDist.ex_crossing. Qed.
(* the distance from (1,3) to the segment (0,0)-(2,0) is 3 (foot of the perpendicular) *)
Example ex_gen_pt_seg_value : g_pointToSegment (GenPreludeR.mk_rpt 1 3) (GenPreludeR.mk_rpt 0 0) (GenPreludeR.mk_rpt 2 0) = 3.
Proof. exact GenDist.ex_pt_seg_value. Qed.
Example ex_gen_seg_seg_values : g_segmentToSegment (GenPreludeR.mk_rpt 0 0) (GenPreludeR.mk_rpt 2 0) (GenPreludeR.mk_rpt 1 (-1)) (GenPreludeR.mk_rpt 1 1) = 0
                          /\ g_segmentToSegment (GenPreludeR.mk_rpt 0 0) (GenPreludeR.mk_rpt 2 0) (GenPreludeR.mk_rpt 0 1) (GenPreludeR.mk_rpt 2 1) <> 0.
Proof. exact GenDist.ex_seg_seg_values. Qed.
