(* C07/PreludeLI — meaning of the names in the generated LineIntersector units (K_collinearZ, K_intersectZ).
   Coordinates are homogeneous integer points (Lib.KernelDefs.qpt); the inputs are grid points (w = 1). The computed
   proper intersection point `intersection(p1,p2,q1,q2)` is read as the EXACT crossing point (KernelDefs.cross_pt):
   its binary64 rounding, the envelope clamp and the nearest-endpoint fall-back are outside these units and are covered
   by the correspondence (props/C07.py, clause `proper point`). Z/M interpolation is ignored (unit values). *)
From Coq Require Import ZArith Bool.
From GeosV.Lib Require Import KernelDefs.
Local Open Scope Z_scope.

Definition unq (p : qpt) : pt := (qx p, qy p).
Definition num := (Z * Z)%type.                         (* numerator, common denominator *)
Definition f_x (p : qpt) : num := (qx p, qw p).
Definition f_y (p : qpt) : num := (qy p, qw p).
Definition c_intersects_4 (a b c d : qpt) : bool := env_seg (unq a) (unq b) (unq c) (unq d).
Definition c_intersects_3 (a b c : qpt) : bool := env_pt (unq a) (unq b) (unq c).
Definition c_index_3 (a b c : qpt) : Z := orient (unq a) (unq b) (unq c).
Definition m_equals2D_1 (a b : qpt) : bool := pt_eqb (unq a) (unq b).
Definition c_opeq_2 (a b : qpt) : bool := pt_eqb (unq a) (unq b).
Definition c_zmGetOrInterpolateCopy_3 (p a b : qpt) : qpt := p.
Definition v_DoubleNotANumber : unit := tt.
Definition c_zGet_2 (a b : qpt) : unit := tt.
Definition c_mGet_2 (a b : qpt) : unit := tt.
Definition c_zGetOrInterpolate_3 (p a b : qpt) : unit := tt.
Definition c_mGetOrInterpolate_3 (p a b : qpt) : unit := tt.
Definition c_zInterpolate_5 (p a b c d : qpt) : unit := tt.
Definition c_mInterpolate_5 (p a b c d : qpt) : unit := tt.
Definition mk_CoordinateXYZM_0 (_ : unit) : qpt := mkq 0 0 1.
Definition mk_CoordinateXYZM_4 (x y : num) (z m : unit) : qpt := mkq (fst x) (fst y) (snd x).

(* LineIntersector object: isProperVar, intPt[2] *)
Record list := mkLi { f_isProperVar : bool; f_intPt0 : qpt; f_intPt1 : qpt }.
Definition set_isProperVar (st : list) (v : bool) := mkLi v (f_intPt0 st) (f_intPt1 st).
Definition set1_intPt (st : list) (i : Z) (v : qpt) :=
  if i =? 0 then mkLi (f_isProperVar st) v (f_intPt1 st) else mkLi (f_isProperVar st) (f_intPt0 st) v.
Definition m_intersection_4 (st : list) (p1 p2 q1 q2 : qpt) : qpt := cross_pt (unq p1) (unq p2) (unq q1) (unq q2).
Definition li_init : list := mkLi false (mkq 0 0 1) (mkq 0 0 1).

(* reading the object after computeIntersect returned `code` *)
Definition li_result (r : list * Z) : seg_res :=
  let '(st, code) := r in
  if code =? 0 then SegNone
  else if code =? 1 then SegPoint (f_isProperVar st) (f_intPt0 st)
  else SegCollinear (unq (f_intPt0 st)) (unq (f_intPt1 st)).
