(* C07/DDExact — the double-double fall-back of CGAlgorithmsDD::orientationIndex is exact on the grid, hence the
   GENERATED orientationIndex (Gen/K_orientationIndexF.v: isfinite test, filter, lexicographic sort of the three points with
   the sign of the permutation, DD determinant, OrientationDD) returns the exact orientation on integer inputs of
   magnitude <= 2^25.
   Route: no general TwoSum / Dekker theorem is needed.  With integer inputs every DD value met by the generated code
   is (integer, 0):
     * DD::selfAdd (hi,lo) += (yhi,ylo) with lo = ylo = 0 and hi, yhi, hi+yhi integers of magnitude <= 2^53: every one
       of its 14 floating operations is exact and the result is (hi+yhi, 0)              (selfAdd2_exact);
     * DD::selfMultiply with lo = ylo = 0 and |hi|, |yhi| <= 2^26: SPLIT*hi = (2^27+1)*hi is representable (it is
       <= 2^53 in magnitude, or equals +-2^26*(2^27+1) — the only case above 2^53, still a 28-bit significand), the
       Veltkamp split gives hx = hi, tx = 0, all partial products are exact, the result is (hi*yhi, 0)  (selfMultiply2_exact);
     * OrientationDD compares (d,0) with (0,0): sign of d.
   The filter cannot be used to restrict the fall-back to det = 0: with |detleft+detright| up to 2^53 its error bound
   exceeds 1 and it answers FAILURE on triples with det = -1 (FloatLink.filt_failure), so exactness of the DD path is
   needed for every determinant value, and that is what is proved. *)
From Coq Require Import ZArith Reals Lia Lra Bool Floats.SpecFloat.
From Flocq Require Import Core.Core IEEE754.BinarySingleNaN IEEE754.PrimFloat.
From GeosV.Lib Require GenPreludeF KernelDefs.
From GeosV.C07 Require Import FloatLink.
From GeosV.Gen Require K_filterF K_ddSelfAdd2 K_ddSelfAdd1 K_ddSelfSub1 K_ddSelfMul2 K_ddSelfMul1 K_ddAdd K_ddSub K_ddMul
  K_ddLt K_ddGt K_orientationDD K_orientationIndexF.
Local Open Scope Z_scope.

#[local] Notation b64 := (binary_float 53 1024).
#[local] Existing Instance Hprec.
#[local] Existing Instance Hmax.
#[local] Notation fexp64 := (FLT_exp (-1074) 53).

(* ---------------------------------------------------------------- representable integers beyond 2^53 *)
(* okZ z: the integer z is a binary64 number (and far from overflow) *)
Definition okZ (z : Z) : Prop := generic_format radix2 fexp64 (IZR z) /\ Z.abs z <= 2 ^ 100.

Lemma okZ_small z : Z.abs z <= 2 ^ 53 -> okZ z.
Proof. intros H. split. now apply format_IZR. lia. Qed.

Lemma okZ_shift m e : Z.abs m <= 2 ^ 53 -> 0 <= e <= 47 -> okZ (m * 2 ^ e).
Proof.
  intros Hm He. split.
  - apply generic_format_FLT.
    destruct (Z.eq_dec (Z.abs m) (2 ^ 53)) as [E|E].
    + apply FLT_spec with (f := Float radix2 (Z.sgn m) (53 + e)).
      * unfold F2R. cbn [Fnum Fexp]. rewrite bpow_plus, <- !IZR_Zpower by lia.
        rewrite <- !mult_IZR. f_equal. change (Zpower radix2 53) with (2 ^ 53). change (Zpower radix2 e) with (2 ^ e). nia.
      * cbn [Fnum]. change (Zpower radix2 53) with (2 ^ 53). lia.
      * cbn [Fexp]. lia.
    + apply FLT_spec with (f := Float radix2 m e).
      * unfold F2R. cbn [Fnum Fexp]. rewrite <- IZR_Zpower by lia. rewrite <- mult_IZR. reflexivity.
      * cbn [Fnum]. change (Zpower radix2 53) with (2 ^ 53). lia.
      * cbn [Fexp]. lia.
  - rewrite Z.abs_mul. rewrite (Z.abs_eq (2 ^ e)) by (apply Z.pow_nonneg; lia).
    assert (2 ^ e <= 2 ^ 47) by (apply Z.pow_le_mono_r; lia).
    change (2 ^ 100) with (2 ^ 53 * 2 ^ 47). apply Z.mul_le_mono_nonneg; lia.
Qed.

Lemma round_ok z : okZ z -> round radix2 fexp64 (round_mode mode_NE) (IZR z) = IZR z.
Proof. intros [H _]. apply round_generic. apply valid_rnd_round_mode. exact H. Qed.

Lemma no_overflow_ok z : okZ z ->
  Rlt_bool (Rabs (round radix2 fexp64 (round_mode mode_NE) (IZR z))) (bpow radix2 1024) = true.
Proof.
  intros H. rewrite round_ok by exact H. destruct H as [_ H]. apply Rlt_bool_true.
  rewrite <- abs_IZR. apply Rle_lt_trans with (IZR (2 ^ 100)).
  - now apply IZR_le.
  - change (2 ^ 100) with (Zpower radix2 100). rewrite IZR_Zpower by lia. apply bpow_lt. lia.
Qed.

Lemma repr_add_ok x y a b c : repr x a -> repr y b -> c = a + b -> okZ c -> repr (GenPreludeF.add x y) c.
Proof.
  intros (bx & <- & Fx & Rx) (by_ & <- & Fy & Ry) -> H.
  exists (Bplus mode_NE bx by_). split. { apply SFadd_B. }
  generalize (Bplus_correct 53 1024 Hprec Hmax mode_NE bx by_ Fx Fy).
  rewrite Rx, Ry, <- plus_IZR. change (SpecFloat.fexp 53 1024) with fexp64.
  rewrite no_overflow_ok by exact H. rewrite round_ok by exact H.
  intros (A & B & _). now split.
Qed.

Lemma repr_sub_ok x y a b c : repr x a -> repr y b -> c = a - b -> okZ c -> repr (GenPreludeF.sub x y) c.
Proof.
  intros (bx & <- & Fx & Rx) (by_ & <- & Fy & Ry) -> H.
  exists (Bminus mode_NE bx by_). split. { apply SFsub_B. }
  generalize (Bminus_correct 53 1024 Hprec Hmax mode_NE bx by_ Fx Fy).
  rewrite Rx, Ry, <- minus_IZR. change (SpecFloat.fexp 53 1024) with fexp64.
  rewrite no_overflow_ok by exact H. rewrite round_ok by exact H.
  intros (A & B & _). now split.
Qed.

Lemma repr_mul_ok x y a b c : repr x a -> repr y b -> c = a * b -> okZ c -> repr (GenPreludeF.mul x y) c.
Proof.
  intros (bx & <- & Fx & Rx) (by_ & <- & Fy & Ry) -> H.
  exists (Bmult mode_NE bx by_). split. { apply SFmul_B. }
  generalize (Bmult_correct 53 1024 Hprec Hmax mode_NE bx by_).
  rewrite Rx, Ry, <- mult_IZR. change (SpecFloat.fexp 53 1024) with fexp64.
  rewrite no_overflow_ok by exact H. rewrite round_ok by exact H.
  rewrite Fx, Fy. intros (A & B & _). now split.
Qed.

Lemma repr_neg x a : repr x a -> repr (GenPreludeF.neg x) (- a).
Proof.
  intros (bx & <- & Fx & Rx). exists (Bopp bx). split; [ | split].
  - now destruct bx.
  - now rewrite is_finite_Bopp.
  - rewrite B2R_Bopp, Rx, opp_IZR. reflexivity.
Qed.

Lemma repr_finite x a : repr x a -> GenPreludeF.c_isfinite_1 x = true.
Proof. intros (bx & <- & Fx & _). now destruct bx. Qed.

(* small-integer forms used below *)
Lemma rA x y a b c : repr x a -> repr y b -> c = a + b -> Z.abs c <= 2 ^ 53 -> repr (GenPreludeF.add x y) c.
Proof. intros. eapply repr_add_ok; eauto using okZ_small. Qed.
Lemma rS x y a b c : repr x a -> repr y b -> c = a - b -> Z.abs c <= 2 ^ 53 -> repr (GenPreludeF.sub x y) c.
Proof. intros. eapply repr_sub_ok; eauto using okZ_small. Qed.
Lemma rM x y a b c : repr x a -> repr y b -> c = a * b -> Z.abs c <= 2 ^ 53 -> repr (GenPreludeF.mul x y) c.
Proof. intros. eapply repr_mul_ok; eauto using okZ_small. Qed.

(* ---------------------------------------------------------------- DD values that are (integer, 0) *)
Definition ddint (d : GenPreludeF.DD) (z : Z) : Prop := repr (GenPreludeF.f_hi d) z /\ repr (GenPreludeF.f_lo d) 0.

Lemma repr_zero : repr (S754_zero false) 0.
Proof. apply (repr_ofZ 0). lia. Qed.

Lemma ddint_mk1 x a : repr x a -> ddint (GenPreludeF.mk_DD_1 x) a.
Proof. intros H. split. exact H. exact repr_zero. Qed.

(* DD::selfAdd(yhi, ylo) as generated: exact on (integer,0) operands *)
Lemma selfAdd2_exact hi lo yhi ylo a b :
  repr hi a -> repr lo 0 -> repr yhi b -> repr ylo 0 ->
  Z.abs a <= 2 ^ 53 -> Z.abs b <= 2 ^ 53 -> Z.abs (a + b) <= 2 ^ 53 ->
  ddint (K_ddSelfAdd2.m_selfAdd_2 (GenPreludeF.mk_DD_2 hi lo) yhi ylo) (a + b).
Proof.
  intros Rhi Rlo Ryhi Rylo Ha Hb Hab.
  assert (Z0: Z.abs 0 <= 2 ^ 53) by lia.
  unfold K_ddSelfAdd2.m_selfAdd_2. cbv zeta.
  cbn [GenPreludeF.f_hi GenPreludeF.f_lo GenPreludeF.set_hi GenPreludeF.set_lo].
  assert (RS : repr (GenPreludeF.add hi yhi) (a + b)) by (apply (rA _ _ a b); auto).
  assert (RT : repr (GenPreludeF.add lo ylo) 0) by (apply (rA _ _ 0 0); auto).
  set (S := GenPreludeF.add hi yhi) in *. set (T := GenPreludeF.add lo ylo) in *.
  assert (Re : repr (GenPreludeF.sub S hi) b) by (apply (rS _ _ (a + b) a); auto; lia).
  assert (Rf : repr (GenPreludeF.sub T lo) 0) by (apply (rS _ _ 0 0); auto).
  set (e := GenPreludeF.sub S hi) in *. set (f := GenPreludeF.sub T lo) in *.
  assert (Rs : repr (GenPreludeF.sub S e) a) by (apply (rS _ _ (a + b) b); auto; lia).
  assert (Rt : repr (GenPreludeF.sub T f) 0) by (apply (rS _ _ 0 0); auto).
  set (s := GenPreludeF.sub S e) in *. set (t := GenPreludeF.sub T f) in *.
  assert (Rs2 : repr (GenPreludeF.add (GenPreludeF.sub yhi e) (GenPreludeF.sub hi s)) 0).
  { apply (rA _ _ 0 0); auto; [apply (rS _ _ b b) | apply (rS _ _ a a)]; auto; lia. }
  assert (Rt2 : repr (GenPreludeF.add (GenPreludeF.sub ylo f) (GenPreludeF.sub lo t)) 0).
  { apply (rA _ _ 0 0); auto; apply (rS _ _ 0 0); auto. }
  set (s2 := GenPreludeF.add (GenPreludeF.sub yhi e) (GenPreludeF.sub hi s)) in *.
  set (t2 := GenPreludeF.add (GenPreludeF.sub ylo f) (GenPreludeF.sub lo t)) in *.
  assert (Re2 : repr (GenPreludeF.add s2 T) 0) by (apply (rA _ _ 0 0); auto).
  set (e2 := GenPreludeF.add s2 T) in *.
  assert (RH : repr (GenPreludeF.add S e2) (a + b)) by (apply (rA _ _ (a + b) 0); auto; lia).
  set (H := GenPreludeF.add S e2) in *.
  assert (Rh : repr (GenPreludeF.add e2 (GenPreludeF.sub S H)) 0).
  { apply (rA _ _ 0 0); auto. apply (rS _ _ (a + b) (a + b)); auto; lia. }
  set (h := GenPreludeF.add e2 (GenPreludeF.sub S H)) in *.
  assert (Re3 : repr (GenPreludeF.add t2 h) 0) by (apply (rA _ _ 0 0); auto).
  set (e3 := GenPreludeF.add t2 h) in *.
  assert (Rzhi : repr (GenPreludeF.add H e3) (a + b)) by (apply (rA _ _ (a + b) 0); auto; lia).
  set (zhi := GenPreludeF.add H e3) in *.
  assert (Rzlo : repr (GenPreludeF.add e3 (GenPreludeF.sub H zhi)) 0).
  { apply (rA _ _ 0 0); auto. apply (rS _ _ (a + b) (a + b)); auto; lia. }
  split; cbn [GenPreludeF.f_hi GenPreludeF.f_lo]; assumption.
Qed.

Lemma opadd_exact x y a b : ddint x a -> ddint y b ->
  Z.abs a <= 2 ^ 53 -> Z.abs b <= 2 ^ 53 -> Z.abs (a + b) <= 2 ^ 53 ->
  ddint (K_ddAdd.c_opadd_2 x y) (a + b).
Proof.
  intros [Xh Xl] [Yh Yl] Ha Hb Hab.
  unfold K_ddAdd.c_opadd_2, K_ddSelfAdd1.m_selfAdd_1. cbv zeta.
  now apply selfAdd2_exact.
Qed.

Lemma opsub_exact x y a b : ddint x a -> ddint y b ->
  Z.abs a <= 2 ^ 53 -> Z.abs b <= 2 ^ 53 -> Z.abs (a - b) <= 2 ^ 53 ->
  ddint (K_ddSub.c_opsub_2 x y) (a - b).
Proof.
  intros [Xh Xl] [Yh Yl] Ha Hb Hab.
  unfold K_ddSub.c_opsub_2, K_ddSelfSub1.m_selfSubtract_1. cbv zeta.
  assert (M1 : repr (GenPreludeF.ofZ (Z.opp 1)) (-1)) by (apply (repr_ofZ (-1)); lia).
  replace (a - b) with (a + - b) by lia.
  apply selfAdd2_exact; auto; try lia.
  - apply (rM _ _ (-1) b); auto; lia.
  - apply (rM _ _ (-1) 0); auto; lia.
Qed.

Lemma okZ_split a : Z.abs a <= 2 ^ 26 -> okZ (134217729 * a).
Proof.
  intros H. destruct (Z.eq_dec (Z.abs a) (2 ^ 26)) as [E|E].
  - replace (134217729 * a) with ((134217729 * Z.sgn a) * 2 ^ 26) by lia.
    apply okZ_shift; lia.
  - apply okZ_small. lia.
Qed.

(* DD::selfMultiply(yhi, ylo) as generated: exact on (integer,0) operands of magnitude <= 2^26 *)
Lemma selfMultiply2_exact hi lo yhi ylo a b :
  repr hi a -> repr lo 0 -> repr yhi b -> repr ylo 0 ->
  Z.abs a <= 2 ^ 26 -> Z.abs b <= 2 ^ 26 ->
  ddint (K_ddSelfMul2.m_selfMultiply_2 (GenPreludeF.mk_DD_2 hi lo) yhi ylo) (a * b).
Proof.
  intros Rhi Rlo Ryhi Rylo Ha Hb.
  assert (Z0: Z.abs 0 <= 2 ^ 53) by lia.
  assert (Hab : Z.abs (a * b) <= 2 ^ 52).
  { rewrite Z.abs_mul. change (2 ^ 52) with (2 ^ 26 * 2 ^ 26). apply Z.mul_le_mono_nonneg; lia. }
  assert (RSP : repr GenPreludeF.v_SPLIT 134217729) by (apply (repr_ofZ 134217729); lia).
  unfold K_ddSelfMul2.m_selfMultiply_2. cbv zeta.
  cbn [GenPreludeF.f_hi GenPreludeF.f_lo GenPreludeF.set_hi GenPreludeF.set_lo].
  assert (RC : repr (GenPreludeF.mul GenPreludeF.v_SPLIT hi) (134217729 * a)).
  { apply (repr_mul_ok _ _ 134217729 a); auto. now apply okZ_split. }
  assert (Rc : repr (GenPreludeF.mul GenPreludeF.v_SPLIT yhi) (134217729 * b)).
  { apply (repr_mul_ok _ _ 134217729 b); auto. now apply okZ_split. }
  set (C := GenPreludeF.mul GenPreludeF.v_SPLIT hi) in *.
  set (c := GenPreludeF.mul GenPreludeF.v_SPLIT yhi) in *.
  assert (Rhx0 : repr (GenPreludeF.sub C hi) (a * 2 ^ 27)).
  { apply (repr_sub_ok _ _ (134217729 * a) a); auto. lia. apply okZ_shift; lia. }
  assert (Rhy0 : repr (GenPreludeF.sub c yhi) (b * 2 ^ 27)).
  { apply (repr_sub_ok _ _ (134217729 * b) b); auto. lia. apply okZ_shift; lia. }
  assert (Rhx : repr (GenPreludeF.sub C (GenPreludeF.sub C hi)) a).
  { apply (rS _ _ (134217729 * a) (a * 2 ^ 27)); auto; lia. }
  assert (Rhy : repr (GenPreludeF.sub c (GenPreludeF.sub c yhi)) b).
  { apply (rS _ _ (134217729 * b) (b * 2 ^ 27)); auto; lia. }
  set (hx := GenPreludeF.sub C (GenPreludeF.sub C hi)) in *.
  set (hy := GenPreludeF.sub c (GenPreludeF.sub c yhi)) in *.
  assert (Rtx : repr (GenPreludeF.sub hi hx) 0) by (apply (rS _ _ a a); auto; lia).
  assert (Rty : repr (GenPreludeF.sub yhi hy) 0) by (apply (rS _ _ b b); auto; lia).
  set (tx := GenPreludeF.sub hi hx) in *. set (ty := GenPreludeF.sub yhi hy) in *.
  assert (RP : repr (GenPreludeF.mul hi yhi) (a * b)) by (apply (rM _ _ a b); auto; lia).
  set (P := GenPreludeF.mul hi yhi) in *.
  assert (R1 : repr (GenPreludeF.sub (GenPreludeF.mul hx hy) P) 0).
  { apply (rS _ _ (a * b) (a * b)); auto; try lia. apply (rM _ _ a b); auto; lia. }
  assert (R2 : repr (GenPreludeF.add (GenPreludeF.sub (GenPreludeF.mul hx hy) P) (GenPreludeF.mul hx ty)) 0).
  { apply (rA _ _ 0 0); auto. apply (rM _ _ a 0); auto; lia. }
  assert (R3 : repr (GenPreludeF.add (GenPreludeF.add (GenPreludeF.sub (GenPreludeF.mul hx hy) P) (GenPreludeF.mul hx ty))
                       (GenPreludeF.mul tx hy)) 0).
  { apply (rA _ _ 0 0); auto. apply (rM _ _ 0 b); auto; lia. }
  assert (R4 : repr (GenPreludeF.add (GenPreludeF.add (GenPreludeF.add (GenPreludeF.sub (GenPreludeF.mul hx hy) P)
                       (GenPreludeF.mul hx ty)) (GenPreludeF.mul tx hy)) (GenPreludeF.mul tx ty)) 0).
  { apply (rA _ _ 0 0); auto. apply (rM _ _ 0 0); auto. }
  assert (R5 : repr (GenPreludeF.add (GenPreludeF.mul hi ylo) (GenPreludeF.mul lo yhi)) 0).
  { apply (rA _ _ 0 0); auto; [apply (rM _ _ a 0) | apply (rM _ _ 0 b)]; auto; lia. }
  assert (Rc2 : repr (GenPreludeF.add (GenPreludeF.add (GenPreludeF.add (GenPreludeF.add (GenPreludeF.sub (GenPreludeF.mul hx hy) P)
                       (GenPreludeF.mul hx ty)) (GenPreludeF.mul tx hy)) (GenPreludeF.mul tx ty))
                       (GenPreludeF.add (GenPreludeF.mul hi ylo) (GenPreludeF.mul lo yhi))) 0).
  { apply (rA _ _ 0 0); auto. }
  set (c2 := GenPreludeF.add (GenPreludeF.add _ _) (GenPreludeF.add (GenPreludeF.mul hi ylo) _)) in *.
  assert (Rzhi : repr (GenPreludeF.add P c2) (a * b)) by (apply (rA _ _ (a * b) 0); auto; lia).
  set (zhi := GenPreludeF.add P c2) in *.
  assert (Rzlo : repr (GenPreludeF.add c2 (GenPreludeF.sub P zhi)) 0).
  { apply (rA _ _ 0 0); auto. apply (rS _ _ (a * b) (a * b)); auto; lia. }
  split; cbn [GenPreludeF.f_hi GenPreludeF.f_lo]; assumption.
Qed.

Lemma opmul_exact x y a b : ddint x a -> ddint y b -> Z.abs a <= 2 ^ 26 -> Z.abs b <= 2 ^ 26 ->
  ddint (K_ddMul.c_opmul_2 x y) (a * b).
Proof.
  intros [Xh Xl] [Yh Yl] Ha Hb.
  unfold K_ddMul.c_opmul_2, K_ddSelfMul1.m_selfMultiply_1. cbv zeta.
  now apply selfMultiply2_exact.
Qed.

(* OrientationDD on (integer,0) = sign of the integer *)
Lemma orientationDD_exact d z : ddint d z -> K_orientationDD.c_OrientationDD_1 d = Z.sgn z.
Proof.
  intros [Rh Rl].
  unfold K_orientationDD.c_OrientationDD_1, K_ddLt.c_oplt_2, K_ddGt.c_opgt_2. cbv zeta.
  change (GenPreludeF.flit 0 0 1) with (S754_zero false).
  cbn [GenPreludeF.mk_DD_1 GenPreludeF.f_hi GenPreludeF.f_lo].
  unfold GenPreludeF.gtb, GenPreludeF.ltb.
  rewrite (repr_ltb _ _ _ _ Rh repr_zero), (repr_ltb _ _ _ _ repr_zero Rh),
          (repr_ltb _ _ _ _ Rl repr_zero), (repr_ltb _ _ _ _ repr_zero Rl).
  rewrite Z.ltb_irrefl, !andb_false_r, !orb_false_r.
  unfold K_orientationDD.E_RIGHT, K_orientationDD.E_LEFT, K_orientationDD.E_STRAIGHT.
  destruct (Z.ltb_spec z 0); destruct (Z.ltb_spec 0 z); lia.
Qed.

(* the DD determinant of orientationIndex on three grid points (in whatever order the sort has put them) *)
#[local] Notation dd_core p1x p1y p2x p2y qx qy :=
  (K_orientationDD.c_OrientationDD_1
    (K_ddSub.c_opsub_2
       (K_ddMul.c_opmul_2 (K_ddAdd.c_opadd_2 (GenPreludeF.mk_DD_1 p2x) (GenPreludeF.mk_DD_1 (GenPreludeF.neg p1x)))
                          (K_ddAdd.c_opadd_2 (GenPreludeF.mk_DD_1 qy) (GenPreludeF.mk_DD_1 (GenPreludeF.neg p2y))))
       (K_ddMul.c_opmul_2 (K_ddAdd.c_opadd_2 (GenPreludeF.mk_DD_1 p2y) (GenPreludeF.mk_DD_1 (GenPreludeF.neg p1y)))
                          (K_ddAdd.c_opadd_2 (GenPreludeF.mk_DD_1 qx) (GenPreludeF.mk_DD_1 (GenPreludeF.neg p2x)))))) (only parsing).

Lemma dd_core_exact x1 y1 x2 y2 x3 y3 :
  Z.abs x1 <= 2^25 -> Z.abs y1 <= 2^25 -> Z.abs x2 <= 2^25 -> Z.abs y2 <= 2^25 -> Z.abs x3 <= 2^25 -> Z.abs y3 <= 2^25 ->
  dd_core (GenPreludeF.ofZ x1) (GenPreludeF.ofZ y1) (GenPreludeF.ofZ x2) (GenPreludeF.ofZ y2)
          (GenPreludeF.ofZ x3) (GenPreludeF.ofZ y3)
  = Z.sgn ((x2 - x1) * (y3 - y2) - (y2 - y1) * (x3 - x2)).
Proof.
  intros H1 H2 H3 H4 H5 H6.
  assert (W: forall z, Z.abs z <= 2 ^ 25 -> Z.abs z <= 2 ^ 53) by (intros; lia).
  pose proof (repr_ofZ _ (W _ H1)) as R1. pose proof (repr_ofZ _ (W _ H2)) as R2.
  pose proof (repr_ofZ _ (W _ H3)) as R3. pose proof (repr_ofZ _ (W _ H4)) as R4.
  pose proof (repr_ofZ _ (W _ H5)) as R5. pose proof (repr_ofZ _ (W _ H6)) as R6.
  assert (D: forall X Y x y, repr X x -> repr Y y -> Z.abs x <= 2^25 -> Z.abs y <= 2^25 ->
             ddint (K_ddAdd.c_opadd_2 (GenPreludeF.mk_DD_1 X) (GenPreludeF.mk_DD_1 (GenPreludeF.neg Y))) (x - y)).
  { intros X Y x y RX RY HX HY. replace (x - y) with (x + - y) by lia.
    apply opadd_exact; try lia; apply ddint_mk1; auto. now apply repr_neg. }
  assert (P: forall u v, Z.abs u <= 2^26 -> Z.abs v <= 2^26 -> Z.abs (u * v) <= 2^52).
  { intros u v Hu Hv. rewrite Z.abs_mul. change (2^52) with (2^26 * 2^26). apply Z.mul_le_mono_nonneg; lia. }
  pose proof (D _ _ _ _ R3 R1 H3 H1) as Dx1. pose proof (D _ _ _ _ R4 R2 H4 H2) as Dy1.
  pose proof (D _ _ _ _ R5 R3 H5 H3) as Dx2. pose proof (D _ _ _ _ R6 R4 H6 H4) as Dy2.
  assert (B1: Z.abs (x2 - x1) <= 2^26) by lia. assert (B2: Z.abs (y2 - y1) <= 2^26) by lia.
  assert (B3: Z.abs (x3 - x2) <= 2^26) by lia. assert (B4: Z.abs (y3 - y2) <= 2^26) by lia.
  pose proof (opmul_exact _ _ _ _ Dx1 Dy2 B1 B4) as M1.
  pose proof (opmul_exact _ _ _ _ Dy1 Dx2 B2 B3) as M2.
  pose proof (P _ _ B1 B4) as Q1. pose proof (P _ _ B2 B3) as Q2.
  apply orientationDD_exact.
  apply opsub_exact; auto; try lia.
Qed.

(* ---------------------------------------------------------------- the generated orientationIndex on the grid *)
Theorem orientationIndex_grid : forall ax ay bx by_ cx cy : Z,
  Z.abs ax <= 2^25 -> Z.abs ay <= 2^25 -> Z.abs bx <= 2^25 -> Z.abs by_ <= 2^25 ->
  Z.abs cx <= 2^25 -> Z.abs cy <= 2^25 ->
  K_orientationIndexF.g_orientationIndexF
    (GenPreludeF.ofZ ax) (GenPreludeF.ofZ ay) (GenPreludeF.ofZ bx) (GenPreludeF.ofZ by_)
    (GenPreludeF.ofZ cx) (GenPreludeF.ofZ cy)
  = KernelDefs.orient (ax, ay) (bx, by_) (cx, cy).
Proof.
  intros ax ay bx by_ cx cy Hax Hay Hbx Hby Hcx Hcy.
  assert (W: forall z, Z.abs z <= 2 ^ 25 -> Z.abs z <= 2 ^ 53) by (intros; lia).
  pose proof (filter_orient_grid _ _ _ _ _ _ Hax Hay Hbx Hby Hcx Hcy) as HF. cbv zeta in HF.
  unfold K_orientationIndexF.g_orientationIndexF.
  rewrite (repr_finite _ _ (repr_ofZ _ (W _ Hcx))), (repr_finite _ _ (repr_ofZ _ (W _ Hcy))).
  cbn [negb orb]. cbv zeta.
  destruct (Z.leb_spec (K_filterF.c_orientationIndexFilter_6 (GenPreludeF.ofZ ax) (GenPreludeF.ofZ ay) (GenPreludeF.ofZ bx)
              (GenPreludeF.ofZ by_) (GenPreludeF.ofZ cx) (GenPreludeF.ofZ cy)) 1) as [L|L].
  { apply HF. lia. }
  clear HF L.
  unfold KernelDefs.orient, KernelDefs.det. cbn [fst snd].
  repeat match goal with |- context [if ?c then _ else _] => destruct c end;
  rewrite dd_core_exact by assumption;
  match goal with |- ?s * Z.sgn ?A = Z.sgn ?B =>
    first [ replace B with A by ring | replace B with (- A) by ring; rewrite Z.sgn_opp ] end; lia.
Qed.
Print Assumptions orientationIndex_grid.

(* Non-vacuity at the range boundary (|ordinate| = 2^25): det = -1 where the filter says FAILURE, det = 0, det = +1,
   and a product of two differences of magnitude exactly 2^26 (SPLIT * 2^26 exceeds 2^53 and is still exact). *)
Definition oidx (ax ay bx by_ cx cy : Z) : Z :=
  K_orientationIndexF.g_orientationIndexF (GenPreludeF.ofZ ax) (GenPreludeF.ofZ ay) (GenPreludeF.ofZ bx)
    (GenPreludeF.ofZ by_) (GenPreludeF.ofZ cx) (GenPreludeF.ofZ cy).
Example oidx_failure_m1 : filt (2^25 - 1) (2^25 - 2) (2^25 - 2) (2^25 - 3) (- 2^25) (- 2^25) = 2 /\
                          oidx (2^25 - 1) (2^25 - 2) (2^25 - 2) (2^25 - 3) (- 2^25) (- 2^25) = -1.
Proof. split; vm_compute; reflexivity. Qed.
Example oidx_collinear_edge : filt (- 2^25) (- 2^25) (2^25) (2^25) 0 0 = 2 /\ oidx (- 2^25) (- 2^25) (2^25) (2^25) 0 0 = 0.
Proof. split; vm_compute; reflexivity. Qed.
Example oidx_p1_edge : oidx (- 2^25) (- 2^25) (2^25) (2^25) 0 1 = 1 /\ oidx (- 2^25) (2^25) (2^25) (- 2^25) 1 0 = 1.
Proof. split; vm_compute; reflexivity. Qed.
Example opmul_2p26 :
  K_ddMul.c_opmul_2 (GenPreludeF.mk_DD_1 (GenPreludeF.ofZ (2^26))) (GenPreludeF.mk_DD_1 (GenPreludeF.ofZ (- 2^26)))
  = GenPreludeF.mk_DD_2 (GenPreludeF.ofZ (- 2^52)) (S754_zero false).
Proof. vm_compute. reflexivity. Qed.
