(* C07/GenTie — tie G: the definitions generated from the C++ (coq/theories/Gen/K_*.v, regenerated on every run) are equal
   to the hand models of Lib/KernelDefs, so every theorem about the models is a theorem about what the code says. *)
From Coq Require Import ZArith List Bool Lia.
From GeosV.Lib Require Import KernelDefs Kernel.
From GeosV.Lib Require GenPreludeZ.
From GeosV.C07 Require PreludeLI.
From GeosV.Gen Require K_countSegment K_getLocation K_envPtZ K_envSegZ K_collinearZ K_intersectZ.
Import ListNotations.
Local Open Scope Z_scope.

Module Z_side.
Import GeosV.Lib.GenPreludeZ.

Definition st_of (p : pt) (r : rcc) : rccst := mkRccSt p (rcc_count r) (rcc_on r).
Definition rcc_of (s : rccst) : rcc := mkRcc (f_crossingCount s) (f_isPointOnSegment s).

(* RayCrossingCounter::countSegment *)
Theorem gen_countSegment_eq p a b r :
  K_countSegment.g_countSegment (st_of p r) a b = st_of p (count_segment p a b r).
Proof.
  destruct r as [c o]. unfold K_countSegment.g_countSegment, count_segment, st_of.
  unfold ltb, leb, gtb, geb, eqb, f_x, f_y, c_orientationIndex_3, set_isPointOnSegment, set_crossingCount; cbn [f_point f_crossingCount f_isPointOnSegment rcc_count rcc_on].
  destruct ((fst a <? fst p) && (fst b <? fst p)); [reflexivity|].
  destruct ((fst p =? fst b) && (snd p =? snd b)); [reflexivity|].
  destruct ((snd a =? snd p) && (snd b =? snd p)).
  { destruct (fst a >? fst b); destruct ((fst p >=? _) && (fst p <=? _)); reflexivity. }
  destruct ((snd a >? snd p) && (snd b <=? snd p) || (snd b >? snd p) && (snd a <=? snd p)); [|reflexivity].
  destruct (orient a b p =? 0); [reflexivity|].
  destruct (snd b <? snd a); destruct (_ >? 0); reflexivity.
Qed.

(* RayCrossingCounter::getLocation *)
Theorem gen_getLocation_eq p r : K_getLocation.g_getLocation (st_of p r) = loc_code (rcc_location r).
Proof.
  destruct r as [c o]. unfold K_getLocation.g_getLocation, rcc_location, st_of; cbn [f_isPointOnSegment f_crossingCount rcc_on rcc_count].
  destruct o; [reflexivity|]. destruct (Z.rem c 2 =? 1); reflexivity.
Qed.

(* Envelope::intersects(p1, p2, q) and (p1, p2, q1, q2) *)
Theorem gen_envPt_eq p1 p2 q : K_envPtZ.g_envPtZ p1 p2 q = env_pt p1 p2 q.
Proof. unfold K_envPtZ.g_envPtZ, env_pt, geb, leb, ltb, gtb, f_x, f_y. destruct (_ && _); reflexivity. Qed.
Theorem gen_envSeg_eq p1 p2 q1 q2 : K_envSegZ.g_envSegZ p1 p2 q1 q2 = env_seg p1 p2 q1 q2.
Proof. reflexivity. Qed.
End Z_side.

Module LI_side.
Import GeosV.C07.PreludeLI.

Lemma unq_q p : unq (q_of_pt p) = p.
Proof. destruct p; reflexivity. Qed.
Lemma mk_of_q p z m : mk_CoordinateXYZM_4 (f_x (q_of_pt p)) (f_y (q_of_pt p)) z m = q_of_pt p.
Proof. reflexivity. Qed.

(* LineIntersector::computeCollinearIntersection and computeIntersect on grid points *)
Theorem gen_collinear_eq st p1 p2 q1 q2 :
  li_result (K_collinearZ.m_computeCollinearIntersection_4 st (q_of_pt p1) (q_of_pt p2) (q_of_pt q1) (q_of_pt q2)) =
  match collinear_class p1 p2 q1 q2 with
  | SegPoint _ x => SegPoint (f_isProperVar st) x
  | r => r
  end.
Proof.
  unfold K_collinearZ.m_computeCollinearIntersection_4, collinear_class, c_intersects_3, c_opeq_2, c_zmGetOrInterpolateCopy_3.
  rewrite !unq_q.
  destruct (env_pt p1 p2 q1), (env_pt p1 p2 q2), (env_pt q1 q2 p1), (env_pt q1 q2 p2); cbn [andb negb].
  all: rewrite ?andb_true_r, ?andb_false_r.
  all: try match goal with |- context [pt_eqb ?a ?b] => destruct (pt_eqb a b) end.
  all: unfold li_result, set1_intPt; cbn [Z.eqb f_intPt0 f_intPt1 f_isProperVar K_collinearZ.E_intersection_type_COLLINEAR_INTERSECTION
         K_collinearZ.E_intersection_type_POINT_INTERSECTION K_collinearZ.E_intersection_type_NO_INTERSECTION]; rewrite ?unq_q; reflexivity.
Qed.

Lemma collinear_class_not_proper p1 p2 q1 q2 pr x : collinear_class p1 p2 q1 q2 = SegPoint pr x -> pr = false.
Proof.
  unfold collinear_class.
  destruct (env_pt p1 p2 q1), (env_pt p1 p2 q2), (env_pt q1 q2 p1), (env_pt q1 q2 p2); cbn [andb negb]; try discriminate;
  rewrite ?andb_true_r, ?andb_false_r; match goal with |- context [pt_eqb ?a ?b] => destruct (pt_eqb a b) end; try discriminate; intros [= <- _]; reflexivity.
Qed.

Theorem gen_intersect_eq st p1 p2 q1 q2 :
  li_result (K_intersectZ.g_intersectZ st (q_of_pt p1) (q_of_pt p2) (q_of_pt q1) (q_of_pt q2)) = seg_class p1 p2 q1 q2.
Proof.
  unfold K_intersectZ.g_intersectZ, seg_class, c_intersects_4, c_index_3, m_equals2D_1. rewrite !unq_q.
  destruct (env_seg p1 p2 q1 q2); cbn [negb]; [|reflexivity].
  destruct ((orient p1 p2 q1 >? 0) && (orient p1 p2 q2 >? 0) || (orient p1 p2 q1 <? 0) && (orient p1 p2 q2 <? 0)); [reflexivity|].
  destruct ((orient q1 q2 p1 >? 0) && (orient q1 q2 p2 >? 0) || (orient q1 q2 p1 <? 0) && (orient q1 q2 p2 <? 0)); [reflexivity|].
  destruct ((orient p1 p2 q1 =? 0) && (orient p1 p2 q2 =? 0) && (orient q1 q2 p1 =? 0) && (orient q1 q2 p2 =? 0)).
  { rewrite gen_collinear_eq. destruct (collinear_class p1 p2 q1 q2) as [|pr x|a b] eqn:E; try reflexivity.
    rewrite (collinear_class_not_proper _ _ _ _ _ _ E). reflexivity. }
  destruct ((orient p1 p2 q1 =? 0) || (orient p1 p2 q2 =? 0) || (orient q1 q2 p1 =? 0) || (orient q1 q2 p2 =? 0)).
  - destruct (pt_eqb p1 q1); [reflexivity|]. destruct (pt_eqb p1 q2); [reflexivity|]. destruct (pt_eqb p2 q1); [reflexivity|].
    destruct (pt_eqb p2 q2); [reflexivity|]. destruct (orient p1 p2 q1 =? 0); [reflexivity|]. destruct (orient p1 p2 q2 =? 0); [reflexivity|].
    destruct (orient q1 q2 p1 =? 0); [reflexivity|]. destruct (orient q1 q2 p2 =? 0); reflexivity.
  - unfold m_intersection_4. rewrite !unq_q. unfold li_result, set1_intPt, mk_CoordinateXYZM_4, f_x, f_y.
    cbn [Z.eqb f_intPt0 f_isProperVar set_isProperVar K_intersectZ.E_intersection_type_POINT_INTERSECTION fst snd].
    destruct (cross_pt p1 p2 q1 q2); reflexivity.
Qed.
End LI_side.
