(* C07/CCWDefs — code-level model of Orientation::isCCW (src/algorithm/Orientation.cpp) over grid points. Definitions only. *)
From Coq Require Import ZArith List Bool.
From GeosV.Lib Require Import KernelDefs.
Import ListNotations.
Local Open Scope Z_scope.

Definition pnth (ring : list pt) (i : nat) : pt := nth i ring (0, 0).

(* first loop: last rising segment whose upper end is >= every earlier such end.
   state: (iUpHi, upHiPt, upLowPt (None = CoordinateXY::getNull()), prevY) *)
Definition ccw_scan_step (ring : list pt) (acc : nat * pt * option pt * Z) (i : nat) : nat * pt * option pt * Z :=
  let '(iUpHi, upHi, upLow, prevY) := acc in
  let py := snd (pnth ring i) in
  if (py >? prevY) && (py >=? snd upHi) then (i, pnth ring i, Some (pnth ring (i - 1)), py)
  else (iUpHi, upHi, upLow, py).

(* do { iDownLow = (iDownLow + 1) % nPts; } while (iDownLow != iUpHi && ring[iDownLow].y == upHiPt.y) ; fuel = nPts + 1 *)
Fixpoint ccw_down (ring : list pt) (nPts iUpHi : nat) (hiY : Z) (fuel : nat) (iDownLow : nat) : nat :=
  match fuel with
  | O => iDownLow
  | S f => let j := Nat.modulo (iDownLow + 1) nPts in
           if negb (Nat.eqb j iUpHi) && (snd (pnth ring j) =? hiY) then ccw_down ring nPts iUpHi hiY f j else j
  end.

Definition opt_eqb (a : option pt) (b : pt) : bool := match a with Some a => pt_eqb a b | None => false end.

Definition is_ccw (ring : list pt) : bool :=
  let n := length ring in
  if (Z.of_nat n - 1 <? 3) then false else
  let nPts := (n - 1)%nat in
  let p0 := pnth ring 0 in
  let '(iUpHi, upHi, upLow, _) := fold_left (ccw_scan_step ring) (seq 1 nPts) (O, p0, None, snd p0) in
  if Nat.eqb iUpHi 0 then false else
  let iDownLow := ccw_down ring nPts iUpHi (snd upHi) (S nPts) iUpHi in
  let downLow := pnth ring iDownLow in
  let iDownHi := if Nat.ltb 0 iDownLow then (iDownLow - 1)%nat else (nPts - 1)%nat in
  let downHi := pnth ring iDownHi in
  if pt_eqb upHi downHi then
    if opt_eqb upLow upHi || pt_eqb downLow upHi || opt_eqb upLow downLow then false
    else match upLow with Some lo => orient lo upHi downLow =? 1 | None => false end
  else (fst downHi - fst upHi <? 0).
