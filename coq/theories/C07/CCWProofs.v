(* C07/CCWProofs — what is proved about ring orientation: laws of the shoelace sign (the specification `ring_ccw`);
   the code-level model `is_ccw` of Orientation::isCCW is tied to the implementation by correspondence and to `ring_ccw`
   on generated simple rings only (Properties_C07: C07_isccw_partial). *)
From Coq Require Import ZArith List Bool Lia.
From GeosV.Lib Require Import KernelDefs Kernel KernelRing KernelPoly.
From GeosV.C07 Require Import CCWDefs.
Import ListNotations.
Local Open Scope Z_scope.

Lemma ring_ccw_rev ring : area2 ring <> 0 -> ring_ccw (rev ring) = negb (ring_ccw ring).
Proof.
  intros N. unfold ring_ccw. rewrite area2_rev. destruct (Z.ltb_spec 0 (- area2 ring)), (Z.ltb_spec 0 (area2 ring)); cbn; auto; lia.
Qed.
Lemma ring_ccw_rotate ring : closed ring -> ring_ccw (ring_rotate ring) = ring_ccw ring.
Proof. intros Hc. unfold ring_ccw. now rewrite area2_rotate. Qed.
Lemma ring_ccw_translate t ring : closed ring -> ring_ccw (map (fun v => padd v t) ring) = ring_ccw ring.
Proof. intros Hc. unfold ring_ccw. now rewrite area2_translate. Qed.
Lemma area2_triangle a b c : area2 [a; b; c; a] = det a b c.
Proof. unfold area2, segs, det. cbn. ring. Qed.
