(* C07/FilterCoeff — the error-bound coefficient of the GENERATED orientation filter.
   Ozaki, Buenger, Ogita, Oishi, Rump, "Simple floating-point filters for the two-dimensional orientation problem",
   BIT 56 (2016), the paper the source cites: with u = 2^-53,  phi = 2 floor((-1 + sqrt(4/u + 45)) / 4)  and
   theta = 3u - (phi - 22) u^2,  the test  |det| > theta |detleft + detright|  (all in binary64, no under/overflow)
   certifies the sign of det. What is proved here, on the constant as it stands in the C++ source (Gen/K_filterF.lit_0):
     * the generated function has exactly the shape of that filter with lit_0 as coefficient (filter_shape);
     * lit_0 is a positive binary64 number with theta <= lit_0 < theta + 2^-104 (filter_coeff_ge_theta): it is theta rounded up.
   NOT proved (the analytic part, Ozaki et al. Theorem 3.1): soundness of filter_model for every coefficient >= theta on all
   finite inputs without under/overflow. A smaller literal (e.g. 2u, or 3.33e-18) breaks filter_coeff_ge_theta. *)
From Coq Require Import ZArith Lia Floats.SpecFloat.
From GeosV.Lib Require GenPreludeF.
From GeosV.Gen Require K_filterF.
Local Open Scope Z_scope.

Definition ozaki_phi : Z := 2 * ((Z.sqrt (4 * 2 ^ 53 + 45) - 1) / 4).
(* theta = theta_num / 2^106 *)
Definition theta_num : Z := 3 * 2 ^ 53 - (ozaki_phi - 22).

(* x * 2^k when x is a positive finite binary64 and that product is an integer *)
Definition sf_scaled (x : spec_float) (k : Z) : option Z :=
  match x with
  | S754_finite false m e => if 0 <=? e + k then Some (Zpos m * 2 ^ (e + k)) else None
  | _ => None
  end.

(* the filter of the paper with an arbitrary coefficient, over the binary64 operations of GenPreludeF *)
Definition filter_model (theta pax pay pbx pby pcx pcy : spec_float) : Z :=
  let detleft := GenPreludeF.mul (GenPreludeF.sub pax pcx) (GenPreludeF.sub pby pcy) in
  let detright := GenPreludeF.mul (GenPreludeF.sub pay pcy) (GenPreludeF.sub pbx pcx) in
  let det := GenPreludeF.sub detleft detright in
  let error := GenPreludeF.mul (SFabs (GenPreludeF.add detleft detright)) theta in
  if GenPreludeF.geb (SFabs det) error
  then Z.b2z (GenPreludeF.gtb det (GenPreludeF.ofZ 0)) - Z.b2z (GenPreludeF.ltb det (GenPreludeF.ofZ 0))
  else 2.

Theorem filter_shape : forall pax pay pbx pby pcx pcy,
  K_filterF.c_orientationIndexFilter_6 pax pay pbx pby pcx pcy = filter_model K_filterF.lit_0 pax pay pbx pby pcx pcy.
Proof. reflexivity. Qed.

Lemma ozaki_phi_val : ozaki_phi = 94906264.
Proof. vm_compute. reflexivity. Qed.

Theorem filter_coeff_ge_theta :
  exists n, sf_scaled K_filterF.lit_0 106 = Some n /\ theta_num <= n < theta_num + 4.
Proof. eexists. split; [vm_compute; reflexivity|]. vm_compute. split; [discriminate|reflexivity]. Qed.

(* the coefficient is strictly below 3u: the naive bound 3u + O(u^2) is not what the code relies on *)
Example coeff_below_3u : exists n, sf_scaled K_filterF.lit_0 106 = Some n /\ n < 3 * 2 ^ 53.
Proof. eexists. split; [vm_compute; reflexivity|]. vm_compute. reflexivity. Qed.
