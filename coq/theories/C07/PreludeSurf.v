(* C07/PreludeSurf — meaning of the names in the generated unit K_locatePointInSurface
   (SimplePointInAreaLocator::locatePointInSurface). A Surface is a shell and a list of holes (grid vertex sequences);
   Curve objects handed around by the code are rings. Modelled, not verified here: Polygon::getEnvelopeInternal() is the
   envelope of the shell's vertices, Curve::getEnvelopeInternal() that of the ring's vertices, isEmpty() = no shell vertex;
   PointLocation::locateInRing / RayCrossingCounter::locatePointInRing on a linear ring = KernelDefs.locate_ring
   (tied separately: K_countSegment, K_getLocation and the correspondence). *)
From Coq Require Import ZArith List Bool.
From GeosV.Lib Require Import KernelDefs.
Import ListNotations.
Local Open Scope Z_scope.

Inductive geo := GSurf (shell : list pt) (holes : list (list pt)) | GRing (r : list pt).
Definition geo_pts (g : geo) : list pt := match g with GSurf s _ => s | GRing r => r end.
Definition zneb (a b : Z) := negb (Z.eqb a b).
Definition zrange (lo hi : Z) : list Z := map (fun k => lo + Z.of_nat k) (seq 0 (Z.to_nat (hi - lo))).
Definition m_isEmpty_0 (g : geo) : bool := match geo_pts g with [] => true | _ => false end.
Definition m_getEnvelopeInternal_0 (g : geo) : option env := env_of_pts (geo_pts g).
Definition m_contains_1 (e : option env) (p : pt) : bool := match e with Some e => env_covers_pt e p | None => false end.
Definition m_getExteriorRing_0 (g : geo) : geo := GRing (geo_pts g).
Definition m_getNumInteriorRing_0 (g : geo) : Z := match g with GSurf _ hs => Z.of_nat (length hs) | GRing _ => 0 end.
Definition m_getInteriorRingN_1 (g : geo) (i : Z) : geo :=
  match g with GSurf _ hs => GRing (nth (Z.to_nat i) hs []) | GRing _ => GRing [] end.
Definition c_locateInRing_2 (p : pt) (g : geo) : Z := loc_code (locate_ring p (geo_pts g)).
Definition c_locatePointInRing_2 (p : pt) (g : geo) : Z := loc_code (locate_ring p (geo_pts g)).
