(* C07/SurfTie — tie G for SimplePointInAreaLocator::locatePointInSurface: the generated unit (shell test, then the search
   loop over the holes with its envelope short-cuts and early returns) equals the model locate_polygon_env, hence
   (KernelPoly.locate_polygon_env_eq) shell-minus-holes location for closed rings. *)
From Coq Require Import ZArith List Bool Lia.
From GeosV.Lib Require Import KernelDefs Kernel KernelRing KernelPoly.
From GeosV.C07 Require Import PreludeSurf.
From GeosV.Gen Require K_locatePointInSurface.
Import ListNotations.
Local Open Scope Z_scope.

Definition hole_step (p : pt) (h : list pt) : option Z :=
  if ring_env_covers h p then
    (let l := loc_code (locate_ring p h) in if l =? 1 then Some 1 else if l =? 0 then Some 2 else None)
  else None.

(* the search loop over indices = first hole that decides *)
Lemma search_fold_some {A} (f : Z -> option A) l r : fold_left (fun acc i => match acc with Some _ => acc | None => f i end) l (Some r) = Some r.
Proof. induction l; cbn; auto. Qed.

Lemma hole_step_val p h : hole_step p h =
  if ring_env_covers h p then match locate_ring p h with Boundary => Some 1 | Interior => Some 2 | Exterior => None end else None.
Proof. unfold hole_step. destruct (ring_env_covers h p); [|reflexivity]. destruct (locate_ring p h); reflexivity. Qed.

Lemma search_holes p hs : forall pre,
  fold_left (fun acc i => match acc with Some _ => acc | None => hole_step p (nth (Z.to_nat i) (pre ++ hs) []) end)
            (map (fun k => Z.of_nat (length pre) + Z.of_nat k) (seq 0 (length hs))) None =
  match locate_holes_env p hs with Interior => None | l => Some (loc_code l) end.
Proof.
  induction hs as [|h hs IH]; intros pre; [reflexivity|].
  cbn [length seq map fold_left locate_holes_env].
  replace (Z.to_nat (Z.of_nat (length pre) + Z.of_nat 0)) with (length pre) by lia.
  rewrite app_nth2, Nat.sub_diag by lia. cbn [nth]. rewrite hole_step_val.
  assert (Next : fold_left (fun acc i => match acc with Some _ => acc | None => hole_step p (nth (Z.to_nat i) (pre ++ h :: hs) []) end)
                   (map (fun k => Z.of_nat (length pre) + Z.of_nat k) (seq 1 (length hs))) None =
                 match locate_holes_env p hs with Interior => None | l => Some (loc_code l) end).
  { specialize (IH (pre ++ [h])). rewrite <- app_assoc in IH. cbn [app] in IH. rewrite app_length in IH. cbn [length] in IH.
    rewrite <- seq_shift, map_map. rewrite <- IH. f_equal. apply map_ext. intros k. lia. }
  destruct (ring_env_covers h p) eqn:E; [|exact Next].
  destruct (locate_ring p h) eqn:L; [rewrite search_fold_some; reflexivity|rewrite search_fold_some; reflexivity|exact Next].
Qed.

Theorem gen_locatePointInSurface_eq p shell holes :
  K_locatePointInSurface.g_locatePointInSurface p (GSurf shell holes) = loc_code (locate_polygon_env p shell holes).
Proof.
  unfold K_locatePointInSurface.g_locatePointInSurface, locate_polygon_env, ring_env_covers.
  unfold m_isEmpty_0, m_contains_1, m_getEnvelopeInternal_0, m_getExteriorRing_0, c_locateInRing_2, m_getNumInteriorRing_0, zrange; cbn [geo_pts].
  destruct shell as [|v shell]; [reflexivity|].
  destruct (env_of_pts (v :: shell)) as [e|] eqn:Ee; [|discriminate].
  destruct (env_covers_pt e p); cbn [negb]; [|reflexivity].
  destruct (locate_ring p (v :: shell)) eqn:L; cbn [loc_code zneb Z.eqb negb K_locatePointInSurface.E_Location_INTERIOR]; try reflexivity.
  rewrite Z.sub_0_r, Nat2Z.id.
  pose proof (search_holes p holes []) as S. cbn [app length Z.of_nat Z.add] in S.
  unfold hole_step, ring_env_covers in S. unfold m_getInteriorRingN_1, c_locatePointInRing_2, m_contains_1, m_getEnvelopeInternal_0. cbn [geo_pts].
  unfold K_locatePointInSurface.E_Location_BOUNDARY, K_locatePointInSurface.E_Location_INTERIOR, K_locatePointInSurface.E_Location_EXTERIOR.
  match goal with |- match ?F with _ => _ end = _ => replace F with (match locate_holes_env p holes with Interior => None | l => Some (loc_code l) end) end.
  all: try (destruct (locate_holes_env p holes); reflexivity).
  all: try (rewrite <- S; f_equal).
Qed.

(* what the code says = shell-minus-holes location, for closed rings *)
Corollary gen_locatePointInSurface_spec p shell holes : closed shell -> Forall closed holes ->
  K_locatePointInSurface.g_locatePointInSurface p (GSurf shell holes) = loc_code (locate_polygon p shell holes).
Proof. intros Hs Hh. rewrite gen_locatePointInSurface_eq, (locate_polygon_env_eq p shell holes Hs Hh). reflexivity. Qed.
