(* C07/FloatLink — IEEE-754 meaning of the generated binary64 filter (Gen/K_filterF.v, translated from
   CGAlgorithmsDD::orientationIndexFilter) via Flocq.
   The stdlib SpecFloat operations SFadd/SFsub/SFmul/SFltb 53 1024 used by Lib/GenPreludeF are linked to Flocq's
   Bplus/Bminus/Bmult/Bltb (mode_NE) on binary_float 53 1024, whose *_correct theorems give them their real-number
   meaning.  Reusable part: "integers of magnitude <= 2^53 are computed exactly" (relation [repr] and its lemmas).
   Main results: filter_sound_grid, filter_orient_grid (whenever the filter answers on integer inputs of magnitude
   <= 2^25 it answers the exact orientation), filter_antisym / filter_antisym_b64 (antisymmetry for all binary64 inputs).
   Only the three Qed lemmas binary_round_aux_equiv / binary_round_equiv / binary_normalize_equiv are reused from
   Flocq.IEEE754.PrimFloat; nothing assumed about primitive floats or Uint63 is involved (see the Print Assumptions output). *)
From Coq Require Import ZArith Reals Lia Lra Bool Floats.SpecFloat.
From Flocq Require Import Core.Core IEEE754.BinarySingleNaN IEEE754.PrimFloat.
From GeosV.Lib Require GenPreludeF KernelDefs.
From GeosV.Gen Require K_filterF.
Local Open Scope Z_scope.

#[local] Notation b64 := (binary_float 53 1024).
#[local] Existing Instance Hprec.
#[local] Existing Instance Hmax.
Lemma SFmul_B (x y : b64) : B2SF (Bmult mode_NE x y) = SFmul 53 1024 (B2SF x) (B2SF y).
Proof.
  destruct x as [sx|sx| |sx mx ex Bx]; destruct y as [sy|sy| |sy my ey By]; try reflexivity.
  simpl. rewrite B2SF_SF2B. symmetry. apply binary_round_aux_equiv.
Qed.
Lemma SFadd_B (x y : b64) : B2SF (Bplus mode_NE x y) = SFadd 53 1024 (B2SF x) (B2SF y).
Proof.
  destruct x as [sx|sx| |sx mx ex Bx]; destruct y as [sy|sy| |sy my ey By];
    try reflexivity; try (simpl; now case Bool.eqb).
  symmetry. apply binary_normalize_equiv.
Qed.
Lemma SFsub_B (x y : b64) : B2SF (Bminus mode_NE x y) = SFsub 53 1024 (B2SF x) (B2SF y).
Proof.
  destruct x as [sx|sx| |sx mx ex Bx]; destruct y as [sy|sy| |sy my ey By];
    try reflexivity; try (simpl; now case Bool.eqb).
  symmetry. simpl. unfold Zminus. rewrite <- cond_Zopp_negb. apply binary_normalize_equiv.
Qed.

#[local] Notation fexp64 := (FLT_exp (-1074) 53).

Lemma format_IZR (z : Z) : Z.abs z <= 2 ^ 53 -> generic_format radix2 fexp64 (IZR z).
Proof.
  intros H. apply generic_format_FLT.
  destruct (Z.eq_dec (Z.abs z) (2 ^ 53)) as [E|E].
  - destruct (Z.abs_eq_or_opp z) as [A|A]; rewrite A in E.
    + apply FLT_spec with (f := Float radix2 1 53); [ | simpl; lia | simpl; lia].
      rewrite E. unfold F2R. simpl Fnum. simpl Fexp.
      rewrite <- IZR_Zpower by lia. rewrite <- mult_IZR. reflexivity.
    + apply FLT_spec with (f := Float radix2 (-1) 53); [ | simpl; lia | simpl; lia].
      replace z with (- 2 ^ 53) by lia. unfold F2R. simpl Fnum. simpl Fexp.
      rewrite <- IZR_Zpower by lia. rewrite <- mult_IZR. reflexivity.
  - apply FLT_spec with (f := Float radix2 z 0); [ | simpl; lia | simpl; lia].
    unfold F2R. simpl. lra.
Qed.

Lemma round_IZR (z : Z) : Z.abs z <= 2 ^ 53 ->
  round radix2 fexp64 (round_mode mode_NE) (IZR z) = IZR z.
Proof. intros H. apply round_generic. apply valid_rnd_round_mode. now apply format_IZR. Qed.

Lemma no_overflow_IZR (z : Z) : Z.abs z <= 2 ^ 53 ->
  Rlt_bool (Rabs (round radix2 fexp64 (round_mode mode_NE) (IZR z))) (bpow radix2 1024) = true.
Proof.
  intros H. rewrite round_IZR by exact H. apply Rlt_bool_true.
  rewrite <- abs_IZR. apply Rle_lt_trans with (IZR (2 ^ 53)).
  - now apply IZR_le.
  - change (2 ^ 53) with (Zpower radix2 53). rewrite IZR_Zpower by lia. apply bpow_lt. lia.
Qed.

Definition repr (x : spec_float) (z : Z) : Prop :=
  exists b : b64, B2SF b = x /\ is_finite b = true /\ B2R b = IZR z.

Lemma repr_ofZ (z : Z) : Z.abs z <= 2 ^ 53 -> repr (GenPreludeF.ofZ z) z.
Proof.
  intros H. unfold GenPreludeF.ofZ.
  exists (binary_normalize 53 1024 Hprec Hmax mode_NE z 0 false).
  split. { symmetry. apply binary_normalize_equiv. }
  generalize (binary_normalize_correct 53 1024 Hprec Hmax mode_NE z 0 false).
  cbv zeta. replace (F2R (Float radix2 z 0)) with (IZR z) by (unfold F2R; simpl; lra).
  change (SpecFloat.fexp 53 1024) with fexp64.
  rewrite no_overflow_IZR by exact H. rewrite round_IZR by exact H.
  intros (A & B & _). now split.
Qed.

Lemma repr_add x y a b : repr x a -> repr y b -> Z.abs (a + b) <= 2 ^ 53 ->
  repr (GenPreludeF.add x y) (a + b).
Proof.
  intros (bx & <- & Fx & Rx) (by_ & <- & Fy & Ry) H.
  exists (Bplus mode_NE bx by_). split. { apply SFadd_B. }
  generalize (Bplus_correct 53 1024 Hprec Hmax mode_NE bx by_ Fx Fy).
  rewrite Rx, Ry, <- plus_IZR. change (SpecFloat.fexp 53 1024) with fexp64.
  rewrite no_overflow_IZR by exact H. rewrite round_IZR by exact H.
  intros (A & B & _). now split.
Qed.

Lemma repr_sub x y a b : repr x a -> repr y b -> Z.abs (a - b) <= 2 ^ 53 ->
  repr (GenPreludeF.sub x y) (a - b).
Proof.
  intros (bx & <- & Fx & Rx) (by_ & <- & Fy & Ry) H.
  exists (Bminus mode_NE bx by_). split. { apply SFsub_B. }
  generalize (Bminus_correct 53 1024 Hprec Hmax mode_NE bx by_ Fx Fy).
  rewrite Rx, Ry, <- minus_IZR. change (SpecFloat.fexp 53 1024) with fexp64.
  rewrite no_overflow_IZR by exact H. rewrite round_IZR by exact H.
  intros (A & B & _). now split.
Qed.

Lemma repr_mul x y a b : repr x a -> repr y b -> Z.abs (a * b) <= 2 ^ 53 ->
  repr (GenPreludeF.mul x y) (a * b).
Proof.
  intros (bx & <- & Fx & Rx) (by_ & <- & Fy & Ry) H.
  exists (Bmult mode_NE bx by_). split. { apply SFmul_B. }
  generalize (Bmult_correct 53 1024 Hprec Hmax mode_NE bx by_).
  rewrite Rx, Ry, <- mult_IZR. change (SpecFloat.fexp 53 1024) with fexp64.
  rewrite no_overflow_IZR by exact H. rewrite round_IZR by exact H.
  rewrite Fx, Fy. intros (A & B & _). now split.
Qed.

Lemma repr_ltb x y a b : repr x a -> repr y b -> SFltb x y = (a <? b).
Proof.
  intros (bx & <- & Fx & Rx) (by_ & <- & Fy & Ry).
  change (SFltb (B2SF bx) (B2SF by_)) with (Bltb bx by_).
  rewrite (Bltb_correct 53 1024 bx by_ Fx Fy), Rx, Ry.
  case Rlt_bool_spec; intros H; symmetry.
  - apply Z.ltb_lt. now apply lt_IZR.
  - apply Z.ltb_ge. now apply le_IZR.
Qed.

Lemma repr_sign x d : repr x d -> Z.abs 0 <= 2 ^ 53 ->
  Z.b2z (GenPreludeF.gtb x (GenPreludeF.ofZ 0)) - Z.b2z (GenPreludeF.ltb x (GenPreludeF.ofZ 0)) = Z.sgn d.
Proof.
  intros Hx H0. pose proof (repr_ofZ 0 H0) as Hz.
  unfold GenPreludeF.gtb, GenPreludeF.ltb.
  rewrite (repr_ltb _ _ _ _ Hz Hx), (repr_ltb _ _ _ _ Hx Hz).
  destruct (Z.ltb_spec 0 d); destruct (Z.ltb_spec d 0); simpl; lia.
Qed.

Lemma grid_bounds ax ay bx by_ cx cy :
  Z.abs ax <= 2^25 -> Z.abs ay <= 2^25 -> Z.abs bx <= 2^25 -> Z.abs by_ <= 2^25 ->
  Z.abs cx <= 2^25 -> Z.abs cy <= 2^25 ->
  Z.abs (ax - cx) <= 2^26 /\ Z.abs (by_ - cy) <= 2^26 /\ Z.abs (ay - cy) <= 2^26 /\ Z.abs (bx - cx) <= 2^26 /\
  Z.abs ((ax - cx) * (by_ - cy)) <= 2^52 /\ Z.abs ((ay - cy) * (bx - cx)) <= 2^52 /\
  Z.abs ((ax - cx) * (by_ - cy) - (ay - cy) * (bx - cx)) <= 2^53 /\
  Z.abs ((ax - cx) * (by_ - cy) + (ay - cy) * (bx - cx)) <= 2^53.
Proof.
  intros.
  assert (P: forall u v, Z.abs u <= 2^26 -> Z.abs v <= 2^26 -> Z.abs (u * v) <= 2^52).
  { intros u v Hu Hv. rewrite Z.abs_mul. change (2^52) with (2^26 * 2^26).
    apply Z.mul_le_mono_nonneg; lia. }
  assert (Z.abs (ax - cx) <= 2^26) by lia. assert (Z.abs (by_ - cy) <= 2^26) by lia.
  assert (Z.abs (ay - cy) <= 2^26) by lia. assert (Z.abs (bx - cx) <= 2^26) by lia.
  pose proof (P _ _ H5 H6) as Hp. pose proof (P _ _ H7 H8) as Hq.
  repeat split; try assumption;
    revert Hp Hq; generalize ((ax - cx) * (by_ - cy)) ((ay - cy) * (bx - cx)); clear; intros p q; lia.
Qed.

Theorem filter_sound_grid : forall ax ay bx by_ cx cy : Z,
  Z.abs ax <= 2^25 -> Z.abs ay <= 2^25 -> Z.abs bx <= 2^25 -> Z.abs by_ <= 2^25 ->
  Z.abs cx <= 2^25 -> Z.abs cy <= 2^25 ->
  let r := K_filterF.c_orientationIndexFilter_6
             (GenPreludeF.ofZ ax) (GenPreludeF.ofZ ay) (GenPreludeF.ofZ bx)
             (GenPreludeF.ofZ by_) (GenPreludeF.ofZ cx) (GenPreludeF.ofZ cy) in
  r = 2 \/ r = Z.sgn ((ax - cx) * (by_ - cy) - (ay - cy) * (bx - cx)).
Proof.
  intros ax ay bx by_ cx cy Hax Hay Hbx Hby Hcx Hcy.
  destruct (grid_bounds _ _ _ _ _ _ Hax Hay Hbx Hby Hcx Hcy)
    as (D1 & D2 & D3 & D4 & P1 & P2 & S1 & _).
  assert (W: forall z, Z.abs z <= 2 ^ 25 -> Z.abs z <= 2 ^ 53) by (intros; lia).
  assert (W26: forall z, Z.abs z <= 2 ^ 26 -> Z.abs z <= 2 ^ 53) by (intros; lia).
  assert (W52: forall z, Z.abs z <= 2 ^ 52 -> Z.abs z <= 2 ^ 53) by (intros; lia).
  pose proof (repr_ofZ _ (W _ Hax)) as Rax. pose proof (repr_ofZ _ (W _ Hay)) as Ray.
  pose proof (repr_ofZ _ (W _ Hbx)) as Rbx. pose proof (repr_ofZ _ (W _ Hby)) as Rby.
  pose proof (repr_ofZ _ (W _ Hcx)) as Rcx. pose proof (repr_ofZ _ (W _ Hcy)) as Rcy.
  pose proof (repr_sub _ _ _ _ Rax Rcx (W26 _ D1)) as R1.
  pose proof (repr_sub _ _ _ _ Rby Rcy (W26 _ D2)) as R2.
  pose proof (repr_sub _ _ _ _ Ray Rcy (W26 _ D3)) as R3.
  pose proof (repr_sub _ _ _ _ Rbx Rcx (W26 _ D4)) as R4.
  pose proof (repr_mul _ _ _ _ R1 R2 (W52 _ P1)) as RL.
  pose proof (repr_mul _ _ _ _ R3 R4 (W52 _ P2)) as RR.
  pose proof (repr_sub _ _ _ _ RL RR S1) as RD.
  cbv zeta. unfold K_filterF.c_orientationIndexFilter_6. cbv zeta.
  destruct (GenPreludeF.geb _ _).
  - right. apply repr_sign. exact RD. lia.
  - left. reflexivity.
Qed.
Print Assumptions filter_sound_grid.

Theorem filter_orient_grid : forall ax ay bx by_ cx cy : Z,
  Z.abs ax <= 2^25 -> Z.abs ay <= 2^25 -> Z.abs bx <= 2^25 -> Z.abs by_ <= 2^25 ->
  Z.abs cx <= 2^25 -> Z.abs cy <= 2^25 ->
  let r := K_filterF.c_orientationIndexFilter_6
             (GenPreludeF.ofZ ax) (GenPreludeF.ofZ ay) (GenPreludeF.ofZ bx)
             (GenPreludeF.ofZ by_) (GenPreludeF.ofZ cx) (GenPreludeF.ofZ cy) in
  r <> 2 -> r = KernelDefs.orient (ax, ay) (bx, by_) (cx, cy).
Proof.
  intros ax ay bx by_ cx cy Hax Hay Hbx Hby Hcx Hcy r Hr.
  destruct (filter_sound_grid _ _ _ _ _ _ Hax Hay Hbx Hby Hcx Hcy) as [E|E]; fold r in E.
  - contradiction.
  - rewrite E. unfold KernelDefs.orient, KernelDefs.det. simpl fst. simpl snd. f_equal. ring.
Qed.
Print Assumptions filter_orient_grid.

(* Non-vacuity: the filter does answer (1, -1, 0) on grid inputs, and does answer FAILURE (2) on a near-collinear
   triple inside the grid: a - c = (n+1, n), b - c = (n, n-1) with n = 2^26 - 2, exact det = -1. *)
Definition filt (ax ay bx by_ cx cy : Z) : Z :=
  K_filterF.c_orientationIndexFilter_6
    (GenPreludeF.ofZ ax) (GenPreludeF.ofZ ay) (GenPreludeF.ofZ bx)
    (GenPreludeF.ofZ by_) (GenPreludeF.ofZ cx) (GenPreludeF.ofZ cy).
Example filt_ccw : filt 0 0 1 0 0 1 = 1. Proof. vm_compute. reflexivity. Qed.
Example filt_cw : filt 0 0 0 1 1 0 = -1. Proof. vm_compute. reflexivity. Qed.
Example filt_degenerate : filt 5 7 5 7 5 7 = 0. Proof. vm_compute. reflexivity. Qed.
(* a properly collinear triple has det = 0 < error, so the filter defers to the exact DD computation *)
Example filt_col : filt 0 0 1 1 2 2 = 2. Proof. vm_compute. reflexivity. Qed.
Example filt_near_small : filt 0 0 (2^25) (2^25 - 1) (2^25 - 1) (2^25 - 2) = -1.
Proof. vm_compute. reflexivity. Qed.
Example filt_failure :
  filt (2^25 - 1) (2^25 - 2) (2^25 - 2) (2^25 - 3) (- 2^25) (- 2^25) = 2.
Proof. vm_compute. reflexivity. Qed.
Example filt_failure_exact :
  Z.sgn ((2^25 - 1 - - 2^25) * (2^25 - 3 - - 2^25) - (2^25 - 2 - - 2^25) * (2^25 - 2 - - 2^25)) = -1.
Proof. vm_compute. reflexivity. Qed.
(* signed zero: the product below is -0, which is not [ofZ 0] = +0 but still represents 0 *)
Example neg_zero : GenPreludeF.mul (GenPreludeF.ofZ 0) (GenPreludeF.ofZ (-3)) = S754_zero true.
Proof. vm_compute. reflexivity. Qed.

(* ------------------------------------------------------------------------------------------------------------
   Antisymmetry of the filter for ALL binary64 inputs (finite or not; no validity hypothesis is even needed):
   swapping the first two points exchanges detleft and detright (commutativity of SFmul), leaves error unchanged
   (commutativity of SFadd), and negates det up to the sign of a zero (round-to-nearest-even is sign-symmetric),
   which SFabs and the comparisons with 0 ignore.  These lemmas are purely syntactic facts about SpecFloat. *)

Section Sym.
Variables prec emax : Z.

Lemma SFmul_comm x y : SFmul prec emax x y = SFmul prec emax y x.
Proof.
  destruct x as [sx|sx| |sx mx ex]; destruct y as [sy|sy| |sy my ey]; simpl;
    try reflexivity; try (now rewrite xorb_comm).
  now rewrite xorb_comm, Pos.mul_comm, Z.add_comm.
Qed.

Lemma SFadd_comm x y : SFadd prec emax x y = SFadd prec emax y x.
Proof.
  destruct x as [sx|sx| |sx mx ex]; destruct y as [sy|sy| |sy my ey]; simpl;
    try reflexivity; try (now destruct sx, sy).
  now rewrite Z.add_comm, Z.min_comm.
Qed.

Lemma binary_round_aux_opp s m e l :
  SpecFloat.binary_round_aux prec emax (negb s) m e l = SFopp (SpecFloat.binary_round_aux prec emax s m e l).
Proof.
  unfold SpecFloat.binary_round_aux.
  destruct (shr_fexp prec emax m e l) as [mrs' e'].
  destruct (shr_fexp prec emax _ e' loc_Exact) as [mrs'' e''].
  destruct (shr_m mrs''); try reflexivity.
  now destruct (Zle_bool e'' (emax - prec)).
Qed.

Lemma binary_round_opp s m e :
  SpecFloat.binary_round prec emax (negb s) m e = SFopp (SpecFloat.binary_round prec emax s m e).
Proof.
  unfold SpecFloat.binary_round. destruct (shl_align _ _ _) as [mz ez]. apply binary_round_aux_opp.
Qed.

Definition sf_is_zero (x : spec_float) : bool := match x with S754_zero _ => true | _ => false end.

(* u is the negation of v, up to the sign of a zero *)
Definition negz (u v : spec_float) : Prop := u = SFopp v \/ (sf_is_zero u = true /\ sf_is_zero v = true).

Lemma binary_normalize_negz m e :
  negz (SpecFloat.binary_normalize prec emax (- m) e false) (SpecFloat.binary_normalize prec emax m e false).
Proof.
  destruct m as [|p|p]; simpl.
  - right. now split.
  - left. apply (binary_round_opp false).
  - left. change false with (negb true) at 1. apply binary_round_opp.
Qed.

Lemma SFsub_negz x y : negz (SFsub prec emax y x) (SFsub prec emax x y).
Proof.
  destruct x as [sx|sx| |sx mx ex]; destruct y as [sy|sy| |sy my ey]; simpl;
    try (left; reflexivity); try (now destruct sx, sy; (left; reflexivity) || (right; split; reflexivity)).
  rewrite Z.min_comm.
    match goal with |- negz (SpecFloat.binary_normalize _ _ ?a _ _) (SpecFloat.binary_normalize _ _ ?b _ _) =>
      replace a with (- b) by lia end.
    apply binary_normalize_negz.
Qed.
End Sym.

Lemma negz_abs u v : negz u v -> SFabs u = SFabs v.
Proof. intros [-> | [Hu Hv]]. now destruct v. destruct u, v; try discriminate; reflexivity. Qed.

Lemma negz_gtb u v s : negz u v -> SFltb (S754_zero s) u = SFltb v (S754_zero s).
Proof.
  intros [-> | [Hu Hv]].
  - destruct v as [sv|[|]| |[|] mv ev]; reflexivity.
  - destruct u, v; try discriminate; reflexivity.
Qed.

Lemma negz_ltb u v s : negz u v -> SFltb u (S754_zero s) = SFltb (S754_zero s) v.
Proof.
  intros [-> | [Hu Hv]].
  - destruct v as [sv|[|]| |[|] mv ev]; reflexivity.
  - destruct u, v; try discriminate; reflexivity.
Qed.

Theorem filter_antisym : forall pax pay pbx pby pcx pcy : spec_float,
  K_filterF.c_orientationIndexFilter_6 pbx pby pax pay pcx pcy =
  (let r := K_filterF.c_orientationIndexFilter_6 pax pay pbx pby pcx pcy in if r =? 2 then 2 else - r).
Proof.
  intros. unfold K_filterF.c_orientationIndexFilter_6. cbv zeta.
  unfold GenPreludeF.mul, GenPreludeF.add, GenPreludeF.sub, GenPreludeF.c_abs_1, GenPreludeF.geb,
    GenPreludeF.gtb, GenPreludeF.ltb.
  change (GenPreludeF.ofZ 0) with (S754_zero false).
  set (A := SFsub GenPreludeF.prec GenPreludeF.emax pax pcx).
  set (B := SFsub GenPreludeF.prec GenPreludeF.emax pby pcy).
  set (C := SFsub GenPreludeF.prec GenPreludeF.emax pay pcy).
  set (D := SFsub GenPreludeF.prec GenPreludeF.emax pbx pcx).
  rewrite (SFmul_comm _ _ D C), (SFmul_comm _ _ B A).
  set (L := SFmul _ _ A B). set (R := SFmul _ _ C D).
  rewrite (SFadd_comm _ _ R L).
  pose proof (SFsub_negz GenPreludeF.prec GenPreludeF.emax L R) as N.
  rewrite (negz_abs _ _ N), (negz_gtb _ _ false N), (negz_ltb _ _ false N).
  destruct (SFleb _ _); [ | reflexivity].
  destruct (SFltb _ _), (SFltb _ _); reflexivity.
Qed.
Print Assumptions filter_antisym.

Theorem filter_antisym_b64 : forall pax pay pbx pby pcx pcy : spec_float,
  valid_binary 53 1024 pax = true -> valid_binary 53 1024 pay = true ->
  valid_binary 53 1024 pbx = true -> valid_binary 53 1024 pby = true ->
  valid_binary 53 1024 pcx = true -> valid_binary 53 1024 pcy = true ->
  K_filterF.c_orientationIndexFilter_6 pbx pby pax pay pcx pcy =
  (let r := K_filterF.c_orientationIndexFilter_6 pax pay pbx pby pcx pcy in if r =? 2 then 2 else - r).
Proof. intros. apply filter_antisym. Qed.

(* the zero-sign subtlety is real: x - y and y - x are both +0 when x = y, not opposite *)
Example sub_zero_sign :
  GenPreludeF.sub (GenPreludeF.ofZ 3) (GenPreludeF.ofZ 3) = S754_zero false /\
  SFopp (GenPreludeF.sub (GenPreludeF.ofZ 3) (GenPreludeF.ofZ 3)) = S754_zero true.
Proof. split; vm_compute; reflexivity. Qed.
Example filt_antisym_run : filt 0 0 1 0 0 1 = 1 /\ filt 1 0 0 0 0 1 = -1.
Proof. split; vm_compute; reflexivity. Qed.
