(* C07/RunDefs — entry points of the extracted models (Extract_C07.v). Definitions only.
   Grid side: Lib.KernelDefs + CCWDefs.  binary64 side: the GENERATED units (Gen/K_*.v, Lib.GenPreludeF) applied to bit patterns. *)
From Coq Require Import ZArith List Bool Floats.SpecFloat.
From GeosV.Lib Require Import KernelDefs.
From GeosV.C07 Require Import CCWDefs.
From GeosV.Lib Require GenPreludeF.
From GeosV.Gen Require K_filterF K_orientationIndexF K_signOfDet2x2 K_intersectionF K_ddAdd K_ddMul K_ddSub K_ddDiv.
Import ListNotations.
Local Open Scope Z_scope.



(* orientation index / filter / DD determinant sign / DD line intersection on 64-bit patterns *)
Definition orient_bits (a b c d e f : Z) : Z :=
  K_orientationIndexF.g_orientationIndexF (GenPreludeF.of_bits a) (GenPreludeF.of_bits b) (GenPreludeF.of_bits c) (GenPreludeF.of_bits d) (GenPreludeF.of_bits e) (GenPreludeF.of_bits f).
Definition filter_bits (a b c d e f : Z) : Z :=
  K_filterF.c_orientationIndexFilter_6 (GenPreludeF.of_bits a) (GenPreludeF.of_bits b) (GenPreludeF.of_bits c) (GenPreludeF.of_bits d) (GenPreludeF.of_bits e) (GenPreludeF.of_bits f).
Definition signdet_bits (a b c d : Z) : Z :=
  K_signOfDet2x2.g_signOfDet2x2 (GenPreludeF.mk_DD_1 (GenPreludeF.of_bits a)) (GenPreludeF.mk_DD_1 (GenPreludeF.of_bits b)) (GenPreludeF.mk_DD_1 (GenPreludeF.of_bits c)) (GenPreludeF.mk_DD_1 (GenPreludeF.of_bits d)).
Definition intersection_bits (p1x p1y p2x p2y q1x q1y q2x q2y : Z) : Z * Z :=
  let r := K_intersectionF.g_intersectionF (GenPreludeF.mk_fpt (GenPreludeF.of_bits p1x) (GenPreludeF.of_bits p1y)) (GenPreludeF.mk_fpt (GenPreludeF.of_bits p2x) (GenPreludeF.of_bits p2y))
                                           (GenPreludeF.mk_fpt (GenPreludeF.of_bits q1x) (GenPreludeF.of_bits q1y)) (GenPreludeF.mk_fpt (GenPreludeF.of_bits q2x) (GenPreludeF.of_bits q2y)) in
  (GenPreludeF.to_bits (GenPreludeF.f_x r), GenPreludeF.to_bits (GenPreludeF.f_y r)).
(* DD operations on (hi, lo) bit patterns: op = 0 add, 1 sub, 2 mul, 3 div *)
Definition dd_bits (op ahi alo bhi blo : Z) : Z * Z :=
  let a := GenPreludeF.mk_DD_2 (GenPreludeF.of_bits ahi) (GenPreludeF.of_bits alo) in let b := GenPreludeF.mk_DD_2 (GenPreludeF.of_bits bhi) (GenPreludeF.of_bits blo) in
  let r := if op =? 0 then K_ddAdd.c_opadd_2 a b else if op =? 1 then K_ddSub.c_opsub_2 a b
           else if op =? 2 then K_ddMul.c_opmul_2 a b else K_ddDiv.c_opdiv_2 a b in
  (GenPreludeF.to_bits (GenPreludeF.f_hi r), GenPreludeF.to_bits (GenPreludeF.f_lo r)).

(* grid side *)
Definition run_orient (a b c : pt) : Z := orient a b c.
Definition run_locate_ring (p : pt) (ring : list pt) : loc := locate_ring p ring.
Definition run_locate_spec (p : pt) (ring : list pt) : loc := locate_spec p (segs ring).
(* polygon: (shell-minus-holes, same with the code's envelope short-cuts, even-odd over all segments as the indexed locator) *)
Definition run_locate_polygon (p : pt) (shell : list pt) (holes : list (list pt)) : loc * loc * loc :=
  (locate_polygon p shell holes, locate_polygon_env p shell holes, locate_segs p (polygon_segs shell holes)).
Definition run_seg_class (p1 p2 q1 q2 : pt) : seg_res := seg_class p1 p2 q1 q2.
Definition run_is_ccw (ring : list pt) : bool * Z := (is_ccw ring, area2 ring).
Definition run_env (p1 p2 q1 q2 : pt) : bool * bool := (env_seg p1 p2 q1 q2, env_pt p1 p2 q1).
