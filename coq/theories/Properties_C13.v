(* C13 — property theorems only. Each is closed by `exact <lemma>` and followed by Print Assumptions. *)
From Coq Require Import Bool List String ZArith.
From GeosV.C13 Require Import RaceDefs RaceProofs CellDefs CellProofs InventoryProofs.
From GeosV.Gen Require Import C13_Inventory.
Import ListNotations.

(* if every shared cell touched after start-up is atomic, lock-protected, thread-local or read-only, and the accesses respect that
   classification, no trace -- of any number of threads, in any interleaving -- contains a data race *)
Theorem C13_race_free_if_inventory_ok : forall (cls : nat -> cell_class) (tl_owner : nat -> nat) (tr : list access),
  (forall a, In a tr -> class_ok (cls (a_cell a)) = true) ->
  (forall a, In a tr -> conforms cls tl_owner a = true) ->
  ~ race tr.
Proof. exact race_free_if_inventory_ok. Qed.
Print Assumptions C13_race_free_if_inventory_ok.

(* conversely a cell written by a plain access races as soon as another thread touches it *)
Theorem C13_plain_written_cell_races : forall c t1 t2 w, t1 <> t2 -> race [mkAcc t1 c true false None; mkAcc t2 c w false None].
Proof. exact plain_written_cell_races. Qed.
Print Assumptions C13_plain_written_cell_races.

(* non-interference: if no call's private result depends on the shared state, then for EVERY schedule every thread is -- private state,
   remaining program, transcript -- exactly where its sequential execution is after the same number of its own calls *)
Theorem C13_noninterference : forall (P Sh Ob : Type) (s_ref : Sh) (init : list (P * thread P Sh Ob)) (sched : list nat) i p t,
  Forall (fun pt => Forall (@oblivious P Sh Ob) (snd pt)) init ->
  nth_error init i = Some (p, t) ->
  nth_error (fst (run P Sh Ob sched (start P Sh Ob init) s_ref)) i =
  Some (priv_of P Sh Ob (alone P Sh Ob (count_occ_nat i sched) p t s_ref [])).
Proof. exact noninterference. Qed.
Print Assumptions C13_noninterference.

Theorem C13_transcripts_schedule_independent : forall (P Sh Ob : Type) (s_ref : Sh) init sched1 sched2 i p t,
  Forall (fun pt => Forall (@oblivious P Sh Ob) (snd pt)) init ->
  nth_error init i = Some (p, t) -> count_occ_nat i sched1 = count_occ_nat i sched2 ->
  nth_error (fst (run P Sh Ob sched1 (start P Sh Ob init) s_ref)) i = nth_error (fst (run P Sh Ob sched2 (start P Sh Ob init) s_ref)) i.
Proof. exact transcripts_schedule_independent. Qed.
Print Assumptions C13_transcripts_schedule_independent.

(* the GENERATED inventory of writable objects with static storage duration is accepted: every cell is a compiler guard, a run-time
   object, atomic, thread-local, lock-protected, stateless, or has no writer reachable from a reentrant entry point --
   except the cells listed as known findings (exempt_keys, generated from known_findings.json) *)
Theorem C13_inventory_ok : inventory_ok exempt_keys inventory = true.
Proof. exact inventory_accepted. Qed.
Print Assumptions C13_inventory_ok.

Theorem C13_race_free_generated : forall (dflt : cell_rec) (tl_owner : nat -> nat) (tr : list access),
  (forall a, In a tr -> a_cell a < List.length inventory /\ exempt exempt_keys (nth (a_cell a) inventory dflt) = false) ->
  (forall a, In a tr -> conforms (fun n => class_of (nth n inventory dflt)) tl_owner a = true) ->
  ~ race tr.
Proof. exact race_free_generated. Qed.
Print Assumptions C13_race_free_generated.

Theorem C13_inventory_wellformed :
  (20 <=? List.length inventory)%nat = true /\
  existsb (fun c => String.eqb (c_sym c) "(anonymous namespace)::requested" && negb (String.eqb (c_decl c) "")) inventory = true /\
  existsb (fun c => String.eqb (c_sym c) "geos::geom::GeometryFactory::getDefaultInstance()::defInstance._refCount") inventory = true /\
  existsb (fun c => match c_kind c with KGuard => true | _ => false end) inventory = true.
Proof. exact inventory_wellformed. Qed.
Print Assumptions C13_inventory_wellformed.

(* a rejected cell is one we could not identify, or one written by plain accesses from reentrant calls (finding F4) *)
Theorem C13_rejected_cell : forall c, cell_ok c = false ->
  c_kind c = KObject /\ (c_decl c = ""%string \/ class_of c = CPlainWritten).
Proof. exact cell_not_ok_plain_written_or_unknown. Qed.
Print Assumptions C13_rejected_cell.

(* non-vacuity *)
Example ex_refcount_race : (* two threads bump a plain reference count: GeometryFactory::_refCount *)
  has_race [mkAcc 1 7 true false None; mkAcc 2 7 true false None] = true.
Proof. vm_compute. reflexivity. Qed.
Example ex_atomic_refcount_no_race : has_race [mkAcc 1 7 true true None; mkAcc 2 7 true true None; mkAcc 1 7 false true None] = false.
Proof. vm_compute. reflexivity. Qed.
Example ex_locked_no_race : has_race [mkAcc 1 3 true false (Some 5); mkAcc 2 3 true false (Some 5)] = false.
Proof. vm_compute. reflexivity. Qed.
Example ex_private_counters_noninterfering : (* two threads with oblivious calls: transcripts do not depend on the schedule *)
  let c : call nat nat nat := fun p s => (S p, S s, p) in
  let init := [(10, [c; c]); (20, [c])] in
  map (fun x => snd x) (fst (run nat nat nat [0; 1; 0] (start nat nat nat init) 0)) =
  map (fun x => snd x) (fst (run nat nat nat [1; 0; 0] (start nat nat nat init) 0)).
Proof. vm_compute. reflexivity. Qed.
Example ex_observed_refcount_interferes :
  let init := [(tt, [leaky]); (tt, [leaky])] in
  nth_error (fst (run unit nat nat [0; 1] (start unit nat nat init) 0)) 1 <>
  nth_error (fst (run unit nat nat [1; 0] (start unit nat nat init) 0)) 1.
Proof. exact interference_witness. Qed.
