(* C17 — property theorems only. Each is closed by `exact <lemma>` and followed by Print Assumptions. *)
From Coq Require Import ZArith List Bool.
From GeosV.Lib Require Import GeomDefs LocateDefs ValidDefs.
From GeosV.C17 Require Import FixDefs FixProofs.
Import ListNotations.
Local Open Scope Z_scope.

(* M: the collapse table of the structure method (GeometryFixer) against keepCollapsed *)
Theorem C17_collapse_dim : forall keep k n area rv, dim_o (collapse_table keep k n area rv) <= dim_e k.
Proof. exact collapse_dim. Qed.
Print Assumptions C17_collapse_dim.
Theorem C17_collapse_keep : forall k n area rv, (1 <= n)%nat -> collapsed k n area = true ->
  forall keep, collapse_table keep k n area rv <> OEmpty <-> keep = true.
Proof. exact collapse_keep. Qed.
Print Assumptions C17_collapse_keep.
Theorem C17_collapse_lower : forall k n area rv, (1 <= n)%nat -> collapsed k n area = true -> k <> ERing ->
  dim_o (collapse_table true k n area rv) < dim_e k.
Proof. exact collapse_lower. Qed.
Print Assumptions C17_collapse_lower.
Theorem C17_not_collapsed_stable : forall k n area rv, collapsed k n area = false -> (1 <= n)%nat ->
  collapse_table true k n area rv = collapse_table false k n area rv /\ dim_o (collapse_table false k n area rv) = dim_e k.
Proof. exact not_collapsed_stable. Qed.
Print Assumptions C17_not_collapsed_stable.

(* R: the checker establishes FixSpec; its point-set clauses on the witness family only *)
Theorem C17_fix_check_sound_partial : forall tn td m keep valid_in g r,
  fix_check tn td m keep valid_in g r = true -> FixSpec tn td m keep valid_in g r.
Proof. exact fix_check_sound_partial. Qed.
Print Assumptions C17_fix_check_sound_partial.
Theorem C17_env_within_sound : forall r g, env_within r g = true -> forall p, In p (coords_of r) ->
  exists a b c d, In a (coords_of g) /\ In b (coords_of g) /\ In c (coords_of g) /\ In d (coords_of g) /\
                  fst a <= fst p <= fst b /\ snd c <= snd p <= snd d.
Proof. exact env_within_sound. Qed.
Print Assumptions C17_env_within_sound.
Theorem C17_keep_clause : forall keep g r, (forall gs, g <> GColl gs) -> c_keep keep g r = true ->
  (keep = true -> forall v, In v (collapsed_vertices g) -> loc r v <> Exterior) /\
  (keep = false -> has_lower_dim (top_dim g) r = false).
Proof. exact c_keep_spec. Qed.
Print Assumptions C17_keep_clause.

(* inherited from Lib/Valid (C05): the validity clause moves with the geometry *)
Theorem C17_valid_clause_translate : forall d r, c_valid (map_geom (translate d) r) = c_valid r.
Proof. exact valid_clause_translate. Qed.
Print Assumptions C17_valid_clause_translate.
Theorem C17_valid_clause_reflect_x : forall r, c_valid (map_geom reflect_x r) = c_valid r.
Proof. exact valid_clause_reflect_x. Qed.
Print Assumptions C17_valid_clause_reflect_x.
Theorem C17_valid_clause_swap_xy : forall r, c_valid (map_geom swap_xy r) = c_valid r.
Proof. exact valid_clause_swap_xy. Qed.
Print Assumptions C17_valid_clause_swap_xy.

(* non-vacuity *)
Definition bowtie : geom := GPoly [(0, 0); (4, 4); (4, 0); (0, 4); (0, 0)] [].
Definition bowtie_fixed : geom := GMPoly [([(2, 2); (4, 4); (4, 0); (2, 2)], []); ([(0, 0); (0, 4); (2, 2); (0, 0)], [])].
Example ex_bowtie_structure : fix_check 1 (10 ^ 18) Structure true false bowtie bowtie_fixed = true.
Proof. vm_compute. reflexivity. Qed.
Example ex_bowtie_linework : fix_check 1 (10 ^ 18) Linework false false bowtie bowtie_fixed = true.
Proof. vm_compute. reflexivity. Qed.
Example ex_bowtie_half_rejected : fix_check 1 (10 ^ 18) Structure true false bowtie (GPoly [(2, 2); (4, 4); (4, 0); (2, 2)] []) = false.
Proof. vm_compute. reflexivity. Qed.
Example ex_unchanged_rejected : fix_check 1 (10 ^ 18) Structure true false bowtie bowtie = false.
Proof. vm_compute. reflexivity. Qed.
Example ex_keep : fix_check 1 (10 ^ 18) Structure true false (GPoly [(0, 0); (1, 0); (2, 0); (0, 0)] []) (GLine [(0, 0); (1, 0); (2, 0); (0, 0)]) = true
               /\ fix_check 1 (10 ^ 18) Structure false false (GPoly [(0, 0); (1, 0); (2, 0); (0, 0)] []) (GLine [(0, 0); (1, 0); (2, 0); (0, 0)]) = false
               /\ fix_check 1 (10 ^ 18) Structure false false (GPoly [(0, 0); (1, 0); (2, 0); (0, 0)] []) (GPoly [] []) = true
               /\ fix_check 1 (10 ^ 18) Structure true false (GPoly [(0, 0); (1, 0); (2, 0); (0, 0)] []) (GPoly [] []) = false.
Proof. repeat split; vm_compute; reflexivity. Qed.
Example ex_collection_keep : check_keep_tree true (GColl [GLine [(1, 1); (1, 1)]]) (GColl [GLine []]) = false
                          /\ check_keep_tree true (GColl [GLine [(1, 1); (1, 1)]]) (GColl [GPoint (Some (1, 1))]) = true.
Proof. split; vm_compute; reflexivity. Qed.
Example ex_table : (collapse_table true EPoly 3 false false, collapse_table false EPoly 3 false false,
                    collapse_table true ELine 1 false false, collapse_table true ERing 3 false false, collapse_table true ERing 5 false false)
                   = (OLine, OEmpty, OPoint, OLine, OLine).
Proof. reflexivity. Qed.
(* F10: a hole apart from its shell — the property's area (shells minus holes) differs from the implementation's result *)
Example ex_f10 : let g := GPoly [(0, 0); (10, 0); (10, 10); (0, 10); (0, 0)] [[(20, 20); (30, 20); (30, 30); (20, 20)]] in
                 let r := GMPoly [([(0, 10); (10, 10); (10, 0); (0, 0); (0, 10)], []); ([(30, 30); (30, 20); (20, 20); (30, 30)], [])] in
                 c_area 1 (10 ^ 18) g r = false /\ f10_key g = true.
Proof. split; vm_compute; reflexivity. Qed.
