(* C19 — property theorems only. Each is closed by `exact <lemma>` and followed by Print Assumptions. *)
From Coq Require Import QArith Qabs List ZArith.
From GeosV.C19 Require Import LinRefDefs LinRefProofs LinRefNearest.
Import ListNotations.
Local Open Scope Q_scope.

(* getLength (getLocation len) is the clamped length: below 0 and above the total are clamped, negative lengths count from the end *)
Theorem C19_location_length_roundtrip : forall g len, wf g -> len_of g (get_location g len) == clamp_index g len.
Proof. exact location_length_roundtrip. Qed.
Print Assumptions C19_location_length_roundtrip.

(* getLocationForward (getLength l) is the canonical (lower) representative of l *)
Theorem C19_length_location_roundtrip : forall g l, wf g -> valid_loc g l -> loc_eq (loc_forward g (len_of g l)) (normalise g l).
Proof. exact length_location_roundtrip. Qed.
Print Assumptions C19_length_location_roundtrip.

(* the lines extracted between two length indices have total length |clamp(end) - clamp(start)| *)
Theorem C19_substring_length : forall g si ei, wf g ->
  lines_len (extract_line g si ei) == Qabs (clamp_index g ei - clamp_index g si).
Proof. exact substring_length. Qed.
Print Assumptions C19_substring_length.

(* single LineString: the point interpolated at the projected distance realises the minimum point-segment distance *)
Theorem C19_project_interpolate_nearest : forall lens c p l,
  Forall (fun s => 0 < s) lens -> lens <> [] -> length lens = pred (length c) -> project_loc [c] p = Some l ->
  let q := interpolate [lens] [c] (project [lens] [c] p) in
  (forall ab, In ab (segs_of c) -> qd2 (q_of_z p) q <= d2_pt_seg p (fst ab) (snd ab)) /\
  (exists ab, In ab (segs_of c) /\ qd2 (q_of_z p) q == d2_pt_seg p (fst ab) (snd ab)).
Proof. exact project_interpolate_nearest. Qed.
Print Assumptions C19_project_interpolate_nearest.
