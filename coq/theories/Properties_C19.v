(* C19 — property theorems only. Each is closed by `exact <lemma>` and followed by Print Assumptions. *)
From Coq Require Import QArith Qabs List ZArith Reals Permutation Lra Qreals.
From GeosV.C19 Require Import LinRefDefs LinRefProofs LinRefNearest CheckDefs CheckLists CheckGeom MergeLength CheckProofs GenTie.
From GeosV.Gen Require Import LR_compareLocationValues.
From GeosV.C19 Require LRMeasure GenTieLR LRFoldDefs.
Import ListNotations.

(* ================================================================ linear referencing (model M of LengthLocationMap & co.) *)
Section LinRef.
Local Open Scope Q_scope.

(* getLength (getLocation len) is the clamped length: below 0 and above the total are clamped, negative lengths count from the end *)
Theorem C19_location_length_roundtrip : forall g len, wf g -> len_of g (get_location g len) == clamp_index g len.
Proof. exact location_length_roundtrip. Qed.
Print Assumptions C19_location_length_roundtrip.

(* getLocationForward (getLength l) is the canonical (lower) representative of l: fraction 1 becomes the next vertex, the
   start of a later component becomes the end of the previous one *)
Theorem C19_length_location_roundtrip : forall g l, wf g -> valid_loc g l -> loc_eq (loc_forward g (len_of g l)) (normalise g l).
Proof. exact length_location_roundtrip. Qed.
Print Assumptions C19_length_location_roundtrip.

(* ExtractLineByLocation::computeLinear: the lines between two locations have length getLength(end) - getLength(start) *)
Theorem C19_compute_linear_length : forall g st en, wf g -> svalid_loc g st -> svalid_loc g en -> cmp_loc en st <> Lt ->
  lines_len (compute_linear g st en) == len_of g en - len_of g st.
Proof. exact compute_linear_length. Qed.
Print Assumptions C19_compute_linear_length.

(* LengthIndexedLine::extractLine: the substring between two length indices has length |clamp(end) - clamp(start)| *)
Theorem C19_substring_length : forall g si ei, wf g ->
  lines_len (extract_line g si ei) == Qabs (clamp_index g ei - clamp_index g si).
Proof. exact substring_length. Qed.
Print Assumptions C19_substring_length.

(* single LineString: the point interpolated at the projected distance realises the minimum point-segment distance ... *)
Theorem C19_project_interpolate_nearest : forall lens c p l,
  Forall (fun s => 0 < s) lens -> lens <> [] -> length lens = pred (length c) -> project_loc [c] p = Some l ->
  let q := interpolate [lens] [c] (project [lens] [c] p) in
  (forall ab, In ab (segs_of c) -> qd2 (q_of_z p) q <= d2_pt_seg p (fst ab) (snd ab)) /\
  (exists ab, In ab (segs_of c) /\ qd2 (q_of_z p) q == d2_pt_seg p (fst ab) (snd ab)).
Proof. exact project_interpolate_nearest. Qed.
Print Assumptions C19_project_interpolate_nearest.

(* ... and the point-segment distance is the minimum over the points of the segment: no point of the line is nearer *)
Theorem C19_d2_pt_seg_min : forall p a b t, 0 <= t -> t <= 1 -> d2_pt_seg p a b <= qd2 (q_of_z p) (seg_pt a b t).
Proof. exact d2_pt_seg_min. Qed.
Print Assumptions C19_d2_pt_seg_min.
Theorem C19_project_interpolate_nearest_on_line : forall lens c p l,
  Forall (fun s => 0 < s) lens -> lens <> [] -> length lens = pred (length c) -> project_loc [c] p = Some l ->
  forall ab t, In ab (segs_of c) -> 0 <= t -> t <= 1 ->
  qd2 (q_of_z p) (interpolate [lens] [c] (project [lens] [c] p)) <= qd2 (q_of_z p) (seg_pt (fst ab) (snd ab) t).
Proof. exact project_interpolate_nearest_on_line. Qed.
Print Assumptions C19_project_interpolate_nearest_on_line.

(* MultiLineString: refuted (finding C19-F1) — the start of a later component shares its length index with the end of the
   previous one: for MULTILINESTRING((0 0,10 0),(20 5,30 5)) and p = (19 5) the projected length is 10, the interpolated point
   (10 0) at squared distance 106, while the segment (20 5)-(30 5) is at squared distance 1 *)
Theorem C19_project_interpolate_multi_refuted :
  wf mref_g /\ shape_ok mref_g mref_gz /\ project mref_g mref_gz mref_p == 10 /\
  qpt_eq (interpolate mref_g mref_gz (project mref_g mref_gz mref_p)) (10, 0) /\
  qd2 (q_of_z mref_p) (interpolate mref_g mref_gz (project mref_g mref_gz mref_p)) == 106 /\
  d2_pt_seg mref_p (20, 5)%Z (30, 5)%Z == 1.
Proof. exact project_interpolate_multi_refuted. Qed.
Print Assumptions C19_project_interpolate_multi_refuted.

(* tie G: what the C++ source of LinearLocation::compareLocationValues says (translated on every run) is the model's order *)
Theorem C19_gen_compareLocationValues_eq : forall (c0 s0 c1 s1 : nat) (n0 n1 : Z) (d : positive),
  g_compareLocationValues (Z.of_nat c0) (Z.of_nat s0) n0 (Z.of_nat c1) (Z.of_nat s1) n1
  = cmp_code (cmp_loc (mkLoc c0 s0 (n0 # d)) (mkLoc c1 s1 (n1 # d))).
Proof. exact gen_compareLocationValues_eq. Qed.
Print Assumptions C19_gen_compareLocationValues_eq.

(* non-vacuity: a two-component line with Pythagorean segments *)
Definition ex_g : lin := [[5; 10]; [13]].
Definition ex_gz : geomz := [[(0, 0); (3, 4); (9, 12)]; [(20, 0); (25, 12)]]%Z.
Example ex_wf : wf ex_g.
Proof. split; [discriminate | repeat constructor; discriminate || reflexivity]. Qed.
Definition show_loc_nat (l : loc) : nat * nat := (lcomp l, lseg l).
Example ex_loc_values :
  (show_loc_nat (get_location ex_g (15 # 2)), show_loc_nat (get_location ex_g 15), show_loc_nat (get_location_r ex_g 15 false),
   show_loc_nat (get_location ex_g (-13)), show_loc_nat (get_location ex_g 100), show_loc_nat (get_location ex_g (-100)))
  = ((0, 1), (0, 2), (1, 0), (0, 2), (1, 1), (0, 0))%nat.
Proof. vm_compute. reflexivity. Qed.
Example ex_roundtrip : len_of ex_g (get_location ex_g (33 # 2)) == 33 # 2 /\ len_of ex_g (get_location ex_g 40) == 28.
Proof. split; vm_compute; reflexivity. Qed.
Example ex_normalise : loc_eq (normalise ex_g (mkLoc 1 0 0)) (mkLoc 0 2 0) /\ loc_eq (normalise ex_g (mkLoc 0 0 1)) (mkLoc 0 1 0).
Proof. split; vm_compute; repeat split; reflexivity. Qed.
Example ex_substring : lines_len (extract_line ex_g (5 # 2) 20) == 35 # 2 /\ lines_len (extract_line ex_g 20 (5 # 2)) == 35 # 2.
Proof. split; vm_compute; reflexivity. Qed.
Example ex_project : project [[5; 10]] [[(0, 0); (3, 4); (9, 12)]%Z] (7, 1)%Z == 5 /\
                     qpt_eq (interpolate [[5; 10]] [[(0, 0); (3, 4); (9, 12)]%Z] 5) (3, 4).
Proof. split; [vm_compute; reflexivity | split; vm_compute; reflexivity]. Qed.
End LinRef.


(* ================================================================ the measure arithmetic of linear referencing, on the GENERATED leaf
   functions (tie G; `double` read as a real number, C19/GenPreludeLR): LineSegment::projectionFactor / getLength / distance,
   LengthIndexOfPoint::segmentNearestMeasure, LinearLocation::compareTo / isVertex / isOnSameSegment,
   LengthIndexedLine::positiveIndex / clampIndex; and the hand fold model of the loop of LengthIndexOfPoint::indexOfFromStart *)
Module LRGen.
Import RealDistDefs GenPreludeLR LRMeasure GenTieLR LinRefDefs.
Import C08_ptSeg LR_projectionFactor LR_segLength LR_segDistance LR_segmentNearestMeasure LR_compareTo LR_isVertex LR_isOnSameSegment LR_clampIndex.
Local Open Scope R_scope.

(* segmentNearestMeasure(seg, p, m0) = m0 + (projection factor clamped to [0,1]; 0 on a zero-length segment) * length *)
Theorem C19_gen_segmentNearestMeasure_param : forall s p m0, g_segmentNearestMeasure s p m0 = m0 + near_t s p * seg_len s.
Proof. exact segmentNearestMeasure_param. Qed.
Print Assumptions C19_gen_segmentNearestMeasure_param.
(* ... i.e. the returned measure minus segmentStartMeasure is the arc length from the segment start to the point x of the closed
   segment nearest to p (at distance LineSegment::distance(p)); it stays within the segment's share of the measure *)
Theorem C19_gen_segmentNearestMeasure_spec : forall s p m0,
  let x := near_pt s p in
  on_seg x (f_p0 s) (f_p1 s) /\
  (forall y, on_seg y (f_p0 s) (f_p1 s) -> distR p x <= distR p y) /\
  distR p x = g_segDistance s p /\
  g_segmentNearestMeasure s p m0 - m0 = distR (f_p0 s) x /\
  m0 <= g_segmentNearestMeasure s p m0 <= m0 + m_getLength_0 s.
Proof. exact segmentNearestMeasure_spec. Qed.
Print Assumptions C19_gen_segmentNearestMeasure_spec.

(* indexOfFromStart (whole-line search): the measure is (sum of the lengths of ALL segments before segment k) + (arc length from
   the start of segment k to x), x a point of the line at minimum distance from p, k the FIRST segment with such a point *)
Theorem C19_index_of_from_start_nearest_first : forall segs p minIndex, minIndex < 0 -> segs <> [] ->
  exists k s, nth_error segs k = Some s /\
    let x := near_pt s p in
    on_seg x (f_p0 s) (f_p1 s) /\
    index_of_from_start segs p minIndex = prefix_len k segs + distR (f_p0 s) x /\
    (forall j sj y, nth_error segs j = Some sj -> on_seg y (f_p0 sj) (f_p1 sj) -> distR p x <= distR p y) /\
    (forall j sj y, (j < k)%nat -> nth_error segs j = Some sj -> on_seg y (f_p0 sj) (f_p1 sj) -> distR p x < distR p y).
Proof. exact index_of_from_start_nearest_first. Qed.
Print Assumptions C19_index_of_from_start_nearest_first.
Theorem C19_index_of_from_start_range : forall segs p minIndex, minIndex < 0 -> segs <> [] ->
  0 <= index_of_from_start segs p minIndex <= LRMeasure.total_len segs.
Proof. exact index_of_from_start_range. Qed.
Print Assumptions C19_index_of_from_start_range.
Theorem C19_idx_run_start_is_running_sum : forall segs p minIndex, minIndex < 0 -> snd (idx_run segs p minIndex) = LRMeasure.total_len segs.
Proof. exact idx_run_start_is_running_sum. Qed.
Print Assumptions C19_idx_run_start_is_running_sum.
Example ex_index_of_hyp : -1 < 0 /\ [mk_rseg (mk_rpt 0 0) (mk_rpt 1 0)] <> [].
Proof. split; [lra | discriminate]. Qed.

(* LinearLocation (member forms) and the index conventions *)
Theorem C19_gen_compareTo_eq : forall a b : loc, g_compareTo (rl a) (rl b) = cmp_code (cmp_loc a b).
Proof. exact gen_compareTo_eq. Qed.
Print Assumptions C19_gen_compareTo_eq.
Theorem C19_gen_isVertex_eq : forall l : loc, g_isVertex (rl l) = is_vertex l.
Proof. exact gen_isVertex_eq. Qed.
Print Assumptions C19_gen_isVertex_eq.
Theorem C19_gen_isOnSameSegment_spec : forall a b : loc,
  g_isOnSameSegment (rl a) (rl b) = true <->
  lcomp a = lcomp b /\ (lseg a = lseg b \/ (lseg b = S (lseg a) /\ (lfrac b == 0)%Q) \/ (lseg a = S (lseg b) /\ (lfrac a == 0)%Q)).
Proof. exact gen_isOnSameSegment_spec. Qed.
Print Assumptions C19_gen_isOnSameSegment_spec.
Theorem C19_gen_clampIndex_spec : forall T i, 0 <= T ->
  let r := g_clampIndex (lil T) i in
  0 <= r <= T /\ (0 <= i <= T -> r = i) /\ (- T <= i < 0 -> r = T + i) /\ (T < i -> r = T) /\ (i < - T -> r = 0).
Proof. exact gen_clampIndex_spec. Qed.
Print Assumptions C19_gen_clampIndex_spec.
Theorem C19_gen_clampIndex_eq : forall g i, g_clampIndex (lil (Q2R (total g))) (Q2R i) = Q2R (clamp_index g i).
Proof. exact gen_clampIndex_eq. Qed.
Print Assumptions C19_gen_clampIndex_eq.
Example ex_clampIndex_hyp : 0 <= 5.
Proof. lra. Qed.
(* the executable fold (run beside GEOSProject_r): the projected measure of (7 1) on (0 0, 3 4, 9 12) is 5 *)
Example ex_index_of_q : (LRFoldDefs.index_of_q [[5; 10]%Q] [[(0, 0); (3, 4); (9, 12)]%Z] (7, 1)%Z == 5)%Q.
Proof. vm_compute. reflexivity. Qed.
End LRGen.

(* ================================================================ relational specifications with certified checkers *)
(* merging: equal multisets of unit sub-segments give equal point sets and equal total length *)
Theorem C19_merge_multiset_pointset_length : forall V A B,
  Forall (fun s => nondeg s = true) A -> Forall (fun s => nondeg s = true) B ->
  Permutation (units_undir V A) (units_undir V B) ->
  (forall p, on_linesQ p A <-> on_linesQ p B) /\ total_len A = total_len B.
Proof. intros V A B FA FB H. split; [intros p; exact (merge_pointset V A B p FA FB H) | exact (merge_length V A B FA FB H)]. Qed.
Print Assumptions C19_merge_multiset_pointset_length.

Theorem C19_merge_check_sound : forall directed ins outs, merge_check directed ins outs = true -> MergeSpec directed ins outs.
Proof. exact merge_check_sound. Qed.
Print Assumptions C19_merge_check_sound.

(* noding: the segment test is exact ... *)
Theorem C19_seg_ok_sound : forall s t, seg_ok s t = true ->
  forall p, on_segQ p s -> on_segQ p t -> is_endQ p s /\ is_endQ p t.
Proof. exact seg_ok_sound. Qed.
Print Assumptions C19_seg_ok_sound.
(* ... the distance test compares the exact squared distance with the squared tolerance ... *)
Theorem C19_near_seg_sound : forall tn td k p s, (0 < td)%Z -> near_seg tn td k p s = true ->
  (d2_pt_seg p (scale_z k (fst s)) (scale_z k (snd s)) * inject_Z td <= inject_Z (tn * k * k))%Q.
Proof. exact near_seg_sound. Qed.
Print Assumptions C19_near_seg_sound.
(* ... and the checker establishes the pairwise clause exactly, the point-set clause on its vertices and sampled midpoints *)
Theorem C19_noding_check_sound_partial : forall tn td ins outs, noding_check tn td ins outs = true -> NodingSpec tn td ins outs.
Proof. exact noding_check_sound_partial. Qed.
Print Assumptions C19_noding_check_sound_partial.

(* polygonizing *)
Theorem C19_polygonize_check_sound : forall ins ps dangles cuts invalid,
  polygonize_check ins ps dangles cuts invalid = true -> PolygonizeSpec ins ps dangles cuts invalid.
Proof. exact polygonize_check_sound. Qed.
Print Assumptions C19_polygonize_check_sound.
Theorem C19_core_no_dangles : forall ss s, In s (core_of ss) ->
  seg_deg (fst s) (core_of ss) <> 1%Z /\ seg_deg (snd s) (core_of ss) <> 1%Z.
Proof. exact core_no_dangles. Qed.
Print Assumptions C19_core_no_dangles.

(* shared paths *)
Theorem C19_shared_check_sound_partial : forall g1 g2 fw bw, shared_check g1 g2 fw bw = true -> SharedSpec g1 g2 fw bw.
Proof. exact shared_check_sound_partial. Qed.
Print Assumptions C19_shared_check_sound_partial.

(* non-vacuity: the checkers accept correct outputs and reject broken ones *)
Local Open Scope Z_scope.
Example ex_merge_ok : merge_check false [[(0, 0); (1, 0)]; [(2, 0); (1, 0)]; [(2, 0); (3, 0)]; [(2, 0); (2, 1)]]
                                        [[(0, 0); (1, 0); (2, 0)]; [(2, 0); (3, 0)]; [(2, 0); (2, 1)]] = true.
Proof. vm_compute. reflexivity. Qed.
Example ex_merge_unmerged : merge_nodes_ok false [[(0, 0); (1, 0)]; [(2, 0); (1, 0)]] [[(0, 0); (1, 0)]; [(1, 0); (2, 0)]] = false.
Proof. vm_compute. reflexivity. Qed.
Example ex_merge_directed : merge_check true [[(0, 0); (1, 0)]; [(2, 0); (1, 0)]] [[(0, 0); (1, 0)]; [(2, 0); (1, 0)]] = true
                            /\ merge_units_ok true [[(0, 0); (1, 0)]; [(2, 0); (1, 0)]] [[(0, 0); (1, 0); (2, 0)]] = false.
Proof. split; vm_compute; reflexivity. Qed.
Example ex_noding_ok : noding_check 1 (10 ^ 18) [[(0, 0); (4, 4)]; [(0, 4); (4, 0)]]
                                    [[(0, 0); (2, 2)]; [(2, 2); (4, 4)]; [(0, 4); (2, 2)]; [(2, 2); (4, 0)]] = true.
Proof. vm_compute. reflexivity. Qed.
Example ex_noding_unnoded : node_disjoint_ok [[(0, 0); (4, 4)]; [(0, 4); (4, 0)]] = false
                            /\ node_disjoint_ok [[(0, 0); (4, 0)]; [(2, 0); (2, 3)]] = false.
Proof. split; vm_compute; reflexivity. Qed.
Example ex_polygonize_ok :
  polygonize_check [[(0, 0); (4, 0)]; [(4, 0); (4, 4)]; [(4, 4); (0, 4)]; [(0, 4); (0, 0)]; [(4, 4); (6, 6)]; [(6, 6); (7, 7)]]
                   [([(4, 0); (0, 0); (0, 4); (4, 4); (4, 0)], [])] [[(6, 6); (7, 7)]; [(4, 4); (6, 6)]] [] [] = true.
Proof. vm_compute. reflexivity. Qed.
Example ex_polygonize_missing_dangle :
  polygonize_check [[(0, 0); (4, 0)]; [(4, 0); (4, 4)]; [(4, 4); (0, 4)]; [(0, 4); (0, 0)]; [(4, 4); (6, 6)]; [(6, 6); (7, 7)]]
                   [([(4, 0); (0, 0); (0, 4); (4, 4); (4, 0)], [])] [[(6, 6); (7, 7)]] [[(4, 4); (6, 6)]] [] = false.
Proof. vm_compute. reflexivity. Qed.
Example ex_polygonize_overlap :
  polyg_disjoint_ok [([(0, 0); (9, 0); (9, 9); (0, 9); (0, 0)], []); ([(3, 3); (6, 3); (3, 6); (3, 3)], [])] = false
  /\ polyg_disjoint_ok [([(0, 0); (9, 0); (9, 9); (0, 9); (0, 0)], [[(3, 3); (3, 6); (6, 3); (3, 3)]]); ([(3, 3); (6, 3); (3, 6); (3, 3)], [])] = true.
Proof. split; vm_compute; reflexivity. Qed.
Example ex_shared_ok :
  shared_check [[(0, 0); (10, 0); (10, 10); (0, 10)]] [[(2, 0); (6, 0)]; [(10, 8); (10, 3)]]
               [[(2, 0); (6, 0)]] [[(10, 3); (10, 8)]] = true
  /\ shared_check [[(0, 0); (10, 0); (10, 10); (0, 10)]] [[(2, 0); (6, 0)]; [(10, 8); (10, 3)]]
               [[(2, 0); (6, 0)]; [(10, 3); (10, 8)]] [] = false.
Proof. split; vm_compute; reflexivity. Qed.
