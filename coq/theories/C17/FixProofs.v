(* C17 — proofs: the collapse table against keepCollapsed, what the envelope test means, soundness of the FixSpec checker
   (the point-set clauses hold on the finite witness family: _partial), invariances inherited from Lib/Valid. *)
From Coq Require Import ZArith List Bool Arith Lia.
From GeosV.Lib Require Import GeomDefs LocateDefs ValidDefs Geom Locate Valid.
From GeosV.C17 Require Import FixDefs.
Import ListNotations.
Local Open Scope Z_scope.

(* ================================================================ M: the collapse table *)
Theorem collapse_dim keep k n area rv : dim_o (collapse_table keep k n area rv) <= dim_e k.
Proof.
  destruct k; unfold collapse_table, fix_line, fix_ring; destruct keep, area, rv;
    destruct n as [|[|[|[|n]]]]; cbn; lia.
Qed.
(* a collapsed component with at least one point left is kept (as something) exactly when keepCollapsed is set *)
Theorem collapse_keep k n area rv : (1 <= n)%nat -> collapsed k n area = true ->
  forall keep, collapse_table keep k n area rv <> OEmpty <-> keep = true.
Proof.
  intros Hn Hc keep. destruct k; unfold collapsed in Hc; unfold collapse_table, fix_line, fix_ring.
  - discriminate.
  - destruct n as [|[|n]]; [lia | | cbn in Hc; discriminate]. destruct keep; cbn; split; congruence.
  - destruct n as [|[|[|[|n]]]]; [lia | | | | cbn in Hc; discriminate]; destruct keep, rv; cbn; split; congruence.
  - destruct area; [discriminate|]. destruct n as [|[|n]]; [lia | |]; destruct keep; cbn; split; congruence.
Qed.
(* ... and then as something of lower dimension (a ring may collapse to a line, which has the dimension of a ring) *)
Theorem collapse_lower k n area rv : (1 <= n)%nat -> collapsed k n area = true -> k <> ERing ->
  dim_o (collapse_table true k n area rv) < dim_e k.
Proof.
  intros Hn Hc Hk. destruct k; unfold collapsed in Hc; unfold collapse_table, fix_line.
  - discriminate.
  - destruct n as [|[|n]]; [lia | cbn; lia | cbn in Hc; discriminate].
  - congruence.
  - destruct area; [discriminate|]. destruct n as [|[|n]]; [lia | cbn; lia | cbn; lia].
Qed.
(* a component that is not collapsed is fixed the same way whatever keepCollapsed says, at its own dimension *)
Theorem not_collapsed_stable k n area rv : collapsed k n area = false -> (1 <= n)%nat ->
  collapse_table true k n area rv = collapse_table false k n area rv /\ dim_o (collapse_table false k n area rv) = dim_e k.
Proof.
  intros Hc Hn. destruct k; unfold collapsed in Hc; unfold collapse_table, fix_line, fix_ring.
  - destruct n; [lia | cbn; auto].
  - destruct n as [|[|n]]; [lia | cbn in Hc; discriminate | cbn; auto].
  - destruct n as [|[|[|[|n]]]]; try (cbn in Hc; discriminate). destruct rv; cbn; auto.
  - destruct area; [cbn; auto | discriminate].
Qed.

(* ================================================================ the envelope test *)
Definition in_box (e : Z * Z * Z * Z) (p : pt) : Prop :=
  let '(x0, x1, y0, y1) := e in x0 <= fst p <= x1 /\ y0 <= snd p <= y1.
Definition box_step (e : Z * Z * Z * Z) (q : pt) : Z * Z * Z * Z :=
  let '(x0, x1, y0, y1) := e in (Z.min x0 (fst q), Z.max x1 (fst q), Z.min y0 (snd q), Z.max y1 (snd q)).
Definition box_le (e e' : Z * Z * Z * Z) : Prop :=
  let '(x0, x1, y0, y1) := e in let '(a0, a1, b0, b1) := e' in a0 <= x0 /\ x1 <= a1 /\ b0 <= y0 /\ y1 <= b1.
Lemma box_fold_grows t : forall e, box_le e (fold_left box_step t e).
Proof.
  induction t as [|q t IH]; intros [[[x0 x1] y0] y1]; cbn [fold_left]; [cbn; lia|].
  specialize (IH (box_step (x0, x1, y0, y1) q)). unfold box_step in *. 
  destruct (fold_left _ t _) as [[[a0 a1] b0] b1]. cbn in *. lia.
Qed.
Lemma box_fold_inside t : forall e p, In p t -> in_box (fold_left box_step t e) p.
Proof.
  induction t as [|q t IH]; intros e p H; [destruct H|]. cbn [fold_left]. destruct H as [<- | H]; [|apply IH; exact H].
  pose proof (box_fold_grows t (box_step e q)) as G. destruct e as [[[x0 x1] y0] y1]. unfold box_step in *.
  destruct (fold_left _ t _) as [[[a0 a1] b0] b1]. cbn in *. lia.
Qed.
Lemma env_of_inside l e : env_of l = Some e -> forall p, In p l -> in_box e p.
Proof.
  destruct l as [|q t]; [discriminate|]. unfold env_of. intros H p Hp. injection H as <-.
  change (fold_left _ t (fst q, fst q, snd q, snd q)) with (fold_left box_step t (fst q, fst q, snd q, snd q)).
  destruct Hp as [<- | Hp]; [|apply box_fold_inside; exact Hp].
  pose proof (box_fold_grows t (fst q, fst q, snd q, snd q)) as G.
  destruct (fold_left box_step t _) as [[[a0 a1] b0] b1]. cbn in *. lia.
Qed.
(* every bound of the envelope is attained by a coordinate *)
Lemma box_fold_attained t : forall x0 x1 y0 y1 a0 a1 b0 b1, fold_left box_step t (x0, x1, y0, y1) = (a0, a1, b0, b1) ->
  (a0 = x0 \/ exists p, In p t /\ fst p = a0) /\ (a1 = x1 \/ exists p, In p t /\ fst p = a1) /\
  (b0 = y0 \/ exists p, In p t /\ snd p = b0) /\ (b1 = y1 \/ exists p, In p t /\ snd p = b1).
Proof.
  induction t as [|q t IH]; intros x0 x1 y0 y1 a0 a1 b0 b1 H; cbn [fold_left] in H.
  - injection H as <- <- <- <-. auto.
  - unfold box_step at 2 in H. apply IH in H. destruct H as [H1 [H2 [H3 H4]]].
    repeat split.
    + destruct H1 as [-> | [p [I E]]]; [|right; exists p; split; [right; exact I | exact E]].
      destruct (Z.min_spec x0 (fst q)) as [[_ ->] | [_ ->]]; [left; reflexivity | right; exists q; split; [left; reflexivity | reflexivity]].
    + destruct H2 as [-> | [p [I E]]]; [|right; exists p; split; [right; exact I | exact E]].
      destruct (Z.max_spec x1 (fst q)) as [[_ ->] | [_ ->]]; [right; exists q; split; [left; reflexivity | reflexivity] | left; reflexivity].
    + destruct H3 as [-> | [p [I E]]]; [|right; exists p; split; [right; exact I | exact E]].
      destruct (Z.min_spec y0 (snd q)) as [[_ ->] | [_ ->]]; [left; reflexivity | right; exists q; split; [left; reflexivity | reflexivity]].
    + destruct H4 as [-> | [p [I E]]]; [|right; exists p; split; [right; exact I | exact E]].
      destruct (Z.max_spec y1 (snd q)) as [[_ ->] | [_ ->]]; [right; exists q; split; [left; reflexivity | reflexivity] | left; reflexivity].
Qed.
(* env_within r g: every coordinate of r lies between coordinates of g in x and in y *)
Theorem env_within_sound r g : env_within r g = true -> forall p, In p (coords_of r) ->
  exists a b c d, In a (coords_of g) /\ In b (coords_of g) /\ In c (coords_of g) /\ In d (coords_of g) /\
                  fst a <= fst p <= fst b /\ snd c <= snd p <= snd d.
Proof.
  unfold env_within. intros H p Hp.
  destruct (env_of (coords_of r)) as [[[[a0 a1] b0] b1]|] eqn:Er; [|destruct (coords_of r); [destruct Hp | discriminate]].
  destruct (env_of (coords_of g)) as [[[[x0 x1] y0] y1]|] eqn:Eg; [|discriminate].
  apply andb_true_iff in H. destruct H as [H H4]. apply andb_true_iff in H. destruct H as [H H3].
  apply andb_true_iff in H. destruct H as [H1 H2]. apply Z.leb_le in H1, H2, H3, H4.
  pose proof (env_of_inside _ _ Er p Hp) as Ip. cbn in Ip.
  destruct (coords_of g) as [|q t] eqn:Cg; [discriminate|]. unfold env_of in Eg. injection Eg as Eg.
  change (fold_left _ t (fst q, fst q, snd q, snd q)) with (fold_left box_step t (fst q, fst q, snd q, snd q)) in Eg.
  destruct (box_fold_attained t _ _ _ _ _ _ _ _ Eg) as [A0 [A1 [B0 B1]]].
  assert (E0 : exists a, In a (q :: t) /\ fst a = x0) by (destruct A0 as [-> | [a [I E]]]; [exists q; split; [left|]; reflexivity | exists a; split; [right|]; assumption]).
  assert (E1 : exists a, In a (q :: t) /\ fst a = x1) by (destruct A1 as [-> | [a [I E]]]; [exists q; split; [left|]; reflexivity | exists a; split; [right|]; assumption]).
  assert (F0 : exists a, In a (q :: t) /\ snd a = y0) by (destruct B0 as [-> | [a [I E]]]; [exists q; split; [left|]; reflexivity | exists a; split; [right|]; assumption]).
  assert (F1 : exists a, In a (q :: t) /\ snd a = y1) by (destruct B1 as [-> | [a [I E]]]; [exists q; split; [left|]; reflexivity | exists a; split; [right|]; assumption]).
  destruct E0 as [a [Ia Ea]], E1 as [b [Ib Eb]], F0 as [c [Ic Ec]], F1 as [d [Id Ed]].
  exists a, b, c, d. repeat split; auto; lia.
Qed.

(* ================================================================ R: soundness of the checker *)
Lemma location_eqb_eq a b : location_eqb a b = true -> a = b.
Proof. destruct a, b; cbn; congruence. Qed.

Record FixSpec (tn td : Z) (m : method) (keep valid_in : bool) (g r : geom) : Prop := {
  (* the result is valid (OGC rules as decided by Lib/ValidDefs) *)
  fs_valid : valid_geom r = true;
  (* its dimension is no higher than the input's *)
  fs_dim : dimension r <= dimension g;
  (* it lies within the input's envelope *)
  fs_env : forall p, In p (coords_of r) -> exists a b c d, In a (coords_of g) /\ In b (coords_of g) /\ In c (coords_of g) /\
             In d (coords_of g) /\ fst a <= fst p <= fst b /\ snd c <= snd p <= snd d;
  (* a valid input comes back with the same point set — at every witness *)
  fs_equal : valid_in = true -> forall q, In q (map hp (nodup_pts (coords_of g ++ coords_of r)) ++ clear_witnesses tn td g r) -> loc_h g q = loc_h r q;
  (* linework method: every input vertex lies on the result *)
  fs_vertices : m = Linework -> forall v, In v (coords_of g) -> loc r v <> Exterior;
  (* structure method: the area is the union of the shells minus the holes — at every witness that is on no ring *)
  fs_area : m = Structure -> forall q a b, In q (clear_witnesses tn td g r) ->
            area_expected g q = Some a -> in_result_area r q = Some b -> a = b;
  (* structure method: collapses are kept exactly when requested, element by element through collections *)
  fs_keep : m = Structure -> check_keep_tree keep g r = true
}.

(* Full statement (not proved): "same point set" and "area = shells minus holes" for EVERY point of the plane.  Proved: for
   the witness family (vertices of input and result; midpoints of all vertex pairs, ear centroids and — for small vertex sets —
   centroids of all vertex triples, those farther than sqrt(tn/td) from the linework of both geometries). *)
Theorem fix_check_sound_partial tn td m keep valid_in g r :
  fix_check tn td m keep valid_in g r = true -> FixSpec tn td m keep valid_in g r.
Proof.
  unfold fix_check. intros H.
  apply andb_true_iff in H. destruct H as [H Hm]. apply andb_true_iff in H. destruct H as [H Heq].
  apply andb_true_iff in H. destruct H as [H Henv]. apply andb_true_iff in H. destruct H as [Hv Hd].
  constructor.
  - exact Hv.
  - unfold c_dim in Hd. apply Z.leb_le. exact Hd.
  - apply env_within_sound. exact Henv.
  - intros V q Iq. subst valid_in. cbn in Heq. unfold c_equal in Heq. rewrite forallb_forall in Heq.
    apply location_eqb_eq. apply Heq. exact Iq.
  - intros -> v Iv. unfold c_vertices in Hm. rewrite forallb_forall in Hm. specialize (Hm v Iv).
    intros C. rewrite C in Hm. discriminate.
  - intros -> q a b Iq Ea Eb. apply andb_true_iff in Hm. destruct Hm as [Ha _].
    unfold c_area in Ha. rewrite forallb_forall in Ha. specialize (Ha q Iq). rewrite Ea, Eb in Ha.
    apply eqb_prop. exact Ha.
  - intros ->. apply andb_true_iff in Hm. destruct Hm as [_ Hk]. exact Hk.
Qed.

(* what the keep clause says for a geometry that is not a collection *)
Theorem c_keep_spec keep g r : (forall gs, g <> GColl gs) -> c_keep keep g r = true ->
  (keep = true -> forall v, In v (collapsed_vertices g) -> loc r v <> Exterior) /\
  (keep = false -> has_lower_dim (top_dim g) r = false).
Proof.
  intros N H. unfold c_keep in H. destruct g; try (exfalso; eapply N; reflexivity); destruct keep; split; intros K; try discriminate;
    try (intros v Iv; rewrite forallb_forall in H; specialize (H v Iv); intros C; rewrite C in H; discriminate);
    try (apply negb_true_iff in H; exact H).
Qed.

(* ================================================================ inherited from Lib/Valid: the validity clause moves with the geometry *)
Theorem valid_clause_translate d r : c_valid (map_geom (translate d) r) = c_valid r.
Proof. unfold c_valid, valid_geom. apply (valid_flag_map _ _ _ (sim_translate d)). Qed.
Theorem valid_clause_reflect_x r : c_valid (map_geom reflect_x r) = c_valid r.
Proof. unfold c_valid, valid_geom. apply (valid_flag_map _ _ _ sim_reflect_x). Qed.
Theorem valid_clause_swap_xy r : c_valid (map_geom swap_xy r) = c_valid r.
Proof. unfold c_valid, valid_geom. apply (valid_flag_map _ _ _ sim_swap). Qed.
