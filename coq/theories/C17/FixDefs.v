(* C17 — MakeValid: (M) the collapse table of the structure method (GeometryFixer::fixPointElement / fixLineStringElement /
   fixLinearRingElement / fixPolygonElement, /repo/src/geom/util/GeometryFixer.cpp) and (R) the relational specification
   FixSpec with its executable checker, over exact integer coordinates (grid inputs; the dyadic ordinates of a result are
   scaled by one common power of two).  Definitions only, executable, no proofs. *)
From Coq Require Import ZArith List Bool Arith.
From GeosV.Lib Require Import GeomDefs LocateDefs ValidDefs.
Import ListNotations.
Local Open Scope Z_scope.

(* ================================================================ M: the collapse table *)
Inductive ekind := EPoint | ELine | ERing | EPoly.
Inductive okind := OEmpty | OPoint | OLine | ORing | OArea.
Definition dim_e (k : ekind) : Z := match k with EPoint => 0 | ELine | ERing => 1 | EPoly => 2 end.
Definition dim_o (o : okind) : Z := match o with OEmpty => -1 | OPoint => 0 | OLine | ORing => 1 | OArea => 2 end.
(* fixLineStringElement: n = size after removeRepeatedAndInvalidPoints *)
Definition fix_line (keep : bool) (n : nat) : okind :=
  if keep && (n =? 1)%nat then OPoint else if (n <=? 1)%nat then OEmpty else OLine.
(* fixLinearRingElement: LinearRing::MINIMUM_VALID_SIZE = 3 *)
Definition fix_ring (keep : bool) (n : nat) (ringvalid : bool) : okind :=
  if keep && (n =? 1)%nat then OPoint
  else if keep && (1 <? n)%nat && (n <=? 3)%nat then OLine
  else if (n <=? 3)%nat then OEmpty
  else if ringvalid then ORing else OLine.
(* element kind, number of points left after removing repeated and non-finite points, "the zero-width buffer of the shell is
   not empty", "the ring is valid as a LinearRing" *)
Definition collapse_table (keep : bool) (k : ekind) (n : nat) (area ringvalid : bool) : okind :=
  match k with
  | EPoint => if (1 <=? n)%nat then OPoint else OEmpty
  | ELine => fix_line keep n
  | ERing => fix_ring keep n ringvalid
  | EPoly => if area then OArea else if keep then fix_line keep n else OEmpty
  end.
(* the component cannot be kept at its own kind *)
Definition collapsed (k : ekind) (n : nat) (area : bool) : bool :=
  match k with
  | EPoint => false
  | ELine => (n <=? 1)%nat
  | ERing => (n <=? 3)%nat
  | EPoly => negb area
  end.
Definition okind_code (o : okind) : Z := match o with OEmpty => 0 | OPoint => 1 | OLine => 2 | ORing => 3 | OArea => 4 end.

(* ================================================================ exact geometry used by the checker *)
(* nonzero winding: the area the zero-width buffer of both orientations of a ring keeps.  None = on the ring *)
Definition ring_nz (p : pt) (r : seq) : option bool :=
  if on_path p r then None else Some (negb (Z.quot (winding8 p r) 8 =? 0)).
Definition ring_nz_h (q : hpt) (r : seq) : option bool :=
  let '(x, y, w) := q in ring_nz (x, y) (map (scale_pt w) r).
Definition is_some_true (o : option bool) : bool := match o with Some true => true | _ => false end.
Definition is_none {A} (o : option A) : bool := match o with None => true | _ => false end.
(* the area "shell minus holes" at q: None when q is on one of the rings *)
Definition poly_area_h (q : hpt) (a : poly) : option bool :=
  if existsb (fun r => is_none (ring_nz_h q r)) (poly_rings a) then None
  else Some (is_some_true (ring_nz_h q (fst a)) && negb (existsb (fun h => is_some_true (ring_nz_h q h)) (snd a))).
(* ... of all polygons of a geometry (a union) *)
Definition area_expected (g : geom) (q : hpt) : option bool :=
  let vs := map (poly_area_h q) (polys_of g) in
  if existsb is_none vs then None else Some (existsb is_some_true vs).
Definition in_result_area (r : geom) (q : hpt) : option bool :=
  if existsb (fun a => location_eqb (loc_poly_h q a) Boundary) (polys_of r) then None
  else Some (existsb (fun a => location_eqb (loc_poly_h q a) Interior) (polys_of r)).

(* witnesses: the vertices of both geometries and the midpoints of every pair of them *)
Fixpoint pairs {A} (l : list A) : list (A * A) :=
  match l with [] => [] | a :: t => map (pair a) t ++ pairs t end.
Definition mem_pt (p : pt) (l : list pt) : bool := existsb (pt_eqb p) l.
Fixpoint nodup_pts (l : list pt) : list pt :=
  match l with [] => [] | a :: t => if mem_pt a t then nodup_pts t else a :: nodup_pts t end.
(* centroids of consecutive vertex triples of a sequence (inside the ears of a ring) *)
Fixpoint ear_points (l : seq) : list hpt :=
  match l with
  | a :: (b :: c :: _) as t => (fst a + fst b + fst c, snd a + snd b + snd c, 3) :: ear_points t
  | _ => []
  end.
Fixpoint seqs_of (g : geom) : list seq :=
  match g with
  | GPoint _ | GMPoint _ => []
  | GLine l | GRing l => [l]
  | GPoly s hs => s :: hs
  | GMLine ls => ls
  | GMPoly ps => flat_map poly_rings ps
  | GColl gs => flat_map seqs_of gs
  end.
(* centroids of all vertex triples (one lies inside every triangular face spanned by vertices); only for small vertex sets *)
Fixpoint triples (l : list pt) : list hpt :=
  match l with
  | [] => []
  | a :: t => map (fun bc => (fst a + fst (fst bc) + fst (snd bc), snd a + snd (fst bc) + snd (snd bc), 3)) (pairs t) ++ triples t
  end.
Definition witnesses (g r : geom) : list hpt :=
  let vs := nodup_pts (coords_of g ++ coords_of r) in
  map hp vs ++ map (fun ab => mid (fst ab) (snd ab)) (pairs vs)
  ++ flat_map ear_points (seqs_of g) ++ flat_map ear_points (seqs_of r)
  ++ (if (length vs <=? 16)%nat then triples vs else []).

(* envelope *)
Definition env_of (l : list pt) : option (Z * Z * Z * Z) :=
  match l with
  | [] => None
  | p :: t => Some (fold_left (fun e q => let '(x0, x1, y0, y1) := e in
                                         (Z.min x0 (fst q), Z.max x1 (fst q), Z.min y0 (snd q), Z.max y1 (snd q)))
                              t (fst p, fst p, snd p, snd p))
  end.
Definition env_within (r g : geom) : bool :=
  match env_of (coords_of r), env_of (coords_of g) with
  | None, _ => true
  | Some _, None => false
  | Some (a0, a1, b0, b1), Some (x0, x1, y0, y1) => (x0 <=? a0) && (a1 <=? x1) && (y0 <=? b0) && (b1 <=? y1)
  end.

(* witnesses closer than the tolerance sqrt(tn/td) to the linework of either geometry are left out: the result's vertices are
   rounded intersection points, so a witness built from them can sit within one rounding error of an input edge *)
Definition hd2 (q : hpt) (a : pt) : Z :=          (* squared distance of q = (x, y, w) from the grid point a, times w^2 *)
  let '(x, y, w) := q in (x - w * fst a) * (x - w * fst a) + (y - w * snd a) * (y - w * snd a).
Definition near_seg_h (tn td : Z) (q : hpt) (s : pt * pt) : bool :=
  let '(x, y, w) := q in
  let a := (w * fst (fst s), w * snd (fst s)) in let b := (w * fst (snd s), w * snd (snd s)) in
  let p := (x, y) in
  let d2pp := fun (u v : pt) => (fst u - fst v) * (fst u - fst v) + (snd u - snd v) * (snd u - snd v) in
  let tol := tn * w * w in
  if pt_eqb a b then d2pp p a * td <=? tol
  else let len2 := d2pp b a in
       let dot := (fst p - fst a) * (fst b - fst a) + (snd p - snd a) * (snd b - snd a) in
       if dot <=? 0 then d2pp p a * td <=? tol
       else if len2 <=? dot then d2pp p b * td <=? tol
       else let cr := orient a b p in cr * cr * td <=? tol * len2.
Definition all_segments (g : geom) : list (pt * pt) := flat_map segs (seqs_of g).
Definition clear_witnesses (tn td : Z) (g r : geom) : list hpt :=
  let ss := all_segments g ++ all_segments r in
  filter (fun q => negb (existsb (near_seg_h tn td q) ss)) (witnesses g r).

(* ================================================================ R: the clauses *)
Inductive method := Linework | Structure.
Definition c_valid (r : geom) : bool := valid_geom r.
Definition c_dim (g r : geom) : bool := dimension r <=? dimension g.
Definition c_env (g r : geom) : bool := env_within r g.
(* a valid input comes back with the same point set: same location of every witness *)
Definition c_equal (tn td : Z) (g r : geom) : bool :=
  forallb (fun q => location_eqb (loc_h g q) (loc_h r q)) (map hp (nodup_pts (coords_of g ++ coords_of r)) ++ clear_witnesses tn td g r).
(* linework: no input vertex is lost *)
Definition c_vertices (g r : geom) : bool :=
  forallb (fun v => negb (is_exterior (loc r v))) (coords_of g).
(* structure: the area is the union of the shells minus the holes (at the witnesses that are on no ring) *)
Definition c_area (tn td : Z) (g r : geom) : bool :=
  forallb (fun q => match area_expected g q, in_result_area r q with
                    | Some a, Some b => Bool.eqb a b
                    | _, _ => true
                    end) (clear_witnesses tn td g r).
(* structure: collapses are kept exactly when requested.  An element is collapsed when all its points are equal (lines) or
   collinear (rings, shells); kept = its vertices are on the result; not kept = the result has no part of lower dimension *)
Definition collinear3 (a b c : pt) : bool := orient a b c =? 0.
Definition flat (l : seq) : bool :=
  match nodup_pts l with
  | a :: b :: t => forallb (collinear3 a b) t
  | _ => true
  end.
Definition point_like (l : seq) : bool := (length (nodup_pts l) <=? 1)%nat.
Definition collapsed_vertices (g : geom) : list pt :=
  flat_map (fun l => if point_like l then l else []) (lines_of g)
  ++ flat_map (fun a => if flat (fst a) then fst a else []) (polys_of g).
Fixpoint has_lower_dim (d : Z) (r : geom) : bool :=
  match r with
  | GColl rs => existsb (has_lower_dim d) rs
  | _ => negb (is_empty r) && (dimension r <? d)
  end.
Definition top_dim (g : geom) : Z :=        (* dimension of the non-collection elements: uniform for Multi* and atoms *)
  match g with GColl _ => -1 | _ => dimension g end.
Definition c_keep (keep : bool) (g r : geom) : bool :=
  match g with
  | GColl _ => true                                   (* judged element by element, see check_struct *)
  | _ => if keep then forallb (fun v => negb (is_exterior (loc r v))) (collapsed_vertices g)
         else negb (has_lower_dim (top_dim g) r)
  end.

(* key of finding F10: a hole that has no common point with its shell (GeometryFixer::classifyHoles turns it into a shell) *)
Definition seg_meets (s t : pt * pt) : bool :=
  match seg_int (fst s) (snd s) (fst t) (snd t) with SNone => false | _ => true end.
Definition rings_apart (h s : seq) : bool :=
  forallb (fun v => match ring_nz v s with Some false => true | _ => false end) h
  && forallb (fun v => match ring_nz v h with Some false => true | _ => false end) s
  && negb (existsb (fun e => existsb (seg_meets e) (segs s)) (segs h)).
Definition f10_key (g : geom) : bool :=
  existsb (fun a => existsb (fun h => rings_apart h (fst a)) (snd a)) (polys_of g).

(* the structure method keeps the collection structure: collections are checked element by element *)
Fixpoint check_keep_tree (keep : bool) (g r : geom) : bool :=
  match g with
  | GColl gs => match r with
                | GColl rs => (fix go (gs rs : list geom) : bool :=
                                 match gs, rs with
                                 | [], [] => true
                                 | g1 :: gs', r1 :: rs' => check_keep_tree keep g1 r1 && go gs' rs'
                                 | _, _ => false
                                 end) gs rs
                | _ => false
                end
  | _ => c_keep keep g r
  end.

Definition fix_check (tn td : Z) (m : method) (keep valid_in : bool) (g r : geom) : bool :=
  c_valid r && c_dim g r && c_env g r && (negb valid_in || c_equal tn td g r)
  && match m with
     | Linework => c_vertices g r
     | Structure => c_area tn td g r && check_keep_tree keep g r
     end.
