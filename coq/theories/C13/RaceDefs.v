(* C13 — interleaving model (definitions only).

   Threads run sequences of API calls.  A call acts on the thread's PRIVATE state (its context handle and objects) and may touch
   process-wide SHARED cells (objects with static storage duration).  Each access to a shared cell is a read or a write, atomic or
   plain, possibly under a lock.  Accesses made during start-up (static initialisation, before any second thread exists) are
   ordered before everything and are not part of the traces.
   A data race = two accesses by different threads to the same cell, at least one a write, at least one plain, no common lock.
   (There is no other happens-before edge between threads that only use their own contexts: they never synchronise with each other.) *)
From Coq Require Import Bool List Arith.
Import ListNotations.

(* ---------------------------------------------------------------- accesses and races *)
Record access := mkAcc { a_thread : nat; a_cell : nat; a_write : bool; a_atomic : bool; a_lock : option nat }.

Definition same_lock (a b : access) : bool :=
  match a_lock a, a_lock b with Some x, Some y => Nat.eqb x y | _, _ => false end.

Definition conflict (a b : access) : bool :=
  negb (Nat.eqb (a_thread a) (a_thread b)) && Nat.eqb (a_cell a) (a_cell b) && (a_write a || a_write b)
  && (negb (a_atomic a) || negb (a_atomic b)) && negb (same_lock a b).

Definition race (tr : list access) : Prop := exists a b, In a tr /\ In b tr /\ conflict a b = true.
Definition has_race (tr : list access) : bool := existsb (fun a => existsb (conflict a) tr) tr.

(* how a shared cell may be used after start-up *)
Inductive cell_class :=
| CAtomic                (* every access is atomic *)
| CLocked (l : nat)      (* every access holds lock l *)
| CThreadLocal           (* one instance per thread: thread t only touches its own instance *)
| CReadOnly              (* written only during start-up *)
| CPlainWritten.         (* written after start-up by plain accesses: NOT acceptable *)

Definition class_ok (c : cell_class) : bool := match c with CPlainWritten => false | _ => true end.

(* an access conforms to the class of its cell; for thread-local cells the cell identity includes the thread:
   `tl_owner cell` is the thread owning that instance *)
Definition conforms (cls : nat -> cell_class) (tl_owner : nat -> nat) (a : access) : bool :=
  match cls (a_cell a) with
  | CAtomic => a_atomic a
  | CLocked l => match a_lock a with Some x => Nat.eqb x l | None => false end
  | CThreadLocal => Nat.eqb (tl_owner (a_cell a)) (a_thread a)
  | CReadOnly => negb (a_write a)
  | CPlainWritten => true
  end.

(* ---------------------------------------------------------------- interleavings and transcripts *)
Section Interleaving.
Variables P Sh Ob : Type.          (* private state of a thread, shared state, observable result of a call *)

(* one API call *)
Definition call := P -> Sh -> P * Sh * Ob.
Definition thread := list call.

(* a schedule picks, step by step, which thread runs its next call (ids beyond the thread list or exhausted threads: skipped) *)
Fixpoint upd {A} (n : nat) (x : A) (l : list A) : list A :=
  match l, n with
  | [], _ => []
  | _ :: t, 0 => x :: t
  | h :: t, S n => h :: upd n x t
  end.

(* thread record: current private state, remaining calls, transcript so far (most recent first) *)
Definition step (ts : list (P * thread * list Ob)) (s : Sh) (i : nat) : list (P * thread * list Ob) * Sh :=
  match nth_error ts i with
  | Some (p, c :: rest, out) => let '(p', s', o) := c p s in (upd i (p', rest, o :: out) ts, s')
  | _ => (ts, s)
  end.

Fixpoint run (sched : list nat) (ts : list (P * thread * list Ob)) (s : Sh) : list (P * thread * list Ob) * Sh :=
  match sched with
  | [] => (ts, s)
  | i :: sched => let '(ts', s') := step ts s i in run sched ts' s'
  end.

(* the thread alone: its first n calls, any shared state *)
Fixpoint alone (n : nat) (p : P) (t : thread) (s : Sh) (out : list Ob) : P * thread * list Ob * Sh :=
  match n, t with
  | S n, c :: rest => let '(p', s', o) := c p s in alone n p' rest s' (o :: out)
  | _, _ => (p, t, out, s)
  end.

(* a call whose private result and output do not depend on the shared state *)
Definition oblivious (c : call) : Prop :=
  forall p s s', fst (fst (c p s)) = fst (fst (c p s')) /\ snd (c p s) = snd (c p s').

Definition count_occ_nat (i : nat) (l : list nat) : nat := length (filter (Nat.eqb i) l).
End Interleaving.
