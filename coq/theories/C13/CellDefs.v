(* C13 — the inventory of writable objects with static storage duration: record type of the GENERATED file Gen/C13_Inventory.v
   (props/C13.py: `nm` on the built libgeos.so / libgeos_c.so cross-checked with a scan of the source, on every run)
   and the executable acceptance test `cell_ok`. *)
From Coq Require Import Bool List String ZArith.
Import ListNotations.
Local Open Scope string_scope.

Inductive cell_kind :=
| KGuard        (* compiler-generated guard of a function-local static: acquire/release protocol of __cxa_guard_* *)
| KRuntime      (* object of the C++ runtime / tool-chain (iostream initialiser ...): touched only while the library is loaded *)
| KObject.      (* an object defined by the library's source *)

Record cell_rec := mkCell {
  c_sym : string;            (* demangled symbol, or symbol.field for a mutable field of a shared singleton *)
  c_lib : string;
  c_section : string;        (* .data / .bss / .tbss ... *)
  c_size : Z;
  c_kind : cell_kind;
  c_decl : string;           (* declaration text found in the source ("" = not found) *)
  c_where : string;          (* file:line of the declaration *)
  c_atomic : bool;           (* declared std::atomic *)
  c_tls : bool;              (* thread_local, or in a TLS section *)
  c_mutex : bool;            (* every writer holds a lock (declared next to its mutex) *)
  c_stateless : bool;        (* an object without data members (only a vptr): nothing to write *)
  c_writers : list string;               (* functions that write it after its initialisation (source scan) *)
  c_writers_reachable : list string      (* those reachable from a reentrant (GEOS*_r) C API entry point *)
}.

(* a cell is harmless for threads that only use their own contexts iff ... *)
Definition cell_ok (c : cell_rec) : bool :=
  match c_kind c with
  | KGuard | KRuntime => true
  | KObject =>
      negb (String.eqb (c_decl c) "") &&                 (* we know what it is *)
      (c_atomic c || c_tls c || c_mutex c || c_stateless c ||
       match c_writers_reachable c with [] => true | _ => false end)
  end.

Definition exempt (keys : list string) (c : cell_rec) : bool := existsb (String.eqb (c_sym c)) keys.
Definition inventory_ok (keys : list string) (inv : list cell_rec) : bool :=
  forallb cell_ok (filter (fun c => negb (exempt keys c)) inv).

(* link with RaceDefs: the class of a cell *)
From GeosV.C13 Require Import RaceDefs.
Definition class_of (c : cell_rec) : cell_class :=
  match c_kind c with
  | KGuard => CAtomic
  | KRuntime => CReadOnly
  | KObject =>
      if c_atomic c then CAtomic else if c_tls c then CThreadLocal else if c_mutex c then CLocked 0
      else if c_stateless c then CReadOnly
      else match c_writers_reachable c with [] => CReadOnly | _ => CPlainWritten end
  end.
