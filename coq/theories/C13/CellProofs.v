(* C13 — an accepted inventory classifies every cell into a race-free class. *)
From Coq Require Import Bool List String ZArith.
From GeosV.C13 Require Import RaceDefs RaceProofs CellDefs.
Import ListNotations.

Lemma cell_ok_class_ok : forall c, cell_ok c = true -> class_ok (class_of c) = true.
Proof.
  intros c H. unfold cell_ok, class_of in *. destruct (c_kind c); try reflexivity.
  apply andb_prop in H as [_ H].
  destruct (c_atomic c); [reflexivity|]. destruct (c_tls c); [reflexivity|]. destruct (c_mutex c); [reflexivity|].
  destruct (c_stateless c); [reflexivity|]. cbn in H. destruct (c_writers_reachable c); [reflexivity|discriminate].
Qed.

Lemma cell_not_ok_plain_written_or_unknown : forall c, cell_ok c = false ->
  c_kind c = KObject /\ (c_decl c = ""%string \/ class_of c = CPlainWritten).
Proof.
  intros c H. unfold cell_ok, class_of in *. destruct (c_kind c); try discriminate. split; [reflexivity|].
  destruct (String.eqb (c_decl c) "") eqn:E; [left; apply String.eqb_eq; assumption|right]. cbn in H.
  destruct (c_atomic c); [discriminate|]. destruct (c_tls c); [discriminate|]. destruct (c_mutex c); [discriminate|].
  destruct (c_stateless c); [discriminate|]. cbn in H. destruct (c_writers_reachable c); [discriminate|reflexivity].
Qed.

(* T: if the inventory (cells numbered by position) is accepted, every trace whose accesses respect the classification of the
   cells it touches -- and touches no exempted cell -- is free of data races, whatever the number of threads and the interleaving *)
Theorem race_free_from_inventory : forall (keys : list string) (inv : list cell_rec) (dflt : cell_rec) (tl_owner : nat -> nat) (tr : list access),
  inventory_ok keys inv = true ->
  (forall a, In a tr -> a_cell a < List.length inv /\ exempt keys (nth (a_cell a) inv dflt) = false) ->
  (forall a, In a tr -> conforms (fun n => class_of (nth n inv dflt)) tl_owner a = true) ->
  ~ race tr.
Proof.
  intros keys inv dflt own tr Hinv Hin Hconf.
  apply race_free_if_inventory_ok with (cls := fun n => class_of (nth n inv dflt)) (tl_owner := own); [|assumption].
  intros a Ha. destruct (Hin a Ha) as [Hlt Hex]. apply cell_ok_class_ok.
  unfold inventory_ok in Hinv. rewrite forallb_forall in Hinv. apply Hinv. apply filter_In. split.
  - apply nth_In. assumption.
  - rewrite Hex. reflexivity.
Qed.
