(* C13 — facts closed BY COMPUTATION on the generated inventory of writable static-storage objects (Gen/C13_Inventory.v, rewritten from
   the built libraries and the source on every run: a new static that threads can write makes `inventory_accepted` unprovable). *)
From Coq Require Import Bool List String ZArith.
From GeosV.C13 Require Import RaceDefs RaceProofs CellDefs CellProofs.
From GeosV.Gen Require Import C13_Inventory.
Import ListNotations.
Local Open Scope string_scope.

Lemma inventory_accepted : inventory_ok exempt_keys inventory = true.
Proof. vm_compute. reflexivity. Qed.

(* hence: whatever the number of threads and the interleaving, a trace whose accesses to static-storage cells respect their
   classification and avoid the exempted (known-finding) cells has no data race *)
Lemma race_free_generated : forall (dflt : cell_rec) (tl_owner : nat -> nat) (tr : list access),
  (forall a, In a tr -> a_cell a < List.length inventory /\ exempt exempt_keys (nth (a_cell a) inventory dflt) = false) ->
  (forall a, In a tr -> conforms (fun n => class_of (nth n inventory dflt)) tl_owner a = true) ->
  ~ race tr.
Proof. intros. eapply race_free_from_inventory; eauto. exact inventory_accepted. Qed.

(* the generated data are not degenerate: the known process-wide objects were found and identified *)
Lemma inventory_wellformed :
  (20 <=? List.length inventory)%nat = true /\
  existsb (fun c => String.eqb (c_sym c) "(anonymous namespace)::requested" && negb (String.eqb (c_decl c) "")) inventory = true /\
  existsb (fun c => String.eqb (c_sym c) "geos::geom::GeometryFactory::getDefaultInstance()::defInstance._refCount") inventory = true /\
  existsb (fun c => match c_kind c with KGuard => true | _ => false end) inventory = true.
Proof. vm_compute. repeat split; reflexivity. Qed.
