(* C13 — lemmas: race freedom from the classification of cells; non-interference for every interleaving. *)
From Coq Require Import Bool List Arith Lia.
From GeosV.C13 Require Import RaceDefs.
Import ListNotations.

(* ------------------------------------------------------------------ T race_free_if_inventory_ok *)
Theorem race_free_if_inventory_ok : forall (cls : nat -> cell_class) (tl_owner : nat -> nat) (tr : list access),
  (forall a, In a tr -> class_ok (cls (a_cell a)) = true) ->
  (forall a, In a tr -> conforms cls tl_owner a = true) ->
  ~ race tr.
Proof.
  intros cls own tr Hok Hconf (a & b & Ha & Hb & Hc).
  unfold conflict in Hc. repeat (apply andb_prop in Hc; destruct Hc as [Hc ?]).
  rename H into Hlock, H0 into Hplain, H1 into Hwrite, H2 into Hcell. apply Nat.eqb_eq in Hcell.
  apply negb_true_iff in Hc. apply Nat.eqb_neq in Hc.
  pose proof (Hok a Ha) as Oa. pose proof (Hconf a Ha) as Ca. pose proof (Hconf b Hb) as Cb.
  unfold conforms in Ca, Cb. rewrite <- Hcell in Cb.
  destruct (cls (a_cell a)) as [|l| | |] eqn:E; try discriminate Oa.
  - rewrite Ca, Cb in Hplain. discriminate.
  - unfold same_lock in Hlock. destruct (a_lock a) as [x|]; [|discriminate]. destruct (a_lock b) as [y|]; [|discriminate].
    apply Nat.eqb_eq in Ca, Cb. subst. rewrite Nat.eqb_refl in Hlock. discriminate.
  - apply Nat.eqb_eq in Ca, Cb. rewrite Hcell in Ca. congruence.
  - apply negb_true_iff in Ca, Cb. rewrite Ca, Cb in Hwrite. discriminate.
Qed.

Lemma has_race_spec : forall tr, has_race tr = true <-> race tr.
Proof.
  intros tr. unfold has_race, race. rewrite existsb_exists. split.
  - intros (a & Ha & H). apply existsb_exists in H as (b & Hb & H). eauto.
  - intros (a & b & Ha & Hb & H). exists a. split; [assumption|]. apply existsb_exists. eauto.
Qed.

(* a plain write and any access of another thread to the same cell race: such a cell cannot be tolerated *)
Theorem plain_written_cell_races : forall c t1 t2 w, t1 <> t2 ->
  race [mkAcc t1 c true false None; mkAcc t2 c w false None].
Proof.
  intros c t1 t2 w Hne. exists (mkAcc t1 c true false None), (mkAcc t2 c w false None).
  repeat split; [left; reflexivity|right; left; reflexivity|].
  unfold conflict. cbn. apply Nat.eqb_neq in Hne. rewrite Hne, Nat.eqb_refl. reflexivity.
Qed.

(* ------------------------------------------------------------------ T noninterference *)
Section NI.
Variables P Sh Ob : Type.
Variable s_ref : Sh.                 (* the shared state the program starts from *)
Notation call := (call P Sh Ob).
Notation thread := (thread P Sh Ob).

Definition priv_of (x : P * thread * list Ob * Sh) : P * thread * list Ob := fst x.

(* running one more call of an oblivious thread: its private side can be computed with ANY shared state *)
Lemma alone_snoc : forall n (t : thread) p s out, Forall (@oblivious P Sh Ob) t ->
  forall s2, priv_of (alone P Sh Ob (S n) p t s out) =
    match priv_of (alone P Sh Ob n p t s out) with
    | (p', c :: rest, out') => let '(p'', _, o) := c p' s2 in (p'', rest, o :: out')
    | x => x
    end.
Proof.
  induction n as [|n IH]; intros t p s out Hob s2.
  - cbn. destruct t as [|c rest]; [reflexivity|]. cbn.
    inversion Hob as [|c0 r0 Hc Hrest]; subst. destruct (Hc p s s2) as [H1 H2].
    destruct (c p s) as [[p1 s1] o1]. destruct (c p s2) as [[p2 s3] o2]. cbn in *. subst. reflexivity.
  - destruct t as [|c rest]; [reflexivity|].
    inversion Hob as [|c0 r0 Hc Hrest]; subst.
    change (alone P Sh Ob (S (S n)) p (c :: rest) s out)
      with (let '(p', s', o) := c p s in alone P Sh Ob (S n) p' rest s' (o :: out)).
    change (alone P Sh Ob (S n) p (c :: rest) s out)
      with (let '(p', s', o) := c p s in alone P Sh Ob n p' rest s' (o :: out)).
    destruct (c p s) as [[p1 s1] o1]. apply IH. assumption.
Qed.

Lemma nth_error_upd_same : forall A (l : list A) i x, i < length l -> nth_error (upd i x l) i = Some x.
Proof. induction l as [|h t IH]; intros [|i] x H; cbn in *; try lia; auto. apply IH. lia. Qed.
Lemma nth_error_upd_other : forall A (l : list A) i j x, i <> j -> nth_error (upd i x l) j = nth_error l j.
Proof. induction l as [|h t IH]; intros [|i] [|j] x H; cbn in *; try congruence; auto. Qed.
Lemma length_upd : forall A (l : list A) i x, length (upd i x l) = length l.
Proof. induction l as [|h t IH]; intros [|i] x; cbn; auto. Qed.

(* invariant: after the scheduler has played `done`, thread i is exactly where it would be after running its first
   (number of occurrences of i in done) calls ALONE from the initial shared state *)
Definition agrees (init : list (P * thread)) (done : list nat) (ts : list (P * thread * list Ob)) : Prop :=
  length ts = length init /\
  forall i p t, nth_error init i = Some (p, t) ->
    nth_error ts i = Some (priv_of (alone P Sh Ob (count_occ_nat i done) p t s_ref [])).

Lemma count_snoc : forall j done i, count_occ_nat j (done ++ [i]) = count_occ_nat j done + (if Nat.eqb j i then 1 else 0).
Proof. intros j done i. unfold count_occ_nat. rewrite filter_app, app_length. cbn. destruct (Nat.eqb j i); cbn; lia. Qed.

Lemma agrees_step : forall init done ts s1 i,
  Forall (fun pt => Forall (@oblivious P Sh Ob) (snd pt)) init ->
  agrees init done ts -> agrees init (done ++ [i]) (fst (step P Sh Ob ts s1 i)).
Proof.
  intros init done ts s1 i Hob [Hlen Hag]. unfold step, agrees. unfold RaceDefs.thread in *.
  destruct (nth_error ts i) as [[[p t] out]|] eqn:Ei.
  2:{ cbn. split; [assumption|]. intros j pj tj Hj. rewrite count_snoc. destruct (Nat.eqb j i) eqn:Eji.
      - apply Nat.eqb_eq in Eji. subst. rewrite (Hag _ _ _ Hj) in Ei. discriminate.
      - rewrite Nat.add_0_r. auto. }
  assert (Hi : i < length ts) by (apply nth_error_Some; congruence).
  destruct (nth_error init i) as [[pi ti]|] eqn:Einit.
  2:{ apply nth_error_None in Einit. lia. }
  pose proof (Hag i pi ti Einit) as Hs0. rewrite Ei in Hs0. inversion Hs0 as [Hpriv]. clear Hs0.
  assert (Hobi : Forall (@oblivious P Sh Ob) ti).
  { rewrite Forall_forall in Hob. apply (Hob (pi, ti)). eapply nth_error_In; eauto. }
  destruct t as [|c rest].
  - cbn. split; [assumption|]. intros j pj tj Hj. rewrite count_snoc. destruct (Nat.eqb j i) eqn:Eji.
    + apply Nat.eqb_eq in Eji. subst j. rewrite Einit in Hj. inversion Hj; subst pj tj.
      rewrite Ei. f_equal. rewrite Nat.add_1_r. rewrite (alone_snoc _ _ _ _ _ Hobi s1). rewrite <- Hpriv. reflexivity.
    + rewrite Nat.add_0_r. auto.
  - destruct (c p s1) as [[p' s''] o] eqn:Ec. cbn. split; [rewrite length_upd; assumption|].
    intros j pj tj Hj. rewrite count_snoc. destruct (Nat.eqb j i) eqn:Eji.
    + apply Nat.eqb_eq in Eji. subst j. rewrite Einit in Hj. inversion Hj; subst pj tj.
      rewrite nth_error_upd_same by assumption. f_equal. rewrite Nat.add_1_r.
      rewrite (alone_snoc _ _ _ _ _ Hobi s1). rewrite <- Hpriv. rewrite Ec. reflexivity.
    + apply Nat.eqb_neq in Eji. rewrite nth_error_upd_other by congruence. rewrite Nat.add_0_r. auto.
Qed.

Lemma agrees_run : forall init sched done ts s1,
  Forall (fun pt => Forall (@oblivious P Sh Ob) (snd pt)) init ->
  agrees init done ts -> agrees init (done ++ sched) (fst (run P Sh Ob sched ts s1)).
Proof.
  intros init sched. induction sched as [|i sched IH]; intros done ts s1 Hob Hag.
  - rewrite app_nil_r. exact Hag.
  - cbn [run]. pose proof (agrees_step init done ts s1 i Hob Hag) as Hst.
    destruct (step P Sh Ob ts s1 i) as [ts' s']. cbn [fst] in Hst.
    replace (done ++ i :: sched) with ((done ++ [i]) ++ sched) by (rewrite <- app_assoc; reflexivity).
    apply IH; assumption.
Qed.

Definition start (init : list (P * thread)) : list (P * thread * list Ob) := map (fun pt => (fst pt, snd pt, [])) init.

Lemma agrees_start : forall init, agrees init [] (start init).
Proof.
  intros init. split; [unfold start; rewrite map_length; reflexivity|].
  intros i p t H. unfold start. rewrite nth_error_map, H. reflexivity.
Qed.

(* T noninterference: for EVERY schedule, every thread is -- in private state, remaining program and transcript -- exactly where its
   sequential execution (alone, from the initial shared state) is after the same number of its calls *)
Theorem noninterference : forall (init : list (P * thread)) (sched : list nat) i p t,
  Forall (fun pt => Forall (@oblivious P Sh Ob) (snd pt)) init ->
  nth_error init i = Some (p, t) ->
  nth_error (fst (run P Sh Ob sched (start init) s_ref)) i =
  Some (priv_of (alone P Sh Ob (count_occ_nat i sched) p t s_ref [])).
Proof.
  intros init sched i p t Hob Hi.
  pose proof (agrees_run init sched [] (start init) s_ref Hob (agrees_start init)) as [_ H].
  cbn [app] in H. apply H. assumption.
Qed.

(* ... in particular the transcripts of two schedules that give thread i the same number of turns coincide *)
Corollary transcripts_schedule_independent : forall init sched1 sched2 i p t,
  Forall (fun pt => Forall (@oblivious P Sh Ob) (snd pt)) init ->
  nth_error init i = Some (p, t) -> count_occ_nat i sched1 = count_occ_nat i sched2 ->
  nth_error (fst (run P Sh Ob sched1 (start init) s_ref)) i = nth_error (fst (run P Sh Ob sched2 (start init) s_ref)) i.
Proof. intros. rewrite !(noninterference init _ i p t) by assumption. congruence. Qed.
End NI.

(* the hypothesis cannot be dropped: a call that reports a shared counter it also increments (a reference count that is observed)
   gives transcripts that depend on the schedule *)
Definition leaky : call unit nat nat := fun p s => (p, S s, s).
Example interference_witness :
  let init := [(tt, [leaky]); (tt, [leaky])] in
  nth_error (fst (run unit nat nat [0; 1] (start unit nat nat init) 0)) 1 <>
  nth_error (fst (run unit nat nat [1; 0] (start unit nat nat init) 0)) 1.
Proof. cbn. discriminate. Qed.
