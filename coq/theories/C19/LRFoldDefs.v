(* C19/LRFoldDefs — executable (rational) form of the loop of LengthIndexOfPoint::indexOfFromStart, threading
   (minDistance, ptMeasure, segmentStartMeasure) as the C++ does (C19/LRMeasure.idx_step is the same loop over the reals with the
   GENERATED leaf functions).  Segment lengths are given (as in LinRefDefs); the distances are compared by their exact squares
   (d2_pt_seg; the order of non-negative numbers is the order of their squares); segmentNearestMeasure = segmentStartMeasure +
   (clamped projection factor) * length.  Run beside GEOSProject_r by props/C19.py.  Definitions only. *)
From Coq Require Import QArith List ZArith.
From GeosV.C19 Require Import LinRefDefs.
Import ListNotations.
Local Open Scope Q_scope.

Definition idxq_state := (option Q * Q * Q)%type.
Definition idxq_step (p : zpt) (minIndex : Q) (acc : idxq_state) (sl : (zpt * zpt) * Q) : idxq_state :=
  let '(minD, ptM, start) := acc in
  let '((a, b), len) := sl in
  let segD2 := d2_pt_seg p a b in
  let segMeasureToPt := start + proj_frac p a b * len in
  let nearer := match minD with None => true | Some v => Qltb segD2 v end in
  if (nearer && Qltb minIndex segMeasureToPt)%bool then (Some segD2, segMeasureToPt, start + len)
  else (minD, ptM, start + len).
Definition index_of_from_start_q (g : lin) (gz : geomz) (p : zpt) (minIndex : Q) : Q :=
  snd (fst (fold_left (idxq_step p minIndex) (combine (all_segs gz) (concat g)) (None, minIndex, 0))).
(* LengthIndexOfPoint::indexOf *)
Definition index_of_q (g : lin) (gz : geomz) (p : zpt) : Q := index_of_from_start_q g gz p (-1).
