(* C19 — project / interpolate on the model: for a single LineString the point interpolated at the projected distance realises
   the minimum over the segments of the exact squared point-segment distance, and that distance is the minimum over all
   rational points of the segment.  For a MultiLineString the statement is refuted (start of a later component). *)
From Coq Require Import QArith Qabs List Bool Arith ZArith Lia Lqa Psatz.
From GeosV.C19 Require Import LinRefDefs LinRefProofs.
Import ListNotations.
Local Open Scope Q_scope.

Definition qpt_eq (p q : qpt) : Prop := fst p == fst q /\ snd p == snd q.
Lemma qd2_proper p q q' : qpt_eq q q' -> qd2 p q == qd2 p q'.
Proof. intros [H1 H2]. unfold qd2. rewrite H1, H2. reflexivity. Qed.

Lemma zpt_eqb_eq a b : zpt_eqb a b = true -> a = b.
Proof.
  unfold zpt_eqb. intros H. apply andb_true_iff in H. destruct H as [H1 H2].
  apply Z.eqb_eq in H1. apply Z.eqb_eq in H2. destruct a, b. cbn in *. congruence.
Qed.

(* ------------------------------------------------------------------ integers into rationals *)
Lemma inj_sub x y : inject_Z (x - y) == inject_Z x - inject_Z y.
Proof. unfold Z.sub, Qminus. rewrite inject_Z_plus, inject_Z_opp. reflexivity. Qed.
Lemma qd2_inj p q : qd2 (q_of_z p) (q_of_z q) == inject_Z (zd2 p q).
Proof.
  unfold qd2, q_of_z, zd2, zsq. cbn [fst snd]. rewrite inject_Z_plus, !inject_Z_mult, !inj_sub. reflexivity.
Qed.
Lemma q_of_zz_div n d : (0 < d)%Z -> q_of_zz n d == inject_Z n / inject_Z d.
Proof. intros H. destruct d; try lia. unfold q_of_zz. apply Qmake_Qdiv. Qed.

(* the foot of the perpendicular: |v - (D/L) u|^2 = C^2 / L *)
Lemma foot_identity (px py ax ay bx by' : Q) :
  let ux := bx - ax in let uy := by' - ay in let vx := px - ax in let vy := py - ay in
  let L := ux * ux + uy * uy in let D := vx * ux + vy * uy in let C := (ay - py) * ux - (ax - px) * uy in
  ~ L == 0 ->
  (px - (ux * (D / L) + ax)) * (px - (ux * (D / L) + ax)) + (py - (uy * (D / L) + ay)) * (py - (uy * (D / L) + ay)) == C * C / L.
Proof. intros ux uy vx vy L D C H. unfold C, D, L, vx, vy, ux, uy in *. field. exact H. Qed.

(* squared distance from v to t u, as a function of t *)
Section Par.
  Variables vx vy ux uy : Q.
  Let dot := vx * ux + vy * uy.
  Let len2 := ux * ux + uy * uy.
  Let cr := vx * uy - vy * ux.
  Let v2 := vx * vx + vy * vy.
  Definition dpar t := (vx - t * ux) * (vx - t * ux) + (vy - t * uy) * (vy - t * uy).
  Lemma dpar_expand t : dpar t == v2 - 2 * t * dot + t * t * len2.
  Proof. unfold dpar, v2, dot, len2. ring. Qed.
  Lemma sqq x : 0 <= x * x.
  Proof. destruct (Qlt_le_dec x 0); [|apply Qmult_le_0_compat; assumption].
         setoid_replace (x * x) with ((- x) * (- x)) by ring. apply Qmult_le_0_compat; lra. Qed.
  Lemma len2_nonneg : 0 <= len2.
  Proof. unfold len2. pose proof (sqq ux). pose proof (sqq uy). lra. Qed.
  Lemma case_before t : dot <= 0 -> 0 <= t -> v2 <= dpar t.
  Proof.
    intros Hd Ht. rewrite dpar_expand. pose proof len2_nonneg.
    assert (0 <= t * (- dot)) by (apply Qmult_le_0_compat; lra).
    assert (0 <= t * t * len2) by (apply Qmult_le_0_compat; [apply sqq | assumption]). lra.
  Qed.
  Lemma case_after t : len2 <= dot -> 0 <= t -> t <= 1 -> dpar 1 <= dpar t.
  Proof.
    intros Hd Ht0 Ht1. rewrite !dpar_expand. pose proof len2_nonneg.
    assert (A : 0 <= len2 * (1 - t)) by (apply Qmult_le_0_compat; lra).
    assert (0 <= (1 - t) * (2 * dot - len2 * (1 + t))) by (apply Qmult_le_0_compat; lra).
    lra.
  Qed.
  Lemma lagrange : len2 * v2 == dot * dot + cr * cr.
  Proof. unfold len2, v2, dot, cr. ring. Qed.
  Lemma case_perp t : 0 < len2 -> cr * cr / len2 <= dpar t.
  Proof.
    intros Hl. apply Qle_shift_div_r; [exact Hl|].
    assert (E : dpar t * len2 == cr * cr + (dot - t * len2) * (dot - t * len2)).
    { rewrite dpar_expand. pose proof lagrange. lra. }
    rewrite E. pose proof (sqq (dot - t * len2)). lra.
  Qed.
End Par.

(* ------------------------------------------------------------------ d2_pt_seg is the minimum over the segment *)
Notation X := inject_Z.
Definition seg_pt (a b : zpt) (t : Q) : qpt :=
  (X (fst a) + t * (X (fst b) - X (fst a)), X (snd a) + t * (X (snd b) - X (snd a))).

Lemma inj_zdot p a b : X (zdot p a b) ==
  (X (fst p) - X (fst a)) * (X (fst b) - X (fst a)) + (X (snd p) - X (snd a)) * (X (snd b) - X (snd a)).
Proof. unfold zdot. rewrite inject_Z_plus, !inject_Z_mult, !inj_sub. reflexivity. Qed.
Lemma inj_zd2 p a : X (zd2 p a) ==
  (X (fst p) - X (fst a)) * (X (fst p) - X (fst a)) + (X (snd p) - X (snd a)) * (X (snd p) - X (snd a)).
Proof. unfold zd2, zsq. rewrite inject_Z_plus, !inject_Z_mult, !inj_sub. reflexivity. Qed.
Lemma inj_zcross2 p a b : X (zsq (zcross p a b)) ==
  ((X (snd a) - X (snd p)) * (X (fst b) - X (fst a)) - (X (fst a) - X (fst p)) * (X (snd b) - X (snd a))) *
  ((X (snd a) - X (snd p)) * (X (fst b) - X (fst a)) - (X (fst a) - X (fst p)) * (X (snd b) - X (snd a))).
Proof. unfold zsq, zcross. rewrite !inject_Z_mult, !inj_sub, !inject_Z_mult, !inj_sub. reflexivity. Qed.

Lemma qd2_seg_pt p a b t : qd2 (q_of_z p) (seg_pt a b t) ==
  dpar (X (fst p) - X (fst a)) (X (snd p) - X (snd a)) (X (fst b) - X (fst a)) (X (snd b) - X (snd a)) t.
Proof. unfold qd2, seg_pt, q_of_z, dpar. cbn [fst snd]. ring. Qed.

Theorem d2_pt_seg_min p a b t : 0 <= t -> t <= 1 -> d2_pt_seg p a b <= qd2 (q_of_z p) (seg_pt a b t).
Proof.
  intros T0 T1. rewrite qd2_seg_pt. unfold d2_pt_seg.
  set (vx := X (fst p) - X (fst a)). set (vy := X (snd p) - X (snd a)).
  set (ux := X (fst b) - X (fst a)). set (uy := X (snd b) - X (snd a)).
  destruct (zpt_eqb a b) eqn:Eab.
  - apply zpt_eqb_eq in Eab. subst b. rewrite inj_zd2. fold vx vy.
    assert (U1 : ux == 0) by (unfold ux; ring). assert (U2 : uy == 0) by (unfold uy; ring).
    unfold dpar. rewrite U1, U2. ring_simplify. apply Qle_refl.
  - destruct (zdot p a b <=? 0)%Z eqn:E1.
    + apply Z.leb_le in E1. rewrite Zle_Qle in E1. change (X 0) with 0 in E1. rewrite inj_zdot in E1. fold vx vy ux uy in E1.
      rewrite inj_zd2. fold vx vy. apply case_before; assumption.
    + destruct (zd2 b a <=? zdot p a b)%Z eqn:E2.
      * apply Z.leb_le in E2. rewrite Zle_Qle in E2. rewrite inj_zdot, inj_zd2 in E2. fold vx vy ux uy in E2.
        assert (E : X (zd2 p b) == dpar vx vy ux uy 1).
        { rewrite inj_zd2. unfold dpar, vx, vy, ux, uy. ring. }
        rewrite E. apply case_after; assumption.
      * apply Z.leb_gt in E1. apply Z.leb_gt in E2.
        assert (L0 : (0 < zd2 b a)%Z) by lia.
        rewrite (q_of_zz_div _ _ L0). rewrite inj_zcross2, inj_zd2. fold vx vy ux uy.
        assert (Lq : 0 < ux * ux + uy * uy).
        { unfold ux, uy. rewrite <- inj_zd2. change 0 with (X 0). rewrite <- Zlt_Qlt. exact L0. }
        assert (Ec : ((X (snd a) - X (snd p)) * ux - (X (fst a) - X (fst p)) * uy) == vx * uy - vy * ux)
          by (unfold vx, vy; ring).
        rewrite Ec. apply case_perp. exact Lq.
Qed.

(* ------------------------------------------------------------------ the projection picks a segment of minimum distance *)
Lemma proj_comp_spec p ci : forall c vi best d l, proj_comp p ci vi c best = Some (d, l) ->
  (forall ab, In ab (segs_of c) -> d <= d2_pt_seg p (fst ab) (snd ab)) /\
  (match best with Some (bd, _) => d <= bd | None => True end) /\
  (best = Some (d, l) \/
   exists k a b, nth_error (segs_of c) k = Some (a, b) /\ l = mkLoc ci (vi + k) (proj_frac p a b) /\ d = d2_pt_seg p a b).
Proof.
  induction c as [|a t IH]; intros vi best d l H.
  - cbn in H. split; [intros ab []|]. split; [| left; exact H]. rewrite H. apply Qle_refl.
  - destruct t as [|b t'].
    + cbn in H. split; [intros ab []|]. split; [| left; exact H]. rewrite H. apply Qle_refl.
    + change (proj_comp p ci vi (a :: b :: t') best) with
        (proj_comp p ci (S vi) (b :: t')
           (match best with
            | Some (bd, _) => if Qltb (d2_pt_seg p a b) bd then Some (d2_pt_seg p a b, mkLoc ci vi (proj_frac p a b)) else best
            | None => Some (d2_pt_seg p a b, mkLoc ci vi (proj_frac p a b))
            end)) in H.
      change (segs_of (a :: b :: t')) with ((a, b) :: segs_of (b :: t')).
      apply IH in H. destruct H as [H1 [H2 H3]].
      destruct best as [[bd bl]|].
      * destruct (Qltb (d2_pt_seg p a b) bd) eqn:E.
        -- apply Qltb_true in E. split; [| split].
           ++ intros ab [<- | Hin]; [exact H2 | apply H1; exact Hin].
           ++ lra.
           ++ right. destruct H3 as [H3 | [k [a' [b' [K1 [K2 K3]]]]]].
              ** injection H3 as <- <-. exists 0%nat, a, b. rewrite Nat.add_0_r. auto.
              ** exists (S k), a', b'. rewrite Nat.add_succ_r. auto.
        -- apply Qltb_false in E. split; [| split].
           ++ intros ab [<- | Hin]; [cbn [fst snd]; lra | apply H1; exact Hin].
           ++ exact H2.
           ++ destruct H3 as [H3 | [k [a' [b' [K1 [K2 K3]]]]]]; [left; exact H3|].
              right. exists (S k), a', b'. rewrite Nat.add_succ_r. auto.
      * split; [| split; [exact I|]].
        -- intros ab [<- | Hin]; [exact H2 | apply H1; exact Hin].
        -- right. destruct H3 as [H3 | [k [a' [b' [K1 [K2 K3]]]]]].
           ++ injection H3 as <- <-. exists 0%nat, a, b. rewrite Nat.add_0_r. auto.
           ++ exists (S k), a', b'. rewrite Nat.add_succ_r. auto.
Qed.

Lemma proj_frac_range p a b : 0 <= proj_frac p a b /\ proj_frac p a b <= 1.
Proof.
  unfold proj_frac. destruct (zpt_eqb a b); [split; [discriminate | apply Qle_refl]|].
  destruct (zdot p a b <=? 0)%Z eqn:E1; [split; [apply Qle_refl | discriminate]|].
  destruct (zd2 b a <=? zdot p a b)%Z eqn:E2; [split; [discriminate | apply Qle_refl]|].
  apply Z.leb_gt in E1. apply Z.leb_gt in E2. destruct (zd2 b a) eqn:L; try lia. unfold q_of_zz.
  split; unfold Qle; cbn; lia.
Qed.

Lemma segs_nth c : forall k a b d, nth_error (segs_of c) k = Some (a, b) ->
  nth k c d = a /\ nth (S k) c d = b /\ (S k < length c)%nat.
Proof.
  induction c as [|x t IH]; intros k a b d H; [destruct k; discriminate|].
  destruct t as [|y t']; [destruct k; discriminate|].
  change (segs_of (x :: y :: t')) with ((x, y) :: segs_of (y :: t')) in H.
  destruct k as [|k].
  - injection H as <- <-. cbn. repeat split. lia.
  - cbn [nth_error] in H. destruct (IH k a b d H) as [I1 [I2 I3]]. cbn [nth length] in *. repeat split; auto. lia.
Qed.

(* distance from p to the point at the projection fraction = the point-segment distance *)
Lemma along_proj_d2 p a b : qd2 (q_of_z p) (along a b (proj_frac p a b)) == d2_pt_seg p a b.
Proof.
  unfold proj_frac, d2_pt_seg, along. destruct (zpt_eqb a b) eqn:Eab.
  - apply zpt_eqb_eq in Eab. subst b. cbn. apply qd2_inj.
  - destruct (zdot p a b <=? 0)%Z eqn:E1; [cbn; apply qd2_inj|].
    destruct (zd2 b a <=? zdot p a b)%Z eqn:E2; [cbn; apply qd2_inj|].
    apply Z.leb_gt in E1. apply Z.leb_gt in E2. assert (L0 : (0 < zd2 b a)%Z) by lia.
    assert (F0 : Qle_bool (q_of_zz (zdot p a b) (zd2 b a)) 0 = false).
    { apply Qleb_false. destruct (zd2 b a) eqn:L; try lia. unfold q_of_zz, Qlt. cbn. lia. }
    assert (F1 : Qle_bool 1 (q_of_zz (zdot p a b) (zd2 b a)) = false).
    { apply Qleb_false. destruct (zd2 b a) eqn:L; try lia. unfold q_of_zz, Qlt. cbn. lia. }
    rewrite F0, F1. unfold qd2, q_of_z. cbn [fst snd].
    rewrite !(q_of_zz_div _ _ L0). rewrite inj_zcross2, inj_zdot, inj_zd2.
    assert (Lq : ~ (X (fst b) - X (fst a)) * (X (fst b) - X (fst a)) + (X (snd b) - X (snd a)) * (X (snd b) - X (snd a)) == 0).
    { rewrite <- inj_zd2. intros C. change 0 with (X 0) in C. apply (proj1 (inject_Z_injective _ _)) in C. lia. }
    apply (foot_identity (X (fst p)) (X (snd p)) (X (fst a)) (X (snd a)) (X (fst b)) (X (snd b)) Lq).
Qed.

(* ------------------------------------------------------------------ a single LineString *)
Lemma qpt_eq_refl p : qpt_eq p p.
Proof. split; reflexivity. Qed.
Lemma Qle_bool_proper a a' b b' : a == a' -> b == b' -> Qle_bool a b = Qle_bool a' b'.
Proof.
  intros Ha Hb. destruct (Qle_bool a b) eqn:E1, (Qle_bool a' b') eqn:E2; try reflexivity.
  - apply Qleb_true in E1. apply Qleb_false in E2. rewrite Ha, Hb in E1. lra.
  - apply Qleb_false in E1. apply Qleb_true in E2. rewrite Ha, Hb in E1. lra.
Qed.
Lemma along_proper a b f f' : f == f' -> qpt_eq (along a b f) (along a b f').
Proof.
  intros H. unfold along. rewrite (Qle_bool_proper f f' 0 0 H (Qeq_refl 0)), (Qle_bool_proper 1 1 f f' (Qeq_refl 1) H).
  destruct (Qle_bool f' 0); [apply qpt_eq_refl|]. destruct (Qle_bool 1 f'); [apply qpt_eq_refl|].
  split; cbn [fst snd]; rewrite H; reflexivity.
Qed.
Lemma point_of_loc_proper gz l l' : loc_eq l l' -> qpt_eq (point_of_loc gz l) (point_of_loc gz l').
Proof.
  destruct l as [c s f], l' as [c' s' f']. unfold loc_eq. cbn [lcomp lseg lfrac]. intros [-> [-> H]].
  unfold point_of_loc. cbn [lcomp lseg lfrac]. destruct (_ <=? _)%nat; [apply qpt_eq_refl | apply along_proper; exact H].
Qed.

Lemma valid_single lens : forall vi k l, lcomp l = 0%nat -> lseg l = (vi + k)%nat -> (k < length lens)%nat ->
  0 <= lfrac l -> lfrac l <= 1 -> valid_t (map TSeg lens ++ [TEnd]) 0 vi l.
Proof.
  induction lens as [|s r IH]; intros vi k l H1 H2 H3 F0 F1; [cbn in H3; lia|].
  cbn [map app valid_t]. destruct k as [|k].
  - left. repeat split; auto. lia.
  - right. apply (IH (S vi) k); auto; cbn in H3; lia.
Qed.
Lemma norm_single lens : forall vi k l, lcomp l = 0%nat -> lseg l = (vi + k)%nat -> (k < length lens)%nat ->
  normt (map TSeg lens ++ [TEnd]) 0 vi None l =
  if Qeq_bool (lfrac l) 1 then mkLoc 0 (S (lseg l)) 0 else mkLoc 0 (lseg l) (lfrac l).
Proof.
  induction lens as [|s r IH]; intros vi k l H1 H2 H3; [cbn in H3; lia|].
  cbn [map app normt]. destruct k as [|k].
  - rewrite Nat.add_0_r in H2. rewrite H1, H2, !Nat.eqb_refl. cbn [andb]. reflexivity.
  - assert (E : (lseg l =? vi)%nat = false) by (apply Nat.eqb_neq; lia). rewrite E, andb_false_r.
    apply (IH (S vi) k); auto; cbn in H3; lia.
Qed.
Lemma length_segs_of c : length (segs_of c) = pred (length c).
Proof.
  induction c as [|a t IH]; [reflexivity|]. destruct t as [|b t']; [reflexivity|].
  change (segs_of (a :: b :: t')) with ((a, b) :: segs_of (b :: t')). cbn [length] in *. rewrite IH. reflexivity.
Qed.

Theorem project_interpolate_nearest lens c p l :
  Forall (fun s => 0 < s) lens -> lens <> [] -> length lens = pred (length c) ->
  project_loc [c] p = Some l ->
  let q := interpolate [lens] [c] (project [lens] [c] p) in
  (forall ab, In ab (segs_of c) -> qd2 (q_of_z p) q <= d2_pt_seg p (fst ab) (snd ab)) /\
  (exists ab, In ab (segs_of c) /\ qd2 (q_of_z p) q == d2_pt_seg p (fst ab) (snd ab)).
Proof.
  intros Hpos Hne Hlen Hp q.
  assert (W : wf [lens]) by (split; [discriminate | constructor; [split; assumption | constructor]]).
  unfold project_loc in Hp. cbn [proj_geom] in Hp.
  destruct (proj_comp p 0 0 c None) as [[d l0]|] eqn:PC; [|discriminate]. cbn in Hp. injection Hp as ->.
  destruct (proj_comp_spec p 0%nat c 0%nat None d l PC) as [Hmin [_ [C | [k [a [b [K1 [K2 K3]]]]]]]]; [discriminate|].
  cbn [Nat.add] in K2.
  destruct (segs_nth c k a b (0%Z, 0%Z) K1) as [Na [Nb Nk]].
  assert (Kl : (k < length lens)%nat).
  { rewrite Hlen, <- length_segs_of. apply nth_error_Some. congruence. }
  destruct (proj_frac_range p a b) as [F0 F1].
  assert (Tk : toks [lens] = map TSeg lens ++ [TEnd]) by reflexivity.
  assert (V : valid_loc [lens] l).
  { unfold valid_loc. rewrite Tk. apply (valid_single lens 0%nat k); subst l; cbn; auto. }
  assert (PL : project [lens] [c] p = len_of [lens] l).
  { unfold project, project_loc. cbn [proj_geom]. rewrite PC. reflexivity. }
  assert (L0 : 0 <= len_of [lens] l).
  { unfold len_of. apply len_of_ge; [apply wf_toks; exact (proj2 W) | subst l; exact F0]. }
  assert (Q1 : qpt_eq q (point_of_loc [c] (normalise [lens] l))).
  { unfold q, interpolate. rewrite PL, (get_location_nonneg _ _ L0). apply point_of_loc_proper.
    apply length_location_roundtrip; assumption. }
  assert (Q2 : qpt_eq (point_of_loc [c] (normalise [lens] l)) (along a b (proj_frac p a b))).
  { unfold normalise. rewrite Tk. rewrite (norm_single lens 0%nat k l) by (subst l; cbn; auto).
    subst l. cbn [lfrac lseg]. destruct (Qeq_bool (proj_frac p a b) 1) eqn:E1.
    - apply Qeqb_true in E1. unfold point_of_loc. cbn [lcomp lseg lfrac nth]. rewrite Nb.
      assert (A1 : qpt_eq (along a b (proj_frac p a b)) (q_of_z b)).
      { unfold along. rewrite (Qle_bool_proper _ 1 0 0 E1 (Qeq_refl 0)), (Qle_bool_proper 1 1 _ 1 (Qeq_refl 1) E1). cbn. apply qpt_eq_refl. }
      destruct A1 as [A1 A2]. destruct (_ <=? _)%nat; [split; symmetry; assumption|].
      unfold along. cbn. split; symmetry; assumption.
    - unfold point_of_loc. cbn [lcomp lseg lfrac nth]. rewrite Na, Nb.
      assert (E : (length c - 1 <=? k)%nat = false) by (apply Nat.leb_gt; lia). rewrite E. apply qpt_eq_refl. }
  assert (QD : qd2 (q_of_z p) q == d).
  { rewrite (qd2_proper _ _ _ Q1), (qd2_proper _ _ _ Q2), along_proj_d2. rewrite K3. reflexivity. }
  split.
  - intros ab Hin. rewrite QD. apply Hmin. exact Hin.
  - exists (a, b). split; [apply nth_error_In with (n := k); exact K1|]. rewrite QD, K3. reflexivity.
Qed.

(* ... hence no rational point of the line is closer to p than the interpolated point *)
Corollary project_interpolate_nearest_on_line lens c p l :
  Forall (fun s => 0 < s) lens -> lens <> [] -> length lens = pred (length c) ->
  project_loc [c] p = Some l ->
  forall ab t, In ab (segs_of c) -> 0 <= t -> t <= 1 ->
  qd2 (q_of_z p) (interpolate [lens] [c] (project [lens] [c] p)) <= qd2 (q_of_z p) (seg_pt (fst ab) (snd ab) t).
Proof.
  intros H1 H2 H3 H4 ab t Hin T0 T1.
  destruct (project_interpolate_nearest lens c p l H1 H2 H3 H4) as [A _].
  eapply Qle_trans; [apply A; exact Hin | apply d2_pt_seg_min; assumption].
Qed.

(* a MultiLineString: the start of a later component has the same length index as the end of the previous one, and
   getLocationForward resolves to the latter — the interpolated point is not the nearest one *)
Definition mref_g : lin := [[10]; [10]].
Definition mref_gz : geomz := [[(0, 0); (10, 0)]; [(20, 5); (30, 5)]]%Z.
Definition mref_p : zpt := (19, 5)%Z.
Theorem project_interpolate_multi_refuted :
  wf mref_g /\ shape_ok mref_g mref_gz /\
  project mref_g mref_gz mref_p == 10 /\
  qpt_eq (interpolate mref_g mref_gz (project mref_g mref_gz mref_p)) (10, 0) /\
  qd2 (q_of_z mref_p) (interpolate mref_g mref_gz (project mref_g mref_gz mref_p)) == 106 /\
  d2_pt_seg mref_p (20, 5)%Z (30, 5)%Z == 1.
Proof.
  split; [split; [discriminate | repeat constructor; discriminate || reflexivity]|].
  split; [reflexivity|]. split; [vm_compute; reflexivity|]. split; [split; vm_compute; reflexivity|].
  split; vm_compute; reflexivity.
Qed.
