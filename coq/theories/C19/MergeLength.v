(* C19 — equal multisets of unit sub-segments give equal total (Euclidean) length.  Over the reals (sqrt). *)
From Coq Require Import ZArith List Bool Lia Reals Lra Permutation.
From GeosV.C19 Require Import CheckDefs CheckLists CheckGeom.
Import ListNotations.
Local Open Scope R_scope.

Definition seg_len (s : seg) : R := sqrt (IZR (d2 (fst s) (snd s))).
Definition total_len (ss : list seg) : R := fold_right (fun s acc => seg_len s + acc) 0 ss.

Lemma total_len_cons s a : total_len (s :: a) = seg_len s + total_len a.
Proof. reflexivity. Qed.
Lemma total_len_nil : total_len [] = 0.
Proof. reflexivity. Qed.
Lemma total_len_app a b : total_len (a ++ b) = total_len a + total_len b.
Proof.
  induction a as [|s a IH].
  - cbn [app]. rewrite total_len_nil. lra.
  - change ((s :: a) ++ b) with (s :: (a ++ b)). rewrite !total_len_cons, IH. lra.
Qed.
Lemma total_len_perm a b : Permutation a b -> total_len a = total_len b.
Proof. induction 1; rewrite ?total_len_cons in *; lra. Qed.
Lemma seg_len_norm s : seg_len (norm_seg s) = seg_len s.
Proof. unfold norm_seg. destruct (pt_leb (fst s) (snd s)); [reflexivity|]. unfold seg_len. cbn [fst snd]. rewrite d2_sym. reflexivity. Qed.
Lemma total_len_map_norm ss : total_len (map norm_seg ss) = total_len ss.
Proof. induction ss as [|s r IH]; [reflexivity|]. cbn [map]. rewrite !total_len_cons, IH, seg_len_norm. reflexivity. Qed.

Lemma unit_identity a b u v : (d2 u v * d2 a b = (tpar a b v - tpar a b u) * (tpar a b v - tpar a b u)
                                               + (det a b v - det a b u) * (det a b v - det a b u))%Z.
Proof. unfold d2, tpar, det. ring. Qed.
Lemma unit_len a b u v : a <> b -> det a b u = 0%Z -> det a b v = 0%Z -> (tpar a b u <= tpar a b v)%Z ->
  seg_len (u, v) = IZR (tpar a b v - tpar a b u) / sqrt (IZR (d2 a b)).
Proof.
  intros N Du Dv Le. unfold seg_len. cbn [fst snd].
  pose proof (d2_pos a b N) as Lz. assert (Lp : 0 < IZR (d2 a b)) by (apply IZR_lt; exact Lz).
  assert (Sp : 0 < sqrt (IZR (d2 a b))) by (apply sqrt_lt_R0; exact Lp).
  pose proof (unit_identity a b u v) as I. rewrite Du, Dv in I.
  assert (IR : IZR (d2 u v) * IZR (d2 a b) = IZR (tpar a b v - tpar a b u) * IZR (tpar a b v - tpar a b u)).
  { rewrite <- !mult_IZR. f_equal. lia. }
  assert (T0 : 0 <= IZR (tpar a b v - tpar a b u)) by (apply IZR_le; lia).
  apply sqrt_lem_1.
  - apply IZR_le. unfold d2. cbn [fst snd]. pose proof (sq_nonneg (fst v - fst u)). pose proof (sq_nonneg (snd v - snd u)). lia.
  - apply Rmult_le_pos; [exact T0 | left; apply Rinv_0_lt_compat; exact Sp].
  - unfold Rdiv. 
    assert (SS : sqrt (IZR (d2 a b)) * sqrt (IZR (d2 a b)) = IZR (d2 a b)) by (apply sqrt_sqrt; lra).
    assert (E : IZR (d2 u v) = IZR (tpar a b v - tpar a b u) * IZR (tpar a b v - tpar a b u) / IZR (d2 a b)).
    { rewrite <- IR. field. lra. }
    rewrite E. rewrite <- SS at 3. field. lra.
Qed.

(* consecutive pairs of a sorted keyed list of collinear points: the lengths telescope *)
Lemma cons_pairs_len a b l d : a <> b -> ssorted l -> l <> [] ->
  (forall x, In x l -> fst x = tpar a b (snd x) /\ det a b (snd x) = 0%Z) ->
  total_len (cons_pairs l) = IZR (fst (last l d) - fst (hd d l)) / sqrt (IZR (d2 a b)).
Proof.
  intros N. induction l as [|x r IH]; intros S Nl H; [congruence|].
  destruct r as [|y r'].
  - cbn. replace (fst x - fst x)%Z with 0%Z by lia. unfold Rdiv. rewrite Rmult_0_l. reflexivity.
  - change (cons_pairs (x :: y :: r')) with ((if (fst x <? fst y)%Z then [(snd x, snd y)] else []) ++ cons_pairs (y :: r')).
    rewrite total_len_app. destruct S as [S1 S2].
    assert (Ny : y :: r' <> []) by congruence.
    rewrite (IH S2 Ny) by (intros z Hz; apply H; right; exact Hz).
    change (last (x :: y :: r') d) with (last (y :: r') d). cbn [hd].
    assert (Lxy : (fst x <= fst y)%Z) by (rewrite Forall_forall in S1; apply S1; left; reflexivity).
    destruct (H x (or_introl eq_refl)) as [Kx Dx]. destruct (H y (or_intror (or_introl eq_refl))) as [Ky Dy].
    rewrite !minus_IZR. destruct (fst x <? fst y)%Z eqn:E.
    + change (total_len [(snd x, snd y)]) with (seg_len (snd x, snd y) + 0). rewrite (unit_len a b (snd x) (snd y) N Dx Dy) by lia.
      rewrite <- Kx, <- Ky, minus_IZR. unfold Rdiv. lra.
    + apply Z.ltb_ge in E. assert (Exy : fst x = fst y) by lia. change (total_len []) with 0. rewrite Exy. unfold Rdiv. lra.
Qed.

Lemma seg_units_len V a b : a <> b -> total_len (units_of_seg V (a, b)) = seg_len (a, b).
Proof.
  intros N. rewrite (units_of_seg_unfold V a b N).
  set (l := sort_k (map (keyed a b) (a :: b :: filter (fun q => on_segb q a b) V))).
  assert (S : ssorted l) by apply sort_k_sorted.
  assert (Ia : In (keyed a b a) l) by (apply sort_k_in; apply in_map; left; reflexivity).
  assert (Ib : In (keyed a b b) l) by (apply sort_k_in; apply in_map; right; left; reflexivity).
  assert (Nl : l <> []) by (intros C; rewrite C in Ia; destruct Ia).
  set (d0 := keyed a b a).
  pose proof (d2_pos a b N) as Lz.
  assert (Hhd : fst (hd d0 l) = 0%Z).
  { pose proof (ssorted_hd_min l d0 S _ Ia) as H1. cbn [keyed fst] in H1. rewrite tpar_a in H1.
    assert (Ih : In (hd d0 l) l) by (destruct l; [congruence | left; reflexivity]).
    destruct (keyed_in V a b _ N Ih) as [K [_ [H0 _]]]. rewrite <- K in H0. lia. }
  assert (Hlast : fst (last l d0) = d2 a b).
  { pose proof (ssorted_last l d0 S _ Ib) as H1. cbn [keyed fst] in H1. rewrite tpar_b in H1.
    destruct (keyed_in V a b _ N (last_in l d0 Nl)) as [K [_ [_ H0]]]. rewrite <- K in H0. lia. }
  rewrite (cons_pairs_len a b l d0 N S Nl).
  - rewrite Hhd, Hlast. unfold seg_len. cbn [fst snd]. rewrite Z.sub_0_r.
    assert (Lp : 0 < IZR (d2 a b)) by (apply IZR_lt; exact Lz).
    assert (Sp : 0 < sqrt (IZR (d2 a b))) by (apply sqrt_lt_R0; exact Lp).
    assert (SS : sqrt (IZR (d2 a b)) * sqrt (IZR (d2 a b)) = IZR (d2 a b)) by (apply sqrt_sqrt; lra).
    rewrite <- SS at 1. field. lra.
  - intros x Hx. destruct (keyed_in V a b x N Hx) as [K [D _]]. split; assumption.
Qed.

Lemma units_dir_len V ss : Forall (fun s => nondeg s = true) ss -> total_len (units_dir V ss) = total_len ss.
Proof.
  induction 1 as [|s r Hs Hr IH]; [reflexivity|]. unfold units_dir in *. cbn [flat_map]. rewrite total_len_app, IH.
  destruct s as [a b]. rewrite (seg_units_len V a b); [reflexivity|]. apply (proj1 (nondeg_neq (a, b)) Hs).
Qed.

Theorem merge_length V A B :
  Forall (fun s => nondeg s = true) A -> Forall (fun s => nondeg s = true) B ->
  Permutation (units_undir V A) (units_undir V B) -> total_len A = total_len B.
Proof.
  intros FA FB H. rewrite <- (units_dir_len V A FA), <- (units_dir_len V B FB).
  rewrite <- (total_len_map_norm (units_dir V A)), <- (total_len_map_norm (units_dir V B)).
  apply total_len_perm. exact H.
Qed.
