(* C19 — the geometry behind the checkers, over rational points:
     seg_ok_sound      two segments accepted by seg_ok have no common point other than a common end point
     units_pointset    splitting a segment at vertices lying on it keeps its point set
     merge_pointset    equal multisets of unit sub-segments  =>  equal point sets                                         *)
From Coq Require Import QArith ZArith List Bool Lia Lqa Psatz Permutation.
From GeosV.C19 Require Import CheckDefs CheckLists.
Import ListNotations.
Local Open Scope Q_scope.

Notation X := inject_Z.
Definition QP := (Q * Q)%type.
Definition at_pt (p : QP) (z : zpt) : Prop := fst p == X (fst z) /\ snd p == X (snd z).
(* p = a + t (b - a), 0 <= t <= 1 : the closed segment; a degenerate segment is its point *)
Definition on_segQ (p : QP) (s : seg) : Prop :=
  exists t, 0 <= t /\ t <= 1 /\
    fst p == X (fst (fst s)) + t * (X (fst (snd s)) - X (fst (fst s))) /\
    snd p == X (snd (fst s)) + t * (X (snd (snd s)) - X (snd (fst s))).
Definition is_endQ (p : QP) (s : seg) : Prop := at_pt p (fst s) \/ at_pt p (snd s).
Definition on_linesQ (p : QP) (ss : list seg) : Prop := exists s, In s ss /\ on_segQ p s.

Lemma inj_sub x y : X (x - y) == X x - X y.
Proof. unfold Z.sub, Qminus. rewrite inject_Z_plus, inject_Z_opp. reflexivity. Qed.
Lemma inj_det a b c : X (det a b c) ==
  (X (fst b) - X (fst a)) * (X (snd c) - X (snd a)) - (X (snd b) - X (snd a)) * (X (fst c) - X (fst a)).
Proof. unfold det. rewrite inj_sub, !inject_Z_mult, !inj_sub. reflexivity. Qed.
Lemma inj_tpar a b p : X (tpar a b p) ==
  (X (fst p) - X (fst a)) * (X (fst b) - X (fst a)) + (X (snd p) - X (snd a)) * (X (snd b) - X (snd a)).
Proof. unfold tpar. rewrite inject_Z_plus, !inject_Z_mult, !inj_sub. reflexivity. Qed.
Lemma inj_d2 a b : X (d2 a b) ==
  (X (fst b) - X (fst a)) * (X (fst b) - X (fst a)) + (X (snd b) - X (snd a)) * (X (snd b) - X (snd a)).
Proof. unfold d2. rewrite inject_Z_plus, !inject_Z_mult, !inj_sub. reflexivity. Qed.

Definition detQ (a b : zpt) (p : QP) : Q :=
  (X (fst b) - X (fst a)) * (snd p - X (snd a)) - (X (snd b) - X (snd a)) * (fst p - X (fst a)).
Definition tparQ (a b : zpt) (p : QP) : Q :=
  (fst p - X (fst a)) * (X (fst b) - X (fst a)) + (snd p - X (snd a)) * (X (snd b) - X (snd a)).

Section Param.
  Variables (a b c d : zpt) (p : QP) (s : Q).
  Hypothesis Px : fst p == X (fst c) + s * (X (fst d) - X (fst c)).
  Hypothesis Py : snd p == X (snd c) + s * (X (snd d) - X (snd c)).
  Lemma detQ_param : detQ a b p == (1 - s) * X (det a b c) + s * X (det a b d).
  Proof. unfold detQ. rewrite Px, Py, !inj_det. ring. Qed.
  Lemma tparQ_param : tparQ a b p == (1 - s) * X (tpar a b c) + s * X (tpar a b d).
  Proof. unfold tparQ. rewrite Px, Py, !inj_tpar. ring. Qed.
End Param.
Lemma detQ_on a b p t :
  fst p == X (fst a) + t * (X (fst b) - X (fst a)) -> snd p == X (snd a) + t * (X (snd b) - X (snd a)) -> detQ a b p == 0.
Proof. intros Px Py. unfold detQ. rewrite Px, Py. ring. Qed.
Lemma tparQ_on a b p t :
  fst p == X (fst a) + t * (X (fst b) - X (fst a)) -> snd p == X (snd a) + t * (X (snd b) - X (snd a)) ->
  tparQ a b p == t * X (d2 a b).
Proof. intros Px Py. unfold tparQ. rewrite Px, Py, inj_d2. ring. Qed.

(* ------------------------------------------------------------------ integer facts *)
Local Open Scope Z_scope.
Lemma sq_pos z : z <> 0 -> 0 < z * z.
Proof. intros H. nia. Qed.
Lemma sq_nonneg z : 0 <= z * z.
Proof. nia. Qed.
Lemma d2_pos a b : a <> b -> 0 < d2 a b.
Proof.
  intros N. unfold d2. destruct a as [ax ay], b as [bx by']. cbn.
  pose proof (sq_nonneg (bx - ax)). pose proof (sq_nonneg (by' - ay)).
  destruct (Z.eq_dec bx ax) as [E1 | E1].
  - destruct (Z.eq_dec by' ay) as [E2 | E2]; [subst; congruence|].
    pose proof (sq_pos (by' - ay) ltac:(lia)). lia.
  - pose proof (sq_pos (bx - ax) ltac:(lia)). lia.
Qed.
Lemma lagrange_Z a b c : (d2 a c) * (d2 a b) = tpar a b c * tpar a b c + det a b c * det a b c.
Proof. unfold d2, tpar, det. ring. Qed.
Lemma d2_zero a c : d2 a c = 0 -> c = a.
Proof.
  intros H. destruct (pt_eq_dec a c) as [E | N]; [auto|]. pose proof (d2_pos a c N). lia.
Qed.
Lemma on_line_t0 a b c : a <> b -> det a b c = 0 -> tpar a b c = 0 -> c = a.
Proof.
  intros N D T. pose proof (lagrange_Z a b c) as L. rewrite D, T in L. pose proof (d2_pos a b N).
  apply d2_zero. nia.
Qed.
(* the same seen from b *)
Lemma det_swap a b c : det b a c = - det a b c.
Proof. unfold det. ring. Qed.
Lemma tpar_swap a b c : tpar b a c = d2 a b - tpar a b c.
Proof. unfold tpar, d2. ring. Qed.
Lemma d2_sym a b : d2 b a = d2 a b.
Proof. unfold d2. ring. Qed.
Lemma on_line_tL a b c : a <> b -> det a b c = 0 -> tpar a b c = d2 a b -> c = b.
Proof.
  intros N D T. apply (on_line_t0 b a c); [congruence | rewrite det_swap; lia | rewrite tpar_swap; lia].
Qed.
(* collinear points are a + (t / L) (b - a) *)
Lemma collinear_x a b c : det a b c = 0 -> (fst c - fst a) * d2 a b = tpar a b c * (fst b - fst a).
Proof.
  intros H. assert (E : (fst c - fst a) * d2 a b - tpar a b c * (fst b - fst a) = - (snd b - snd a) * det a b c)
    by (unfold det, d2, tpar; ring). rewrite H in E. lia.
Qed.
Lemma collinear_y a b c : det a b c = 0 -> (snd c - snd a) * d2 a b = tpar a b c * (snd b - snd a).
Proof.
  intros H. assert (E : (snd c - snd a) * d2 a b - tpar a b c * (snd b - snd a) = (fst b - fst a) * det a b c)
    by (unfold det, d2, tpar; ring). rewrite H in E. lia.
Qed.
Local Open Scope Q_scope.

Lemma XQ_pos z : (0 < z)%Z -> 0 < X z.
Proof. intros H. change 0 with (X 0). rewrite <- Zlt_Qlt. exact H. Qed.
Lemma XQ_neg z : (z < 0)%Z -> X z < 0.
Proof. intros H. change 0 with (X 0). rewrite <- Zlt_Qlt. exact H. Qed.
Lemma XQ_le y z : (y <= z)%Z -> X y <= X z.
Proof. intros H. rewrite <- Zle_Qle. exact H. Qed.

(* ------------------------------------------------------------------ seg_ok *)
Lemma convex_pos A B s : 0 < A -> 0 < B -> 0 <= s -> s <= 1 -> 0 < (1 - s) * A + s * B.
Proof.
  intros HA HB S0 S1. destruct (Qlt_le_dec s (1 # 2)).
  - assert (0 < (1 - s) * A) by (apply Qmult_lt_0_compat; lra).
    assert (0 <= s * B) by (apply Qmult_le_0_compat; lra). lra.
  - assert (0 <= (1 - s) * A) by (apply Qmult_le_0_compat; lra).
    assert (0 < s * B) by (apply Qmult_lt_0_compat; lra). lra.
Qed.
Lemma same_side_excludes a b c d p :
  same_side (det a b c) (det a b d) = true -> on_segQ p (a, b) -> on_segQ p (c, d) -> False.
Proof.
  intros H [t [_ [_ [Px Py]]]] [s [S0 [S1 [Qx Qy]]]]. cbn [fst snd] in *.
  pose proof (detQ_on a b p t Px Py) as Z0. pose proof (detQ_param a b c d p s Qx Qy) as Z1. rewrite Z0 in Z1.
  unfold same_side in H. apply orb_true_iff in H. destruct H as [H | H]; apply andb_true_iff in H; destruct H as [H1 H2];
    apply Z.ltb_lt in H1; apply Z.ltb_lt in H2.
  - pose proof (convex_pos _ _ s (XQ_pos _ H1) (XQ_pos _ H2) S0 S1). lra.
  - pose proof (XQ_neg _ H1). pose proof (XQ_neg _ H2).
    pose proof (convex_pos (- X (det a b c)) (- X (det a b d)) s ltac:(lra) ltac:(lra) S0 S1). lra.
Qed.
Lemma on_segQ_sym p a b : on_segQ p (a, b) -> on_segQ p (b, a).
Proof.
  intros [t [T0 [T1 [Px Py]]]]. cbn [fst snd] in *. exists (1 - t). cbn [fst snd]. split; [lra|]. split; [lra|]. split.
  - rewrite Px. ring.
  - rewrite Py. ring.
Qed.
Lemma at_pt_param0 p a b t : t == 0 ->
  fst p == X (fst a) + t * (X (fst b) - X (fst a)) -> snd p == X (snd a) + t * (X (snd b) - X (snd a)) -> at_pt p a.
Proof. intros T Px Py. split; [rewrite Px | rewrite Py]; rewrite T; ring. Qed.
Lemma at_pt_param1 p a b t : t == 1 ->
  fst p == X (fst a) + t * (X (fst b) - X (fst a)) -> snd p == X (snd a) + t * (X (snd b) - X (snd a)) -> at_pt p b.
Proof. intros T Px Py. split; [rewrite Px | rewrite Py]; rewrite T; ring. Qed.

(* collinear segments whose parameter intervals along ab meet in at most one point *)
Lemma collinear_low a b c d p : a <> b -> c <> d ->
  det a b c = 0%Z -> det a b d = 0%Z -> (tpar a b c <= 0)%Z -> (tpar a b d <= 0)%Z ->
  on_segQ p (a, b) -> on_segQ p (c, d) -> at_pt p a /\ is_endQ p (c, d).
Proof.
  intros Nab Ncd Dc Dd Tc Td [t [T0 [T1 [Px Py]]]] [s [S0 [S1 [Qx Qy]]]]. cbn [fst snd] in *.
  pose proof (tparQ_on a b p t Px Py) as E0. pose proof (tparQ_param a b c d p s Qx Qy) as E1. rewrite E0 in E1.
  pose proof (XQ_pos _ (d2_pos a b Nab)) as Lp. pose proof (XQ_le _ _ Tc) as Tc'. pose proof (XQ_le _ _ Td) as Td'.
  change (X 0) with 0 in *.
  assert (A1 : (1 - s) * X (tpar a b c) <= 0) by (setoid_replace ((1 - s) * X (tpar a b c)) with (- ((1 - s) * - X (tpar a b c))) by ring;
                                                   assert (0 <= (1 - s) * - X (tpar a b c)) by (apply Qmult_le_0_compat; lra); lra).
  assert (A2 : s * X (tpar a b d) <= 0) by (setoid_replace (s * X (tpar a b d)) with (- (s * - X (tpar a b d))) by ring;
                                             assert (0 <= s * - X (tpar a b d)) by (apply Qmult_le_0_compat; lra); lra).
  assert (A0 : 0 <= t * X (d2 a b)) by (apply Qmult_le_0_compat; lra).
  assert (Tz : t * X (d2 a b) == 0) by lra.
  assert (t == 0) by (apply Qmult_integral in Tz; destruct Tz as [Tz | Tz]; [exact Tz | lra]).
  split; [apply (at_pt_param0 p a b t); assumption|].
  assert (B1 : (1 - s) * X (tpar a b c) == 0) by lra. assert (B2 : s * X (tpar a b d) == 0) by lra.
  apply Qmult_integral in B1. apply Qmult_integral in B2.
  destruct B2 as [B2 | B2].
  - left. apply (at_pt_param0 p c d s); assumption.
  - destruct B1 as [B1 | B1].
    + right. apply (at_pt_param1 p c d s); [lra | assumption | assumption].
    + exfalso. change 0 with (X 0) in B1, B2. apply (proj1 (inject_Z_injective _ _)) in B1. apply (proj1 (inject_Z_injective _ _)) in B2.
      apply Ncd. rewrite (on_line_t0 a b c Nab Dc B1), (on_line_t0 a b d Nab Dd B2). reflexivity.
Qed.
Lemma collinear_high a b c d p : a <> b -> c <> d ->
  det a b c = 0%Z -> det a b d = 0%Z -> (d2 a b <= tpar a b c)%Z -> (d2 a b <= tpar a b d)%Z ->
  on_segQ p (a, b) -> on_segQ p (c, d) -> at_pt p b /\ is_endQ p (c, d).
Proof.
  intros Nab Ncd Dc Dd Tc Td Ps Pt.
  apply (collinear_low b a c d p); auto.
  - rewrite det_swap. lia.
  - rewrite det_swap. lia.
  - rewrite tpar_swap. lia.
  - rewrite tpar_swap. lia.
  - apply on_segQ_sym. exact Ps.
Qed.

Lemma det_aba a b : det a b a = 0%Z.
Proof. unfold det. ring. Qed.
Lemma det_abb a b : det a b b = 0%Z.
Proof. unfold det. ring. Qed.

Lemma Xnz z : z <> 0%Z -> ~ X z == 0.
Proof. intros H C. change 0 with (X 0) in C. apply (proj1 (inject_Z_injective _ _)) in C. contradiction. Qed.

(* a common end point on distinct carrier lines: it is the only common point *)
Lemma shared_end_only a b c d p :
  (det a b c <> 0 \/ det a b d <> 0)%Z -> share_end (a, b) (c, d) = true ->
  on_segQ p (a, b) -> on_segQ p (c, d) -> is_endQ p (a, b) /\ is_endQ p (c, d).
Proof.
  intros ND SH [t [_ [_ [Px Py]]]] [s [S0 [S1 [Qx Qy]]]]. cbn [fst snd] in *.
  pose proof (detQ_on a b p t Px Py) as Z0. pose proof (detQ_param a b c d p s Qx Qy) as Z1. rewrite Z0 in Z1.
  unfold share_end in SH. cbn [fst snd] in SH.
  assert (Cases : (a = c \/ b = c) \/ (a = d \/ b = d)).
  { repeat (apply orb_true_iff in SH; destruct SH as [SH | SH]); apply pt_eqb_eq in SH; auto. }
  destruct Cases as [Ec | Ed].
  - (* c is an end of ab: det a b c = 0, so det a b d <> 0 and s = 0 *)
    assert (Dc : det a b c = 0%Z) by (destruct Ec as [<- | <-]; [apply det_aba | apply det_abb]).
    assert (Dd : det a b d <> 0%Z) by (destruct ND; [congruence | assumption]).
    rewrite Dc in Z1. assert (Sz : s * X (det a b d) == 0) by (change (X 0) with 0 in Z1; lra).
    apply Qmult_integral in Sz. destruct Sz as [Sz | Sz]; [| exfalso; apply (Xnz _ Dd); exact Sz].
    pose proof (at_pt_param0 p c d s Sz Qx Qy) as A. split; [| left; exact A].
    destruct Ec as [<- | <-]; [left | right]; exact A.
  - assert (Dd : det a b d = 0%Z) by (destruct Ed as [<- | <-]; [apply det_aba | apply det_abb]).
    assert (Dc : det a b c <> 0%Z) by (destruct ND; [assumption | congruence]).
    rewrite Dd in Z1. assert (Sz : (1 - s) * X (det a b c) == 0) by (change (X 0) with 0 in Z1; lra).
    apply Qmult_integral in Sz. destruct Sz as [Sz | Sz]; [| exfalso; apply (Xnz _ Dc); exact Sz].
    assert (S1' : s == 1) by lra.
    pose proof (at_pt_param1 p c d s S1' Qx Qy) as A. split; [| right; exact A].
    destruct Ed as [<- | <-]; [left | right]; exact A.
Qed.

Theorem seg_ok_sound s t : seg_ok s t = true ->
  forall p, on_segQ p s -> on_segQ p t -> is_endQ p s /\ is_endQ p t.
Proof.
  destruct s as [a b], t as [c d]. unfold seg_ok. cbn [fst snd].
  destruct (pt_eqb a b || pt_eqb c d) eqn:Edeg; [discriminate|].
  apply orb_false_iff in Edeg. destruct Edeg as [Nab Ncd]. apply pt_eqb_neq in Nab. apply pt_eqb_neq in Ncd.
  destruct ((det a b c =? 0)%Z && (det a b d =? 0)%Z) eqn:Ecol.
  - apply andb_true_iff in Ecol. destruct Ecol as [Dc Dd]. apply Z.eqb_eq in Dc. apply Z.eqb_eq in Dd.
    intros H p Ps Pt. apply orb_true_iff in H. destruct H as [H | H]; apply Z.leb_le in H.
    + destruct (collinear_low a b c d p Nab Ncd Dc Dd ltac:(lia) ltac:(lia) Ps Pt) as [A B]. split; [left; exact A | exact B].
    + destruct (collinear_high a b c d p Nab Ncd Dc Dd ltac:(lia) ltac:(lia) Ps Pt) as [A B]. split; [right; exact A | exact B].
  - destruct (same_side (det a b c) (det a b d) || same_side (det c d a) (det c d b)) eqn:Ess.
    + intros _ p Ps Pt. exfalso. apply orb_true_iff in Ess. destruct Ess as [E | E].
      * exact (same_side_excludes a b c d p E Ps Pt).
      * exact (same_side_excludes c d a b p E Pt Ps).
    + intros H p Ps Pt. apply (shared_end_only a b c d p); auto.
      apply andb_false_iff in Ecol. destruct Ecol as [E | E]; apply Z.eqb_neq in E; auto.
Qed.

(* ------------------------------------------------------------------ unit sub-segments keep the point set *)
Lemma on_segb_spec p a b : a <> b ->
  (on_segb p a b = true <-> (det a b p = 0 /\ 0 <= tpar a b p /\ tpar a b p <= d2 a b)%Z).
Proof.
  intros N. unfold on_segb. rewrite (proj2 (pt_eqb_neq a b) N).
  rewrite !andb_true_iff, Z.eqb_eq, !Z.leb_le. tauto.
Qed.
Lemma tpar_a a b : tpar a b a = 0%Z.
Proof. unfold tpar. ring. Qed.
Lemma tpar_b a b : tpar a b b = d2 a b.
Proof. unfold tpar, d2. ring. Qed.

(* a grid point of the carrier line, in parametric form *)
Lemma grid_param a b u : a <> b -> det a b u = 0%Z ->
  X (fst u) == X (fst a) + (X (tpar a b u) / X (d2 a b)) * (X (fst b) - X (fst a)) /\
  X (snd u) == X (snd a) + (X (tpar a b u) / X (d2 a b)) * (X (snd b) - X (snd a)).
Proof.
  intros N D. pose proof (XQ_pos _ (d2_pos a b N)) as Lp.
  pose proof (collinear_x a b u D) as Hx. pose proof (collinear_y a b u D) as Hy.
  assert (Hx' : X ((fst u - fst a) * d2 a b) == X (tpar a b u * (fst b - fst a))) by (rewrite Hx; reflexivity).
  assert (Hy' : X ((snd u - snd a) * d2 a b) == X (tpar a b u * (snd b - snd a))) by (rewrite Hy; reflexivity).
  clear Hx Hy. rename Hx' into Hx. rename Hy' into Hy.
  rewrite !inject_Z_mult, !inj_sub in Hx, Hy.
  split.
  - assert (E : X (fst u) - X (fst a) == X (tpar a b u) * (X (fst b) - X (fst a)) / X (d2 a b)).
    { assert (Nz : ~ X (d2 a b) == 0) by lra. apply (proj1 (Qmult_inj_r _ _ (X (d2 a b)) Nz)). rewrite Hx. field. exact Nz. }
    setoid_replace (X (fst u)) with (X (fst a) + (X (fst u) - X (fst a))) by ring. rewrite E. field. lra.
  - assert (E : X (snd u) - X (snd a) == X (tpar a b u) * (X (snd b) - X (snd a)) / X (d2 a b)).
    { assert (Nz : ~ X (d2 a b) == 0) by lra. apply (proj1 (Qmult_inj_r _ _ (X (d2 a b)) Nz)). rewrite Hy. field. exact Nz. }
    setoid_replace (X (snd u)) with (X (snd a) + (X (snd u) - X (snd a))) by ring. rewrite E. field. lra.
Qed.

Section Sub.
  Variables (a b u v : zpt).
  Hypothesis Nab : a <> b.
  Hypothesis Du : det a b u = 0%Z.
  Hypothesis Dv : det a b v = 0%Z.
  Let L := X (d2 a b).
  Let tu := X (tpar a b u).
  Let tv := X (tpar a b v).

  Lemma sub_in p : 0 <= tu -> tu <= tv -> tv <= L -> on_segQ p (u, v) -> on_segQ p (a, b).
  Proof.
    intros H0 H1 H2 [r [R0 [R1 [Px Py]]]]. cbn [fst snd] in *.
    pose proof (XQ_pos _ (d2_pos a b Nab)) as Lp. fold L in Lp.
    destruct (grid_param a b u Nab Du) as [Ux Uy]. destruct (grid_param a b v Nab Dv) as [Vx Vy].
    fold tu L in Ux, Uy. fold tv L in Vx, Vy.
    exists ((tu + r * (tv - tu)) / L). cbn [fst snd].
    assert (A : 0 <= r * (tv - tu)) by (apply Qmult_le_0_compat; lra).
    assert (B : r * (tv - tu) <= 1 * (tv - tu)) by (apply Qmult_le_compat_r; lra).
    split; [apply Qle_shift_div_l; lra|]. split; [apply Qle_shift_div_r; lra|].
    split.
    - rewrite Px, Ux, Vx. field. lra.
    - rewrite Py, Uy, Vy. field. lra.
  Qed.
  Lemma sub_cover p t : tu < tv ->
    fst p == X (fst a) + t * (X (fst b) - X (fst a)) -> snd p == X (snd a) + t * (X (snd b) - X (snd a)) ->
    tu <= t * L -> t * L <= tv -> on_segQ p (u, v).
  Proof.
    intros Hlt Px Py H0 H1.
    pose proof (XQ_pos _ (d2_pos a b Nab)) as Lp. fold L in Lp.
    destruct (grid_param a b u Nab Du) as [Ux Uy]. destruct (grid_param a b v Nab Dv) as [Vx Vy].
    fold tu L in Ux, Uy. fold tv L in Vx, Vy.
    exists ((t * L - tu) / (tv - tu)). cbn [fst snd].
    split; [apply Qle_shift_div_l; lra|]. split; [apply Qle_shift_div_r; lra|].
    split.
    - rewrite Px, Ux, Vx. field. split; lra.
    - rewrite Py, Uy, Vy. field. split; lra.
  Qed.
End Sub.

Definition keyed (a b : zpt) (p : zpt) : Z * zpt := (tpar a b p, p).
Lemma units_of_seg_unfold V a b : a <> b ->
  units_of_seg V (a, b) = cons_pairs (sort_k (map (keyed a b) (a :: b :: filter (fun p => on_segb p a b) V))).
Proof. intros N. unfold units_of_seg. cbn [fst snd]. rewrite (proj2 (pt_eqb_neq a b) N). reflexivity. Qed.
Lemma keyed_in V a b x : a <> b -> In x (sort_k (map (keyed a b) (a :: b :: filter (fun p => on_segb p a b) V))) ->
  fst x = tpar a b (snd x) /\ (det a b (snd x) = 0 /\ 0 <= tpar a b (snd x) /\ tpar a b (snd x) <= d2 a b)%Z.
Proof.
  intros N H. apply (proj1 (sort_k_in _ _)) in H. apply (proj1 (in_map_iff _ _ _)) in H. destruct H as [q [<- Hq]]. cbn [fst snd keyed].
  split; [reflexivity|]. destruct Hq as [<- | [<- | Hq]].
  - rewrite det_aba, tpar_a. pose proof (d2_pos a b N). lia.
  - rewrite det_abb, tpar_b. pose proof (d2_pos a b N). lia.
  - apply filter_In in Hq. destruct Hq as [_ Hq]. apply (on_segb_spec q a b N). exact Hq.
Qed.

Lemma units_sub V a b u v p : a <> b -> In (u, v) (units_of_seg V (a, b)) -> on_segQ p (u, v) -> on_segQ p (a, b).
Proof.
  intros N H P. rewrite (units_of_seg_unfold V a b N) in H.
  destruct (cons_pairs_in _ u v H) as [x [y [Ix [Iy [-> [-> Lt]]]]]].
  destruct (keyed_in V a b x N Ix) as [Kx [Dx [X0 X1]]]. destruct (keyed_in V a b y N Iy) as [Ky [Dy [Y0 Y1]]].
  rewrite Kx, Ky in Lt.
  apply (sub_in a b (snd x) (snd y) N Dx Dy p); auto.
  - change 0 with (X 0). apply XQ_le. exact X0.
  - apply XQ_le. lia.
  - apply XQ_le. exact Y1.
Qed.

Lemma ssorted_hd_min l d : ssorted l -> forall y, In y l -> (fst (hd d l) <= fst y)%Z.
Proof.
  destruct l as [|h r]; intros S y Hy; [destruct Hy|]. cbn [hd]. destruct S as [S1 _].
  destruct Hy as [<- | Hy]; [lia|]. rewrite Forall_forall in S1. apply S1. exact Hy.
Qed.

Lemma units_cover V a b p : a <> b -> on_segQ p (a, b) -> exists uv, In uv (units_of_seg V (a, b)) /\ on_segQ p uv.
Proof.
  intros N [t [T0 [T1 [Px Py]]]]. cbn [fst snd] in *. rewrite (units_of_seg_unfold V a b N).
  set (l := sort_k (map (keyed a b) (a :: b :: filter (fun q => on_segb q a b) V))).
  pose proof (d2_pos a b N) as Lz. pose proof (XQ_pos _ Lz) as Lp.
  assert (S : ssorted l) by apply sort_k_sorted.
  assert (Ia : In (keyed a b a) l) by (apply sort_k_in; apply in_map; left; reflexivity).
  assert (Ib : In (keyed a b b) l) by (apply sort_k_in; apply in_map; right; left; reflexivity).
  assert (Nl : l <> []) by (intros C; rewrite C in Ia; destruct Ia).
  set (d0 := keyed a b a).
  assert (Hhd : fst (hd d0 l) = 0%Z).
  { pose proof (ssorted_hd_min l d0 S _ Ia) as H1. cbn [keyed fst] in H1. rewrite tpar_a in H1.
    assert (Ih : In (hd d0 l) l) by (destruct l; [congruence | left; reflexivity]).
    destruct (keyed_in V a b _ N Ih) as [K [_ [H0 _]]]. rewrite <- K in H0. lia. }
  assert (Hlast : fst (last l d0) = d2 a b).
  { pose proof (ssorted_last l d0 S _ Ib) as H1. cbn [keyed fst] in H1. rewrite tpar_b in H1.
    destruct (keyed_in V a b _ N (last_in l d0 Nl)) as [K [_ [_ H0]]]. rewrite <- K in H0. lia. }
  destruct (cons_pairs_cover (fun k => X k <= t * X (d2 a b)) (fun k => t * X (d2 a b) <= X k)) with (l := l) (d := d0)
    as [x [y [Ix [Iy [I [Lt [Bx Ay]]]]]]]; auto.
  - intros k. destruct (Qlt_le_dec (t * X (d2 a b)) (X k)); [right; lra | left; lra].
  - intros k k' Hk H. pose proof (XQ_le _ _ Hk). lra.
  - rewrite Hhd. change (X 0) with 0. apply Qmult_le_0_compat; lra.
  - rewrite Hlast. assert (t * X (d2 a b) <= 1 * X (d2 a b)) by (apply Qmult_le_compat_r; lra). lra.
  - lia.
  - exists (snd x, snd y). split; [exact I|].
    destruct (keyed_in V a b x N Ix) as [Kx [Dx _]]. destruct (keyed_in V a b y N Iy) as [Ky [Dy _]].
    rewrite Kx in Bx, Lt. rewrite Ky in Ay, Lt.
    apply (sub_cover a b (snd x) (snd y) N Dx Dy p t); auto.
    rewrite <- Zlt_Qlt. exact Lt.
Qed.

Lemma nondeg_neq s : nondeg s = true <-> fst s <> snd s.
Proof. unfold nondeg. rewrite negb_true_iff. apply pt_eqb_neq. Qed.

Theorem units_pointset V ss p : Forall (fun s => nondeg s = true) ss ->
  (on_linesQ p ss <-> on_linesQ p (units_dir V ss)).
Proof.
  intros F. rewrite Forall_forall in F. split.
  - intros [[a b] [I P]]. pose proof (proj1 (nondeg_neq _) (F _ I)) as N. cbn [fst snd] in N.
    destruct (units_cover V a b p N P) as [uv [Iu Pu]]. exists uv. split; [|exact Pu].
    unfold units_dir. apply in_flat_map. exists (a, b). split; assumption.
  - intros [[u v] [I P]]. unfold units_dir in I. apply in_flat_map in I. destruct I as [[a b] [Is Iu]].
    pose proof (proj1 (nondeg_neq _) (F _ Is)) as N. cbn [fst snd] in N.
    exists (a, b). split; [exact Is|]. apply (units_sub V a b u v p N Iu P).
Qed.

Lemma on_segQ_norm p s : on_segQ p (norm_seg s) <-> on_segQ p s.
Proof.
  unfold norm_seg. destruct (pt_leb (fst s) (snd s)); [tauto|]. destruct s as [a b]. cbn [fst snd].
  split; apply on_segQ_sym.
Qed.
Lemma on_linesQ_map_norm p ss : on_linesQ p (map norm_seg ss) <-> on_linesQ p ss.
Proof.
  split.
  - intros [s [I P]]. apply in_map_iff in I. destruct I as [s0 [<- I]]. exists s0. split; [exact I | apply on_segQ_norm; exact P].
  - intros [s [I P]]. exists (norm_seg s). split; [apply in_map; exact I | apply on_segQ_norm; exact P].
Qed.
Lemma on_linesQ_perm p l1 l2 : Permutation l1 l2 -> on_linesQ p l1 -> on_linesQ p l2.
Proof. intros H [s [I P]]. exists s. split; [apply (Permutation_in _ H I) | exact P]. Qed.

(* equal multisets of (undirected) unit sub-segments: equal point sets *)
Theorem merge_pointset V A B p :
  Forall (fun s => nondeg s = true) A -> Forall (fun s => nondeg s = true) B ->
  Permutation (units_undir V A) (units_undir V B) -> (on_linesQ p A <-> on_linesQ p B).
Proof.
  intros FA FB H. unfold units_undir in H.
  rewrite (units_pointset V A p FA), (units_pointset V B p FB).
  rewrite <- (on_linesQ_map_norm p (units_dir V A)), <- (on_linesQ_map_norm p (units_dir V B)).
  split; apply on_linesQ_perm; [exact H | apply Permutation_sym; exact H].
Qed.
