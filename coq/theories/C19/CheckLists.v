(* C19 — list-level lemmas behind the checkers of CheckDefs.v: counting multiset equality gives a permutation, the Boolean
   subset / duplicate / disjointness tests mean what they say, insertion sort by key sorts and keeps the elements. *)
From Coq Require Import ZArith List Bool Arith Lia Permutation.
From GeosV.C19 Require Import CheckDefs.
Import ListNotations.
Local Open Scope Z_scope.

Lemma pt_eqb_eq a b : pt_eqb a b = true <-> a = b.
Proof.
  unfold pt_eqb. rewrite andb_true_iff, !Z.eqb_eq. destruct a, b; cbn. split; [intros [-> ->]; reflexivity | intros H; inversion H; auto].
Qed.
Lemma pt_eqb_refl a : pt_eqb a a = true.
Proof. apply pt_eqb_eq. reflexivity. Qed.
Lemma pt_eqb_neq a b : pt_eqb a b = false <-> a <> b.
Proof.
  split; intros H.
  - intros C. apply pt_eqb_eq in C. congruence.
  - destruct (pt_eqb a b) eqn:E; [|reflexivity]. apply pt_eqb_eq in E. contradiction.
Qed.

(* ------------------------------------------------------------------ multisets and sets of segments *)
Lemma mset_eqb_perm l1 l2 : mset_eqb l1 l2 = true -> Permutation l1 l2.
Proof.
  unfold mset_eqb. intros H. apply (Permutation_count_occ seg_eq_dec). intros x.
  rewrite forallb_forall in H.
  destruct (in_dec seg_eq_dec x (l1 ++ l2)) as [I | N].
  - apply Nat.eqb_eq. apply H. exact I.
  - assert (N1 : ~ In x l1) by (intros C; apply N; apply in_or_app; auto).
    assert (N2 : ~ In x l2) by (intros C; apply N; apply in_or_app; auto).
    rewrite (proj1 (count_occ_not_In seg_eq_dec l1 x) N1), (proj1 (count_occ_not_In seg_eq_dec l2 x) N2). reflexivity.
Qed.
Lemma mem_seg_in x l : mem_seg x l = true <-> In x l.
Proof. unfold mem_seg. destruct (in_dec seg_eq_dec x l); split; auto; discriminate. Qed.
Lemma subset_seg_incl l1 l2 : subset_seg l1 l2 = true -> incl l1 l2.
Proof. unfold subset_seg. rewrite forallb_forall. intros H x I. apply mem_seg_in. apply H. exact I. Qed.
Lemma set_eqb_incl l1 l2 : set_eqb l1 l2 = true -> incl l1 l2 /\ incl l2 l1.
Proof. unfold set_eqb. rewrite andb_true_iff. intros [A B]. split; apply subset_seg_incl; assumption. Qed.
Lemma nodup_segb_nodup l : nodup_segb l = true -> NoDup l.
Proof.
  induction l as [|x r IH]; cbn; intros H; [constructor|].
  apply andb_true_iff in H. destruct H as [A B]. constructor; [|apply IH; exact B].
  intros C. apply mem_seg_in in C. rewrite C in A. discriminate.
Qed.
Lemma disjoint_seg_spec l1 l2 : disjoint_seg l1 l2 = true -> forall x, In x l1 -> ~ In x l2.
Proof.
  unfold disjoint_seg. rewrite forallb_forall. intros H x I C. specialize (H x I). apply mem_seg_in in C. rewrite C in H. discriminate.
Qed.

(* ------------------------------------------------------------------ insertion sort by key *)
Fixpoint ssorted (l : list (Z * zpt)) : Prop :=
  match l with [] => True | x :: r => Forall (fun y => fst x <= fst y) r /\ ssorted r end.
Lemma insert_k_in x l y : In y (insert_k x l) <-> y = x \/ In y l.
Proof.
  induction l as [|h r IH]; cbn; [intuition|].
  destruct (fst x <=? fst h); cbn; [intuition|]. rewrite IH. intuition.
Qed.
Lemma insert_k_sorted x l : ssorted l -> ssorted (insert_k x l).
Proof.
  induction l as [|h r IH]; cbn; intros H; [split; [constructor | exact I]|].
  destruct H as [H1 H2]. destruct (fst x <=? fst h) eqn:E.
  - apply Z.leb_le in E. cbn. split; [|split; assumption].
    constructor; [exact E|]. rewrite Forall_forall in *. intros y Hy. specialize (H1 y Hy). lia.
  - apply Z.leb_gt in E. cbn. split; [|apply IH; exact H2].
    rewrite Forall_forall in *. intros y Hy. apply insert_k_in in Hy. destruct Hy as [-> | Hy]; [lia | apply H1; exact Hy].
Qed.
Lemma sort_k_in l y : In y (sort_k l) <-> In y l.
Proof.
  induction l as [|h r IH]; cbn; [tauto|]. rewrite insert_k_in, IH. intuition.
Qed.
Lemma sort_k_sorted l : ssorted (sort_k l).
Proof. induction l as [|h r IH]; cbn; [exact I|]. apply insert_k_sorted. exact IH. Qed.
Lemma ssorted_last l d : ssorted l -> forall y, In y l -> fst y <= fst (last l d).
Proof.
  induction l as [|h r IH]; intros S y Hy; [destruct Hy|].
  destruct S as [S1 S2]. destruct r as [|h' r'].
  - destruct Hy as [<- | []]. cbn. lia.
  - change (last (h :: h' :: r') d) with (last (h' :: r') d).
    destruct Hy as [<- | Hy]; [|apply IH; assumption].
    rewrite Forall_forall in S1. specialize (S1 h' (or_introl eq_refl)).
    specialize (IH S2 h' (or_introl eq_refl)). lia.
Qed.
Lemma last_in {A} (l : list A) d : l <> [] -> In (last l d) l.
Proof.
  induction l as [|h r IH]; intros N; [congruence|]. destruct r as [|h' r']; [left; reflexivity|].
  right. apply IH. congruence.
Qed.

(* consecutive pairs with strictly increasing keys *)
Lemma cons_pairs_in l u v : In (u, v) (cons_pairs l) ->
  exists x y, In x l /\ In y l /\ u = snd x /\ v = snd y /\ fst x < fst y.
Proof.
  induction l as [|x r IH]; intros H; [destruct H|]. destruct r as [|y r']; [destruct H|].
  change (cons_pairs (x :: y :: r')) with ((if fst x <? fst y then [(snd x, snd y)] else []) ++ cons_pairs (y :: r')) in H.
  apply in_app_or in H. destruct H as [H | H].
  - destruct (fst x <? fst y) eqn:E; [|destruct H]. apply Z.ltb_lt in E. destruct H as [H | []]. inversion H; subst.
    exists x, y. repeat split; auto; [left; reflexivity | right; left; reflexivity].
  - destruct (IH H) as [x' [y' [I1 [I2 [E1 [E2 L]]]]]]. exists x', y'. repeat split; auto; right; assumption.
Qed.
Lemma cons_pairs_tail x l s : In s (cons_pairs l) -> In s (cons_pairs (x :: l)).
Proof.
  destruct l as [|y r]; [intros []|]. intros H.
  change (cons_pairs (x :: y :: r)) with ((if fst x <? fst y then [(snd x, snd y)] else []) ++ cons_pairs (y :: r)).
  apply in_or_app. right. exact H.
Qed.
(* a sorted list whose first key is below and whose last key is above t, the two being different, has a consecutive pair
   with different keys around t.  Keys are compared with t through an arbitrary monotone embedding into an ordered type;
   here t is an integer bound pair (lo <= t <= hi is expressed by the two predicates below) *)
Lemma cons_pairs_cover (below above : Z -> Prop) :
  (forall k, below k \/ above k) -> (forall k k', k <= k' -> above k -> above k') ->
  forall l d, ssorted l -> l <> [] -> below (fst (hd d l)) -> above (fst (last l d)) -> fst (hd d l) < fst (last l d) ->
  exists x y, In x l /\ In y l /\ In (snd x, snd y) (cons_pairs l) /\ fst x < fst y /\ below (fst x) /\ above (fst y).
Proof.
  intros Dec Mono. induction l as [|x r IH]; intros d S N B A L; [congruence|].
  destruct r as [|y r']; [cbn in L; lia|].
  destruct S as [S1 S2]. cbn [hd] in *. change (last (x :: y :: r') d) with (last (y :: r') d) in *.
  assert (Lxy : fst x <= fst y) by (rewrite Forall_forall in S1; apply S1; left; reflexivity).
  assert (Ny : y :: r' <> []) by congruence.
  destruct (Z.eq_dec (fst x) (fst y)) as [E | NE].
  - destruct (IH d S2 Ny) as [x' [y' [Ix [Iy [I [L' [B' A']]]]]]]; [cbn [hd]; rewrite <- E; exact B | exact A | cbn [hd]; lia|].
    exists x', y'. repeat split; auto; try (right; assumption). apply cons_pairs_tail. exact I.
  - assert (Lt : fst x < fst y) by lia.
    destruct (Dec (fst y)) as [By | Ay].
    + destruct (Z.eq_dec (fst y) (fst (last (y :: r') d))) as [E2 | NE2].
      * (* y already carries the last key: then above (fst y) as well *)
        exists x, y. repeat split; auto; [left; reflexivity | right; left; reflexivity | |].
        -- change (cons_pairs (x :: y :: r')) with ((if fst x <? fst y then [(snd x, snd y)] else []) ++ cons_pairs (y :: r')).
           apply in_or_app. left. rewrite (proj2 (Z.ltb_lt _ _) Lt). left. reflexivity.
        -- rewrite E2. exact A.
      * pose proof (ssorted_last (y :: r') d S2 y (or_introl eq_refl)) as Ly.
        destruct (IH d S2 Ny) as [x' [y' [Ix [Iy [I [L' [B' A']]]]]]]; [cbn [hd]; exact By | exact A | cbn [hd]; lia|].
        exists x', y'. repeat split; auto; try (right; assumption). apply cons_pairs_tail. exact I.
    + exists x, y. repeat split; auto; [left; reflexivity | right; left; reflexivity |].
      change (cons_pairs (x :: y :: r')) with ((if fst x <? fst y then [(snd x, snd y)] else []) ++ cons_pairs (y :: r')).
      apply in_or_app. left. rewrite (proj2 (Z.ltb_lt _ _) Lt). left. reflexivity.
Qed.

(* ------------------------------------------------------------------ ordered pairs *)
Lemma all_pairs_ok_spec (f : seg -> seg -> bool) l : all_pairs_ok f l = true -> ForallOrdPairs (fun s t => f s t = true) l.
Proof.
  induction l as [|s r IH]; cbn; intros H; [constructor|].
  apply andb_true_iff in H. destruct H as [A B]. constructor; [|apply IH; exact B].
  rewrite forallb_forall in A. apply Forall_forall. exact A.
Qed.
