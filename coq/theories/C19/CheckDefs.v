(* C19 — relational specifications R with executable checkers for line merging, noding, polygonizing and shared paths.
   The implementation's output (GEOSLineMerge(Directed)_r, GEOSNode_r / GEOSUnaryUnion_r, GEOSPolygonize_full_r,
   GEOSSharedPaths_r) is handed to these functions together with the input; coordinates are exact integers (grid inputs; the
   dyadic ordinates of a noding result are scaled by one common power of two).  Definitions only, executable, no proofs. *)
From Coq Require Import ZArith List Bool Arith.
From GeosV.Lib Require GeomDefs LocateDefs ValidDefs KernelDefs.
Import ListNotations.
Local Open Scope Z_scope.

Definition zpt := (Z * Z)%type.
Definition seg := (zpt * zpt)%type.
Definition line := list zpt.

Definition pt_eqb (a b : zpt) : bool := (fst a =? fst b) && (snd a =? snd b).
Definition pt_leb (a b : zpt) : bool := (fst a <? fst b) || ((fst a =? fst b) && (snd a <=? snd b)).
Definition seg_eq_dec : forall a b : seg, {a = b} + {a <> b}.
Proof. repeat decide equality. Defined.
Definition pt_eq_dec : forall a b : zpt, {a = b} + {a <> b}.
Proof. repeat decide equality. Defined.

(* (b - a) x (c - a) *)
Definition det (a b c : zpt) : Z := (fst b - fst a) * (snd c - snd a) - (snd b - snd a) * (fst c - fst a).
(* (p - a) . (b - a) : the parameter of p along ab, times |ab|^2 *)
Definition tpar (a b p : zpt) : Z := (fst p - fst a) * (fst b - fst a) + (snd p - snd a) * (snd b - snd a).
Definition d2 (a b : zpt) : Z := (fst b - fst a) * (fst b - fst a) + (snd b - snd a) * (snd b - snd a).
(* p on the closed segment ab *)
Definition on_segb (p a b : zpt) : bool :=
  if pt_eqb a b then pt_eqb p a
  else (det a b p =? 0) && (0 <=? tpar a b p) && (tpar a b p <=? d2 a b).

(* ---------------------------------------------------------------- lines, segments *)
Fixpoint dedup (l : line) : line :=
  match l with
  | a :: t => match t with b :: _ => if pt_eqb a b then dedup t else a :: dedup t | [] => l end
  | [] => []
  end.
Fixpoint segs_of_line (l : line) : list seg :=
  match l with a :: (b :: _) as t => (a, b) :: segs_of_line t | _ => [] end.
Definition nondeg (s : seg) : bool := negb (pt_eqb (fst s) (snd s)).
(* the non-degenerate segments of a set of lines, in order, directed as stored *)
Definition all_segs (ls : list line) : list seg := filter nondeg (flat_map segs_of_line ls).
Definition all_pts (ls : list line) : list zpt := concat ls.

(* ---------------------------------------------------------------- unit sub-segments: a segment split at every given vertex on it *)
Fixpoint insert_k (x : Z * zpt) (l : list (Z * zpt)) : list (Z * zpt) :=
  match l with
  | [] => [x]
  | y :: r => if fst x <=? fst y then x :: l else y :: insert_k x r
  end.
Definition sort_k (l : list (Z * zpt)) : list (Z * zpt) := fold_right insert_k [] l.
Fixpoint cons_pairs (l : list (Z * zpt)) : list seg :=
  match l with
  | x :: (y :: _) as r => (if fst x <? fst y then [(snd x, snd y)] else []) ++ cons_pairs r
  | _ => []
  end.
(* the pieces of s = (a, b), a <> b, between consecutive points of {a, b} ∪ (V ∩ s), directed from a to b *)
Definition units_of_seg (V : list zpt) (s : seg) : list seg :=
  let a := fst s in let b := snd s in
  if pt_eqb a b then []
  else cons_pairs (sort_k (map (fun p => (tpar a b p, p)) (a :: b :: filter (fun p => on_segb p a b) V))).
Definition norm_seg (s : seg) : seg := if pt_leb (fst s) (snd s) then s else (snd s, fst s).
Definition units_dir (V : list zpt) (ss : list seg) : list seg := flat_map (units_of_seg V) ss.
Definition units_undir (V : list zpt) (ss : list seg) : list seg := map norm_seg (units_dir V ss).

(* multiset equality by counting *)
Definition mset_eqb (l1 l2 : list seg) : bool :=
  forallb (fun x => Nat.eqb (count_occ seg_eq_dec l1 x) (count_occ seg_eq_dec l2 x)) (l1 ++ l2).
Definition mem_seg (x : seg) (l : list seg) : bool := if in_dec seg_eq_dec x l then true else false.
Definition subset_seg (l1 l2 : list seg) : bool := forallb (fun x => mem_seg x l2) l1.
Definition set_eqb (l1 l2 : list seg) : bool := subset_seg l1 l2 && subset_seg l2 l1.
Fixpoint nodup_segb (l : list seg) : bool :=
  match l with [] => true | x :: r => negb (mem_seg x r) && nodup_segb r end.
Definition disjoint_seg (l1 l2 : list seg) : bool := forallb (fun x => negb (mem_seg x l2)) l1.
Definition mem_pt (p : zpt) (l : list zpt) : bool := existsb (pt_eqb p) l.
Fixpoint nodup_pts (l : list zpt) : list zpt :=
  match l with [] => [] | a :: t => if mem_pt a t then nodup_pts t else a :: nodup_pts t end.

(* ================================================================ line merging *)
(* the two ends of a line that carries at least one non-degenerate segment (LineMergeGraph::addEdge skips the others) *)
Definition line_ends (l : line) : list (zpt * zpt) :=
  match dedup l with a :: (_ :: _) as t => [(a, last t a)] | _ => [] end.
Definition ends_of (ls : list line) : list (zpt * zpt) := flat_map line_ends ls.
Definition cnt {A} (f : A -> bool) (l : list A) : Z := Z.of_nat (length (filter f l)).
Definition starts_at (p : zpt) (es : list (zpt * zpt)) : Z := cnt (fun e => pt_eqb (fst e) p) es.
Definition ends_at (p : zpt) (es : list (zpt * zpt)) : Z := cnt (fun e => pt_eqb (snd e) p) es.
Definition degree (p : zpt) (es : list (zpt * zpt)) : Z := starts_at p es + ends_at p es.
(* a node through which the merger must continue: undirected — degree two; directed — one line in, one line out *)
Definition must_merge (directed : bool) (ein : list (zpt * zpt)) (p : zpt) : bool :=
  if directed then (starts_at p ein =? 1) && (ends_at p ein =? 1) else degree p ein =? 2.
(* ... no output line may stop there, except one closed line that starts and stops there (a ring through that node) *)
Definition node_joined (eout : list (zpt * zpt)) (p : zpt) : bool :=
  (degree p eout =? 0) || ((degree p eout =? 2) && (cnt (fun e => pt_eqb (fst e) p && pt_eqb (snd e) p) eout =? 1)).
Definition merge_nodes_ok (directed : bool) (ins outs : list line) : bool :=
  let ein := ends_of ins in let eout := ends_of outs in
  forallb (fun p => negb (must_merge directed ein p) || node_joined eout p)
          (nodup_pts (map fst ein ++ map snd ein)).
Definition merge_units_ok (directed : bool) (ins outs : list line) : bool :=
  let V := all_pts ins ++ all_pts outs in
  if directed then mset_eqb (units_dir V (all_segs ins)) (units_dir V (all_segs outs))
  else mset_eqb (units_undir V (all_segs ins)) (units_undir V (all_segs outs)).
(* vertices (this is where zero-length lines and repeated points live) lie on the other linework *)
Definition pt_on_lines (v : zpt) (ls : list line) : bool :=
  existsb (fun s => on_segb v (fst s) (snd s)) (flat_map segs_of_line ls).
Definition merge_pts_ok (ins outs : list line) : bool :=
  forallb (fun v => pt_on_lines v outs) (flat_map (fun s => [fst s; snd s]) (flat_map segs_of_line ins))
  && forallb (fun v => pt_on_lines v ins) (flat_map (fun s => [fst s; snd s]) (flat_map segs_of_line outs)).
Definition merge_check (directed : bool) (ins outs : list line) : bool :=
  merge_units_ok directed ins outs && merge_nodes_ok directed ins outs && merge_pts_ok ins outs.

(* ================================================================ noding *)
Definition same_side (x y : Z) : bool := ((0 <? x) && (0 <? y)) || ((x <? 0) && (y <? 0)).
Definition share_end (s t : seg) : bool :=
  pt_eqb (fst s) (fst t) || pt_eqb (fst s) (snd t) || pt_eqb (snd s) (fst t) || pt_eqb (snd s) (snd t).
(* two non-degenerate segments have no common point other than a common end point *)
Definition seg_ok (s t : seg) : bool :=
  let a := fst s in let b := snd s in let c := fst t in let d := snd t in
  if pt_eqb a b || pt_eqb c d then false else
  let dc := det a b c in let dd := det a b d in
  if (dc =? 0) && (dd =? 0) then
    (Z.max (tpar a b c) (tpar a b d) <=? 0) || (d2 a b <=? Z.min (tpar a b c) (tpar a b d))
  else if same_side dc dd || same_side (det c d a) (det c d b) then true
  else share_end s t.
(* the same verdict from the kernel's classification (Lib/KernelDefs.seg_class, the model of LineIntersector): no
   intersection, or a single non-proper point that is an end point of both *)
Definition is_end_q (p : KernelDefs.qpt) (s : seg) : bool :=
  KernelDefs.qeqb p (KernelDefs.q_of_pt (fst s)) || KernelDefs.qeqb p (KernelDefs.q_of_pt (snd s)).
Definition seg_ok_kernel (s t : seg) : bool :=
  match KernelDefs.seg_class (fst s) (snd s) (fst t) (snd t) with
  | KernelDefs.SegNone => true
  | KernelDefs.SegPoint proper p => negb proper && is_end_q p s && is_end_q p t
  | KernelDefs.SegCollinear _ _ => false
  end.
Fixpoint all_pairs_ok (f : seg -> seg -> bool) (l : list seg) : bool :=
  match l with [] => true | s :: r => forallb (f s) r && all_pairs_ok f r end.

(* squared distance point / segment against a squared tolerance tn/td (td > 0), all exact.  Points may be given with a
   common denominator k (p = (x/k, y/k)): the segment is then scaled by k and the tolerance by k^2 *)
Definition near_seg (tn td : Z) (k : Z) (p : zpt) (s : seg) : bool :=
  let a := (k * fst (fst s), k * snd (fst s)) in let b := (k * fst (snd s), k * snd (snd s)) in
  let tol := tn * k * k in
  if pt_eqb a b then d2 p a * td <=? tol
  else let len2 := d2 a b in let dot := tpar a b p in
       if dot <=? 0 then d2 p a * td <=? tol
       else if len2 <=? dot then d2 p b * td <=? tol
       else det a b p * det a b p * td <=? tol * len2.
Definition near_any (tn td k : Z) (ss : list seg) (p : zpt) : bool := existsb (near_seg tn td k p) ss.
Fixpoint pairs {A} (l : list A) : list (A * A) :=
  match l with [] => [] | a :: t => map (pair a) t ++ pairs t end.
(* doubled midpoints of consecutive points of {ends of s} ∪ {given vertices within tolerance of s}, ordered along s *)
Fixpoint cons_mids (l : list (Z * zpt)) : list zpt :=
  match l with
  | x :: (y :: _) as r => (fst (snd x) + fst (snd y), snd (snd x) + snd (snd y)) :: cons_mids r
  | _ => []
  end.
Definition cover_samples (tn td : Z) (W : list zpt) (s : seg) : list zpt :=
  let ps := fst s :: snd s :: filter (fun w => near_seg tn td 1 w s) W in
  cons_mids (sort_k (map (fun p => (tpar (fst s) (snd s) p, p)) ps)).
Definition mid2 (s : seg) : zpt := (fst (fst s) + fst (snd s), snd (fst s) + snd (snd s)).

(* zero-length segments (repeated points, which the noder keeps) are points of the linework, not segments *)
Definition node_disjoint_ok (outs : list line) : bool := all_pairs_ok seg_ok (all_segs outs).
Definition node_kernel_agrees (outs : list line) : bool :=
  all_pairs_ok (fun s t => Bool.eqb (seg_ok s t) (seg_ok_kernel s t)) (all_segs outs).
(* every input vertex is on the output linework — to within the tolerance: a vertex inside another line's segment stays
   there only up to the rounding of that segment's other nodes *)
Definition node_in_on_out (tn td : Z) (ins outs : list line) : bool :=
  forallb (near_any tn td 1 (flat_map segs_of_line outs)) (all_pts ins).
Definition node_out_near_in (tn td : Z) (ins outs : list line) : bool :=
  forallb (near_any tn td 1 (flat_map segs_of_line ins)) (all_pts outs).
(* sampled point-set clauses: every sample of the input linework is within twice the tolerance of the output linework and
   every output segment midpoint within twice the tolerance of the input linework *)
Definition node_cover_in (tn td : Z) (ins outs : list line) : bool :=
  forallb (fun s => forallb (near_any (4 * tn) td 2 (flat_map segs_of_line outs)) (cover_samples tn td (all_pts outs) s))
          (all_segs ins).
Definition node_cover_out (tn td : Z) (ins outs : list line) : bool :=
  forallb (fun s => near_any (4 * tn) td 2 (flat_map segs_of_line ins) (mid2 s)) (all_segs outs).
Definition noding_check (tn td : Z) (ins outs : list line) : bool :=
  node_disjoint_ok outs && node_in_on_out tn td ins outs && node_out_near_in tn td ins outs
  && node_cover_in tn td ins outs && node_cover_out tn td ins outs.

(* ================================================================ polygonizing *)
Definition poly := (line * list line)%type.
Definition area2 (r : line) : Z :=
  fold_right (fun s acc => (fst (fst s) * snd (snd s) - fst (snd s) * snd (fst s)) + acc) 0 (segs_of_line r).
Definition rev_seg (s : seg) : seg := (snd s, fst s).
(* the segments of a ring directed so that the polygon's interior is on their left: shell counter-clockwise, holes clockwise *)
Definition ring_left (is_shell : bool) (r : line) : list seg :=
  let ss := filter nondeg (segs_of_line r) in
  let ccw := 0 <? area2 r in
  if Bool.eqb ccw is_shell then ss else map rev_seg (rev ss).
Definition poly_left (p : poly) : list seg := ring_left true (fst p) ++ flat_map (ring_left false) (snd p).
Definition poly_valid (p : poly) : bool := ValidDefs.valid_geom (GeomDefs.GPoly (fst p) (snd p)).
Definition useg (ls : list line) : list seg := map norm_seg (all_segs ls).

(* S: dangles = the edges removed by repeatedly deleting edges with an end of degree one; cut edges = the bridges of the rest *)
Definition seg_deg (p : zpt) (ss : list seg) : Z :=
  cnt (fun s => pt_eqb (fst s) p) ss + cnt (fun s => pt_eqb (snd s) p) ss.
Definition prune_step (ss : list seg) : list seg :=
  filter (fun s => negb ((seg_deg (fst s) ss =? 1) || (seg_deg (snd s) ss =? 1))) ss.
Fixpoint prune (fuel : nat) (ss : list seg) : list seg :=
  match fuel with O => ss | S f => prune f (prune_step ss) end.
Definition core_of (ss : list seg) : list seg := prune (length ss) ss.
Definition dangles_spec (ss : list seg) : list seg := filter (fun s => negb (mem_seg s (core_of ss))) ss.
(* vertices reachable from the set `seen` using the edges ss *)
Definition reach_step (ss : list seg) (seen : list zpt) : list zpt :=
  nodup_pts (seen ++ flat_map (fun s => (if mem_pt (fst s) seen then [snd s] else []) ++
                                        (if mem_pt (snd s) seen then [fst s] else [])) ss).
Fixpoint reach (fuel : nat) (ss : list seg) (seen : list zpt) : list zpt :=
  match fuel with O => seen | S f => reach f ss (reach_step ss seen) end.
Definition remove_seg (x : seg) (ss : list seg) : list seg := filter (fun s => negb (if seg_eq_dec s x then true else false)) ss.
Definition is_bridge (ss : list seg) (e : seg) : bool :=
  negb (mem_pt (snd e) (reach (length ss) (remove_seg e ss) [fst e])).
Definition cuts_spec (ss : list seg) : list seg := let c := core_of ss in filter (is_bridge c) c.

Definition polyg_valid_ok (ps : list poly) : bool := forallb poly_valid ps.
Definition polyg_sides_ok (ps : list poly) : bool := nodup_segb (flat_map poly_left ps).
Definition polyg_edges_in (ins : list line) (ps : list poly) : bool :=
  subset_seg (map norm_seg (flat_map poly_left ps)) (useg ins).
Definition polyg_account_ok (ins : list line) (ps : list poly) (dangles cuts invalid : list line) : bool :=
  let I := useg ins in let P := map norm_seg (flat_map poly_left ps) in
  let D := useg dangles in let C := useg cuts in let R := useg invalid in
  set_eqb I (P ++ D ++ C ++ R) && nodup_segb D && nodup_segb C
  && disjoint_seg D P && disjoint_seg C P && disjoint_seg D C && disjoint_seg D R && disjoint_seg C R.
(* no point is interior to two polygons (a side of an edge would then be used twice): tested at witnesses — the ear centroids
   of every ring and the midpoints of every pair of vertices of each polygon *)
Fixpoint ear_points (l : line) : list LocateDefs.hpt :=
  match l with
  | a :: (b :: c :: _) as t => (fst a + fst b + fst c, snd a + snd b + snd c, 3) :: ear_points t
  | _ => []
  end.
Definition poly_witnesses (p : poly) : list LocateDefs.hpt :=
  flat_map ear_points (fst p :: snd p)
  ++ map (fun ab => LocateDefs.mid (fst ab) (snd ab)) (pairs (nodup_pts (fst p ++ concat (snd p)))).
Definition poly_interior_h (q : LocateDefs.hpt) (p : poly) : bool :=
  LocateDefs.location_eqb (LocateDefs.loc_poly_h q p) LocateDefs.Interior.
Definition polyg_disjoint_ok (ps : list poly) : bool :=
  forallb (fun q => (length (filter (poly_interior_h q) ps) <=? 1)%nat) (flat_map poly_witnesses ps).
Definition polyg_dangles_ok (ins dangles : list line) : bool := set_eqb (useg dangles) (dangles_spec (useg ins)).
Definition polyg_cuts_ok (ins cuts : list line) : bool := set_eqb (useg cuts) (cuts_spec (useg ins)).
Definition polygonize_check (ins : list line) (ps : list poly) (dangles cuts invalid : list line) : bool :=
  nodup_segb (useg ins) && polyg_valid_ok ps && polyg_sides_ok ps && polyg_edges_in ins ps
  && polyg_account_ok ins ps dangles cuts invalid && polyg_dangles_ok ins dangles && polyg_cuts_ok ins cuts
  && polyg_disjoint_ok ps.

(* ================================================================ shared paths *)
(* the common unit sub-segments of two linework sets, split by relative direction.  Units are taken directed as in g1. *)
Definition shared_spec (g1 g2 : list line) (V : list zpt) (same : bool) : list seg :=
  let u1 := units_dir V (all_segs g1) in let u2 := units_dir V (all_segs g2) in
  filter (fun u => if same then mem_seg u u2 else mem_seg (rev_seg u) u2) u1.
Definition shared_check (g1 g2 fw bw : list line) : bool :=
  let V := all_pts g1 ++ all_pts g2 ++ all_pts fw ++ all_pts bw in
  let u1 := units_dir V (all_segs g1) in let u2 := units_dir V (all_segs g2) in
  (* each input is simple at the level of units: no unit is run through twice *)
  nodup_segb (map norm_seg u1) && nodup_segb (map norm_seg u2)
  && nodup_segb (units_undir V (all_segs fw)) && nodup_segb (units_undir V (all_segs bw))
  && set_eqb (units_undir V (all_segs fw)) (map norm_seg (shared_spec g1 g2 V true))
  && set_eqb (units_undir V (all_segs bw)) (map norm_seg (shared_spec g1 g2 V false)).
