(* C19 — tie G: the generated definition of LinearLocation::compareLocationValues (static six-argument form; translator unit
   LR_compareLocationValues, fractions read as integers over a common positive denominator) is the model's cmp_loc. *)
From Coq Require Import QArith ZArith List Bool Arith Lia.
From GeosV.Gen Require Import LR_compareLocationValues.
From GeosV.C19 Require Import LinRefDefs LinRefProofs.
Local Open Scope Z_scope.

Definition cmp_code (c : comparison) : Z := match c with Lt => -1 | Eq => 0 | Gt => 1 end.

Lemma Qltb_common n0 n1 d : Qltb (n0 # d) (n1 # d) = (n0 <? n1).
Proof.
  unfold Qltb, Qle_bool. cbn [Qnum Qden]. destruct (n0 <? n1) eqn:E.
  - apply Z.ltb_lt in E. apply negb_true_iff. apply Z.leb_gt. nia.
  - apply Z.ltb_ge in E. apply negb_false_iff. apply Z.leb_le. nia.
Qed.

Theorem gen_compareLocationValues_eq (c0 s0 c1 s1 : nat) (n0 n1 : Z) (d : positive) :
  g_compareLocationValues (Z.of_nat c0) (Z.of_nat s0) n0 (Z.of_nat c1) (Z.of_nat s1) n1
  = cmp_code (cmp_loc (mkLoc c0 s0 (n0 # d)) (mkLoc c1 s1 (n1 # d))).
Proof.
  unfold g_compareLocationValues, cmp_loc. cbn [lcomp lseg lfrac]. rewrite !Qltb_common.
  unfold GenPreludeZ.ltb, GenPreludeZ.gtb.
  destruct (Nat.compare c0 c1) eqn:C.
  - apply Nat.compare_eq in C. subst c1. rewrite Z.ltb_irrefl. rewrite Z.gtb_ltb, Z.ltb_irrefl.
    destruct (Nat.compare s0 s1) eqn:S.
    + apply Nat.compare_eq in S. subst s1. rewrite Z.ltb_irrefl. rewrite Z.gtb_ltb, Z.ltb_irrefl.
      rewrite (Z.gtb_ltb n0 n1). destruct (n0 <? n1); [reflexivity|]. destruct (n1 <? n0); reflexivity.
    + apply Nat.compare_lt_iff in S. assert (E : Z.of_nat s0 <? Z.of_nat s1 = true) by (apply Z.ltb_lt; lia). rewrite E. reflexivity.
    + apply Nat.compare_gt_iff in S. assert (E : Z.of_nat s0 <? Z.of_nat s1 = false) by (apply Z.ltb_ge; lia). rewrite E.
      assert (E2 : Z.of_nat s0 >? Z.of_nat s1 = true) by (rewrite Z.gtb_ltb; apply Z.ltb_lt; lia). rewrite E2. reflexivity.
  - apply Nat.compare_lt_iff in C. assert (E : Z.of_nat c0 <? Z.of_nat c1 = true) by (apply Z.ltb_lt; lia). rewrite E. reflexivity.
  - apply Nat.compare_gt_iff in C. assert (E : Z.of_nat c0 <? Z.of_nat c1 = false) by (apply Z.ltb_ge; lia). rewrite E.
    assert (E2 : Z.of_nat c0 >? Z.of_nat c1 = true) by (rewrite Z.gtb_ltb; apply Z.ltb_lt; lia). rewrite E2. reflexivity.
Qed.
