(* C19 — soundness of the checkers of CheckDefs.v: what `check = true` means. *)
From Coq Require Import QArith ZArith List Bool Lia Lqa Reals Permutation.
From GeosV.C19 Require Import LinRefDefs LinRefNearest CheckDefs CheckLists CheckGeom MergeLength.
From GeosV.Lib Require GeomDefs ValidDefs.
Import ListNotations.

(* ================================================================ merging *)
Lemma all_segs_nondeg ls : Forall (fun s => nondeg s = true) (all_segs ls).
Proof. unfold all_segs. apply Forall_forall. intros s H. apply filter_In in H. tauto. Qed.

(* a grid point on a (possibly degenerate) grid segment, as a rational point *)
Definition qz (v : zpt) : QP := (inject_Z (fst v), inject_Z (snd v)).
Lemma at_pt_qz v : at_pt (qz v) v.
Proof. split; reflexivity. Qed.
Lemma on_segQ_at p v s : at_pt p v -> on_segQ (qz v) s -> on_segQ p s.
Proof.
  intros [A1 A2] [t [T0 [T1 [Px Py]]]]. exists t. cbn [qz fst snd] in *. repeat split; auto.
  - rewrite A1. exact Px.
  - rewrite A2. exact Py.
Qed.
Lemma on_segb_sound v a b : on_segb v a b = true -> on_segQ (qz v) (a, b).
Proof.
  unfold on_segb. destruct (pt_eqb a b) eqn:E.
  - intros H. apply pt_eqb_eq in H. subst v. exists 0%Q. cbn [qz fst snd]. repeat split; try lra; ring.
  - apply pt_eqb_neq in E. intros H. apply andb_true_iff in H. destruct H as [H H2]. apply andb_true_iff in H. destruct H as [H0 H1].
    apply Z.eqb_eq in H0. apply Z.leb_le in H1. apply Z.leb_le in H2.
    destruct (grid_param a b v E H0) as [Gx Gy].
    pose proof (XQ_pos _ (d2_pos a b E)) as Lp.
    exists (inject_Z (tpar a b v) / inject_Z (d2 a b))%Q. cbn [qz fst snd]. repeat split; auto.
    + apply Qle_shift_div_l; [exact Lp|]. rewrite Qmult_0_l. change 0%Q with (inject_Z 0). apply XQ_le. exact H1.
    + apply Qle_shift_div_r; [exact Lp|]. rewrite Qmult_1_l. apply XQ_le. exact H2.
Qed.
Lemma degenerate_point p a b : nondeg (a, b) = false -> on_segQ p (a, b) -> at_pt p a.
Proof.
  unfold nondeg. cbn [fst snd]. rewrite negb_false_iff. intros E [t [_ [_ [Px Py]]]]. apply pt_eqb_eq in E. subst b. cbn [fst snd] in *.
  split; [rewrite Px | rewrite Py]; ring.
Qed.

(* the whole linework of `ls` (all segments, the zero-length ones being points) *)
Definition linework (ls : list line) : list seg := flat_map segs_of_line ls.
Lemma pts_cover ls ms : forallb (fun v => pt_on_lines v ms) (flat_map (fun s => [fst s; snd s]) (linework ls)) = true ->
  forall p s, In s (linework ls) -> nondeg s = false -> on_segQ p s -> on_linesQ p (linework ms).
Proof.
  intros H p [a b] Is Nd P. rewrite forallb_forall in H.
  pose proof (degenerate_point p a b Nd P) as A.
  assert (Ia : In a (flat_map (fun s => [fst s; snd s]) (linework ls))).
  { apply in_flat_map. exists (a, b). split; [exact Is | left; reflexivity]. }
  specialize (H a Ia). unfold pt_on_lines in H. apply existsb_exists in H. destruct H as [[c d] [It Ht]]. cbn [fst snd] in Ht.
  exists (c, d). split; [exact It|]. apply (on_segQ_at p a); [exact A | apply on_segb_sound; exact Ht].
Qed.
Lemma linework_split p ls : on_linesQ p (linework ls) <->
  (on_linesQ p (all_segs ls) \/ exists s, In s (linework ls) /\ nondeg s = false /\ on_segQ p s).
Proof.
  unfold all_segs, linework. split.
  - intros [s [I P]]. destruct (nondeg s) eqn:E.
    + left. exists s. split; [apply filter_In; split; assumption | exact P].
    + right. exists s. auto.
  - intros [[s [I P]] | [s [I [_ P]]]].
    + apply filter_In in I. exists s. tauto.
    + exists s. auto.
Qed.

Record MergeSpec (directed : bool) (ins outs : list line) : Prop := {
  (* exactly the same point set (rational points of the plane), zero-length lines and repeated points included *)
  ms_points : forall p, on_linesQ p (linework ins) <-> on_linesQ p (linework outs);
  (* the same total length *)
  ms_length : total_len (all_segs ins) = total_len (all_segs outs);
  (* the same multiset of unit sub-segments; when directed, with their directions *)
  ms_units : let V := all_pts ins ++ all_pts outs in
             if directed then Permutation (units_dir V (all_segs ins)) (units_dir V (all_segs outs))
             else Permutation (units_undir V (all_segs ins)) (units_undir V (all_segs outs));
  (* at every node through which the merger must continue no output line stops, unless it is one ring through that node *)
  ms_nodes : forall p, In p (map fst (ends_of ins) ++ map snd (ends_of ins)) ->
             must_merge directed (ends_of ins) p = true -> node_joined (ends_of outs) p = true
}.

Lemma nodup_pts_in p l : In p l -> In p (nodup_pts l).
Proof.
  induction l as [|a t IH]; intros H; [destruct H|]. cbn. destruct (mem_pt a t) eqn:E.
  - destruct H as [<- | H]; [|apply IH; exact H]. unfold mem_pt in E. apply existsb_exists in E. destruct E as [x [Ix Ex]].
    apply pt_eqb_eq in Ex. subst x. apply IH. exact Ix.
  - destruct H as [<- | H]; [left; reflexivity | right; apply IH; exact H].
Qed.

Theorem merge_check_sound directed ins outs : merge_check directed ins outs = true -> MergeSpec directed ins outs.
Proof.
  unfold merge_check. intros H. apply andb_true_iff in H. destruct H as [H Hp]. apply andb_true_iff in H. destruct H as [Hu Hn].
  set (V := all_pts ins ++ all_pts outs).
  assert (PU : Permutation (units_undir V (all_segs ins)) (units_undir V (all_segs outs))).
  { unfold merge_units_ok in Hu. fold V in Hu. destruct directed.
    - apply mset_eqb_perm in Hu. unfold units_undir. apply Permutation_map. exact Hu.
    - apply mset_eqb_perm. exact Hu. }
  unfold merge_pts_ok in Hp. apply andb_true_iff in Hp. destruct Hp as [Hp1 Hp2].
  constructor.
  - intros p. rewrite !linework_split. pose proof (merge_pointset V _ _ p (all_segs_nondeg ins) (all_segs_nondeg outs) PU) as MP.
    split; intros [A | [s [I [Nd P]]]].
    + left. apply MP. exact A.
    + apply linework_split. apply (pts_cover ins outs Hp1 p s I Nd P).
    + left. apply MP. exact A.
    + apply linework_split. apply (pts_cover outs ins Hp2 p s I Nd P).
  - apply (merge_length V); auto using all_segs_nondeg.
  - fold V. unfold merge_units_ok in Hu. fold V in Hu. destruct directed; [apply mset_eqb_perm; exact Hu | exact PU].
  - intros p Ip Hm. unfold merge_nodes_ok in Hn. rewrite forallb_forall in Hn.
    specialize (Hn p (nodup_pts_in p _ Ip)). rewrite Hm in Hn. exact Hn.
Qed.

(* ================================================================ noding *)
(* the Boolean distance test is the comparison of the exact squared point-segment distance (LinRefDefs.d2_pt_seg, proved to be
   the minimum over the segment in LinRefNearest.d2_pt_seg_min) with the squared tolerance tn/td, the point being given in
   units of 1/k *)
Definition scale_z (k : Z) (a : zpt) : zpt := ((k * fst a)%Z, (k * snd a)%Z).
Lemma near_seg_sound tn td k p s : (0 < td)%Z -> near_seg tn td k p s = true ->
  (d2_pt_seg p (scale_z k (fst s)) (scale_z k (snd s)) * inject_Z td <= inject_Z (tn * k * k))%Q.
Proof.
  intros Td. unfold near_seg, d2_pt_seg, scale_z. destruct s as [a b]. cbn [fst snd].
  set (a' := ((k * fst a)%Z, (k * snd a)%Z)). set (b' := ((k * fst b)%Z, (k * snd b)%Z)).
  assert (Ezd : forall u v : zpt, zd2 u v = d2 u v) by (intros; unfold zd2, zsq, d2; ring).
  assert (Ezd' : zd2 b' a' = d2 a' b') by (unfold zd2, zsq, d2; ring).
  assert (Edot : zdot p a' b' = tpar a' b' p) by (unfold zdot, tpar; ring).
  assert (Ecr : zsq (zcross p a' b') = (det a' b' p * det a' b' p)%Z) by (unfold zsq, zcross, det; ring).
  assert (Eqb : zpt_eqb a' b' = pt_eqb a' b') by reflexivity.
  rewrite Eqb, Ezd', Edot. destruct (pt_eqb a' b').
  - intros H. apply Z.leb_le in H. rewrite Ezd, <- inject_Z_mult. apply XQ_le. exact H.
  - destruct (tpar a' b' p <=? 0)%Z eqn:E1.
    + intros H. apply Z.leb_le in H. rewrite Ezd, <- inject_Z_mult. apply XQ_le. exact H.
    + destruct (d2 a' b' <=? tpar a' b' p)%Z eqn:E2.
      * intros H. apply Z.leb_le in H. rewrite Ezd, <- inject_Z_mult. apply XQ_le. exact H.
      * intros H. apply Z.leb_le in H. apply Z.leb_gt in E2. apply Z.leb_gt in E1. rewrite Ecr.
        destruct (d2 a' b') as [|L|L] eqn:EL.
        -- lia.
        -- unfold q_of_zz. unfold Qle, Qmult, inject_Z. cbn [Qnum Qden]. rewrite Z.mul_1_r, Pos.mul_1_r. nia.
        -- assert (0 <= d2 a' b')%Z by (unfold d2; pose proof (sq_nonneg (fst b' - fst a')); pose proof (sq_nonneg (snd b' - snd a')); lia). lia.
Qed.

Lemma FOP_impl {A} (P Q : A -> A -> Prop) l : (forall a b, P a b -> Q a b) -> ForallOrdPairs P l -> ForallOrdPairs Q l.
Proof.
  intros H. induction 1 as [|a l Ha Hl IH]; constructor; [|exact IH].
  eapply Forall_impl; [|exact Ha]. intros b. apply H.
Qed.

Definition NodingSpec (tn td : Z) (ins outs : list line) : Prop :=
  (* no two output segments have a common point other than a common end point *)
  ForallOrdPairs (fun s t => forall p, on_segQ p s -> on_segQ p t -> is_endQ p s /\ is_endQ p t) (all_segs outs)
  (* every input vertex is within the tolerance of the output linework, every output vertex of the input linework *)
  /\ (forall v, In v (all_pts ins) -> exists s, In s (linework outs) /\ near_seg tn td 1 v s = true)
  /\ (forall w, In w (all_pts outs) -> exists s, In s (linework ins) /\ near_seg tn td 1 w s = true)
  (* sampled: the doubled midpoints between consecutive nodes of every input segment are within twice the tolerance of the
     output linework; the doubled midpoint of every output segment within twice the tolerance of the input linework *)
  /\ (forall s m, In s (all_segs ins) -> In m (cover_samples tn td (all_pts outs) s) ->
        exists t, In t (linework outs) /\ near_seg (4 * tn) td 2 m t = true)
  /\ (forall s, In s (all_segs outs) -> exists t, In t (linework ins) /\ near_seg (4 * tn) td 2 (mid2 s) t = true).

(* Full statement (not proved): every POINT of the input linework is within the tolerance of the output linework and vice
   versa.  Proved: the vertex clauses and the sampled midpoints above; the continuum between the samples is not covered. *)
Theorem noding_check_sound_partial tn td ins outs : noding_check tn td ins outs = true -> NodingSpec tn td ins outs.
Proof.
  unfold noding_check, NodingSpec. intros H.
  apply andb_true_iff in H. destruct H as [H C]. apply andb_true_iff in H. destruct H as [H C0].
  apply andb_true_iff in H. destruct H as [H C1]. apply andb_true_iff in H. destruct H as [H C2].
  split; [| split; [| split; [| split]]].
  - unfold node_disjoint_ok in H. apply all_pairs_ok_spec in H.
    eapply FOP_impl; [|exact H]. intros s t Hst. apply seg_ok_sound. exact Hst.
  - intros v Iv. unfold node_in_on_out in C2. rewrite forallb_forall in C2. specialize (C2 v Iv).
    unfold near_any in C2. apply existsb_exists in C2. exact C2.
  - intros w Iw. unfold node_out_near_in in C1. rewrite forallb_forall in C1. specialize (C1 w Iw).
    unfold near_any in C1. apply existsb_exists in C1. exact C1.
  - intros s m Is Im. unfold node_cover_in in C0. rewrite forallb_forall in C0. specialize (C0 s Is).
    rewrite forallb_forall in C0. specialize (C0 m Im). unfold near_any in C0. apply existsb_exists in C0. exact C0.
  - intros s Is. unfold node_cover_out in C. rewrite forallb_forall in C. specialize (C s Is).
    unfold near_any in C. apply existsb_exists in C. exact C.
Qed.

(* ================================================================ polygonizing *)
(* iterated removal of edges with an end of degree one stops within `length` rounds: the core has no such edge *)
Lemma filter_length_le {A} (f : A -> bool) l : (length (filter f l) <= length l)%nat.
Proof. induction l as [|a t IH]; cbn; [lia|]. destruct (f a); cbn; lia. Qed.
Lemma filter_same_length {A} (f : A -> bool) l : length (filter f l) = length l -> filter f l = l.
Proof.
  induction l as [|a t IH]; cbn; [reflexivity|]. destruct (f a); cbn; intros H.
  - f_equal. apply IH. lia.
  - pose proof (filter_length_le f t). lia.
Qed.
Lemma prune_fixed fuel ss : prune_step ss = ss -> prune fuel ss = ss.
Proof. induction fuel as [|f IH]; cbn; [reflexivity|]. intros H. rewrite H. apply IH. exact H. Qed.
Lemma prune_reaches_fix fuel : forall ss, (length ss <= fuel)%nat -> prune_step (prune fuel ss) = prune fuel ss.
Proof.
  induction fuel as [|f IH]; intros ss H.
  - destruct ss; [reflexivity | exfalso; cbn [length] in H; inversion H].
  - cbn [prune]. destruct (Nat.eq_dec (length (prune_step ss)) (length ss)) as [E | NE].
    + assert (F : prune_step ss = ss) by (unfold prune_step in *; apply filter_same_length; exact E).
      rewrite F, (prune_fixed f ss F). exact F.
    + apply IH. assert (Hl : (length (prune_step ss) <= length ss)%nat) by (unfold prune_step; apply filter_length_le). lia.
Qed.
Theorem core_no_dangles ss s : In s (core_of ss) ->
  seg_deg (fst s) (core_of ss) <> 1%Z /\ seg_deg (snd s) (core_of ss) <> 1%Z.
Proof.
  intros H. pose proof (prune_reaches_fix (length ss) ss (le_n _)) as F. fold (core_of ss) in F.
  rewrite <- F in H. unfold prune_step in H. apply filter_In in H. destruct H as [_ H].
  apply negb_true_iff in H. apply orb_false_iff in H. destruct H as [H1 H2].
  apply Z.eqb_neq in H1. apply Z.eqb_neq in H2. split; assumption.
Qed.
Lemma core_incl ss : incl (core_of ss) ss.
Proof.
  unfold core_of. generalize (length ss). intros fuel. revert ss. induction fuel as [|f IH]; intros ss; cbn; [apply incl_refl|].
  intros x Hx. apply IH in Hx. unfold prune_step in Hx. apply filter_In in Hx. tauto.
Qed.

Record PolygonizeSpec (ins : list line) (ps : list poly) (dangles cuts invalid : list line) : Prop := {
  (* the input is a set of distinct edges *)
  pg_input : NoDup (useg ins);
  (* every polygon is valid *)
  pg_valid : forall p, In p ps -> ValidDefs.valid_geom (GeomDefs.GPoly (fst p) (snd p)) = true;
  (* no edge is used twice on the same side: the boundary segments, directed with the interior on their left, are distinct *)
  pg_sides : NoDup (flat_map poly_left ps);
  (* polygon boundaries consist of input edges *)
  pg_edges : incl (map norm_seg (flat_map poly_left ps)) (useg ins);
  (* polygons, dangles, cut edges and invalid rings account for every input edge and for nothing else; dangles and cut edges
     are reported once and are on no polygon, no ring and not in both lists *)
  pg_cover : incl (useg ins) (map norm_seg (flat_map poly_left ps) ++ useg dangles ++ useg cuts ++ useg invalid);
  pg_only : incl (map norm_seg (flat_map poly_left ps) ++ useg dangles ++ useg cuts ++ useg invalid) (useg ins);
  pg_once : NoDup (useg dangles) /\ NoDup (useg cuts);
  pg_apart : (forall x, In x (useg dangles) -> ~ In x (map norm_seg (flat_map poly_left ps)) /\ ~ In x (useg cuts) /\ ~ In x (useg invalid))
             /\ (forall x, In x (useg cuts) -> ~ In x (map norm_seg (flat_map poly_left ps)) /\ ~ In x (useg invalid));
  (* the dangles are the edges outside the core (the part left when edges with a free end are removed again and again), the
     cut edges are the bridges of the core *)
  pg_dangles : forall x, In x (useg dangles) <-> In x (dangles_spec (useg ins));
  pg_cuts : forall x, In x (useg cuts) <-> In x (cuts_spec (useg ins));
  (* sampled: no witness (ear centroid of a ring, midpoint of two vertices of one polygon) is interior to two polygons *)
  pg_disjoint : forall q, In q (flat_map poly_witnesses ps) -> (length (filter (poly_interior_h q) ps) <= 1)%nat
}.

Theorem polygonize_check_sound ins ps dangles cuts invalid :
  polygonize_check ins ps dangles cuts invalid = true -> PolygonizeSpec ins ps dangles cuts invalid.
Proof.
  unfold polygonize_check. intros H.
  apply andb_true_iff in H. destruct H as [H Kdisj].
  apply andb_true_iff in H. destruct H as [H Kcuts]. apply andb_true_iff in H. destruct H as [H Kdang].
  apply andb_true_iff in H. destruct H as [H Kacc]. apply andb_true_iff in H. destruct H as [H Kedges].
  apply andb_true_iff in H. destruct H as [H Ksides]. apply andb_true_iff in H. destruct H as [Kin Kvalid].
  unfold polyg_account_ok in Kacc.
  apply andb_true_iff in Kacc. destruct Kacc as [Kacc ACR]. apply andb_true_iff in Kacc. destruct Kacc as [Kacc ADR].
  apply andb_true_iff in Kacc. destruct Kacc as [Kacc ADC]. apply andb_true_iff in Kacc. destruct Kacc as [Kacc ACP].
  apply andb_true_iff in Kacc. destruct Kacc as [Kacc ADP]. apply andb_true_iff in Kacc. destruct Kacc as [Kacc ANC].
  apply andb_true_iff in Kacc. destruct Kacc as [Kset AND].
  apply set_eqb_incl in Kset. destruct Kset as [I1 I2].
  constructor.
  - apply nodup_segb_nodup. exact Kin.
  - intros p Ip. unfold polyg_valid_ok in Kvalid. rewrite forallb_forall in Kvalid. apply (Kvalid p Ip).
  - apply nodup_segb_nodup. exact Ksides.
  - apply subset_seg_incl. exact Kedges.
  - exact I1.
  - exact I2.
  - split; apply nodup_segb_nodup; assumption.
  - split.
    + intros x Hx. repeat split.
      * apply (disjoint_seg_spec _ _ ADP x Hx).
      * apply (disjoint_seg_spec _ _ ADC x Hx).
      * apply (disjoint_seg_spec _ _ ADR x Hx).
    + intros x Hx. split.
      * apply (disjoint_seg_spec _ _ ACP x Hx).
      * apply (disjoint_seg_spec _ _ ACR x Hx).
  - unfold polyg_dangles_ok in Kdang. apply set_eqb_incl in Kdang. destruct Kdang as [D1 D2]. intros x. split; [apply D1 | apply D2].
  - unfold polyg_cuts_ok in Kcuts. apply set_eqb_incl in Kcuts. destruct Kcuts as [D1 D2]. intros x. split; [apply D1 | apply D2].
  - intros q Iq. unfold polyg_disjoint_ok in Kdisj. rewrite forallb_forall in Kdisj. apply Nat.leb_le. apply Kdisj. exact Iq.
Qed.

(* ================================================================ shared paths *)
Record SharedSpec (g1 g2 fw bw : list line) : Prop := {
  sp_V := all_pts g1 ++ all_pts g2 ++ all_pts fw ++ all_pts bw;
  (* neither input runs twice over the same unit *)
  sp_simple : NoDup (map norm_seg (units_dir sp_V (all_segs g1))) /\ NoDup (map norm_seg (units_dir sp_V (all_segs g2)));
  sp_once : NoDup (units_undir sp_V (all_segs fw)) /\ NoDup (units_undir sp_V (all_segs bw));
  (* the forward paths consist exactly of the units that g1 and g2 run through in the same direction, the backward paths of
     those they run through in opposite directions *)
  sp_forward : forall x, In x (units_undir sp_V (all_segs fw)) <->
               exists u, x = norm_seg u /\ In u (units_dir sp_V (all_segs g1)) /\ In u (units_dir sp_V (all_segs g2));
  sp_backward : forall x, In x (units_undir sp_V (all_segs bw)) <->
               exists u, x = norm_seg u /\ In u (units_dir sp_V (all_segs g1)) /\ In (rev_seg u) (units_dir sp_V (all_segs g2))
}.

Lemma shared_spec_in g1 g2 V same x : In x (map norm_seg (shared_spec g1 g2 V same)) <->
  exists u, x = norm_seg u /\ In u (units_dir V (all_segs g1)) /\
            In (if same then u else rev_seg u) (units_dir V (all_segs g2)).
Proof.
  unfold shared_spec. rewrite in_map_iff. split.
  - intros [u [<- H]]. apply filter_In in H. destruct H as [H1 H2]. exists u. repeat split; auto.
    destruct same; apply mem_seg_in; exact H2.
  - intros [u [-> [H1 H2]]]. exists u. split; [reflexivity|]. apply filter_In. split; [exact H1|].
    destruct same; apply mem_seg_in; exact H2.
Qed.

(* Full statement (not proved): the paths are moreover MAXIMAL common sub-lines.  Proved: forward and backward paths cover
   exactly the common units, split by relative direction; maximality of the individual paths is not checked. *)
Theorem shared_check_sound_partial g1 g2 fw bw : shared_check g1 g2 fw bw = true -> SharedSpec g1 g2 fw bw.
Proof.
  unfold shared_check. intros H.
  apply andb_true_iff in H. destruct H as [H KB]. apply andb_true_iff in H. destruct H as [H KF].
  apply andb_true_iff in H. destruct H as [H NB]. apply andb_true_iff in H. destruct H as [H NF].
  apply andb_true_iff in H. destruct H as [N1 N2].
  apply set_eqb_incl in KB. apply set_eqb_incl in KF. destruct KB as [B1 B2], KF as [F1 F2].
  constructor.
  - split; apply nodup_segb_nodup; assumption.
  - split; apply nodup_segb_nodup; assumption.
  - intros x. rewrite <- (shared_spec_in g1 g2 _ true x). split; [apply F1 | apply F2].
  - intros x. rewrite <- (shared_spec_in g1 g2 _ false x). split; [apply B1 | apply B2].
Qed.
