(* C19 — tie G for the member functions of LinearLocation and the index conventions of LengthIndexedLine (generated units
   LR_compareTo, LR_isVertex, LR_isOnSameSegment, LR_positiveIndex, LR_clampIndex; `double` read as a real, C19/GenPreludeLR):
   the generated definitions are the model's cmp_loc / is_vertex / clamp_index on locations and indices carried into the reals. *)
From Coq Require Import QArith Qreals Reals Lra ZArith List Bool Arith Lia.
From GeosV.C19 Require Import GenPreludeLR LinRefDefs GenTie.
From GeosV.Gen Require Import LR_compareTo LR_isVertex LR_isOnSameSegment LR_positiveIndex LR_clampIndex.
Local Open Scope R_scope.
Set Default Timeout 120.

(* a model location (nat indices, rational fraction) as the C++ object read over the reals *)
Definition rl (l : loc) : rloc := mk_rloc (Z.of_nat (lcomp l)) (Z.of_nat (lseg l)) (Q2R (lfrac l)).

Lemma Qltb_Rlt : forall x y, Qltb x y = GenPreludeR.ltb (Q2R x) (Q2R y).
Proof.
  intros x y. unfold Qltb, GenPreludeR.ltb. destruct (Rlt_dec (Q2R x) (Q2R y)) as [L | G].
  - apply negb_true_iff. destruct (Qle_bool y x) eqn:E; [|reflexivity].
    apply Qle_bool_iff, Qle_Rle in E. lra.
  - apply negb_false_iff. apply Qle_bool_iff. apply Rle_Qle. lra.
Qed.
Lemma Qle_bool_Rle : forall x y, Qle_bool x y = GenPreludeR.leb (Q2R x) (Q2R y).
Proof.
  intros x y. unfold GenPreludeR.leb. destruct (Rle_dec (Q2R x) (Q2R y)) as [L | G].
  - apply Qle_bool_iff. apply Rle_Qle. exact L.
  - destruct (Qle_bool x y) eqn:E; [|reflexivity]. apply Qle_bool_iff, Qle_Rle in E. contradiction.
Qed.
Lemma flit0 : flit 0 0 1 = Q2R 0.
Proof. unfold flit, Q2R. simpl. lra. Qed.
Lemma flit1 : forall b, flit b 1 1 = Q2R 1.
Proof. intros. unfold flit, Q2R. simpl. lra. Qed.

(* LinearLocation::compareTo(other) is the model's order *)
Theorem gen_compareTo_eq : forall a b : loc, g_compareTo (rl a) (rl b) = cmp_code (cmp_loc a b).
Proof.
  intros [c0 s0 f0] [c1 s1 f1]. unfold g_compareTo, cmp_loc, rl.
  cbn [lcomp lseg lfrac f_componentIndex f_segmentIndex f_segmentFraction].
  unfold GenPreludeR.gtb. change (if Rlt_dec (Q2R f1) (Q2R f0) then true else false) with (GenPreludeR.ltb (Q2R f1) (Q2R f0)).
  rewrite <- !Qltb_Rlt.
  destruct (Nat.compare c0 c1) eqn:C.
  - apply Nat.compare_eq in C. subst c1. rewrite Z.ltb_irrefl. rewrite Z.gtb_ltb, Z.ltb_irrefl.
    destruct (Nat.compare s0 s1) eqn:S.
    + apply Nat.compare_eq in S. subst s1. rewrite Z.ltb_irrefl. rewrite Z.gtb_ltb, Z.ltb_irrefl.
      destruct (Qltb f0 f1); [reflexivity|]. destruct (Qltb f1 f0); reflexivity.
    + apply Nat.compare_lt_iff in S. assert (E : (Z.of_nat s0 <? Z.of_nat s1)%Z = true) by (apply Z.ltb_lt; lia). rewrite E. reflexivity.
    + apply Nat.compare_gt_iff in S. assert (E : (Z.of_nat s0 <? Z.of_nat s1)%Z = false) by (apply Z.ltb_ge; lia). rewrite E.
      assert (E2 : (Z.of_nat s0 >? Z.of_nat s1)%Z = true) by (rewrite Z.gtb_ltb; apply Z.ltb_lt; lia). rewrite E2. reflexivity.
  - apply Nat.compare_lt_iff in C. assert (E : (Z.of_nat c0 <? Z.of_nat c1)%Z = true) by (apply Z.ltb_lt; lia). rewrite E. reflexivity.
  - apply Nat.compare_gt_iff in C. assert (E : (Z.of_nat c0 <? Z.of_nat c1)%Z = false) by (apply Z.ltb_ge; lia). rewrite E.
    assert (E2 : (Z.of_nat c0 >? Z.of_nat c1)%Z = true) by (rewrite Z.gtb_ltb; apply Z.ltb_lt; lia). rewrite E2. reflexivity.
Qed.

(* LinearLocation::isVertex *)
Theorem gen_isVertex_eq : forall l : loc, g_isVertex (rl l) = is_vertex l.
Proof.
  intros [c s f]. unfold g_isVertex, is_vertex, rl. cbn [lfrac f_segmentFraction].
  rewrite flit0, flit1. unfold GenPreludeR.geb.
  change (if Rle_dec (Q2R 1) (Q2R f) then true else false) with (GenPreludeR.leb (Q2R 1) (Q2R f)).
  rewrite <- !Qle_bool_Rle. reflexivity.
Qed.

(* LinearLocation::isOnSameSegment: same component and (same segment index, or the later of the two is the start vertex of
   the next segment) *)
Theorem gen_isOnSameSegment_spec : forall a b : loc,
  g_isOnSameSegment (rl a) (rl b) = true <->
  lcomp a = lcomp b /\ (lseg a = lseg b \/ (lseg b = S (lseg a) /\ (lfrac b == 0)%Q) \/ (lseg a = S (lseg b) /\ (lfrac a == 0)%Q)).
Proof.
  intros [c0 s0 f0] [c1 s1 f1]. unfold g_isOnSameSegment, rl.
  cbn [lcomp lseg lfrac f_componentIndex f_segmentIndex f_segmentFraction]. rewrite flit0. unfold zneb, GenPreludeR.eqb.
  assert (QE : forall f, (if Req_EM_T (Q2R f) (Q2R 0) then true else false) = true <-> (f == 0)%Q).
  { intro f. destruct (Req_EM_T (Q2R f) (Q2R 0)) as [E | N].
    - split; [intros _; apply eqR_Qeq; exact E | reflexivity].
    - split; [discriminate | intro H; exfalso; apply N; apply Qeq_eqR; exact H]. }
  destruct (Z.of_nat c0 =? Z.of_nat c1)%Z eqn:EC; cbn [negb].
  2:{ apply Z.eqb_neq in EC. split; [discriminate | intros [H _]; lia]. }
  apply Z.eqb_eq in EC. assert (c0 = c1) by lia. subst c1.
  destruct (Z.of_nat s0 =? Z.of_nat s1)%Z eqn:ES.
  { apply Z.eqb_eq in ES. split; [intros _; split; [reflexivity | left; lia] | reflexivity]. }
  apply Z.eqb_neq in ES.
  destruct (Z.of_nat s1 - Z.of_nat s0 =? 1)%Z eqn:E1; cbn [andb].
  { apply Z.eqb_eq in E1. destruct (Req_EM_T (Q2R f1) (Q2R 0)) as [E | N].
    - split; [intros _; split; [reflexivity | right; left; split; [lia | apply eqR_Qeq; exact E]] | reflexivity].
    - destruct (Z.of_nat s0 - Z.of_nat s1 =? 1)%Z eqn:E2; [apply Z.eqb_eq in E2; lia|]. cbn [andb].
      split; [discriminate|]. intros [_ [H | [[_ H] | [H _]]]]; [lia | apply Qeq_eqR in H; contradiction | lia]. }
  apply Z.eqb_neq in E1.
  destruct (Z.of_nat s0 - Z.of_nat s1 =? 1)%Z eqn:E2; cbn [andb].
  { apply Z.eqb_eq in E2. specialize (QE f0). destruct (Req_EM_T (Q2R f0) (Q2R 0)) as [E | N].
    - split; [intros _; split; [reflexivity | right; right; split; [lia | apply QE; reflexivity]] | reflexivity].
    - split; [discriminate|]. intros [_ [H | [[H _] | [_ H]]]]; [lia | lia | apply Qeq_eqR in H; contradiction]. }
  apply Z.eqb_neq in E2. split; [discriminate|]. intros [_ [H | [[H _] | [H _]]]]; lia.
Qed.

(* LengthIndexedLine::positiveIndex / clampIndex on a line of total length T >= 0: a negative index counts from the end, the
   result is clamped to [0, T] *)
Definition lil (T : R) : rlil := mk_rlil (mk_rgeomlen T).
Theorem gen_clampIndex_spec : forall T i, 0 <= T ->
  let r := g_clampIndex (lil T) i in
  0 <= r <= T /\ (0 <= i <= T -> r = i) /\ (- T <= i < 0 -> r = T + i) /\ (T < i -> r = T) /\ (i < - T -> r = 0).
Proof.
  intros T i HT. unfold g_clampIndex, m_positiveIndex_1, m_getStartIndex_0, m_getEndIndex_0, lil. cbv zeta.
  cbn [f_linearGeom m_getLength_0g]. unfold GenPreludeR.geb, GenPreludeR.ltb, GenPreludeR.gtb, GenPreludeR.add, flit.
  replace (IZR 0 / IZR 1) with 0 by (simpl; lra).
  destruct (Rle_dec 0 i); repeat match goal with |- context [Rlt_dec ?x ?y] => destruct (Rlt_dec x y) end; repeat split; intros; lra.
Qed.
(* and it is the model's clamp_index carried into the reals *)
Theorem gen_clampIndex_eq : forall g i, g_clampIndex (lil (Q2R (total g))) (Q2R i) = Q2R (clamp_index g i).
Proof.
  intros g i. unfold g_clampIndex, m_positiveIndex_1, m_getStartIndex_0, m_getEndIndex_0, lil, clamp_index, positive_index. cbv zeta.
  cbn [f_linearGeom m_getLength_0g]. rewrite flit0. unfold GenPreludeR.geb.
  change (if Rle_dec (Q2R 0) (Q2R i) then true else false) with (GenPreludeR.leb (Q2R 0) (Q2R i)). rewrite <- Qle_bool_Rle.
  unfold GenPreludeR.gtb. unfold GenPreludeR.add. rewrite <- Q2R_plus.
  assert (Q0 : Q2R 0 = 0) by (unfold Q2R; simpl; lra).
  assert (K : forall pos, (if GenPreludeR.ltb (Q2R pos) 0 then 0 else if (if Rlt_dec (Q2R (total g)) (Q2R pos) then true else false) then Q2R (total g) else Q2R pos)
              = Q2R (if Qltb pos 0 then 0%Q else if Qltb (total g) pos then total g else pos)).
  { intro pos. rewrite !Qltb_Rlt, Q0. destruct (GenPreludeR.ltb (Q2R pos) 0); [symmetry; exact Q0|].
    unfold GenPreludeR.ltb. destruct (Rlt_dec (Q2R (total g)) (Q2R pos)); reflexivity. }
  destruct (Qle_bool 0 i); apply K.
Qed.
