(* C19 — lemmas about the linear-referencing model LinRefDefs.v:
     location_length_roundtrip   getLength (getLocation len) == clampIndex len
     length_location_roundtrip   getLocationForward (getLength l) = normalise l
     compute_linear_length / substring_length
   All statements are over arbitrary positive rational segment lengths. *)
From Coq Require Import QArith Qabs List Bool Arith ZArith Lia Lqa Psatz.
From GeosV.C19 Require Import LinRefDefs.
Import ListNotations.
Local Open Scope Q_scope.

(* ------------------------------------------------------------------ booleans *)
Lemma Qltb_true a b : Qltb a b = true <-> a < b.
Proof.
  unfold Qltb. rewrite negb_true_iff. split; intros H.
  - apply Qnot_le_lt. intros C. apply Qle_bool_iff in C. congruence.
  - destruct (Qle_bool b a) eqn:E; [|reflexivity]. apply Qle_bool_iff in E. exfalso. apply (Qlt_not_le _ _ H E).
Qed.
Lemma Qltb_false a b : Qltb a b = false <-> b <= a.
Proof.
  unfold Qltb. rewrite negb_false_iff. apply Qle_bool_iff.
Qed.
Lemma Qeqb_true a b : Qeq_bool a b = true <-> a == b.
Proof. apply Qeq_bool_iff. Qed.
Lemma Qeqb_false a b : Qeq_bool a b = false <-> ~ a == b.
Proof.
  split; intros H.
  - intros C. apply Qeq_bool_iff in C. congruence.
  - destruct (Qeq_bool a b) eqn:E; [|reflexivity]. apply Qeq_bool_iff in E. contradiction.
Qed.
Lemma Qleb_true a b : Qle_bool a b = true <-> a <= b.
Proof. apply Qle_bool_iff. Qed.
Lemma Qleb_false a b : Qle_bool a b = false <-> b < a.
Proof.
  split; intros H.
  - apply Qnot_le_lt. intros C. apply Qle_bool_iff in C. congruence.
  - destruct (Qle_bool a b) eqn:E; [|reflexivity]. apply Qle_bool_iff in E. exfalso. apply (Qlt_not_le _ _ H E).
Qed.

Lemma norm_loc_mid c s f : 0 <= f -> f < 1 -> norm_loc c s f = mkLoc c s f.
Proof.
  intros H0 H1. unfold norm_loc.
  assert (E0 : Qltb f 0 = false) by (apply Qltb_false; exact H0). rewrite E0.
  assert (E1 : Qltb 1 f = false) by (apply Qltb_false; apply Qlt_le_weak; exact H1). rewrite E1.
  assert (E2 : Qeq_bool f 1 = false) by (apply Qeqb_false; intros C; rewrite C in H1; apply (Qlt_irrefl 1 H1)). rewrite E2.
  reflexivity.
Qed.
Lemma norm_loc_zero c s : norm_loc c s 0 = mkLoc c s 0.
Proof. apply norm_loc_mid; [apply Qle_refl | reflexivity]. Qed.
Lemma norm_loc_comp c s f : lcomp (norm_loc c s f) = c /\ (s <= lseg (norm_loc c s f))%nat.
Proof. unfold norm_loc. destruct (Qeq_bool _ 1); cbn; split; auto. Qed.

(* ------------------------------------------------------------------ structure of a token suffix *)
(* vi = index of the next vertex in its component: a suffix may stop only right after a TEnd, a TEnd needs a segment before it *)
Fixpoint wf_t (ts : list tok) (vi : nat) : Prop :=
  match ts with
  | [] => vi = 0%nat
  | TSeg s :: r => 0 < s /\ wf_t r (S vi)
  | TEnd :: r => vi <> 0%nat /\ wf_t r 0
  end.
Lemma wf_t_seg_app c : Forall (fun s => 0 < s) c -> forall r vi, wf_t r (length c + vi) -> wf_t (map TSeg c ++ r) vi.
Proof.
  induction 1 as [|s c Hs Hc IH]; intros r vi H; cbn in *; [exact H|].
  split; [exact Hs|]. apply IH. replace (length c + S vi)%nat with (S (length c + vi)) by lia. exact H.
Qed.
Lemma wf_toks g : Forall (fun c => c <> [] /\ Forall (fun s => 0 < s) c) g -> wf_t (toks g) 0.
Proof.
  induction 1 as [|c g [Hne Hc] Hg IH]; cbn; [reflexivity|].
  apply wf_t_seg_app; [exact Hc|]. cbn. split; [|exact IH].
  destruct c; [congruence|cbn; lia].
Qed.
Lemma toks_nonempty g : g <> [] -> toks g <> [].
Proof. destruct g as [|c g]; [congruence|]. intros _. cbn. destruct c; cbn; congruence. Qed.
Lemma wf_t_seg_next s r vi : wf_t (TSeg s :: r) vi -> r <> [].
Proof. cbn. intros [_ H]. destruct r; [cbn in H; lia | congruence]. Qed.

(* a location lies at or after the walk state (ci, vi) *)
Definition ahead (l : loc) (ci vi : nat) : Prop := (ci < lcomp l)%nat \/ (lcomp l = ci /\ (vi <= lseg l)%nat).
Lemma not_at_of_ahead l ci vi : ahead l ci (S vi) -> (lcomp l =? ci)%nat && (lseg l =? vi)%nat = false.
Proof.
  intros [H | [H1 H2]]; apply andb_false_iff.
  - left. apply Nat.eqb_neq. lia.
  - right. apply Nat.eqb_neq. lia.
Qed.
Lemma not_comp_of_ahead l ci : ahead l (S ci) 0 -> (lcomp l =? ci)%nat = false.
Proof. intros [H | [H1 H2]]; apply Nat.eqb_neq; lia. Qed.

Lemma valid_ahead ts : forall ci vi l, valid_t ts ci vi l -> ahead l ci vi.
Proof.
  induction ts as [|t r IH]; intros ci vi l H; cbn in H; [contradiction|].
  destruct t.
  - destruct H as [[H1 [H2 _]] | H]; [right; lia|]. apply IH in H. destruct H as [H | [H1 H2]]; [left; lia | right; lia].
  - destruct H as [[H1 [H2 _]] | H]; [right; lia|]. apply IH in H. destruct H as [H | [H1 H2]]; left; lia.
Qed.
Lemma valid_frac ts : forall ci vi l, valid_t ts ci vi l -> 0 <= lfrac l <= 1.
Proof.
  induction ts as [|t r IH]; intros ci vi l H; cbn in H; [contradiction|].
  destruct t; destruct H as [[_ [_ H]] | H]; eauto.
Qed.
Lemma svalid_valid ts : forall ci vi l, svalid_t ts ci vi l -> valid_t ts ci vi l.
Proof.
  induction ts as [|t r IH]; intros ci vi l H; cbn in *; [contradiction|].
  destruct t.
  - destruct H as [[H1 [H2 [H3 H4]]] | H]; [left | right; auto]. repeat split; auto. apply Qlt_le_weak; exact H4.
  - destruct H as [[H1 [H2 H3]] | H]; [left | right; auto]. repeat split; auto; try lia; rewrite H3; [apply Qle_refl | discriminate].
Qed.

(* ------------------------------------------------------------------ getLength is at least the running total *)
Lemma len_of_ge ts : forall ci vi tot l, wf_t ts vi -> 0 <= lfrac l -> tot <= len_of_t ts ci vi tot l.
Proof.
  induction ts as [|t r IH]; intros ci vi tot l W F; cbn; [apply Qle_refl|].
  destruct t; cbn in W; destruct W as [W1 W2].
  - destruct ((lcomp l =? ci)%nat && (lseg l =? vi)%nat).
    + assert (0 <= s * lfrac l) by (apply Qmult_le_0_compat; [apply Qlt_le_weak; exact W1 | exact F]). lra.
    + specialize (IH ci (S vi) (tot + s) l W2 F). lra.
  - destruct (lcomp l =? ci)%nat; [apply Qle_refl | apply IH; assumption].
Qed.
Lemma total_t_ge ts : forall vi tot, wf_t ts vi -> tot <= total_t ts tot.
Proof.
  induction ts as [|t r IH]; intros vi tot W; cbn; [apply Qle_refl|].
  destruct t; cbn in W; destruct W as [W1 W2].
  - specialize (IH (S vi) (tot + s) W2). lra.
  - apply (IH 0%nat); exact W2.
Qed.

(* ------------------------------------------------------------------ getLength o getLocationForward *)
Lemma fwd_ahead ts : forall ci vi tot len l, fwd ts ci vi tot len = Some l -> ahead l ci vi.
Proof.
  induction ts as [|t r IH]; intros ci vi tot len l H; cbn [fwd] in H; [discriminate|].
  destruct t.
  - destruct (Qltb len (tot + s)).
    + injection H as <-. destruct (norm_loc_comp ci vi ((len - tot) / s)) as [A B]. right. split; assumption.
    + apply IH in H. destruct H as [H | [H1 H2]]; [left; lia | right; lia].
  - destruct (Qeq_bool tot len).
    + injection H as <-. destruct (norm_loc_comp ci vi 0) as [A B]. right. split; assumption.
    + apply IH in H. destruct H as [H | [H1 H2]]; left; lia.
Qed.

Lemma fwd_len ts : forall ci vi tot len l, wf_t ts vi -> tot <= len -> fwd ts ci vi tot len = Some l ->
  len_of_t ts ci vi tot l == len.
Proof.
  induction ts as [|t r IH]; intros ci vi tot len l W T H; cbn [fwd] in H; [discriminate|].
  destruct t; cbn in W; destruct W as [W1 W2]; cbn [len_of_t].
  - destruct (Qltb len (tot + s)) eqn:E.
    + apply Qltb_true in E. injection H as <-.
      assert (F0 : 0 <= (len - tot) / s) by (apply Qle_shift_div_l; [exact W1 | lra]).
      assert (F1 : (len - tot) / s < 1) by (apply Qlt_shift_div_r; [exact W1 | lra]).
      rewrite (norm_loc_mid _ _ _ F0 F1). cbn [lcomp lseg lfrac]. rewrite !Nat.eqb_refl. cbn [andb].
      field. intros C. rewrite C in W1. apply (Qlt_irrefl 0 W1).
    + apply Qltb_false in E. rewrite (not_at_of_ahead l ci vi (fwd_ahead _ _ _ _ _ _ H)).
      apply IH; [exact W2 | exact E | exact H].
  - destruct (Qeq_bool tot len) eqn:E.
    + apply Qeqb_true in E. injection H as <-. rewrite norm_loc_zero. cbn [lcomp]. rewrite Nat.eqb_refl. exact E.
    + rewrite (not_comp_of_ahead l ci (fwd_ahead _ _ _ _ _ _ H)). apply IH; assumption.
Qed.

Lemma fwd_some_le ts : forall ci vi tot len l, wf_t ts vi -> tot <= len -> fwd ts ci vi tot len = Some l ->
  len <= total_t ts tot.
Proof.
  induction ts as [|t r IH]; intros ci vi tot len l W T H; cbn [fwd] in H; [discriminate|].
  destruct t; cbn in W; destruct W as [W1 W2]; cbn [total_t].
  - destruct (Qltb len (tot + s)) eqn:E.
    + apply Qltb_true in E. pose proof (total_t_ge r (S vi) (tot + s) W2). lra.
    + apply Qltb_false in E. eapply IH; eauto.
  - destruct (Qeq_bool tot len) eqn:E.
    + apply Qeqb_true in E. pose proof (total_t_ge r 0%nat tot W2). lra.
    + eapply IH; eauto.
Qed.

Lemma fwd_none ts : forall ci vi tot len, wf_t ts vi -> ts <> [] -> tot <= len -> fwd ts ci vi tot len = None ->
  total_t ts tot < len.
Proof.
  induction ts as [|t r IH]; intros ci vi tot len W N T H; [congruence|].
  cbn [fwd] in H. destruct t; cbn [total_t].
  - pose proof (wf_t_seg_next _ _ _ W) as Nr. cbn in W. destruct W as [W1 W2].
    destruct (Qltb len (tot + s)) eqn:E; [discriminate|]. apply Qltb_false in E. eapply IH; eauto.
  - cbn in W. destruct W as [W1 W2].
    destruct (Qeq_bool tot len) eqn:E; [discriminate|]. apply Qeqb_false in E.
    assert (tot < len) by (apply Qle_lteq in T; destruct T as [T | T]; [exact T | contradiction]).
    destruct r as [|t' r']; [cbn; exact H0|]. eapply IH; [exact W2 | congruence | apply Qlt_le_weak; exact H0 | exact H].
Qed.

Lemma end_t_ahead ts : forall ci vi acc, wf_t ts vi -> ts <> [] -> ahead (end_t ts ci vi acc) ci vi.
Proof.
  induction ts as [|t r IH]; intros ci vi acc W N; [congruence|].
  destruct t; cbn [end_t].
  - pose proof (wf_t_seg_next _ _ _ W) as Nr. cbn in W. destruct W as [_ W2].
    destruct (IH ci (S vi) acc W2 Nr) as [H | [H1 H2]]; [left; lia | right; lia].
  - cbn in W. destruct W as [_ W2]. destruct r as [|t' r'].
    + cbn. right. cbn. split; lia.
    + assert (Nr : t' :: r' <> []) by congruence.
      destruct (IH (S ci) 0%nat (mkLoc ci vi 1) W2 Nr) as [H | [H1 H2]]; left; lia.
Qed.
Lemma len_of_end ts : forall ci vi tot acc, wf_t ts vi -> ts <> [] ->
  len_of_t ts ci vi tot (end_t ts ci vi acc) == total_t ts tot.
Proof.
  induction ts as [|t r IH]; intros ci vi tot acc W N; [congruence|].
  destruct t; cbn [end_t len_of_t total_t].
  - pose proof (wf_t_seg_next _ _ _ W) as Nr. cbn in W. destruct W as [_ W2].
    rewrite (not_at_of_ahead _ ci vi (end_t_ahead r ci (S vi) acc W2 Nr)). apply IH; assumption.
  - cbn in W. destruct W as [_ W2]. destruct r as [|t' r'].
    + cbn. rewrite Nat.eqb_refl. reflexivity.
    + assert (Nr : t' :: r' <> []) by congruence.
      rewrite (not_comp_of_ahead _ ci (end_t_ahead _ (S ci) 0%nat (mkLoc ci vi 1) W2 Nr)). apply IH; assumption.
Qed.

Lemma wf_first_seg g : wf g -> exists s r, toks g = TSeg s :: r /\ 0 < s.
Proof.
  intros [N F]. destruct g as [|c g]; [congruence|]. inversion F as [|? ? [Hc Hp] _]; subst.
  destruct c as [|s c]; [congruence|]. inversion Hp; subst. cbn. eauto.
Qed.

Theorem location_length_roundtrip g len : wf g -> len_of g (get_location g len) == clamp_index g len.
Proof.
  intros W. pose proof (wf_toks g (proj2 W)) as Wt. pose proof (toks_nonempty g (proj1 W)) as Nt.
  destruct (wf_first_seg g W) as [s [r [Eg Hs]]].
  unfold get_location, clamp_index, positive_index.
  set (p := if Qltb len 0 then total g + len else len).
  assert (Ep : (if Qle_bool 0 len then len else total g + len) = p).
  { unfold p. destruct (Qltb len 0) eqn:E.
    - apply Qltb_true in E. assert (Qle_bool 0 len = false) by (apply Qleb_false; exact E). rewrite H. reflexivity.
    - apply Qltb_false in E. assert (Qle_bool 0 len = true) by (apply Qleb_true; exact E). rewrite H. reflexivity. }
  rewrite Ep. clearbody p. unfold loc_forward, len_of.
  destruct (Qle_bool p 0) eqn:E0.
  - apply Qleb_true in E0. rewrite Eg. cbn.
    destruct (Qltb p 0) eqn:E1; [ring|]. apply Qltb_false in E1.
    assert (Qltb (total g) p = false).
    { apply Qltb_false. unfold total. pose proof (total_t_ge (toks g) 0%nat 0 Wt). lra. }
    rewrite H. lra.
  - apply Qleb_false in E0.
    assert (E1 : Qltb p 0 = false) by (apply Qltb_false; lra). rewrite E1.
    destruct (fwd (toks g) 0 0 0 p) as [l|] eqn:F.
    + assert (Hle : p <= total g) by (unfold total; eapply fwd_some_le; eauto; lra).
      assert (E2 : Qltb (total g) p = false) by (apply Qltb_false; exact Hle). rewrite E2.
      eapply fwd_len; eauto. lra.
    + assert (Hlt : total g < p) by (unfold total; eapply fwd_none; eauto; lra).
      assert (E2 : Qltb (total g) p = true) by (apply Qltb_true; exact Hlt). rewrite E2.
      unfold end_loc, total. apply len_of_end; assumption.
Qed.

(* ------------------------------------------------------------------ getLocationForward o getLength *)
Lemma loc_eq_refl l : loc_eq l l.
Proof. unfold loc_eq. repeat split; reflexivity. Qed.

Lemma fwd_len_of ts : forall ci vi tot prev l, wf_t ts vi -> valid_t ts ci vi l ->
  (vi = 0%nat -> prev <> None -> tot < len_of_t ts ci vi tot l) ->
  exists l', fwd ts ci vi tot (len_of_t ts ci vi tot l) = Some l' /\ loc_eq l' (normt ts ci vi prev l).
Proof.
  induction ts as [|t r IH]; intros ci vi tot prev l W V H; cbn in V; [contradiction|].
  pose proof (valid_frac (t :: r) ci vi l V) as [F0 F1].
  destruct t.
  - pose proof (wf_t_seg_next _ _ _ W) as Nr. cbn in W. destruct W as [W1 W2].
    cbn [len_of_t fwd normt] in *.
    destruct ((lcomp l =? ci)%nat && (lseg l =? vi)%nat) eqn:E.
    + destruct (Qeq_bool (lfrac l) 1) eqn:E1.
      * apply Qeqb_true in E1.
        assert (EL : Qltb (tot + s * lfrac l) (tot + s) = false) by (apply Qltb_false; rewrite E1; lra). rewrite EL.
        destruct r as [|t' r']; [congruence|]. destruct t'; cbn [fwd].
        -- cbn in W2. destruct W2 as [W3 _].
           assert (EL2 : Qltb (tot + s * lfrac l) (tot + s + s0) = true) by (apply Qltb_true; rewrite E1; lra). rewrite EL2.
           assert (Z : (tot + s * lfrac l - (tot + s)) / s0 == 0).
           { rewrite E1. field. intros C. rewrite C in W3. apply (Qlt_irrefl 0 W3). }
           eexists. split; [reflexivity|]. rewrite norm_loc_mid; [| rewrite Z; apply Qle_refl | rewrite Z; reflexivity].
           unfold loc_eq. cbn. repeat split; auto.
        -- assert (EL2 : Qeq_bool (tot + s) (tot + s * lfrac l) = true) by (apply Qeqb_true; rewrite E1; ring). rewrite EL2.
           eexists. split; [reflexivity|]. rewrite norm_loc_zero. apply loc_eq_refl.
      * apply Qeqb_false in E1.
        assert (Flt : lfrac l < 1) by (apply Qle_lteq in F1; destruct F1 as [F1 | F1]; [exact F1 | contradiction]).
        assert (EL : Qltb (tot + s * lfrac l) (tot + s) = true).
        { apply Qltb_true. assert (s * lfrac l < s * 1) by (apply Qmult_lt_l; assumption). lra. }
        rewrite EL.
        assert (Z : (tot + s * lfrac l - tot) / s == lfrac l).
        { field. intros C. rewrite C in W1. apply (Qlt_irrefl 0 W1). }
        eexists. split; [reflexivity|].
        rewrite norm_loc_mid; [| rewrite Z; exact F0 | rewrite Z; exact Flt].
        apply andb_true_iff in E. destruct E as [Ec Es]. apply Nat.eqb_eq in Ec. apply Nat.eqb_eq in Es.
        destruct prev as [e|].
        -- destruct ((vi =? 0)%nat && Qeq_bool (lfrac l) 0) eqn:E2.
           ++ apply andb_true_iff in E2. destruct E2 as [Ev Ef]. apply Nat.eqb_eq in Ev. apply Qeqb_true in Ef.
              exfalso. assert (tot < tot + s * lfrac l) by (apply H; [exact Ev | discriminate]).
              rewrite Ef in H0. lra.
           ++ unfold loc_eq. cbn. repeat split; auto.
        -- unfold loc_eq. cbn. repeat split; auto.
    + assert (V' : valid_t r ci (S vi) l).
      { destruct V as [[V1 [V2 _]] | V]; [|exact V]. rewrite V1, V2, !Nat.eqb_refl in E. discriminate. }
      pose proof (len_of_ge r ci (S vi) (tot + s) l W2 F0) as G.
      assert (EL : Qltb (len_of_t r ci (S vi) (tot + s) l) (tot + s) = false) by (apply Qltb_false; exact G). rewrite EL.
      apply IH; [exact W2 | exact V' | intros C; discriminate].
  - cbn in W. destruct W as [W1 W2]. cbn [len_of_t fwd normt] in *.
    destruct (lcomp l =? ci)%nat eqn:E.
    + assert (EL : Qeq_bool tot tot = true) by (apply Qeqb_true; reflexivity). rewrite EL.
      eexists. split; [reflexivity|]. rewrite norm_loc_zero. apply loc_eq_refl.
    + assert (V' : valid_t r (S ci) 0 l).
      { destruct V as [[V1 _] | V]; [|exact V]. rewrite V1, Nat.eqb_refl in E. discriminate. }
      pose proof (len_of_ge r (S ci) 0%nat tot l W2 F0) as G.
      destruct (Qeq_bool tot (len_of_t r (S ci) 0 tot l)) eqn:EQ.
      * apply Qeqb_true in EQ. eexists. split; [reflexivity|]. rewrite norm_loc_zero.
        destruct r as [|t' r']; [cbn in V'; contradiction|]. destruct t'; [| cbn in W2; lia].
        cbn in W2. destruct W2 as [W3 W4]. cbn [normt len_of_t] in *.
        destruct ((lcomp l =? S ci)%nat && (lseg l =? 0)%nat) eqn:E2.
        -- assert (Ff : lfrac l == 0).
           { assert (s * lfrac l == 0) by lra. apply Qmult_integral in H0. destruct H0 as [C | C]; [|exact C].
             rewrite C in W3. exfalso. apply (Qlt_irrefl 0 W3). }
           assert (E3 : Qeq_bool (lfrac l) 1 = false) by (apply Qeqb_false; rewrite Ff; discriminate). rewrite E3.
           assert (E4 : Qeq_bool (lfrac l) 0 = true) by (apply Qeqb_true; exact Ff). rewrite E4. cbn. apply loc_eq_refl.
        -- exfalso. pose proof (len_of_ge r' (S ci) 1%nat (tot + s) l W4 F0). lra.
      * apply Qeqb_false in EQ.
        assert (tot < len_of_t r (S ci) 0 tot l) by (apply Qle_lteq in G; destruct G as [G | G]; [exact G | contradiction]).
        apply IH; [exact W2 | exact V' | intros _ _; exact H0].
Qed.

Theorem length_location_roundtrip g l : wf g -> valid_loc g l ->
  loc_eq (loc_forward g (len_of g l)) (normalise g l).
Proof.
  intros W V. pose proof (wf_toks g (proj2 W)) as Wt.
  destruct (wf_first_seg g W) as [s [r [Eg Hs]]].
  unfold loc_forward, len_of, normalise, valid_loc in *.
  pose proof (valid_frac _ _ _ _ V) as [F0 F1].
  destruct (Qle_bool (len_of_t (toks g) 0 0 0 l) 0) eqn:E0.
  - apply Qleb_true in E0. rewrite Eg in *. cbn in Wt. destruct Wt as [_ W2]. cbn [len_of_t normt] in *.
    destruct ((lcomp l =? 0)%nat && (lseg l =? 0)%nat) eqn:E.
    + assert (0 <= s * lfrac l) by (apply Qmult_le_0_compat; [apply Qlt_le_weak; exact Hs | exact F0]).
      assert (Ff : lfrac l == 0).
      { assert (s * lfrac l == 0) by lra. apply Qmult_integral in H0. destruct H0 as [C | C]; [|exact C].
        rewrite C in Hs. exfalso. apply (Qlt_irrefl 0 Hs). }
      assert (E3 : Qeq_bool (lfrac l) 1 = false) by (apply Qeqb_false; rewrite Ff; discriminate). rewrite E3.
      apply andb_true_iff in E. destruct E as [Ec Es]. apply Nat.eqb_eq in Ec. apply Nat.eqb_eq in Es.
      unfold loc_eq. cbn. repeat split; auto. symmetry; exact Ff.
    + exfalso. pose proof (len_of_ge r 0%nat 1%nat (0 + s) l W2 F0). lra.
  - destruct (fwd_len_of (toks g) 0%nat 0%nat 0 None l Wt V) as [l' [E1 E2]]; [intros _ C; congruence|].
    rewrite E1. exact E2.
Qed.

(* ------------------------------------------------------------------ computeLinear: the extracted lines have the right length *)
Lemma line_len_cons2 a b t : line_len (a :: b :: t) = Qabs (snd b - snd a) + line_len (b :: t).
Proof. reflexivity. Qed.
Lemma last_default {A} (l : list A) (d d' : A) : l <> [] -> last l d = last l d'.
Proof. induction l as [|a t IH]; intros N; [congruence|]. destruct t; [reflexivity|]. cbn [last]. apply IH. congruence. Qed.
Lemma last_snoc {A} (l : list A) (x d : A) : last (l ++ [x]) d = x.
Proof. apply last_last. Qed.
Lemma line_len_snoc l x : l <> [] -> line_len (l ++ [x]) == line_len l + Qabs (snd x - snd (last l x)).
Proof.
  induction l as [|a t IH]; intros N; [congruence|].
  destruct t as [|b t'].
  - cbn [app last]. rewrite line_len_cons2. cbn [line_len]. lra.
  - assert (Nt : b :: t' <> []) by congruence. specialize (IH Nt).
    change ((a :: b :: t') ++ [x]) with (a :: ((b :: t') ++ [x])).
    change ((b :: t') ++ [x]) with (b :: (t' ++ [x])) in *.
    rewrite line_len_cons2. rewrite IH. rewrite line_len_cons2.
    change (last (a :: b :: t') x) with (last (b :: t') x). ring.
Qed.
Lemma lines_len_cons l a : lines_len (l :: a) = line_len l + lines_len a.
Proof. reflexivity. Qed.
Lemma lines_len_app a b : lines_len (a ++ b) == lines_len a + lines_len b.
Proof.
  induction a as [|l a IH].
  - cbn [app]. change (lines_len []) with 0. lra.
  - change ((l :: a) ++ b) with (l :: (a ++ b)). rewrite !lines_len_cons, IH. lra.
Qed.
Lemma lines_len_end_line cur acc : lines_len (end_line cur acc) == lines_len acc + line_len cur.
Proof.
  destruct cur as [|p [|q t]]; unfold end_line.
  - change (line_len []) with 0. lra.
  - rewrite lines_len_app, lines_len_cons, line_len_cons2. change (lines_len []) with 0. change (line_len [p]) with 0.
    assert (E : snd p - snd p == 0) by ring. rewrite E. change (Qabs 0) with 0. lra.
  - rewrite lines_len_app, lines_len_cons. change (lines_len []) with 0. lra.
Qed.
Lemma line_len_nonneg l : 0 <= line_len l.
Proof.
  induction l as [|a t IH]; [apply Qle_refl|]. destruct t as [|b t']; [apply Qle_refl|].
  rewrite line_len_cons2. pose proof (Qabs_nonneg (snd b - snd a)). lra.
Qed.
Lemma lines_len_nonneg ls : 0 <= lines_len ls.
Proof.
  induction ls as [|l ls IH]; [apply Qle_refl|]. rewrite lines_len_cons. pose proof (line_len_nonneg l). lra.
Qed.

(* appending a point whose measure is not smaller than the last one *)
Lemma add_point acc cur (x d : mpt) pm mst :
  lines_len acc + line_len cur == pm - mst -> pm <= snd x ->
  (cur <> [] -> snd (last cur d) == pm) -> (cur = [] -> pm == snd x) ->
  lines_len acc + line_len (cur ++ [x]) == snd x - mst.
Proof.
  intros H1 H2 H3 H4. destruct cur as [|c0 cur0].
  - cbn [app line_len] in *. rewrite (H4 eq_refl) in H1. lra.
  - assert (N : c0 :: cur0 <> []) by congruence.
    rewrite (line_len_snoc _ x N). rewrite (last_default _ x d N). rewrite (H3 N).
    rewrite Qabs_pos; lra.
Qed.

Lemma cmp_not_lt_of_svalid ts ci vi en : svalid_t ts ci vi en -> cmp_loc en (mkLoc ci vi 0) <> Lt.
Proof.
  intros V. pose proof (valid_frac _ _ _ _ (svalid_valid _ _ _ _ V)) as [F0 _].
  pose proof (valid_ahead _ _ _ _ (svalid_valid _ _ _ _ V)) as A. unfold cmp_loc. cbn [lcomp lseg lfrac].
  destruct A as [A | [A1 A2]].
  - apply Nat.compare_gt_iff in A. rewrite A. discriminate.
  - rewrite A1, Nat.compare_refl. destruct (Nat.compare (lseg en) vi) eqn:C.
    + assert (E : Qltb (lfrac en) 0 = false) by (apply Qltb_false; exact F0). rewrite E.
      destruct (Qltb 0 (lfrac en)); discriminate.
    + apply Nat.compare_lt_iff in C. lia.
    + discriminate.
Qed.

Definition just_behind (en : loc) (ci vi : nat) (cur : list mpt) (pm men : Q) : Prop :=
  cmp_loc en (mkLoc ci vi 0) = Lt /\ (is_vertex en = true -> men == pm) /\ (is_vertex en = false -> cur <> []).

Lemma ext_finish acc cur en men pm mst (d : mpt) :
  lines_len acc + line_len cur == pm - mst -> pm <= men ->
  (cur <> [] -> snd (last cur d) == pm) ->
  (is_vertex en = true -> men == pm) -> (is_vertex en = false -> cur <> []) ->
  lines_len (end_line (if is_vertex en then cur else cur ++ [(en, men)]) acc) == men - mst.
Proof.
  intros H1 H2 H3 H4 H5. rewrite lines_len_end_line. destruct (is_vertex en).
  - rewrite (H4 eq_refl). lra.
  - specialize (H5 eq_refl).
    apply (add_point acc cur (en, men) d pm mst); auto. intros C; congruence.
Qed.

Lemma is_vertex_frac l : 0 <= lfrac l -> lfrac l < 1 -> is_vertex l = true -> lfrac l == 0.
Proof.
  intros F0 F1 H. unfold is_vertex in H. apply orb_true_iff in H. destruct H as [H | H]; apply Qleb_true in H; lra.
Qed.
Lemma is_vertex_zero l : lfrac l == 0 -> is_vertex l = true.
Proof. intros H. unfold is_vertex. apply orb_true_iff. left. apply Qleb_true. rewrite H. apply Qle_refl. Qed.

Lemma at_of_svalid_seg s r ci vi l : svalid_t (TSeg s :: r) ci vi l ->
  ((lcomp l =? ci)%nat && (lseg l =? vi)%nat = true /\ lcomp l = ci /\ lseg l = vi /\ 0 <= lfrac l /\ lfrac l < 1)
  \/ ((lcomp l =? ci)%nat && (lseg l =? vi)%nat = false /\ svalid_t r ci (S vi) l).
Proof.
  cbn. intros [[H1 [H2 [H3 H4]]] | H].
  - left. rewrite H1, H2, !Nat.eqb_refl. auto.
  - right. split; [|exact H]. apply not_at_of_ahead. apply valid_ahead with (ts := r). apply svalid_valid. exact H.
Qed.
Lemma at_of_svalid_end r ci vi l : svalid_t (TEnd :: r) ci vi l ->
  ((lcomp l =? ci)%nat = true /\ lcomp l = ci /\ lseg l = vi /\ lfrac l == 0)
  \/ ((lcomp l =? ci)%nat = false /\ svalid_t r (S ci) 0 l).
Proof.
  cbn. intros [[H1 [H2 H3]] | H].
  - left. rewrite H1, Nat.eqb_refl. auto.
  - right. split; [|exact H]. apply not_comp_of_ahead. apply valid_ahead with (ts := r). apply svalid_valid. exact H.
Qed.

Lemma ext_started ts : forall ci vi tot st en men cur acc pm mst,
  wf_t ts vi ->
  lines_len acc + line_len cur == pm - mst -> pm <= tot -> pm <= men ->
  (cur <> [] -> snd (last cur (en, men)) == pm) -> (cur = [] -> pm == tot) ->
  ((svalid_t ts ci vi en /\ men = len_of_t ts ci vi tot en) \/ just_behind en ci vi cur pm men) ->
  lines_len (ext ts ci vi tot st en men true cur acc) == men - mst.
Proof.
  induction ts as [|t r IH]; intros ci vi tot st en men cur acc pm mst W H1 H2 H3 H4 H5 E.
  - cbn [ext]. destruct E as [[V _] | [_ [J2 J3]]]; [cbn in V; contradiction|].
    apply (ext_finish acc cur en men pm mst (en, men)); assumption.
  - assert (FIN : just_behind en ci vi cur pm men ->
                  lines_len (end_line (if is_vertex en then cur else cur ++ [(en, men)]) acc) == men - mst).
    { intros [_ [J2 J3]]. apply (ext_finish acc cur en men pm mst (en, men)); assumption. }
    cbn [ext orb negb].
    destruct (cmp_loc en (mkLoc ci vi 0)) eqn:C.
    2: { destruct E as [[V _] | J]; [exfalso; apply (cmp_not_lt_of_svalid _ _ _ _ V); exact C|].
         destruct t; apply FIN; exact J. }
    all: destruct E as [[V M] | [J1 _]]; [| congruence].
    all: pose proof (valid_frac _ _ _ _ (svalid_valid _ _ _ _ V)) as [F0 F1].
    all: assert (S' : lines_len acc + line_len (cur ++ [(mkLoc ci vi 0, tot)]) == tot - mst)
           by (apply (add_point acc cur (mkLoc ci vi 0, tot) (en, men) pm mst); auto).
    all: assert (G : tot <= men) by (rewrite M; apply len_of_ge; assumption).
    all: destruct t; cbn in W; destruct W as [W1 W2].
    all: try (apply (IH ci (S vi) (tot + s) st en men _ acc tot mst W2 S');
              [ lra | exact G | intros _; rewrite last_snoc; reflexivity | intros C'; destruct cur; discriminate | ];
              destruct (at_of_svalid_seg _ _ _ _ _ V) as [[T [A1 [A2 [A3 A4]]]] | [T V']];
              [ right; unfold just_behind; split; [| split];
                [ unfold cmp_loc; cbn [lcomp lseg lfrac]; rewrite A1, A2, Nat.compare_refl;
                  assert (CL : Nat.compare vi (S vi) = Lt) by (apply Nat.compare_lt_iff; lia); rewrite CL; reflexivity
                | intros IV; rewrite M; cbn [len_of_t]; rewrite T; rewrite (is_vertex_frac en A3 A4 IV); ring
                | intros _ C'; destruct cur; discriminate ]
              | left; split; [exact V' | rewrite M; cbn [len_of_t]; rewrite T; reflexivity] ]).
    all: apply (IH (S ci) 0%nat tot st en men [] (end_line (cur ++ [(mkLoc ci vi 0, tot)]) acc) tot mst W2);
           [ rewrite lines_len_end_line; cbn [line_len]; lra | apply Qle_refl | exact G | intros C'; congruence | reflexivity | ];
           destruct (at_of_svalid_end _ _ _ _ V) as [[T [A1 [A2 A3]]] | [T V']];
           [ right; unfold just_behind; split; [| split];
             [ unfold cmp_loc; cbn [lcomp lseg lfrac]; rewrite A1;
               assert (CL : Nat.compare ci (S ci) = Lt) by (apply Nat.compare_lt_iff; lia); rewrite CL; reflexivity
             | intros _; rewrite M; cbn [len_of_t]; rewrite T; reflexivity
             | intros IV; rewrite (is_vertex_zero en A3) in IV; discriminate ]
           | left; split; [exact V' | rewrite M; cbn [len_of_t]; rewrite T; reflexivity] ].
Qed.

Lemma ext_here t r ci vi tot st en men cur acc :
  (lcomp st =? ci)%nat && (start_vertex st =? vi)%nat = true ->
  ext (t :: r) ci vi tot st en men false cur acc = ext (t :: r) ci vi tot st en men true cur acc.
Proof. intros H. cbn [ext]. rewrite H. reflexivity. Qed.

Lemma cmp_lt_seg en st ci vi : lcomp en = ci -> lseg en = vi -> ahead st ci (S vi) -> cmp_loc en st = Lt.
Proof.
  intros E1 E2 [A | [A1 A2]]; unfold cmp_loc.
  - assert (C : Nat.compare (lcomp en) (lcomp st) = Lt) by (apply Nat.compare_lt_iff; lia). rewrite C. reflexivity.
  - rewrite E1, A1, Nat.compare_refl.
    assert (C : Nat.compare (lseg en) (lseg st) = Lt) by (apply Nat.compare_lt_iff; lia). rewrite C. reflexivity.
Qed.
Lemma cmp_lt_end en st ci : lcomp en = ci -> ahead st (S ci) 0 -> cmp_loc en st = Lt.
Proof.
  intros E1 A. unfold cmp_loc.
  assert (C : Nat.compare (lcomp en) (lcomp st) = Lt) by (apply Nat.compare_lt_iff; destruct A as [A | [A _]]; lia).
  rewrite C. reflexivity.
Qed.
Lemma cmp_same_pos en st : lcomp en = lcomp st -> lseg en = lseg st -> cmp_loc en st <> Lt -> lfrac st <= lfrac en.
Proof.
  intros E1 E2 H. unfold cmp_loc in H. rewrite E1, E2, !Nat.compare_refl in H.
  destruct (Qltb (lfrac en) (lfrac st)) eqn:F; [congruence|]. apply Qltb_false in F. exact F.
Qed.

Lemma len_seg_at s r ci vi tot l : (lcomp l =? ci)%nat && (lseg l =? vi)%nat = true ->
  len_of_t (TSeg s :: r) ci vi tot l = tot + s * lfrac l.
Proof. intros H. cbn [len_of_t]. rewrite H. reflexivity. Qed.
Lemma len_seg_skip s r ci vi tot l : (lcomp l =? ci)%nat && (lseg l =? vi)%nat = false ->
  len_of_t (TSeg s :: r) ci vi tot l = len_of_t r ci (S vi) (tot + s) l.
Proof. intros H. cbn [len_of_t]. rewrite H. reflexivity. Qed.
Lemma len_end_at r ci vi tot l : (lcomp l =? ci)%nat = true -> len_of_t (TEnd :: r) ci vi tot l = tot.
Proof. intros H. cbn [len_of_t]. rewrite H. reflexivity. Qed.
Lemma len_end_skip r ci vi tot l : (lcomp l =? ci)%nat = false ->
  len_of_t (TEnd :: r) ci vi tot l = len_of_t r (S ci) 0 tot l.
Proof. intros H. cbn [len_of_t]. rewrite H. reflexivity. Qed.

Lemma ext_not_started ts : forall ci vi tot st en,
  wf_t ts vi -> svalid_t ts ci vi st -> svalid_t ts ci vi en -> cmp_loc en st <> Lt ->
  lines_len (ext ts ci vi tot st en (len_of_t ts ci vi tot en) false
                 (if is_vertex st then [] else [(st, len_of_t ts ci vi tot st)]) [])
  == len_of_t ts ci vi tot en - len_of_t ts ci vi tot st.
Proof.
  induction ts as [|t r IH]; intros ci vi tot st en W Vs Ve C; [cbn in Vs; contradiction|].
  pose proof (valid_frac _ _ _ _ (svalid_valid _ _ _ _ Ve)) as [Fe0 Fe1].
  destruct t.
  - pose proof (wf_t_seg_next _ _ _ W) as Nr. pose proof W as W0. cbn in W. destruct W as [W1 W2].
    destruct (at_of_svalid_seg _ _ _ _ _ Vs) as [[T [A1 [A2 [A3 A4]]]] | [T Vs']].
    + destruct (Qltb 0 (lfrac st)) eqn:F.
      * (* the start lies inside this segment: the walk starts at the next vertex *)
        apply Qltb_true in F.
        assert (IVs : is_vertex st = false).
        { unfold is_vertex. apply orb_false_iff. split; apply Qleb_false; assumption. }
        assert (SV : start_vertex st = S vi) by (unfold start_vertex; rewrite (proj2 (Qltb_true _ _) F), A2; reflexivity).
        rewrite IVs. cbn [ext]. rewrite SV, A1, Nat.eqb_refl. cbn [orb andb].
        assert (NE : (S vi =? vi)%nat = false) by (apply Nat.eqb_neq; lia). rewrite NE. cbn [negb].
        destruct r as [|t' r']; [congruence|].
        rewrite ext_here by (rewrite SV, A1, !Nat.eqb_refl; reflexivity).
        set (mst := len_of_t (TSeg s :: t' :: r') ci vi tot st).
        set (men := len_of_t (TSeg s :: t' :: r') ci vi tot en).
        assert (Ms : mst == tot + s * lfrac st) by (unfold mst; rewrite (len_seg_at _ _ _ _ _ _ T); reflexivity).
        assert (Sf : s * lfrac st <= s * 1) by (apply Qmult_le_l; [exact W1 | apply Qlt_le_weak; exact A4]).
        assert (Sf0 : 0 < s * lfrac st) by (apply Qmult_lt_0_compat; assumption).
        apply (ext_started (t' :: r') ci (S vi) (tot + s) st en men [(st, mst)] [] mst mst W2).
        -- change (lines_len []) with 0. change (line_len [(st, mst)]) with 0. lra.
        -- lra.
        -- destruct (at_of_svalid_seg _ _ _ _ _ Ve) as [[Te [B1 [B2 [B3 B4]]]] | [Te Ve']].
           ++ assert (lfrac st <= lfrac en) by (apply cmp_same_pos; [congruence | congruence | exact C]).
              assert (s * lfrac st <= s * lfrac en) by (apply Qmult_le_l; assumption).
              unfold men. rewrite (len_seg_at _ _ _ _ _ _ Te). lra.
           ++ unfold men. rewrite (len_seg_skip _ _ _ _ _ _ Te).
              pose proof (len_of_ge (t' :: r') ci (S vi) (tot + s) en W2 Fe0). lra.
        -- intros _. reflexivity.
        -- intros C'. discriminate.
        -- destruct (at_of_svalid_seg _ _ _ _ _ Ve) as [[Te [B1 [B2 [B3 B4]]]] | [Te Ve']].
           ++ right. unfold just_behind. split; [| split].
              ** unfold cmp_loc. cbn [lcomp lseg lfrac]. rewrite B1, B2, Nat.compare_refl.
                 assert (CL : Nat.compare vi (S vi) = Lt) by (apply Nat.compare_lt_iff; lia). rewrite CL. reflexivity.
              ** intros IV. exfalso. pose proof (is_vertex_frac en B3 B4 IV).
                 assert (lfrac st <= lfrac en) by (apply cmp_same_pos; [congruence | congruence | exact C]). lra.
              ** intros _ C'. discriminate.
           ++ left. split; [exact Ve'|]. unfold men. rewrite (len_seg_skip _ _ _ _ _ _ Te). reflexivity.
      * (* the start is this vertex *)
        apply Qltb_false in F. assert (F0 : lfrac st == 0) by lra.
        rewrite (is_vertex_zero st F0).
        assert (SV : start_vertex st = vi).
        { unfold start_vertex. assert (Qltb 0 (lfrac st) = false) by (apply Qltb_false; lra). rewrite H. exact A2. }
        rewrite ext_here by (rewrite SV, A1, !Nat.eqb_refl; reflexivity).
        set (mst := len_of_t (TSeg s :: r) ci vi tot st).
        assert (Ms : mst == tot) by (unfold mst; rewrite (len_seg_at _ _ _ _ _ _ T), F0; ring).
        apply (ext_started (TSeg s :: r) ci vi tot st en _ [] [] tot mst W0).
        -- change (lines_len []) with 0. change (line_len []) with 0. lra.
        -- apply Qle_refl.
        -- apply len_of_ge; assumption.
        -- intros C'. congruence.
        -- reflexivity.
        -- left. split; [exact Ve | reflexivity].
    + (* the start is further on *)
      assert (Hh : (lcomp st =? ci)%nat && (start_vertex st =? vi)%nat = false).
      { pose proof (valid_ahead _ _ _ _ (svalid_valid _ _ _ _ Vs')) as [A | [A1 A2]]; apply andb_false_iff.
        - left. apply Nat.eqb_neq. lia.
        - right. apply Nat.eqb_neq. unfold start_vertex. destruct (Qltb 0 (lfrac st)); lia. }
      destruct (at_of_svalid_seg _ _ _ _ _ Ve) as [[Te [B1 [B2 _]]] | [Te Ve']].
      * exfalso. apply C. apply (cmp_lt_seg en st ci vi B1 B2). apply valid_ahead with (ts := r). apply svalid_valid. exact Vs'.
      * cbn [ext len_of_t]. rewrite Hh, T, Te. cbn [orb negb]. apply IH; assumption.
  - pose proof W as W0. cbn in W. destruct W as [W1 W2].
    destruct (at_of_svalid_end _ _ _ _ Vs) as [[T [A1 [A2 A3]]] | [T Vs']].
    + rewrite (is_vertex_zero st A3).
      assert (SV : start_vertex st = vi).
      { unfold start_vertex. assert (Qltb 0 (lfrac st) = false) by (apply Qltb_false; rewrite A3; apply Qle_refl). rewrite H. exact A2. }
      rewrite ext_here by (rewrite SV, A1, !Nat.eqb_refl; reflexivity).
      set (mst := len_of_t (TEnd :: r) ci vi tot st).
      assert (Ms : mst == tot) by (unfold mst; rewrite (len_end_at _ _ _ _ _ T); reflexivity).
      apply (ext_started (TEnd :: r) ci vi tot st en _ [] [] tot mst W0).
      -- change (lines_len []) with 0. change (line_len []) with 0. lra.
      -- apply Qle_refl.
      -- apply len_of_ge; assumption.
      -- intros C'. congruence.
      -- reflexivity.
      -- left. split; [exact Ve | reflexivity].
    + assert (Hh : (lcomp st =? ci)%nat && (start_vertex st =? vi)%nat = false).
      { apply andb_false_iff. left. exact T. }
      destruct (at_of_svalid_end _ _ _ _ Ve) as [[Te [B1 _]] | [Te Ve']].
      * exfalso. apply C. apply (cmp_lt_end en st ci B1). apply valid_ahead with (ts := r). apply svalid_valid. exact Vs'.
      * cbn [ext len_of_t]. rewrite Hh, T, Te. cbn [orb negb]. apply IH; assumption.
Qed.

Theorem compute_linear_length g st en : wf g -> svalid_loc g st -> svalid_loc g en -> cmp_loc en st <> Lt ->
  lines_len (compute_linear g st en) == len_of g en - len_of g st.
Proof.
  intros W Vs Ve C. unfold compute_linear, len_of. apply ext_not_started; auto. apply wf_toks. exact (proj2 W).
Qed.

(* ------------------------------------------------------------------ extractLine *)
Lemma fwd_svalid ts : forall ci vi tot len l, wf_t ts vi -> tot <= len -> fwd ts ci vi tot len = Some l -> svalid_t ts ci vi l.
Proof.
  induction ts as [|t r IH]; intros ci vi tot len l W T H; cbn [fwd] in H; [discriminate|].
  destruct t; cbn in W; destruct W as [W1 W2]; cbn [svalid_t].
  - destruct (Qltb len (tot + s)) eqn:E.
    + apply Qltb_true in E. injection H as <-.
      assert (F0 : 0 <= (len - tot) / s) by (apply Qle_shift_div_l; [exact W1 | lra]).
      assert (F1 : (len - tot) / s < 1) by (apply Qlt_shift_div_r; [exact W1 | lra]).
      rewrite (norm_loc_mid _ _ _ F0 F1). left. cbn. auto.
    + apply Qltb_false in E. right. eapply IH; eauto.
  - destruct (Qeq_bool tot len) eqn:E.
    + injection H as <-. rewrite norm_loc_zero. left. cbn. repeat split; reflexivity.
    + right. eapply IH; eauto.
Qed.

Lemma total_nonneg g : wf g -> 0 <= total g.
Proof. intros W. unfold total. apply (total_t_ge (toks g) 0%nat 0). apply wf_toks. exact (proj2 W). Qed.

Lemma clamp_range g i : wf g -> 0 <= clamp_index g i <= total g.
Proof.
  intros W. pose proof (total_nonneg g W). unfold clamp_index.
  destruct (Qltb (positive_index g i) 0) eqn:E0; [split; [apply Qle_refl | exact H]|]. apply Qltb_false in E0.
  destruct (Qltb (total g) (positive_index g i)) eqn:E1; [split; [exact H | apply Qle_refl]|]. apply Qltb_false in E1.
  split; assumption.
Qed.
Lemma clamp_id g c : 0 <= c -> c <= total g -> clamp_index g c = c.
Proof.
  intros H0 H1. unfold clamp_index, positive_index.
  rewrite (proj2 (Qleb_true 0 c) H0). rewrite (proj2 (Qltb_false c 0) H0). rewrite (proj2 (Qltb_false (total g) c) H1). reflexivity.
Qed.
Lemma get_location_nonneg g c : 0 <= c -> get_location g c = loc_forward g c.
Proof. intros H. unfold get_location. rewrite (proj2 (Qltb_false c 0) H). reflexivity. Qed.

Lemma loc_forward_svalid g c : wf g -> c <= total g -> svalid_loc g (loc_forward g c).
Proof.
  intros W H. pose proof (wf_toks g (proj2 W)) as Wt. pose proof (toks_nonempty g (proj1 W)) as Nt.
  destruct (wf_first_seg g W) as [s [r [Eg Hs]]]. unfold loc_forward, svalid_loc.
  destruct (Qle_bool c 0) eqn:E0.
  - rewrite Eg. cbn. left. repeat split; try reflexivity. apply Qle_refl.
  - apply Qleb_false in E0. destruct (fwd (toks g) 0 0 0 c) as [l|] eqn:F.
    + eapply fwd_svalid; [exact Wt | | exact F]. lra.
    + exfalso. assert (total g < c) by (unfold total; eapply fwd_none; [exact Wt | exact Nt | lra | exact F]). lra.
Qed.
Lemma len_of_loc_forward g c : wf g -> 0 <= c -> c <= total g -> len_of g (loc_forward g c) == c.
Proof.
  intros W H0 H1. rewrite <- (get_location_nonneg g c H0). rewrite location_length_roundtrip by exact W.
  rewrite (clamp_id g c H0 H1). reflexivity.
Qed.

Lemma head_comp_len_ge ts : forall vi acc, wf_t ts vi -> acc <= head_comp_len ts acc.
Proof.
  induction ts as [|t r IH]; intros vi acc W; cbn; [apply Qle_refl|]. destruct t; [|apply Qle_refl].
  cbn in W. destruct W as [W1 W2]. specialize (IH (S vi) (acc + s) W2). lra.
Qed.
Lemma resolve_behind ts : forall ci vi l, lcomp l = ci -> (lseg l < vi)%nat -> resolve_t ts ci vi l = l.
Proof.
  induction ts as [|t r IH]; intros ci vi l H1 H2; cbn; [reflexivity|]. destruct t.
  - apply IH; [exact H1 | lia].
  - rewrite H1, Nat.eqb_refl. assert (E : (vi <=? lseg l)%nat = false) by (apply Nat.leb_gt; exact H2). rewrite E. reflexivity.
Qed.
Lemma resolve_t_spec ts : forall ci vi tot l, wf_t ts vi -> svalid_t ts ci vi l ->
  svalid_t ts ci vi (resolve_t ts ci vi l) /\ len_of_t ts ci vi tot (resolve_t ts ci vi l) == len_of_t ts ci vi tot l.
Proof.
  induction ts as [|t r IH]; intros ci vi tot l W V; [cbn in V; contradiction|].
  destruct t.
  - cbn in W. destruct W as [W1 W2]. cbn [resolve_t].
    destruct (at_of_svalid_seg _ _ _ _ _ V) as [[T [A1 [A2 _]]] | [T V']].
    + rewrite (resolve_behind r ci (S vi) l A1) by lia. split; [exact V | reflexivity].
    + destruct (IH ci (S vi) (tot + s) l W2 V') as [I1 I2]. split.
      * cbn [svalid_t]. right. exact I1.
      * rewrite (len_seg_skip _ _ _ _ _ _ T).
        rewrite len_seg_skip; [exact I2|]. apply not_at_of_ahead. apply valid_ahead with (ts := r). apply svalid_valid. exact I1.
  - cbn in W. destruct W as [W1 W2]. cbn [resolve_t].
    destruct (at_of_svalid_end _ _ _ _ V) as [[T [A1 [A2 A3]]] | [T V']].
    + rewrite T. assert (E : (vi <=? lseg l)%nat = true) by (apply Nat.leb_le; lia). rewrite E. cbn [andb].
      destruct r as [|t' r']; [cbn [nonempty]; split; [exact V | reflexivity]|]. cbn [nonempty].
      destruct t'; [| cbn in W2; lia]. pose proof W2 as W2'. cbn in W2. destruct W2 as [W3 W4].
      assert (SK : skipz (length (TSeg s :: r')) (TSeg s :: r') (S ci) = S ci).
      { cbn [length skipz head_comp_len].
        assert (Hh : Qeq_bool (head_comp_len r' (0 + s)) 0 = false).
        { apply Qeqb_false. pose proof (head_comp_len_ge r' 1%nat (0 + s) W4). intros C. rewrite C in H. lra. }
        rewrite Hh. reflexivity. }
      rewrite SK. split.
      * cbn [svalid_t]. right. left. cbn. repeat split; try reflexivity. apply Qle_refl.
      * rewrite (len_end_at _ _ _ _ _ T). rewrite len_end_skip by (cbn [lcomp]; apply Nat.eqb_neq; lia).
        rewrite len_seg_at by (cbn [lcomp lseg]; rewrite !Nat.eqb_refl; reflexivity). cbn [lfrac]. ring.
    + rewrite T. destruct (IH (S ci) 0%nat tot l W2 V') as [I1 I2]. split.
      * cbn [svalid_t]. right. exact I1.
      * rewrite (len_end_skip _ _ _ _ _ T).
        rewrite len_end_skip; [exact I2|]. apply not_comp_of_ahead. apply valid_ahead with (ts := r). apply svalid_valid. exact I1.
Qed.

Lemma Qabs_swap a b : Qabs (a - b) == Qabs (b - a).
Proof. rewrite <- (Qabs_opp (a - b)). assert (E : - (a - b) == b - a) by ring. rewrite E. reflexivity. Qed.
Lemma line_len_rev l : line_len (rev l) == line_len l.
Proof.
  induction l as [|a t IH]; [reflexivity|]. destruct t as [|b t'].
  - reflexivity.
  - cbn [rev] in *. rewrite line_len_cons2.
    assert (N : rev t' ++ [b] <> []) by (destruct (rev t'); discriminate).
    rewrite (line_len_snoc _ a N). rewrite last_snoc. rewrite IH. rewrite (Qabs_swap (snd a) (snd b)). lra.
Qed.
Lemma lines_len_rev ls : lines_len (rev ls) == lines_len ls.
Proof.
  induction ls as [|l ls IH]; [reflexivity|]. cbn [rev]. rewrite lines_len_app, IH, !lines_len_cons.
  change (lines_len []) with 0. lra.
Qed.
Lemma lines_len_map_rev ls : lines_len (map (@rev mpt) ls) == lines_len ls.
Proof.
  induction ls as [|l ls IH]; [reflexivity|]. cbn [map]. rewrite !lines_len_cons, IH, line_len_rev. reflexivity.
Qed.

Lemma cmp_antisym a b : cmp_loc a b = Lt -> cmp_loc b a <> Lt.
Proof.
  unfold cmp_loc. rewrite (Nat.compare_antisym (lcomp a) (lcomp b)), (Nat.compare_antisym (lseg a) (lseg b)).
  destruct (Nat.compare (lcomp a) (lcomp b)); cbn [CompOpp]; try discriminate.
  destruct (Nat.compare (lseg a) (lseg b)); cbn [CompOpp]; try discriminate.
  destruct (Qltb (lfrac a) (lfrac b)) eqn:E.
  - intros _. apply Qltb_true in E. assert (F : Qltb (lfrac b) (lfrac a) = false) by (apply Qltb_false; lra). rewrite F. discriminate.
  - destruct (Qltb (lfrac b) (lfrac a)); discriminate.
Qed.

Theorem extract_length g st en : wf g -> svalid_loc g st -> svalid_loc g en ->
  lines_len (extract g st en) == Qabs (len_of g en - len_of g st).
Proof.
  intros W Vs Ve. unfold extract. destruct (cmp_loc en st) eqn:C.
  - assert (N : cmp_loc en st <> Lt) by congruence.
    pose proof (compute_linear_length g st en W Vs Ve N) as L. pose proof (lines_len_nonneg (compute_linear g st en)).
    rewrite L. rewrite Qabs_pos; [reflexivity | lra].
  - pose proof (compute_linear_length g en st W Ve Vs (cmp_antisym _ _ C)) as L.
    pose proof (lines_len_nonneg (compute_linear g en st)).
    rewrite lines_len_rev, lines_len_map_rev, L. rewrite (Qabs_swap (len_of g en) (len_of g st)).
    rewrite Qabs_pos; [reflexivity | lra].
  - assert (N : cmp_loc en st <> Lt) by congruence.
    pose proof (compute_linear_length g st en W Vs Ve N) as L. pose proof (lines_len_nonneg (compute_linear g st en)).
    rewrite L. rewrite Qabs_pos; [reflexivity | lra].
Qed.

(* LengthIndexedLine::extractLine: the extracted lines have total length |clamp(end) - clamp(start)| *)
Theorem substring_length g si ei : wf g ->
  lines_len (extract_line g si ei) == Qabs (clamp_index g ei - clamp_index g si).
Proof.
  intros W. pose proof (wf_toks g (proj2 W)) as Wt. unfold extract_line.
  destruct (clamp_range g si W) as [S0 S1]. destruct (clamp_range g ei W) as [E0 E1].
  set (s2 := clamp_index g si) in *. set (e2 := clamp_index g ei) in *.
  assert (Ve : svalid_loc g (get_location g e2)) by (rewrite get_location_nonneg by exact E0; apply loc_forward_svalid; assumption).
  assert (Le : len_of g (get_location g e2) == e2) by (rewrite get_location_nonneg by exact E0; apply len_of_loc_forward; assumption).
  assert (Vs0 : svalid_loc g (get_location g s2)) by (rewrite get_location_nonneg by exact S0; apply loc_forward_svalid; assumption).
  assert (Ls0 : len_of g (get_location g s2) == s2) by (rewrite get_location_nonneg by exact S0; apply len_of_loc_forward; assumption).
  assert (VL : svalid_loc g (get_location_r g s2 (Qeq_bool s2 e2)) /\ len_of g (get_location_r g s2 (Qeq_bool s2 e2)) == s2).
  { unfold get_location_r. destruct (Qeq_bool s2 e2); [split; assumption|].
    unfold resolve_higher, svalid_loc, len_of.
    destruct (resolve_t_spec (toks g) 0%nat 0%nat 0 (get_location g s2) Wt Vs0) as [R1 R2]. split; [exact R1|].
    rewrite R2. exact Ls0. }
  destruct VL as [Vs Ls]. rewrite (extract_length g _ _ W Vs Ve). rewrite Le, Ls. reflexivity.
Qed.
