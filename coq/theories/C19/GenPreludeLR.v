(* C19/GenPreludeLR — meaning of the translator's abstract names for the linear-referencing units LR_projectionFactor,
   LR_segLength, LR_segDistance, LR_segmentNearestMeasure, LR_compareTo, LR_isOnSameSegment, LR_isVertex, LR_normalize,
   LR_positiveIndex, LR_clampIndex.  Every `double` is read as a REAL NUMBER: this file re-exports C08/GenPreludeR (exact
   + - * /, the order of R, sqrt; CoordinateXY = pair of reals rpt; NaN / infinities do not exist; binary64 rounding is NOT
   modelled — the sampled correspondence of props/C19.py bounds it) and adds the objects these units read.  Definitions only.

     * LineSegment = its two end points p0, p1 (rseg);
     * LinearLocation = (componentIndex, segmentIndex : Z ; segmentFraction : R) (rloc); std::size_t arithmetic is read in Z
       (no wrap-around: `a - b == 1` on in-range values means the same in Z);
     * LengthIndexedLine (rlil): only the length of its linearGeom is read (Geometry::getLength, a real >= 0 supplied by the
       theorems' hypotheses); getStartIndex() = 0.0 and getEndIndex() = linearGeom->getLength() (their one-line bodies in
       LengthIndexedLine.cpp, modelled by hand here). *)
From Coq Require Import Reals ZArith.
From GeosV.C08 Require Export GenPreludeR.
Local Open Scope R_scope.

Record rseg := mk_rseg { f_p0 : rpt; f_p1 : rpt }.

Record rloc := mk_rloc { f_componentIndex : Z; f_segmentIndex : Z; f_segmentFraction : R }.
Definition set_segmentFraction (l : rloc) (v : R) := mk_rloc (f_componentIndex l) (f_segmentIndex l) v.
Definition set_segmentIndex (l : rloc) (v : Z) := mk_rloc (f_componentIndex l) v (f_segmentFraction l).

Record rgeomlen := mk_rgeomlen { m_getLength_0g : R }.
Record rlil := mk_rlil { f_linearGeom : rgeomlen }.
Definition m_getStartIndex_0 (st : rlil) : R := 0.
Definition m_getEndIndex_0 (st : rlil) : R := m_getLength_0g (f_linearGeom st).
Definition zneb (a b : Z) : bool := negb (Z.eqb a b).      (* `!=` on integers *)
