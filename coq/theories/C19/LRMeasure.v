(* C19/LRMeasure — the measure arithmetic of linear referencing by length, on the GENERATED leaf functions
     Gen/LR_projectionFactor      geos::geom::LineSegment::projectionFactor          (src/geom/LineSegment.cpp)
     Gen/LR_segLength             geos::geom::LineSegment::getLength                 (include/geos/geom/LineSegment.h)
     Gen/LR_segDistance           geos::geom::LineSegment::distance(CoordinateXY)    (-> Gen/C08_ptSeg, Distance::pointToSegment)
     Gen/LR_segmentNearestMeasure geos::linearref::LengthIndexOfPoint::segmentNearestMeasure
   (`double` read as a real number, C19/GenPreludeLR) and a hand model of the loop of LengthIndexOfPoint::indexOfFromStart
   (it walks a LinearIterator, outside the translator's subset): a fold over the list of the line's segments, in walk order,
   that threads (minDistance, ptMeasure, segmentStartMeasure) as the C++ does and calls the generated functions.
   The proofs go by case analysis on the comparisons of the generated text. *)
From Coq Require Import Reals Lra Psatz List Bool Arith Lia.
From GeosV.C08 Require Import RealDistDefs RealPtSeg GenDist.
From GeosV.C19 Require Import GenPreludeLR.
From GeosV.Gen Require Import C08_equals2D C08_coordEq C08_coordDist C08_ptSeg
  LR_projectionFactor LR_segLength LR_segDistance LR_segmentNearestMeasure.
Import ListNotations.
Local Open Scope R_scope.
Set Default Timeout 120.

(* ---------------------------------------------------------------- specification-level notions *)
Definition seg_len (s : rseg) : R := distR (f_p0 s) (f_p1 s).
(* the parameter of the point of the closed segment nearest to p: the projection factor clamped to [0,1]; 0 on a segment of
   length zero (its only point) *)
Definition near_t (s : rseg) (p : rpt) : R :=
  if Req_EM_T (len2 (f_p0 s) (f_p1 s)) 0 then 0
  else let r := dotR (f_p0 s) (f_p1 s) p / len2 (f_p0 s) (f_p1 s) in
       if Rle_dec r 0 then 0 else if Rle_dec r 1 then r else 1.
Definition near_pt (s : rseg) (p : rpt) : rpt := lerp (f_p0 s) (f_p1 s) (near_t s p).

Lemma len2_nonneg : forall a b, 0 <= len2 a b.
Proof. intros. unfold len2. apply d2R_nonneg. Qed.
Lemma len2_self : forall a, len2 a a = 0.
Proof. intros. unfold len2, d2R. ring. Qed.
Lemma flit0 : flit 0 0 1 = 0.
Proof. unfold flit. simpl. lra. Qed.
Lemma flit1 : forall b, flit b 1 1 = 1.
Proof. intros. unfold flit. simpl. lra. Qed.

Lemma g_segLength : forall s, m_getLength_0 s = seg_len s.
Proof. intros. unfold m_getLength_0, seg_len. apply g_coordDist. Qed.
Lemma seg_len_nonneg : forall s, 0 <= seg_len s.
Proof. intros. apply distR_nonneg. Qed.
Lemma seg_len_sqrt : forall s, seg_len s = sqrt (len2 (f_p0 s) (f_p1 s)).
Proof. intros. unfold seg_len, distR, len2. rewrite d2R_sym. reflexivity. Qed.

(* LineSegment::projectionFactor: 0 on a zero-length segment, otherwise (p - p0).(p1 - p0) / |p1 - p0|^2 *)
Lemma g_projectionFactor : forall s p,
  (len2 (f_p0 s) (f_p1 s) = 0 -> m_projectionFactor_1 s p = 0) /\
  (0 < len2 (f_p0 s) (f_p1 s) -> m_projectionFactor_1 s p = dotR (f_p0 s) (f_p1 s) p / len2 (f_p0 s) (f_p1 s)).
Proof.
  intros s p. set (a := f_p0 s). set (b := f_p1 s). unfold m_projectionFactor_1. fold a b.
  destruct (c_opeq_2 p a) eqn:E1.
  { apply g_coordEq_true in E1. subst p. rewrite flit0. split; [reflexivity|].
    intro HL. assert (D : dotR a b a = 0) by (unfold dotR; ring). rewrite D. unfold Rdiv. ring. }
  destruct (c_opeq_2 p b) eqn:E2.
  { apply g_coordEq_true in E2. subst p. rewrite flit1. apply g_coordEq_false in E1. split.
    - intro H0. unfold len2 in *. rewrite d2R_sym in E1. lra.
    - intro HL. assert (D : dotR a b b = len2 a b) by (unfold dotR, len2, d2R; ring). rewrite D. field. lra. }
  destruct (c_opeq_2 a b) eqn:E3.
  { apply g_coordEq_true in E3. rewrite flit0. split; [reflexivity|]. intro HL. rewrite <- E3, len2_self in HL. lra. }
  apply g_coordEq_false in E3. split; [intro H0; lra|]. intros _.
  cbv [add sub mul div]. cbv zeta. unfold dotR, len2, d2R. reflexivity.
Qed.

(* arc length from the start of the segment to the point with parameter t >= 0 *)
Lemma dist_start_lerp : forall a b t, 0 <= t -> distR a (lerp a b t) = t * distR a b.
Proof.
  intros a b t Ht. unfold distR.
  assert (E : d2R a (lerp a b t) = Rsqr t * d2R a b) by (unfold d2R, lerp, Rsqr; cbn [f_x f_y]; ring).
  rewrite E, sqrt_mult; [| apply Rle_0_sqr | apply d2R_nonneg]. rewrite sqrt_Rsqr; [reflexivity | exact Ht].
Qed.

Lemma near_t_range : forall s p, 0 <= near_t s p <= 1.
Proof. intros. unfold near_t. destruct (Req_EM_T _ 0); [lra|]. cbv zeta. destruct (Rle_dec _ 0); [lra|]. destruct (Rle_dec _ 1); lra. Qed.

(* the point with the clamped parameter realises THE distance from p to the closed segment *)
Lemma near_pt_is_dist : forall s p, is_pt_seg_dist (distR p (near_pt s p)) p (f_p0 s) (f_p1 s).
Proof.
  intros s p. unfold near_pt, near_t. set (a := f_p0 s). set (b := f_p1 s).
  destruct (Req_EM_T (len2 a b) 0) as [Z0 | NZ].
  - rewrite lerp_0.
    assert (E : a = b).
    { destruct (c_opeq_2 a b) eqn:E; [apply g_coordEq_true; exact E | apply g_coordEq_false in E; lra]. }
    rewrite <- E. apply pt_seg_deg.
  - assert (HL : 0 < len2 a b) by (pose proof (len2_nonneg a b); lra). cbv zeta.
    destruct (Rle_dec (dotR a b p / len2 a b) 0) as [L0 | G0].
    + rewrite lerp_0. apply pt_seg_end_a; assumption.
    + destruct (Rle_dec (dotR a b p / len2 a b) 1) as [L1 | G1].
      * split; [apply distR_nonneg|]. split.
        -- exists (lerp a b (dotR a b p / len2 a b)); split; [apply on_seg_lerp; lra | reflexivity].
        -- intros x [t [Ht Ex]]. subst x. apply distR_le, foot_min; assumption.
      * rewrite lerp_1. apply pt_seg_end_b; [assumption | lra].
Qed.

(* LineSegment::distance(p) is the distance to that point *)
Lemma g_segDistance_near : forall s p, g_segDistance s p = distR p (near_pt s p).
Proof.
  intros. unfold g_segDistance.
  exact (pt_seg_dist_unique _ _ _ _ _ (g_pointToSegment_is_dist p (f_p0 s) (f_p1 s)) (near_pt_is_dist s p)).
Qed.

(* (i) segmentNearestMeasure: the returned measure minus segmentStartMeasure is the clamped projection parameter times the
   segment length, for every segment, point and start measure.  On a segment of length zero the code returns
   segmentStartMeasure: projectionFactor yields 0.0 there (it tests p0 == p1 before dividing), the first branch is taken. *)
Ltac case_cmp :=
  repeat match goal with
         | |- context [Rle_dec ?x ?y] => destruct (Rle_dec x y)
         | |- context [Rlt_dec ?x ?y] => destruct (Rlt_dec x y)
         end.
(* the proof only uses the values of the branches (all comparisons are split, the arithmetic is closed by nra), so a rewrite
   of the source that keeps the meaning (e.g. `projFactor < 0.0` for `<= 0.0`: the two agree since 0 * length = 0) keeps it *)
Theorem segmentNearestMeasure_param : forall s p m0,
  g_segmentNearestMeasure s p m0 = m0 + near_t s p * seg_len s.
Proof.
  intros s p m0. unfold g_segmentNearestMeasure. cbv zeta. pose proof (g_segLength s) as GL. pose proof (seg_len_nonneg s) as HL0.
  set (L := m_getLength_0 s) in *. set (L' := seg_len s) in *. clearbody L L'. subst L.
  destruct (g_projectionFactor s p) as [PZ PN]. unfold near_t.
  destruct (Req_EM_T (len2 (f_p0 s) (f_p1 s)) 0) as [Z0 | NZ].
  - rewrite (PZ Z0). unfold flit. cbv [leb ltb geb gtb add mul]. replace (IZR 0 / IZR 1) with 0 by (simpl; lra). replace (IZR 1 / IZR 1) with 1 by (simpl; lra).
    case_cmp; nra.
  - assert (HL : 0 < len2 (f_p0 s) (f_p1 s)) by (pose proof (len2_nonneg (f_p0 s) (f_p1 s)); lra).
    rewrite (PN HL). cbv zeta. set (r := dotR (f_p0 s) (f_p1 s) p / len2 (f_p0 s) (f_p1 s)). clearbody r.
    unfold flit. cbv [leb ltb geb gtb add mul]. replace (IZR 0 / IZR 1) with 0 by (simpl; lra). replace (IZR 1 / IZR 1) with 1 by (simpl; lra).
    case_cmp; nra.
Qed.

Theorem segmentNearestMeasure_spec : forall s p m0,
  let x := near_pt s p in
  on_seg x (f_p0 s) (f_p1 s) /\
  (forall y, on_seg y (f_p0 s) (f_p1 s) -> distR p x <= distR p y) /\
  distR p x = g_segDistance s p /\
  g_segmentNearestMeasure s p m0 - m0 = distR (f_p0 s) x /\
  m0 <= g_segmentNearestMeasure s p m0 <= m0 + m_getLength_0 s.
Proof.
  intros s p m0 x. pose proof (near_t_range s p) as Ht. pose proof (seg_len_nonneg s) as Hl.
  split; [apply on_seg_lerp; exact Ht|]. split; [apply (near_pt_is_dist s p)|].
  split; [symmetry; apply g_segDistance_near|].
  rewrite segmentNearestMeasure_param. pose proof (g_segLength s) as GL. unfold x, near_pt.
  rewrite dist_start_lerp by lra. fold (seg_len s). split; [ring | nra].
Qed.

(* ---------------------------------------------------------------- LengthIndexOfPoint::indexOfFromStart, the loop (hand model)
     double minDistance = DoubleInfinity; double ptMeasure = minIndex; double segmentStartMeasure = 0.0;
     for every segment seg of the walk (LinearIterator, end-of-line vertices skipped):
        segDistance = seg.distance(inputPt); segMeasureToPt = segmentNearestMeasure(&seg, inputPt, segmentStartMeasure);
        if (segDistance < minDistance && segMeasureToPt > minIndex) { ptMeasure = segMeasureToPt; minDistance = segDistance; }
        segmentStartMeasure += seg.getLength();
     return ptMeasure;
   minDistance : option R, None = +infinity (every real is below it). *)
Definition idx_state := (option R * R * R)%type.
Definition lt_inf (d : R) (m : option R) : bool := match m with None => true | Some v => ltb d v end.
Definition idx_step (p : rpt) (minIndex : R) (acc : idx_state) (s : rseg) : idx_state :=
  let '(minDistance, ptMeasure, segmentStartMeasure) := acc in
  let segDistance := g_segDistance s p in
  let segMeasureToPt := g_segmentNearestMeasure s p segmentStartMeasure in
  let '(minDistance', ptMeasure') :=
    if lt_inf segDistance minDistance && gtb segMeasureToPt minIndex then (Some segDistance, segMeasureToPt)
    else (minDistance, ptMeasure) in
  (minDistance', ptMeasure', add segmentStartMeasure (m_getLength_0 s)).
Definition idx_run (segs : list rseg) (p : rpt) (minIndex : R) : idx_state :=
  fold_left (idx_step p minIndex) segs (None, minIndex, 0).
Definition index_of_from_start (segs : list rseg) (p : rpt) (minIndex : R) : R := snd (fst (idx_run segs p minIndex)).
(* LengthIndexOfPoint::indexOf(p) = indexOfFromStart(p, -1.0) *)
Definition index_of (segs : list rseg) (p : rpt) : R := index_of_from_start segs p (-1).

(* the running sum of ALL previous segment lengths *)
Definition total_len (l : list rseg) : R := fold_right (fun s acc => seg_len s + acc) 0 l.
Definition prefix_len (k : nat) (l : list rseg) : R := total_len (firstn k l).

Lemma total_len_nonneg : forall l, 0 <= total_len l.
Proof. induction l as [| s l IH]; cbn [total_len fold_right]; [lra | pose proof (seg_len_nonneg s); fold (total_len l); lra]. Qed.
Lemma total_len_app : forall l s, total_len (l ++ [s]) = total_len l + seg_len s.
Proof. induction l as [| a l IH]; intro s; cbn [app total_len fold_right]; [lra | fold (total_len (l ++ [s])); fold (total_len l); rewrite IH; lra]. Qed.
Lemma prefix_len_app : forall k l s, (k <= length l)%nat -> prefix_len k (l ++ [s]) = prefix_len k l.
Proof.
  intros k l s Hk. unfold prefix_len. rewrite firstn_app. replace (k - length l)%nat with 0%nat by lia.
  cbn [firstn]. rewrite app_nil_r. reflexivity.
Qed.
Lemma prefix_len_all : forall l, prefix_len (length l) l = total_len l.
Proof. intros. unfold prefix_len. rewrite firstn_all. reflexivity. Qed.

(* the loop invariant, at the level of the segment distances *)
Definition idx_inv (segs : list rseg) (p : rpt) (minIndex : R) (st : idx_state) : Prop :=
  let '(minD, ptM, start) := st in
  start = total_len segs /\
  match segs with
  | [] => minD = None /\ ptM = minIndex
  | _ => exists k s, nth_error segs k = Some s /\ minD = Some (g_segDistance s p) /\
           ptM = prefix_len k segs + distR (f_p0 s) (near_pt s p) /\
           (forall j sj, nth_error segs j = Some sj -> g_segDistance s p <= g_segDistance sj p) /\
           (forall j sj, (j < k)%nat -> nth_error segs j = Some sj -> g_segDistance s p < g_segDistance sj p)
  end.

Lemma nth_error_snoc : forall (l : list rseg) s j sj, nth_error (l ++ [s]) j = Some sj ->
  ((j < length l)%nat /\ nth_error l j = Some sj) \/ (j = length l /\ sj = s).
Proof.
  intros l s j sj H. destruct (Nat.lt_ge_cases j (length l)) as [L | G].
  - left. split; [exact L|]. rewrite nth_error_app1 in H by exact L. exact H.
  - right. rewrite nth_error_app2 in H by exact G.
    destruct (j - length l)%nat as [| n] eqn:E; cbn in H.
    + split; [lia | congruence].
    + destruct n; discriminate H.
Qed.

Lemma idx_run_inv : forall segs p minIndex, minIndex < 0 -> idx_inv segs p minIndex (idx_run segs p minIndex).
Proof.
  intros segs p minIndex Hneg. induction segs as [| s' segs IH] using rev_ind.
  - cbn. repeat split; reflexivity.
  - unfold idx_run in *. rewrite fold_left_app. cbn [fold_left].
    destruct (fold_left (idx_step p minIndex) segs (None, minIndex, 0)) as [[minD ptM] start].
    cbn [idx_inv] in IH. destruct IH as [Hstart IH].
    unfold idx_step. cbv zeta.
    pose proof (segmentNearestMeasure_spec s' p start) as [_ [_ [_ [Hm Hr]]]].
    assert (Hgt : gtb (g_segmentNearestMeasure s' p start) minIndex = true).
    { unfold gtb. pose proof (total_len_nonneg segs). destruct (Rlt_dec minIndex (g_segmentNearestMeasure s' p start)); [reflexivity | lra]. }
    rewrite Hgt, andb_true_r. pose proof (g_segLength s') as GL.
    assert (Hnew : forall k, k = length segs -> nth_error (segs ++ [s']) k = Some s' /\
              g_segmentNearestMeasure s' p start = prefix_len k (segs ++ [s']) + distR (f_p0 s') (near_pt s' p)).
    { intros k ->. split.
      - rewrite nth_error_app2 by lia. rewrite Nat.sub_diag. reflexivity.
      - rewrite prefix_len_app by lia. rewrite prefix_len_all. lra. }
    assert (Hshape : forall (Q P : Prop), P -> match segs ++ [s'] with [] => Q | _ :: _ => P end).
    { intros Q P HP. destruct segs; cbn; exact HP. }
    destruct segs as [| s0 segs0] eqn:Esegs.
    + (* first segment: minDistance = +infinity *)
      destruct IH as [-> ->]. cbn [lt_inf]. cbn [idx_inv app].
      split; [cbn [total_len fold_right] in *; unfold add; lra|].
      exists 0%nat, s'. destruct (Hnew 0%nat eq_refl) as [N1 N2].
      split; [exact N1|]. split; [reflexivity|]. split; [exact N2|]. split.
      * intros j sj Hj. destruct j; cbn in Hj; [injection Hj as <-; lra | destruct j; discriminate Hj].
      * intros j sj Hj. lia.
    + rewrite <- Esegs in *. assert (Hne : segs <> []) by (rewrite Esegs; discriminate).
      assert (IH' : exists k s, nth_error segs k = Some s /\ minD = Some (g_segDistance s p) /\
           ptM = prefix_len k segs + distR (f_p0 s) (near_pt s p) /\
           (forall j sj, nth_error segs j = Some sj -> g_segDistance s p <= g_segDistance sj p) /\
           (forall j sj, (j < k)%nat -> nth_error segs j = Some sj -> g_segDistance s p < g_segDistance sj p)).
      { rewrite Esegs in IH |- *. exact IH. }
      clear IH. destruct IH' as [k [s [Hk [HminD [HptM [Hle Hlt]]]]]]. subst minD. cbn [lt_inf]. unfold ltb.
      assert (Hklt : (k < length segs)%nat) by (apply nth_error_Some; rewrite Hk; discriminate).
      destruct (Rlt_dec (g_segDistance s' p) (g_segDistance s p)) as [Lt | Ge].
      * (* strictly nearer: the new segment wins *)
        cbn [idx_inv]. split; [rewrite total_len_app; unfold add; lra|]. apply Hshape.
        exists (length segs), s'. destruct (Hnew (length segs) eq_refl) as [N1 N2].
        split; [exact N1|]. split; [reflexivity|]. split; [exact N2|]. split.
        -- intros j sj Hj. apply nth_error_snoc in Hj. destruct Hj as [[_ Hj] | [_ ->]]; [specialize (Hle j sj Hj); lra | lra].
        -- intros j sj Hjk Hj. apply nth_error_snoc in Hj. destruct Hj as [[_ Hj] | [Hj _]]; [specialize (Hle j sj Hj); lra | lia].
      * (* not nearer: the earlier segment stays *)
        cbn [idx_inv]. split; [rewrite total_len_app; unfold add; lra|]. apply Hshape.
        exists k, s. split; [rewrite nth_error_app1 by exact Hklt; exact Hk|]. split; [reflexivity|].
        split; [rewrite prefix_len_app by lia; exact HptM|]. split.
        -- intros j sj Hj. apply nth_error_snoc in Hj. destruct Hj as [[_ Hj] | [_ ->]]; [exact (Hle j sj Hj) | lra].
        -- intros j sj Hjk Hj. apply nth_error_snoc in Hj. destruct Hj as [[_ Hj] | [Hj _]]; [exact (Hlt j sj Hjk Hj) | lia].
Qed.

(* (ii) whole-line search (minIndex < 0, as in indexOf): the returned measure is the arc-length position
     (sum of the lengths of ALL segments before segment k) + (distance from the start of segment k to x)
   of a point x of segment k that is at minimum distance from p among all points of all segments, and k is the FIRST
   segment that contains a point at that distance: every point of every earlier segment is strictly farther. *)
Theorem index_of_from_start_nearest_first : forall segs p minIndex, minIndex < 0 -> segs <> [] ->
  exists k s, nth_error segs k = Some s /\
    let x := near_pt s p in
    on_seg x (f_p0 s) (f_p1 s) /\
    index_of_from_start segs p minIndex = prefix_len k segs + distR (f_p0 s) x /\
    (forall j sj y, nth_error segs j = Some sj -> on_seg y (f_p0 sj) (f_p1 sj) -> distR p x <= distR p y) /\
    (forall j sj y, (j < k)%nat -> nth_error segs j = Some sj -> on_seg y (f_p0 sj) (f_p1 sj) -> distR p x < distR p y).
Proof.
  intros segs p minIndex Hneg Hne. pose proof (idx_run_inv segs p minIndex Hneg) as H.
  unfold index_of_from_start. destruct (idx_run segs p minIndex) as [[minD ptM] start]. cbn [idx_inv] in H. cbn [fst snd].
  destruct H as [_ H]. destruct segs as [| s0 segs0]; [contradiction|].
  destruct H as [k [s [Hk [_ [HptM [Hle Hlt]]]]]]. exists k, s. split; [exact Hk|]. cbv zeta.
  split; [apply on_seg_lerp, near_t_range|]. split; [exact HptM|].
  rewrite <- g_segDistance_near. split.
  - intros j sj y Hj Hy. specialize (Hle j sj Hj).
    destruct (g_pointToSegment_is_dist p (f_p0 sj) (f_p1 sj)) as [_ [_ Hmin]]. specialize (Hmin y Hy).
    unfold g_segDistance in *. lra.
  - intros j sj y Hjk Hj Hy. specialize (Hlt j sj Hjk Hj).
    destruct (g_pointToSegment_is_dist p (f_p0 sj) (f_p1 sj)) as [_ [_ Hmin]]. specialize (Hmin y Hy).
    unfold g_segDistance in *. lra.
Qed.

Lemma total_split : forall l k s, nth_error l k = Some s ->
  total_len l = prefix_len k l + seg_len s + total_len (skipn (S k) l).
Proof.
  induction l as [| a l IH]; intros k s Hk; destruct k; cbn in Hk; try discriminate Hk.
  - injection Hk as ->. unfold prefix_len. cbn [firstn skipn].
    change (total_len (s :: l)) with (seg_len s + total_len l). change (total_len []) with 0. lra.
  - specialize (IH k s Hk). unfold prefix_len in *. cbn [firstn]. change (skipn (S (S k)) (a :: l)) with (skipn (S k) l).
    change (total_len (a :: l)) with (seg_len a + total_len l).
    change (total_len (a :: firstn k l)) with (seg_len a + total_len (firstn k l)). lra.
Qed.

(* the measure lies on the line *)
Theorem index_of_from_start_range : forall segs p minIndex, minIndex < 0 -> segs <> [] ->
  0 <= index_of_from_start segs p minIndex <= total_len segs.
Proof.
  intros segs p minIndex Hneg Hne.
  destruct (index_of_from_start_nearest_first segs p minIndex Hneg Hne) as [k [s [Hk [_ [E _]]]]]. cbv zeta in E. rewrite E.
  assert (Hklt : (k < length segs)%nat) by (apply nth_error_Some; rewrite Hk; discriminate).
  unfold near_pt. rewrite dist_start_lerp by apply near_t_range. fold (seg_len s).
  pose proof (near_t_range s p). pose proof (seg_len_nonneg s).
  pose proof (total_split segs k s Hk) as Hsplit.
  pose proof (total_len_nonneg (firstn k segs)) as P1. fold (prefix_len k segs) in P1.
  pose proof (total_len_nonneg (skipn (S k) segs)). nra.
Qed.

(* ---------------------------------------------------------------- (iii) the running sum: after the loop segmentStartMeasure is the
   sum of the lengths of ALL segments (idx_run_inv carries this through every step; a loop that does not advance it for some
   segment violates the invariant, and index_of_from_start_nearest_first — whose measure is prefix_len k segs + ... — fails) *)
Theorem idx_run_start_is_running_sum : forall segs p minIndex, minIndex < 0 -> snd (idx_run segs p minIndex) = total_len segs.
Proof.
  intros segs p minIndex Hneg. pose proof (idx_run_inv segs p minIndex Hneg) as H.
  destruct (idx_run segs p minIndex) as [[minD ptM] start]. cbn [idx_inv] in H. destruct H as [H _]. exact H.
Qed.
