(* C19 — code-level model M of linear referencing by length:
     /repo/src/linearref/LengthLocationMap.cpp   getLocation, getLocationForward, resolveHigher, getLength
     /repo/src/linearref/LinearLocation.cpp      constructor + normalize, setToEnd, isVertex, isEndpoint, compareLocationValues,
                                                 getCoordinate, pointAlongSegmentByFraction
     /repo/src/linearref/LinearIterator.cpp      the vertex walk (component index, vertex index, isEndOfLine)
     /repo/src/linearref/LengthIndexedLine.cpp   extractPoint, extractLine, clampIndex, positiveIndex, project
     /repo/src/linearref/ExtractLineByLocation.cpp  extract, computeLinear (with LinearGeometryBuilder, fixInvalidLines)
     /repo/src/linearref/LengthIndexOfPoint.cpp  indexOfFromStart, segmentNearestMeasure
   over exact rationals.  A lineal geometry is a list of components, a component is the list of its segment LENGTHS (n segments
   = n + 1 points); the LinearIterator walk is the walk over the flattened token list  TSeg s .. TSeg s' TEnd  TSeg .. TEnd:
   the token at (component ci, vertex vi) is TSeg s when vertex vi starts a segment of length s and TEnd when it is the last
   vertex of the component (isEndOfLine).  Definitions only, executable, no proofs. *)
From Coq Require Import QArith Qabs List Bool Arith ZArith.
Import ListNotations.
Local Open Scope Q_scope.

Inductive tok := TSeg (s : Q) | TEnd.
Definition lin := list (list Q).
Fixpoint toks (g : lin) : list tok :=
  match g with [] => [] | c :: r => map TSeg c ++ TEnd :: toks r end.

Definition Qltb (a b : Q) : bool := negb (Qle_bool b a).

(* LinearLocation *)
Record loc := mkLoc { lcomp : nat; lseg : nat; lfrac : Q }.
Definition loc_eq (a b : loc) : Prop := lcomp a = lcomp b /\ lseg a = lseg b /\ lfrac a == lfrac b.
(* LinearLocation(componentIndex, segmentIndex, segmentFraction) : the constructor calls normalize() *)
Definition norm_loc (c s : nat) (f : Q) : loc :=
  let f1 := if Qltb f 0 then 0 else f in
  let f2 := if Qltb 1 f1 then 1 else f1 in
  if Qeq_bool f2 1 then mkLoc c (S s) 0 else mkLoc c s f2.
(* isVertex *)
Definition is_vertex (l : loc) : bool := Qle_bool (lfrac l) 0 || Qle_bool 1 (lfrac l).
(* compareLocationValues(this = a, component, segment, fraction of b) : -1, 0, 1 *)
Definition cmp_loc (a b : loc) : comparison :=
  match Nat.compare (lcomp a) (lcomp b) with
  | Eq => match Nat.compare (lseg a) (lseg b) with
          | Eq => if Qltb (lfrac a) (lfrac b) then Lt else if Qltb (lfrac b) (lfrac a) then Gt else Eq
          | c => c
          end
  | c => c
  end.

(* ---------------------------------------------------------------- the walk, by tokens, with state (ci, vi, running total) *)
Fixpoint total_t (ts : list tok) (tot : Q) : Q :=
  match ts with [] => tot | TSeg s :: r => total_t r (tot + s) | TEnd :: r => total_t r tot end.
Definition total (g : lin) : Q := total_t (toks g) 0.          (* Geometry::getLength *)

(* LengthLocationMap::getLocationForward : the loop *)
Fixpoint fwd (ts : list tok) (ci vi : nat) (tot len : Q) : option loc :=
  match ts with
  | [] => None
  | TSeg s :: r => if Qltb len (tot + s) then Some (norm_loc ci vi ((len - tot) / s)) else fwd r ci (S vi) (tot + s) len
  | TEnd :: r => if Qeq_bool tot len then Some (norm_loc ci vi 0) else fwd r (S ci) 0 tot len
  end.
(* LinearLocation::setToEnd : (last component, its last vertex, 1.0), not normalised; (0,0,0) for no component *)
Fixpoint end_t (ts : list tok) (ci vi : nat) (acc : loc) : loc :=
  match ts with
  | [] => acc
  | TSeg _ :: r => end_t r ci (S vi) acc
  | TEnd :: r => end_t r (S ci) 0 (mkLoc ci vi 1)
  end.
Definition end_loc (g : lin) : loc := end_t (toks g) 0 0 (mkLoc 0 0 0).
Definition loc_forward (g : lin) (len : Q) : loc :=
  if Qle_bool len 0 then mkLoc 0 0 0
  else match fwd (toks g) 0 0 0 len with Some l => l | None => end_loc g end.
(* getLocation(length) : negative lengths are measured from the end *)
Definition get_location (g : lin) (len : Q) : loc :=
  loc_forward g (if Qltb len 0 then total g + len else len).

(* LengthLocationMap::getLength(loc) *)
Fixpoint len_of_t (ts : list tok) (ci vi : nat) (tot : Q) (l : loc) : Q :=
  match ts with
  | [] => tot
  | TSeg s :: r => if (lcomp l =? ci)%nat && (lseg l =? vi)%nat then tot + s * lfrac l else len_of_t r ci (S vi) (tot + s) l
  | TEnd :: r => if (lcomp l =? ci)%nat then tot else len_of_t r (S ci) 0 tot l
  end.
Definition len_of (g : lin) (l : loc) : Q := len_of_t (toks g) 0 0 0 l.

(* resolveHigher : an end-of-component location (segmentIndex >= number of segments) that is not in the last component becomes
   the start of the next component, skipping zero-length components but never past the last one
   (do { compIndex++ } while (compIndex < n - 1 && component(compIndex).getLength() == 0)) *)
Definition comp_len (c : list Q) : Q := fold_right Qplus 0 c.
Fixpoint head_comp_len (ts : list tok) (acc : Q) : Q :=
  match ts with TSeg s :: r => head_comp_len r (acc + s) | _ => acc end.
Fixpoint after_end (ts : list tok) : list tok :=
  match ts with [] => [] | TSeg _ :: r => after_end r | TEnd :: r => r end.
Definition nonempty {A} (l : list A) : bool := match l with [] => false | _ => true end.
Fixpoint skipz (fuel : nat) (ts : list tok) (c : nat) : nat :=
  match fuel with
  | O => c
  | S f => if Qeq_bool (head_comp_len ts 0) 0 && nonempty (after_end ts) then skipz f (after_end ts) (S c) else c
  end.
Fixpoint resolve_t (ts : list tok) (ci vi : nat) (l : loc) : loc :=
  match ts with
  | [] => l
  | TSeg _ :: r => resolve_t r ci (S vi) l
  | TEnd :: r => if (lcomp l =? ci)%nat
                 then (if (vi <=? lseg l)%nat && nonempty r then mkLoc (skipz (length r) r (S ci)) 0 0 else l)
                 else resolve_t r (S ci) 0 l
  end.
Definition resolve_higher (g : lin) (l : loc) : loc := resolve_t (toks g) 0 0 l.
(* getLocation(length, resolveLower) *)
Definition get_location_r (g : lin) (len : Q) (lower : bool) : loc :=
  let l := get_location g len in if lower then l else resolve_higher g l.

(* the canonical (lower) representative of a location: what getLocationForward(getLength(l)) returns.  Fraction 1 is the next
   vertex; the start of a component other than the first is the end of the previous one (same length) *)
Fixpoint normt (ts : list tok) (ci vi : nat) (prev : option loc) (l : loc) : loc :=
  match ts with
  | [] => l
  | TSeg s :: r =>
      if (lcomp l =? ci)%nat && (lseg l =? vi)%nat then
        if Qeq_bool (lfrac l) 1 then mkLoc ci (S vi) 0
        else match prev with
             | Some e => if (vi =? 0)%nat && Qeq_bool (lfrac l) 0 then e else mkLoc ci vi (lfrac l)
             | None => mkLoc ci vi (lfrac l)
             end
      else normt r ci (S vi) prev l
  | TEnd :: r => if (lcomp l =? ci)%nat then mkLoc ci vi 0 else normt r (S ci) 0 (Some (mkLoc ci vi 0)) l
  end.
Definition normalise (g : lin) (l : loc) : loc := normt (toks g) 0 0 None l.

(* a location of the geometry: component exists, segment index <= number of segments, 0 <= fraction <= 1 *)
Fixpoint valid_t (ts : list tok) (ci vi : nat) (l : loc) : Prop :=
  match ts with
  | [] => False
  | TSeg s :: r => (lcomp l = ci /\ lseg l = vi /\ 0 <= lfrac l <= 1) \/ valid_t r ci (S vi) l
  | TEnd :: r => (lcomp l = ci /\ (vi <= lseg l)%nat /\ 0 <= lfrac l <= 1) \/ valid_t r (S ci) 0 l
  end.
Definition valid_loc (g : lin) (l : loc) : Prop := valid_t (toks g) 0 0 l.
(* the locations the library itself produces inside the line: fraction < 1, fraction 0 at the last vertex of a component *)
Fixpoint svalid_t (ts : list tok) (ci vi : nat) (l : loc) : Prop :=
  match ts with
  | [] => False
  | TSeg s :: r => (lcomp l = ci /\ lseg l = vi /\ 0 <= lfrac l /\ lfrac l < 1) \/ svalid_t r ci (S vi) l
  | TEnd :: r => (lcomp l = ci /\ lseg l = vi /\ lfrac l == 0) \/ svalid_t r (S ci) 0 l
  end.
Definition svalid_loc (g : lin) (l : loc) : Prop := svalid_t (toks g) 0 0 l.
Definition valid_locb (g : lin) (l : loc) : bool :=
  (lcomp l <? length g)%nat && Qle_bool 0 (lfrac l) && Qle_bool (lfrac l) 1.

(* well-formed geometry: at least one component, every component has a segment, every segment length is positive *)
Definition wf (g : lin) : Prop := g <> [] /\ Forall (fun c => c <> [] /\ Forall (fun s => 0 < s) c) g.
Definition wfb (g : lin) : bool :=
  negb (match g with [] => true | _ => false end)
  && forallb (fun c => negb (match c with [] => true | _ => false end) && forallb (fun s => Qltb 0 s) c) g.

(* ---------------------------------------------------------------- clampIndex / positiveIndex *)
Definition positive_index (g : lin) (i : Q) : Q := if Qle_bool 0 i then i else total g + i.
Definition clamp_index (g : lin) (i : Q) : Q :=
  let p := positive_index g i in
  if Qltb p 0 then 0 else if Qltb (total g) p then total g else p.

(* ---------------------------------------------------------------- ExtractLineByLocation::computeLinear
   The builder's points are kept as (location, measure): the measure of a vertex is the running total of the walk, the
   measure of the two given locations is their getLength.  A line is closed by endLine at every end-of-component vertex and
   by getGeometry; fixInvalidLines repeats the point of a one-point line. *)
Definition mpt := (loc * Q)%type.
Definition end_line (cur : list mpt) (acc : list (list mpt)) : list (list mpt) :=
  match cur with
  | [] => acc
  | [p] => acc ++ [[p; p]]
  | _ => acc ++ [cur]
  end.
(* LinearIterator(line, start): first vertex = segmentEndVertexIndex(start) in component start.comp *)
Definition start_vertex (st : loc) : nat := if Qltb 0 (lfrac st) then S (lseg st) else lseg st.
Fixpoint ext (ts : list tok) (ci vi : nat) (tot : Q) (st en : loc) (men : Q) (started : bool)
             (cur : list mpt) (acc : list (list mpt)) : list (list mpt) :=
  let finish := end_line (if is_vertex en then cur else cur ++ [(en, men)]) acc in
  match ts with
  | [] => finish
  | t :: r =>
      let here := started || ((lcomp st =? ci)%nat && (start_vertex st =? vi)%nat) in
      let '(nci, nvi, ntot) := match t with TSeg s => (ci, S vi, tot + s) | TEnd => (S ci, 0%nat, tot) end in
      if negb here then ext r nci nvi ntot st en men false cur acc
      else match cmp_loc en (mkLoc ci vi 0) with
           | Lt => finish
           | _ => let cur' := cur ++ [(mkLoc ci vi 0, tot)] in
                  match t with
                  | TSeg _ => ext r nci nvi ntot st en men true cur' acc
                  | TEnd => ext r nci nvi ntot st en men true [] (end_line cur' acc)
                  end
           end
  end.
Definition compute_linear (g : lin) (st en : loc) : list (list mpt) :=
  ext (toks g) 0 0 0 st en (len_of g en) false (if is_vertex st then [] else [(st, len_of g st)]) [].
(* ExtractLineByLocation::extract : backwards when end < start (the result is then reversed) *)
Definition extract (g : lin) (st en : loc) : list (list mpt) :=
  match cmp_loc en st with
  | Lt => rev (map (@rev mpt) (compute_linear g en st))
  | _ => compute_linear g st en
  end.
(* LengthIndexedLine::extractLine *)
Definition extract_line (g : lin) (si ei : Q) : list (list mpt) :=
  let s2 := clamp_index g si in let e2 := clamp_index g ei in
  let st := get_location_r g s2 (Qeq_bool s2 e2) in
  let en := get_location g e2 in
  extract g st en.
(* the length of the extracted lines: sum over each line of the distances between consecutive points; two consecutive points
   lie on one segment run of one component, their distance is the absolute difference of their measures *)
Fixpoint line_len (l : list mpt) : Q :=
  match l with
  | a :: (b :: _) as t => Qabs (snd b - snd a) + line_len t
  | _ => 0
  end.
Definition lines_len (ls : list (list mpt)) : Q := fold_right (fun l acc => line_len l + acc) 0 ls.

(* ---------------------------------------------------------------- coordinates: extractPoint, project *)
Definition qpt := (Q * Q)%type.
Definition zpt := (Z * Z)%type.
Definition geomz := list (list zpt).                  (* components as vertex lists (grid units) *)
Definition q_of_z (p : zpt) : qpt := (inject_Z (fst p), inject_Z (snd p)).
(* LinearLocation::pointAlongSegmentByFraction *)
Definition along (p0 p1 : zpt) (f : Q) : qpt :=
  if Qle_bool f 0 then q_of_z p0 else if Qle_bool 1 f then q_of_z p1
  else ((inject_Z (fst p1) - inject_Z (fst p0)) * f + inject_Z (fst p0),
        (inject_Z (snd p1) - inject_Z (snd p0)) * f + inject_Z (snd p0)).
(* LinearLocation::getCoordinate *)
Definition point_of_loc (gz : geomz) (l : loc) : qpt :=
  let c := nth (lcomp l) gz [] in
  let p0 := nth (lseg l) c (0%Z, 0%Z) in
  if (length c - 1 <=? lseg l)%nat then q_of_z p0
  else along p0 (nth (S (lseg l)) c (0%Z, 0%Z)) (lfrac l).
Definition qd2 (p q : qpt) : Q := (fst p - fst q) * (fst p - fst q) + (snd p - snd q) * (snd p - snd q).

(* squared distance point / segment and the projection factor, over Z (Distance::pointToSegment, LineSegment::projectionFactor) *)
Definition zsq (x : Z) : Z := (x * x)%Z.
Definition zd2 (p q : zpt) : Z := (zsq (fst p - fst q) + zsq (snd p - snd q))%Z.
Definition zdot (p a b : zpt) : Z := ((fst p - fst a) * (fst b - fst a) + (snd p - snd a) * (snd b - snd a))%Z.
Definition zcross (p a b : zpt) : Z := ((snd a - snd p) * (fst b - fst a) - (fst a - fst p) * (snd b - snd a))%Z.
Definition zpt_eqb (a b : zpt) : bool := (fst a =? fst b)%Z && (snd a =? snd b)%Z.
Definition q_of_zz (n d : Z) : Q := match d with Zpos p => n # p | _ => 0 end.
(* squared distance from p to the closed segment ab, as an exact rational *)
Definition d2_pt_seg (p a b : zpt) : Q :=
  if zpt_eqb a b then inject_Z (zd2 p a)
  else let len2 := zd2 b a in let dot := zdot p a b in
       if (dot <=? 0)%Z then inject_Z (zd2 p a)
       else if (len2 <=? dot)%Z then inject_Z (zd2 p b)
       else q_of_zz (zsq (zcross p a b)) len2.
(* segmentNearestMeasure : the clamped projection factor (a zero-length segment yields NaN in the code, which falls into the
   last branch: the segment's end, the same point as its start) *)
Definition proj_frac (p a b : zpt) : Q :=
  if zpt_eqb a b then 1
  else let len2 := zd2 b a in let dot := zdot p a b in
       if (dot <=? 0)%Z then 0 else if (len2 <=? dot)%Z then 1 else q_of_zz dot len2.

(* LengthIndexOfPoint::indexOfFromStart(p, -1): first segment (in walk order) at strictly smaller distance wins *)
Fixpoint proj_comp (p : zpt) (ci vi : nat) (c : list zpt) (best : option (Q * loc)) : option (Q * loc) :=
  match c with
  | a :: (b :: _) as t =>
      let d := d2_pt_seg p a b in
      let best' := match best with
                   | Some (bd, _) => if Qltb d bd then Some (d, mkLoc ci vi (proj_frac p a b)) else best
                   | None => Some (d, mkLoc ci vi (proj_frac p a b))
                   end in
      proj_comp p ci (S vi) t best'
  | _ => best
  end.
Fixpoint proj_geom (p : zpt) (ci : nat) (gz : geomz) (best : option (Q * loc)) : option (Q * loc) :=
  match gz with
  | [] => best
  | c :: r => proj_geom p (S ci) r (proj_comp p ci 0 c best)
  end.
(* the (raw, un-normalised) location of the projection; None when the geometry has no segment *)
Definition project_loc (gz : geomz) (p : zpt) : option loc := option_map snd (proj_geom p 0 gz None).
(* GEOSProject_r : its measure, given the segment lengths (-1 when there is no segment) *)
Definition project (g : lin) (gz : geomz) (p : zpt) : Q :=
  match project_loc gz p with Some l => len_of g l | None => -1 end.
(* GEOSInterpolate_r *)
Definition interpolate (g : lin) (gz : geomz) (d : Q) : qpt := point_of_loc gz (get_location g d).
(* all segments, in walk order *)
Fixpoint segs_of (c : list zpt) : list (zpt * zpt) :=
  match c with a :: (b :: _) as t => (a, b) :: segs_of t | _ => [] end.
Definition all_segs (gz : geomz) : list (zpt * zpt) := flat_map segs_of gz.
(* the shape of the length list matches the vertex lists *)
Definition shape_ok (g : lin) (gz : geomz) : Prop := map (@length Q) g = map (fun c => pred (length c)) gz.
