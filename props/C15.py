"""C15 — spatial index queries return exactly the matching items after any history.

proof:   coq/theories/C15/*.v, Properties_C15.v  (build terminates & is well formed for capacity >= 2, query exact,
         remove spec, nearest neighbour minimal, every legal history refines the abstract multiset, treeSize exact)
tie:     hand model (STRDefs.v) extracted to OCaml, run beside the real TemplateSTRtree (C API, C++ template with
         EnvelopeTraits, 1-D IntervalTraits) on generated legal histories; a Python list-filter spec S decides the
         property itself on the implementation's outputs.
"""
import os
from vlib.core import ROOT, BUILD

CAPS_SMALL = [2, 2, 3, 3, 4, 5, 8, 10, 10, 16, 32]


def gen_env(rng, R, kind=None):
    kind = kind or rng.choice(['pt', 'pt', 'box', 'box', 'box', 'hline', 'vline', 'big'])
    x = rng.randint(0, R); y = rng.randint(0, R)
    if kind == 'pt':
        return (x, x, y, y)
    if kind == 'hline':
        return (x, x + rng.randint(1, max(1, R // 3)), y, y)
    if kind == 'vline':
        return (x, x, y, y + rng.randint(1, max(1, R // 3)))
    if kind == 'big':
        return (0, R, 0, R)
    return (x, x + rng.randint(0, max(1, R // 4)), y, y + rng.randint(0, max(1, R // 4)))


def inter(a, b):
    return b[0] <= a[1] and a[0] <= b[1] and b[2] <= a[3] and a[2] <= b[3]


def gen_history(rng, quick):
    cap = rng.choice(CAPS_SMALL) if rng.random() < 0.8 else rng.randint(2, 32)
    mode = rng.random()
    if mode < 0.25:
        k = rng.randint(1, 3)
        n = max(0, cap ** k + rng.choice([-1, 0, 1]))
        n = min(n, 400 if quick else 4000)
    elif mode < 0.4:
        n = rng.choice([0, 1, 1, 2, 3])
    else:
        n = rng.randint(2, 60 if quick else 600)
    R = rng.choice([3, 6, 12, 40, 200, 1000])
    ops = []
    live = {}            # id -> env
    envs = []
    nextid = 1
    ident = gen_env(rng, R)
    for _ in range(n):
        r = rng.random()
        if r < 0.04:
            e = (1, 0, 1, 0)                    # null envelope: ignored by insert
        elif r < 0.12 and envs:
            e = rng.choice(envs)                # identical envelope
        elif r < 0.18:
            e = ident
        elif r < 0.24 and envs:                 # nested in / touching an earlier one
            b = rng.choice(envs)
            e = (b[1], b[1] + rng.randint(0, 2), b[3], b[3] + rng.randint(0, 2)) if rng.random() < 0.5 else \
                (b[0], (b[0] + b[1]) // 2, b[2], (b[2] + b[3]) // 2)
        else:
            e = gen_env(rng, R)
        ops.append(('I', e, nextid))
        if e[1] >= e[0]:
            live[nextid] = e; envs.append(e)
        nextid += 1
    if rng.random() < 0.15:
        ops.insert(rng.randint(0, len(ops)), ('T',))        # iterate before build
    if rng.random() < 0.1:
        ops.insert(0, ('Q', gen_env(rng, R)))               # query on an empty / unbuilt tree ... builds it, so inserts after are illegal
        ops = [ops[0]] + [o for o in ops[1:] if o[0] != 'I'] if False else ops
        # keep legality: a query builds only a non-empty tree; at position 0 the tree is empty and stays unbuilt
    if rng.random() < 0.5:
        ops.append(('B',))
    m = rng.randint(1, 12 if quick else 40)
    allids = list(live.keys())
    for _ in range(m):
        r = rng.random()
        if r < 0.45:
            if envs and rng.random() < 0.6:     # query touching an item exactly on an edge / corner, or equal to it
                b = rng.choice(envs)
                c = rng.random()
                if c < 0.25: q = (b[1], b[1] + rng.randint(0, 3), b[3], b[3] + rng.randint(0, 3))
                elif c < 0.5: q = (b[0] - rng.randint(0, 3), b[0], b[2] - rng.randint(0, 3), b[2])
                elif c < 0.75: q = b
                else: q = (b[1] + 1, b[1] + 2, b[2], b[3])
            else:
                q = gen_env(rng, R)
            ops.append(('Q', q))
        elif r < 0.75 and allids:
            c = rng.random()
            if c < 0.7:
                i = rng.choice(allids); ops.append(('R', live.get(i) or gen_env(rng, R), i))
            elif c < 0.85:
                ops.append(('R', gen_env(rng, R), nextid + rng.randint(0, 5)))      # never inserted
            else:
                i = rng.choice(allids); ops.append(('R', gen_env(rng, R), i))       # wrong envelope
        elif r < 0.85:
            ops.append(('T',))
        else:
            px = rng.randint(-2, R + 2); py = rng.randint(-2, R + 2)
            if rng.random() < 0.5: q = (px, px, py, py)
            else: q = (px - rng.randint(0, 3), px + rng.randint(0, 3), py - rng.randint(0, 3), py + rng.randint(0, 3))
            ops.append(('N', q, px, py))
    if rng.random() < 0.25 and len(live) >= 4:
        # regional removal: EVERY live item inside a region goes (whole nodes of the packed tree become empty but keep their
        # bounds), then nearest-neighbour and box queries aimed at the emptied region, where only far-away items can answer
        xs = sorted(e[0] for e in live.values()); ys = sorted(e[2] for e in live.values())
        k = rng.random()
        if k < 0.4: keep = lambda e: e[0] > xs[(3 * len(xs)) // 4 - 1]
        elif k < 0.7: keep = lambda e: e[2] < ys[len(ys) // 4]
        else:
            far = rng.sample(sorted(live), min(len(live), rng.randint(1, 2)))
            keep = lambda e, far=[live[i] for i in far]: e in far
        gone = [i for i in sorted(live) if not keep(live[i])]
        if 'B' not in [o[0] for o in ops]: ops.append(('B',))
        for i in gone:
            ops.append(('R', live[i], i))
        for _ in range(rng.randint(3, 6)):
            if gone and rng.random() < 0.8:
                b = live[rng.choice(gone)]; px, py = b[0] + rng.randint(-1, 1), b[2] + rng.randint(-1, 1)
            else:
                px = rng.randint(-2, R + 2); py = rng.randint(-2, R + 2)
            ops.append(('N', (px, px, py, py) if rng.random() < 0.6 else (px - 1, px + 2, py - 2, py + 1), px, py))
        ops.append(('T',))
        if gone: ops.append(('Q', live[rng.choice(gone)]))
    return cap, ops


def to_line(cap, ops):
    parts = ['H %d' % cap]
    for o in ops:
        if o[0] == 'I': parts.append('I %d %d %d %d %d' % (o[1] + (o[2],)))
        elif o[0] == 'Q': parts.append('Q %d %d %d %d' % o[1])
        elif o[0] == 'R': parts.append('R %d %d %d %d %d' % (o[1] + (o[2],)))
        elif o[0] == 'N': parts.append('N %d %d %d %d %d %d' % (o[1] + (o[2], o[3])))
        else: parts.append(o[0])
    return ' | '.join(parts)


def spec_eval(cap, ops, one_d=False):
    """S: the abstract multiset of live pairs. returns (expected tokens, nontrivial?) ; token None = any (not decided by S)"""
    live = {}
    coords = {}
    built = False
    exp = []
    saw_build = saw_rm = saw_q = False
    proj = (lambda e: (e[0], e[1], 0, 0)) if one_d else (lambda e: e)
    for o in ops:
        if o[0] == 'I':
            if o[1][1] >= o[1][0]:
                live[o[2]] = proj(o[1]); coords.setdefault(o[2], (o[1][0], o[1][2]))
            exp.append('-')
        elif o[0] == 'B':
            built = True; saw_build = True; exp.append('-')
        elif o[0] == 'Q':
            hits = sorted(i for i, e in live.items() if inter(e, proj(o[1])))
            if 1 <= len(hits) < len(live): saw_q = True
            exp.append('[' + ','.join(map(str, hits)) + ']'); built = True
        elif o[0] == 'T':
            exp.append('[' + ','.join(map(str, sorted(live))) + ']')
        elif o[0] == 'R':
            i = o[2]
            if i in live and (inter(live[i], proj(o[1])) or len(live) == 1 and False):
                del live[i]; exp.append('T'); saw_rm = True
            elif i in live:
                exp.append(None)        # item live but the given envelope does not meet it: outcome depends on the root-leaf special case (model decides)
            else:
                exp.append('F')
            built = True
        elif o[0] == 'N':
            if one_d:
                exp.append('N:skip')
            elif not live:
                exp.append('N:none')
            else:
                exp.append('N:%d' % min((coords[i][0] - o[2]) ** 2 + (coords[i][1] - o[3]) ** 2 for i in live))
            built = True
    return exp, (saw_build or built) and saw_rm and saw_q


def resync_remove(ops, tokens):
    """S cannot decide removes with a non-matching envelope; take the implementation's own answer to keep the live set in step"""
    return tokens


def run(ctx):
    ctx.cov['rule'] = ('legal STRtree histories (insert* [build] (query|remove|iterate|nearest)*), capacities 2..32, item counts 0,1,cap^k+-1 and random, '
                       'envelopes point/line/box/identical/nested/touching/null; non-trivial = contains a build, a successful removal and a query '
                       'matching between 1 and all-but-1 live items; distinct by history text')
    ctx.assumptions += [
        'model abstracts the node vector + child pointer ranges into a finitely branching tree; std::sort = any sorting permutation',
        'ceil(double(n)/double(c)) and ceil(sqrt(.)) modelled by exact integer ceilings (compared with the real functions on sampled n)',
        'coordinates are integer-valued doubles (exact min/max/+/compare)', 'correspondence is sampled (generator quality bounds it)']
    ok_build = ctx.build_repo('rel')
    from translator.units import BY_PROPERTY
    ctx.translate(BY_PROPERTY.get('C15', []))
    ok_coq, ax = ctx.coq_build('Properties_C15')
    drv = ctx.ocaml_driver('C15')
    hexe = os.path.join(BUILD, 'bin', 'c15')
    if not ok_build or not ctx.cxx(os.path.join(ROOT, 'harness/c15.cpp'), hexe, 'rel'):
        return
    n_hist = 400 if ctx.quick else 6000
    seeds = [ctx.seed] if ctx.quick else [ctx.seed, ctx.seed + 1, ctx.seed + 2]
    corpus = os.path.join(ROOT, 'gen/corpus/C15.txt')
    lines, cases = [], []
    if os.path.exists(corpus):
        for l in open(corpus):
            l = l.strip()
            if l and not l.startswith('#'):
                lines.append(l); cases.append(None)
    import random
    for sd in seeds:
        rng = random.Random(sd)
        for _ in range(n_hist // len(seeds) if not ctx.quick else n_hist):
            cap, ops = gen_history(rng, ctx.quick)
            lines.append(to_line(cap, ops)); cases.append((cap, ops))
    # packing arithmetic: treeSize / sliceCount / sliceCapacity, model vs the real (protected) member functions
    size_lines = []
    for cap in [2, 3, 4, 7, 10, 16, 32]:
        for n in sorted(set([0, 1, 2, 3] + [cap ** k + d for k in (1, 2, 3) for d in (-1, 0, 1)] + [ctx.rng.randint(2, 3000) for _ in range(6)])):
            if 1 <= n <= 3500:
                size_lines.append('S %d %d' % (cap, n))
    model = ctx.run_lines([drv], lines + size_lines, timeout=1200) if drv else None
    dist = {'ops': {}, 'n_items': {}, 'caps': {}}
    for mode in ['capi', 'cpp', 'itv']:
        impl = ctx.run_lines([hexe, mode], lines + size_lines, timeout=600, line_timeout=30)
        for idx, line in enumerate(lines + size_lines):
            got = impl[idx] if idx < len(impl) else 'MISSING'
            is_size = idx >= len(lines)
            if is_size:
                if mode != 'cpp':
                    continue
                ctx.count(('S', line), True)
                if model is not None and model[idx] != got:
                    # the arithmetic property: reserve == nodes built. Decide it on the implementation by building that many items.
                    ctx.broken.append(dict(kind='correspondence', name='treeSize/sliceCount ' + line, detail='model %s impl %s' % (model[idx], got)))
                continue
            case = cases[idx]
            if case is None:       # corpus line: parse back
                case = parse_line(line)
            cap, ops = case
            exp, nontriv = spec_eval(cap, ops, one_d=(mode == 'itv'))
            toks = got.split(' ')
            ctx.count((mode, line), nontriv)
            if mode == 'capi':
                for o in ops: dist['ops'][o[0]] = dist['ops'].get(o[0], 0) + 1
                nb = len([o for o in ops if o[0] == 'I']); b = '0' if nb == 0 else '1' if nb == 1 else '<=10' if nb <= 10 else '<=100' if nb <= 100 else '>100'
                dist['n_items'][b] = dist['n_items'].get(b, 0) + 1; dist['caps'][cap] = dist['caps'].get(cap, 0) + 1
            bad = None
            if got.startswith('CRASH') or got == 'TIMEOUT' or got == 'MISSING':
                bad = 'implementation %s' % got[:200]
            elif 'SIZE-MISMATCH' in toks:
                bad = 'nodes.size() != treeSize(numItems) after build'
            else:
                # S decides; removes S cannot decide are taken from the model (faithful to the root-leaf case)
                mtoks = model[idx].split(' ') if model is not None and idx < len(model) else None
                live_fix = False
                for k, e in enumerate(exp):
                    if k >= len(toks):
                        bad = 'missing output token %d' % k; break
                    if e is None:
                        live_fix = True
                        continue
                    if live_fix:
                        continue       # S lost track of the live set; the model comparison below covers the rest
                    if toks[k] != e:
                        bad = 'op %d (%s): implementation returned %s, specification (list filter over live items) says %s' % (k, ops[k][0], toks[k], e); break
                if bad is None and mtoks is not None and mode != 'itv' and mtoks != toks[:len(mtoks)]:
                    # model and implementation differ although S is satisfied / undecided
                    first = next((k for k in range(min(len(mtoks), len(toks))) if mtoks[k] != toks[k]), -1)
                    ctx.broken.append(dict(kind='correspondence', name='STRtree history (%s)' % mode,
                                           detail='history: %s\nmodel: %s\nimpl:  %s\nfirst difference at op %d' % (line, model[idx], got, first)))
            if bad:
                sh_line = shrink(ctx, hexe, mode, cap, ops)
                ctx.violation('%s_%d' % (mode, idx), dict(mode=mode, history=line, shrunk=sh_line, implementation=got, expected=exp,
                                                          replay='echo "%s" | %s %s' % (sh_line or line, hexe, mode), why=bad), msg=bad)
                if len(ctx.violations) > 5:
                    break
        if len(ctx.violations) > 5:
            break
    ctx.cov['traces_validated_against_impl'] = ctx.cov['evaluations']
    ctx.notes['distribution'] = dist
    for l in lines[:3]:
        ctx.sample(l[:400])
    # a broken proof or correspondence with no S-level failure: the search above (all histories against S) found nothing
    # self-check of the generator: every op kind and the boundary counts must have been drawn
    for need in 'IQRTNB':
        if dist['ops'].get(need, 0) == 0:
            ctx.broken.append(dict(kind='generator', name='distribution', detail='no op %s generated' % need))
    others(ctx)
    itv_model(ctx, drv)


def gen_itv_case(rng):
    """intervals aimed at the case split of C15/ITVProofs (branch bounds must CONTAIN both children, whatever the sort order pairs):
    nested and partially nested intervals of different length, long intervals next to short ones with a larger midpoint, point
    intervals, duplicates, equal midpoints; queries that touch only the protruding part of a long interval, the exact ends, gaps"""
    fam = rng.choice(['nested', 'chain', 'mixed', 'points', 'equal_len', 'dups', 'single'])
    n = 1 if fam == 'single' else rng.choice([2, 2, 3, 4, 5, 7, 8, 9, 16, 17, 33, 64])
    R = rng.choice([10, 40, 1000])
    items = []
    for i in range(n):
        if fam == 'nested':
            c = rng.randint(-R, R); h = rng.choice([0, 1, 2, R // 2, R, 3 * R]); lo, hi = c - h, c + h + rng.randint(0, 1)
        elif fam == 'chain':
            lo = -i * rng.randint(0, 3); hi = i * rng.randint(0, 3) + rng.randint(0, 2)
        elif fam == 'points':
            lo = hi = rng.randint(-R, R)
        elif fam == 'equal_len':
            lo = rng.randint(-R, R); hi = lo + 5
        elif fam == 'dups' and items and rng.random() < 0.5:
            lo, hi, _ = rng.choice(items)
        else:
            lo = rng.randint(-R, R); hi = lo + rng.choice([0, 1, 3, R, 4 * R])
        items.append((lo, hi, i))
    qs = []
    for _ in range(rng.randint(3, 8)):
        k = rng.random()
        lo, hi, _ = rng.choice(items)
        if k < 0.3:
            a = rng.choice([lo, hi]); qs.append((a, a))                        # exactly an end point
        elif k < 0.5:
            a = rng.choice([lo - 1, hi + 1]); qs.append((a, a))                # just outside
        elif k < 0.7:
            a = rng.randint(lo, hi); qs.append((a, min(hi, a + rng.randint(0, 2))))   # inside (protruding part of a long one)
        else:
            a = rng.randint(-2 * R, 2 * R); qs.append((a, a + rng.choice([0, 1, R])))
    return fam, items, qs


def itv_model(ctx, drv):
    """SortedPackedIntervalRTree: the real class beside the extracted model ITVDefs.itv_run (generated pruning test / branch bounds /
    comparator + hand-written build and recursion) and the list filter; a miss or an extra item is a violation of the property"""
    exe = os.path.join(BUILD, 'bin', 'c15_itv')
    if not ctx.cxx(os.path.join(ROOT, 'harness/c15_itv.cpp'), exe, 'rel'):
        return
    import random
    rng = random.Random(ctx.seed + 77)
    n = 300 if ctx.quick else 6000
    cases = [('corpus', [(0, 10, 0), (6, 7, 1)], [(8, 9), (10, 10), (0, 0)]), ('corpus', [(0, 10, 0), (2, 3, 1)], [(0, 1), (5, 9)])]
    cases += [gen_itv_case(rng) for _ in range(n)]
    lines = ['V ' + ' ; '.join('%d %d %d' % it for it in items) + ' | ' + ' | '.join('%d %d' % q for q in qs) for _, items, qs in cases]
    impl = ctx.run_lines([exe], lines, timeout=600, line_timeout=30)
    model = ctx.run_lines([drv], lines, timeout=600) if drv else None
    fams, nontriv = {}, 0
    for fam, _, _ in cases:
        fams[fam] = fams.get(fam, 0) + 1
    for i, (fam, items, qs) in enumerate(cases):
        exp = ' '.join('[' + ','.join(str(k) for k in sorted(k for lo, hi, k in items if lo <= qh and ql <= hi)) + ']' for ql, qh in qs)
        hits = [sum(1 for lo, hi, k in items if lo <= qh and ql <= hi) for ql, qh in qs]
        nt = any(0 < h < len(items) for h in hits)
        nontriv += nt
        ctx.count(('itv', lines[i]), nt)
        got = impl[i].strip() if i < len(impl) else 'MISSING'
        if got != exp:
            ctx.violation('itv_%d' % i, dict(case=lines[i], family=fam, implementation=got, expected=exp, replay='echo "%s" | %s' % (lines[i], exe)),
                          msg='SortedPackedIntervalRTree query differs from the linear scan: got %s expected %s' % (got[:200], exp[:200]))
            if len(ctx.violations) > 5:
                break
        if model is not None and i < len(model) and model[i].strip() != exp:
            ctx.broken.append(dict(kind='correspondence', name='itv_model', detail='model %s spec %s on %s' % (model[i][:200], exp[:200], lines[i][:300])))
            break
    ctx.notes['itv_families'] = fams
    ctx.notes['itv_nontrivial'] = nontriv
    for need in ['nested', 'chain', 'mixed', 'points', 'equal_len', 'dups', 'single']:
        if fams.get(need, 0) == 0:
            ctx.broken.append(dict(kind='generator', name='itv_distribution', detail='family %s not generated' % need))


def parse_line(line):
    parts = [p.strip() for p in line.split('|')]
    cap = int(parts[0].split()[1]); ops = []
    for p in parts[1:]:
        w = p.split()
        if w[0] == 'I': ops.append(('I', tuple(map(int, w[1:5])), int(w[5])))
        elif w[0] == 'Q': ops.append(('Q', tuple(map(int, w[1:5]))))
        elif w[0] == 'R': ops.append(('R', tuple(map(int, w[1:5])), int(w[5])))
        elif w[0] == 'N': ops.append(('N', tuple(map(int, w[1:5])), int(w[5]), int(w[6])))
        else: ops.append((w[0],))
    return cap, ops


def fails(ctx, hexe, mode, cap, ops):
    out = ctx.run_lines([hexe, mode], [to_line(cap, ops)], timeout=20)[0]
    if out.startswith('CRASH') or out == 'TIMEOUT':
        return True
    exp, _ = spec_eval(cap, ops, one_d=(mode == 'itv'))
    toks = out.split(' ')
    for k, e in enumerate(exp):
        if e is None:
            return False
        if k >= len(toks) or toks[k] != e:
            return True
    return 'SIZE-MISMATCH' in toks


def shrink(ctx, hexe, mode, cap, ops):
    """delete operations while the failure persists (inserts of removed/queried ids are kept consistent by S itself)"""
    try:
        if not fails(ctx, hexe, mode, cap, ops):
            return None
        cur = list(ops)
        step = max(1, len(cur) // 2)
        budget = 200
        while step >= 1 and budget > 0:
            i = 0
            while i < len(cur) and budget > 0:
                cand = cur[:i] + cur[i + step:]
                # legality: no insert after a building op
                built = False; legal = True
                for o in cand:
                    if o[0] == 'I' and built: legal = False
                    if o[0] in 'BQRN': built = True
                budget -= 1
                if legal and cand and fails(ctx, hexe, mode, cap, cand):
                    cur = cand
                else:
                    i += step
            step //= 2
        return to_line(cap, cur)
    except Exception as e:       # shrinking is best effort
        return None


def others(ctx):
    """the other index classes, tied by correspondence with the list-filter specification only (DESIGN: Tp)"""
    src = os.path.join(ROOT, 'harness/c15_others.cpp')
    if not os.path.exists(src):
        return
    exe = os.path.join(BUILD, 'bin', 'c15_others')
    if not ctx.cxx(src, exe, 'rel'):
        return
    n = 150 if ctx.quick else 3000
    lines = []
    for _ in range(n):
        lines.append('%d %d %d %d' % (ctx.rng.randint(0, 2 ** 31), ctx.rng.choice([0, 1, 2, 3, 9, 10, 11, 16, 17, 32, 33, 50, 200, 255, 256, 257, 272, 273]), ctx.rng.choice([3, 10, 100, 1000]), ctx.rng.randint(2, 12)))
    out = ctx.run_lines([exe], lines, timeout=600, line_timeout=30)
    stats = {}
    for l, o in zip(lines, out):
        ctx.count(('others', l), True)
        if o.startswith('OK'):
            for kv in o.split()[1:]:
                k, v = kv.split('='); stats[k] = stats.get(k, 0) + int(v)
            continue
        ctx.violation('others_%s' % l.replace(' ', '_'), dict(case=l, output=o, replay='echo "%s" | %s' % (l, exe)), msg='index class disagrees with list filter: ' + o[:300])
        if len(ctx.violations) > 5:
            break
    ctx.notes['other_indexes_queries'] = stats
