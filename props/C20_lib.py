"""C20 glue library: exact text codec, power-of-two scaling, generators, variants (used by props/C20.py)."""
import itertools, json, math, os, random, struct
from fractions import Fraction
from vlib.core import ROOT, BUILD

# ------------------------------------------------------------------ codec
def hx(d):
    return '%016x' % struct.unpack('>Q', struct.pack('>d', float(d)))[0]


def unh(s):
    return struct.unpack('>d', struct.pack('>Q', int(s, 16)))[0]


def _seq(pts, f):
    return '%d%s' % (len(pts), ''.join(' %s %s' % (f(x), f(y)) for x, y in pts))


def enc(g, f=hx):
    k = g[0]
    if k == 'P':
        return 'P 0' if not g[1] else 'P 1 %s %s' % (f(g[1][0][0]), f(g[1][0][1]))
    if k in 'LR':
        return k + ' ' + _seq(g[1], f)
    if k == 'Y':
        return 'Y 0' if not g[1] else 'Y %d %s' % (len(g[1]), ' '.join(_seq(r, f) for r in g[1]))
    return 'M %d %d%s' % (g[1], len(g[2]), ''.join(' ' + enc(e, f) for e in g[2]))


def dec(t, i=0, f=unh):
    k = t[i]

    def rseq(i):
        n = int(t[i])
        return [(f(t[i + 1 + 2 * j]), f(t[i + 2 + 2 * j])) for j in range(n)], i + 1 + 2 * n
    if k == 'P':
        if t[i + 1] == '0':
            return ('P', []), i + 2
        return ('P', [(f(t[i + 2]), f(t[i + 3]))]), i + 4
    if k in ('L', 'R'):
        pts, j = rseq(i + 1)
        return (k, pts), j
    if k == 'Y':
        n = int(t[i + 1]); j = i + 2; rings = []
        for _ in range(n):
            r, j = rseq(j); rings.append(r)
        return ('Y', rings), j
    if k == 'M':
        ty = int(t[i + 1]); n = int(t[i + 2]); j = i + 3; es = []
        for _ in range(n):
            e, j = dec(t, j, f); es.append(e)
        return ('M', ty, es), j
    raise ValueError('bad geometry text at %d: %s' % (i, t[i:i + 6]))


def parse_geom(s, f=unh):
    """geometry field of a harness / driver line -> tree, or None for ERR..."""
    s = s.strip()
    if not s or s.startswith('ERR') or s[0] not in 'PLRYM':
        return None
    g, _ = dec(s.split(), 0, f)
    return g


def coords(g):
    k = g[0]
    if k in 'PLR':
        return list(g[1])
    if k == 'Y':
        return [p for r in g[1] for p in r]
    return [p for e in g[2] for p in coords(e)]


def gmap(g, fn):
    k = g[0]
    if k in 'PLR':
        return (k, [fn(p) for p in g[1]])
    if k == 'Y':
        return ('Y', [[fn(p) for p in r] for r in g[1]])
    return ('M', g[1], [gmap(e, fn) for e in g[2]])


def wkt(g):
    f = lambda p: '%.17g %.17g' % (p[0], p[1])
    k = g[0]
    if k == 'P':
        return 'POINT EMPTY' if not g[1] else 'POINT(%s)' % f(g[1][0])
    if k in 'LR':
        return ('LINESTRING' if k == 'L' else 'LINEARRING') + ('(%s)' % ','.join(map(f, g[1])) if g[1] else ' EMPTY')
    if k == 'Y':
        return 'POLYGON(%s)' % ','.join('(%s)' % ','.join(map(f, r)) for r in g[1]) if g[1] else 'POLYGON EMPTY'
    nm = {4: 'MULTIPOINT', 5: 'MULTILINESTRING', 6: 'MULTIPOLYGON', 7: 'GEOMETRYCOLLECTION'}[g[1]]
    return nm + ('(%s)' % ','.join(wkt(e) for e in g[2]) if g[2] else ' EMPTY')


def is_empty(g):
    k = g[0]
    if k in 'PLRY':
        return not g[1]
    return all(is_empty(e) for e in g[2])


def dimension(g):
    k = g[0]
    if k == 'P': return 0
    if k in 'LR': return 1
    if k == 'Y': return 2
    if g[1] == 4: return 0
    if g[1] == 5: return 1
    if g[1] == 6: return 2
    return max([dimension(e) for e in g[2]] + [-1])


class Scale:
    """one common power of two that makes every finite ordinate of a case an integer"""
    def __init__(self, vals):
        k = 0
        for v in vals:
            if v is None or v != v or v in (float('inf'), float('-inf')):
                continue
            d = Fraction(v).denominator
            k = max(k, d.bit_length() - 1)
        self.k = k
        self.m = 1 << k

    def i(self, v):
        fr = Fraction(v) * self.m
        assert fr.denominator == 1
        return fr.numerator

    def pt(self, p):
        return (self.i(p[0]), self.i(p[1]))

    def pts(self, l):
        return _seq([self.pt(p) for p in l], str)

    def geom(self, g):
        return enc(gmap(g, self.pt), str)


def finite(g):
    return all(math.isfinite(x) and math.isfinite(y) for x, y in coords(g))


# ------------------------------------------------------------------ exact helpers (Python side of the glue)
def orient(a, b, c):
    return (Fraction(b[0]) - Fraction(a[0])) * (Fraction(c[1]) - Fraction(a[1])) - (Fraction(c[0]) - Fraction(a[0])) * (Fraction(b[1]) - Fraction(a[1]))


def gcd(a, b):
    return math.gcd(a, b)


def angle_key(d):
    """exact angular order of non-zero integer vectors, starting at the positive x axis, counter-clockwise"""
    x, y = d
    half = 0 if (y > 0 or (y == 0 and x > 0)) else 1
    return half, d


def sort_by_angle(ds):
    import functools

    def cmpf(a, b):
        ha, hb = angle_key(a)[0], angle_key(b)[0]
        if ha != hb:
            return -1 if ha < hb else 1
        cr = a[0] * b[1] - a[1] * b[0]
        return -1 if cr > 0 else (1 if cr < 0 else 0)
    return sorted(ds, key=functools.cmp_to_key(cmpf))


# ------------------------------------------------------------------ generators (all choices from rng)
def rpt(rng, R):
    return (rng.randint(-R, R), rng.randint(-R, R))


def gen_points(rng, quick):
    """point sets aimed at the hull / MBC / width case splits; returns (kind, list of integer points)"""
    kind = rng.choice(['random', 'random', 'dups', 'collinear', 'two', 'one', 'edgepts', 'cocircular', 'lattice', 'big', 'nearcol', 'box'])
    R = rng.choice([3, 10, 100, 10000, 2 ** 24])
    if kind == 'random':
        return kind, [rpt(rng, R) for _ in range(rng.randint(3, 14))]
    if kind == 'dups':
        base = [rpt(rng, R) for _ in range(rng.randint(1, 6))]
        return kind, [rng.choice(base) for _ in range(rng.randint(2, 14))]
    if kind == 'collinear':
        a = rpt(rng, R); d = rpt(rng, 5)
        if d == (0, 0): d = (1, 0)
        return kind, [(a[0] + t * d[0], a[1] + t * d[1]) for t in [rng.randint(-6, 6) for _ in range(rng.randint(3, 9))]]
    if kind == 'two':
        a, b = rpt(rng, R), rpt(rng, R)
        return kind, [rng.choice([a, b]) for _ in range(rng.randint(2, 6))] + [a, b]
    if kind == 'one':
        a = rpt(rng, R)
        return kind, [a] * rng.randint(1, 5)
    if kind == 'edgepts':     # vertices of a convex polygon plus lattice points on its edges and strictly inside
        k = rng.randint(3, 6)
        ds = set()
        while len(ds) < k:
            d = rpt(rng, 4)
            if d != (0, 0):
                g = gcd(abs(d[0]), abs(d[1])); ds.add((d[0] // g, d[1] // g))
        ds = sort_by_angle(list(ds))
        mult = [rng.randint(1, 4) for _ in ds]
        # close the polygon: append the negative of the sum as extra edges along the axes
        pts = []; cur = rpt(rng, R)
        verts = [cur]
        for d, m in zip(ds, mult):
            for s in range(1, m + 1):
                pts.append((cur[0] + d[0] * s, cur[1] + d[1] * s))
            cur = pts[-1]; verts.append(cur)
        pts.append(verts[0])
        c = (sum(p[0] for p in verts) // len(verts), sum(p[1] for p in verts) // len(verts))
        pts += [c] * rng.randint(0, 2)
        rng.shuffle(pts)
        return kind, pts
    if kind == 'cocircular':   # >= 4 points on one circle: ties between support sets of the bounding circle
        a, b = rng.choice([(3, 4), (5, 12), (8, 15), (7, 24), (1, 2), (1, 1)])
        c = rpt(rng, R)
        allp = {(s * u, t * v) for u, v in ((a, b), (b, a)) for s in (1, -1) for t in (1, -1)}
        sel = rng.sample(sorted(allp), rng.randint(3, len(allp)))
        pts = [(c[0] + x, c[1] + y) for x, y in sel]
        if rng.random() < 0.5:
            pts.append(c)
        return kind, pts
    if kind == 'lattice':
        w, hgt = rng.randint(1, 4), rng.randint(1, 4)
        o = rpt(rng, R)
        return kind, [(o[0] + i, o[1] + j) for i in range(w + 1) for j in range(hgt + 1)]
    if kind == 'big':          # > 50 points: ConvexHull::reduce (octagon interior elimination) is used
        n = rng.randint(51, 90 if quick else 300)
        RR = rng.choice([5, 20, 1000])
        o = rpt(rng, R)
        return kind, [(o[0] + rng.randint(-RR, RR), o[1] + rng.randint(-RR, RR)) for _ in range(n)]
    if kind == 'nearcol':      # a lattice direction and points at determinant +-1, 0 from it
        a = rpt(rng, R); d = rng.choice([(7, 3), (5, 2), (13, 8), (1, 0), (3, -5)])
        pts = [a, (a[0] + 4 * d[0], a[1] + 4 * d[1])]
        for t in range(1, 4):
            e = rng.choice([(0, 0), (0, 1), (0, -1), (1, 0)])
            pts.append((a[0] + t * d[0] + e[0], a[1] + t * d[1] + e[1]))
        rng.shuffle(pts)
        return kind, pts
    w, hgt = rng.randint(0, R), rng.randint(0, R)
    o = rpt(rng, R)
    return 'box', [(o[0], o[1]), (o[0] + w, o[1]), (o[0] + w, o[1] + hgt), (o[0], o[1] + hgt)] + [(o[0] + rng.randint(0, w), o[1] + rng.randint(0, hgt)) for _ in range(rng.randint(0, 4))]


def star_polygon(rng, nv=None, R=None):
    """simple polygon star-shaped about c (strictly increasing exact angle, one direction in every open quadrant): shell ring (ccw, closed), centre"""
    nv = nv or rng.randint(4, 9)
    ds = set()
    for qx, qy in ((1, 1), (-1, 1), (-1, -1), (1, -1)):
        x, y = rng.randint(1, 5), rng.randint(1, 5); g = gcd(x, y)
        ds.add((qx * x // g, qy * y // g))
    while len(ds) < nv:
        d = rpt(rng, 5)
        if d != (0, 0):
            g = gcd(abs(d[0]), abs(d[1])); ds.add((d[0] // g, d[1] // g))
    ds = sort_by_angle(list(ds))
    K = 12
    c = rpt(rng, R or 50)
    c = (c[0] * K, c[1] * K)
    ring = []
    for d in ds:
        r = rng.randint(2, 7)
        ring.append((c[0] + K * r * d[0], c[1] + K * r * d[1]))
    return ring + [ring[0]], c


def hole_boxes(rng, shell, c, nh):
    """small convex holes strictly inside the disc about c that misses every shell edge; pairwise disjoint boxes"""
    rho2 = min(orient(a, b, c) ** 2 / ((b[0] - a[0]) ** 2 + (b[1] - a[1]) ** 2) for a, b in zip(shell, shell[1:]))
    s = int(math.isqrt(int(rho2 / 2)))        # half side of a square inside the disc
    s = s - 1
    if s < 4:
        return []
    cells = [(-1, -1), (0, -1), (-1, 0), (0, 0)]
    rng.shuffle(cells)
    holes = []
    for cx, cy in cells[:nh]:
        x0 = c[0] + cx * s + 1; y0 = c[1] + cy * s + 1
        w = s - 2
        if w < 2: continue
        kind = rng.choice(['tri', 'quad'])
        if kind == 'tri':
            h = [(x0, y0), (x0 + w, y0), (x0 + rng.randint(0, w), y0 + w)]
        else:
            h = [(x0, y0), (x0 + w, y0 + rng.randint(0, w // 2)), (x0 + w, y0 + w), (x0 + rng.randint(0, w // 2), y0 + w)]
        if rng.random() < 0.5:
            h.reverse()
        k = rng.randrange(len(h)); h = h[k:] + h[:k]
        holes.append(h + [h[0]])
    return holes


def comb_polygon(rng):
    """rectilinear comb: narrow teeth of different heights (scan-line interior point), valid by construction"""
    nt = rng.randint(2, 5); tw = rng.choice([1, 2, 6]); gap = rng.choice([1, 2, 6]); base = rng.randint(1, 4)
    x = 0; ring = [(0, 0)]
    W = nt * tw + (nt - 1) * gap
    ring.append((W, 0))
    # walk back along the top from the right
    xs = W
    for t in range(nt):
        hgt = base + rng.randint(1, 9)
        ring.append((xs, hgt)); ring.append((xs - tw, hgt))
        xs -= tw
        if t < nt - 1:
            ring.append((xs, base)); ring.append((xs - gap, base)); xs -= gap
    o = rpt(rng, 100)
    ring = [(p[0] * 6 + o[0], p[1] * 6 + o[1]) for p in ring]
    return ring + [ring[0]]


def convex_polygon(rng, R=60):
    from functools import reduce
    while True:
        pts = list({rpt(rng, R) for _ in range(rng.randint(3, 10))})
        h = py_hull(pts)
        if len(h) >= 3:
            return h + [h[0]]


def py_hull(pts):
    pts = sorted(set(pts))
    if len(pts) <= 2:
        return pts
    def half(ps):
        st = []
        for p in ps:
            while len(st) >= 2 and orient(st[-2], st[-1], p) <= 0:
                st.pop()
            st.append(p)
        return st
    lo = half(pts); up = half(pts[::-1])
    return lo[:-1] + up[:-1]


def add_dups_and_collinear(rng, ring):
    """repeat vertices and insert edge midpoints (coordinates are multiples of 2 by construction where this is used)"""
    o = ring[:-1]
    out = []
    for i, p in enumerate(o):
        out.append(p)
        r = rng.random()
        if r < 0.15:
            out.append(p)
        elif r < 0.3:
            q = o[(i + 1) % len(o)]
            if (p[0] + q[0]) % 2 == 0 and (p[1] + q[1]) % 2 == 0:
                out.append(((p[0] + q[0]) // 2, (p[1] + q[1]) // 2))
    return out + [out[0]]


def gen_valid_polygon(rng):
    """(rings, label) — a polygon that is valid by construction"""
    k = rng.choice(['star', 'star', 'starholes', 'starholes', 'comb', 'convex', 'sliver', 'dupcol'])
    if k == 'comb':
        return [comb_polygon(rng)], k
    if k == 'convex':
        return [convex_polygon(rng)], k
    if k == 'sliver':
        a = rpt(rng, 1000); L = rng.randint(50, 4000)
        ring = [a, (a[0] + L, a[1] + rng.randint(-2, 2)), (a[0] + rng.randint(0, L), a[1] + rng.choice([1, 2, 3]) + 3)]
        if orient(*ring) < 0: ring.reverse()
        return [ring + [ring[0]]], k
    shell, c = star_polygon(rng)
    if k == 'star':
        if rng.random() < 0.5: shell.reverse()
        return [shell], k
    if k == 'dupcol':
        return [add_dups_and_collinear(rng, shell)], k
    holes = hole_boxes(rng, shell, c, rng.randint(1, 3))
    if rng.random() < 0.5: shell.reverse()
    return [shell] + holes, 'starholes' if holes else 'star'



def gen_scanline_polygon(rng):
    """valid polygons aimed at InteriorPointArea's case split: the scan line is the mean of the two vertex ordinates that
    bracket the centre of the Y extent (shell AND hole vertices); a hole (or the shell) has a vertex / a horizontal edge
    exactly on the line that the SHELL vertices alone would give, at the midpoint of the widest section.
    returns (rings with integer coordinates, label)"""
    from fractions import Fraction as Fr
    W = 4 * rng.randint(2, 12); H = 4 * rng.randint(2, 12)
    kind = rng.choice(['rect', 'rect', 'hex', 'hex', 'centrevertex'])
    if kind == 'rect':
        shell = [(0, 0), (W, 0), (W, H), (0, H)]
    elif kind == 'hex':          # side vertices below / above the centre: they bracket the centre of the extent
        yl = rng.randint(1, H // 2 - 1) if H // 2 - 1 >= 1 else 1
        yh = rng.randint(H // 2 + 1, H - 1)
        a = rng.randint(1, 6)
        shell = [(0, 0), (W, 0), (W + a, yl), (W, H), (0, H), (-a, yh)]
    else:                        # a shell vertex exactly at the centre of the extent (the <= branch)
        a = rng.randint(1, 6)
        shell = [(0, 0), (W, 0), (W + a, H // 2), (W, H), (0, H)]
    ys = sorted({p[1] for p in shell}); cy = Fr(H, 2)
    lo = max(y for y in ys if y <= cy); hi = min(y for y in ys if y > cy)
    S = Fr(lo + hi, 2)
    # section of the convex shell at y = S
    xs = []
    for a_, b_ in zip(shell, shell[1:] + shell[:1]):
        if a_[1] != b_[1] and min(a_[1], b_[1]) <= S <= max(a_[1], b_[1]):
            xs.append(Fr(a_[0]) + (S - a_[1]) * Fr(b_[0] - a_[0], b_[1] - a_[1]))
    xl, xr = min(xs), max(xs); mx = (xl + xr) / 2
    hk = rng.choice(['apex', 'apex', 'topedge', 'topedge', 'nadir', 'bottomedge', 'side', 'offcentre', 'none'])
    w = Fr(rng.randint(1, 3)); h = Fr(rng.randint(1, 3)); w2 = Fr(rng.randint(1, 3))
    if hk == 'apex':
        hole = [(mx - w, S - h), (mx + w2, S - h), (mx, S)]
    elif hk == 'topedge':
        hole = [(mx - w, S - h), (mx + w2, S - h), (mx + w2, S), (mx - w, S)]
    elif hk == 'nadir':
        hole = [(mx, S), (mx + w2, S + h), (mx - w, S + h)]
    elif hk == 'bottomedge':
        hole = [(mx - w, S), (mx + w2, S), (mx + w2, S + h), (mx - w, S + h)]
    elif hk == 'side':           # a vertex on the line, away from the midpoint
        hole = [(mx + 1, S - h), (mx + 1 + w, S - h), (mx + 1 + w / 2, S)]
    elif hk == 'offcentre':      # apex at the midpoint, slightly below the line
        hole = [(mx - w, S - h - Fr(1, 2)), (mx + w2, S - h - Fr(1, 2)), (mx, S - Fr(1, 2))]
    else:
        hole = None
    rings = [shell]
    if hole is not None:
        inside = all(all(orient(a_, b_, q) > 0 for a_, b_ in zip(shell, shell[1:] + shell[:1])) for q in hole)
        if inside:
            if rng.random() < 0.5: hole = hole[::-1]
            k = rng.randrange(len(hole)); hole = hole[k:] + hole[:k]
            rings.append(hole)
        else:
            hk = 'none'
    den = 1
    for r in rings:
        for q in r:
            for v in q:
                den = den * Fr(v).denominator // math.gcd(den, Fr(v).denominator)
    rings = [[(int(Fr(q[0]) * den), int(Fr(q[1]) * den)) for q in r] for r in rings]
    if rng.random() < 0.5: rings[0] = rings[0][::-1]
    return [r + [r[0]] for r in rings], 'scan:%s:%s' % (kind, hk)


def gen_line(rng, R=50):
    k = rng.choice(['open', 'open', 'closed', 'dups', 'zero', 'palin', 'two'])
    n = rng.randint(2, 7)
    pts = [rpt(rng, R) for _ in range(n)]
    if k == 'closed':
        pts = pts + [pts[0]]
    elif k == 'dups':
        pts = [p for p in pts for _ in range(rng.choice([1, 1, 2]))]
    elif k == 'zero':
        pts = [pts[0]] * rng.randint(2, 4)
    elif k == 'palin':
        pts = pts + pts[-2::-1]
    elif k == 'two':
        pts = pts[:2]
    return pts


def gen_degenerate_ring(rng):
    """rings on which isCCW / scroll are not well behaved: flat, all-equal, bow-tie, minimum repeated (seam / revisited)"""
    k = rng.choice(['flat', 'allsame', 'bowtie', 'seamdup', 'revisit', 'flatcap', 'spike'])
    o = rpt(rng, 20)
    if k == 'flat':
        a = rng.randint(1, 5); b = rng.randint(a + 1, 9); d = rng.choice([(1, 0), (0, 1), (1, 1), (2, -1)])
        ring = [(0, 0), (a * d[0], a * d[1]), (b * d[0], b * d[1])]
        if rng.random() < 0.5: ring = [ring[0], ring[2], ring[1]]
    elif k == 'allsame':
        ring = [(0, 0)] * rng.randint(3, 5)
    elif k == 'bowtie':
        w, hgt = rng.randint(1, 5), rng.randint(1, 5)
        ring = [(0, 0), (w, hgt), (w, 0), (0, hgt)]
        if rng.random() < 0.3: ring = [(0, 0), (w, hgt), (w, 0), (0, hgt + rng.randint(1, 3))]
    elif k == 'seamdup':
        ring = [(0, 0), (0, 0), (rng.randint(1, 5), 0), (rng.randint(1, 5), rng.randint(1, 5))]
    elif k == 'revisit':       # touches itself at the minimum vertex
        ring = [(0, 0), (3, 1), (3, 3), (0, 0), (2, -1), (4, -3)]
    elif k == 'flatcap':
        ring = [(0, 0), (4, 0), (4, 3), (2, 3), (0, 3)]
    else:
        ring = [(0, 0), (4, 0), (4, 4), (2, 4), (2, 7), (2, 4), (0, 4)]
    r = rng.randrange(len(ring)); ring = ring[r:] + ring[:r]
    ring = [(p[0] + o[0], p[1] + o[1]) for p in ring]
    return ring + [ring[0]], k


def gen_geometry(rng, depth=0, allow_invalid=True):
    """any geometry type; returns (tree, labels set)"""
    r = rng.random()
    if depth == 0 and r < 0.05:
        return rng.choice([('P', []), ('L', []), ('Y', []), ('M', 4, []), ('M', 5, []), ('M', 6, []), ('M', 7, [])]), {'empty'}
    k = rng.choice(['P', 'L', 'L', 'R', 'Y', 'Y', 'Y', 'MP', 'ML', 'MY', 'GC', 'GC'] if depth < 2 else ['P', 'L', 'Y'])
    if k == 'P':
        return (('P', []), {'emptyelem'}) if rng.random() < 0.1 else (('P', [rpt(rng, 30)]), {'point'})
    if k == 'L':
        return (('L', []), {'emptyelem'}) if rng.random() < 0.07 else (('L', gen_line(rng)), {'line'})
    if k == 'R':
        if rng.random() < 0.3 and allow_invalid:
            ring, lab = gen_degenerate_ring(rng)
            if len(ring) >= 4:
                return ('R', ring), {'ring', 'deg:' + lab}
        rings, lab = gen_valid_polygon(rng)
        return ('R', rings[0]), {'ring'}
    if k == 'Y':
        if rng.random() < 0.06:
            return ('Y', []), {'emptyelem'}
        if rng.random() < 0.25 and allow_invalid:
            ring, lab = gen_degenerate_ring(rng)
            if len(ring) >= 4:
                return ('Y', [ring]), {'poly', 'deg:' + lab}
        rings, lab = gen_valid_polygon(rng)
        return ('Y', rings), {'poly', 'valid:' + lab}
    labs = set()
    n = rng.choice([0, 1, 2, 2, 3, 3, 4, 5])
    es = []
    for _ in range(n):
        if k == 'MP':
            e, l = (('P', []), {'emptyelem'}) if rng.random() < 0.1 else (('P', [rpt(rng, 6)]), {'point'})
        elif k == 'ML':
            e, l = (('L', []), {'emptyelem'}) if rng.random() < 0.1 else (('L', gen_line(rng, 8)), {'line'})
        elif k == 'MY':
            e, l = gen_geometry(rng, 3, allow_invalid)
            while e[0] != 'Y':
                e, l = gen_geometry(rng, 3, allow_invalid)
        else:
            e, l = gen_geometry(rng, depth + 1, allow_invalid)
        es.append(e); labs |= l
    if rng.random() < 0.2 and es:
        es.append(rng.choice(es)); labs.add('dupelem')
    return ('M', {'MP': 4, 'ML': 5, 'MY': 6, 'GC': 7}[k], es), labs | {'coll'}


def to_float_tree(g, s=1.0, ox=0.0, oy=0.0):
    return gmap(g, lambda p: (float(p[0]) * s + ox, float(p[1]) * s + oy))


AFFINE = [(1.0, 0.0, 0.0)] * 4 + [(1e-3, 0.0, 0.0), (0.1, 1e6, -1e6), (1e-3, 1e9, 1e9), (3.0, 0.5, 0.25), (1e6, 0.0, 0.0), (0.7, 1e3, 2e3)]


def pick_affine(rng):
    return rng.choice(AFFINE)


# ------------------------------------------------------------------ variants (ring start, ring direction, element order)
def rot_ring(ring, k, flip):
    o = ring[:-1]
    if not o:
        return ring
    k %= len(o)
    o = o[k:] + o[:k]
    if flip:
        o = o[::-1]
    return o + [o[0]]


def variant(rng, g, rot=True, flip=True, perm=True):
    k = g[0]
    if k == 'P':
        return g
    if k in 'LR':
        c = g[1]
        if len(c) >= 2 and c[0] == c[-1] and (k == 'R' or len(c) >= 4):
            return (k, rot_ring(c, rng.randrange(len(c)) if rot else 0, flip and rng.random() < 0.5))
        return g
    if k == 'Y':
        if not g[1]:
            return g
        rings = [rot_ring(r, rng.randrange(max(1, len(r) - 1)) if rot else 0, flip and rng.random() < 0.5) for r in g[1]]
        holes = rings[1:]
        if perm: rng.shuffle(holes)
        return ('Y', [rings[0]] + holes)
    es = [variant(rng, e, rot, flip, perm) for e in g[2]]
    if perm: rng.shuffle(es)
    return ('M', g[1], es)


def all_ring_variants(ring):
    o = ring[:-1]
    for k in range(len(o)):
        for fl in (False, True):
            yield rot_ring(ring, k, fl)


